(* C05/ProofsLib.v - association lists, Forall2 and other list facts used by the heap proofs. *)
From Coq Require Import NArith List Bool Lia.
From Morfuse Require Import Base.Arr Base.ListX C05.Model C05.Spec.
Import ListNotations.
Local Open Scope N_scope.

(* ---- association lists ------------------------------------------------------------------ *)
Section Assoc.
  Context {A B : Type} (P : N * A -> N * B -> Prop).
  Hypothesis Pkey : forall x y, P x y -> fst x = fst y.

  Lemma F2_lookup_some l sl r x : Forall2 P l sl -> lookup r l = Some x ->
    exists y, lookup r sl = Some y /\ P (r, x) (r, y).
  Proof.
    induction 1 as [|[k a] [k' b] l sl Hp Hf IH]; cbn; [discriminate|].
    pose proof (Pkey _ _ Hp) as E. cbn in E. subst k'.
    destruct (N.eqb_spec k r) as [->|Hn].
    - intro H. injection H as <-. exists b. split; [reflexivity|exact Hp].
    - exact IH.
  Qed.

  Lemma F2_lookup_none l sl r : Forall2 P l sl -> lookup r l = None -> lookup r sl = None.
  Proof.
    induction 1 as [|[k a] [k' b] l sl Hp Hf IH]; cbn; [reflexivity|].
    pose proof (Pkey _ _ Hp) as E. cbn in E. subst k'.
    destruct (N.eqb_spec k r); [discriminate|exact IH].
  Qed.

  Lemma F2_lookup_some_r l sl r y : Forall2 P l sl -> lookup r sl = Some y ->
    exists x, lookup r l = Some x /\ P (r, x) (r, y).
  Proof.
    induction 1 as [|[k a] [k' b] l sl Hp Hf IH]; cbn; [discriminate|].
    pose proof (Pkey _ _ Hp) as E. cbn in E. subst k'.
    destruct (N.eqb_spec k r) as [->|Hn].
    - intro H. injection H as <-. exists a. split; [reflexivity|exact Hp].
    - exact IH.
  Qed.

  Lemma F2_del l sl r : Forall2 P l sl -> Forall2 P (del r l) (del r sl).
  Proof.
    induction 1 as [|[k a] [k' b] l sl Hp Hf IH]; cbn; [constructor|].
    pose proof (Pkey _ _ Hp) as E. cbn in E. subst k'.
    destruct (k =? r); [exact IH|constructor; assumption].
  Qed.

  Lemma F2_upd l sl r x y : Forall2 P l sl -> P (r, x) (r, y) -> Forall2 P (upd r x l) (upd r y sl).
  Proof.
    intros H Hxy. induction H as [|[k a] [k' b] l sl Hp Hf IH]; cbn; [constructor|].
    pose proof (Pkey _ _ Hp) as E. cbn in E. subst k'.
    destruct (N.eqb_spec k r) as [->|Hn]; constructor; assumption.
  Qed.
End Assoc.

Lemma upd_same {A} r (x : A) l : lookup r l = Some x -> upd r x l = l.
Proof.
  induction l as [|[k a] l IH]; cbn; [reflexivity|].
  destruct (N.eqb_spec k r) as [->|Hn].
  - intro H. now injection H as ->.
  - intro H. f_equal. now apply IH.
Qed.

Lemma lookup_in {A} r (x : A) l : lookup r l = Some x -> In (r, x) l.
Proof.
  induction l as [|[k a] l IH]; cbn; [discriminate|].
  destruct (N.eqb_spec k r) as [->|Hn].
  - intro H. injection H as ->. now left.
  - intro H. right. now apply IH.
Qed.

Lemma lookup_key_in {A} r (x : A) l : lookup r l = Some x -> In r (map fst l).
Proof. intro H. apply lookup_in in H. apply in_map_iff. exists (r, x). now split. Qed.

Lemma in_lookup {A} r (x : A) l : NoDup (map fst l) -> In (r, x) l -> lookup r l = Some x.
Proof.
  induction l as [|[k a] l IH]; cbn; intros Hnd Hin; [destruct Hin|].
  inversion Hnd as [|k' l' Hk Hnd']; subst.
  destruct Hin as [E|Hin].
  - injection E as -> ->. now rewrite N.eqb_refl.
  - destruct (N.eqb_spec k r) as [->|Hn]; [|now apply IH].
    exfalso. apply Hk. apply in_map_iff. exists (r, x). now split.
Qed.

Lemma lookup_none_notin {A} r (l : list (N * A)) : lookup r l = None -> ~ In r (map fst l).
Proof.
  induction l as [|[k a] l IH]; cbn; [tauto|].
  destruct (N.eqb_spec k r) as [->|Hn]; [discriminate|].
  intros H [E|Hin]; [congruence|]. now apply IH.
Qed.

Lemma lookup_app {A} r (l1 l2 : list (N * A)) :
  lookup r (l1 ++ l2) = match lookup r l1 with Some x => Some x | None => lookup r l2 end.
Proof.
  induction l1 as [|[k a] l1 IH]; cbn; [reflexivity|].
  destruct (k =? r); [reflexivity|exact IH].
Qed.

Lemma map_fst_del {A} r (l : list (N * A)) : map fst (del r l) = delN r (map fst l).
Proof.
  induction l as [|[k a] l IH]; cbn; [reflexivity|].
  destruct (k =? r); cbn; [exact IH|now f_equal].
Qed.

Lemma map_fst_upd {A} r (x : A) l : map fst (upd r x l) = map fst l.
Proof.
  induction l as [|[k a] l IH]; cbn; [reflexivity|].
  destruct (N.eqb_spec k r) as [->|Hn]; cbn; [reflexivity|now f_equal].
Qed.

Lemma in_delN t x l : In x (delN t l) <-> In x l /\ x <> t.
Proof.
  unfold delN. rewrite filter_In. split.
  - intros [H E]. split; [exact H|]. destruct (N.eqb_spec x t); [discriminate|assumption].
  - intros [H E]. split; [exact H|]. destruct (N.eqb_spec x t); [contradiction|reflexivity].
Qed.

Lemma nodup_delN t l : NoDup l -> NoDup (delN t l).
Proof. intro H. unfold delN. now apply NoDup_filter. Qed.

Lemma memN_in t l : memN t l = true <-> In t l.
Proof.
  unfold memN. rewrite existsb_exists. split.
  - intros [x [Hx E]]. apply N.eqb_eq in E. now subst.
  - intro H. exists t. split; [exact H|apply N.eqb_refl].
Qed.

Lemma in_del {A} r k (x : A) l : In (k, x) (del r l) -> In (k, x) l /\ k <> r.
Proof.
  induction l as [|[k' a] l IH]; cbn; [tauto|].
  destruct (N.eqb_spec k' r) as [->|Hn].
  - intro H. apply IH in H. tauto.
  - intros [E|H]; [injection E as -> ->; split; [now left|exact Hn]|]. apply IH in H. tauto.
Qed.

Lemma in_del_intro {A} r k (x : A) l : In (k, x) l -> k <> r -> In (k, x) (del r l).
Proof.
  induction l as [|[k' a] l IH]; cbn; [tauto|].
  intros [E|H] Hn.
  - injection E as -> ->. destruct (N.eqb_spec k r); [contradiction|now left].
  - destruct (k' =? r); [now apply IH|right; now apply IH].
Qed.

Definition amap {A} (f : N -> A -> A) (l : list (N * A)) : list (N * A) :=
  map (fun x => (fst x, f (fst x) (snd x))) l.

Lemma amap_id {A} (l : list (N * A)) : amap (fun _ b => b) l = l.
Proof. unfold amap. induction l as [|[k a] l IH]; cbn; [reflexivity|now f_equal]. Qed.

Lemma upd_amap {A} r (y : A) l : NoDup (map fst l) ->
  upd r y l = amap (fun k b => if k =? r then y else b) l.
Proof.
  unfold amap. induction l as [|[k a] l IH]; cbn; intro Hnd; [reflexivity|].
  inversion Hnd as [|k' l' Hk Hnd']; subst.
  destruct (N.eqb_spec k r) as [->|Hn].
  - f_equal. clear IH Hnd Hnd'. induction l as [|[k a'] l IH]; cbn; [reflexivity|].
    cbn in Hk. destruct (N.eqb_spec k r) as [->|Hn]; [exfalso; apply Hk; now left|].
    f_equal. apply IH. intro H. apply Hk. now right.
  - f_equal. now apply IH.
Qed.

Lemma F2_amap {A B} (P P' : N * A -> N * B -> Prop) f g l sl :
  Forall2 P l sl ->
  (forall x y, In x l -> In y sl -> P x y ->
               P' (fst x, f (fst x) (snd x)) (fst y, g (fst y) (snd y))) ->
  Forall2 P' (amap f l) (amap g sl).
Proof.
  unfold amap. induction 1 as [|x y l sl Hp Hf IH]; cbn; intro Hi; [constructor|].
  constructor.
  - apply (Hi x y); [left; reflexivity|left; reflexivity|exact Hp].
  - apply IH. intros x' y' Hx Hy. apply (Hi x' y'); right; assumption.
Qed.

Lemma F2_keys {A B} (P : N * A -> N * B -> Prop) l sl :
  (forall x y, P x y -> fst x = fst y) -> Forall2 P l sl -> map fst l = map fst sl.
Proof.
  intro Pk. induction 1 as [|x y l sl Hp Hf IH]; cbn; [reflexivity|].
  f_equal; [now apply Pk|exact IH].
Qed.

Lemma in_amap {A} (f : N -> A -> A) k z l : In (k, z) (amap f l) -> exists a, In (k, a) l /\ z = f k a.
Proof.
  unfold amap. rewrite in_map_iff. intros [[k' a] [E H]]. cbn in E. injection E as -> <-.
  now exists a.
Qed.

Lemma map_fst_amap {A} (f : N -> A -> A) l : map fst (amap f l) = map fst l.
Proof. unfold amap. rewrite map_map. cbn. reflexivity. Qed.

Lemma delN_notin t l : ~ In t l -> delN t l = l.
Proof.
  unfold delN. induction l as [|a l IH]; cbn; intro H; [reflexivity|].
  destruct (N.eqb_spec a t) as [->|Hn]; [exfalso; apply H; now left|].
  cbn. f_equal. apply IH. intro Hin. apply H. now right.
Qed.

Lemma del_notin {A} t (l : list (N * A)) : ~ In t (map fst l) -> del t l = l.
Proof.
  induction l as [|[k a] l IH]; cbn; intro H; [reflexivity|].
  destruct (N.eqb_spec k t) as [->|Hn]; [exfalso; apply H; now left|].
  f_equal. apply IH. intro Hin. apply H. now right.
Qed.

Lemma length_del {A} t (x : A) l : NoDup (map fst l) -> lookup t l = Some x ->
  length (del t l) = pred (length l).
Proof.
  induction l as [|[k a] l IH]; cbn; intros Hnd Hl; [discriminate|].
  inversion Hnd as [|k' l' Hk Hnd']; subst.
  destruct (N.eqb_spec k t) as [->|Hn].
  - now rewrite del_notin.
  - cbn. rewrite (IH Hnd' Hl). destruct l as [|y l]; [discriminate|reflexivity].
Qed.

Lemma F2_impl {A B} (P Q : A -> B -> Prop) l sl :
  (forall x y, P x y -> Q x y) -> Forall2 P l sl -> Forall2 Q l sl.
Proof. intro Hi. induction 1; constructor; auto. Qed.

Lemma in_amap_upd {A} r (y : A) k z l :
  In (k, z) (amap (fun k b => if k =? r then y else b) l) ->
  (k = r /\ z = y) \/ (k <> r /\ In (k, z) l).
Proof.
  intro H. apply in_amap in H. destruct H as [a [Hin E]].
  destruct (N.eqb_spec k r) as [->|Hn]; [left; now split|right; subst; now split].
Qed.

Lemma lookup_unique {A} r (x x' : A) l : NoDup (map fst l) -> lookup r l = Some x -> In (r, x') l -> x' = x.
Proof.
  intros Hnd Hl Hin. apply (in_lookup _ _ _ Hnd) in Hin. congruence.
Qed.

Lemma lookup_upd_other {A} r r' (y : A) l : r <> r' -> lookup r (upd r' y l) = lookup r l.
Proof.
  intro Hn. induction l as [|[k a] l IH]; cbn; [reflexivity|].
  destruct (N.eqb_spec k r') as [->|Hk]; cbn.
  - destruct (N.eqb_spec r' r); [congruence|reflexivity].
  - destruct (k =? r); [reflexivity|exact IH].
Qed.

Lemma amap_amap {A} (f g : N -> A -> A) l : amap g (amap f l) = amap (fun k b => g k (f k b)) l.
Proof. unfold amap. rewrite map_map. reflexivity. Qed.

Lemma fold_map_fst {A} (f : N -> A -> A) (l : list (N * N)) : forall a,
  fold_left (fun a (x : N * N) => f (fst x) a) l a = fold_left (fun a t => f t a) (map fst l) a.
Proof. induction l as [|x l IH]; intro a; cbn [fold_left map]; [reflexivity|apply IH]. Qed.

Lemma F2_in_r {A B} (P : A -> B -> Prop) l sl y : Forall2 P l sl -> In y sl -> exists x, In x l /\ P x y.
Proof.
  induction 1 as [|x0 y0 l sl Hp Hf IH]; intros Hin; [destruct Hin|].
  destruct Hin as [->|Hin]; [exists x0; split; [now left|exact Hp]|].
  destruct (IH Hin) as [x [H1 H2]]. exists x. split; [now right|exact H2].
Qed.

Lemma F2_in_l {A B} (P : A -> B -> Prop) l sl x : Forall2 P l sl -> In x l -> exists y, In y sl /\ P x y.
Proof.
  induction 1 as [|x0 y0 l sl Hp Hf IH]; intros Hin; [destruct Hin|].
  destruct Hin as [->|Hin]; [exists y0; split; [now left|exact Hp]|].
  destruct (IH Hin) as [y [H1 H2]]. exists y. split; [now right|exact H2].
Qed.

Lemma F2_transfer {A B} (P Q : A -> B -> Prop) l sl :
  Forall2 P l sl -> (forall x y, In x l -> In y sl -> P x y -> Q x y) -> Forall2 Q l sl.
Proof.
  induction 1 as [|x y l sl Hp Hf IH]; intro Hi; constructor.
  - apply Hi; [now left|now left|exact Hp].
  - apply IH. intros x' y' Hx Hy. apply Hi; now right.
Qed.

Lemma dval_eq_dec (a b : dval) : {a = b} + {a <> b}.
Proof. decide equality; apply N.eq_dec. Qed.

Lemma val_eq_dec (a b : val) : {a = b} + {a <> b}.
Proof. decide equality; [apply dval_eq_dec|apply N.eq_dec]. Qed.

Lemma option_N_eq_dec (a b : option N) : {a = b} + {a <> b}.
Proof. decide equality. apply N.eq_dec. Qed.

Lemma delN_all l : forall a, (forall x, In x a -> In x l) -> fold_left (fun a t => delN t a) l a = [].
Proof.
  induction l as [|t l IH]; intros a Ha; cbn [fold_left].
  - destruct a as [|x a]; [reflexivity|]. destruct (Ha x); now left.
  - apply IH. intros x Hx. apply in_delN in Hx. destruct Hx as [Hx Hn].
    destruct (Ha x Hx) as [E|H]; [congruence|exact H].
Qed.
