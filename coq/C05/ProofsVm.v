(* C05/ProofsVm.v - the VM state machine: between two thread runs every live VM is Idling, so an
   order that another thread gives to a parked thread (`t wait e`, `t pause`: Suspend) finds and
   leaves its VM Idling, and `t delete` from another thread takes the immediate branch of
   NotifyDelete; a thread that is deleted while it executes takes the deferred branch. *)
From Coq Require Import NArith List Bool Lia.
From Morfuse Require Import Base.Arr Base.ListX C05.Model C05.Spec C05.ProofsCells C05.ProofsLib C05.ProofsHeap C05.Proofs C05.ProofsCor.
Import ListNotations.
Local Open Scope N_scope.

(* every VM outside the native stack S is Idling *)
Definition idle_except (m : mheap) (S : list N) : Prop :=
  forall t st, lookup t (snd m) = Some st -> In t S \/ st = VIdle.
Definition all_idle (m : mheap) : Prop := idle_except m [].
(* the VM of t, if there is one, is not Running *)
Definition not_running (m : mheap) (t : N) : Prop := forall st, lookup t (snd m) = Some st -> st <> VRun.

Lemma lookup_del {A} u t (l : list (N * A)) : lookup u (del t l) = if u =? t then None else lookup u l.
Proof.
  induction l as [|[k a] l IH]; cbn [del lookup]; [now destruct (u =? t)|].
  destruct (N.eqb_spec k t) as [->|Hn].
  - rewrite IH. destruct (N.eqb_spec u t) as [->|Hu]; [reflexivity|].
    destruct (N.eqb_spec t u); [congruence|reflexivity].
  - cbn [lookup]. rewrite IH. destruct (N.eqb_spec k u) as [->|Hk].
    + destruct (N.eqb_spec u t); [contradiction|reflexivity].
    + reflexivity.
Qed.

Lemma lookup_upd {A} u t (x : A) l : lookup u (upd t x l) =
  if u =? t then match lookup t l with Some _ => Some x | None => None end else lookup u l.
Proof.
  induction l as [|[k a] l IH]; cbn [upd lookup]; [now destruct (u =? t)|].
  destruct (N.eqb_spec k t) as [->|Hn]; cbn [lookup].
  - destruct (N.eqb_spec u t) as [->|Hu]; [now rewrite N.eqb_refl|].
    destruct (N.eqb_spec t u); [congruence|reflexivity].
  - rewrite IH. destruct (N.eqb_spec u t) as [->|Hu].
    + destruct (N.eqb_spec k t); [contradiction|reflexivity].
    + reflexivity.
Qed.

Lemma ie_del (m : mheap) S t (h' : heap) : idle_except m S -> idle_except (h', del t (snd m)) S.
Proof.
  intros H u st Hl. cbn [snd] in Hl. rewrite lookup_del in Hl. destruct (u =? t); [discriminate|]. eapply H; eauto.
Qed.

Lemma ie_end m S t e : idle_except m S -> idle_except (m_end t e m) S.
Proof. apply ie_del. Qed.

Lemma ie_delete m S t : idle_except m S -> idle_except (m_delete t m) S.
Proof. intro H. unfold m_delete. destruct (lookup t (snd m)) as [[| |]|]; try (now apply ie_del). exact H. Qed.

Lemma ie_upd m S t x : idle_except m S -> (In t S \/ x = VIdle) -> idle_except (fst m, upd t x (snd m)) S.
Proof.
  intros H Hx u st Hl. cbn [snd] in Hl. rewrite lookup_upd in Hl. destruct (N.eqb_spec u t) as [->|Hu].
  - destruct (lookup t (snd m)); [|discriminate]. injection Hl as <-. exact Hx.
  - eapply H; eauto.
Qed.

(* Suspend: only a Running VM changes, and a VM outside the native stack is not Running *)
Lemma ie_suspend m S t : idle_except m S -> idle_except (m_suspend t m) S.
Proof.
  intro H. unfold m_suspend. destruct (lookup t (snd m)) as [[| |]|] eqn:E; try exact H.
  apply ie_upd; [exact H|]. destruct (H t VRun E) as [Hin|Hd]; [now left|discriminate].
Qed.

Lemma ie_tail m S t : idle_except m S -> idle_except (m_tail t m) S.
Proof.
  intro H. unfold m_tail. destruct (lookup t (snd m)) as [[| |]|] eqn:E; try exact H.
  apply ie_upd; [exact H|now right].
Qed.

Lemma ie_exec m S t : idle_except m S -> In t S -> idle_except (m_exec t m) S.
Proof.
  intros H Hin. unfold m_exec. destruct (lookup t (snd m)); [|exact H]. apply ie_upd; [exact H|now left].
Qed.

Lemma ie_weaken m S S' : idle_except m S -> (forall t, In t S -> In t S') -> idle_except m S'.
Proof. intros H Hs t st Hl. destruct (H t st Hl); auto. Qed.

Lemma ie_on_heap m S (f : heap -> heap) : idle_except m S -> idle_except (on_heap f m) S.
Proof. intros H t st Hl. eapply H; eauto. Qed.

Lemma ie_append (m : mheap) S (h' : heap) c : idle_except m S -> idle_except (h', snd m ++ [(c, VRun)]) (c :: S).
Proof.
  intros H u st Hl. cbn [snd] in Hl. rewrite lookup_app in Hl. destruct (lookup u (snd m)) as [x|] eqn:E.
  - injection Hl as <-. destruct (H u x E); [left; now right|now right].
  - cbn [lookup] in Hl. destruct (N.eqb_spec c u) as [->|]; [left; now left|discriminate].
Qed.

Lemma ie_spawn m S p : idle_except m S -> idle_except (fst (m_spawn p m)) (snd (m_spawn p m) :: S).
Proof. intro H. unfold m_spawn. destruct (spawn p (fst m)) as [h c]. cbn [fst snd]. now apply ie_append. Qed.

(* the tail of Execute takes the thread off the native stack *)
Lemma ie_pop m S c : idle_except m (c :: S) -> not_running m c -> idle_except (m_tail c m) S.
Proof.
  intros H Hn u st Hl. unfold m_tail in Hl. destruct (lookup c (snd m)) as [[| |]|] eqn:E.
  - exfalso. now apply (Hn VRun E).
  - cbn [snd] in Hl. rewrite lookup_upd in Hl. destruct (N.eqb_spec u c) as [->|Hu].
    + rewrite E in Hl. injection Hl as <-. now right.
    + destruct (H u st Hl) as [[Ec|Hin]|Hd]; [congruence|now left|now right].
  - destruct (N.eq_dec u c) as [->|Hu]; [rewrite E in Hl; injection Hl as <-; now right|].
    destruct (H u st Hl) as [[Ec|Hin]|Hd]; [congruence|now left|now right].
  - destruct (N.eq_dec u c) as [->|Hu]; [congruence|].
    destruct (H u st Hl) as [[Ec|Hin]|Hd]; [congruence|now left|now right].
Qed.

Lemma nr_suspend m t : not_running (m_suspend t m) t.
Proof.
  intros st Hl. unfold m_suspend in Hl. destruct (lookup t (snd m)) as [[| |]|] eqn:E; try congruence.
  cbn [snd] in Hl. rewrite lookup_upd, N.eqb_refl, E in Hl. congruence.
Qed.

Lemma nr_del (h' : heap) (m : mheap) t : not_running (h', del t (snd m)) t.
Proof. intros st Hl. cbn [snd] in Hl. rewrite lookup_del, N.eqb_refl in Hl. discriminate. Qed.

Lemma nr_delete m t : not_running (m_delete t m) t.
Proof.
  unfold m_delete. destruct (lookup t (snd m)) as [[| |]|] eqn:E; try apply nr_del. intros st Hl. congruence.
Qed.

(* ---- through the scheduler --------------------------------------------------------------------- *)
Lemma park_idle sc m S t w ts : idle_except m S ->
  idle_except (snd (park mheap m_suspend sc m t w ts)) S /\ not_running (snd (park mheap m_suspend sc m t w ts)) t.
Proof. intro H. unfold park. cbn [snd]. split; [now apply ie_suspend|apply nr_suspend]. Qed.

Lemma run_simple_idle sc m S t steps f : idle_except m S ->
  idle_except (snd (m_run_simple sc m t steps f)) S /\ not_running (snd (m_run_simple sc m t steps f)) t.
Proof.
  intro H. unfold run_simple. destruct steps as [|[d|d|w hp] rest]; try (now apply park_idle).
  destruct f as [[d|j| |k]| | |d|d| | |n|]; try (now apply park_idle); cbn [snd];
    (split; [first [now apply ie_end|now apply ie_delete]|first [apply nr_del|apply nr_delete]]).
Qed.

Lemma run_st_idle subs : forall sc m S t pre post f, idle_except m S ->
  idle_except (snd (m_run_st sc m t pre subs post f)) S /\ not_running (snd (m_run_st sc m t pre subs post f)) t.
Proof.
  induction subs as [|l more IH]; intros sc m S t pre post f H; cbn [run_st].
  - destruct pre as [|[d|d|w hp] rest]; try (now apply park_idle). now apply run_simple_idle.
  - destruct pre as [|[d|d|w hp] rest]; try (now apply park_idle).
    pose proof (ie_spawn m S t H) as H1. destruct (m_spawn t m) as [m1 c]. cbn [fst snd] in H1.
    destruct (IH sc m1 (c :: S) c (lpre l) (lpost l) (resolve [] (lfin l)) H1) as [H2 N2].
    destruct (m_run_st sc m1 c (lpre l) more (lpost l) (resolve [] (lfin l))) as [sa m2]. cbn [snd] in *.
    apply run_simple_idle. unfold m_spawned. apply ie_on_heap. now apply ie_pop.
Qed.

Lemma helper_act_idle sc m t a : all_idle m -> all_idle (snd (helper_act mheap m_delete m_suspend sc m t a)).
Proof.
  intro H. unfold helper_act. destruct a as [e| |].
  - destruct (parked_ts sc t); cbn [snd]; [now apply ie_suspend|exact H].
  - destruct (parked_ts sc t); cbn [snd]; [now apply ie_suspend|exact H].
  - cbn [snd]. now apply ie_delete.
Qed.

Lemma run_thr_idle sc m th : all_idle m -> all_idle (snd (m_run_thr sc m th)).
Proof.
  intro H. destruct th as [t ts|t [|]|t hp]; cbn [run_thr].
  - assert (H0 : idle_except (m_exec t m) [t]).
    { apply ie_exec; [|now left]. eapply ie_weaken; [exact H|]. intros u []. }
    destruct (run_st_idle (tsubs ts) sc (m_exec t m) [t] t (tpre ts) (tpost ts) (tfin ts) H0) as [H1 N1].
    destruct (m_run_st sc (m_exec t m) t (tpre ts) (tsubs ts) (tpost ts) (tfin ts)) as [sa m1]. cbn [snd] in *.
    now apply ie_pop.
  - cbn [snd]. now apply ie_delete.
  - destruct (lookup t (paused sc)); cbn [snd]; [now apply ie_suspend|exact H].
  - destruct hp as [|[d a] rest]; [exact H|].
    pose proof (helper_act_idle sc m t a H) as H1. destruct (helper_act mheap m_delete m_suspend sc m t a) as [sa m1]. exact H1.
Qed.

Lemma resume_idle fuel : forall sc m, all_idle m -> all_idle (snd (fst (m_resume fuel sc m))).
Proof.
  induction fuel as [|fuel IH]; intros sc m H; cbn [resume].
  - destruct (pend sc) as [|x r]; cbn [fst snd]; auto.
    destruct (frame sc <? wdue (min_w x r)); cbn [fst snd]; auto.
  - destruct (pend sc) as [|x r]; cbn [fst snd]; auto.
    destruct (frame sc <? wdue (min_w x r)); cbn [fst snd]; auto.
    pose proof (run_thr_idle (mkSched (remove_w (wseq (min_w x r)) (x :: r)) (paused sc) (frame sc) (clock sc) (sseq sc) (lvars sc))
                             m (wthr (min_w x r)) H) as H1.
    destruct (m_run_thr _ m (wthr (min_w x r))) as [sa m1]. cbn [snd] in H1. now apply IH.
Qed.

Theorem step_idle sc m o : all_idle m -> all_idle (snd (fst (m_step (sc, m) o))).
Proof.
  intro H. unfold m_step. destruct o as [lbl np pt prog args|r|r|r|r|a b|a b|dt| |]; cbn [step_op];
    try (cbn [fst snd]; now apply ie_on_heap).
  - unfold m_begin. destruct (call_begin lbl (fst m)) as [h t] eqn:Eb. destruct lbl.
    + pose proof (ie_append m [] h t H) as H1.
      match goal with |- context [match ?x with (_, _) => _ end] =>
        match x with context [prologue] => destruct x as [[params locvals] lv] end end.
      match goal with |- context [m_run_st ?a ?b ?c ?d ?e ?f ?g] =>
        destruct (run_st_idle e a b [t] c d f g H1) as [H2 N2];
        destruct (m_run_st a b c d e f g) as [sa m2] end.
      cbn [snd] in *. pose proof (ie_pop m2 [] t H2 N2) as H3.
      pose proof (resume_idle (weight sa) sa (m_tail t m2) H3) as H4.
      destruct (m_resume (weight sa) sa (m_tail t m2)) as [[sc3 m3] ok]. cbn [fst snd] in *.
      unfold m_finish. now apply ie_on_heap.
    + cbn [fst snd]. unfold m_finish. apply ie_on_heap. intros u st Hl. eapply H; eauto.
  - exact H.
  - pose proof (resume_idle (weight (mkSched (pend sc) (paused sc) (clock sc) (clock sc) (sseq sc) (lvars sc)))
                            (mkSched (pend sc) (paused sc) (clock sc) (clock sc) (sseq sc) (lvars sc)) m H) as H1.
    destruct (m_resume _ _ m) as [[sc3 m3] ok]. exact H1.
  - cbn [fst snd]. intros u st Hl. discriminate.
Qed.

(* Suspend finds an Idling VM Idling and leaves it so *)
Theorem suspend_idle_is_noop t m : lookup t (snd m) = Some VIdle -> m_suspend t m = m.
Proof. intro E. unfold m_suspend. now rewrite E. Qed.

(* from a state in which every VM is Idling, `t delete` takes the immediate branch of NotifyDelete *)
Theorem delete_of_a_parked_thread_is_immediate t m : all_idle m ->
  m_delete t m = match lookup t (snd m) with Some _ => (vm_kill t (fst m), del t (snd m)) | None => m end.
Proof.
  intro H. unfold m_delete. destruct (lookup t (snd m)) as [st|] eqn:E; [|reflexivity].
  destruct (H t st E) as [[]| ->]. reflexivity.
Qed.

(* between two host operations every live VM is Idling *)
Theorem reachable_all_idle ops : all_idle (snd (m_final ms_init ops)).
Proof.
  assert (G : forall st, all_idle (snd st) -> all_idle (snd (m_final st ops))).
  { induction ops as [|o ops IH]; intros [sc m] H; cbn [m_final]; [exact H|].
    apply IH. now apply step_idle. }
  apply G. intros t st Hl. discriminate.
Qed.
