(* C07/ProofsSim.v -- the interpreter [go] over two records of primitives that correspond under
   a relation R gives corresponding results, as long as the second (the specification) does
   not raise its flag. *)
From Coq Require Import NArith List Bool Lia.
From Morfuse Require Import Base.Arr C07.Model.
Import ListNotations.
Local Open Scope N_scope.

Section Sim.
  Context {T1 T2 : Type}.
  Variables (P1 : prims T1) (P2 : prims T2).
  Variable R : T1 -> T2 -> Prop.
  Notation fl := (p_flag P2).

  Hypothesis H_reg : forall a n w x1 x2, R x1 x2 -> R (p_reg P1 a n w x1) (p_reg P2 a n w x2).
  Hypothesis H_waiting : forall w x1 x2, R x1 x2 -> p_waiting P1 w x1 = p_waiting P2 w x2.
  Hypothesis H_detach : forall a n x1 x2, R x1 x2 ->
    fl (fst (p_detach P2 a n x2)) = false ->
    R (fst (p_detach P1 a n x1)) (fst (p_detach P2 a n x2)) /\
    snd (p_detach P1 a n x1) = snd (p_detach P2 a n x2).
  Hypothesis H_detach_all : forall a x1 x2, R x1 x2 ->
    fl (fst (p_detach_all P2 a x2)) = false ->
    R (fst (p_detach_all P1 a x1)) (fst (p_detach_all P2 a x2)) /\
    snd (p_detach_all P1 a x1) = snd (p_detach_all P2 a x2).
  Hypothesis H_cancel0 : forall w x1 x2, R x1 x2 ->
    R (fst (p_cancel0 P1 w x1)) (fst (p_cancel0 P2 w x2)) /\
    snd (p_cancel0 P1 w x1) = snd (p_cancel0 P2 w x2).
  Hypothesis H_cancel_rest : forall w x1 x2, R x1 x2 ->
    R (fst (p_cancel_rest P1 w x1)) (fst (p_cancel_rest P2 w x2)) /\
    snd (p_cancel_rest P1 w x1) = snd (p_cancel_rest P2 w x2).
  Hypothesis H_tadd : forall w d x1 x2, R x1 x2 -> R (p_tadd P1 w d x1) (p_tadd P2 w d x2).
  Hypothesis H_tremove : forall w x1 x2, R x1 x2 -> R (p_tremove P1 w x1) (p_tremove P2 w x2).
  Hypothesis H_tpop_first : forall x1 x2, R x1 x2 ->
    R (fst (p_tpop_first P1 x1)) (fst (p_tpop_first P2 x2)) /\
    snd (p_tpop_first P1 x1) = snd (p_tpop_first P2 x2).
  Hypothesis H_tpop : forall x1 x2, R x1 x2 ->
    R (fst (p_tpop P1 x1)) (fst (p_tpop P2 x2)) /\ snd (p_tpop P1 x1) = snd (p_tpop P2 x2).

  (* the flag of the specification is sticky *)
  Hypothesis F_reg : forall a n w x, fl x = true -> fl (p_reg P2 a n w x) = true.
  Hypothesis F_detach : forall a n x, fl x = true -> fl (fst (p_detach P2 a n x)) = true.
  Hypothesis F_detach_all : forall a x, fl x = true -> fl (fst (p_detach_all P2 a x)) = true.
  Hypothesis F_cancel0 : forall w x, fl x = true -> fl (fst (p_cancel0 P2 w x)) = true.
  Hypothesis F_cancel_rest : forall w x, fl x = true -> fl (fst (p_cancel_rest P2 w x)) = true.
  Hypothesis F_tadd : forall w d x, fl x = true -> fl (p_tadd P2 w d x) = true.
  Hypothesis F_tremove : forall w x, fl x = true -> fl (p_tremove P2 w x) = true.
  Hypothesis F_tpop_first : forall x, fl x = true -> fl (fst (p_tpop_first P2 x)) = true.
  Hypothesis F_tpop : forall x, fl x = true -> fl (fst (p_tpop P2 x)) = true.

  (* a result of the specification whose flag is raised *)
  Definition Fl (r : option (T2 * sh)) : Prop :=
    match r with None => True | Some (x, _) => fl x = true end.

  (* corresponding results, unless the specification raised its flag *)
  Definition rel (r1 : option (T1 * sh)) (r2 : option (T2 * sh)) : Prop :=
    match r2 with
    | None => True
    | Some (x2, s2) => fl x2 = true \/ exists x1, r1 = Some (x1, s2) /\ R x1 x2
    end.

  Lemma Fl_rel r1 r2 : Fl r2 -> rel r1 r2.
  Proof. destruct r2 as [[x s]|]; cbn; [now left | trivial]. Qed.

  Ltac flag_solve :=
    first [ assumption
          | apply F_reg; flag_solve | apply F_tadd; flag_solve | apply F_tremove; flag_solve ].

  Ltac fl_step IHfl :=
    match goal with
    | |- Fl None => exact I
    | |- Fl (Some (_, _)) => cbn [Fl]; flag_solve
    | |- Fl (go P2 _ _ _ _) => apply IHfl; flag_solve
    | |- Fl (match go P2 ?f ?k ?x ?s with _ => _ end) =>
        let Hq := fresh "Hq" in
        assert (Hq : Fl (go P2 f k x s)) by (apply IHfl; flag_solve);
        destruct (go P2 f k x s) as [[? ?]|]; [cbn [Fl] in Hq | exact I]
    | |- Fl (let '(_, _) := p_detach P2 ?a ?n ?x in _) =>
        let Hq := fresh "Hq" in
        assert (Hq : fl (fst (p_detach P2 a n x)) = true) by (apply F_detach; flag_solve);
        destruct (p_detach P2 a n x) as [? ?]; cbn [fst] in Hq
    | |- Fl (let '(_, _) := p_detach_all P2 ?a ?x in _) =>
        let Hq := fresh "Hq" in
        assert (Hq : fl (fst (p_detach_all P2 a x)) = true) by (apply F_detach_all; flag_solve);
        destruct (p_detach_all P2 a x) as [? ?]; cbn [fst] in Hq
    | |- Fl (let '(_, _) := p_cancel0 P2 ?a ?x in _) =>
        let Hq := fresh "Hq" in
        assert (Hq : fl (fst (p_cancel0 P2 a x)) = true) by (apply F_cancel0; flag_solve);
        destruct (p_cancel0 P2 a x) as [? ?]; cbn [fst] in Hq
    | |- Fl (let '(_, _) := p_cancel_rest P2 ?a ?x in _) =>
        let Hq := fresh "Hq" in
        assert (Hq : fl (fst (p_cancel_rest P2 a x)) = true) by (apply F_cancel_rest; flag_solve);
        destruct (p_cancel_rest P2 a x) as [? ?]; cbn [fst] in Hq
    | |- Fl (let '(_, _) := p_tpop_first P2 ?x in _) =>
        let Hq := fresh "Hq" in
        assert (Hq : fl (fst (p_tpop_first P2 x)) = true) by (apply F_tpop_first; flag_solve);
        destruct (p_tpop_first P2 x) as [? ?]; cbn [fst] in Hq
    | |- Fl (let '(_, _) := p_tpop P2 ?x in _) =>
        let Hq := fresh "Hq" in
        assert (Hq : fl (fst (p_tpop P2 x)) = true) by (apply F_tpop; flag_solve);
        destruct (p_tpop P2 x) as [? ?]; cbn [fst] in Hq
    | |- Fl (match (match ?v with _ => _ end) with _ => _ end) => destruct v
    | |- Fl (match (if ?c then _ else _) with _ => _ end) => destruct c
    | |- Fl (if ?c then _ else _) => destruct c
    | |- Fl (match ?v with _ => _ end) => destruct v
    end.

  Lemma Fl_go : forall f k x s, fl x = true -> Fl (go P2 f k x s).
  Proof.
    induction f as [|f IH]; intros k x s Hf; [exact I|].
    destruct k; cbn [go]; repeat fl_step IH.
  Qed.

  Ltac rsolve :=
    first [ assumption
          | apply H_reg; rsolve | apply H_tadd; rsolve | apply H_tremove; rsolve ].

  Ltac rel_step IH :=
    match goal with
    | |- rel _ None => exact I
    | |- rel (Some (_, ?s)) (Some (_, ?s)) => right; eexists; split; [reflexivity|]; rsolve
    | |- rel (go P1 ?f ?k ?x1 ?s) (go P2 ?f ?k ?x2 ?s) => apply IH; rsolve
    | |- rel (match go P1 ?f ?k ?x1 ?s with _ => _ end) (match go P2 ?f ?k ?x2 ?s with _ => _ end) =>
        let Hq := fresh "Hq" in
        assert (Hq : rel (go P1 f k x1 s) (go P2 f k x2 s)) by (apply IH; rsolve);
        destruct (go P2 f k x2 s) as [[? ?]|]; [|exact I];
        cbn [rel] in Hq;
        let Hf := fresh "Hf" in let E := fresh "E" in let HR' := fresh "HR" in
        destruct Hq as [Hf | [? [E HR']]];
        [ apply Fl_rel; repeat fl_step Fl_go | rewrite E; clear E ]
    | HR : R ?x1 ?x2 |- rel (let '(_, _) := p_detach P1 ?a ?n ?x1 in _) (let '(_, _) := p_detach P2 ?a ?n ?x2 in _) =>
        let Hq := fresh "Hq" in
        pose proof (H_detach a n x1 x2 HR) as Hq;
        destruct (p_detach P1 a n x1) as [? ?]; destruct (p_detach P2 a n x2) as [?y ?]; cbn [fst snd] in Hq;
        let Hf := fresh "Hf" in
        destruct (fl y) eqn:Hf;
        [ apply Fl_rel; repeat fl_step Fl_go
        | let HR' := fresh "HR" in destruct (Hq eq_refl) as [HR' <-]; clear Hq ]
    | HR : R ?x1 ?x2 |- rel (let '(_, _) := p_detach_all P1 ?a ?x1 in _) (let '(_, _) := p_detach_all P2 ?a ?x2 in _) =>
        let Hq := fresh "Hq" in
        pose proof (H_detach_all a x1 x2 HR) as Hq;
        destruct (p_detach_all P1 a x1) as [? ?]; destruct (p_detach_all P2 a x2) as [?y ?]; cbn [fst snd] in Hq;
        let Hf := fresh "Hf" in
        destruct (fl y) eqn:Hf;
        [ apply Fl_rel; repeat fl_step Fl_go
        | let HR' := fresh "HR" in destruct (Hq eq_refl) as [HR' <-]; clear Hq ]
    | HR : R ?x1 ?x2 |- rel (let '(_, _) := p_cancel0 P1 ?a ?x1 in _) (let '(_, _) := p_cancel0 P2 ?a ?x2 in _) =>
        let Hq := fresh "Hq" in
        pose proof (H_cancel0 a x1 x2 HR) as Hq;
        destruct (p_cancel0 P1 a x1) as [? ?]; destruct (p_cancel0 P2 a x2) as [? ?]; cbn [fst snd] in Hq;
        let HR' := fresh "HR" in destruct Hq as [HR' <-]
    | HR : R ?x1 ?x2 |- rel (let '(_, _) := p_cancel_rest P1 ?a ?x1 in _) (let '(_, _) := p_cancel_rest P2 ?a ?x2 in _) =>
        let Hq := fresh "Hq" in
        pose proof (H_cancel_rest a x1 x2 HR) as Hq;
        destruct (p_cancel_rest P1 a x1) as [? ?]; destruct (p_cancel_rest P2 a x2) as [? ?]; cbn [fst snd] in Hq;
        let HR' := fresh "HR" in destruct Hq as [HR' <-]
    | HR : R ?x1 ?x2 |- rel (let '(_, _) := p_tpop_first P1 ?x1 in _) (let '(_, _) := p_tpop_first P2 ?x2 in _) =>
        let Hq := fresh "Hq" in
        pose proof (H_tpop_first x1 x2 HR) as Hq;
        destruct (p_tpop_first P1 x1) as [? ?]; destruct (p_tpop_first P2 x2) as [? ?]; cbn [fst snd] in Hq;
        let HR' := fresh "HR" in destruct Hq as [HR' <-]
    | HR : R ?x1 ?x2 |- rel (let '(_, _) := p_tpop P1 ?x1 in _) (let '(_, _) := p_tpop P2 ?x2 in _) =>
        let Hq := fresh "Hq" in
        pose proof (H_tpop x1 x2 HR) as Hq;
        destruct (p_tpop P1 x1) as [? ?]; destruct (p_tpop P2 x2) as [? ?]; cbn [fst snd] in Hq;
        let HR' := fresh "HR" in destruct Hq as [HR' <-]
    | HR : R ?x1 ?x2 |- context [p_waiting P1 ?w ?x1] => rewrite (H_waiting w x1 x2 HR)
    | |- rel (match (match ?v with _ => _ end) with _ => _ end) (match (match ?v with _ => _ end) with _ => _ end) => destruct v
    | |- rel (match (if ?c then _ else _) with _ => _ end) (match (if ?c then _ else _) with _ => _ end) => destruct c
    | |- rel (if ?c then _ else _) (if ?c then _ else _) => destruct c
    | |- rel (match ?v with _ => _ end) (match ?v with _ => _ end) => destruct v
    end.

  Theorem sim_go : forall f k x1 x2 s, R x1 x2 -> rel (go P1 f k x1 s) (go P2 f k x2 s).
  Proof.
    induction f as [|f IH]; intros k x1 x2 s HR; [exact I|].
    destruct k; cbn [go]; repeat rel_step IH.
  Qed.
End Sim.
