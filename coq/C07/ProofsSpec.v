(* C07/ProofsSpec.v -- what the specification's primitives say: the clauses of property C07
   spelled out on the registration set. *)
From Coq Require Import NArith List Bool Lia Sorted.
From Morfuse Require Import Base.Arr C07.Model C07.Spec C07.ProofsLib.
Import ListNotations.
Local Open Scope N_scope.

(* ---------------------------------------------------------------- sequence numbers *)
Definition rseq_lt (a b : reg) : Prop := rseq a < rseq b.

(* the registrations are kept in the order of their (pairwise different) sequence numbers,
   all below the next number to hand out *)
Definition regs_ok (x : ast) : Prop :=
  StronglySorted rseq_lt (regs x) /\ forall r, In r (regs x) -> rseq r < nseq x.

Lemma ssorted_filter {A} (lt : A -> A -> Prop) p l : StronglySorted lt l -> StronglySorted lt (filter p l).
Proof.
  induction 1 as [|a l Hs IH Hf]; cbn [filter]; [constructor|].
  destruct (p a); [|exact IH]. constructor; [exact IH|].
  rewrite Forall_forall in *. intros y Hy. apply filter_In in Hy. now apply Hf.
Qed.

Lemma ssorted_map_seq (g : reg -> reg) l :
  (forall r, rseq (g r) = rseq r) -> StronglySorted rseq_lt l -> StronglySorted rseq_lt (map g l).
Proof.
  intro Hg. induction 1 as [|a l Hs IH Hf]; cbn [map]; [constructor|].
  constructor; [exact IH|]. rewrite Forall_forall in *. intros y Hy.
  apply in_map_iff in Hy. destruct Hy as [z [<- Hz]]. unfold rseq_lt. rewrite !Hg. now apply Hf.
Qed.

Lemma ssorted_snoc l r :
  StronglySorted rseq_lt l -> (forall y, In y l -> rseq y < rseq r) -> StronglySorted rseq_lt (l ++ [r]).
Proof.
  induction 1 as [|a l Hs IH Hf]; intro Hn; cbn [app].
  - constructor; constructor.
  - constructor.
    + apply IH. intros y Hy. apply Hn. now right.
    + rewrite Forall_forall in *. intros y Hy. apply in_app_or in Hy.
      destruct Hy as [Hy|[<-|[]]]; [now apply Hf | apply Hn; now left].
Qed.

Lemma cancel_of_rseq ws r : rseq (cancel_of ws r) = rseq r.
Proof. unfold cancel_of. now destruct (lmem (LThr (rw r)) ws). Qed.

Lemma regs_ok_init : regs_ok ast_init.
Proof. split; [constructor | intros r []]. Qed.

Lemma regs_ok_reg src n w x : regs_ok x -> regs_ok (a_reg src n w x).
Proof.
  intros [Hs Hb]. split; cbn [a_reg regs nseq].
  - apply ssorted_snoc; [exact Hs|]. intros y Hy. cbn [rseq]. now apply Hb.
  - intros r Hr. apply in_app_or in Hr. destruct Hr as [Hr|[<-|[]]]; [specialize (Hb _ Hr); lia | cbn [rseq]; lia].
Qed.

Lemma regs_ok_detach src n x : regs_ok x -> regs_ok (fst (a_detach src n x)).
Proof.
  intros [Hs Hb]. split; cbn [a_detach fst regs nseq].
  - apply ssorted_map_seq; [apply cancel_of_rseq|]. now apply ssorted_filter.
  - intros r Hr. apply in_map_iff in Hr. destruct Hr as [z [<- Hz]]. rewrite cancel_of_rseq.
    apply filter_In in Hz. now apply Hb.
Qed.

Lemma regs_ok_detach_all src x : regs_ok x -> regs_ok (fst (a_detach_all src x)).
Proof.
  intros [Hs Hb]. split; cbn [a_detach_all fst regs nseq].
  - now apply ssorted_filter.
  - intros r Hr. apply filter_In in Hr. now apply Hb.
Qed.

Lemma regs_ok_cancel0 w x : regs_ok x -> regs_ok (fst (a_cancel0 w x)).
Proof.
  intros [Hs Hb]. split; cbn [a_cancel0 fst regs nseq].
  - now apply ssorted_filter.
  - intros r Hr. apply filter_In in Hr. now apply Hb.
Qed.

Lemma regs_ok_cancel_rest w x : regs_ok x -> regs_ok (fst (a_cancel_rest w x)).
Proof.
  intros [Hs Hb]. split; cbn [a_cancel_rest fst regs nseq].
  - now apply ssorted_filter.
  - intros r Hr. apply filter_In in Hr. now apply Hb.
Qed.

(* ---------------------------------------------------------------- notify *)
Definition live_on (src : lid) (n : name) (r : reg) : Prop :=
  rsrc r = src /\ rn r = n /\ rz r = false.

Lemma on_src_true src n r : on_src src n r = true <-> rsrc r = src /\ rn r = n.
Proof.
  unfold on_src. rewrite andb_true_iff. split.
  - intros [H1 H2]. destruct (lid_eqb_spec src (rsrc r)), (name_eqb_spec n (rn r)); try discriminate. now split.
  - intros [<- <-]. now rewrite lid_eqb_refl, name_eqb_refl.
Qed.

Lemma live_waiters_in src n l t :
  In (LThr t) (live_waiters_of src n l) <-> exists r, In r l /\ rw r = t /\ live_on src n r.
Proof.
  unfold live_waiters_of. rewrite in_map_iff. split.
  - intros [r [E Hr]]. apply filter_In in Hr. destruct Hr as [Hr Hp]. apply andb_true_iff in Hp.
    destruct Hp as [Hp Hz]. apply on_src_true in Hp. destruct Hp as [H1 H2].
    exists r. split; [exact Hr|]. split; [congruence|]. split; [exact H1|]. split; [exact H2|].
    now destruct (rz r).
  - intros [r [Hr [E [H1 [H2 H3]]]]]. exists r. split; [now rewrite E|]. apply filter_In. split; [exact Hr|].
    apply andb_true_iff. split; [now apply on_src_true | now rewrite H3].
Qed.

(* `src notify n`: exactly the threads that hold a live registration on (src, n) at this
   moment are resumed, each once; every such registration carries a sequence number handed
   out before (the thread registered earlier); afterwards nobody is registered on (src, n),
   the other registrations of the resumed threads are cancelled, and nobody else's
   registration is touched *)
Theorem notify_resumes_exactly_the_registered src n x :
  regs_ok x ->
  let ws := snd (a_detach src n x) in
  let x' := fst (a_detach src n x) in
  NoDup ws /\
  (forall l, In l ws <-> exists r, In r (regs x) /\ l = LThr (rw r) /\ live_on src n r /\ rseq r < nseq x) /\
  (forall r, In r (regs x') -> ~ (rsrc r = src /\ rn r = n)) /\
  (forall r, In r (regs x') -> In (LThr (rw r)) ws -> rz r = true) /\
  (forall r, In r (regs x) -> ~ (rsrc r = src /\ rn r = n) -> ~ In (LThr (rw r)) ws -> In r (regs x')).
Proof.
  intros [Hs Hb]. cbn [a_detach fst snd regs]. split; [apply by_last_nodup|]. split; [|split; [|split]].
  - intro l. rewrite by_last_in. split.
    + intro H. unfold live_waiters_of in H. apply in_map_iff in H. destruct H as [r [E Hr]].
      assert (Hi : In (LThr (rw r)) (live_waiters_of src n (regs x))).
      { unfold live_waiters_of. apply in_map_iff. now exists r. }
      apply live_waiters_in in Hi. destruct Hi as [r0 [Hr0 [E0 Hl]]].
      exists r0. split; [exact Hr0|]. split; [congruence|]. split; [exact Hl | now apply Hb].
    + intros [r [Hr [-> [Hl _]]]]. apply live_waiters_in. now exists r.
  - intros r Hr. apply in_map_iff in Hr. destruct Hr as [z [<- Hz]]. apply filter_In in Hz.
    destruct Hz as [_ Hz]. intro H. unfold cancel_of in H.
    assert (Ho : on_src src n z = true).
    { apply on_src_true. destruct (lmem (LThr (rw z)) (by_last (live_waiters_of src n (regs x)))); exact H. }
    now rewrite Ho in Hz.
  - intros r Hr Hin. apply in_map_iff in Hr. destruct Hr as [z [<- Hz]]. unfold cancel_of in *.
    destruct (lmem (LThr (rw z)) (by_last (live_waiters_of src n (regs x)))) eqn:E; [reflexivity|].
    apply lmem_false in E. contradiction.
  - intros r Hr Hk Hn. apply in_map_iff. exists r. split.
    + unfold cancel_of. apply lmem_false in Hn. now rewrite Hn.
    + apply filter_In. split; [exact Hr|]. destruct (on_src src n r) eqn:E; [|reflexivity].
      apply on_src_true in E. contradiction.
Qed.

(* a thread that registered once on (src, n) is resumed in the order of the registrations *)
Lemma first_occ_nodup_id l : forall seen,
  NoDup l -> (forall a, In a l -> lmem a seen = false) -> first_occ l seen = l.
Proof.
  induction l as [|a l IH]; intros seen Hn Hs; cbn [first_occ]; [reflexivity|].
  rewrite (Hs a) by now left. f_equal. inversion Hn as [|? ? Hna Hn']; subst. apply IH; [exact Hn'|].
  intros b Hb. rewrite lmem_cons, (Hs b) by now right.
  destruct (lid_eqb_spec b a) as [->|]; [contradiction|reflexivity].
Qed.

Theorem resume_order_is_registration_order l : NoDup l -> by_last l = l.
Proof.
  intro H. unfold by_last. rewrite first_occ_nodup_id.
  - apply rev_involutive.
  - now apply NoDup_rev.
  - reflexivity.
Qed.

(* in general a thread takes the place of its latest registration *)
Theorem by_last_snoc l a : by_last (l ++ [a]) = lremove a (by_last l) ++ [a].
Proof.
  unfold by_last. rewrite rev_app_distr. cbn [rev app first_occ lmem existsb].
  cbn [rev]. f_equal.
  assert (H : forall m seen, rev (first_occ m (a :: seen)) = lremove a (rev (first_occ m seen))).
  { induction m as [|b m IH]; intro seen; cbn [first_occ]; [reflexivity|].
    rewrite lmem_cons. destruct (lid_eqb_spec b a) as [->|Hba]; cbn [orb].
    - destruct (lmem a seen) eqn:E; [apply IH|]. cbn [rev]. unfold lremove. rewrite filter_app. cbn [filter].
      rewrite lid_eqb_refl. cbn [negb]. rewrite app_nil_r. fold (lremove a (rev (first_occ m (a :: seen)))).
      rewrite <- IH. f_equal. apply first_occ_ext. intro y. rewrite !lmem_cons. now destruct (lid_eqb y a).
    - destruct (lmem b seen); [apply IH|]. cbn [rev]. unfold lremove. rewrite filter_app. cbn [filter].
      destruct (lid_eqb_spec a b); [congruence|]. cbn [negb]. fold (lremove a (rev (first_occ m (b :: seen)))).
      rewrite <- IH. f_equal. f_equal. apply first_occ_ext. intro y. rewrite !lmem_cons.
      destruct (lid_eqb y b), (lid_eqb y a); reflexivity. }
  apply H.
Qed.

(* `src notify n` with nobody registered on (src, n): nothing changes, nobody is resumed *)
Theorem notify_without_waiters_is_noop src n x :
  filter (on_src src n) (regs x) = [] -> a_detach src n x = (x, []).
Proof.
  intro H. unfold a_detach, live_waiters_of.
  assert (H2 : filter (fun r => on_src src n r && negb (rz r)) (regs x) = []).
  { apply filter_none. intros r Hr. destruct (on_src src n r) eqn:E; [|reflexivity].
    exfalso. assert (Hi : In r (filter (on_src src n) (regs x))) by (apply filter_In; now split).
    now rewrite H in Hi. }
  rewrite H2, H. cbn [map by_last rev first_occ existsb]. rewrite orb_false_r.
  f_equal. destruct x as [rg ns pd fr ts sf]. cbn [regs nseq pend frame tseq sflag] in *. f_equal.
  rewrite filter_all.
  - clear H H2. induction rg as [|r rg IH]; [reflexivity|]. cbn [map]. now rewrite IH.
  - intros r Hr. destruct (on_src src n r) eqn:E; [|reflexivity].
    exfalso. assert (Hi : In r (filter (on_src src n) rg)) by (apply filter_In; now split).
    now rewrite H in Hi.
Qed.

(* ---------------------------------------------------------------- removal *)
(* removing src: exactly the threads that hold a live registration on src are handed to
   destruction, and no registration on src remains *)
Theorem removal_destroys_exactly_the_waiters src x :
  let ws := snd (a_detach_all src x) in
  let x' := fst (a_detach_all src x) in
  (forall t, In (LThr t) ws <-> exists r, In r (regs x) /\ rw r = t /\ rsrc r = src /\ rz r = false) /\
  (forall r, In r (regs x') -> rsrc r <> src) /\
  (forall r, In r (regs x) -> rsrc r <> src -> In r (regs x')).
Proof.
  cbn [a_detach_all fst snd regs]. split; [|split].
  - intro t. rewrite <- in_rev, in_flat_map. split.
    + intros [n [_ H]]. apply first_occ_in in H. destruct H as [H _]. rewrite <- in_rev in H.
      apply live_waiters_in in H. destruct H as [r [Hr [E [H1 [H2 H3]]]]]. now exists r.
    + intros [r [Hr [E [H1 H3]]]]. exists (rn r). split; [apply all_names_complete|].
      apply first_occ_in. split; [|reflexivity]. rewrite <- in_rev. apply live_waiters_in.
      exists r. split; [exact Hr|]. split; [exact E|]. now split.
  - intros r Hr. apply filter_In in Hr. destruct Hr as [_ Hr].
    destruct (lid_eqb_spec src (rsrc r)); [discriminate|congruence].
  - intros r Hr Hn. apply filter_In. split; [exact Hr|].
    destruct (lid_eqb_spec src (rsrc r)); [congruence|reflexivity].
Qed.

(* a thread that proceeds or dies withdraws all its registrations, and only its own *)
Theorem proceeding_withdraws_all_registrations w x :
  let x' := fst (a_cancel_rest w (fst (a_cancel0 w x))) in
  (forall r, In r (regs x') -> rw r <> w) /\
  (forall r, In r (regs x) -> rw r <> w -> In r (regs x')).
Proof.
  cbn [a_cancel_rest a_cancel0 fst regs]. split.
  - intros r Hr. apply filter_In in Hr. destruct Hr as [_ Hr].
    destruct (N.eqb_spec w (rw r)); [discriminate|congruence].
  - intros r Hr Hn. apply filter_In. split.
    + apply filter_In. split; [exact Hr|]. unfold of_w.
      destruct (N.eqb_spec w (rw r)); [congruence|reflexivity].
    + destruct (N.eqb_spec w (rw r)); [congruence|reflexivity].
Qed.

(* a registration: a fresh sequence number; the thread is then blocked ([a_waiting]) *)
Theorem registration_gets_a_fresh_number src n w x :
  regs_ok x ->
  regs (a_reg src n w x) = regs x ++ [mkReg (nseq x) w src n false] /\
  (forall r, In r (regs x) -> rseq r < nseq x) /\
  a_waiting w (a_reg src n w x) = true.
Proof.
  intros [_ Hb]. split; [reflexivity|]. split; [exact Hb|].
  unfold a_waiting. cbn [a_reg regs]. rewrite existsb_app. cbn [existsb rw]. rewrite N.eqb_refl.
  now rewrite orb_true_r.
Qed.

(* a registration on listener l is taken out of the set only by a notify or removal of l itself
   (for a thread l: its destructor - a waitthread caller stays registered on its callee until
   the callee is destroyed) or when its own thread withdraws it; an operation on another
   listener at most cancels it *)
Theorem registration_survives_other_listeners src n x r :
  In r (regs x) -> rsrc r <> src ->
  exists r', In r' (regs (fst (a_detach src n x))) /\
             rseq r' = rseq r /\ rw r' = rw r /\ rsrc r' = rsrc r /\ rn r' = rn r.
Proof.
  intros Hr Hn. cbn [a_detach fst regs].
  exists (cancel_of (by_last (live_waiters_of src n (regs x))) r). split.
  - apply in_map. apply filter_In. split; [exact Hr|].
    destruct (on_src src n r) eqn:E; [|reflexivity]. apply on_src_true in E. destruct E as [E _]. congruence.
  - unfold cancel_of. destruct (lmem (LThr (rw r)) (by_last (live_waiters_of src n (regs x)))); cbn; auto.
Qed.

Theorem registration_survives_other_withdrawals w x r :
  In r (regs x) -> rw r <> w -> In r (regs (fst (a_cancel_rest w (fst (a_cancel0 w x))))).
Proof. intros. now apply (proceeding_withdraws_all_registrations w x). Qed.
