(* C07/Extract.v -- extraction of the model and the specification (ExtrOcamlBasic only). *)
Require Extraction.
Require Import ExtrOcamlBasic.
From Morfuse Require Import C07.Model C07.Spec.
Extraction "C07_model.ml" run spec_run.
