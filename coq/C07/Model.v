(* C07/Model.v -- executable model of waittill / notify / endon / delete / waitthread:
   Listener::Register / RegisterSource / RegisterTarget / Unregister(name) / UnregisterAll /
   UnregisterTargets / UnregisterTarget / UnregisterSource / CancelWaiting / CancelWaitingAll /
   EndOn / the Listener destructor (src/Script/Listener.cpp), ScriptThread::StartedWaitFor /
   StoppedWaitFor / StoppedNotify / Stop / StartTiming / Wait / Resume / ScriptExecuteInternal /
   the ScriptThread destructor (src/Script/ScriptThread.cpp), ScriptVM::Execute / Suspend /
   Resume / NotifyDelete (src/Script/ScriptVM.cpp, ScriptVMOperation.cpp),
   ScriptClass::AddThread / RemoveThread (src/Script/ScriptClass.cpp),
   ScriptMaster::ExecuteRunning / AddTiming / RemoveTiming (src/Script/ScriptMaster.cpp) and
   con::timer (src/Script/timer.cpp).

   Code level.  Every Listener has the three tables m_NotifyList (name -> listeners that wait
   for me), m_WaitForList (name -> listeners I wait for) and m_EndList (name -> listeners that
   die on my event); here each kind is ONE association table keyed by (listener, name) - the
   per-listener con::set keyed by name, flattened; an absent key is an empty list, and
   "m_WaitForList == NULL" is "no key of this listener".  Lists keep insertion order
   (Container::AddObject appends, RemoveObjectAt keeps the order); all loops of the code run
   from the LAST element to the first and are modelled in that direction.  Weak references
   (SafePtr) to a thread are valid exactly while the thread has its VM (m_ScriptVM != NULL,
   field [alive]); no script code runs between the start and the end of a destructor, so
   the two moments are not distinguished.  A woken thread runs IMMEDIATELY, nested inside the
   notifier's instruction: the interpreter [go] is a recursive function over "tasks" (one task
   per C++ function) with explicit fuel, a thread's remaining program is data ([cont]).
   m_CurrentThread is a weak reference: it is null as soon as the current thread is deleted;
   ExecuteRunning is only run by the outermost execution (m_ExecutionDepth == 0).  The result
   of a waitthread is a pointer cell resolved by the callee's End or by its VM's destructor.

   Also as written: `waitthread label` of a thread is served by Listener::WaitCreateReturnThread,
   i.e. the callee runs in a NEW ScriptClass (`thread label` stays in the caller's class); the
   caller registers on the callee under the empty name and is put on the timer with delay 0
   when the callee dies (StoppedWaitFor with the empty name: StartTiming), so it proceeds in
   the next run of the timer loop; ScriptThread::StoppedNotify deletes the thread: a waitthread
   caller that is deleted (endon, removal of what it waits for - not possible while it waits
   for a thread - or a kill cascade) takes its callee with it; `level.o = spawn Listener`
   into an occupied variable leaves the old object alive and unreachable; a statement applied
   to a NULL listener is skipped with a warning.

   waittill_timeout / waittill_any_timeout post an EV_ScriptThread_CancelWaiting event on the
   thread (EventQueue: sorted by time, GetTime() = the clock); every StoppedWaitFor of a live
   thread cancels the thread's pending events of that type first, the Listener destructor
   cancels all; a due event runs CancelWaitingAll on the (still waiting) thread, whose
   StoppedWaitFor(0, false) puts it on the timer.  The event queue is C08's subject: model and
   specification share it.

   Abstracted.  The enumeration order of con::set over NAMES (only used by UnregisterAll and
   CancelWaitingAll) is the fixed order c, b, a, "" instead of the hash order; the event names
   are the three script names a, b, c and the empty name (const_str 0, used by waitthread);
   the names "delete" and "remove" (notified by the Listener destructor) are never awaited.
   The two time bases of the timer (TimeManager scaled time, timer m_time) are one number:
   C06 proves that they coincide under the injected clock.  A thread is an abstract
   straight-line program; script objects live in the variables level.o<k> (a slot holds a
   weak reference to the object).

   The tables and the timer are reached through a record of primitives [prims]: the model
   instantiates it with the code-level tables below, the specification (Spec.v) with a flat
   set of registrations carrying sequence numbers and a due-time bag.  NO proofs here. *)
From Coq Require Import NArith List Bool.
From Morfuse Require Import Base.Arr.
Import ListNotations.
Local Open Scope N_scope.

(* ---------------------------------------------------------------- names, listeners *)
Inductive sname := NA | NB | NC.                 (* the script's event names *)
Inductive name := NE | NS (n : sname).           (* NE = const_str 0 *)
Inductive lid := LO (o : N) | LThr (t : N).        (* a script object / a script thread *)

Definition sname_eqb (a b : sname) : bool :=
  match a, b with NA, NA | NB, NB | NC, NC => true | _, _ => false end.
Definition name_eqb (a b : name) : bool :=
  match a, b with NE, NE => true | NS x, NS y => sname_eqb x y | _, _ => false end.
Definition lid_eqb (a b : lid) : bool :=
  match a, b with LO x, LO y => x =? y | LThr x, LThr y => x =? y | _, _ => false end.

Definition all_names : list name := [NS NC; NS NB; NS NA; NE].

Definition key := (lid * name)%type.
Definition key_eqb (a b : key) : bool := lid_eqb (fst a) (fst b) && name_eqb (snd a) (snd b).

(* ---------------------------------------------------------------- association tables *)
Definition tab := list (key * list lid).

Fixpoint look (t : tab) (k : key) : list lid :=
  match t with
  | [] => []
  | (k', l) :: t' => if key_eqb k k' then l else look t' k
  end.

Definition tdel (t : tab) (k : key) : tab := filter (fun e => negb (key_eqb k (fst e))) t.

(* the key disappears when its list becomes empty (set::remove) *)
Definition tset (t : tab) (k : key) (l : list lid) : tab :=
  match l with [] => tdel t k | _ => tdel t k ++ [(k, l)] end.

(* delete the whole table of one listener *)
Definition tdel_l (t : tab) (a : lid) : tab := filter (fun e => negb (lid_eqb a (fst (fst e)))) t.

Definition lmem (a : lid) (l : list lid) : bool := existsb (lid_eqb a) l.
Definition lremove (a : lid) (l : list lid) : list lid := filter (fun b => negb (lid_eqb a b)) l.
Definition is_nil {A} (l : list A) : bool := match l with [] => true | _ => false end.

(* UnregisterTarget(name, a) called on listener k (table = m_WaitForList), and
   UnregisterSource(name, a) called on listener k (table = m_NotifyList): every occurrence
   of a is removed; the result says whether there was one *)
Definition tab_remove (t : tab) (k : key) (a : lid) : tab * bool :=
  let l := look t k in
  if lmem a l then (tset t k (lremove a l), true) else (t, false).

(* UnregisterTargets(name, listeners, stopped) / CancelWaitingSources(name, listeners, stopped):
   [rls] is the list walked by the code, i.e. the REVERSED container *)
Fixpoint remove_from_each (t : tab) (n : name) (a : lid) (rls : list lid) (stopped : list lid)
  : tab * list lid :=
  match rls with
  | [] => (t, stopped)
  | L :: r =>
      let '(t', found) := tab_remove t (L, n) a in
      remove_from_each t' n a r (if found then stopped ++ [L] else stopped)
  end.

(* the same for every name of listener a's table [own] (set enumeration) *)
Fixpoint remove_from_all (own t : tab) (a : lid) (names : list name) (stopped : list lid)
  : tab * list lid :=
  match names with
  | [] => (t, stopped)
  | n :: r =>
      let '(t', st') := remove_from_each t n a (rev (look own (a, n))) stopped in
      remove_from_all own t' a r st'
  end.

(* ---------------------------------------------------------------- programs, host operations *)
Inductive instr :=
| IPrint (m : N)                              (* println "<thread>:<m>" *)
| IPrintR                                     (* println local.r (the last waitthread result) *)
| IWait (d : N)                               (* wait d ms *)
| IWaitTill (o : N) (n : sname)               (* level.o<o> waittill n *)
| IWaitTillAny (o : N) (ns : list sname)      (* level.o<o> waittill_any n1 n2 .. *)
| IWaitTillTimeout (o d : N) (n : sname)      (* level.o<o> waittill_timeout d n  (d ms) *)
| IWaitTillAnyTimeout (o d : N) (ns : list sname)   (* level.o<o> waittill_any_timeout d n1 n2 .. *)
| INotify (o : N) (n : sname)                 (* level.o<o> notify n *)
| IEndOn (o : N) (n : sname)                  (* level.o<o> endon n *)
| IDelete (o : N)                             (* level.o<o> delete *)
| ISpawn (o : N)                              (* level.o<o> = spawn Listener *)
| IThread (p : list instr)                    (* thread <label of p> *)
| IWaitThread (p : list instr)                (* local.r = waitthread <label of p> *)
| IWaitThreadGroup (ps : list (list instr))
    (* local.grp = g1::g2::..; local.grp waitthread <label>: the command is applied to every
       receiver in turn, the callee on receiver k runs program k; the caller must proceed only
       after the last callee has ended *)
| IEnd (v : option N).                        (* end [v] *)

Inductive op :=
| OStart (p : list instr)     (* host: ScriptMaster::ExecuteThread of a fresh script *)
| OAdvance (dt : N)           (* the host's clock moves *)
| OExecute.                   (* ScriptContext::Execute() *)

(* the size of an instruction bounds the interpreter steps it causes in its own thread
   (a started thread weighs 2 + the size of its program) *)
Fixpoint isize (i : instr) : nat :=
  match i with
  | IThread p | IWaitThread p =>
      (3 + (fix ps (l : list instr) : nat := match l with [] => O | j :: l' => (isize j + ps l')%nat end) p)%nat
  | IWaitThreadGroup ps =>
      S ((fix pss (ll : list (list instr)) : nat :=
            match ll with
            | [] => O
            | p :: ll' =>
                (3 + (fix ps (l : list instr) : nat := match l with [] => O | j :: l' => (isize j + ps l')%nat end) p
                 + pss ll')%nat
            end) ps)
  | IWaitTillAny _ ns => S (length ns)
  | IWaitTillAnyTimeout _ _ ns => S (length ns)
  | _ => 1%nat
  end.
Fixpoint psize (p : list instr) : nat :=
  match p with [] => O | i :: p' => (isize i + psize p')%nat end.

(* ---------------------------------------------------------------- the shared engine state *)
(* a script value as far as println can tell: NIL, an integer, or the unresolved return-value
   pointer of thread t (what `local.r = waitthread ..` holds until the callee's VM resolves it:
   End stores the value, the VM destructor stores NIL) *)
Inductive rval := RNil | RInt (v : N) | RPtr (t : N).

Inductive tstate := TRunning | TWaiting | TTiming.        (* ScriptThread::m_ThreadState *)
Inductive vstate := VRunning | VSuspended | VIdling.      (* ScriptVM::state of a live thread *)

Record thread := mkTh {
  alive : bool;             (* m_ScriptVM != NULL *)
  tst : tstate;
  vst : vstate;
  cont : list instr;        (* what the VM still has to run (saved code position) *)
  grp : N;                  (* its ScriptClass *)
  rreg : rval;              (* local.r *)
  retto : option N }.       (* the waitthread caller that holds my return-value pointer *)

Definition dead_thread : thread := mkTh false TRunning VIdling [] 0 RNil None.

Inductive pval := PM (m : N) | PR (v : rval).
Definition pr := (N * pval)%type.               (* (thread, what it printed) *)

Record sh := mkSh {
  thr : arr thread; ntid : N;
  slots : arr (option N);      (* level.o<k>: weak reference to an object *)
  oalive : arr bool; nobj : N;
  etab : tab;                  (* m_EndList of every listener *)
  gcnt : arr nat;              (* threads of a ScriptClass *)
  ngrp : N;
  nscr : nat;                  (* live ScriptClass instances: GetNumRunningScripts *)
  nthr : nat;                  (* live ScriptThread objects (pool count) *)
  cur : option N;              (* ScriptMaster::m_CurrentThread *)
  clock : N;                   (* the injected clock minus the start time *)
  log : list pr;
  depth : nat;                 (* ScriptMaster::m_ExecutionDepth: thread executions in progress *)
  evq : list (N * N) }.        (* EventQueue: the pending EV_ScriptThread_CancelWaiting events
                                  (thread, time), sorted by time, equal times in posting order *)

Definition sh_init : sh :=
  mkSh (aempty dead_thread) 0 (aempty None) (aempty false) 0 [] (aempty O) 0 O O None 0 [] O [].

Definition set_thr (s : sh) (v : arr thread) : sh :=
  mkSh v (ntid s) (slots s) (oalive s) (nobj s) (etab s) (gcnt s) (ngrp s) (nscr s) (nthr s) (cur s) (clock s) (log s) (depth s) (evq s).
Definition set_etab (s : sh) (v : tab) : sh :=
  mkSh (thr s) (ntid s) (slots s) (oalive s) (nobj s) v (gcnt s) (ngrp s) (nscr s) (nthr s) (cur s) (clock s) (log s) (depth s) (evq s).
Definition set_cur (s : sh) (v : option N) : sh :=
  mkSh (thr s) (ntid s) (slots s) (oalive s) (nobj s) (etab s) (gcnt s) (ngrp s) (nscr s) (nthr s) v (clock s) (log s) (depth s) (evq s).
Definition set_log (s : sh) (v : list pr) : sh :=
  mkSh (thr s) (ntid s) (slots s) (oalive s) (nobj s) (etab s) (gcnt s) (ngrp s) (nscr s) (nthr s) (cur s) (clock s) v (depth s) (evq s).
Definition set_clock (s : sh) (v : N) : sh :=
  mkSh (thr s) (ntid s) (slots s) (oalive s) (nobj s) (etab s) (gcnt s) (ngrp s) (nscr s) (nthr s) (cur s) v (log s) (depth s) (evq s).
Definition set_depth (s : sh) (v : nat) : sh :=
  mkSh (thr s) (ntid s) (slots s) (oalive s) (nobj s) (etab s) (gcnt s) (ngrp s) (nscr s) (nthr s) (cur s) (clock s) (log s) v (evq s).
Definition set_evq (s : sh) (v : list (N * N)) : sh :=
  mkSh (thr s) (ntid s) (slots s) (oalive s) (nobj s) (etab s) (gcnt s) (ngrp s) (nscr s) (nthr s) (cur s) (clock s) (log s) (depth s) v.

(* EventQueue::PostEvent: before the first node with a larger time *)
Fixpoint ev_insert (w t : N) (q : list (N * N)) : list (N * N) :=
  match q with
  | [] => [(w, t)]
  | e :: q' => if t <? snd e then (w, t) :: q else e :: ev_insert w t q'
  end.
Definition ev_post (s : sh) (w d : N) : sh := set_evq s (ev_insert w (clock s + d) (evq s)).
(* CancelEventsOfType(EV_ScriptThread_CancelWaiting) / CancelPendingEvents of thread w *)
Definition ev_cancel (s : sh) (w : N) : sh := set_evq s (filter (fun e => negb (fst e =? w)) (evq s)).

Definition set_objs (s : sh) (sl : arr (option N)) (oa : arr bool) (no : N) : sh :=
  mkSh (thr s) (ntid s) sl oa no (etab s) (gcnt s) (ngrp s) (nscr s) (nthr s) (cur s) (clock s) (log s) (depth s) (evq s).

Definition th (s : sh) (t : N) : thread := get (thr s) t.
Definition upd (s : sh) (t : N) (v : thread) : sh := set_thr s (set (thr s) t v).

Definition w_alive (x : thread) (v : bool) := mkTh v (tst x) (vst x) (cont x) (grp x) (rreg x) (retto x).
Definition w_tst (x : thread) (v : tstate) := mkTh (alive x) v (vst x) (cont x) (grp x) (rreg x) (retto x).
Definition w_vst (x : thread) (v : vstate) := mkTh (alive x) (tst x) v (cont x) (grp x) (rreg x) (retto x).
Definition w_cont (x : thread) (v : list instr) := mkTh (alive x) (tst x) (vst x) v (grp x) (rreg x) (retto x).
Definition w_rreg (x : thread) (v : rval) := mkTh (alive x) (tst x) (vst x) (cont x) (grp x) v (retto x).

(* the return-value pointer of thread w is resolved to v: every holder (the waitthread caller's
   variable, if it still holds this pointer) takes the value *)
Definition resolve (s : sh) (w : N) (v : rval) : sh :=
  match retto (th s w) with
  | Some c => match rreg (th s c) with
              | RPtr t => if t =? w then upd s c (w_rreg (th s c) v) else s
              | _ => s
              end
  | None => s
  end.

Definition is_waiting (x : tstate) : bool := match x with TWaiting => true | _ => false end.
Definition opt_eqb (a : option N) (t : N) : bool := match a with Some c => c =? t | None => false end.

(* ScriptVM::Suspend *)
Definition vm_suspend (s : sh) (t : N) : sh :=
  match vst (th s t) with VRunning => upd s t (w_vst (th s t) VSuspended) | _ => s end.

(* the object a slot refers to (NULL listener when it was deleted or never spawned) *)
Definition obj_of (s : sh) (o : N) : option N :=
  match get (slots s) o with
  | Some ob => if get (oalive s) ob then Some ob else None
  | None => None
  end.

(* a new ScriptThread + ScriptVM in ScriptClass g: ScriptClass::AddThread *)
Definition new_thread (s : sh) (g : N) (p : list instr) (ret : option N) : sh :=
  mkSh (set (thr s) (ntid s) (mkTh true TRunning VRunning p g RNil ret)) (ntid s + 1)
       (slots s) (oalive s) (nobj s) (etab s) (set (gcnt s) g (S (get (gcnt s) g))) (ngrp s)
       (nscr s) (S (nthr s)) (cur s) (clock s) (log s) (depth s) (evq s).

(* a new ScriptClass (its first thread follows): host ExecuteThread, and `waitthread` of a
   thread, which is served by Listener::CreateThreadInternal (a NEW ScriptClass whose self
   is the calling thread), unlike `thread`, served by ScriptClass::CreateThreadInternal *)
Definition new_class (s : sh) : sh :=
  mkSh (thr s) (ntid s) (slots s) (oalive s) (nobj s) (etab s) (gcnt s) (ngrp s + 1)
       (S (nscr s)) (nthr s) (cur s) (clock s) (log s) (depth s) (evq s).

(* ScriptVM::NotifyDelete -> ScriptClass::RemoveThread: the last thread deletes the class *)
Definition remove_from_class (s : sh) (g : N) : sh :=
  let c := pred (get (gcnt s) g) in
  mkSh (thr s) (ntid s) (slots s) (oalive s) (nobj s) (etab s) (set (gcnt s) g c) (ngrp s)
       (match c with O => pred (nscr s) | _ => nscr s end) (pred (nthr s)) (cur s) (clock s) (log s) (depth s) (evq s).

(* ---------------------------------------------------------------- primitives *)
Record prims (T : Type) := mkPrims {
  p_reg : lid -> name -> N -> T -> T;               (* src->Register(name, thread) *)
  p_waiting : N -> T -> bool;                       (* thread->m_WaitForList != NULL *)
  p_detach : lid -> name -> T -> T * list lid;      (* Unregister(name): detached, in resume order *)
  p_detach_all : lid -> T -> T * list lid;          (* UnregisterAll: detached, in destroy order *)
  p_cancel0 : N -> T -> T * list lid;               (* CancelWaiting(0): sources, in StoppedNotify order *)
  p_cancel_rest : N -> T -> T * list lid;           (* rest of CancelWaitingAll *)
  p_tadd : N -> N -> T -> T;                        (* AddTiming(thread, delay) *)
  p_tremove : N -> T -> T;                          (* RemoveTiming(thread) *)
  p_tpop_first : T -> T * option N;                 (* ExecuteRunning: IsDirty() and GetNextElement *)
  p_tpop : T -> T * option N;                       (* GetNextElement *)
  p_settime : N -> T -> T;                          (* SetTime *)
  p_regsize : lid -> name -> T -> nat;              (* RegisterSize(name) *)
  p_timing : T -> bool;                             (* timer HasAnyElement *)
  p_flag : T -> bool }.                             (* specification only: a cancelled registration was matched *)

Arguments p_reg {T}. Arguments p_waiting {T}. Arguments p_detach {T}. Arguments p_detach_all {T}.
Arguments p_cancel0 {T}. Arguments p_cancel_rest {T}. Arguments p_tadd {T}. Arguments p_tremove {T}.
Arguments p_tpop_first {T}. Arguments p_tpop {T}. Arguments p_settime {T}. Arguments p_regsize {T}.
Arguments p_timing {T}. Arguments p_flag {T}.

(* ---------------------------------------------------------------- the interpreter *)
Inductive task :=
| KKill (t : N)                        (* delete thread: the ScriptThread and Listener destructors *)
| KCancelAll (w : N)                   (* thread->CancelWaitingAll() *)
| KCancel0 (w : N)                     (* thread->CancelWaiting(0), its first statement *)
| KNotifyList (l : list lid)           (* the StoppedNotify loops of CancelWaiting/CancelWaitingAll *)
| KDtor (l : lid)                      (* the Listener destructor: UnregisterAll *)
| KDestroyList (l : list lid)          (* UnregisterAll: StoppedWaitFor(name, true) on each *)
| KKillList (l : list lid)             (* Unregister: delete each listener of the end list *)
| KUnreg (l : lid) (n : name)          (* l->Unregister(name) *)
| KWakeList (l : list lid) (n : name)  (* Unregister: StoppedWaitFor(name, false) on each *)
| KStoppedWaitFor (w : N) (n : name)
| KStartTiming (w : N) (d : N)
| KStop (w : N)
| KExecute (w : N)                     (* ScriptThread::Execute -> ScriptExecuteInternal *)
| KVmExecute (w : N)                   (* ScriptVM::Execute *)
| KRunLoop (w : N)                     (* ScriptVM::Process: while (state == Running) *)
| KInstr (w : N) (i : instr)
| KRegister (src : lid) (n : name) (w : N)
| KRegisterList (src : lid) (ns : list name) (w : N)
| KEnd (w : N) (v : option N)
| KExecRunning                         (* ScriptMaster::ExecuteRunning *)
| KResumeLoop (w : N)                  (* its while loop, w = the element just taken *)
| KGroup (w : N) (ps : list (list instr))   (* ExecCmdMethodCommon: the command on every receiver *)
| KProcessEvents                       (* EventQueue::ProcessPendingEvents *)
| KFrame.                              (* ScriptContext::Execute after SetTime: events, then due threads *)

Record obs := mkObs {
  prints : list pr;
  idle : bool;                (* ScriptContext::IsIdle *)
  nscripts : nat;             (* GetNumRunningScripts *)
  nthreads : nat;             (* ScriptThread pool count *)
  timing : bool;              (* timer HasAnyElement *)
  sizes : list nat;           (* RegisterSize(a), (b), (c) of level.o0, o1, o2 *)
  stale : bool }.             (* [p_flag] *)

Section Interp.
  Context {T : Type}.
  Variable P : prims T.

  Notation "'do' p <- e ; k" := (match e with Some p => k | None => None end)
    (at level 200, p pattern, e at level 100, k at level 200).

  Fixpoint go (fuel : nat) (k : task) (x : T) (s : sh) {struct fuel} : option (T * sh) :=
    match fuel with
    | O => None
    | S f =>
      match k with
      | KKill t =>
          let t0 := th s t in
          if alive t0 then
            (* m_ScriptVM = nullptr; leave the Timing / Waiting state *)
            let s1 := upd s t (w_tst (w_alive t0 false) TRunning) in
            do (x2, s2) <- match tst t0 with
                           | TTiming => Some (p_tremove P t x, s1)
                           | TWaiting => go f (KCancelAll t) x s1
                           | TRunning => Some (x, s1)
                           end;
            (* vm->NotifyDelete(): an Idling VM is deleted at once (its destructor resolves a
               pending result to NIL), a VM that is still executing is deleted by its own
               Execute; then the Listener destructor; the weak references die *)
            let s2' := remove_from_class s2 (grp t0) in
            let s2'' := match vst t0 with VIdling => resolve s2' t RNil | _ => s2' end in
            (* the Listener destructor begins with CancelPendingEvents() *)
            do (x3, s3) <- go f (KDtor (LThr t)) x2 (ev_cancel s2'' t);
            Some (x3, if opt_eqb (cur s3) t then set_cur s3 None else s3)
          else Some (x, s)
      | KCancelAll w =>
          (* CancelWaiting(0): only when the thread waits for somebody under the empty name;
             StoppedWaitFor(0, false) on the thread itself when that was its last wait *)
          do (x2, s2) <- go f (KCancel0 w) x s;
          (* if (!m_WaitForList) return; all remaining names; StoppedWaitFor(0, false) on itself *)
          if p_waiting P w x2 then
            let '(x3, srcs) := p_cancel_rest P w x2 in
            do (x4, s4) <- go f (KStoppedWaitFor w NE) x3 s2;
            go f (KNotifyList srcs) x4 s4
          else Some (x2, s2)
      | KCancel0 w =>
          let '(x1, srcs0) := p_cancel0 P w x in
          match srcs0 with
          | [] => Some (x1, s)
          | _ =>
              do (xa, sa) <- (if p_waiting P w x1 then Some (x1, s)
                              else go f (KStoppedWaitFor w NE) x1 s);
              go f (KNotifyList srcs0) xa sa
          end
      | KNotifyList l =>
          match l with
          | [] => Some (x, s)
          | LThr c :: l' =>
              (* ScriptThread::StoppedNotify: if (m_ScriptVM) delete this *)
              do (x1, s1) <- (if alive (th s c) then go f (KKill c) x s else Some (x, s));
              go f (KNotifyList l') x1 s1
          | LO _ :: l' => go f (KNotifyList l') x s      (* Listener::StoppedNotify is empty *)
          end
      | KDtor l =>
          do (x1, s1) <- go f (KUnreg l NE) x s;
          let s2 := set_etab s1 (tdel_l (etab s1) l) in
          let '(x3, ws) := p_detach_all P l x1 in
          go f (KDestroyList ws) x3 s2
      | KDestroyList l =>
          match l with
          | [] => Some (x, s)
          | LThr w :: l' =>
              (* StoppedWaitFor(name, true): delete this *)
              do (x1, s1) <- (if alive (th s w) then go f (KKill w) x s else Some (x, s));
              go f (KDestroyList l') x1 s1
          | LO _ :: l' => go f (KDestroyList l') x s
          end
      | KKillList l =>
          match l with
          | [] => Some (x, s)
          | LThr w :: l' =>
              do (x1, s1) <- (if alive (th s w) then go f (KKill w) x s else Some (x, s));
              go f (KKillList l') x1 s1
          | LO _ :: l' => go f (KKillList l') x s
          end
      | KUnreg l n =>
          (* the end list is copied and removed, its listeners are deleted from last to first *)
          let ks := look (etab s) (l, n) in
          let s1 := set_etab s (tdel (etab s) (l, n)) in
          do (x2, s2) <- go f (KKillList (rev ks)) x s1;
          (* all waiters are detached first, then resumed one by one *)
          let '(x3, ws) := p_detach P l n x2 in
          go f (KWakeList ws n) x3 s2
      | KWakeList l n =>
          match l with
          | [] => Some (x, s)
          | LThr w :: l' =>
              do (x1, s1) <- (if alive (th s w) then go f (KStoppedWaitFor w n) x s else Some (x, s));
              go f (KWakeList l' n) x1 s1
          | LO _ :: l' => go f (KWakeList l' n) x s      (* Listener::StoppedWaitFor is empty *)
          end
      | KStoppedWaitFor w n =>
          let t0 := th s w in
          if alive t0 then                         (* if (!m_ScriptVM) return *)
            (* CancelEventsOfType(EV_ScriptThread_CancelWaiting): a pending timeout dies here *)
            let s := ev_cancel s w in
            if is_waiting (tst t0) then
              match n with
              | NE => go f (KStartTiming w 0) x s
              | _ =>
                  match vst t0 with
                  | VIdling => go f (KExecute w) x s
                  | VSuspended => Some (x, upd s w (w_vst t0 VRunning))     (* vm->Resume() *)
                  | VRunning => Some (x, s)
                  end
              end
            else Some (x, s)
          else Some (x, s)
      | KStartTiming w d =>
          do (x1, s1) <- go f (KStop w) x s;
          Some (p_tadd P w d x1, upd s1 w (w_tst (th s1 w) TTiming))
      | KStop w =>
          let t0 := th s w in
          match tst t0 with
          | TTiming => Some (p_tremove P w x, upd s w (w_tst t0 TRunning))
          | TWaiting => go f (KCancelAll w) x (upd s w (w_tst t0 TRunning))
          | TRunning => Some (x, s)
          end
      | KExecute w =>
          let saved := cur s in
          do (x2, s2) <- go f (KStop w) x (set_cur s (Some w));
          do (x3, s3) <- go f (KVmExecute w) x2 (set_depth s2 (S (depth s2)));
          let c := match saved with
                   | Some c => if alive (th s3 c) then Some c else None
                   | None => None
                   end in
          let s4 := set_cur (set_depth s3 (pred (depth s3))) c in
          (* only the outermost execution runs the due threads *)
          match depth s4 with
          | O => go f KExecRunning x3 s4
          | S _ => Some (x3, s4)
          end
      | KVmExecute w =>
          do (x2, s2) <- go f (KRunLoop w) x (upd s w (w_vst (th s w) VRunning));
          let t2 := th s2 w in
          Some (x2, if alive t2 then match vst t2 with
                                     | VSuspended => upd s2 w (w_vst t2 VIdling)
                                     | _ => s2
                                     end
                    else resolve s2 w RNil)        (* state Destroyed: delete this *)
      | KRunLoop w =>
          let t0 := th s w in
          if alive t0 then
            match vst t0 with
            | VRunning =>
                match cont t0 with
                | [] => go f (KEnd w None) x s                       (* OP_DONE *)
                | i :: p =>
                    do (x2, s2) <- go f (KInstr w i) x (upd s w (w_cont t0 p));
                    go f (KRunLoop w) x2 s2
                end
            | _ => Some (x, s)
            end
          else Some (x, s)
      | KEnd w v =>
          (* the return value resolves the caller's pointer, then the thread is deleted *)
          go f (KKill w) x (resolve s w (match v with Some z => RInt z | None => RNil end))
      | KRegister src n w =>
          let was := p_waiting P w x in
          let x1 := p_reg P src n w x in
          if was then Some (x1, s)
          else
            (* RegisterTarget: StartedWaitFor = Stop(); StartWaiting(); m_ScriptVM->Suspend() *)
            do (x2, s2) <- go f (KStop w) x1 s;
            Some (x2, vm_suspend (upd s2 w (w_tst (th s2 w) TWaiting)) w)
      | KRegisterList src ns w =>
          match ns with
          | [] => Some (x, s)
          | n :: ns' =>
              do (x1, s1) <- go f (KRegister src n w) x s;
              go f (KRegisterList src ns' w) x1 s1
          end
      | KInstr w i =>
          match i with
          | IPrint m => Some (x, set_log s ((w, PM m) :: log s))
          | IPrintR => Some (x, set_log s ((w, PR (rreg (th s w))) :: log s))
          | IWait d =>
              do (x1, s1) <- go f (KStartTiming w d) x s;
              Some (x1, vm_suspend s1 w)
          | IWaitTill o n =>
              match obj_of s o with
              | Some ob => go f (KRegister (LO ob) (NS n) w) x s
              | None => Some (x, s)                (* "applied to NULL listener": a warning *)
              end
          | IWaitTillAny o ns =>
              match obj_of s o with
              | Some ob => go f (KRegisterList (LO ob) (map NS ns) w) x s
              | None => Some (x, s)
              end
          | IWaitTillTimeout o d n =>
              (* Register, then CurrentThread()->PostEvent(EV_ScriptThread_CancelWaiting, d) *)
              match obj_of s o with
              | Some ob =>
                  do (x1, s1) <- go f (KRegister (LO ob) (NS n) w) x s;
                  Some (x1, ev_post s1 w d)
              | None => Some (x, s)
              end
          | IWaitTillAnyTimeout o d ns =>
              match obj_of s o with
              | Some ob =>
                  do (x1, s1) <- go f (KRegisterList (LO ob) (map NS ns) w) x s;
                  Some (x1, ev_post s1 w d)
              | None => Some (x, s)
              end
          | INotify o n =>
              match obj_of s o with
              | Some ob => go f (KUnreg (LO ob) (NS n)) x s
              | None => Some (x, s)
              end
          | IEndOn o n =>
              match obj_of s o with
              | Some ob =>
                  let l := look (etab s) (LO ob, NS n) in     (* AddUniqueObject *)
                  Some (x, if lmem (LThr w) l then s else set_etab s (tset (etab s) (LO ob, NS n) (l ++ [LThr w])))
              | None => Some (x, s)
              end
          | IDelete o =>
              match obj_of s o with
              | Some ob =>
                  go f (KDtor (LO ob)) x (set_objs s (set (slots s) o None) (set (oalive s) ob false) (nobj s))
              | None => Some (x, s)
              end
          | ISpawn o =>
              Some (x, set_objs s (set (slots s) o (Some (nobj s))) (set (oalive s) (nobj s) true) (nobj s + 1))
          | IThread p =>
              let t := ntid s in
              go f (KExecute t) x (new_thread s (grp (th s w)) p None)
          | IWaitThread p =>
              let t := ntid s in
              let s1 := new_class (new_thread (upd s w (w_rreg (th s w) (RPtr (ntid s)))) (ngrp s) p (Some w)) in
              do (x2, s2) <- go f (KRegister (LThr t) NE w) x s1;
              go f (KExecute t) x2 s2
          | IWaitThreadGroup ps => go f (KGroup w ps) x s
          | IEnd v => go f (KEnd w v) x s
          end
      | KGroup w ps =>
          (* for every receiver: WaitCreateThread = CreateThreadInternal (a new ScriptClass),
             thread->Register(0, CurrentThread()), thread->ScriptExecute; the caller that was put
             on the timer by a callee that ended at once is taken off it again by the Stop() of
             StartedWaitFor when it registers on the next callee.  (A caller deleted by one of
             its callees makes the next Register dereference a null current thread: not modelled,
             the loop ends.) *)
          match ps with
          | [] => Some (x, s)
          | p :: ps' =>
              if alive (th s w) then
                let t := ntid s in
                let s1 := new_class (new_thread s (ngrp s) p None) in
                do (x2, s2) <- go f (KRegister (LThr t) NE w) x s1;
                do (x3, s3) <- go f (KExecute t) x2 s2;
                go f (KGroup w ps') x3 s3
              else Some (x, s)
          end
      | KExecRunning =>
          match cur s with
          | Some _ => Some (x, s)                  (* a thread is running: do nothing *)
          | None =>
              let '(x1, r) := p_tpop_first P x in
              match r with
              | Some w => go f (KResumeLoop w) x1 s
              | None => Some (x1, s)
              end
          end
      | KResumeLoop w =>
          (* m_CurrentThread = w; w->Resume(): state Running, m_ScriptVM->Execute() *)
          let s1 := upd (set_cur s (Some w)) w (w_tst (th s w) TRunning) in
          do (x2, s2') <- go f (KVmExecute w) x (set_depth s1 (S (depth s1)));
          let s2 := set_depth s2' (pred (depth s2')) in
          let '(x3, r) := p_tpop P x2 in
          match r with
          | Some w' => go f (KResumeLoop w') x3 s2
          | None => Some (x3, set_cur s2 None)
          end
      | KProcessEvents =>
          (* while the first node is due: remove it, ScriptThread::CancelWaiting -> CancelWaitingAll *)
          match evq s with
          | (w, t) :: q =>
              if t <=? clock s then
                do (x1, s1) <- go f (KCancelAll w) x (set_evq s q);
                go f KProcessEvents x1 s1
              else Some (x, s)
          | [] => Some (x, s)
          end
      | KFrame =>
          do (x1, s1) <- go f KProcessEvents x s;
          go f KExecRunning x1 s1
      end
    end.

  (* ------------------------------------------------------------ host operations *)
  Definition size_of (x : T) (s : sh) (o : N) (n : sname) : nat :=
    match obj_of s o with Some ob => p_regsize P (LO ob) (NS n) x | None => O end.

  Definition observe (x : T) (s : sh) : obs :=
    mkObs (rev (log s)) (Nat.eqb (nscr s) 0 && is_nil (evq s)) (nscr s) (nthr s) (p_timing P x)
          (flat_map (fun o => map (size_of x s o) [NA; NB; NC]) [0; 1; 2]) (p_flag P x).

  (* live threads, each with what it still has to run *)
  Fixpoint weight_upto (s : sh) (n : nat) : nat :=
    match n with
    | O => O
    | S k => ((let t0 := th s (N.of_nat k) in if alive t0 then S (S (psize (cont t0))) else O)
              + weight_upto s k)%nat
    end.
  Definition weight (s : sh) : nat := weight_upto s (N.to_nat (ntid s)).
  (* enough for every history met so far (the driver reports an exhausted fuel as "hang"):
     nesting costs a bounded number of steps per executed instruction or deleted thread, a
     list of threads is walked with one step per element *)
  Definition fuel_for (s : sh) (extra : nat) : nat :=
    (40 * (weight s + extra + 2) + 8 * N.to_nat (ntid s) + 8 * length (evq s))%nat.

  Definition step (x : T) (s : sh) (o : op) : option (T * sh * obs) :=
    let s := set_log s [] in
    match o with
    | OStart p =>
        (* CreateScriptThread(scr, nullptr, label): a new ScriptClass with one thread *)
        let g := ngrp s in
        let t := ntid s in
        let s1 := new_class (new_thread s g p None) in
        match go (fuel_for s1 0) (KExecute t) x s1 with
        | Some (x', s') => Some (x', s', observe x' s')
        | None => None
        end
    | OAdvance dt =>
        let s' := set_clock s (clock s + dt) in
        Some (x, s', observe x s')
    | OExecute =>
        (* Frame(); SetTime(GetTime()); ProcessPendingEvents() (no events); ExecuteRunning() *)
        match go (fuel_for s 0) KFrame (p_settime P (clock s) x) s with
        | Some (x', s') => Some (x', s', observe x' s')
        | None => None
        end
    end.

  Fixpoint run_from (x : T) (s : sh) (ops : list op) : list (option obs) :=
    match ops with
    | [] => []
    | o :: ops' =>
        match step x s o with
        | Some (x', s', ob) => Some ob :: run_from x' s' ops'
        | None => [None]
        end
    end.
End Interp.

(* ---------------------------------------------------------------- the code-level tables *)
Record mt := mkMt {
  ntab : tab;               (* m_NotifyList: (source, name) -> waiting listeners *)
  wtab : tab;               (* m_WaitForList: (waiter, name) -> sources *)
  elems : list (N * N);     (* timer::m_Elements: (thread, time) *)
  mtime : N;                (* timer::m_time *)
  dirty : bool }.           (* timer::m_bDirty *)

Definition mt_init : mt := mkMt [] [] [] 0 false.

Definition m_reg (src : lid) (n : name) (w : N) (x : mt) : mt :=
  (* RegisterSource on src, RegisterTarget on the thread *)
  mkMt (tset (ntab x) (src, n) (look (ntab x) (src, n) ++ [LThr w]))
       (tset (wtab x) (LThr w, n) (look (wtab x) (LThr w, n) ++ [src]))
       (elems x) (mtime x) (dirty x).

Definition has_key (t : tab) (a : lid) : bool :=
  existsb (fun n => negb (is_nil (look t (a, n)))) all_names.

Definition m_waiting (w : N) (x : mt) : bool := has_key (wtab x) (LThr w).

Definition m_detach (src : lid) (n : name) (x : mt) : mt * list lid :=
  let '(wt', stopped) := remove_from_each (wtab x) n src (rev (look (ntab x) (src, n))) [] in
  (mkMt (tdel (ntab x) (src, n)) wt' (elems x) (mtime x) (dirty x), rev stopped).

Definition m_detach_all (src : lid) (x : mt) : mt * list lid :=
  let '(wt', stopped) := remove_from_all (ntab x) (wtab x) src all_names [] in
  (mkMt (tdel_l (ntab x) src) wt' (elems x) (mtime x) (dirty x), rev stopped).

Definition m_cancel0 (w : N) (x : mt) : mt * list lid :=
  let '(nt', stopped) := remove_from_each (ntab x) NE (LThr w) (rev (look (wtab x) (LThr w, NE))) [] in
  (mkMt nt' (tdel (wtab x) (LThr w, NE)) (elems x) (mtime x) (dirty x), rev stopped).

Definition m_cancel_rest (w : N) (x : mt) : mt * list lid :=
  let '(nt', stopped) := remove_from_all (wtab x) (ntab x) (LThr w) all_names [] in
  (mkMt nt' (tdel_l (wtab x) (LThr w)) (elems x) (mtime x) (dirty x), rev stopped).

(* timer::AddElement(thread, scaled time + delay) *)
Definition m_tadd (w d : N) (x : mt) : mt :=
  let t := mtime x + d in
  mkMt (ntab x) (wtab x) (elems x ++ [(w, t)]) (mtime x) (if t <=? mtime x then true else dirty x).

(* timer::RemoveElement: from the last element down, the first match *)
Fixpoint remove_first (w : N) (l : list (N * N)) : list (N * N) :=
  match l with
  | [] => []
  | e :: l' => if fst e =? w then l' else e :: remove_first w l'
  end.
Definition m_tremove (w : N) (x : mt) : mt :=
  mkMt (ntab x) (wtab x) (rev (remove_first w (rev (elems x)))) (mtime x) (dirty x).

(* timer::GetNextElement: [scan] walks the REVERSED list; i = 1-based index of its head *)
Fixpoint scan (rl : list (N * N)) (i : nat) (best : N) (found : option nat) : option nat :=
  match rl with
  | [] => found
  | e :: rl' =>
      if snd e <=? best then scan rl' (pred i) (snd e) (Some i)
      else scan rl' (pred i) best found
  end.

Fixpoint remove_at (l : list (N * N)) (i : nat) : list (N * N) :=    (* i is 1-based *)
  match l, i with
  | [], _ => []
  | _ :: l', 1%nat => l'
  | e :: l', S j => e :: remove_at l' j
  | l, O => l
  end.

Definition m_tpop (x : mt) : mt * option N :=
  match scan (rev (elems x)) (length (elems x)) (mtime x) None with
  | Some i =>
      match nth_error (elems x) (pred i) with
      | Some e => (mkMt (ntab x) (wtab x) (remove_at (elems x) i) (mtime x) (dirty x), Some (fst e))
      | None => (x, None)
      end
  | None => (mkMt (ntab x) (wtab x) (elems x) (mtime x) false, None)
  end.

Definition m_tpop_first (x : mt) : mt * option N := if dirty x then m_tpop x else (x, None).

Definition m_settime (t : N) (x : mt) : mt := mkMt (ntab x) (wtab x) (elems x) t true.

Definition m_regsize (src : lid) (n : name) (x : mt) : nat := length (look (ntab x) (src, n)).
Definition m_timing (x : mt) : bool := negb (is_nil (elems x)).

Definition model_prims : prims mt :=
  mkPrims mt m_reg m_waiting m_detach m_detach_all m_cancel0 m_cancel_rest m_tadd m_tremove
          m_tpop_first m_tpop m_settime m_regsize m_timing (fun _ => false).

Definition run (ops : list op) : list (option obs) := run_from model_prims mt_init sh_init ops.
