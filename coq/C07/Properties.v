(* C07/Properties.v -- the property theorems of C07 (being filled in). *)
From Coq Require Import NArith List Bool.
From Morfuse Require Import C07.Model C07.Spec.
Import ListNotations.
Local Open Scope N_scope.

Example C07_history_example :
  map (option_map (fun o => (prints o, idle o)))
      (run [ OStart [ISpawn 0; IThread [IPrint 1; IWaitTill 0 NA; IPrint 2]; IPrint 3; INotify 0 NA; IPrint 4] ]) =
  [ Some ([(1, PM 1); (0, PM 3); (1, PM 2); (0, PM 4)], true) ].
Proof. vm_compute. reflexivity. Qed.
