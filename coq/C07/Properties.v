(* C07/Properties.v -- the property theorems of C07, and nothing else.
   Every theorem is closed by [exact <lemma>] and followed by Print Assumptions. *)
From Coq Require Import NArith List Bool Sorted.
From Morfuse Require Import Base.Arr C07.Model C07.Spec C07.ProofsLib C07.ProofsTimer C07.ProofsPrim
  C07.ProofsSim C07.Proofs C07.ProofsSpec C07.ProofsDead.
Import ListNotations.
Local Open Scope N_scope.

(* ------------------------------------------------------------------ refinement *)

(* For EVERY history of thread starts (any program of println / wait / waittill / waittill_any
   / notify / endon / delete / spawn / thread / waitthread / end, nested to any depth), clock
   advances and Executes: as long as the specification neither runs out of fuel nor meets a
   cancelled registration ([quiet]: every observation exists and has stale = false), the
   code-level engine - the mirrored tables m_NotifyList / m_WaitForList walked from the last
   element to the first, UnregisterTargets / CancelWaitingSources detaching before resuming,
   the timer with its backward scan and dirty flag - observes exactly what the specification
   (a set of registrations with sequence numbers, a due-time bag) observes: the same prints
   in the same order (with the results of waitthread), idle, script and thread counts,
   RegisterSize of every object and name.
   That the fuel of the interpreter suffices is part of [quiet], not proved. *)
Theorem C07_engine_refines_the_registration_set_where_no_cancelled_registration_is_met :
  forall ops : list op, Forall quiet (spec_run ops) -> run ops = spec_run ops.
Proof. exact run_refines_spec_where_quiet. Qed.
Print Assumptions C07_engine_refines_the_registration_set_where_no_cancelled_registration_is_met.

(* The unconditional statement `forall ops, run ops = spec_run ops` is FALSE of the faithful
   model: the recorded finding C07-stale-wake. *)
Theorem C07_run_refines_spec_refuted_by_stale_wake : exists ops, run ops <> spec_run ops.
Proof. exact run_refines_spec_refuted_by_stale_wake. Qed.
Print Assumptions C07_run_refines_spec_refuted_by_stale_wake.

(* The interpreter step by step: from related tables every task of the interpreter (one task per
   C++ function, woken threads running nested) ends in related tables and the SAME engine state,
   unless the specification raised its flag. *)
Theorem C07_every_task_keeps_the_simulation :
  forall f k x1 x2 s,
    R x1 x2 -> rel spec_prims R (go model_prims f k x1 s) (go spec_prims f k x2 s).
Proof. exact sim_ms. Qed.
Print Assumptions C07_every_task_keeps_the_simulation.

(* `src notify name` on the tables: UnregisterTargets walks m_NotifyList[name] from the last
   listener to the first and removes src from each listener's m_WaitForList[name]; the
   detached listeners, resumed from the last to the first of that list, are the holders of
   the registrations on (src, name) in the order of their latest registration *)
Theorem C07_unregister_detaches_what_the_specification_detaches :
  forall src n x1 x2,
    R x1 x2 ->
    sflag (fst (a_detach src n x2)) = (sflag x2 || existsb rz (filter (on_src src n) (regs x2))) /\
    (existsb rz (filter (on_src src n) (regs x2)) = false ->
     R (fst (m_detach src n x1)) (fst (a_detach src n x2)) /\
     snd (m_detach src n x1) = snd (a_detach src n x2)).
Proof. exact detach_R. Qed.
Print Assumptions C07_unregister_detaches_what_the_specification_detaches.

Theorem C07_unregister_all_detaches_what_the_specification_detaches :
  forall src x1 x2,
    R x1 x2 ->
    sflag (fst (a_detach_all src x2)) = (sflag x2 || existsb rz (filter (fun r => lid_eqb src (rsrc r)) (regs x2))) /\
    (existsb rz (filter (fun r => lid_eqb src (rsrc r)) (regs x2)) = false ->
     R (fst (m_detach_all src x1)) (fst (a_detach_all src x2)) /\
     snd (m_detach_all src x1) = snd (a_detach_all src x2)).
Proof. exact detach_all_R. Qed.
Print Assumptions C07_unregister_all_detaches_what_the_specification_detaches.

Theorem C07_register_keeps_the_tables_mirrored :
  forall src n w x1 x2, R x1 x2 -> R (m_reg src n w x1) (a_reg src n w x2).
Proof. exact reg_R. Qed.
Print Assumptions C07_register_keeps_the_tables_mirrored.

Theorem C07_cancel_waiting_all_withdraws_what_the_specification_withdraws :
  forall w x1 x2,
    R x1 x2 ->
    R (fst (m_cancel_rest w x1)) (fst (a_cancel_rest w x2)) /\
    snd (m_cancel_rest w x1) = snd (a_cancel_rest w x2).
Proof. exact cancel_rest_R. Qed.
Print Assumptions C07_cancel_waiting_all_withdraws_what_the_specification_withdraws.

Theorem C07_get_next_element_takes_the_minimal_due_wait :
  forall x1 x2,
    R x1 x2 -> R (fst (m_tpop x1)) (fst (a_tpop x2)) /\ snd (m_tpop x1) = snd (a_tpop x2).
Proof. exact tpop_R. Qed.
Print Assumptions C07_get_next_element_takes_the_minimal_due_wait.

(* ------------------------------------------------------------------ the clauses of the property, on the specification *)

(* no_wake_without_notify / every_registered_waiter_wakes_once: `src notify n` resumes exactly
   the threads that hold a live registration on (src, n) at that moment (each registered
   earlier: its sequence number is below the next one), each once; afterwards nobody is
   registered on (src, n), the other registrations of the resumed threads are cancelled
   (waittill_any: the first notify wins) and nobody else's registration is touched *)
Theorem C07_notify_resumes_exactly_the_registered_waiters_each_once :
  forall src n x,
    regs_ok x ->
    let ws := snd (a_detach src n x) in
    let x' := fst (a_detach src n x) in
    NoDup ws /\
    (forall l, In l ws <-> exists r, In r (regs x) /\ l = LThr (rw r) /\ live_on src n r /\ rseq r < nseq x) /\
    (forall r, In r (regs x') -> ~ (rsrc r = src /\ rn r = n)) /\
    (forall r, In r (regs x') -> In (LThr (rw r)) ws -> rz r = true) /\
    (forall r, In r (regs x) -> ~ (rsrc r = src /\ rn r = n) -> ~ In (LThr (rw r)) ws -> In r (regs x')).
Proof. exact notify_resumes_exactly_the_registered. Qed.
Print Assumptions C07_notify_resumes_exactly_the_registered_waiters_each_once.

(* the order: threads that registered once are resumed in registration order ... *)
Theorem C07_waiters_are_resumed_in_registration_order :
  forall l : list lid, NoDup l -> by_last l = l.
Proof. exact resume_order_is_registration_order. Qed.
Print Assumptions C07_waiters_are_resumed_in_registration_order.

(* ... and in general a thread takes the place of its latest registration *)
Theorem C07_a_later_registration_moves_the_thread_to_the_end :
  forall (l : list lid) (a : lid), by_last (l ++ [a]) = lremove a (by_last l) ++ [a].
Proof. exact by_last_snoc. Qed.
Print Assumptions C07_a_later_registration_moves_the_thread_to_the_end.

(* notify_without_waiters_is_noop *)
Theorem C07_notify_without_waiters_is_noop :
  forall src n x, filter (on_src src n) (regs x) = [] -> a_detach src n x = (x, []).
Proof. exact notify_without_waiters_is_noop. Qed.
Print Assumptions C07_notify_without_waiters_is_noop.

(* delete_destroys_waiters: removing src hands exactly the holders of live registrations on src
   to destruction and leaves no registration on src; the destruction loop destroys every one
   of them; a destroyed thread stays destroyed, does not run and is not woken *)
Theorem C07_removal_hands_exactly_the_waiters_to_destruction :
  forall src x,
    let ws := snd (a_detach_all src x) in
    let x' := fst (a_detach_all src x) in
    (forall t, In (LThr t) ws <-> exists r, In r (regs x) /\ rw r = t /\ rsrc r = src /\ rz r = false) /\
    (forall r, In r (regs x') -> rsrc r <> src) /\
    (forall r, In r (regs x) -> rsrc r <> src -> In r (regs x')).
Proof. exact removal_destroys_exactly_the_waiters. Qed.
Print Assumptions C07_removal_hands_exactly_the_waiters_to_destruction.

Theorem C07_the_removal_loop_destroys_every_waiter :
  forall (T : Type) (P : prims T) l f x s x' s',
    WF s -> go P f (KDestroyList l) x s = Some (x', s') ->
    (forall w, In (LThr w) l -> w < ntid s) ->
    WF s' /\ ntid s <= ntid s' /\ forall w, In (LThr w) l -> alive (th s' w) = false.
Proof. exact (@removal_loop_destroys_every_waiter). Qed.
Print Assumptions C07_the_removal_loop_destroys_every_waiter.

(* endon_destroys: the threads of the end list of the notified event are all destroyed *)
Theorem C07_the_endon_loop_destroys_every_thread_of_the_end_list :
  forall (T : Type) (P : prims T) l f x s x' s',
    WF s -> go P f (KKillList l) x s = Some (x', s') ->
    (forall w, In (LThr w) l -> w < ntid s) ->
    WF s' /\ ntid s <= ntid s' /\ forall w, In (LThr w) l -> alive (th s' w) = false.
Proof. exact (@endon_loop_destroys_every_thread). Qed.
Print Assumptions C07_the_endon_loop_destroys_every_thread_of_the_end_list.

(* ... over SEVERAL names per object: `o notify n` destroys every thread on the end list of
   (o, n); when that is done (o, n) has no end list left and the end lists of every other name
   of o and of every other object are untouched - a thread that said `endon` under another
   name stays registered and dies by its own name.  (The C++ frees the whole per-object map
   exactly when its last name is removed; the model keeps one table keyed by (listener, name),
   where that is the absence of keys.) *)
Theorem C07_notify_destroys_its_end_list_and_keeps_the_end_lists_of_other_names :
  forall (T : Type) (P : prims T) f o n x s r,
    WF s -> (forall w, In (LThr w) (look (etab s) (LO o, n)) -> w < ntid s) ->
    go P (S f) (KUnreg (LO o) n) x s = Some r ->
    exists x2 s2,
      go P f (KKillList (rev (look (etab s) (LO o, n)))) x (set_etab s (tdel (etab s) (LO o, n))) = Some (x2, s2) /\
      (forall w, In (LThr w) (look (etab s) (LO o, n)) -> alive (th s2 w) = false) /\
      look (etab s2) (LO o, n) = [] /\
      (forall o' m, (o', m) <> (o, n) -> look (etab s2) (LO o', m) = look (etab s) (LO o', m)) /\
      (let '(x3, ws) := p_detach P (LO o) n x2 in go P f (KWakeList ws n) x3 s2) = Some r.
Proof. exact (@notify_destroys_its_end_list_and_keeps_the_others). Qed.
Print Assumptions C07_notify_destroys_its_end_list_and_keeps_the_end_lists_of_other_names.

(* deleting threads never touches the end list of a script object *)
Theorem C07_deleting_threads_keeps_the_end_lists_of_objects :
  forall (T : Type) (P : prims T) f k x s, deleting k -> Se s (go P f k x s).
Proof. exact (@Se_go). Qed.
Print Assumptions C07_deleting_threads_keeps_the_end_lists_of_objects.

Theorem C07_deleting_a_thread_destroys_it :
  forall (T : Type) (P : prims T) f t x s x' s',
    WF s -> go P f (KKill t) x s = Some (x', s') -> WF s' /\ ntid s <= ntid s' /\ alive (th s' t) = false.
Proof. exact (@delete_destroys). Qed.
Print Assumptions C07_deleting_a_thread_destroys_it.

Theorem C07_a_destroyed_thread_stays_destroyed :
  forall (T : Type) (P : prims T) f k x s x' s' t,
    WF s -> go P f k x s = Some (x', s') -> t < ntid s -> alive (th s t) = false ->
    WF s' /\ ntid s <= ntid s' /\ alive (th s' t) = false.
Proof. exact (@destroyed_stays_destroyed). Qed.
Print Assumptions C07_a_destroyed_thread_stays_destroyed.

Theorem C07_a_destroyed_thread_does_not_run :
  forall (T : Type) (P : prims T) f w x s,
    alive (th s w) = false -> go P (S f) (KRunLoop w) x s = Some (x, s).
Proof. exact (@destroyed_thread_does_not_run). Qed.
Print Assumptions C07_a_destroyed_thread_does_not_run.

Theorem C07_a_destroyed_thread_is_not_woken :
  forall (T : Type) (P : prims T) f w l n x s,
    alive (th s w) = false ->
    go P (S f) (KWakeList (LThr w :: l) n) x s = go P f (KWakeList l n) x s.
Proof. exact (@destroyed_thread_is_not_woken). Qed.
Print Assumptions C07_a_destroyed_thread_is_not_woken.

(* waitthread_after_callee_end_with_result.  The caller holds a registration on its callee
   under the empty name and the callee's pending result.  (1) `end v` / the end of the program
   stores the value (NIL without one) in the caller's variable and only then deletes the thread;
   (2) deleting a thread - the only way its Listener destructor, which releases the threads
   registered on it, gets to run - first destroys it, and resolves the pending result of an
   idle (blocked, i.e. killed) callee to NIL before the destructor runs; a callee that is
   killed while it executes resolves it when its Execute returns; (3) the caller's
   registration is taken out of the set by nothing but the callee's own notify/removal or the
   caller's own withdrawal.  (That the released caller runs only after an executing killed
   callee has returned rests on the outermost-execution rule of ExecuteRunning and is
   covered by the refinement theorem and the differential runs, not by a separate lemma.) *)
Theorem C07_end_delivers_the_result_before_the_thread_is_deleted :
  forall (T : Type) (P : prims T) f w v x s,
    go P (S f) (KEnd w v) x s =
    go P f (KKill w) x (resolve s w (match v with Some z => RInt z | None => RNil end)).
Proof. exact (@end_delivers_the_result_then_deletes). Qed.
Print Assumptions C07_end_delivers_the_result_before_the_thread_is_deleted.

Theorem C07_a_resolved_result_reaches_the_waitthread_caller :
  forall s w c v,
    retto (th s w) = Some c -> rreg (th s c) = RPtr w -> rreg (th (resolve s w v) c) = v.
Proof. exact resolve_delivers. Qed.
Print Assumptions C07_a_resolved_result_reaches_the_waitthread_caller.

Theorem C07_the_destructor_that_releases_the_caller_runs_on_a_destroyed_callee :
  forall (T : Type) (P : prims T) f t x s r,
    WF s -> alive (th s t) = true -> go P (S f) (KKill t) x s = Some r ->
    exists x2 s2 x3 s3,
      let sd := ev_cancel match vst (th s t) with
                | VIdling => resolve (remove_from_class s2 (grp (th s t))) t RNil
                | _ => remove_from_class s2 (grp (th s t))
                end t in
      WF sd /\ alive (th sd t) = false /\
      go P f (KDtor (LThr t)) x2 sd = Some (x3, s3) /\
      r = (x3, if opt_eqb (cur s3) t then set_cur s3 None else s3).
Proof. exact (@delete_runs_the_destructor_on_a_destroyed_thread). Qed.
Print Assumptions C07_the_destructor_that_releases_the_caller_runs_on_a_destroyed_callee.

Theorem C07_a_registration_is_taken_out_only_through_its_own_listener_or_thread :
  (forall src n x r, In r (regs x) -> rsrc r <> src ->
     exists r', In r' (regs (fst (a_detach src n x))) /\
                rseq r' = rseq r /\ rw r' = rw r /\ rsrc r' = rsrc r /\ rn r' = rn r) /\
  (forall src x r, In r (regs x) -> rsrc r <> src -> In r (regs (fst (a_detach_all src x)))) /\
  (forall w x r, In r (regs x) -> rw r <> w -> In r (regs (fst (a_cancel_rest w (fst (a_cancel0 w x)))))).
Proof.
  exact (conj registration_survives_other_listeners
        (conj (fun src x r H1 H2 => proj2 (proj2 (removal_destroys_exactly_the_waiters src x)) r H1 H2)
              registration_survives_other_withdrawals)).
Qed.
Print Assumptions C07_a_registration_is_taken_out_only_through_its_own_listener_or_thread.

(* Timed waittills.  `o waittill_timeout d n` registers like waittill and posts a cancel event on
   the thread, due at clock + d; the wait ends at the notify or at the deadline, whichever comes
   first, once: every StoppedWaitFor of a live thread (a notify of any name, the release by a
   dead callee, the firing timeout itself) cancels the thread's pending timeout events before
   anything else - a timeout event never outlives the wait that posted it; a deleted thread
   leaves none; the tasks that delete threads post none.  (The event queue itself - sorted by
   (time, posting order) - is C08's subject and is shared by model and specification.) *)
Theorem C07_a_wake_up_cancels_the_pending_timeouts_of_the_thread :
  forall (T : Type) (P : prims T) f w n x s,
    alive (th s w) = true ->
    go P (S f) (KStoppedWaitFor w n) x s =
    (let s' := ev_cancel s w in
     if is_waiting (tst (th s w)) then
       match n with
       | NE => go P f (KStartTiming w 0) x s'
       | _ => match vst (th s w) with
              | VIdling => go P f (KExecute w) x s'
              | VSuspended => Some (x, upd s' w (w_vst (th s w) VRunning))
              | VRunning => Some (x, s')
              end
       end
     else Some (x, s')).
Proof. exact (@a_wake_up_cancels_the_pending_timeouts). Qed.
Print Assumptions C07_a_wake_up_cancels_the_pending_timeouts_of_the_thread.

Theorem C07_cancelling_leaves_no_timeout_event_of_the_thread :
  forall s w e, In e (evq (ev_cancel s w)) -> fst e <> w.
Proof. exact ev_cancel_none. Qed.
Print Assumptions C07_cancelling_leaves_no_timeout_event_of_the_thread.

Theorem C07_a_deleted_thread_leaves_no_timeout_event :
  forall (T : Type) (P : prims T) f t x s x' s',
    WF s -> alive (th s t) = true -> go P (S f) (KKill t) x s = Some (x', s') ->
    forall e, In e (evq s') -> fst e <> t.
Proof. exact (@a_deleted_thread_leaves_no_timeout). Qed.
Print Assumptions C07_a_deleted_thread_leaves_no_timeout_event.

Theorem C07_deleting_threads_posts_no_timeout_event :
  forall (T : Type) (P : prims T) f k x s, deleting k -> Sv s (go P f k x s).
Proof. exact (@Sv_go). Qed.
Print Assumptions C07_deleting_threads_posts_no_timeout_event.

(* the interpreter's fuel: a result obtained with some fuel is the result with any larger fuel
   (the particular amount [fuel_for] only decides WHETHER a result is obtained) *)
Theorem C07_more_fuel_never_changes_a_result :
  forall (T : Type) (P : prims T) f f' k x s r,
    (f <= f')%nat -> go P f k x s = Some r -> go P f' k x s = Some r.
Proof. exact (@go_fuel_mono). Qed.
Print Assumptions C07_more_fuel_never_changes_a_result.

(* a thread that proceeds or dies withdraws all its registrations and nobody else's *)
Theorem C07_a_proceeding_thread_withdraws_all_its_registrations :
  forall w x,
    let x' := fst (a_cancel_rest w (fst (a_cancel0 w x))) in
    (forall r, In r (regs x') -> rw r <> w) /\
    (forall r, In r (regs x) -> rw r <> w -> In r (regs x')).
Proof. exact proceeding_withdraws_all_registrations. Qed.
Print Assumptions C07_a_proceeding_thread_withdraws_all_its_registrations.

(* registration sequence numbers: fresh, increasing along the set, kept by every operation *)
Theorem C07_a_registration_gets_a_fresh_sequence_number :
  forall src n w x,
    regs_ok x ->
    regs (a_reg src n w x) = regs x ++ [mkReg (nseq x) w src n false] /\
    (forall r, In r (regs x) -> rseq r < nseq x) /\
    a_waiting w (a_reg src n w x) = true.
Proof. exact registration_gets_a_fresh_number. Qed.
Print Assumptions C07_a_registration_gets_a_fresh_sequence_number.

Theorem C07_sequence_numbers_stay_ordered :
  regs_ok ast_init /\
  (forall src n w x, regs_ok x -> regs_ok (a_reg src n w x)) /\
  (forall src n x, regs_ok x -> regs_ok (fst (a_detach src n x))) /\
  (forall src x, regs_ok x -> regs_ok (fst (a_detach_all src x))) /\
  (forall w x, regs_ok x -> regs_ok (fst (a_cancel0 w x))) /\
  (forall w x, regs_ok x -> regs_ok (fst (a_cancel_rest w x))).
Proof.
  exact (conj regs_ok_init (conj regs_ok_reg (conj regs_ok_detach (conj regs_ok_detach_all
        (conj regs_ok_cancel0 regs_ok_cancel_rest))))).
Qed.
Print Assumptions C07_sequence_numbers_stay_ordered.

(* ------------------------------------------------------------------ non-vacuity *)
Definition show (l : list (option obs)) :=
  map (option_map (fun o => (prints o, idle o, nthreads o, sizes o, stale o))) l.

(* Threads 1, 2 wait for (o0, a), thread 3 for any of a, b on o0 and then for (o1, b), thread 4
   dies on (o0, c).  `notify a` resumes 1, 2, 3 in registration order, each nested inside the
   notifier's statement (3 then blocks on o1); `notify b` on o0 finds nobody (3's second
   registration was cancelled when it proceeded); waitthread: the caller 0 proceeds in the frame
   in which callee 5 ends and gets its result 7; `delete o1` destroys thread 3, which never
   prints 7; `notify c` destroys thread 4 before its second wait ends (it never prints 10).
   Model and specification agree (the flag stays down). *)
Example C07_history_example :
  let ops :=
    [ OStart [ ISpawn 0; ISpawn 1;
               IThread [IPrint 1; IWaitTill 0 NA; IPrint 2];
               IThread [IPrint 3; IWaitTill 0 NA; IPrint 4];
               IThread [IPrint 5; IWaitTillAny 0 [NA; NB]; IPrint 6; IWaitTill 1 NB; IPrint 7];
               IThread [IEndOn 0 NC; IPrint 8; IWait 1; IPrint 9; IWait 1; IPrint 10];
               IPrint 11; INotify 0 NA; IPrint 12; INotify 0 NB; IPrint 13;
               IWaitThread [IPrint 14; IWait 1; IPrint 15; IEnd (Some 7)];
               IPrint 16; IPrintR; IDelete 1; IPrint 17; INotify 0 NC; IPrint 18 ];
      OExecute; OAdvance 1; OExecute; OAdvance 1; OExecute ] in
  show (run ops) =
  [ Some ([(1, PM 1); (2, PM 3); (3, PM 5); (4, PM 8); (0, PM 11); (1, PM 2); (2, PM 4); (3, PM 6);
           (0, PM 12); (0, PM 13); (5, PM 14)], false, 4%nat, [0; 0; 0; 0; 1; 0; 0; 0; 0]%nat, false);
    Some ([], false, 4%nat, [0; 0; 0; 0; 1; 0; 0; 0; 0]%nat, false);
    Some ([], false, 4%nat, [0; 0; 0; 0; 1; 0; 0; 0; 0]%nat, false);
    Some ([(4, PM 9); (5, PM 15); (0, PM 16); (0, PR (RInt 7)); (0, PM 17); (0, PM 18)],
          true, 0%nat, [0; 0; 0; 0; 0; 0; 0; 0; 0]%nat, false);
    Some ([], true, 0%nat, [0; 0; 0; 0; 0; 0; 0; 0; 0]%nat, false);
    Some ([], true, 0%nat, [0; 0; 0; 0; 0; 0; 0; 0; 0]%nat, false) ]
  /\ run ops = spec_run ops.
Proof. vm_compute. split; reflexivity. Qed.

(* endon under three names on one object: threads 1, 2, 3 die by a, b, c respectively and by
   nothing else: after `notify a` and `notify b` only thread 3 is left (the notifier has ended)
   and prints 31 when its wait ends; the second history notifies c and a: thread 2 is left *)
Example C07_endon_names_example :
  let prog ns :=
    [ OStart ([ ISpawn 0;
                IThread [IEndOn 0 NA; IPrint 10; IWait 3; IPrint 11];
                IThread [IEndOn 0 NB; IPrint 20; IWait 3; IPrint 21];
                IThread [IEndOn 0 NC; IPrint 30; IWait 3; IPrint 31] ] ++ ns);
      OAdvance 5; OExecute ] in
  map (option_map (fun o => (prints o, nthreads o))) (run (prog [INotify 0 NA; IPrint 50; INotify 0 NB; IPrint 51])) =
    [ Some ([(1, PM 10); (2, PM 20); (3, PM 30); (0, PM 50); (0, PM 51)], 1%nat); Some ([], 1%nat);
      Some ([(3, PM 31)], 0%nat) ] /\
  map (option_map (fun o => (prints o, nthreads o))) (run (prog [INotify 0 NC; IPrint 50; INotify 0 NA; IPrint 51])) =
    [ Some ([(1, PM 10); (2, PM 20); (3, PM 30); (0, PM 50); (0, PM 51)], 1%nat); Some ([], 1%nat);
      Some ([(2, PM 21)], 0%nat) ].
Proof. vm_compute. split; reflexivity. Qed.

(* A timeout does not outlive its wait: thread 1 blocks in `waittill_timeout 3 a`, is notified at
   time 1, blocks in `waittill b`; the old deadline passes at time 3 and nothing happens; it
   proceeds at `notify b` (time 5).  Thread 2's `waittill_timeout 2 c` ends at its deadline. *)
Example C07_timeout_example :
  map (option_map (fun o => (prints o, nthreads o)))
      (run [ OStart [ ISpawn 0;
                      IThread [IPrint 1; IWaitTillTimeout 0 3 NA; IPrint 2; IWaitTill 0 NB; IPrint 3];
                      IThread [IPrint 4; IWaitTillTimeout 0 2 NC; IPrint 5] ];
             OAdvance 1; OExecute; OStart [INotify 0 NA; IPrint 6];
             OAdvance 1; OExecute; OAdvance 1; OExecute; OAdvance 2; OExecute;
             OStart [INotify 0 NB; IPrint 7] ]) =
  [ Some ([(1, PM 1); (2, PM 4)], 2%nat); Some ([], 2%nat); Some ([], 2%nat);
    Some ([(1, PM 2); (3, PM 6)], 2%nat);
    Some ([], 2%nat); Some ([(2, PM 5)], 1%nat); Some ([], 1%nat); Some ([], 1%nat);
    Some ([], 1%nat); Some ([], 1%nat);
    Some ([(1, PM 3); (4, PM 7)], 0%nat) ].
Proof. vm_compute. reflexivity. Qed.

(* waitthread applied to a group: callee 1 ends at once and puts the caller on the timer; the
   caller registers again on callee 2 (wait 2), is taken off the timer, and proceeds (prints 5)
   only in the frame in which callee 2 has ended.  With two BLOCKING callees the engine (and
   the model) lets the caller proceed when the FIRST of them ends and destroys the other one
   (second history: thread 2 never prints 7). *)
Example C07_group_waitthread_example :
  map (option_map (fun o => (prints o, nthreads o)))
      (run [ OStart [IPrint 1; IWaitThreadGroup [[IPrint 2]; [IPrint 3; IWait 2; IPrint 4]]; IPrint 5];
             OAdvance 1; OExecute; OAdvance 1; OExecute ]) =
  [ Some ([(0, PM 1); (1, PM 2); (2, PM 3)], 2%nat); Some ([], 2%nat); Some ([], 2%nat); Some ([], 2%nat);
    Some ([(2, PM 4); (0, PM 5)], 0%nat) ] /\
  map (option_map (fun o => (prints o, nthreads o)))
      (run [ OStart [IWaitThreadGroup [[IPrint 4; IWait 1; IPrint 5]; [IPrint 6; IWait 2; IPrint 7]]; IPrint 8];
             OAdvance 1; OExecute; OAdvance 1; OExecute ]) =
  [ Some ([(1, PM 4); (2, PM 6)], 3%nat); Some ([], 3%nat); Some ([(1, PM 5); (0, PM 8)], 0%nat);
    Some ([], 0%nat); Some ([], 0%nat) ].
Proof. vm_compute. split; reflexivity. Qed.

(* The stale wake-up (finding C07-stale-wake): model (= engine) prints 4 although (o0, c) was
   never notified; in the specification thread 2 stays blocked on (o0, c) and the flag is up. *)
Example C07_stale_wake_example :
  show (run stale_witness) =
    [ Some ([(1, PM 1); (2, PM 3); (1, PM 2); (2, PM 4); (0, PM 5)], true, 0%nat,
            [0; 0; 0; 0; 0; 0; 0; 0; 0]%nat, false) ] /\
  show (spec_run stale_witness) =
    [ Some ([(1, PM 1); (1, PM 2); (2, PM 3); (0, PM 5)], false, 1%nat,
            [0; 0; 1; 0; 0; 0; 0; 0; 0]%nat, true) ].
Proof. vm_compute. split; reflexivity. Qed.

(* Regression (former finding C07-unresolved-result): the callee is killed by its endon, the
   caller proceeds when the notifier's host call runs the due threads and prints NIL; model and specification agree. *)
Example C07_killed_callee_example :
  map (option_map prints) (run killed_callee_witness) = [ Some []; Some [(0, PR RNil)]; Some [] ] /\
  run killed_callee_witness = spec_run killed_callee_witness.
Proof. vm_compute. split; reflexivity. Qed.

(* a notify of the specification: registrations 0..3 on (o0, a) by threads 5, 6, 5 (again) and
   on (o0, b) by thread 6; `o0 notify a` resumes 6 then 5 (5 registered again later), cancels
   6's registration on b, and hands out nothing else *)
Example C07_notify_example :
  let x := a_reg (LO 0) (NS NB) 6 (a_reg (LO 0) (NS NA) 5 (a_reg (LO 0) (NS NA) 6 (a_reg (LO 0) (NS NA) 5 ast_init))) in
  snd (a_detach (LO 0) (NS NA) x) = [LThr 6; LThr 5] /\
  map (fun r => (rseq r, rw r, rz r)) (regs (fst (a_detach (LO 0) (NS NA) x))) = [(3, 6, true)].
Proof. vm_compute. split; reflexivity. Qed.
