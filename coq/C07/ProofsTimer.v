(* C07/ProofsTimer.v -- the code-level timer (insertion-ordered element list, backward scan of
   GetNextElement, dirty flag) against the due-time bag of the specification (adapted from
   C06/Proofs.v to the C07 records). *)
From Coq Require Import NArith List Bool Lia Sorted PeanoNat.
From Morfuse Require Import Base.Arr C07.Model C07.Spec C07.ProofsLib.
Import ListNotations.
Local Open Scope N_scope.

Definition lt_w (x y : tw) : Prop :=
  wdue x < wdue y \/ (wdue x = wdue y /\ wseq x < wseq y).
Definition le_w (x y : tw) : Prop :=
  wdue x < wdue y \/ (wdue x = wdue y /\ wseq x <= wseq y).

Lemma w_ltb_spec x y : w_ltb x y = true <-> lt_w x y.
Proof.
  unfold w_ltb, lt_w.
  rewrite orb_true_iff, andb_true_iff, N.ltb_lt, N.eqb_eq, N.ltb_lt. tauto.
Qed.

Lemma le_w_trans x y z : le_w x y -> le_w y z -> le_w x z.
Proof. unfold le_w. lia. Qed.

Lemma min_w_spec l : forall n,
  In (min_w n l) (n :: l) /\ forall y, In y (n :: l) -> le_w (min_w n l) y.
Proof.
  induction l as [|x l IH]; intro n; cbn [min_w].
  - split; [now left|]. intros y [<-|[]]. unfold le_w. lia.
  - destruct (IH (if w_ltb x n then x else n)) as [Hin Hle].
    set (n' := if w_ltb x n then x else n) in *.
    assert (Hn' : In n' [n; x] /\ le_w n' n /\ le_w n' x).
    { subst n'. destruct (w_ltb x n) eqn:E.
      - apply w_ltb_spec in E. unfold lt_w, le_w in *. cbn [In]. split; [tauto|lia].
      - assert (Hx : ~ lt_w x n) by (rewrite <- w_ltb_spec; congruence).
        unfold lt_w, le_w in *. cbn [In]. split; [tauto|lia]. }
    destruct Hn' as [Hi [Hl1 Hl2]]. split.
    + destruct Hin as [E|Hin]; [|right; right; exact Hin]. rewrite <- E.
      destruct Hi as [<-|[<-|[]]]; [now left | right; now left].
    + intros y [<-|[<-|Hy]].
      * eapply le_w_trans; [apply Hle; now left | exact Hl1].
      * eapply le_w_trans; [apply Hle; now left | exact Hl2].
      * apply Hle. now right.
Qed.

Definition notdue (fr : N) (l : list tw) : Prop := forall w, In w l -> fr < wdue w.

Lemma notdue_min fr x r : fr < wdue (min_w x r) -> notdue fr (x :: r).
Proof.
  intros Hlt w Hw. destruct (min_w_spec r x) as [_ Hle]. specialize (Hle _ Hw).
  unfold le_w in Hle. lia.
Qed.

Definition seq_lt (x y : tw) : Prop := wseq x < wseq y.
Notation sseq := (StronglySorted seq_lt).

Lemma sseq_split l1 m l2 :
  sseq (l1 ++ m :: l2) ->
  (forall y, In y l1 -> wseq y < wseq m) /\ (forall y, In y l2 -> wseq m < wseq y) /\
  sseq (l1 ++ l2).
Proof.
  induction l1 as [|a l1 IH]; cbn [app]; intro H;
    apply StronglySorted_inv in H; destruct H as [Hs Hf]; rewrite Forall_forall in Hf.
  - split; [intros y []|]. split; [exact Hf | exact Hs].
  - destruct (IH Hs) as (H1 & H2 & H3). split; [|split].
    + intros y [<-|Hy]; [|now apply H1]. apply Hf, in_or_app. right. now left.
    + exact H2.
    + constructor; [exact H3|]. apply Forall_forall. intros y Hy. apply Hf.
      apply in_app_or in Hy. apply in_or_app. destruct Hy as [Hy|Hy]; [now left|right; now right].
Qed.

Lemma sseq_snoc l n : sseq l -> (forall x, In x l -> wseq x < wseq n) -> sseq (l ++ [n]).
Proof.
  induction 1 as [|x l Hs IH Hf]; intro Hn; cbn [app].
  - constructor; constructor.
  - constructor.
    + apply IH. intros y Hy. apply Hn. now right.
    + rewrite Forall_forall in *. intros y Hy. apply in_app_or in Hy.
      destruct Hy as [Hy|[<-|[]]]; [now apply Hf | apply Hn; now left].
Qed.

Record qinv (l : list tw) (k : N) : Prop := {
  qi_sseq : sseq l;
  qi_bound : forall w, In w l -> wseq w < k }.

Lemma qinv_nil k : qinv [] k.
Proof. split; [constructor | intros w []]. Qed.

Lemma qinv_snoc l k t due : qinv l k -> qinv (l ++ [mkTw t due k]) (k + 1).
Proof.
  intros [Hs Hb]. split.
  - apply sseq_snoc; [exact Hs|]. intros x Hx. cbn [wseq]. now apply Hb.
  - intros w Hw. apply in_app_or in Hw. destruct Hw as [Hw|[<-|[]]].
    + specialize (Hb _ Hw). lia.
    + cbn [wseq]. lia.
Qed.

Lemma qinv_split l1 m l2 k : qinv (l1 ++ m :: l2) k -> qinv (l1 ++ l2) k.
Proof.
  intros [Hs Hb]. split.
  - apply sseq_split in Hs. tauto.
  - intros w Hw. apply Hb. apply in_app_or in Hw. apply in_or_app.
    destruct Hw as [Hw|Hw]; [now left | right; now right].
Qed.

Lemma filter_seq_notin k l :
  (forall y, In y l -> wseq y <> k) -> filter (fun x => negb (wseq x =? k)) l = l.
Proof.
  induction l as [|a l IH]; cbn [filter]; intro H; [reflexivity|].
  destruct (N.eqb_spec (wseq a) k) as [E|E]; cbn [negb].
  - exfalso. apply (H a); [now left | exact E].
  - f_equal. apply IH. intros y Hy. apply H. now right.
Qed.

Lemma remove_w_split l1 m l2 :
  (forall y, In y l1 -> wseq y < wseq m) -> (forall y, In y l2 -> wseq m < wseq y) ->
  remove_w (wseq m) (l1 ++ m :: l2) = l1 ++ l2.
Proof.
  intros H1 H2. unfold remove_w. rewrite filter_app. cbn [filter]. rewrite N.eqb_refl. cbn [negb].
  f_equal; apply filter_seq_notin; intros y Hy.
  - specialize (H1 _ Hy). lia.
  - specialize (H2 _ Hy). lia.
Qed.

Lemma min_split x r :
  sseq (x :: r) ->
  exists l1 l2, x :: r = l1 ++ min_w x r :: l2 /\
    (forall y, In y l1 -> wdue (min_w x r) < wdue y /\ wseq y < wseq (min_w x r)) /\
    (forall y, In y l2 -> wdue (min_w x r) <= wdue y /\ wseq (min_w x r) < wseq y).
Proof.
  intro Hs. destruct (min_w_spec r x) as [Hin Hle].
  destruct (in_split _ _ Hin) as (l1 & l2 & E). exists l1, l2.
  split; [exact E|]. rewrite E in Hs, Hle. apply sseq_split in Hs. destruct Hs as (H1 & H2 & _).
  split; intros y Hy.
  - specialize (H1 _ Hy). assert (Hl : le_w (min_w x r) y) by (apply Hle, in_or_app; now left).
    unfold le_w in Hl. lia.
  - specialize (H2 _ Hy).
    assert (Hl : le_w (min_w x r) y) by (apply Hle, in_or_app; right; now right).
    unfold le_w in Hl. lia.
Qed.

(* ---- the scan of GetNextElement *)
Definition w2e (w : tw) : N * N := (wtid w, wdue w).

Lemma scan_skip rl : forall i best found,
  (forall y, In y rl -> best < snd y) -> scan rl i best found = found.
Proof.
  induction rl as [|e rl IH]; intros i best found H; cbn [scan]; [reflexivity|].
  destruct (N.leb_spec (snd e) best) as [Hle|Hgt].
  - exfalso. specialize (H e (or_introl eq_refl)). lia.
  - apply IH. intros y Hy. apply H. now right.
Qed.

Lemma scan_pre rl : forall rest i best found t,
  (forall y, In y rl -> t <= snd y) -> t <= best ->
  exists best' found',
    t <= best' /\ scan (rl ++ rest) (length rl + i) best found = scan rest i best' found'.
Proof.
  induction rl as [|e rl IH]; intros rest i best found t H Hb.
  - exists best, found. split; [exact Hb | reflexivity].
  - cbn [app length Nat.add scan]. rewrite Nat.pred_succ.
    destruct (N.leb_spec (snd e) best) as [Hle|Hgt].
    + apply IH; [intros y Hy; apply H; now right | apply H; now left].
    + apply IH; [intros y Hy; apply H; now right | exact Hb].
Qed.

Lemma scan_split l1 m l2 best found :
  (forall y, In y l1 -> snd m < snd y) -> (forall y, In y l2 -> snd m <= snd y) ->
  snd m <= best ->
  scan (rev (l1 ++ m :: l2)) (length (l1 ++ m :: l2)) best found = Some (S (length l1)).
Proof.
  intros H1 H2 Hb. rewrite rev_app_distr. cbn [rev]. rewrite <- app_assoc. cbn [app].
  replace (length (l1 ++ m :: l2)) with (length (rev l2) + S (length l1))%nat
    by (rewrite app_length, rev_length; cbn [length]; lia).
  destruct (scan_pre (rev l2) (m :: rev l1) (S (length l1)) best found (snd m))
    as (b' & f' & Hb' & ->).
  { intros y Hy. rewrite <- in_rev in Hy. now apply H2. }
  { exact Hb. }
  cbn [scan]. rewrite Nat.pred_succ. destruct (N.leb_spec (snd m) b') as [_|Hgt]; [|lia].
  apply scan_skip. intros y Hy. rewrite <- in_rev in Hy. now apply H1.
Qed.

Lemma remove_at_split (l1 : list (N * N)) m l2 : remove_at (l1 ++ m :: l2) (S (length l1)) = l1 ++ l2.
Proof.
  induction l1 as [|a l1 IH]; [reflexivity|].
  cbn [app length]. cbn [remove_at]. rewrite IH. reflexivity.
Qed.

(* ---- removal of a thread's latest timed wait *)
Lemma remove_first_map w l : remove_first w (map w2e l) = map w2e (remove_first_tw w l).
Proof.
  induction l as [|e l IH]; cbn [map remove_first remove_first_tw]; [reflexivity|].
  cbn [w2e fst]. destruct (wtid e =? w); [reflexivity|]. cbn [map]. now rewrite IH.
Qed.

Lemma remove_first_tw_shape w l :
  remove_first_tw w l = l \/ exists l1 m l2, l = l1 ++ m :: l2 /\ remove_first_tw w l = l1 ++ l2.
Proof.
  induction l as [|e l IH]; cbn [remove_first_tw]; [now left|].
  destruct (wtid e =? w).
  - right. exists [], e, l. split; reflexivity.
  - destruct IH as [->|(l1 & m & l2 & E & ->)]; [now left|].
    right. exists (e :: l1), m, l2. split; [now rewrite E|reflexivity].
Qed.

Lemma remove_last_tw_shape w l :
  rev (remove_first_tw w (rev l)) = l \/
  exists l1 m l2, l = l1 ++ m :: l2 /\ rev (remove_first_tw w (rev l)) = l1 ++ l2.
Proof.
  destruct (remove_first_tw_shape w (rev l)) as [->|(l1 & m & l2 & E & ->)].
  - left. apply rev_involutive.
  - right. exists (rev l2), m, (rev l1). split.
    + rewrite <- (rev_involutive l), E, rev_app_distr. cbn [rev]. now rewrite <- app_assoc.
    + now rewrite rev_app_distr.
Qed.
