(* C07/Proofs.v -- the model (code-level tables and timer) refines the specification
   (registration set with sequence numbers, due-time bag) on every history on which the
   specification does not raise its flag; the two recorded findings refute the unconditional
   statement. *)
From Coq Require Import NArith List Bool Lia.
From Morfuse Require Import Base.Arr C07.Model C07.Spec C07.ProofsLib C07.ProofsTab C07.ProofsTimer
  C07.ProofsPrim C07.ProofsSim.
Import ListNotations.
Local Open Scope N_scope.

Notation mrel := (rel spec_prims R).

Theorem sim_ms : forall f k x1 x2 s,
  R x1 x2 -> mrel (go model_prims f k x1 s) (go spec_prims f k x2 s).
Proof.
  apply sim_go; cbn [model_prims spec_prims p_reg p_waiting p_detach p_detach_all p_cancel0 p_cancel_rest
                     p_tadd p_tremove p_tpop_first p_tpop p_settime p_flag].
  - intros. now apply reg_R.
  - intros. now apply waiting_eq.
  - intros a n x1 x2 HR Hf. destruct (detach_R a n x1 x2 HR) as [E H]. rewrite E in Hf.
    apply orb_false_iff in Hf. now apply H.
  - intros a x1 x2 HR Hf. destruct (detach_all_R a x1 x2 HR) as [E H]. rewrite E in Hf.
    apply orb_false_iff in Hf. now apply H.
  - intros. now apply cancel0_R.
  - intros. now apply cancel_rest_R.
  - intros. now apply tadd_R.
  - intros. now apply tremove_R.
  - intros. now apply tpop_first_R.
  - intros. now apply tpop_R.
  - intros a n w x H. exact H.
  - intros a n x H. cbn. now rewrite H.
  - intros a x H. cbn. now rewrite H.
  - intros w x H. exact H.
  - intros w x H. exact H.
  - intros w d x H. exact H.
  - intros w x H. exact H.
  - intros x H. unfold a_tpop. destruct (pend x); [exact H|]. destruct (frame x <? wdue (min_w t l)); exact H.
  - intros x H. unfold a_tpop. destruct (pend x); [exact H|]. destruct (frame x <? wdue (min_w t l)); exact H.
Qed.

(* ---------------------------------------------------------------- observations *)
Lemma observe_R x1 x2 s :
  R x1 x2 -> sflag x2 = false -> observe model_prims x1 s = observe spec_prims x2 s.
Proof.
  intros HR Hf. unfold observe.
  cbn [model_prims spec_prims p_timing p_flag].
  f_equal.
  - now apply timing_eq.
  - apply flat_map_ext_in'. intros o _. apply map_ext. intro n. unfold size_of.
    destruct (obj_of s o); [|reflexivity]. cbn [p_regsize model_prims spec_prims]. now apply regsize_eq.
  - now rewrite Hf.
Qed.

Definition quiet (o : option obs) : Prop := exists ob, o = Some ob /\ stale ob = false.

Lemma step_R x1 x2 s o x2' s' ob :
  R x1 x2 -> step spec_prims x2 s o = Some (x2', s', ob) -> stale ob = false ->
  exists x1', step model_prims x1 s o = Some (x1', s', ob) /\ R x1' x2'.
Proof.
  intros HR H Hst. unfold step in *. destruct o as [p|dt|].
  - set (s1 := new_class (new_thread (set_log s []) (ngrp (set_log s [])) p None)) in *.
    pose proof (sim_ms (fuel_for s1 0) (KExecute (ntid (set_log s []))) x1 x2 s1 HR) as Hq.
    destruct (go spec_prims (fuel_for s1 0) (KExecute (ntid (set_log s []))) x2 s1) as [[y2 t2]|]; [|discriminate].
    injection H as <- <- <-. cbn [rel] in Hq. cbn [observe stale p_flag spec_prims] in Hst.
    destruct Hq as [Hf|[y1 [E HR']]]; [cbn [p_flag spec_prims] in Hf; congruence|].
    rewrite E. exists y1. split; [|exact HR']. f_equal. f_equal. now apply observe_R.
  - injection H as <- <- <-. exists x1. split; [|exact HR]. f_equal. f_equal.
    apply observe_R; [exact HR | exact Hst].
  - pose proof (sim_ms (fuel_for (set_log s []) 0) KFrame _ _ (set_log s [])
                 (settime_R (clock (set_log s [])) x1 x2 HR)) as Hq.
    cbn [p_settime model_prims spec_prims] in *.
    destruct (go spec_prims (fuel_for (set_log s []) 0) KFrame (a_settime (clock (set_log s [])) x2) (set_log s []))
      as [[y2 t2]|]; [|discriminate].
    injection H as <- <- <-. cbn [rel] in Hq. cbn [observe stale p_flag spec_prims] in Hst.
    destruct Hq as [Hf|[y1 [E HR']]]; [cbn [p_flag spec_prims] in Hf; congruence|].
    rewrite E. exists y1. split; [|exact HR']. f_equal. f_equal. now apply observe_R.
Qed.

Lemma run_from_R ops : forall x1 x2 s,
  R x1 x2 -> Forall quiet (run_from spec_prims x2 s ops) ->
  run_from model_prims x1 s ops = run_from spec_prims x2 s ops.
Proof.
  induction ops as [|o ops IH]; intros x1 x2 s HR Hq; cbn [run_from] in *; [reflexivity|].
  destruct (step spec_prims x2 s o) as [[[x2' s'] ob2]|] eqn:E.
  - inversion Hq as [|? ? Hq1 Hq2]; subst. destruct Hq1 as [ob [Eo Hst]]. injection Eo as <-.
    destruct (step_R x1 x2 s o x2' s' ob2 HR E Hst) as (x1' & E1 & HR').
    rewrite E1. f_equal. now apply IH.
  - inversion Hq as [|? ? Hq1 Hq2]; subst. destruct Hq1 as [ob [Eo _]]. discriminate.
Qed.

(* The main theorem.  On every history on which the specification neither runs out of fuel nor
   meets a cancelled registration, the model observes exactly what the specification observes. *)
Theorem run_refines_spec_where_quiet : forall ops,
  Forall quiet (spec_run ops) -> run ops = spec_run ops.
Proof.
  intros ops H. unfold run, spec_run in *. apply run_from_R; [apply R_init | exact H].
Qed.

(* ---------------------------------------------------------------- the findings refute the unconditional statement *)
(* finding C07-stale-wake: thread 2 (waittill_any a b) is picked by `notify a`, woken by the
   nested `notify b` of thread 1, blocks in `waittill c`, and is resumed again by the outer loop *)
Definition stale_witness : list op :=
  [ OStart [ ISpawn 0;
             IThread [IWaitTill 0 NA; IPrint 1; INotify 0 NB; IPrint 2];
             IThread [IWaitTillAny 0 [NA; NB]; IPrint 3; IWaitTill 0 NC; IPrint 4];
             INotify 0 NA; IPrint 5 ] ].

Theorem run_refines_spec_refuted_by_stale_wake : exists ops, run ops <> spec_run ops.
Proof. exists stale_witness. vm_compute. discriminate. Qed.

(* regression (former finding C07-unresolved-result, fixed by f3056f7): the callee is killed by
   its endon; the caller proceeds and its result is NIL *)
Definition killed_callee_witness : list op :=
  [ OStart [ ISpawn 0; IWaitThread [IEndOn 0 NC; IWaitTill 0 NA]; IPrintR ];
    OStart [ INotify 0 NC ];
    OExecute ].
