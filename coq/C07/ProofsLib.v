(* C07/ProofsLib.v -- equality tests, association tables, list lemmas used by the C07 proofs. *)
From Coq Require Import NArith List Bool Lia.
From Morfuse Require Import Base.Arr C07.Model C07.Spec.
Import ListNotations.
Local Open Scope N_scope.

(* ---------------------------------------------------------------- equality tests *)
Lemma sname_eqb_spec a b : reflect (a = b) (sname_eqb a b).
Proof. destruct a, b; cbn; constructor; congruence. Qed.

Lemma name_eqb_spec a b : reflect (a = b) (name_eqb a b).
Proof.
  destruct a as [|x], b as [|y]; cbn; try (constructor; congruence).
  destruct (sname_eqb_spec x y); constructor; congruence.
Qed.

Lemma lid_eqb_spec a b : reflect (a = b) (lid_eqb a b).
Proof.
  destruct a as [x|x], b as [y|y]; cbn; try (constructor; congruence);
    destruct (N.eqb_spec x y); constructor; congruence.
Qed.

Lemma key_eqb_spec a b : reflect (a = b) (key_eqb a b).
Proof.
  destruct a as [a1 a2], b as [b1 b2]. unfold key_eqb. cbn [fst snd].
  destruct (lid_eqb_spec a1 b1), (name_eqb_spec a2 b2); cbn; constructor; congruence.
Qed.

Lemma lid_eqb_refl a : lid_eqb a a = true.
Proof. destruct (lid_eqb_spec a a); congruence. Qed.
Lemma name_eqb_refl a : name_eqb a a = true.
Proof. destruct (name_eqb_spec a a); congruence. Qed.
Lemma key_eqb_refl a : key_eqb a a = true.
Proof. destruct (key_eqb_spec a a); congruence. Qed.
Lemma lid_eqb_sym a b : lid_eqb a b = lid_eqb b a.
Proof. destruct (lid_eqb_spec a b), (lid_eqb_spec b a); congruence. Qed.
Lemma name_eqb_sym a b : name_eqb a b = name_eqb b a.
Proof. destruct (name_eqb_spec a b), (name_eqb_spec b a); congruence. Qed.

Lemma key_eqb_pair a n b m : key_eqb (a, n) (b, m) = lid_eqb a b && name_eqb n m.
Proof. reflexivity. Qed.

Lemma all_names_complete n : In n all_names.
Proof. destruct n as [|[ | | ]]; cbn; tauto. Qed.

Lemma all_names_nodup : NoDup all_names.
Proof.
  unfold all_names. repeat constructor; cbn; intuition congruence.
Qed.

(* ---------------------------------------------------------------- membership, removal *)
Lemma lmem_In a l : lmem a l = true <-> In a l.
Proof.
  unfold lmem. rewrite existsb_exists. split.
  - intros [b [Hb E]]. destruct (lid_eqb_spec a b); [subst; exact Hb | discriminate].
  - intro H. exists a. split; [exact H | apply lid_eqb_refl].
Qed.

Lemma lmem_false a l : lmem a l = false <-> ~ In a l.
Proof. rewrite <- lmem_In. destruct (lmem a l); split; congruence. Qed.

Lemma lmem_app a l1 l2 : lmem a (l1 ++ l2) = lmem a l1 || lmem a l2.
Proof. apply existsb_app. Qed.

Lemma lmem_rev a l : lmem a (rev l) = lmem a l.
Proof.
  destruct (lmem a l) eqn:E.
  - apply lmem_In. rewrite <- in_rev. now apply lmem_In.
  - apply lmem_false. rewrite <- in_rev. now apply lmem_false.
Qed.

Lemma lremove_notin a l : lmem a l = false -> lremove a l = l.
Proof.
  unfold lmem, lremove. induction l as [|b l IH]; cbn; [reflexivity|].
  destruct (lid_eqb a b); cbn; [discriminate|]. intro H. now rewrite IH.
Qed.

Lemma lmem_lremove a b l : lmem a (lremove b l) = negb (lid_eqb b a) && lmem a l.
Proof.
  unfold lmem, lremove. induction l as [|c l IH]; cbn; [now rewrite andb_false_r|].
  destruct (lid_eqb_spec b c) as [->|Hbc]; cbn.
  - rewrite IH. destruct (lid_eqb_spec a c) as [->|Hac]; cbn.
    + rewrite lid_eqb_refl. reflexivity.
    + reflexivity.
  - rewrite IH. destruct (lid_eqb_spec a c) as [->|Hac]; cbn.
    + destruct (lid_eqb_spec b c); [contradiction|reflexivity].
    + reflexivity.
Qed.

Lemma lremove_idem a l : lremove a (lremove a l) = lremove a l.
Proof.
  apply lremove_notin. rewrite lmem_lremove, lid_eqb_refl. reflexivity.
Qed.

(* ---------------------------------------------------------------- tables *)
Lemma look_tdel_same t k : look (tdel t k) k = [].
Proof.
  induction t as [|[k' l] t IH]; cbn; [reflexivity|].
  destruct (key_eqb k k') eqn:E; cbn; [exact IH|]. rewrite E. exact IH.
Qed.

Lemma look_tdel_other t k k' : k <> k' -> look (tdel t k') k = look t k.
Proof.
  intro H. induction t as [|[k2 l] t IH]; cbn; [reflexivity|].
  destruct (key_eqb_spec k' k2) as [<-|H2]; cbn.
  - destruct (key_eqb_spec k k'); [contradiction|exact IH].
  - destruct (key_eqb k k2); [reflexivity|exact IH].
Qed.

Lemma look_snoc_other t k k' l : k <> k' -> look (t ++ [(k', l)]) k = look t k.
Proof.
  intro H. induction t as [|[k2 l2] t IH]; cbn.
  - destruct (key_eqb_spec k k'); [contradiction|reflexivity].
  - destruct (key_eqb k k2); [reflexivity|exact IH].
Qed.

Lemma look_tdel_snoc t k l : look (tdel t k ++ [(k, l)]) k = l.
Proof.
  induction t as [|[k2 l2] t IH]; cbn.
  - now rewrite key_eqb_refl.
  - destruct (key_eqb k k2) eqn:E; cbn; [exact IH|]. rewrite E. exact IH.
Qed.

Lemma look_tset_same t k l : look (tset t k l) k = l.
Proof.
  unfold tset. destruct l as [|a l]; [apply look_tdel_same | apply look_tdel_snoc].
Qed.

Lemma look_tset_other t k k' l : k <> k' -> look (tset t k' l) k = look t k.
Proof.
  intro H. unfold tset. destruct l as [|a l].
  - now apply look_tdel_other.
  - rewrite look_snoc_other by exact H. now apply look_tdel_other.
Qed.

Lemma look_tset t k k' l : look (tset t k' l) k = if key_eqb k k' then l else look t k.
Proof.
  destruct (key_eqb_spec k k') as [->|H]; [apply look_tset_same | now apply look_tset_other].
Qed.

Lemma look_tdel t k k' : look (tdel t k') k = if key_eqb k k' then [] else look t k.
Proof.
  destruct (key_eqb_spec k k') as [->|H]; [apply look_tdel_same | now apply look_tdel_other].
Qed.

Lemma look_tdel_l t a b n : look (tdel_l t a) (b, n) = if lid_eqb b a then [] else look t (b, n).
Proof.
  induction t as [|[[c m] l] t IH]; cbn [tdel_l filter look fst]; [now destruct (lid_eqb b a)|].
  fold (tdel_l t a). destruct (lid_eqb_spec a c) as [<-|Hac]; cbn [negb].
  - rewrite IH. rewrite key_eqb_pair. destruct (lid_eqb_spec b a) as [->|Hba]; cbn; reflexivity.
  - cbn [look]. rewrite IH, key_eqb_pair.
    destruct (lid_eqb_spec b c) as [->|Hbc]; cbn [andb].
    + destruct (lid_eqb_spec c a); [congruence|]. reflexivity.
    + reflexivity.
Qed.

Global Opaque tset tdel tdel_l.

Lemma tab_remove_look t k a k' :
  look (fst (tab_remove t k a)) k' = if key_eqb k' k then lremove a (look t k) else look t k'.
Proof.
  unfold tab_remove. destruct (lmem a (look t k)) eqn:E; cbn [fst].
  - apply look_tset.
  - destruct (key_eqb_spec k' k) as [->|H]; [|reflexivity]. now rewrite lremove_notin.
Qed.

Lemma tab_remove_found t k a : snd (tab_remove t k a) = lmem a (look t k).
Proof. unfold tab_remove. now destruct (lmem a (look t k)). Qed.

(* ---------------------------------------------------------------- first occurrences *)
Lemma lmem_cons x a l : lmem x (a :: l) = lid_eqb x a || lmem x l.
Proof. reflexivity. Qed.

Lemma first_occ_ext l : forall s1 s2, (forall x, lmem x s1 = lmem x s2) -> first_occ l s1 = first_occ l s2.
Proof.
  induction l as [|a l IH]; intros s1 s2 H; cbn [first_occ]; [reflexivity|].
  rewrite (H a). destruct (lmem a s2); [now apply IH|]. f_equal. apply IH.
  intro x. rewrite !lmem_cons. now rewrite H.
Qed.

(* elements that satisfy p, each at its first occurrence, unless already seen *)
Lemma first_occ_filter_drop (p : lid -> bool) b l : forall seen,
  first_occ (filter (fun x => p x && negb (lid_eqb b x)) l) seen = first_occ (filter p l) (b :: seen).
Proof.
  induction l as [|a l IH]; intro seen; cbn [filter]; [reflexivity|].
  destruct (p a) eqn:Ep; cbn [andb].
  - destruct (lid_eqb_spec b a) as [<-|Hba]; cbn [negb].
    + cbn [first_occ]. rewrite lmem_cons, lid_eqb_refl. cbn [orb]. apply IH.
    + cbn [first_occ]. rewrite lmem_cons.
      destruct (lid_eqb_spec a b); [congruence|]. cbn [orb].
      destruct (lmem a seen); [apply IH|]. f_equal.
      rewrite IH. apply first_occ_ext. intro x. rewrite !lmem_cons.
      destruct (lid_eqb x b), (lid_eqb x a); reflexivity.
  - apply IH.
Qed.

Lemma first_occ_in l : forall seen x, In x (first_occ l seen) <-> In x l /\ lmem x seen = false.
Proof.
  induction l as [|a l IH]; intros seen x; cbn [first_occ]; [cbn; tauto|].
  destruct (lmem a seen) eqn:E.
  - rewrite IH. cbn [In]. split; [tauto|]. intros [[<-|H] Hs]; [congruence|tauto].
  - cbn [In]. rewrite IH. rewrite lmem_cons.
    destruct (lid_eqb_spec x a) as [->|Hxa]; cbn [orb].
    + split; [intros [_|[_ H]]; [tauto|discriminate] | tauto].
    + split; [intros [H|H]; [congruence|tauto] | intros [[H|H] Hs]; [congruence|tauto]].
Qed.

Lemma first_occ_nodup l : forall seen, NoDup (first_occ l seen).
Proof.
  induction l as [|a l IH]; intro seen; cbn [first_occ]; [constructor|].
  destruct (lmem a seen); [apply IH|]. constructor; [|apply IH].
  rewrite first_occ_in. rewrite lmem_cons, lid_eqb_refl. cbn. intros [_ H]. discriminate.
Qed.

Lemma by_last_in l x : In x (by_last l) <-> In x l.
Proof.
  unfold by_last. rewrite <- in_rev, first_occ_in, <- in_rev. cbn. tauto.
Qed.

Lemma by_last_nodup l : NoDup (by_last l).
Proof.
  unfold by_last. apply NoDup_rev. apply first_occ_nodup.
Qed.

(* ---------------------------------------------------------------- filters *)
Lemma filter_filter {A} (p q : A -> bool) l : filter p (filter q l) = filter (fun x => q x && p x) l.
Proof.
  induction l as [|a l IH]; cbn; [reflexivity|].
  destruct (q a); cbn; [destruct (p a); now rewrite IH | exact IH].
Qed.

Lemma filter_ext_in' {A} (p q : A -> bool) l : (forall x, In x l -> p x = q x) -> filter p l = filter q l.
Proof.
  induction l as [|a l IH]; cbn; intro H; [reflexivity|].
  rewrite (H a) by now left. rewrite IH; [reflexivity|]. intros x Hx. apply H. now right.
Qed.

Lemma filter_none {A} (p : A -> bool) l : (forall x, In x l -> p x = false) -> filter p l = [].
Proof.
  induction l as [|a l IH]; cbn; intro H; [reflexivity|].
  rewrite (H a) by now left. apply IH. intros x Hx. apply H. now right.
Qed.

Lemma filter_all {A} (p : A -> bool) l : (forall x, In x l -> p x = true) -> filter p l = l.
Proof.
  induction l as [|a l IH]; cbn; intro H; [reflexivity|].
  rewrite (H a) by now left. f_equal. apply IH. intros x Hx. apply H. now right.
Qed.

Lemma existsb_false_forall {A} (p : A -> bool) l : existsb p l = false <-> forall x, In x l -> p x = false.
Proof.
  induction l as [|a l IH]; cbn; [tauto|].
  rewrite orb_false_iff, IH. split.
  - intros [H1 H2] x [<-|Hx]; auto.
  - intro H. split; [apply H; now left | intros x Hx; apply H; now right].
Qed.

Lemma flat_map_ext_in' {A B} (f g : A -> list B) l :
  (forall x, In x l -> f x = g x) -> flat_map f l = flat_map g l.
Proof.
  induction l as [|a l IH]; cbn; intro H; [reflexivity|].
  rewrite (H a) by now left. f_equal. apply IH. intros x Hx. apply H. now right.
Qed.

Lemma filter_map_comm {A B} (f : A -> B) (p : B -> bool) l :
  filter p (map f l) = map f (filter (fun x => p (f x)) l).
Proof.
  induction l as [|a l IH]; cbn; [reflexivity|]. destruct (p (f a)); cbn; now rewrite IH.
Qed.
