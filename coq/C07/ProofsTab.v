(* C07/ProofsTab.v -- the mirrored tables m_NotifyList / m_WaitForList of the model represent
   the registration set of the specification: every table primitive of the model corresponds
   to the primitive of the specification. *)
From Coq Require Import NArith List Bool Lia.
From Morfuse Require Import Base.Arr C07.Model C07.Spec C07.ProofsLib.
Import ListNotations.
Local Open Scope N_scope.

(* ---------------------------------------------------------------- the two table loops *)
Lemma rfe_spec n a rls : forall t stopped t' st',
  remove_from_each t n a rls stopped = (t', st') ->
  (forall L n', look t' (L, n') =
     if name_eqb n' n && lmem L rls then lremove a (look t (L, n')) else look t (L, n')) /\
  st' = stopped ++ first_occ (filter (fun L => lmem a (look t (L, n))) rls) [].
Proof.
  induction rls as [|L r IH]; intros t stopped t' st' H; cbn [remove_from_each] in H.
  - injection H as <- <-. split.
    + intros L n'. cbn. now rewrite andb_false_r.
    + cbn. now rewrite app_nil_r.
  - destruct (tab_remove t (L, n) a) as [t1 found] eqn:E.
    assert (Hl : forall k', look t1 k' = if key_eqb k' (L, n) then lremove a (look t (L, n)) else look t k').
    { intro k'. rewrite <- (tab_remove_look t (L, n) a k'). now rewrite E. }
    assert (Hf : found = lmem a (look t (L, n))).
    { rewrite <- (tab_remove_found t (L, n) a). now rewrite E. }
    apply IH in H. destruct H as [H1 H2]. split.
    + intros L' n'. rewrite H1, !Hl, key_eqb_pair, lmem_cons.
      destruct (name_eqb_spec n' n) as [->|Hn]; cbn [andb]; [|now rewrite !andb_false_r].
      rewrite !andb_true_r.
      destruct (lid_eqb_spec L' L) as [->|HL]; cbn [orb].
      * destruct (lmem L r); [apply lremove_idem | reflexivity].
      * reflexivity.
    + rewrite H2. set (p := fun L0 => lmem a (look t (L0, n))).
      assert (Hp1 : forall x, lmem a (look t1 (x, n)) = p x && negb (lid_eqb L x)).
      { intro x. rewrite Hl, key_eqb_pair, name_eqb_refl, andb_true_r. subst p. cbn beta.
        rewrite (lid_eqb_sym L x).
        destruct (lid_eqb_spec x L) as [->|Hx]; cbn [negb].
        - rewrite lmem_lremove, lid_eqb_refl. cbn. now rewrite andb_false_r.
        - now rewrite andb_true_r. }
      rewrite (filter_ext_in' _ (fun x => p x && negb (lid_eqb L x)) r) by (intros x _; apply Hp1).
      cbn [filter]. fold (p L). rewrite Hf. fold (p L).
      destruct (p L) eqn:EpL.
      * rewrite first_occ_filter_drop. cbn [first_occ lmem existsb]. now rewrite <- app_assoc.
      * f_equal. f_equal. apply filter_ext_in'. intros x _.
        destruct (lid_eqb_spec L x) as [<-|Hx]; cbn [negb]; [now rewrite EpL | now rewrite andb_true_r].
Qed.

Definition nmem (n : name) (l : list name) : bool := existsb (name_eqb n) l.

Lemma nmem_In n l : nmem n l = true <-> In n l.
Proof.
  unfold nmem. rewrite existsb_exists. split.
  - intros [m [Hm E]]. destruct (name_eqb_spec n m); [subst; exact Hm | discriminate].
  - intro H. exists n. split; [exact H | apply name_eqb_refl].
Qed.

Lemma rfa_spec own a names : forall t stopped t' st',
  NoDup names ->
  remove_from_all own t a names stopped = (t', st') ->
  (forall L n', look t' (L, n') =
     if nmem n' names && lmem L (look own (a, n')) then lremove a (look t (L, n')) else look t (L, n')) /\
  st' = stopped ++ flat_map (fun n => first_occ (filter (fun L => lmem a (look t (L, n))) (rev (look own (a, n)))) []) names.
Proof.
  induction names as [|n r IH]; intros t stopped t' st' Hnd H; cbn [remove_from_all] in H.
  - injection H as <- <-. split; [reflexivity | cbn; now rewrite app_nil_r].
  - destruct (remove_from_each t n a (rev (look own (a, n))) stopped) as [t1 st1] eqn:E.
    apply rfe_spec in E. destruct E as [E1 E2].
    apply NoDup_cons_iff in Hnd. destruct Hnd as [Hnot Hnd'].
    apply IH in H; [|exact Hnd']. destruct H as [H1 H2]. split.
    + intros L n'. rewrite H1, !E1. unfold nmem. cbn [existsb]. fold (nmem n' r).
      rewrite lmem_rev.
      destruct (name_eqb_spec n' n) as [->|Hn]; cbn [andb orb].
      * assert (Hr : nmem n r = false).
        { destruct (nmem n r) eqn:Er; [|reflexivity]. apply nmem_In in Er. contradiction. }
        rewrite Hr. cbn [andb]. reflexivity.
      * reflexivity.
    + rewrite H2, E2. cbn [flat_map]. rewrite <- app_assoc. f_equal. f_equal.
      apply flat_map_ext_in'.
      intros m Hm. f_equal. apply filter_ext_in'. intros x _. rewrite E1.
      destruct (name_eqb_spec m n) as [->|Hmn]; [contradiction|reflexivity].
Qed.

(* ---------------------------------------------------------------- projections of the registrations *)
Definition onk (kf : reg -> lid) (k : lid) (n : name) (r : reg) : bool :=
  lid_eqb k (kf r) && name_eqb n (rn r).
Definition proj (kf vf : reg -> lid) (k : lid) (n : name) (l : list reg) : list lid :=
  map vf (filter (onk kf k n) l).
Definition wl (r : reg) : lid := LThr (rw r).

Lemma waiters_proj src n l : waiters_of src n l = proj rsrc wl src n l.
Proof. reflexivity. Qed.
Lemma sources_proj w n l : sources_of w n l = proj wl rsrc (LThr w) n l.
Proof. reflexivity. Qed.

Section Proj.
  Variables kf vf : reg -> lid.

  Lemma proj_snoc k n l r :
    proj kf vf k n (l ++ [r]) = proj kf vf k n l ++ (if onk kf k n r then [vf r] else []).
  Proof.
    unfold proj. rewrite filter_app, map_app. cbn [filter]. now destruct (onk kf k n r).
  Qed.

  Lemma proj_drop_key k n k' n' l :
    proj kf vf k' n' (filter (fun r => negb (onk kf k n r)) l) =
    if key_eqb (k', n') (k, n) then [] else proj kf vf k' n' l.
  Proof.
    unfold proj. rewrite filter_filter.
    destruct (key_eqb_spec (k', n') (k, n)) as [E|E].
    - injection E as -> ->. rewrite filter_none; [reflexivity|]. intros x _. now destruct (onk kf k n x).
    - f_equal. apply filter_ext_in'. intros x _. unfold onk.
      destruct (lid_eqb_spec k (kf x)) as [->|H1]; cbn [andb negb]; [|reflexivity].
      destruct (name_eqb_spec n (rn x)) as [->|H2]; cbn [negb andb]; [|reflexivity].
      destruct (lid_eqb_spec k' (kf x)) as [->|H3]; cbn [andb]; [|reflexivity].
      destruct (name_eqb_spec n' (rn x)) as [->|H4]; [congruence|reflexivity].
  Qed.

  Lemma proj_mirror_drop k n L n' l :
    proj vf kf L n' (filter (fun r => negb (onk kf k n r)) l) =
    if name_eqb n' n then lremove k (proj vf kf L n' l) else proj vf kf L n' l.
  Proof.
    unfold proj, lremove. rewrite filter_filter.
    destruct (name_eqb_spec n' n) as [->|Hn].
    - rewrite filter_map_comm, filter_filter. f_equal. apply filter_ext_in'. intros x _.
      unfold onk. destruct (lid_eqb L (vf x)), (name_eqb n (rn x)), (lid_eqb k (kf x)); reflexivity.
    - f_equal. apply filter_ext_in'. intros x _. unfold onk.
      destruct (name_eqb_spec n (rn x)) as [->|H2].
      + destruct (name_eqb_spec n' (rn x)); [contradiction|]. now rewrite !andb_false_r.
      + rewrite andb_false_r. reflexivity.
  Qed.

  Lemma proj_drop_listener k k' n' l :
    proj kf vf k' n' (filter (fun r => negb (lid_eqb k (kf r))) l) =
    if lid_eqb k' k then [] else proj kf vf k' n' l.
  Proof.
    unfold proj. rewrite filter_filter.
    destruct (lid_eqb_spec k' k) as [->|E].
    - rewrite filter_none; [reflexivity|]. intros x _. unfold onk. now destruct (lid_eqb k (kf x)).
    - f_equal. apply filter_ext_in'. intros x _. unfold onk.
      destruct (lid_eqb_spec k (kf x)) as [->|H1]; cbn [negb andb]; [|reflexivity].
      destruct (lid_eqb_spec k' (kf x)); [contradiction|reflexivity].
  Qed.

  Lemma proj_mirror_drop_listener k L n' l :
    proj vf kf L n' (filter (fun r => negb (lid_eqb k (kf r))) l) = lremove k (proj vf kf L n' l).
  Proof.
    unfold proj, lremove. rewrite filter_filter, filter_map_comm, filter_filter. f_equal.
    apply filter_ext_in'. intros x _. now rewrite andb_comm.
  Qed.

  Lemma proj_mem_mirror k L n l :
    lmem k (proj vf kf L n l) = lmem L (proj kf vf k n l).
  Proof.
    unfold proj. induction l as [|r l IH]; cbn [filter map]; [reflexivity|].
    destruct (onk vf L n r) eqn:Ea, (onk kf k n r) eqn:Eb; cbn [map]; rewrite ?lmem_cons;
      unfold onk in Ea, Eb.
    - apply andb_true_iff in Ea. apply andb_true_iff in Eb. destruct Ea as [-> _], Eb as [-> _]. reflexivity.
    - apply andb_true_iff in Ea. destruct Ea as [Ea1 Ea2]. rewrite Ea2, andb_true_r in Eb.
      rewrite Eb. exact IH.
    - apply andb_true_iff in Eb. destruct Eb as [Eb1 Eb2]. rewrite Eb2, andb_true_r in Ea.
      rewrite Ea. exact IH.
    - exact IH.
  Qed.

  Lemma proj_map (g : reg -> reg) k n l :
    (forall r, kf (g r) = kf r) -> (forall r, vf (g r) = vf r) -> (forall r, rn (g r) = rn r) ->
    proj kf vf k n (map g l) = proj kf vf k n l.
  Proof.
    intros H1 H2 H3. unfold proj. induction l as [|r l IH]; cbn [map filter]; [reflexivity|].
    assert (E : onk kf k n (g r) = onk kf k n r) by (unfold onk; now rewrite H1, H3).
    rewrite E. destruct (onk kf k n r); cbn [map]; now rewrite ?H2, IH.
  Qed.
End Proj.

(* ---------------------------------------------------------------- mirrored tables *)
Definition Mir (A B : tab) (kf vf : reg -> lid) (l : list reg) : Prop :=
  (forall k n, look A (k, n) = proj kf vf k n l) /\ (forall k n, look B (k, n) = proj vf kf k n l).

Lemma Mir_sym A B kf vf l : Mir A B kf vf l -> Mir B A vf kf l.
Proof. intros [H1 H2]. split; assumption. Qed.

Lemma Mir_detach A B kf vf l a n B' st :
  Mir A B kf vf l ->
  remove_from_each B n a (rev (look A (a, n))) [] = (B', st) ->
  Mir (tdel A (a, n)) B' kf vf (filter (fun r => negb (onk kf a n r)) l) /\
  rev st = by_last (proj kf vf a n l).
Proof.
  intros [HA HB] H. apply rfe_spec in H. destruct H as [H1 H2]. cbn [app] in H2.
  rewrite HA in H1, H2.
  assert (Hp : forall L, lmem a (look B (L, n)) = lmem L (proj kf vf a n l)).
  { intro L. rewrite HB. apply proj_mem_mirror. }
  split; [split|].
  - intros k n'. rewrite look_tdel, HA. symmetry. apply proj_drop_key.
  - intros L n'. rewrite H1, lmem_rev, proj_mirror_drop, HB.
    destruct (name_eqb_spec n' n) as [->|Hn]; cbn [andb]; [|reflexivity].
    destruct (lmem L (proj kf vf a n l)) eqn:E; [reflexivity|].
    symmetry. apply lremove_notin. now rewrite proj_mem_mirror.
  - rewrite H2. unfold by_last. f_equal. f_equal. apply filter_all.
    intros L HL. rewrite Hp. apply lmem_In. now rewrite in_rev.
Qed.

Lemma Mir_detach_all A B kf vf l a B' st :
  Mir A B kf vf l ->
  remove_from_all A B a all_names [] = (B', st) ->
  Mir (tdel_l A a) B' kf vf (filter (fun r => negb (lid_eqb a (kf r))) l) /\
  st = flat_map (fun n => first_occ (rev (proj kf vf a n l)) []) all_names.
Proof.
  intros [HA HB] H. apply rfa_spec in H; [|apply all_names_nodup]. destruct H as [H1 H2]. cbn [app] in H2.
  assert (Hp : forall L n, lmem a (look B (L, n)) = lmem L (proj kf vf a n l)).
  { intros L n. rewrite HB. apply proj_mem_mirror. }
  split; [split|].
  - intros k n'. rewrite look_tdel_l, HA. symmetry. apply proj_drop_listener.
  - intros L n'. rewrite H1, proj_mirror_drop_listener, HB, HA.
    assert (Hn : nmem n' all_names = true) by (apply nmem_In, all_names_complete).
    rewrite Hn. cbn [andb].
    destruct (lmem L (proj kf vf a n' l)) eqn:E; [reflexivity|].
    symmetry. apply lremove_notin. now rewrite proj_mem_mirror.
  - rewrite H2. apply flat_map_ext_in'. intros n _. rewrite HA. f_equal. apply filter_all.
    intros L HL. rewrite Hp. apply lmem_In. now rewrite in_rev.
Qed.
