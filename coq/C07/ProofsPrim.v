(* C07/ProofsPrim.v -- the simulation relation between the code-level tables + timer and the
   specification's registration set + due-time bag, and the correspondence of every primitive. *)
From Coq Require Import NArith List Bool Lia Sorted PeanoNat.
From Morfuse Require Import Base.Arr C07.Model C07.Spec C07.ProofsLib C07.ProofsTab C07.ProofsTimer.
Import ListNotations.
Local Open Scope N_scope.

Record R (x1 : mt) (x2 : ast) : Prop := mkR {
  R_tab : Mir (ntab x1) (wtab x1) rsrc wl (regs x2);
  R_el : elems x1 = map w2e (pend x2);
  R_q : qinv (pend x2) (tseq x2);
  R_time : mtime x1 = frame x2;
  R_dirty : dirty x1 = false -> notdue (frame x2) (pend x2) }.

Lemma R_init : R mt_init ast_init.
Proof.
  split; cbn.
  - split; intros k n; reflexivity.
  - reflexivity.
  - apply qinv_nil.
  - reflexivity.
  - intros _ w [].
Qed.

(* ---------------------------------------------------------------- registrations *)
Lemma reg_R src n w x1 x2 : R x1 x2 -> R (m_reg src n w x1) (a_reg src n w x2).
Proof.
  intros [[HA HB] He Hq Ht Hd]. split; cbn [m_reg a_reg ntab wtab elems mtime dirty regs pend frame tseq]; auto.
  split; intros k n'.
  - rewrite look_tset, proj_snoc, HA, HA. unfold onk, wl. cbn [rsrc rn rw]. rewrite key_eqb_pair.
    destruct (lid_eqb k src && name_eqb n' n) eqn:E; [|now rewrite app_nil_r].
    apply andb_true_iff in E. destruct E as [E1 E2].
    destruct (lid_eqb_spec k src); [subst|discriminate]. destruct (name_eqb_spec n' n); [subst|discriminate].
    reflexivity.
  - rewrite look_tset, proj_snoc, HB, HB. unfold onk, wl. cbn [rsrc rn rw]. rewrite key_eqb_pair.
    destruct (lid_eqb k (LThr w) && name_eqb n' n) eqn:E; [|now rewrite app_nil_r].
    apply andb_true_iff in E. destruct E as [E1 E2].
    destruct (lid_eqb_spec k (LThr w)); [subst|discriminate]. destruct (name_eqb_spec n' n); [subst|discriminate].
    reflexivity.
Qed.

Lemma waiting_eq w x1 x2 : R x1 x2 -> m_waiting w x1 = a_waiting w x2.
Proof.
  intros [[HA HB] _ _ _ _]. unfold m_waiting, a_waiting, has_key.
  destruct (existsb (fun r => w =? rw r) (regs x2)) eqn:E.
  - apply existsb_exists in E. destruct E as [r [Hr Er]].
    apply existsb_exists. exists (rn r). split; [apply all_names_complete|].
    rewrite HB. unfold proj.
    assert (Hin : In r (filter (onk wl (LThr w) (rn r)) (regs x2))).
    { apply filter_In. split; [exact Hr|]. unfold onk, wl. cbn [lid_eqb]. now rewrite Er, name_eqb_refl. }
    destruct (filter (onk wl (LThr w) (rn r)) (regs x2)); [destruct Hin | reflexivity].
  - apply existsb_false_forall. intros n _. rewrite HB. unfold proj.
    rewrite filter_none; [reflexivity|]. intros r Hr.
    rewrite existsb_false_forall in E. unfold onk, wl. cbn [lid_eqb]. now rewrite (E r Hr).
Qed.

Lemma regsize_eq src n x1 x2 : R x1 x2 -> m_regsize src n x1 = a_regsize src n x2.
Proof.
  intros [[HA HB] _ _ _ _]. unfold m_regsize, a_regsize. rewrite HA. unfold proj. apply map_length.
Qed.

Lemma cancel_of_rsrc ws r : rsrc (cancel_of ws r) = rsrc r.
Proof. unfold cancel_of. now destruct (lmem (LThr (rw r)) ws). Qed.
Lemma cancel_of_wl ws r : wl (cancel_of ws r) = wl r.
Proof. unfold cancel_of, wl. now destruct (lmem (LThr (rw r)) ws). Qed.
Lemma cancel_of_rn ws r : rn (cancel_of ws r) = rn r.
Proof. unfold cancel_of. now destruct (lmem (LThr (rw r)) ws). Qed.

Lemma Mir_map A B l g :
  (forall r, rsrc (g r) = rsrc r) -> (forall r, wl (g r) = wl r) -> (forall r, rn (g r) = rn r) ->
  Mir A B rsrc wl l -> Mir A B rsrc wl (map g l).
Proof.
  intros H1 H2 H3 [HA HB]. split; intros k n; rewrite proj_map; auto.
Qed.

Lemma live_waiters_all src n l :
  existsb rz (filter (on_src src n) l) = false -> live_waiters_of src n l = waiters_of src n l.
Proof.
  intro H. unfold live_waiters_of, waiters_of. f_equal.
  rewrite existsb_false_forall in H. apply filter_ext_in'. intros r Hr.
  destruct (on_src src n r) eqn:E; [|reflexivity]. cbn [andb].
  rewrite (H r); [reflexivity|]. apply filter_In. now split.
Qed.

Lemma detach_R src n x1 x2 :
  R x1 x2 ->
  sflag (fst (a_detach src n x2)) = (sflag x2 || existsb rz (filter (on_src src n) (regs x2))) /\
  (existsb rz (filter (on_src src n) (regs x2)) = false ->
   R (fst (m_detach src n x1)) (fst (a_detach src n x2)) /\
   snd (m_detach src n x1) = snd (a_detach src n x2)).
Proof.
  intros [HM He Hq Ht Hd]. split; [reflexivity|]. intro Hz.
  unfold m_detach, a_detach.
  destruct (remove_from_each (wtab x1) n src (rev (look (ntab x1) (src, n))) []) as [wt' st] eqn:E.
  destruct (Mir_detach _ _ _ _ _ _ _ _ _ HM E) as [HM' Hst].
  cbn [fst snd]. rewrite live_waiters_all by exact Hz. split.
  - split; cbn [ntab wtab elems mtime dirty regs pend frame tseq]; auto.
    apply Mir_map; [apply cancel_of_rsrc | apply cancel_of_wl | apply cancel_of_rn | exact HM'].
  - exact Hst.
Qed.

Lemma live_waiters_all_src src l :
  existsb rz (filter (fun r => lid_eqb src (rsrc r)) l) = false ->
  forall n, live_waiters_of src n l = waiters_of src n l.
Proof.
  intros H n. apply live_waiters_all. rewrite existsb_false_forall in *. intros r Hr.
  apply filter_In in Hr. destruct Hr as [Hr Eo]. apply H. apply filter_In. split; [exact Hr|].
  unfold on_src in Eo. apply andb_true_iff in Eo. tauto.
Qed.

Lemma detach_all_R src x1 x2 :
  R x1 x2 ->
  sflag (fst (a_detach_all src x2)) = (sflag x2 || existsb rz (filter (fun r => lid_eqb src (rsrc r)) (regs x2))) /\
  (existsb rz (filter (fun r => lid_eqb src (rsrc r)) (regs x2)) = false ->
   R (fst (m_detach_all src x1)) (fst (a_detach_all src x2)) /\
   snd (m_detach_all src x1) = snd (a_detach_all src x2)).
Proof.
  intros [HM He Hq Ht Hd]. split; [reflexivity|]. intro Hz.
  unfold m_detach_all, a_detach_all.
  destruct (remove_from_all (ntab x1) (wtab x1) src all_names []) as [wt' st] eqn:E.
  destruct (Mir_detach_all _ _ _ _ _ _ _ _ HM E) as [HM' Hst].
  cbn [fst snd]. split.
  - split; cbn [ntab wtab elems mtime dirty regs pend frame tseq]; auto.
  - rewrite Hst. f_equal. apply flat_map_ext_in'. intros m _.
    now rewrite (live_waiters_all_src _ _ Hz).
Qed.

Lemma cancel0_R w x1 x2 :
  R x1 x2 ->
  R (fst (m_cancel0 w x1)) (fst (a_cancel0 w x2)) /\ snd (m_cancel0 w x1) = snd (a_cancel0 w x2).
Proof.
  intros [HM He Hq Ht Hd]. unfold m_cancel0, a_cancel0.
  destruct (remove_from_each (ntab x1) NE (LThr w) (rev (look (wtab x1) (LThr w, NE))) []) as [nt' st] eqn:E.
  destruct (Mir_detach _ _ _ _ _ _ _ _ _ (Mir_sym _ _ _ _ _ HM) E) as [HM' Hst].
  cbn [fst snd]. split.
  - split; cbn [ntab wtab elems mtime dirty regs pend frame tseq]; auto.
    apply Mir_sym. exact HM'.
  - exact Hst.
Qed.

Lemma cancel_rest_R w x1 x2 :
  R x1 x2 ->
  R (fst (m_cancel_rest w x1)) (fst (a_cancel_rest w x2)) /\
  snd (m_cancel_rest w x1) = snd (a_cancel_rest w x2).
Proof.
  intros [HM He Hq Ht Hd]. unfold m_cancel_rest, a_cancel_rest.
  destruct (remove_from_all (wtab x1) (ntab x1) (LThr w) all_names []) as [nt' st] eqn:E.
  destruct (Mir_detach_all _ _ _ _ _ _ _ _ (Mir_sym _ _ _ _ _ HM) E) as [HM' Hst].
  cbn [fst snd]. split.
  - split; cbn [ntab wtab elems mtime dirty regs pend frame tseq]; auto.
    apply Mir_sym. exact HM'.
  - now rewrite Hst.
Qed.

(* ---------------------------------------------------------------- the timer *)
Lemma tadd_R w d x1 x2 : R x1 x2 -> R (m_tadd w d x1) (a_tadd w d x2).
Proof.
  intros [HM He Hq Ht Hd]. split; cbn [m_tadd a_tadd ntab wtab elems mtime dirty regs pend frame tseq]; auto.
  - rewrite He, map_app, Ht. reflexivity.
  - now apply qinv_snoc.
  - rewrite Ht. destruct (N.leb_spec (frame x2 + d) (frame x2)) as [Hle|Hgt]; [discriminate|].
    intros Hf y Hy. apply in_app_or in Hy. destruct Hy as [Hy|[<-|[]]]; [now apply Hd | cbn [wdue]; exact Hgt].
Qed.

Lemma tremove_R w x1 x2 : R x1 x2 -> R (m_tremove w x1) (a_tremove w x2).
Proof.
  intros [HM He Hq Ht Hd]. split; cbn [m_tremove a_tremove ntab wtab elems mtime dirty regs pend frame tseq]; auto.
  - rewrite He, <- map_rev, remove_first_map, map_rev. reflexivity.
  - destruct (remove_last_tw_shape w (pend x2)) as [->|(l1 & m & l2 & E & ->)]; [exact Hq|].
    rewrite E in Hq. now apply qinv_split in Hq.
  - intros Hf y Hy. apply (Hd Hf).
    destruct (remove_last_tw_shape w (pend x2)) as [E|(l1 & m & l2 & E & E2)].
    + now rewrite E in Hy.
    + rewrite E2 in Hy. rewrite E. apply in_app_or in Hy. apply in_or_app.
      destruct Hy as [Hy|Hy]; [now left | right; now right].
Qed.

Lemma tpop_R x1 x2 :
  R x1 x2 -> R (fst (m_tpop x1)) (fst (a_tpop x2)) /\ snd (m_tpop x1) = snd (a_tpop x2).
Proof.
  intros [HM He Hq Ht Hd].
  destruct x1 as [nt wt el mt d], x2 as [rg ns pd fr ts sf].
  cbn [ntab wtab elems mtime dirty regs pend frame tseq] in *. subst el mt.
  unfold m_tpop, a_tpop. cbn [ntab wtab elems mtime dirty regs nseq pend frame tseq sflag].
  destruct pd as [|e r].
  - cbn. split; [|reflexivity]. split; cbn; auto. intros _ y [].
  - destruct (N.ltb_spec fr (wdue (min_w e r))) as [Hlt|Hge].
    + rewrite scan_skip.
      * cbn [fst snd]. split; [|reflexivity]. split; cbn [ntab wtab elems mtime dirty regs pend frame tseq]; auto.
        intros _. now apply notdue_min.
      * intros y Hy. rewrite <- in_rev in Hy. apply in_map_iff in Hy. destruct Hy as [z [<- Hz]].
        cbn [w2e snd]. apply (notdue_min _ _ _ Hlt). exact Hz.
    + destruct (min_split e r) as (l1 & l2 & E & H1 & H2); [apply Hq|].
      set (m := min_w e r) in *. rewrite E. rewrite !map_app. cbn [map].
      rewrite (scan_split (map w2e l1) (w2e m) (map w2e l2) fr None).
      * rewrite Nat.pred_succ. rewrite nth_error_app2 by lia.
        rewrite Nat.sub_diag. cbn [nth_error fst snd w2e].
        rewrite remove_at_split.
        rewrite remove_w_split; [|intros y Hy; now apply H1|intros y Hy; now apply H2].
        split; [|reflexivity].
        split; cbn [ntab wtab elems mtime dirty regs pend frame tseq]; auto.
        -- now rewrite map_app.
        -- rewrite E in Hq. now apply qinv_split in Hq.
        -- intros Hf y Hy. apply (Hd Hf). rewrite E. apply in_app_or in Hy. apply in_or_app.
           destruct Hy as [Hy|Hy]; [now left | right; now right].
      * intros y Hy. apply in_map_iff in Hy. destruct Hy as [z [<- Hz]]. cbn [w2e snd]. now apply H1.
      * intros y Hy. apply in_map_iff in Hy. destruct Hy as [z [<- Hz]]. cbn [w2e snd]. now apply H2.
      * cbn [w2e snd]. exact Hge.
Qed.

Lemma tpop_first_R x1 x2 :
  R x1 x2 -> R (fst (m_tpop_first x1)) (fst (a_tpop x2)) /\ snd (m_tpop_first x1) = snd (a_tpop x2).
Proof.
  intro HR. unfold m_tpop_first. destruct (dirty x1) eqn:Ed; [now apply tpop_R|].
  destruct HR as [HM He Hq Ht Hd]. specialize (Hd Ed).
  destruct x2 as [rg ns pd fr ts sf]. cbn [regs pend frame tseq] in *. unfold a_tpop.
  cbn [regs nseq pend frame tseq sflag].
  destruct pd as [|e r].
  - cbn [fst snd]. split; [|reflexivity]. split; auto.
  - assert (Hlt : fr < wdue (min_w e r)).
    { apply Hd. destruct (min_w_spec r e) as [Hin _]. exact Hin. }
    destruct (N.ltb_spec fr (wdue (min_w e r))) as [_|Hge]; [|lia].
    cbn [fst snd]. split; [|reflexivity]. split; auto.
Qed.

Lemma settime_R t x1 x2 : R x1 x2 -> R (m_settime t x1) (a_settime t x2).
Proof.
  intros [HM He Hq Ht Hd]. split; cbn [m_settime a_settime ntab wtab elems mtime dirty regs pend frame tseq]; auto.
  discriminate.
Qed.

Lemma timing_eq x1 x2 : R x1 x2 -> m_timing x1 = a_timing x2.
Proof.
  intros [_ He _ _ _]. unfold m_timing, a_timing. rewrite He. now destruct (pend x2).
Qed.
