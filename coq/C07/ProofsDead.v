(* C07/ProofsDead.v -- for every record of primitives: a destroyed thread stays destroyed
   (it never proceeds), deleting a thread destroys it, and the loops that destroy the waiters
   of a removed object / the threads of an end list destroy every member. *)
From Coq Require Import NArith List Bool Lia.
From Morfuse Require Import Base.Arr C07.Model.
Import ListNotations.
Local Open Scope N_scope.

(* thread numbers are handed out in order: a live thread has a number below the next one *)
Definition WF (s : sh) : Prop := forall t, alive (th s t) = true -> t < ntid s.

(* from s to s': no thread number is reused and no destroyed thread comes back *)
Definition ext (s s' : sh) : Prop :=
  WF s -> WF s' /\ ntid s <= ntid s' /\
          forall t, t < ntid s -> alive (th s t) = false -> alive (th s' t) = false.

Lemma ext_refl s : ext s s.
Proof. intro H. split; [exact H|]. split; [lia|auto]. Qed.

Lemma ext_trans a b c : ext a b -> ext b c -> ext a c.
Proof.
  intros H1 H2 Ha. destruct (H1 Ha) as (Hb & L1 & D1). destruct (H2 Hb) as (Hc & L2 & D2).
  split; [exact Hc|]. split; [lia|]. intros t Ht Hd. apply D2; [lia|]. now apply D1.
Qed.

Lemma th_upd s w v t : th (upd s w v) t = if t =? w then v else th s t.
Proof. unfold th, upd, set_thr. cbn [thr]. apply get_set. Qed.

Lemma ext_same a b b' : ext a b -> thr b' = thr b -> ntid b' = ntid b -> ext a b'.
Proof.
  intros H E1 E2 Ha. destruct (H Ha) as (Hb & L & D). unfold WF, th in *. rewrite E1, E2. auto.
Qed.

Lemma ext_upd a b w v :
  ext a b -> (alive v = false \/ alive v = alive (th b w)) -> ext a (upd b w v).
Proof.
  intros H Hv. apply (ext_trans _ b); [exact H|]. intro Hb. split; [|split].
  - intros t Ht. rewrite th_upd in Ht. destruct (N.eqb_spec t w) as [E|Hn].
    + subst t. destruct Hv as [Hv|Hv]; [congruence|]. apply Hb. congruence.
    + now apply Hb.
  - cbn. lia.
  - intros t Ht Hd. rewrite th_upd. destruct (N.eqb_spec t w) as [E|Hn]; [|exact Hd].
    subst t. destruct Hv as [Hv|Hv]; congruence.
Qed.

Lemma ext_vm_suspend a b w : ext a b -> ext a (vm_suspend b w).
Proof.
  intro H. unfold vm_suspend. destruct (vst (th b w)); [|exact H|exact H].
  apply ext_upd; [exact H|]. right. reflexivity.
Qed.

Lemma ext_new_thread a b g p r : ext a b -> ext a (new_thread b g p r).
Proof.
  intro H. apply (ext_trans _ b); [exact H|]. intro Hb. unfold new_thread, WF, th. cbn [thr ntid].
  split; [|split].
  - intros t Ht. rewrite get_set in Ht. destruct (N.eqb_spec t (ntid b)) as [E|Hn]; [lia|].
    specialize (Hb t Ht). lia.
  - lia.
  - intros t Ht Hd. rewrite get_set. destruct (N.eqb_spec t (ntid b)) as [E|Hn]; [lia|exact Hd].
Qed.

Lemma ext_set_cur a b c : ext a b -> ext a (set_cur b c).
Proof. intro H. now apply (ext_same a b). Qed.
Lemma ext_set_log a b c : ext a b -> ext a (set_log b c).
Proof. intro H. now apply (ext_same a b). Qed.
Lemma ext_set_etab a b c : ext a b -> ext a (set_etab b c).
Proof. intro H. now apply (ext_same a b). Qed.
Lemma ext_set_depth a b c : ext a b -> ext a (set_depth b c).
Proof. intro H. now apply (ext_same a b). Qed.
Lemma ext_set_clock a b c : ext a b -> ext a (set_clock b c).
Proof. intro H. now apply (ext_same a b). Qed.
Lemma ext_set_objs a b c d e : ext a b -> ext a (set_objs b c d e).
Proof. intro H. now apply (ext_same a b). Qed.
Lemma ext_remove_from_class a b g : ext a b -> ext a (remove_from_class b g).
Proof. intro H. now apply (ext_same a b). Qed.
Lemma ext_new_class a b : ext a b -> ext a (new_class b).
Proof. intro H. now apply (ext_same a b). Qed.
Lemma ext_set_evq a b q : ext a b -> ext a (set_evq b q).
Proof. intro H. now apply (ext_same a b). Qed.
Lemma ext_ev_post a b w d : ext a b -> ext a (ev_post b w d).
Proof. intro H. now apply (ext_same a b). Qed.
Lemma ext_ev_cancel a b w : ext a b -> ext a (ev_cancel b w).
Proof. intro H. now apply (ext_same a b). Qed.

Lemma ext_resolve a b w v : ext a b -> ext a (resolve b w v).
Proof.
  intro H. unfold resolve. destruct (retto (th b w)) as [c|]; [|exact H].
  destruct (rreg (th b c)) as [| |t]; try exact H. destruct (t =? w); [|exact H].
  apply ext_upd; [exact H|]. right. reflexivity.
Qed.

Section Dead.
  Context {T : Type}.
  Variable P : prims T.

  Definition Ex (s : sh) (r : option (T * sh)) : Prop :=
    match r with None => True | Some (_, s') => ext s s' end.

  Ltac ext_solve :=
    repeat first
      [ assumption
      | apply ext_refl
      | apply ext_vm_suspend
      | apply ext_resolve
      | apply ext_new_thread
      | apply ext_upd; [|first [left; reflexivity | right; reflexivity]]
      | apply ext_set_cur | apply ext_set_log | apply ext_set_etab | apply ext_set_depth
      | apply ext_set_clock | apply ext_set_objs | apply ext_remove_from_class | apply ext_new_class
      | apply ext_set_evq | apply ext_ev_post | apply ext_ev_cancel
      | match goal with |- ext _ (match ?v with _ => _ end) => destruct v end ].

  Ltac ex_step IH :=
    match goal with
    | |- Ex _ None => exact I
    | |- Ex _ (Some (_, if ?c then _ else _)) => destruct c
    | |- Ex _ (Some (_, match ?v with _ => _ end)) => destruct v
    | |- Ex _ (Some (_, _)) => cbn [Ex]; ext_solve
    | |- Ex _ (go P _ _ _ (match ?v with _ => _ end)) => destruct v
    | |- Ex _ (match go P _ _ _ (match ?v with _ => _ end) with _ => _ end) => destruct v
    | |- Ex _ (match go P _ _ _ (ev_cancel (match ?v with _ => _ end) _) with _ => _ end) => destruct v
    | |- Ex ?s0 (go P ?f ?k ?x ?e) =>
        let Ha := fresh "Ha" in let Hb := fresh "Hb" in
        assert (Ha : ext s0 e) by ext_solve;
        pose proof (IH k x e) as Hb;
        destruct (go P f k x e) as [[? ?]|]; [cbn [Ex] in *; exact (ext_trans _ _ _ Ha Hb) | exact I]
    | |- Ex ?s0 (match go P ?f ?k ?x ?e with _ => _ end) =>
        let Ha := fresh "Ha" in let Hb := fresh "Hb" in
        assert (Ha : ext s0 e) by ext_solve;
        pose proof (IH k x e) as Hb;
        destruct (go P f k x e) as [[? ?]|]; [cbn [Ex] in Hb; pose proof (ext_trans _ _ _ Ha Hb); clear Ha Hb | exact I]
    | |- Ex _ (let '(_, _) := ?e in _) => destruct e as [? ?]
    | |- Ex _ (match (match ?v with _ => _ end) with _ => _ end) => destruct v
    | |- Ex _ (match (if ?c then _ else _) with _ => _ end) => destruct c
    | |- Ex _ (if ?c then _ else _) => destruct c
    | |- Ex _ (match ?v with _ => _ end) => destruct v
    end.

  Lemma Ex_go : forall f k x s, Ex s (go P f k x s).
  Proof.
    induction f as [|f IH]; intros k x s; [exact I|].
    destruct k; cbn [go]; cbv zeta; repeat ex_step IH.
  Qed.

  (* a destroyed thread stays destroyed, whatever runs *)
  Theorem destroyed_stays_destroyed f k x s x' s' t :
    WF s -> go P f k x s = Some (x', s') -> t < ntid s -> alive (th s t) = false ->
    WF s' /\ ntid s <= ntid s' /\ alive (th s' t) = false.
  Proof.
    intros Hw H Ht Hd. pose proof (Ex_go f k x s) as He. rewrite H in He. cbn [Ex] in He.
    destruct (He Hw) as (Hw' & L & D). auto.
  Qed.

  (* deleting a thread destroys it *)
  Theorem delete_destroys f t x s x' s' :
    WF s -> go P f (KKill t) x s = Some (x', s') -> WF s' /\ ntid s <= ntid s' /\ alive (th s' t) = false.
  Proof.
    intros Hw H. destruct f as [|f]; [discriminate|]. cbn [go] in H.
    destruct (alive (th s t)) eqn:Ea.
    - assert (Ht : t < ntid s) by (now apply Hw).
      set (s1 := upd s t (w_tst (w_alive (th s t) false) TRunning)) in *.
      assert (H1 : ext s s1) by (apply ext_upd; [apply ext_refl | left; reflexivity]).
      assert (D1 : alive (th s1 t) = false) by (unfold s1; rewrite th_upd, N.eqb_refl; reflexivity).
      destruct (H1 Hw) as (Hw1 & L1 & _).
      assert (Hmid : exists x2 s2, (match tst (th s t) with
                                    | TTiming => Some (p_tremove P t x, s1)
                                    | TWaiting => go P f (KCancelAll t) x s1
                                    | TRunning => Some (x, s1)
                                    end) = Some (x2, s2)).
      { destruct (match tst (th s t) with TTiming => _ | TWaiting => _ | TRunning => _ end) as [[x2 s2]|];
          [now exists x2, s2 | discriminate]. }
      destruct Hmid as (x2 & s2 & E2). rewrite E2 in H.
      assert (H2 : WF s2 /\ ntid s1 <= ntid s2 /\ alive (th s2 t) = false).
      { destruct (tst (th s t)).
        - injection E2 as <- <-. split; [exact Hw1|]. split; [lia|exact D1].
        - eapply destroyed_stays_destroyed; eauto.
        - injection E2 as <- <-. split; [exact Hw1|]. split; [lia|exact D1]. }
      destruct H2 as (Hw2 & L2 & D2).
      set (s2b := ev_cancel match vst (th s t) with
                  | VIdling => resolve (remove_from_class s2 (grp (th s t))) t RNil
                  | _ => remove_from_class s2 (grp (th s t))
                  end t) in *.
      assert (H2b : ext s2 s2b).
      { unfold s2b. apply ext_ev_cancel. destruct (vst (th s t)); try apply ext_resolve; apply ext_remove_from_class; apply ext_refl. }
      destruct (H2b Hw2) as (Hw2' & L2b & D2b).
      destruct (go P f (KDtor (LThr t)) x2 s2b) as [[x3 s3]|] eqn:E3; [|discriminate].
      injection H as <- <-.
      assert (N1 : ntid s1 = ntid s) by reflexivity.
      destruct (destroyed_stays_destroyed _ _ _ _ _ _ t Hw2' E3) as (Hw3 & L3 & D3).
      { lia. }
      { apply D2b; [lia|exact D2]. }
      assert (L : ntid s <= ntid s3) by lia.
      destruct (opt_eqb (cur s3) t); [|auto]. split; [exact Hw3|]. split; [exact L | exact D3].
    - injection H as <- <-. split; [exact Hw|]. split; [lia|exact Ea].
  Qed.

  (* the loop over the waiters of a removed listener (and the loop over an end list) destroys
     every thread of the list *)
  Lemma list_loop_destroys (mk : list lid -> task) :
    (forall f l x s, go P (S f) (mk l) x s =
       match l with
       | [] => Some (x, s)
       | LThr w :: l' =>
           match (if alive (th s w) then go P f (KKill w) x s else Some (x, s)) with
           | Some (x1, s1) => go P f (mk l') x1 s1
           | None => None
           end
       | LO _ :: l' => go P f (mk l') x s
       end) ->
    forall l f x s x' s',
      WF s -> go P f (mk l) x s = Some (x', s') ->
      (forall w, In (LThr w) l -> w < ntid s) ->
      WF s' /\ ntid s <= ntid s' /\ forall w, In (LThr w) l -> alive (th s' w) = false.
  Proof.
    intro Hmk. induction l as [|a l IH]; intros f x s x' s' Hw H Hb; (destruct f as [|f]; [discriminate|]);
      rewrite Hmk in H.
    - injection H as <- <-. split; [exact Hw|]. split; [lia|]. intros w [].
    - destruct a as [o|w].
      + destruct (IH f x s x' s' Hw H) as (Hw' & L & D); [intros w Hi; apply Hb; now right|].
        split; [exact Hw'|]. split; [exact L|]. intros w [E|Hi]; [discriminate|now apply D].
      + destruct (if alive (th s w) then go P f (KKill w) x s else Some (x, s)) as [[x1 s1]|] eqn:E1; [|discriminate].
        assert (H1 : WF s1 /\ ntid s <= ntid s1 /\ alive (th s1 w) = false).
        { destruct (alive (th s w)) eqn:Ea.
          - now apply (delete_destroys f w x s x1 s1).
          - injection E1 as <- <-. split; [exact Hw|]. split; [lia|exact Ea]. }
        destruct H1 as (Hw1 & L1 & D1).
        destruct (IH f x1 s1 x' s' Hw1 H) as (Hw' & L & D).
        { intros v Hi. assert (v < ntid s) by (apply Hb; now right). lia. }
        split; [exact Hw'|]. split; [lia|]. intros v [E|Hi]; [|now apply D].
        injection E as <-.
        destruct (destroyed_stays_destroyed _ _ _ _ _ _ w Hw1 H) as (_ & _ & D2); auto.
        assert (w < ntid s) by (apply Hb; now left). lia.
  Qed.

  Theorem removal_loop_destroys_every_waiter l f x s x' s' :
    WF s -> go P f (KDestroyList l) x s = Some (x', s') ->
    (forall w, In (LThr w) l -> w < ntid s) ->
    WF s' /\ ntid s <= ntid s' /\ forall w, In (LThr w) l -> alive (th s' w) = false.
  Proof. apply (list_loop_destroys KDestroyList). intros. cbn [go]. destruct l0 as [|[o|w] l']; reflexivity. Qed.

  Theorem endon_loop_destroys_every_thread l f x s x' s' :
    WF s -> go P f (KKillList l) x s = Some (x', s') ->
    (forall w, In (LThr w) l -> w < ntid s) ->
    WF s' /\ ntid s <= ntid s' /\ forall w, In (LThr w) l -> alive (th s' w) = false.
  Proof. apply (list_loop_destroys KKillList). intros. cbn [go]. destruct l0 as [|[o|w] l']; reflexivity. Qed.

  (* a destroyed thread does not run: its loop ends at once *)
  Theorem destroyed_thread_does_not_run f w x s :
    alive (th s w) = false -> go P (S f) (KRunLoop w) x s = Some (x, s).
  Proof. intro H. cbn [go]. now rewrite H. Qed.

  (* a destroyed thread is not resumed by a notify *)
  Theorem destroyed_thread_is_not_woken f w l n x s :
    alive (th s w) = false ->
    go P (S f) (KWakeList (LThr w :: l) n) x s = go P f (KWakeList l n) x s.
  Proof. intro H. cbn [go]. now rewrite H. Qed.
End Dead.

(* ---------------------------------------------------------------- more fuel never changes a result *)
Section Fuel.
  Context {T : Type}.
  Variable P : prims T.

  Ltac fm_step IH :=
    match goal with
    | H : None = Some _ |- _ => discriminate H
    | H : Some _ = Some _ |- _ => exact H
    | H : go P ?f ?k ?x ?s = Some ?r |- go P ?f' ?k ?x ?s = Some ?r => exact (IH _ _ _ _ H)
    | H : context [match go P ?f ?k ?x ?s with _ => _ end] |- _ =>
        let E := fresh "E" in
        destruct (go P f k x s) as [[? ?]|] eqn:E; [rewrite (IH _ _ _ _ E) | discriminate H]
    | H : context [match (match ?v with _ => _ end) with _ => _ end] |- _ => destruct v
    | H : context [match (if ?c then _ else _) with _ => _ end] |- _ => destruct c
    | H : context [let '(_, _) := ?e in _] |- _ => destruct e as [? ?]
    | H : context [if ?c then _ else _] |- _ => destruct c
    | H : context [match ?v with _ => _ end] |- _ => destruct v
    end.

  Lemma go_fuel_mono : forall f f' k x s r, (f <= f')%nat -> go P f k x s = Some r -> go P f' k x s = Some r.
  Proof.
    induction f as [|f IHf]; intros f' k x s r Hle H; [discriminate|].
    destruct f' as [|f']; [lia|].
    assert (IH : forall k x s r, go P f k x s = Some r -> go P f' k x s = Some r).
    { intros. apply (IHf f'); [lia|assumption]. }
    clear IHf. destruct k; cbn [go] in *; repeat fm_step IH.
  Qed.
End Fuel.


(* ---------------------------------------------------------------- waitthread: the result and the release of the caller *)
Section WaitThread.
  Context {T : Type}.
  Variable P : prims T.

  (* the pending result of thread w, held by its caller c, takes the value *)
  Lemma resolve_delivers s w c v :
    retto (th s w) = Some c -> rreg (th s c) = RPtr w -> rreg (th (resolve s w v) c) = v.
  Proof.
    intros H1 H2. unfold resolve. rewrite H1, H2, N.eqb_refl. rewrite th_upd, N.eqb_refl. reflexivity.
  Qed.

  (* ... and nothing else changes; without a caller that still holds it, nothing changes at all *)
  Lemma resolve_other s w v t :
    (forall c, retto (th s w) = Some c -> t <> c) -> th (resolve s w v) t = th s t.
  Proof.
    intro H. unfold resolve. destruct (retto (th s w)) as [c|] eqn:E; [|reflexivity].
    destruct (rreg (th s c)) as [| |u]; try reflexivity. destruct (u =? w); [|reflexivity].
    rewrite th_upd. destruct (N.eqb_spec t c) as [->|]; [|reflexivity]. exfalso. now apply (H c).
  Qed.

  (* `end v` (v = None: end without a value, or the end of the program): the caller's variable
     takes the value (NIL without one) BEFORE the thread is deleted, i.e. before its destructor
     releases the caller *)
  Theorem end_delivers_the_result_then_deletes f w v x s :
    go P (S f) (KEnd w v) x s =
    go P f (KKill w) x (resolve s w (match v with Some z => RInt z | None => RNil end)).
  Proof. reflexivity. Qed.

  (* deleting a live thread t: its Listener destructor - the only task that releases the threads
     registered on t, i.e. its waitthread caller - runs in a state in which t is destroyed, and,
     when t's VM was idle (t was blocked: a killed callee), in which its pending result has been
     resolved to NIL; a VM that is still executing resolves it when its Execute returns
     ([go] of KVmExecute), before any released thread can run (due threads are resumed by the
     outermost execution only) *)
  Theorem delete_runs_the_destructor_on_a_destroyed_thread f t x s r :
    WF s -> alive (th s t) = true -> go P (S f) (KKill t) x s = Some r ->
    exists x2 s2 x3 s3,
      let sd := ev_cancel match vst (th s t) with
                | VIdling => resolve (remove_from_class s2 (grp (th s t))) t RNil
                | _ => remove_from_class s2 (grp (th s t))
                end t in
      WF sd /\ alive (th sd t) = false /\
      go P f (KDtor (LThr t)) x2 sd = Some (x3, s3) /\
      r = (x3, if opt_eqb (cur s3) t then set_cur s3 None else s3).
  Proof.
    intros Hw Ea H. cbn [go] in H. rewrite Ea in H.
    assert (Ht : t < ntid s) by (now apply Hw).
    set (s1 := upd s t (w_tst (w_alive (th s t) false) TRunning)) in *.
    assert (H1 : ext s s1) by (apply ext_upd; [apply ext_refl | left; reflexivity]).
    assert (D1 : alive (th s1 t) = false) by (unfold s1; rewrite th_upd, N.eqb_refl; reflexivity).
    destruct (H1 Hw) as (Hw1 & L1 & _).
    destruct (match tst (th s t) with
              | TRunning => Some (x, s1)
              | TWaiting => go P f (KCancelAll t) x s1
              | TTiming => Some (p_tremove P t x, s1)
              end) as [[x2 s2]|] eqn:E2; [|discriminate].
    assert (H2 : WF s2 /\ ntid s1 <= ntid s2 /\ alive (th s2 t) = false).
    { destruct (tst (th s t)).
      - injection E2 as <- <-. split; [exact Hw1|]. split; [lia|exact D1].
      - eapply (destroyed_stays_destroyed P); eauto.
      - injection E2 as <- <-. split; [exact Hw1|]. split; [lia|exact D1]. }
    destruct H2 as (Hw2 & L2 & D2).
    set (sd := ev_cancel match vst (th s t) with
               | VIdling => resolve (remove_from_class s2 (grp (th s t))) t RNil
               | _ => remove_from_class s2 (grp (th s t))
               end t) in *.
    assert (H2b : ext s2 sd).
    { unfold sd. apply ext_ev_cancel. destruct (vst (th s t)); try apply ext_resolve; apply ext_remove_from_class; apply ext_refl. }
    destruct (H2b Hw2) as (Hw2' & L2b & D2b).
    destruct (go P f (KDtor (LThr t)) x2 sd) as [[x3 s3]|] eqn:E3; [|discriminate].
    injection H as <-. exists x2, s2, x3, s3. cbn zeta. fold sd.
    assert (N1 : ntid s1 = ntid s) by reflexivity.
    split; [exact Hw2'|]. split; [apply D2b; [lia|exact D2]|]. split; [exact E3|reflexivity].
  Qed.
End WaitThread.


(* ---------------------------------------------------------------- end lists: the frame of a notify *)
From Morfuse Require Import C07.ProofsLib.

(* the end-list entries of script objects are the same in s and s' *)
Definition same_obj_ends (s s' : sh) : Prop :=
  forall o m, look (etab s') (LO o, m) = look (etab s) (LO o, m).

Lemma soe_refl s : same_obj_ends s s.
Proof. intros o m. reflexivity. Qed.
Lemma soe_trans a b c : same_obj_ends a b -> same_obj_ends b c -> same_obj_ends a c.
Proof. intros H1 H2 o m. now rewrite H2, H1. Qed.
Lemma soe_same a b b' : same_obj_ends a b -> etab b' = etab b -> same_obj_ends a b'.
Proof. intros H E o m. rewrite E. apply H. Qed.
Lemma soe_upd a b w v : same_obj_ends a b -> same_obj_ends a (upd b w v).
Proof. intro H. now apply (soe_same a b). Qed.
Lemma soe_set_cur a b c : same_obj_ends a b -> same_obj_ends a (set_cur b c).
Proof. intro H. now apply (soe_same a b). Qed.
Lemma soe_set_depth a b c : same_obj_ends a b -> same_obj_ends a (set_depth b c).
Proof. intro H. now apply (soe_same a b). Qed.
Lemma soe_remove_from_class a b g : same_obj_ends a b -> same_obj_ends a (remove_from_class b g).
Proof. intro H. now apply (soe_same a b). Qed.
Lemma soe_resolve a b w v : same_obj_ends a b -> same_obj_ends a (resolve b w v).
Proof.
  intro H. unfold resolve. destruct (retto (th b w)) as [c|]; [|exact H].
  destruct (rreg (th b c)) as [| |t]; try exact H. destruct (t =? w); [|exact H]. now apply soe_upd.
Qed.
Lemma soe_set_evq a b q : same_obj_ends a b -> same_obj_ends a (set_evq b q).
Proof. intro H. now apply (soe_same a b). Qed.
Lemma soe_ev_cancel a b w : same_obj_ends a b -> same_obj_ends a (ev_cancel b w).
Proof. intro H. now apply (soe_same a b). Qed.
Lemma soe_vm_suspend a b w : same_obj_ends a b -> same_obj_ends a (vm_suspend b w).
Proof. intro H. unfold vm_suspend. destruct (vst (th b w)); [now apply soe_upd | exact H | exact H]. Qed.
(* the end lists of a THREAD are another listener's *)
Lemma soe_tdel_thr a b t n : same_obj_ends a b -> same_obj_ends a (set_etab b (tdel (etab b) (LThr t, n))).
Proof.
  intros H o m. cbn [etab set_etab]. rewrite look_tdel_other; [apply H|]. congruence.
Qed.
Lemma soe_tdel_l_thr a b t : same_obj_ends a b -> same_obj_ends a (set_etab b (tdel_l (etab b) (LThr t))).
Proof.
  intros H o m. cbn [etab set_etab]. rewrite look_tdel_l. cbn [lid_eqb]. apply H.
Qed.

(* the tasks that run while threads are deleted: no script statement is executed by them *)
Definition deleting (k : task) : Prop :=
  match k with
  | KKill _ | KCancelAll _ | KCancel0 _ | KNotifyList _ | KDestroyList _ | KKillList _ | KStartTiming _ _ | KStop _ => True
  | KDtor (LThr _) => True
  | KUnreg (LThr _) NE => True
  | KWakeList _ NE => True
  | KStoppedWaitFor _ NE => True
  | _ => False
  end.

Section EndFrame.
  Context {T : Type}.
  Variable P : prims T.

  Definition Se (s : sh) (r : option (T * sh)) : Prop :=
    match r with None => True | Some (_, s') => same_obj_ends s s' end.

  Ltac soe_solve :=
    repeat first
      [ assumption | apply soe_refl | apply soe_vm_suspend | apply soe_resolve | apply soe_upd
      | apply soe_set_cur | apply soe_set_depth | apply soe_remove_from_class
      | apply soe_tdel_thr | apply soe_tdel_l_thr | apply soe_set_evq | apply soe_ev_cancel
      | match goal with |- same_obj_ends _ (match ?v with _ => _ end) => destruct v end ].

  Ltac se_step IH :=
    match goal with
    | |- Se _ None => exact I
    | |- Se _ (Some (_, if ?c then _ else _)) => destruct c
    | |- Se _ (Some (_, match ?v with _ => _ end)) => destruct v
    | |- Se _ (Some (_, _)) => cbn [Se]; soe_solve
    | |- Se _ (go P _ _ _ (match ?v with _ => _ end)) => destruct v
    | |- Se _ (match go P _ _ _ (match ?v with _ => _ end) with _ => _ end) => destruct v
    | |- Se _ (match go P _ _ _ (ev_cancel (match ?v with _ => _ end) _) with _ => _ end) => destruct v
    | |- Se ?s0 (go P ?f ?k ?x ?e) =>
        let Ha := fresh "Ha" in let Hb := fresh "Hb" in
        assert (Ha : same_obj_ends s0 e) by soe_solve;
        pose proof (IH k x e I) as Hb;
        destruct (go P f k x e) as [[? ?]|]; [cbn [Se] in *; exact (soe_trans _ _ _ Ha Hb) | exact I]
    | |- Se ?s0 (match go P ?f ?k ?x ?e with _ => _ end) =>
        let Ha := fresh "Ha" in let Hb := fresh "Hb" in
        assert (Ha : same_obj_ends s0 e) by soe_solve;
        pose proof (IH k x e I) as Hb;
        destruct (go P f k x e) as [[? ?]|]; [cbn [Se] in Hb; pose proof (soe_trans _ _ _ Ha Hb); clear Ha Hb | exact I]
    | |- Se _ (let '(_, _) := ?e in _) => destruct e as [? ?]
    | |- Se _ (match (match ?v with _ => _ end) with _ => _ end) => destruct v
    | |- Se _ (match (if ?c then _ else _) with _ => _ end) => destruct c
    | |- Se _ (if ?c then _ else _) => destruct c
    | |- Se _ (match ?v with _ => _ end) => destruct v
    end.

  (* deleting threads (with everything it entails: cancelled waits, deleted callees, released
     waitthread callers put on the timer) never touches the end list of a script object *)
  Lemma Se_go : forall f k x s, deleting k -> Se s (go P f k x s).
  Proof.
    induction f as [|f IH]; intros k x s Hk; [exact I|].
    destruct k as [t|w|w|l|l|l|l|l n|l n|w n|w d|w|w|w|w|w i|src n w|src ns w|w v| |w|w ps| |];
      cbn [deleting] in Hk; try contradiction.
    - cbn [go]; cbv zeta. repeat se_step IH.
    - cbn [go]; cbv zeta. repeat se_step IH.
    - cbn [go]; cbv zeta. repeat se_step IH.
    - cbn [go]; cbv zeta. repeat se_step IH.
    - destruct l as [o|t]; [contradiction|]. cbn [go]; cbv zeta. repeat se_step IH.
    - cbn [go]; cbv zeta. repeat se_step IH.
    - cbn [go]; cbv zeta. repeat se_step IH.
    - destruct l as [o|t]; [contradiction|]. destruct n; try contradiction. cbn [go]; cbv zeta. repeat se_step IH.
    - destruct n; try contradiction. cbn [go]; cbv zeta. repeat se_step IH.
    - destruct n; try contradiction. cbn [go]; cbv zeta. repeat se_step IH.
    - cbn [go]; cbv zeta. repeat se_step IH.
    - cbn [go]; cbv zeta. repeat se_step IH.
  Qed.

  (* `l notify n` (Listener::Unregister(name)), first half.  The end list of (l, n) is taken out
     and every thread on it is destroyed; when that is done the end lists of every OTHER name of
     l, and of every other object, are what they were, and (l, n) has none: a thread that
     registered `endon` under another name is still registered, to die by its own name. *)
  Theorem notify_destroys_its_end_list_and_keeps_the_others f o n x s r :
    WF s -> (forall w, In (LThr w) (look (etab s) (LO o, n)) -> w < ntid s) ->
    go P (S f) (KUnreg (LO o) n) x s = Some r ->
    exists x2 s2,
      go P f (KKillList (rev (look (etab s) (LO o, n)))) x (set_etab s (tdel (etab s) (LO o, n))) = Some (x2, s2) /\
      (forall w, In (LThr w) (look (etab s) (LO o, n)) -> alive (th s2 w) = false) /\
      look (etab s2) (LO o, n) = [] /\
      (forall o' m, (o', m) <> (o, n) -> look (etab s2) (LO o', m) = look (etab s) (LO o', m)) /\
      (let '(x3, ws) := p_detach P (LO o) n x2 in go P f (KWakeList ws n) x3 s2) = Some r.
  Proof.
    intros Hw Hb H. cbn [go] in H.
    set (s1 := set_etab s (tdel (etab s) (LO o, n))) in *.
    destruct (go P f (KKillList (rev (look (etab s) (LO o, n)))) x s1) as [[x2 s2]|] eqn:E; [|discriminate].
    exists x2, s2. split; [reflexivity|].
    assert (Hw1 : WF s1) by exact Hw.
    destruct (endon_loop_destroys_every_thread P _ _ _ _ _ _ Hw1 E) as (_ & _ & D).
    { intros w Hi. rewrite <- in_rev in Hi. now apply Hb. }
    pose proof (Se_go f (KKillList (rev (look (etab s) (LO o, n)))) x s1 I) as Hs. rewrite E in Hs. cbn [Se] in Hs.
    split; [intros w Hi; apply D; now rewrite <- in_rev|].
    split; [rewrite Hs; unfold s1; cbn [etab set_etab]; apply look_tdel_same|].
    split; [|exact H].
    intros o' m Hne. rewrite Hs. unfold s1. cbn [etab set_etab]. apply look_tdel_other. congruence.
  Qed.
End EndFrame.


(* ---------------------------------------------------------------- timeout events *)
(* no pending event of s' is new with respect to s *)
Definition sub_ev (s s' : sh) : Prop := forall e, In e (evq s') -> In e (evq s).

Lemma sev_refl s : sub_ev s s.
Proof. intros e H. exact H. Qed.
Lemma sev_trans a b c : sub_ev a b -> sub_ev b c -> sub_ev a c.
Proof. intros H1 H2 e H. apply H1, H2, H. Qed.
Lemma sev_same a b b' : sub_ev a b -> evq b' = evq b -> sub_ev a b'.
Proof. intros H E e He. rewrite E in He. now apply H. Qed.
Lemma sev_upd a b w v : sub_ev a b -> sub_ev a (upd b w v).
Proof. intro H. now apply (sev_same a b). Qed.
Lemma sev_set_cur a b c : sub_ev a b -> sub_ev a (set_cur b c).
Proof. intro H. now apply (sev_same a b). Qed.
Lemma sev_set_depth a b c : sub_ev a b -> sub_ev a (set_depth b c).
Proof. intro H. now apply (sev_same a b). Qed.
Lemma sev_set_etab a b c : sub_ev a b -> sub_ev a (set_etab b c).
Proof. intro H. now apply (sev_same a b). Qed.
Lemma sev_remove_from_class a b g : sub_ev a b -> sub_ev a (remove_from_class b g).
Proof. intro H. now apply (sev_same a b). Qed.
Lemma sev_resolve a b w v : sub_ev a b -> sub_ev a (resolve b w v).
Proof.
  intro H. unfold resolve. destruct (retto (th b w)) as [c|]; [|exact H].
  destruct (rreg (th b c)) as [| |t]; try exact H. destruct (t =? w); [|exact H]. now apply sev_upd.
Qed.
Lemma sev_vm_suspend a b w : sub_ev a b -> sub_ev a (vm_suspend b w).
Proof. intro H. unfold vm_suspend. destruct (vst (th b w)); [now apply sev_upd | exact H | exact H]. Qed.
Lemma sev_ev_cancel a b w : sub_ev a b -> sub_ev a (ev_cancel b w).
Proof. intros H e He. apply H. cbn [ev_cancel evq set_evq] in He. apply filter_In in He. tauto. Qed.

(* CancelEventsOfType / CancelPendingEvents leave no event of the thread *)
Lemma ev_cancel_none s w e : In e (evq (ev_cancel s w)) -> fst e <> w.
Proof.
  cbn [ev_cancel evq set_evq]. intro H. apply filter_In in H. destruct H as [_ H].
  destruct (N.eqb_spec (fst e) w); [discriminate|assumption].
Qed.

Section Events.
  Context {T : Type}.
  Variable P : prims T.

  Definition Sv (s : sh) (r : option (T * sh)) : Prop :=
    match r with None => True | Some (_, s') => sub_ev s s' end.

  Ltac sev_solve :=
    repeat first
      [ assumption | apply sev_refl | apply sev_vm_suspend | apply sev_resolve | apply sev_upd
      | apply sev_set_cur | apply sev_set_depth | apply sev_remove_from_class | apply sev_set_etab
      | apply sev_ev_cancel ].

  Ltac sv_step IH :=
    match goal with
    | |- Sv _ None => exact I
    | |- Sv _ (Some (_, if ?c then _ else _)) => destruct c
    | |- Sv _ (Some (_, match ?v with _ => _ end)) => destruct v
    | |- Sv _ (Some (_, _)) => cbn [Sv]; sev_solve
    | |- Sv _ (go P _ _ _ (match ?v with _ => _ end)) => destruct v
    | |- Sv _ (match go P _ _ _ (match ?v with _ => _ end) with _ => _ end) => destruct v
    | |- Sv _ (match go P _ _ _ (ev_cancel (match ?v with _ => _ end) _) with _ => _ end) => destruct v
    | |- Sv ?s0 (go P ?f ?k ?x ?e) =>
        let Ha := fresh "Ha" in let Hb := fresh "Hb" in
        assert (Ha : sub_ev s0 e) by sev_solve;
        pose proof (IH k x e I) as Hb;
        destruct (go P f k x e) as [[? ?]|]; [cbn [Sv] in *; exact (sev_trans _ _ _ Ha Hb) | exact I]
    | |- Sv ?s0 (match go P ?f ?k ?x ?e with _ => _ end) =>
        let Ha := fresh "Ha" in let Hb := fresh "Hb" in
        assert (Ha : sub_ev s0 e) by sev_solve;
        pose proof (IH k x e I) as Hb;
        destruct (go P f k x e) as [[? ?]|]; [cbn [Sv] in Hb; pose proof (sev_trans _ _ _ Ha Hb); clear Ha Hb | exact I]
    | |- Sv _ (let '(_, _) := ?e in _) => destruct e as [? ?]
    | |- Sv _ (match (match ?v with _ => _ end) with _ => _ end) => destruct v
    | |- Sv _ (match (if ?c then _ else _) with _ => _ end) => destruct c
    | |- Sv _ (if ?c then _ else _) => destruct c
    | |- Sv _ (match ?v with _ => _ end) => destruct v
    end.

  (* deleting threads posts no event *)
  Lemma Sv_go : forall f k x s, deleting k -> Sv s (go P f k x s).
  Proof.
    induction f as [|f IH]; intros k x s Hk; [exact I|].
    destruct k as [t|w|w|l|l|l|l|l n|l n|w n|w d|w|w|w|w|w i|src n w|src ns w|w v| |w|w ps| |];
      cbn [deleting] in Hk; try contradiction.
    - cbn [go]; cbv zeta. repeat sv_step IH.
    - cbn [go]; cbv zeta. repeat sv_step IH.
    - cbn [go]; cbv zeta. repeat sv_step IH.
    - cbn [go]; cbv zeta. repeat sv_step IH.
    - destruct l as [o|t]; [contradiction|]. cbn [go]; cbv zeta. repeat sv_step IH.
    - cbn [go]; cbv zeta. repeat sv_step IH.
    - cbn [go]; cbv zeta. repeat sv_step IH.
    - destruct l as [o|t]; [contradiction|]. destruct n; try contradiction. cbn [go]; cbv zeta. repeat sv_step IH.
    - destruct n; try contradiction. cbn [go]; cbv zeta. repeat sv_step IH.
    - destruct n; try contradiction. cbn [go]; cbv zeta. repeat sv_step IH.
    - cbn [go]; cbv zeta. repeat sv_step IH.
    - cbn [go]; cbv zeta. repeat sv_step IH.
  Qed.

  (* every StoppedWaitFor of a live thread - the wake-up by a notify of any name, the release by
     a dead callee, the firing timeout itself - first cancels the thread's pending timeout
     events: the rest of it runs in a state without any *)
  Theorem a_wake_up_cancels_the_pending_timeouts f w n x s :
    alive (th s w) = true ->
    go P (S f) (KStoppedWaitFor w n) x s =
    (let s' := ev_cancel s w in
     if is_waiting (tst (th s w)) then
       match n with
       | NE => go P f (KStartTiming w 0) x s'
       | _ => match vst (th s w) with
              | VIdling => go P f (KExecute w) x s'
              | VSuspended => Some (x, upd s' w (w_vst (th s w) VRunning))
              | VRunning => Some (x, s')
              end
       end
     else Some (x, s')).
  Proof. intro H. cbn [go]. rewrite H. reflexivity. Qed.

  (* a deleted thread leaves no timeout event behind *)
  Theorem a_deleted_thread_leaves_no_timeout f t x s x' s' :
    WF s -> alive (th s t) = true -> go P (S f) (KKill t) x s = Some (x', s') ->
    forall e, In e (evq s') -> fst e <> t.
  Proof.
    intros Hw Ha H e He.
    destruct (delete_runs_the_destructor_on_a_destroyed_thread P f t x s _ Hw Ha H) as (x2 & s2 & x3 & s3 & Hd).
    cbv zeta in Hd. destruct Hd as (_ & _ & E3 & Er). injection Er as -> ->.
    match type of E3 with go P f ?k x2 ?sd = _ => pose proof (Sv_go f k x2 sd I) as Hs end.
    rewrite E3 in Hs. cbn [Sv] in Hs.
    assert (He3 : In e (evq s3)) by (destruct (opt_eqb (cur s3) t); exact He).
    apply Hs in He3. now apply ev_cancel_none in He3.
  Qed.
End Events.

Lemma WF_init : WF sh_init.
Proof. intros t H. unfold th, sh_init in H. cbn [thr] in H. rewrite get_empty in H. discriminate. Qed.
