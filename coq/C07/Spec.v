(* C07/Spec.v -- the abstract specification of waittill / notify / endon / delete / waitthread.

   There are no mirrored tables.  A REGISTRATION is a tuple (sequence number, waiting thread,
   source listener, event name); the state is the set of registrations (kept in the order of
   their sequence numbers) and a bag of timed waits (thread, due time, sequence number).

   - `src waittill name` by thread w adds (fresh seq, w, src, name); w is blocked while it has
     a registration.
   - `src notify name` takes exactly the registrations on (src, name) that exist at that
     moment out of the set: their threads are resumed, each ONCE, ordered by the sequence
     number of the thread's LATEST registration on (src, name); nothing else is resumed, and
     with no such registration nothing changes.  The OTHER registrations of the threads so
     picked are cancelled at that moment (waittill_any: the first notify wins): a cancelled
     registration is never matched again; it is withdrawn when its thread proceeds or dies.
   - removing src takes all registrations on src out of the set: their threads are destroyed.
   - a thread that proceeds or dies loses all its registrations.
   The implementation keeps a cancelled registration in its tables until the thread really
   proceeds, and DOES match it (finding: a nested notify wakes the thread a second time).
   The specification records in [stale] that a notify or a removal met a cancelled
   registration: from then on model and specification may differ.
   - a timed wait is resumed by an Execute whose frame time has reached its due time, the
     minimal (due, seq) first.

   The threads themselves (programs, states, end lists, the current-thread slot, nesting of
   a woken thread inside the notifier's instruction) are those of Model.v: the specification
   runs the same interpreter [go] over these abstract primitives. *)
From Coq Require Import NArith List Bool.
From Morfuse Require Import Base.Arr C07.Model.
Import ListNotations.
Local Open Scope N_scope.

Record reg := mkReg { rseq : N; rw : N; rsrc : lid; rn : name; rz : bool }.   (* rz: cancelled *)
Record tw := mkTw { wtid : N; wdue : N; wseq : N }.

Record ast := mkAst {
  regs : list reg;      (* the registrations, by increasing sequence number *)
  nseq : N;             (* next registration number *)
  pend : list tw;       (* the timed waits, by increasing sequence number *)
  frame : N;            (* the engine's frame time *)
  tseq : N;
  sflag : bool }.       (* a cancelled registration was matched *)

Definition ast_init : ast := mkAst [] 0 [] 0 0 false.

Definition on_src (src : lid) (n : name) (r : reg) : bool := lid_eqb src (rsrc r) && name_eqb n (rn r).
Definition of_w (w : N) (n : name) (r : reg) : bool := (w =? rw r) && name_eqb n (rn r).

Definition waiters_of (src : lid) (n : name) (l : list reg) : list lid :=
  map (fun r => LThr (rw r)) (filter (on_src src n) l).
Definition live_waiters_of (src : lid) (n : name) (l : list reg) : list lid :=
  map (fun r => LThr (rw r)) (filter (fun r => on_src src n r && negb (rz r)) l).
Definition sources_of (w : N) (n : name) (l : list reg) : list lid :=
  map rsrc (filter (of_w w n) l).

(* every element once, at its first occurrence *)
Fixpoint first_occ (l seen : list lid) : list lid :=
  match l with
  | [] => []
  | a :: l' => if lmem a seen then first_occ l' seen else a :: first_occ l' (a :: seen)
  end.

(* every element once, at its LAST occurrence: the order of the latest registrations *)
Definition by_last (l : list lid) : list lid := rev (first_occ (rev l) []).

Definition a_reg (src : lid) (n : name) (w : N) (x : ast) : ast :=
  mkAst (regs x ++ [mkReg (nseq x) w src n false]) (nseq x + 1) (pend x) (frame x) (tseq x) (sflag x).

(* cancel the registrations of the threads in [ws] *)
Definition cancel_of (ws : list lid) (r : reg) : reg :=
  if lmem (LThr (rw r)) ws then mkReg (rseq r) (rw r) (rsrc r) (rn r) true else r.

Definition a_waiting (w : N) (x : ast) : bool := existsb (fun r => w =? rw r) (regs x).

Definition a_detach (src : lid) (n : name) (x : ast) : ast * list lid :=
  let ws := by_last (live_waiters_of src n (regs x)) in
  (mkAst (map (cancel_of ws) (filter (fun r => negb (on_src src n r)) (regs x)))
         (nseq x) (pend x) (frame x) (tseq x)
         (sflag x || existsb rz (filter (on_src src n) (regs x))),
   ws).

(* removal of src: the holders of live registrations on src, name by name (the names in the
   model's enumeration order c, b, a, ""), within a name each thread once *)
Definition a_detach_all (src : lid) (x : ast) : ast * list lid :=
  (mkAst (filter (fun r => negb (lid_eqb src (rsrc r))) (regs x)) (nseq x) (pend x) (frame x) (tseq x)
         (sflag x || existsb rz (filter (fun r => lid_eqb src (rsrc r)) (regs x))),
   rev (flat_map (fun n => first_occ (rev (live_waiters_of src n (regs x))) []) all_names)).

Definition a_cancel0 (w : N) (x : ast) : ast * list lid :=
  (mkAst (filter (fun r => negb (of_w w NE r)) (regs x)) (nseq x) (pend x) (frame x) (tseq x) (sflag x),
   by_last (sources_of w NE (regs x))).

Definition a_cancel_rest (w : N) (x : ast) : ast * list lid :=
  (mkAst (filter (fun r => negb (w =? rw r)) (regs x)) (nseq x) (pend x) (frame x) (tseq x) (sflag x),
   rev (flat_map (fun n => first_occ (rev (sources_of w n (regs x))) []) all_names)).

(* ---- timed waits: the due-time bag of C06 *)
Definition a_tadd (w d : N) (x : ast) : ast :=
  mkAst (regs x) (nseq x) (pend x ++ [mkTw w (frame x + d) (tseq x)]) (frame x) (tseq x + 1) (sflag x).

(* the latest timed wait of the thread is withdrawn *)
Fixpoint remove_first_tw (w : N) (l : list tw) : list tw :=
  match l with
  | [] => []
  | e :: l' => if wtid e =? w then l' else e :: remove_first_tw w l'
  end.
Definition a_tremove (w : N) (x : ast) : ast :=
  mkAst (regs x) (nseq x) (rev (remove_first_tw w (rev (pend x)))) (frame x) (tseq x) (sflag x).

Definition w_ltb (a c : tw) : bool :=
  (wdue a <? wdue c) || ((wdue a =? wdue c) && (wseq a <? wseq c)).

Fixpoint min_w (m : tw) (l : list tw) : tw :=
  match l with
  | [] => m
  | e :: l' => min_w (if w_ltb e m then e else m) l'
  end.

Definition remove_w (k : N) (l : list tw) : list tw := filter (fun e => negb (wseq e =? k)) l.

Definition a_tpop (x : ast) : ast * option N :=
  match pend x with
  | [] => (x, None)
  | e :: r =>
      let m := min_w e r in
      if frame x <? wdue m then (x, None)
      else (mkAst (regs x) (nseq x) (remove_w (wseq m) (pend x)) (frame x) (tseq x) (sflag x), Some (wtid m))
  end.

Definition a_settime (t : N) (x : ast) : ast := mkAst (regs x) (nseq x) (pend x) t (tseq x) (sflag x).

(* RegisterSize counts a cancelled registration until it is withdrawn *)
Definition a_regsize (src : lid) (n : name) (x : ast) : nat := length (filter (on_src src n) (regs x)).
Definition a_timing (x : ast) : bool := negb (is_nil (pend x)).

Definition spec_prims : prims ast :=
  mkPrims ast a_reg a_waiting a_detach a_detach_all a_cancel0 a_cancel_rest a_tadd a_tremove
          a_tpop a_tpop a_settime a_regsize a_timing sflag.

Definition spec_run (ops : list op) : list (option obs) := run_from spec_prims ast_init sh_init ops.
