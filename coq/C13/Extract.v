(* C13/Extract.v — extraction of the model and the specification (ExtrOcamlBasic only). *)
Require Extraction.
Require Import ExtrOcamlBasic.
From Morfuse Require Import C13.Model C13.Spec.
Extraction "C13_model.ml" run spec_run.
