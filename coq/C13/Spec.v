(* C13/Spec.v — the abstract specification of the resource view: what exists is a list of
   script instances (id, script) and a list of script threads, each with the instance it
   belongs to, whether it is executing / has just suspended / is parked, whether it is
   running, timed or waiting, the rest of its program, the thread it waits for and the thread
   that waits for it.  There are no pools, no separate VM objects (hence no destroyed VM that
   still executes), no chains with next pointers, no weak references, no half-destroyed
   objects and no undefined behaviour:

   * a thread that ends, or is killed, ceases to exist at once; a thread that was waiting for
     it (waitthread) becomes due now; a thread it was waiting for is killed with it; an
     instance ceases to exist with its last thread;
   * destroying an instance kills its threads (newest first);
   * Reset destroys every instance (oldest first) and forgets every program: nothing is left;
   * recompiling a script destroys the instances running it (newest first) and nothing else;
   * the call stack only says whose program continues where: a frame of a thread that no
     longer exists is dropped.
   Scheduling (the timer list, the dirty flag, the two time bases) is C06's subject and is kept
   as in the model. *)
From Coq Require Import NArith List Bool.
From Morfuse Require Import Base.Arr C13.Model.
Import ListNotations.
Local Open Scope N_scope.

Record athread := mkA {
  a_cls : option N;            (* its instance (None: the instance is being destroyed) *)
  a_vs : vstate;               (* VRunning: executing; VSuspended: just suspended, still on the stack; VIdling: parked *)
  a_ts : tstate;
  a_cont : list instr;
  a_wait : option N;           (* the thread it waits for *)
  a_par : option N }.          (* the thread that waits for it *)

Record abs := mkAbs {
  ath : list (N * athread);
  acl : list (N * N);
  ascripts : list N;
  aelems : list (N * N);
  amtime : N;
  adirty : bool;
  ascaled : N;
  alastclk : N;
  astartclk : N;
  aclock : N;
  acur : option N;
  adepth : nat;
  arefs : arr (option N);
  agvars : arr N;
  anextid : N;
  anextscript : N;
  astack : list frame;
  aout : list N;
  aoof : bool }.

Definition set_ath (v : list (N * athread)) (a : abs) : abs :=
  mkAbs v (acl a) (ascripts a) (aelems a) (amtime a) (adirty a) (ascaled a) (alastclk a) (astartclk a) (aclock a) (acur a) (adepth a) (arefs a) (agvars a) (anextid a) (anextscript a) (astack a) (aout a) (aoof a).
Definition set_acl (v : list (N * N)) (a : abs) : abs :=
  mkAbs (ath a) v (ascripts a) (aelems a) (amtime a) (adirty a) (ascaled a) (alastclk a) (astartclk a) (aclock a) (acur a) (adepth a) (arefs a) (agvars a) (anextid a) (anextscript a) (astack a) (aout a) (aoof a).
Definition set_ascripts (v : list N) (a : abs) : abs :=
  mkAbs (ath a) (acl a) v (aelems a) (amtime a) (adirty a) (ascaled a) (alastclk a) (astartclk a) (aclock a) (acur a) (adepth a) (arefs a) (agvars a) (anextid a) (anextscript a) (astack a) (aout a) (aoof a).
Definition set_aelems (v : list (N * N)) (a : abs) : abs :=
  mkAbs (ath a) (acl a) (ascripts a) v (amtime a) (adirty a) (ascaled a) (alastclk a) (astartclk a) (aclock a) (acur a) (adepth a) (arefs a) (agvars a) (anextid a) (anextscript a) (astack a) (aout a) (aoof a).
Definition set_amtime (v : N) (a : abs) : abs :=
  mkAbs (ath a) (acl a) (ascripts a) (aelems a) v (adirty a) (ascaled a) (alastclk a) (astartclk a) (aclock a) (acur a) (adepth a) (arefs a) (agvars a) (anextid a) (anextscript a) (astack a) (aout a) (aoof a).
Definition set_adirty (v : bool) (a : abs) : abs :=
  mkAbs (ath a) (acl a) (ascripts a) (aelems a) (amtime a) v (ascaled a) (alastclk a) (astartclk a) (aclock a) (acur a) (adepth a) (arefs a) (agvars a) (anextid a) (anextscript a) (astack a) (aout a) (aoof a).
Definition set_ascaled (v : N) (a : abs) : abs :=
  mkAbs (ath a) (acl a) (ascripts a) (aelems a) (amtime a) (adirty a) v (alastclk a) (astartclk a) (aclock a) (acur a) (adepth a) (arefs a) (agvars a) (anextid a) (anextscript a) (astack a) (aout a) (aoof a).
Definition set_alastclk (v : N) (a : abs) : abs :=
  mkAbs (ath a) (acl a) (ascripts a) (aelems a) (amtime a) (adirty a) (ascaled a) v (astartclk a) (aclock a) (acur a) (adepth a) (arefs a) (agvars a) (anextid a) (anextscript a) (astack a) (aout a) (aoof a).
Definition set_astartclk (v : N) (a : abs) : abs :=
  mkAbs (ath a) (acl a) (ascripts a) (aelems a) (amtime a) (adirty a) (ascaled a) (alastclk a) v (aclock a) (acur a) (adepth a) (arefs a) (agvars a) (anextid a) (anextscript a) (astack a) (aout a) (aoof a).
Definition set_aclock (v : N) (a : abs) : abs :=
  mkAbs (ath a) (acl a) (ascripts a) (aelems a) (amtime a) (adirty a) (ascaled a) (alastclk a) (astartclk a) v (acur a) (adepth a) (arefs a) (agvars a) (anextid a) (anextscript a) (astack a) (aout a) (aoof a).
Definition set_acur (v : option N) (a : abs) : abs :=
  mkAbs (ath a) (acl a) (ascripts a) (aelems a) (amtime a) (adirty a) (ascaled a) (alastclk a) (astartclk a) (aclock a) v (adepth a) (arefs a) (agvars a) (anextid a) (anextscript a) (astack a) (aout a) (aoof a).
Definition set_adepth (v : nat) (a : abs) : abs :=
  mkAbs (ath a) (acl a) (ascripts a) (aelems a) (amtime a) (adirty a) (ascaled a) (alastclk a) (astartclk a) (aclock a) (acur a) v (arefs a) (agvars a) (anextid a) (anextscript a) (astack a) (aout a) (aoof a).
Definition set_arefs (v : arr (option N)) (a : abs) : abs :=
  mkAbs (ath a) (acl a) (ascripts a) (aelems a) (amtime a) (adirty a) (ascaled a) (alastclk a) (astartclk a) (aclock a) (acur a) (adepth a) v (agvars a) (anextid a) (anextscript a) (astack a) (aout a) (aoof a).
Definition set_agvars (v : arr N) (a : abs) : abs :=
  mkAbs (ath a) (acl a) (ascripts a) (aelems a) (amtime a) (adirty a) (ascaled a) (alastclk a) (astartclk a) (aclock a) (acur a) (adepth a) (arefs a) v (anextid a) (anextscript a) (astack a) (aout a) (aoof a).
Definition set_anextid (v : N) (a : abs) : abs :=
  mkAbs (ath a) (acl a) (ascripts a) (aelems a) (amtime a) (adirty a) (ascaled a) (alastclk a) (astartclk a) (aclock a) (acur a) (adepth a) (arefs a) (agvars a) v (anextscript a) (astack a) (aout a) (aoof a).
Definition set_anextscript (v : N) (a : abs) : abs :=
  mkAbs (ath a) (acl a) (ascripts a) (aelems a) (amtime a) (adirty a) (ascaled a) (alastclk a) (astartclk a) (aclock a) (acur a) (adepth a) (arefs a) (agvars a) (anextid a) v (astack a) (aout a) (aoof a).
Definition set_astack (v : list frame) (a : abs) : abs :=
  mkAbs (ath a) (acl a) (ascripts a) (aelems a) (amtime a) (adirty a) (ascaled a) (alastclk a) (astartclk a) (aclock a) (acur a) (adepth a) (arefs a) (agvars a) (anextid a) (anextscript a) v (aout a) (aoof a).
Definition set_aout (v : list N) (a : abs) : abs :=
  mkAbs (ath a) (acl a) (ascripts a) (aelems a) (amtime a) (adirty a) (ascaled a) (alastclk a) (astartclk a) (aclock a) (acur a) (adepth a) (arefs a) (agvars a) (anextid a) (anextscript a) (astack a) v (aoof a).
Definition set_aoof (v : bool) (a : abs) : abs :=
  mkAbs (ath a) (acl a) (ascripts a) (aelems a) (amtime a) (adirty a) (ascaled a) (alastclk a) (astartclk a) (aclock a) (acur a) (adepth a) (arefs a) (agvars a) (anextid a) (anextscript a) (astack a) (aout a) v.

Fixpoint afind (t : N) (l : list (N * athread)) : option athread :=
  match l with
  | [] => None
  | (i, r) :: l' => if i =? t then Some r else afind t l'
  end.
Definition aupd (t : N) (f : athread -> athread) (l : list (N * athread)) : list (N * athread) :=
  map (fun x => if fst x =? t then (fst x, f (snd x)) else x) l.
Definition aupd_thread (t : N) (f : athread -> athread) (a : abs) : abs := set_ath (aupd t f (ath a)) a.
Definition aalive (t : N) (a : abs) : bool := match afind t (ath a) with Some _ => true | None => false end.

Definition w_cls c (r : athread) := mkA c (a_vs r) (a_ts r) (a_cont r) (a_wait r) (a_par r).
Definition w_vs x (r : athread) := mkA (a_cls r) x (a_ts r) (a_cont r) (a_wait r) (a_par r).
Definition w_ts x (r : athread) := mkA (a_cls r) (a_vs r) x (a_cont r) (a_wait r) (a_par r).
Definition w_cont p (r : athread) := mkA (a_cls r) (a_vs r) (a_ts r) p (a_wait r) (a_par r).
Definition w_wait w (r : athread) := mkA (a_cls r) (a_vs r) (a_ts r) (a_cont r) w (a_par r).
Definition w_par w (r : athread) := mkA (a_cls r) (a_vs r) (a_ts r) (a_cont r) (a_wait r) w.

(* ---- timer (as in the model) ---------------------------------------------------------------- *)
Definition a_add_timing (t d : N) (a : abs) : abs :=
  let tt := ascaled a + d in
  let a1 := set_aelems (aelems a ++ [(t, tt)]) a in
  if tt <=? amtime a then set_adirty true a1 else a1.
Definition a_remove_timing (t : N) (a : abs) : abs :=
  set_aelems (rev (remove_first_elem t (rev (aelems a)))) a.
Definition a_get_next (a : abs) : option (N * abs) :=
  match scan (rev (aelems a)) (length (aelems a)) (amtime a) None with
  | Some i =>
      match nth_error (aelems a) (pred i) with
      | Some e => Some (fst e, set_aelems (remove_at (aelems a) i) a)
      | None => None
      end
  | None => None
  end.

Definition a_ts_of (t : N) (a : abs) : tstate := match afind t (ath a) with Some r => a_ts r | None => TRunning end.
Definition a_vs_of (t : N) (a : abs) : vstate := match afind t (ath a) with Some r => a_vs r | None => VDestroyed end.

Definition a_stop (t : N) (a : abs) : abs :=
  match a_ts_of t a with
  | TTiming => a_remove_timing t (aupd_thread t (w_ts TRunning) a)
  | TWaiting => aupd_thread t (w_ts TRunning) a
  | TRunning => a
  end.
Definition a_start_timing (t d : N) (a : abs) : abs :=
  a_add_timing t d (aupd_thread t (w_ts TTiming) (a_stop t a)).
Definition a_suspend (t : N) (a : abs) : abs :=
  match a_vs_of t a with
  | VRunning => aupd_thread t (w_vs VSuspended) a
  | _ => a
  end.

(* the thread p that waited for the end of t is released: it becomes due now *)
Definition a_wake (t p : N) (a : abs) : abs :=
  match afind p (ath a) with
  | None => a
  | Some r =>
      match a_wait r with
      | Some x =>
          if x =? t then
            let a1 := aupd_thread p (w_wait None) a in
            match a_ts r with
            | TWaiting => a_start_timing p 0 a1
            | _ => a1
            end
          else a
      | None => a
      end
  end.

Definition a_class_has_thread (c : N) (a : abs) : bool :=
  existsb (fun x => match a_cls (snd x) with Some c' => c' =? c | None => false end) (ath a).

(* thread t ceases to exist *)
Fixpoint a_delete (f : nat) (t : N) (a : abs) {struct f} : abs :=
  match f with
  | O => a
  | S f' =>
      match afind t (ath a) with
      | None => a
      | Some r =>
          let a0 := set_ath (filter (fun x => negb (fst x =? t)) (ath a)) a in
          let a0 := match acur a0 with
                    | Some x => if x =? t then set_acur None a0 else a0
                    | None => a0
                    end in
          (* what it was doing *)
          let a1 := match a_ts r with
                    | TTiming => a_remove_timing t a0
                    | TWaiting =>
                        (* the thread it waited for dies with it *)
                        match a_wait r with
                        | Some c =>
                            match afind c (ath a0) with
                            | Some rc =>
                                match a_par rc with
                                | Some x => if x =? t then a_delete f' c (aupd_thread c (w_par None) a0) else a0
                                | None => a0
                                end
                            | None => a0
                            end
                        | None => a0
                        end
                    | TRunning => a0
                    end in
          (* its instance goes with its last thread *)
          let a2 := match a_cls r with
                    | Some c => if a_class_has_thread c a1 then a1
                                else set_acl (filter (fun x => negb (fst x =? c)) (acl a1)) a1
                    | None => a1
                    end in
          (* the thread that waited for its end becomes due *)
          match a_par r with
          | Some p => a_wake t p a2
          | None => a2
          end
      end
  end.

Definition afuel (a : abs) : nat := S (length (ath a)).

(* a thread is told to stop what it is doing (a wait / pause applied to it): its timer element is
   withdrawn; the thread it waited for is killed *)
Definition a_stop_full (t : N) (a : abs) : abs :=
  match afind t (ath a) with
  | None => a
  | Some r =>
      match a_ts r with
      | TWaiting =>
          let a1 := aupd_thread t (w_ts TRunning) a in
          match a_wait r with
          | None => a1
          | Some c =>
              match afind c (ath a1) with
              | Some rc =>
                  let found := match a_par rc with Some x => x =? t | None => false end in
                  let a2 := if found then aupd_thread c (w_par None) a1 else a1 in
                  let a3 := aupd_thread t (w_wait None) a2 in
                  if found then a_delete (afuel a3) c a3 else a3
              | None => a1
              end
          end
      | _ => a_stop t a
      end
  end.
(* a thread has at most one timer element: a new timed wait replaces the old one *)
Definition a_wait_on (b d : N) (a : abs) : abs :=
  a_suspend b (a_add_timing b d (aupd_thread b (w_ts TTiming) (a_stop_full b a))).
Definition a_pause_on (b : N) (a : abs) : abs := a_suspend b (a_stop_full b a).
Definition a_deref (k : N) (a : abs) : option N :=
  match get (arefs a) k with
  | Some x => if aalive x a then Some x else None
  | None => None
  end.

(* the instance c ceases to exist: its threads are killed, newest first *)
Definition a_destroy_class (c : N) (a : abs) : abs :=
  let a1 := set_acl (filter (fun x => negb (fst x =? c)) (acl a)) a in
  let l := rev (map fst (filter (fun x => match a_cls (snd x) with Some c' => c' =? c | None => false end) (ath a1))) in
  let a2 := fold_left (fun b t => aupd_thread t (w_cls None) b) l a1 in
  fold_left (fun b t => if aalive t b then a_delete (afuel b) t b else b) l a2.

Fixpoint a_free_all (f : nat) (a : abs) : abs :=
  match f with
  | O => a
  | S f' =>
      match acl a with
      | [] => a
      | x :: _ => a_free_all f' (a_destroy_class (fst x) a)
      end
  end.

(* after a Reset the engine is as new: no instance, no program, no global variable *)
Definition a_reset (a : abs) : abs :=
  set_ascripts [] (set_arefs (aempty None) (set_agvars (aempty 0) (a_free_all (S (length (acl a))) a))).

Definition a_recompile (k : N) (a : abs) : abs :=
  if memb k (ascripts a) then
    let a1 := set_ascripts (remove k (ascripts a)) a in
    let l := rev (map fst (filter (fun x => snd x =? k) (acl a1))) in
    let a2 := fold_left (fun b c => if existsb (fun x => fst x =? c) (acl b) then a_destroy_class c b else b) l a1 in
    set_ascripts (ascripts a2 ++ [k]) a2
  else a.

(* ---- creation, the call stack ------------------------------------------------------------------ *)
Definition a_new_class (k : N) (a : abs) : N * abs :=
  let id := anextid a in
  (id, set_acl (acl a ++ [(id, k)]) (set_anextid (id + 1) a)).
Definition a_new_thread (c : N) (p : list instr) (a : abs) : N * abs :=
  let id := anextid a in
  (id, set_ath (ath a ++ [(id, mkA (Some c) VRunning TRunning p None None)]) (set_anextid (id + 1) a)).
Definition a_enter (t : N) (p : list instr) (a : abs) : abs :=
  let saved := acur a in
  let a1 := a_stop t (set_acur (Some t) a) in
  let a2 := set_adepth (S (adepth a1)) (aupd_thread t (w_vs VRunning) a1) in
  set_astack (FExec t p :: FSEI saved :: astack a2) a2.
Definition a_execute_running (a : abs) : abs :=
  match acur a with
  | Some _ => a
  | None => if adirty a then set_astack (FLoop :: astack a) a else a
  end.
Definition a_pop (a : abs) : abs := set_astack (tl (astack a)) a.
Definition a_set_top (fr : frame) (a : abs) : abs := set_astack (fr :: tl (astack a)) a.

Definition a_script_of_class (c : N) (a : abs) : option N :=
  match filter (fun x => fst x =? c) (acl a) with
  | x :: _ => Some (snd x)
  | [] => None
  end.
Definition a_current_script (a : abs) : option N :=
  match acur a with
  | None => None
  | Some ct => match afind ct (ath a) with
               | Some r => match a_cls r with Some c => a_script_of_class c a | None => None end
               | None => None
               end
  end.

Definition a_exec_instr (t : N) (i : instr) (r : list instr) (a0 : abs) : abs :=
  let a := a_set_top (FExec t r) a0 in
  match i with
  | IPrint m => set_aout (m :: aout a) a
  | IWait d => a_suspend t (a_start_timing t d a)
  | IThread q =>
      match afind t (ath a) with
      | Some rt =>
          match a_cls rt with
          | Some c => let '(id, a1) := a_new_thread c q a in a_enter id q a1
          | None => a
          end
      | None => a
      end
  | IWaitThread q =>
      match acur a, a_current_script a with
      | Some ct, Some k =>
          let '(c, a1) := a_new_class k a in
          let '(id, a2) := a_new_thread c q a1 in
          let a3 := aupd_thread id (w_par (Some ct)) a2 in
          let a4 := a_suspend ct (aupd_thread ct (w_ts TWaiting) (a_stop ct a3)) in
          let a5 := aupd_thread ct (w_wait (Some id)) a4 in
          a_enter id q a5
      | _, _ => a
      end
  | IReset => a_reset a
  | IRecompile =>
      match a_current_script a with
      | Some k => a_recompile k a
      | None => a
      end
  | IStore k => set_arefs (set (arefs a) k (Some t)) a
  | IPause => a_pause_on t a
  | IXWait k d => match a_deref k a with Some b => a_wait_on b d a | None => a end
  | IXWaitFrame k => match a_deref k a with Some b => a_wait_on b (aclock a - astartclk a) a | None => a end
  | IXPause k => match a_deref k a with Some b => a_pause_on b a | None => a end
  | IGSet v x => set_agvars (set (agvars a) v x) a
  | IGPrint v => set_aout ((9100 + 10 * v + get (agvars a) v) :: aout a) a
  | IWaitMissing =>
      (* a start that fails leaves nothing behind *)
      match a_current_script a with
      | Some k => let '(c, a1) := a_new_class k a in a_destroy_class c a1
      | None => a
      end
  end.

Definition a_step (a : abs) : abs :=
  match astack a with
  | [] => a
  | FExec t p :: _ =>
      match afind t (ath a) with
      | None => a_pop a                                   (* the thread no longer exists *)
      | Some rt =>
          match a_vs rt with
          | VRunning =>
              match p with
              | [] => a_delete (afuel a) t a              (* the thread ends *)
              | i :: r => a_exec_instr t i r a
              end
          | VSuspended => a_pop (aupd_thread t (fun x => w_cont p (w_vs VIdling x)) a)
          | _ => a_pop a
          end
      end
  | FSEI saved :: _ =>
      let c := match saved with
               | Some x => if aalive x a then Some x else None
               | None => None
               end in
      let a1 := a_pop (set_acur c (set_adepth (pred (adepth a)) a)) in
      match adepth a1 with
      | O => a_execute_running a1                          (* only the outermost execution runs the due threads *)
      | S _ => a1
      end
  | FLoop :: _ =>
      match a_get_next a with
      | None => a_pop (set_acur None (set_adirty false a))
      | Some (t, a1) =>
          let a2 := set_adepth (S (adepth a1)) (aupd_thread t (fun x => w_vs VRunning (w_ts TRunning x)) (set_acur (Some t) a1)) in
          set_astack (FExec t (match afind t (ath a2) with Some r => a_cont r | None => [] end) :: FDec :: astack a2) a2
      end
  | FDec :: _ => a_pop (set_adepth (pred (adepth a)) a)
  end.

Fixpoint a_run_stack (f : nat) (a : abs) : abs :=
  match astack a with
  | [] => a
  | _ :: _ =>
      if aoof a then a else
      match f with
      | O => set_aoof true a                              (* the step loop ran out of fuel *)
      | S f' => a_run_stack f' (a_step a)
      end
  end.

Definition a_weight (a : abs) : nat :=
  (fold_right (fun fr n => fsize fr + n) O (astack a)
   + fold_right (fun x n => S (psize (a_cont (snd x))) + n) O (ath a))%nat.
Definition a_sfuel (a : abs) : nat := (16 + 8 * a_weight a)%nat.

Definition abs_init (c : N) : abs := mkAbs [] [] [] [] 0 false 0 c c c None O (aempty None) (aempty 0) 0 0 [] [] false.

Definition a_host_step (a0 : abs) (o : op) : abs :=
  if aoof a0 then a0 else
  let a := set_aout [] a0 in
  match o with
  | OStart p =>
      let k := anextscript a in
      let a1 := set_ascripts (ascripts a ++ [k]) (set_anextscript (k + 1) a) in
      let '(c, a2) := a_new_class k a1 in
      let '(id, a3) := a_new_thread c p a2 in
      let a4 := a_enter id p a3 in
      a_run_stack (a_sfuel a4) a4
  | OAdvance dt => set_aclock (aclock a + dt) a
  | OExecute =>
      let a1 := set_adirty true (set_amtime (aclock a - astartclk a)
                  (set_alastclk (aclock a) (set_ascaled (ascaled a + (aclock a - alastclk a)) a))) in
      let a2 := a_execute_running a1 in
      a_run_stack (a_sfuel a2) a2
  | OReset => a_reset a
  | ORecompile k => a_recompile k a
  | OStartMissing k =>
      if memb k (ascripts a) then let '(c, a1) := a_new_class k a in a_destroy_class c a1 else a
  | ODestroy => a_reset a
  end.

(* what the host can see: every thread is also a VM *)
Definition a_observe (a : abs) : obs :=
  mkObs (rev (aout a))
        (match acl a with [] => true | _ => false end)
        (length (acl a)) (length (ath a)) (length (ath a)) (length (ascripts a))
        (length (aelems a))
        (if aoof a then 2 else 0)%nat.

Fixpoint spec_from (a : abs) (ops : list op) : list obs :=
  match ops with
  | [] => []
  | o :: ops' => let a' := a_host_step a o in a_observe a' :: spec_from a' ops'
  end.

Definition spec_run (ops : list op) : list obs := spec_from (abs_init 1000) ops.
