(* C13/ProofsLib.v — list facts, the simplification tactics for the state records, and the
   abstraction function from model states to specification states. *)
From Coq Require Import NArith List Bool Lia PeanoNat.
From Morfuse Require Import Base.Arr Base.ListX C13.Model C13.Spec.
Import ListNotations.
Local Open Scope N_scope.

(* ---- simplifying projections of updated records ----------------------------------------------
   Never unfold the update functions as such: every one of them mentions the state once per
   field, nested updates would explode.  cbn unfolds them lazily under a projection. *)
Ltac prj :=
  cbn [threads vms classes tpool vpool cpool chain scripts elems mtime dirty scaled lastclk startclk clock
       cur depth refs gvars nextid nextscript stack out tlog vlog clog ub oof
       set_threads set_vms set_classes set_tpool set_vpool set_cpool set_chain set_scripts set_elems set_mtime
       set_dirty set_scaled set_lastclk set_startclk set_clock set_cur set_depth set_refs set_gvars set_nextid set_nextscript set_stack
       set_out set_tlog set_vlog set_clog set_ub set_oof
       set_tvm set_tstate set_waitfor set_notify set_vclass set_vstate set_vcont set_cthreads
       flag_ub flag_oof free_vm free_class
       t_vm t_state t_waitfor t_notify v_class v_state v_cont c_script c_threads
       ath acl ascripts aelems amtime adirty ascaled alastclk astartclk aclock acur adepth arefs agvars anextid anextscript astack aout aoof
       set_ath set_acl set_ascripts set_aelems set_amtime set_adirty set_ascaled set_alastclk set_astartclk
       set_aclock set_acur set_adepth set_arefs set_agvars set_anextid set_anextscript set_astack set_aout set_aoof
       a_cls a_vs a_ts a_cont a_wait a_par fst snd] in *.
Ltac unf := unfold th, vmof, clsof in *.
Ltac ss := repeat (progress (unf; prj)).

(* ---- membership / removal -------------------------------------------------------------------- *)
Lemma memb_in x l : memb x l = true <-> In x l.
Proof.
  induction l as [|y l IH]; cbn [memb In]; [split; [discriminate|tauto]|].
  rewrite orb_true_iff, N.eqb_eq, IH. tauto.
Qed.
Lemma memb_spec x l : reflect (In x l) (memb x l).
Proof. apply iff_reflect. symmetry. apply memb_in. Qed.
Lemma memb_false x l : memb x l = false <-> ~ In x l.
Proof. rewrite <- memb_in. destruct (memb x l); split; congruence. Qed.

Lemma in_remove x y l : In x (remove y l) <-> In x l /\ x <> y.
Proof.
  unfold remove. rewrite filter_In, negb_true_iff, N.eqb_neq. tauto.
Qed.
Lemma nodup_remove y l : NoDup l -> NoDup (remove y l).
Proof. apply NoDup_filter. Qed.
Lemma remove_notin y l : ~ In y l -> remove y l = l.
Proof.
  unfold remove. induction l as [|x l IH]; cbn [filter In]; intro H; [reflexivity|].
  destruct (N.eqb_spec x y) as [->|_]; cbn [negb]; [tauto|]. f_equal. tauto.
Qed.
Lemma length_remove_in y l : NoDup l -> In y l -> S (length (remove y l)) = length l.
Proof.
  unfold remove. induction l as [|x l IH]; cbn [filter In length]; intros Hnd Hin; [tauto|].
  inversion Hnd as [|? ? Hn Hd]; subst.
  destruct (N.eqb_spec x y) as [->|Hne]; cbn [negb length].
  - f_equal. fold (remove y l). now rewrite remove_notin.
  - f_equal. destruct Hin as [->|Hin]; [congruence|]. now apply IH.
Qed.
Lemma remove_app y l1 l2 : remove y (l1 ++ l2) = remove y l1 ++ remove y l2.
Proof. unfold remove. apply filter_app. Qed.
Lemma remove_rev y l : remove y (rev l) = rev (remove y l).
Proof.
  unfold remove. induction l as [|x l IH]; cbn [rev filter]; [reflexivity|].
  rewrite filter_app, IH. cbn [filter]. destruct (negb (x =? y)); cbn [rev]; [reflexivity|now rewrite app_nil_r].
Qed.

(* ---- the abstraction ----------------------------------------------------------------------------
   A thread whose ~ScriptThread has begun (m_ScriptVM = null) no longer exists for the
   specification although it is in the pool until its Free; an instance that has unlinked
   itself from the director's chain no longer exists although it is in the pool until its Free;
   a VM is nothing but a part of its thread. *)
Definition healthyb (s : st) (t : N) : bool := t_vm (th s t).
Definition abs_thread (s : st) (t : N) : N * athread :=
  (t, mkA (v_class (vmof s t)) (v_state (vmof s t)) (t_state (th s t)) (v_cont (vmof s t))
          (t_waitfor (th s t)) (t_notify (th s t))).
Definition aths (s : st) : list (N * athread) := map (abs_thread s) (filter (healthyb s) (tpool s)).
Definition acls (s : st) : list (N * N) := map (fun c => (c, c_script (clsof s c))) (rev (chain s)).
Definition acurs (s : st) : option N :=
  match cur s with
  | Some x => if memb x (tpool s) && healthyb s x then Some x else None
  | None => None
  end.
Definition alpha (s : st) : abs :=
  mkAbs (aths s) (acls s) (scripts s) (elems s) (mtime s) (dirty s) (scaled s) (lastclk s) (startclk s)
        (clock s) (acurs s) (depth s) (refs s) (gvars s) (nextid s) (nextscript s) (stack s) (out s) (oof s).

Definition healthy (s : st) (t : N) : Prop := In t (tpool s) /\ t_vm (th s t) = true.

Lemma afind_map_none s t l : ~ In t l -> afind t (map (abs_thread s) l) = None.
Proof.
  induction l as [|x l IH]; cbn [map afind In]; intro H; [reflexivity|].
  unfold abs_thread at 1. cbn [fst]. destruct (N.eqb_spec x t) as [->|_]; [tauto|]. apply IH. tauto.
Qed.
Lemma afind_map_some s t l : In t l -> afind t (map (abs_thread s) l) = Some (snd (abs_thread s t)).
Proof.
  induction l as [|x l IH]; cbn [map afind In]; intro H; [tauto|].
  unfold abs_thread at 1. destruct (N.eqb_spec x t) as [->|Hne]; [reflexivity|].
  destruct H as [->|H]; [congruence|]. now apply IH.
Qed.
Lemma afind_aths s t :
  afind t (aths s) = if memb t (tpool s) && healthyb s t then Some (snd (abs_thread s t)) else None.
Proof.
  unfold aths.
  destruct (memb_spec t (tpool s)) as [Hin|Hin]; cbn [andb].
  - destruct (healthyb s t) eqn:E.
    + apply afind_map_some. apply filter_In. tauto.
    + apply afind_map_none. rewrite filter_In. intros [_ H]. congruence.
  - apply afind_map_none. rewrite filter_In. tauto.
Qed.
Lemma healthy_b s t : healthy s t <-> memb t (tpool s) && healthyb s t = true.
Proof. unfold healthy, healthyb. rewrite andb_true_iff, memb_in. tauto. Qed.
Lemma afind_healthy s t : healthy s t -> afind t (aths s) = Some (snd (abs_thread s t)).
Proof. intro H. rewrite afind_aths. apply healthy_b in H. now rewrite H. Qed.
Lemma afind_unhealthy s t : ~ healthy s t -> afind t (aths s) = None.
Proof.
  intro H. rewrite afind_aths. destruct (memb t (tpool s) && healthyb s t) eqn:E; [|reflexivity].
  apply healthy_b in E. tauto.
Qed.
Lemma aalive_alpha s t : aalive t (alpha s) = memb t (tpool s) && healthyb s t.
Proof. unfold aalive, alpha. prj. rewrite afind_aths. now destruct (memb t (tpool s) && healthyb s t). Qed.

(* a change of thread records that keeps who is healthy *)
Lemma aths_upd s s' t f :
  tpool s' = tpool s ->
  (forall u, healthyb s' u = healthyb s u) ->
  (forall u, u <> t -> abs_thread s' u = abs_thread s u) ->
  snd (abs_thread s' t) = f (snd (abs_thread s t)) ->
  aths s' = aupd t f (aths s).
Proof.
  intros Hp Hh Ho Ht. unfold aths, aupd. rewrite Hp, map_map.
  rewrite (filter_ext _ _ Hh).
  apply map_ext. intro u. change (fst (abs_thread s u)) with u.
  destruct (N.eqb_spec u t) as [->|Hne].
  - rewrite <- Ht. reflexivity.
  - now apply Ho.
Qed.
Lemma aths_same s s' :
  tpool s' = tpool s ->
  (forall u, healthyb s' u = healthyb s u) ->
  (forall u, abs_thread s' u = abs_thread s u) ->
  aths s' = aths s.
Proof.
  intros Hp Hh Ho. unfold aths. rewrite Hp, (filter_ext _ _ Hh). now apply map_ext.
Qed.
Lemma aupd_notin t f l : ~ In t (map fst l) -> aupd t f l = l.
Proof.
  unfold aupd. induction l as [|x l IH]; cbn [map In]; intro H; [reflexivity|].
  destruct (N.eqb_spec (fst x) t) as [E|_]; [tauto|]. f_equal. apply IH. tauto.
Qed.
Lemma map_fst_aths s : map fst (aths s) = filter (healthyb s) (tpool s).
Proof. unfold aths. rewrite map_map. cbn [abs_thread fst]. apply map_id. Qed.

Lemma abs_eq a b :
  ath a = ath b -> acl a = acl b -> ascripts a = ascripts b -> aelems a = aelems b -> amtime a = amtime b ->
  adirty a = adirty b -> ascaled a = ascaled b -> alastclk a = alastclk b -> astartclk a = astartclk b ->
  aclock a = aclock b -> acur a = acur b -> adepth a = adepth b -> arefs a = arefs b -> agvars a = agvars b -> anextid a = anextid b -> anextscript a = anextscript b ->
  astack a = astack b -> aout a = aout b -> aoof a = aoof b -> a = b.
Proof. destruct a, b. cbn. intros. subst. reflexivity. Qed.
Ltac triv := try (match goal with |- ?x = ?x => reflexivity end).
Ltac abs_ext := apply abs_eq; ss; triv.

(* ---- reading a record after an update ---------------------------------------------------------- *)
Lemma th_set_tvm s t b x : th (set_tvm t b s) x =
  if x =? t then mkT b (t_state (th s t)) (t_waitfor (th s t)) (t_notify (th s t)) else th s x.
Proof. ss. apply get_set. Qed.
Lemma th_set_tstate s t b x : th (set_tstate t b s) x =
  if x =? t then mkT (t_vm (th s t)) b (t_waitfor (th s t)) (t_notify (th s t)) else th s x.
Proof. ss. apply get_set. Qed.
Lemma th_set_waitfor s t b x : th (set_waitfor t b s) x =
  if x =? t then mkT (t_vm (th s t)) (t_state (th s t)) b (t_notify (th s t)) else th s x.
Proof. ss. apply get_set. Qed.
Lemma th_set_notify s t b x : th (set_notify t b s) x =
  if x =? t then mkT (t_vm (th s t)) (t_state (th s t)) (t_waitfor (th s t)) b else th s x.
Proof. ss. apply get_set. Qed.
Lemma vm_set_vclass s t b x : vmof (set_vclass t b s) x =
  if x =? t then mkV b (v_state (vmof s t)) (v_cont (vmof s t)) else vmof s x.
Proof. ss. apply get_set. Qed.
Lemma vm_set_vstate s t b x : vmof (set_vstate t b s) x =
  if x =? t then mkV (v_class (vmof s t)) b (v_cont (vmof s t)) else vmof s x.
Proof. ss. apply get_set. Qed.
Lemma vm_set_vcont s t b x : vmof (set_vcont t b s) x =
  if x =? t then mkV (v_class (vmof s t)) (v_state (vmof s t)) b else vmof s x.
Proof. ss. apply get_set. Qed.
Lemma cls_set_cthreads s c l x : clsof (set_cthreads c l s) x =
  if x =? c then mkC (c_script (clsof s c)) l else clsof s x.
Proof. ss. apply get_set. Qed.
Ltac rd := rewrite ?th_set_tvm, ?th_set_tstate, ?th_set_waitfor, ?th_set_notify, ?vm_set_vclass, ?vm_set_vstate,
                   ?vm_set_vcont, ?cls_set_cthreads in *.
