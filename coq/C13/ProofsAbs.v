(* C13/ProofsAbs.v — how the abstraction function sees every elementary update of the model. *)
From Coq Require Import NArith List Bool Lia PeanoNat.
From Morfuse Require Import Base.Arr Base.ListX C13.Model C13.Spec C13.ProofsLib.
Import ListNotations.
Local Open Scope N_scope.

Ltac gs := repeat (rewrite ?gss, ?get_set).

Lemma acurs_same s s' :
  cur s' = cur s -> tpool s' = tpool s -> (forall u, healthyb s' u = healthyb s u) -> acurs s' = acurs s.
Proof. intros Hc Hp Hh. unfold acurs. rewrite Hc, Hp. destruct (cur s) as [x|]; [now rewrite Hh|reflexivity]. Qed.

Lemma acls_same s s' :
  chain s' = chain s -> (forall c, c_script (clsof s' c) = c_script (clsof s c)) -> acls s' = acls s.
Proof. intros Hc Hs. unfold acls. rewrite Hc. apply map_ext. intro c. now rewrite Hs. Qed.

(* thread-record updates *)
Section ThreadUpd.
  Variables (s : st) (t : N).

  Lemma hb_threads_upd r u :
    t_vm r = t_vm (th s t) ->
    healthyb (set_threads (set (threads s) t r) s) u = healthyb s u.
  Proof.
    intro H. unfold healthyb, th. prj. rewrite get_set. destruct (N.eqb_spec u t) as [->|_]; [exact H|reflexivity].
  Qed.

  Lemma alpha_set_tstate x : alpha (set_tstate t x s) = aupd_thread t (w_ts x) (alpha s).
  Proof.
    unfold alpha, aupd_thread. abs_ext.
    - apply aths_upd; [reflexivity| | |].
      + intro u. unfold set_tstate. apply hb_threads_upd. reflexivity.
      + intros u Hu. unfold abs_thread. ss. now rewrite gso.
      + unfold abs_thread. ss. now rewrite gss.
    - apply acls_same; reflexivity.
    - apply acurs_same; [reflexivity|reflexivity|]. intro u. unfold set_tstate. apply hb_threads_upd. reflexivity.
  Qed.
  Lemma alpha_set_waitfor w : alpha (set_waitfor t w s) = aupd_thread t (w_wait w) (alpha s).
  Proof.
    unfold alpha, aupd_thread. abs_ext.
    - apply aths_upd; [reflexivity| | |].
      + intro u. unfold set_waitfor. apply hb_threads_upd. reflexivity.
      + intros u Hu. unfold abs_thread. ss. now rewrite gso.
      + unfold abs_thread. ss. now rewrite gss.
    - apply acls_same; reflexivity.
    - apply acurs_same; [reflexivity|reflexivity|]. intro u. unfold set_waitfor. apply hb_threads_upd. reflexivity.
  Qed.
  Lemma alpha_set_notify w : alpha (set_notify t w s) = aupd_thread t (w_par w) (alpha s).
  Proof.
    unfold alpha, aupd_thread. abs_ext.
    - apply aths_upd; [reflexivity| | |].
      + intro u. unfold set_notify. apply hb_threads_upd. reflexivity.
      + intros u Hu. unfold abs_thread. ss. now rewrite gso.
      + unfold abs_thread. ss. now rewrite gss.
    - apply acls_same; reflexivity.
    - apply acurs_same; [reflexivity|reflexivity|]. intro u. unfold set_notify. apply hb_threads_upd. reflexivity.
  Qed.

  Lemma hb_vms_upd r u : healthyb (set_vms r s) u = healthyb s u.
  Proof. reflexivity. Qed.

  Lemma alpha_set_vstate x : alpha (set_vstate t x s) = aupd_thread t (w_vs x) (alpha s).
  Proof.
    unfold alpha, aupd_thread. abs_ext.
    - apply aths_upd; [reflexivity|reflexivity| |].
      + intros u Hu. unfold abs_thread. ss. now rewrite gso.
      + unfold abs_thread. ss. now rewrite gss.
    - apply acls_same; reflexivity.
    - apply acurs_same; reflexivity.
  Qed.
  Lemma alpha_set_vcont p : alpha (set_vcont t p s) = aupd_thread t (w_cont p) (alpha s).
  Proof.
    unfold alpha, aupd_thread. abs_ext.
    - apply aths_upd; [reflexivity|reflexivity| |].
      + intros u Hu. unfold abs_thread. ss. now rewrite gso.
      + unfold abs_thread. ss. now rewrite gss.
    - apply acls_same; reflexivity.
    - apply acurs_same; reflexivity.
  Qed.
  Lemma alpha_set_vclass c : alpha (set_vclass t c s) = aupd_thread t (w_cls c) (alpha s).
  Proof.
    unfold alpha, aupd_thread. abs_ext.
    - apply aths_upd; [reflexivity|reflexivity| |].
      + intros u Hu. unfold abs_thread. ss. now rewrite gso.
      + unfold abs_thread. ss. now rewrite gss.
    - apply acls_same; reflexivity.
    - apply acurs_same; reflexivity.
  Qed.
End ThreadUpd.

(* updates the specification does not see *)
Lemma alpha_set_cthreads c l s : alpha (set_cthreads c l s) = alpha s.
Proof.
  unfold alpha. abs_ext.
  - apply aths_same; reflexivity.
  - apply acls_same; [reflexivity|]. intro x. unfold clsof. prj.
    rewrite get_set. now destruct (N.eqb_spec x c) as [->|_].
  - apply acurs_same; reflexivity.
Qed.
Lemma alpha_flag_ub s : alpha (flag_ub s) = alpha s.
Proof. reflexivity. Qed.
Lemma alpha_free_vm v s : alpha (free_vm v s) = alpha s.
Proof. reflexivity. Qed.
Lemma alpha_free_class c s : alpha (free_class c s) = alpha s.
Proof. reflexivity. Qed.
Lemma alpha_set_tlog l s : alpha (set_tlog l s) = alpha s.
Proof. reflexivity. Qed.
