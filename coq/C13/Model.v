(* C13/Model.v — executable model of the RESOURCE view of the scripting engine: which script
   threads, VMs and script instances exist, who destroys them and when.

   Modelled at the level of the code (same branches, same order of updates):
   * the three pools of ScriptContext::GetAllocator() (ScriptThread / ScriptVM / ScriptClass) as
     lists of ids in allocation order ([tpool], [vpool], [cpool]); ids are never reused, so a
     second destruction of the same object, or the use of a destroyed one, is visible: every
     such access sets the sticky flag [ub] (the C++ would free pool memory twice / read freed
     memory); BlockAlloc::FreeAll destroys the first used element again and again
     (include/morfuse/Common/MEM/BlockAlloc.h) = the head of [cpool];
   * ScriptVM's state machine Running / Suspended / Idling / Destroyed (src/Script/ScriptVM.cpp:
     NotifyDelete, Suspend; src/Script/ScriptVMOperation.cpp: Execute sets Running on entry and
     its tail turns Suspended into Idling and frees a Destroyed VM; the state Destroy is never
     assigned anywhere in the code);
   * ScriptThread: ~ScriptThread (Timing -> RemoveTiming, Waiting -> CancelWaitingAll, then
     NotifyDelete), Stop, StartTiming, Wait, StoppedWaitFor(0, false), StoppedNotify (deletes
     the thread), Resume, ScriptExecuteInternal (saves / restores the current thread - both are
     SafePtr: they read as null once the thread is destroyed -, counts the executions in
     progress in m_ExecutionDepth and calls ExecuteRunning only from the outermost one);
   * ScriptClass: AddThread (push front), RemoveThread (the last thread deletes the instance),
     ~ScriptClass (unlink from the director's chain, KillThreads), KillThreads (detach all,
     then delete every thread that still exists: weak references);
   * ScriptMaster: ClearAll / Reset (FreeAll of the instance pool, then all programs), 
     DeleteProgramScript (collect the instances of the script by weak references, delete
     those that still exist) followed by the recompilation, ExecuteRunning (nothing while there is a current
     thread; the loop over due timer elements), the timer list of C06 (insertion order, backward
     scan with <=, dirty flag, two time bases);
   * Listener: the registration made by `waitthread` (Register under the empty name: the
     callee's notify list holds the caller, the caller's wait-for list holds the callee),
     ~Listener = UnregisterAll (the caller of a dying callee is detached and gets
     StoppedWaitFor(0, false) = StartTiming) and CancelWaitingAll (the callee of a dying caller
     is detached and gets StoppedNotify = it is deleted: a cascade);
   * the C++ call stack as an explicit stack of frames ([FExec]: ScriptVM::Execute of a thread
     with the rest of its program, [FSEI]: the epilogue of ScriptExecuteInternal, [FLoop]: the
     loop of ExecuteRunning, [FDec]: its decrement of the execution depth after a Resume) so that a Reset / recompile issued by a host command from inside a
     running script (at any nesting depth of `thread` / `waitthread`) acts on a state in which
     the callers' VMs are still executing.

   Abstracted: intrusive linked lists are Coq lists (ScriptClass::m_Threads / ScriptVM::next,
   the director's chain of instances); each wait-for / notify table holds at most one entry in
   this alphabet and is an [option] (a second entry sets [ub]); ScriptThread::Stop of a thread
   that still waits for somebody cancels the wait and deletes the awaited thread: this is
   [stop_full] (used by the timing commands one thread applies to another); [stop] is the same
   function for the callers whose thread waits for nobody (a branch that would need the
   cancellation there sets [ub]); the string dictionary, the event queue and script variables
   are not modelled (except the level variables r<k>, weak references to threads, through which
   one thread applies wait / waitframe / pause to another one, and a few integer variables of
   level / game / parm, which outlive their threads but not a Reset); a thread is an abstract program.  Loops carry fuel; running out of fuel
   sets the sticky flag [oof].  NO proofs in this file. *)
From Coq Require Import NArith List Bool.
From Morfuse Require Import Base.Arr.
Import ListNotations.
Local Open Scope N_scope.

Inductive instr :=
| IPrint (m : N)                 (* println marker *)
| IWait (d : N)                  (* wait d milliseconds *)
| IThread (p : list instr)       (* thread label: a new thread of the same instance, run at once *)
| IWaitThread (p : list instr)   (* waitthread label: a new instance; the caller waits for its end *)
| IReset                         (* a host command that calls director.Reset() *)
| IRecompile                     (* a host command that recompiles the running script *)
| IStore (k : N)                 (* level.r<k> = local: a (weak) reference to the running thread *)
| IPause                         (* pause *)
| IXWait (k d : N)               (* level.r<k> wait d: ScriptThread::EventWait applied to THAT thread *)
| IXWaitFrame (k : N)            (* level.r<k> waitframe: Wait(GetTime()) applied to that thread *)
| IXPause (k : N)                (* level.r<k> pause *)
| IGSet (v x : N)                (* level.|game.|parm.<name v> = x  (x >= 1) *)
| IGPrint (v : N)                (* prints 9100 + 10 v + the value of that global variable (0 when it is not set) *)
| IWaitMissing.                  (* waitthread <a label that does not exist>: the new instance is created, the start fails *)

Inductive tstate := TRunning | TTiming | TWaiting.            (* threadState_e *)
Inductive vstate := VRunning | VSuspended | VIdling | VDestroyed.   (* vmState_e *)

Record thread := mkT {
  t_vm : bool;                 (* m_ScriptVM <> nullptr *)
  t_state : tstate;            (* m_ThreadState *)
  t_waitfor : option N;        (* m_WaitForList[""] : the thread this one waits for *)
  t_notify : option N }.       (* m_NotifyList[""] : the thread waiting for the end of this one *)

Record vm := mkV {
  v_class : option N;          (* m_ScriptClass (ClearScriptClass sets null) *)
  v_state : vstate;
  v_cont : list instr }.       (* m_CodePos: what is still to run *)

Record cls := mkC {
  c_script : N;                (* m_Script *)
  c_threads : list N }.        (* m_Threads chain, head first; a VM and its thread share one id *)

Inductive frame :=
| FExec (t : N) (p : list instr)
| FSEI (saved : option N)
| FLoop
| FDec.                        (* --m_ExecutionDepth after a resumed thread has returned into the loop *)

Record st := mkSt {
  threads : arr thread;
  vms : arr vm;
  classes : arr cls;
  tpool : list N;
  vpool : list N;
  cpool : list N;
  chain : list N;
  scripts : list N;
  elems : list (N * N);
  mtime : N;
  dirty : bool;
  scaled : N;
  lastclk : N;
  startclk : N;
  clock : N;
  cur : option N;
  depth : nat;
  refs : arr (option N);
  gvars : arr N;
  nextid : N;
  nextscript : N;
  stack : list frame;
  out : list N;
  tlog : list N;
  vlog : list N;
  clog : list N;
  ub : bool;
  oof : bool }.

Definition set_threads (v : arr thread) (s : st) : st :=
  mkSt v (vms s) (classes s) (tpool s) (vpool s) (cpool s) (chain s) (scripts s) (elems s) (mtime s) (dirty s) (scaled s) (lastclk s) (startclk s) (clock s) (cur s) (depth s) (refs s) (gvars s) (nextid s) (nextscript s) (stack s) (out s) (tlog s) (vlog s) (clog s) (ub s) (oof s).
Definition set_vms (v : arr vm) (s : st) : st :=
  mkSt (threads s) v (classes s) (tpool s) (vpool s) (cpool s) (chain s) (scripts s) (elems s) (mtime s) (dirty s) (scaled s) (lastclk s) (startclk s) (clock s) (cur s) (depth s) (refs s) (gvars s) (nextid s) (nextscript s) (stack s) (out s) (tlog s) (vlog s) (clog s) (ub s) (oof s).
Definition set_classes (v : arr cls) (s : st) : st :=
  mkSt (threads s) (vms s) v (tpool s) (vpool s) (cpool s) (chain s) (scripts s) (elems s) (mtime s) (dirty s) (scaled s) (lastclk s) (startclk s) (clock s) (cur s) (depth s) (refs s) (gvars s) (nextid s) (nextscript s) (stack s) (out s) (tlog s) (vlog s) (clog s) (ub s) (oof s).
Definition set_tpool (v : list N) (s : st) : st :=
  mkSt (threads s) (vms s) (classes s) v (vpool s) (cpool s) (chain s) (scripts s) (elems s) (mtime s) (dirty s) (scaled s) (lastclk s) (startclk s) (clock s) (cur s) (depth s) (refs s) (gvars s) (nextid s) (nextscript s) (stack s) (out s) (tlog s) (vlog s) (clog s) (ub s) (oof s).
Definition set_vpool (v : list N) (s : st) : st :=
  mkSt (threads s) (vms s) (classes s) (tpool s) v (cpool s) (chain s) (scripts s) (elems s) (mtime s) (dirty s) (scaled s) (lastclk s) (startclk s) (clock s) (cur s) (depth s) (refs s) (gvars s) (nextid s) (nextscript s) (stack s) (out s) (tlog s) (vlog s) (clog s) (ub s) (oof s).
Definition set_cpool (v : list N) (s : st) : st :=
  mkSt (threads s) (vms s) (classes s) (tpool s) (vpool s) v (chain s) (scripts s) (elems s) (mtime s) (dirty s) (scaled s) (lastclk s) (startclk s) (clock s) (cur s) (depth s) (refs s) (gvars s) (nextid s) (nextscript s) (stack s) (out s) (tlog s) (vlog s) (clog s) (ub s) (oof s).
Definition set_chain (v : list N) (s : st) : st :=
  mkSt (threads s) (vms s) (classes s) (tpool s) (vpool s) (cpool s) v (scripts s) (elems s) (mtime s) (dirty s) (scaled s) (lastclk s) (startclk s) (clock s) (cur s) (depth s) (refs s) (gvars s) (nextid s) (nextscript s) (stack s) (out s) (tlog s) (vlog s) (clog s) (ub s) (oof s).
Definition set_scripts (v : list N) (s : st) : st :=
  mkSt (threads s) (vms s) (classes s) (tpool s) (vpool s) (cpool s) (chain s) v (elems s) (mtime s) (dirty s) (scaled s) (lastclk s) (startclk s) (clock s) (cur s) (depth s) (refs s) (gvars s) (nextid s) (nextscript s) (stack s) (out s) (tlog s) (vlog s) (clog s) (ub s) (oof s).
Definition set_elems (v : list (N * N)) (s : st) : st :=
  mkSt (threads s) (vms s) (classes s) (tpool s) (vpool s) (cpool s) (chain s) (scripts s) v (mtime s) (dirty s) (scaled s) (lastclk s) (startclk s) (clock s) (cur s) (depth s) (refs s) (gvars s) (nextid s) (nextscript s) (stack s) (out s) (tlog s) (vlog s) (clog s) (ub s) (oof s).
Definition set_mtime (v : N) (s : st) : st :=
  mkSt (threads s) (vms s) (classes s) (tpool s) (vpool s) (cpool s) (chain s) (scripts s) (elems s) v (dirty s) (scaled s) (lastclk s) (startclk s) (clock s) (cur s) (depth s) (refs s) (gvars s) (nextid s) (nextscript s) (stack s) (out s) (tlog s) (vlog s) (clog s) (ub s) (oof s).
Definition set_dirty (v : bool) (s : st) : st :=
  mkSt (threads s) (vms s) (classes s) (tpool s) (vpool s) (cpool s) (chain s) (scripts s) (elems s) (mtime s) v (scaled s) (lastclk s) (startclk s) (clock s) (cur s) (depth s) (refs s) (gvars s) (nextid s) (nextscript s) (stack s) (out s) (tlog s) (vlog s) (clog s) (ub s) (oof s).
Definition set_scaled (v : N) (s : st) : st :=
  mkSt (threads s) (vms s) (classes s) (tpool s) (vpool s) (cpool s) (chain s) (scripts s) (elems s) (mtime s) (dirty s) v (lastclk s) (startclk s) (clock s) (cur s) (depth s) (refs s) (gvars s) (nextid s) (nextscript s) (stack s) (out s) (tlog s) (vlog s) (clog s) (ub s) (oof s).
Definition set_lastclk (v : N) (s : st) : st :=
  mkSt (threads s) (vms s) (classes s) (tpool s) (vpool s) (cpool s) (chain s) (scripts s) (elems s) (mtime s) (dirty s) (scaled s) v (startclk s) (clock s) (cur s) (depth s) (refs s) (gvars s) (nextid s) (nextscript s) (stack s) (out s) (tlog s) (vlog s) (clog s) (ub s) (oof s).
Definition set_startclk (v : N) (s : st) : st :=
  mkSt (threads s) (vms s) (classes s) (tpool s) (vpool s) (cpool s) (chain s) (scripts s) (elems s) (mtime s) (dirty s) (scaled s) (lastclk s) v (clock s) (cur s) (depth s) (refs s) (gvars s) (nextid s) (nextscript s) (stack s) (out s) (tlog s) (vlog s) (clog s) (ub s) (oof s).
Definition set_clock (v : N) (s : st) : st :=
  mkSt (threads s) (vms s) (classes s) (tpool s) (vpool s) (cpool s) (chain s) (scripts s) (elems s) (mtime s) (dirty s) (scaled s) (lastclk s) (startclk s) v (cur s) (depth s) (refs s) (gvars s) (nextid s) (nextscript s) (stack s) (out s) (tlog s) (vlog s) (clog s) (ub s) (oof s).
Definition set_cur (v : option N) (s : st) : st :=
  mkSt (threads s) (vms s) (classes s) (tpool s) (vpool s) (cpool s) (chain s) (scripts s) (elems s) (mtime s) (dirty s) (scaled s) (lastclk s) (startclk s) (clock s) v (depth s) (refs s) (gvars s) (nextid s) (nextscript s) (stack s) (out s) (tlog s) (vlog s) (clog s) (ub s) (oof s).
Definition set_depth (v : nat) (s : st) : st :=
  mkSt (threads s) (vms s) (classes s) (tpool s) (vpool s) (cpool s) (chain s) (scripts s) (elems s) (mtime s) (dirty s) (scaled s) (lastclk s) (startclk s) (clock s) (cur s) v (refs s) (gvars s) (nextid s) (nextscript s) (stack s) (out s) (tlog s) (vlog s) (clog s) (ub s) (oof s).
Definition set_refs (v : arr (option N)) (s : st) : st :=
  mkSt (threads s) (vms s) (classes s) (tpool s) (vpool s) (cpool s) (chain s) (scripts s) (elems s) (mtime s) (dirty s) (scaled s) (lastclk s) (startclk s) (clock s) (cur s) (depth s) v (gvars s) (nextid s) (nextscript s) (stack s) (out s) (tlog s) (vlog s) (clog s) (ub s) (oof s).
Definition set_gvars (v : arr N) (s : st) : st :=
  mkSt (threads s) (vms s) (classes s) (tpool s) (vpool s) (cpool s) (chain s) (scripts s) (elems s) (mtime s) (dirty s) (scaled s) (lastclk s) (startclk s) (clock s) (cur s) (depth s) (refs s) v (nextid s) (nextscript s) (stack s) (out s) (tlog s) (vlog s) (clog s) (ub s) (oof s).
Definition set_nextid (v : N) (s : st) : st :=
  mkSt (threads s) (vms s) (classes s) (tpool s) (vpool s) (cpool s) (chain s) (scripts s) (elems s) (mtime s) (dirty s) (scaled s) (lastclk s) (startclk s) (clock s) (cur s) (depth s) (refs s) (gvars s) v (nextscript s) (stack s) (out s) (tlog s) (vlog s) (clog s) (ub s) (oof s).
Definition set_nextscript (v : N) (s : st) : st :=
  mkSt (threads s) (vms s) (classes s) (tpool s) (vpool s) (cpool s) (chain s) (scripts s) (elems s) (mtime s) (dirty s) (scaled s) (lastclk s) (startclk s) (clock s) (cur s) (depth s) (refs s) (gvars s) (nextid s) v (stack s) (out s) (tlog s) (vlog s) (clog s) (ub s) (oof s).
Definition set_stack (v : list frame) (s : st) : st :=
  mkSt (threads s) (vms s) (classes s) (tpool s) (vpool s) (cpool s) (chain s) (scripts s) (elems s) (mtime s) (dirty s) (scaled s) (lastclk s) (startclk s) (clock s) (cur s) (depth s) (refs s) (gvars s) (nextid s) (nextscript s) v (out s) (tlog s) (vlog s) (clog s) (ub s) (oof s).
Definition set_out (v : list N) (s : st) : st :=
  mkSt (threads s) (vms s) (classes s) (tpool s) (vpool s) (cpool s) (chain s) (scripts s) (elems s) (mtime s) (dirty s) (scaled s) (lastclk s) (startclk s) (clock s) (cur s) (depth s) (refs s) (gvars s) (nextid s) (nextscript s) (stack s) v (tlog s) (vlog s) (clog s) (ub s) (oof s).
Definition set_tlog (v : list N) (s : st) : st :=
  mkSt (threads s) (vms s) (classes s) (tpool s) (vpool s) (cpool s) (chain s) (scripts s) (elems s) (mtime s) (dirty s) (scaled s) (lastclk s) (startclk s) (clock s) (cur s) (depth s) (refs s) (gvars s) (nextid s) (nextscript s) (stack s) (out s) v (vlog s) (clog s) (ub s) (oof s).
Definition set_vlog (v : list N) (s : st) : st :=
  mkSt (threads s) (vms s) (classes s) (tpool s) (vpool s) (cpool s) (chain s) (scripts s) (elems s) (mtime s) (dirty s) (scaled s) (lastclk s) (startclk s) (clock s) (cur s) (depth s) (refs s) (gvars s) (nextid s) (nextscript s) (stack s) (out s) (tlog s) v (clog s) (ub s) (oof s).
Definition set_clog (v : list N) (s : st) : st :=
  mkSt (threads s) (vms s) (classes s) (tpool s) (vpool s) (cpool s) (chain s) (scripts s) (elems s) (mtime s) (dirty s) (scaled s) (lastclk s) (startclk s) (clock s) (cur s) (depth s) (refs s) (gvars s) (nextid s) (nextscript s) (stack s) (out s) (tlog s) (vlog s) v (ub s) (oof s).
Definition set_ub (v : bool) (s : st) : st :=
  mkSt (threads s) (vms s) (classes s) (tpool s) (vpool s) (cpool s) (chain s) (scripts s) (elems s) (mtime s) (dirty s) (scaled s) (lastclk s) (startclk s) (clock s) (cur s) (depth s) (refs s) (gvars s) (nextid s) (nextscript s) (stack s) (out s) (tlog s) (vlog s) (clog s) v (oof s).
Definition set_oof (v : bool) (s : st) : st :=
  mkSt (threads s) (vms s) (classes s) (tpool s) (vpool s) (cpool s) (chain s) (scripts s) (elems s) (mtime s) (dirty s) (scaled s) (lastclk s) (startclk s) (clock s) (cur s) (depth s) (refs s) (gvars s) (nextid s) (nextscript s) (stack s) (out s) (tlog s) (vlog s) (clog s) (ub s) v.

Definition th (s : st) (t : N) : thread := get (threads s) t.
Definition vmof (s : st) (v : N) : vm := get (vms s) v.
Definition clsof (s : st) (c : N) : cls := get (classes s) c.

Definition set_tvm (t : N) (b : bool) (s : st) : st :=
  let r := th s t in set_threads (set (threads s) t (mkT b (t_state r) (t_waitfor r) (t_notify r))) s.
Definition set_tstate (t : N) (x : tstate) (s : st) : st :=
  let r := th s t in set_threads (set (threads s) t (mkT (t_vm r) x (t_waitfor r) (t_notify r))) s.
Definition set_waitfor (t : N) (w : option N) (s : st) : st :=
  let r := th s t in set_threads (set (threads s) t (mkT (t_vm r) (t_state r) w (t_notify r))) s.
Definition set_notify (t : N) (w : option N) (s : st) : st :=
  let r := th s t in set_threads (set (threads s) t (mkT (t_vm r) (t_state r) (t_waitfor r) w)) s.
Definition set_vclass (v : N) (c : option N) (s : st) : st :=
  let r := vmof s v in set_vms (set (vms s) v (mkV c (v_state r) (v_cont r))) s.
Definition set_vstate (v : N) (x : vstate) (s : st) : st :=
  let r := vmof s v in set_vms (set (vms s) v (mkV (v_class r) x (v_cont r))) s.
Definition set_vcont (v : N) (p : list instr) (s : st) : st :=
  let r := vmof s v in set_vms (set (vms s) v (mkV (v_class r) (v_state r) p)) s.
Definition set_cthreads (c : N) (l : list N) (s : st) : st :=
  let r := clsof s c in set_classes (set (classes s) c (mkC (c_script r) l)) s.

Definition flag_ub (s : st) : st := set_ub true s.
Definition flag_oof (s : st) : st := set_oof true s.

Fixpoint memb (x : N) (l : list N) : bool :=
  match l with [] => false | y :: r => (y =? x) || memb x r end.
Definition remove (x : N) (l : list N) : list N := filter (fun y => negb (y =? x)) l.

(* ---- con::timer (as in C06) ------------------------------------------------------------- *)
Definition add_timing (t d : N) (s : st) : st :=      (* ScriptMaster::AddTiming *)
  let tt := scaled s + d in
  let s1 := set_elems (elems s ++ [(t, tt)]) s in
  if tt <=? mtime s then set_dirty true s1 else s1.

Fixpoint remove_first_elem (t : N) (l : list (N * N)) : list (N * N) :=
  match l with
  | [] => []
  | e :: r => if fst e =? t then r else e :: remove_first_elem t r
  end.
(* timer::RemoveElement scans from the last element down and removes the first match *)
Definition remove_timing (t : N) (s : st) : st :=
  set_elems (rev (remove_first_elem t (rev (elems s)))) s.

Fixpoint scan (rl : list (N * N)) (i : nat) (best : N) (found : option nat) : option nat :=
  match rl with
  | [] => found
  | e :: rl' =>
      if snd e <=? best then scan rl' (pred i) (snd e) (Some i)
      else scan rl' (pred i) best found
  end.
Fixpoint remove_at (l : list (N * N)) (i : nat) : list (N * N) :=     (* i is 1-based *)
  match l, i with
  | [], _ => []
  | _ :: l', 1%nat => l'
  | x :: l', S j => x :: remove_at l' j
  | l, O => l
  end.
Definition get_next (s : st) : option (N * st) :=       (* timer::GetNextElement *)
  match scan (rev (elems s)) (length (elems s)) (mtime s) None with
  | Some i =>
      match nth_error (elems s) (pred i) with
      | Some e => Some (fst e, set_elems (remove_at (elems s) i) s)
      | None => None
      end
  | None => None
  end.

(* ---- ScriptThread ----------------------------------------------------------------------- *)
Definition stop (t : N) (s : st) : st :=               (* ScriptThread::Stop *)
  match t_state (th s t) with
  | TTiming => remove_timing t (set_tstate t TRunning s)
  | TWaiting =>
      match t_waitfor (th s t) with
      | None => set_tstate t TRunning s                (* CancelWaitingAll with no table *)
      | Some _ => flag_ub (set_tstate t TRunning s)    (* would cancel and delete the awaited thread: not in this alphabet *)
      end
  | TRunning => s
  end.
Definition start_timing (t d : N) (s : st) : st :=     (* ScriptThread::StartTiming *)
  add_timing t d (set_tstate t TTiming (stop t s)).
Definition suspend (v : N) (s : st) : st :=            (* ScriptVM::Suspend *)
  match v_state (vmof s v) with
  | VDestroyed => flag_ub s                            (* throws "Cannot suspend a dead thread" *)
  | VRunning => set_vstate v VSuspended s
  | _ => s
  end.
Definition stopped_wait_for (p : N) (s : st) : st :=   (* ScriptThread::StoppedWaitFor(0, false) *)
  if negb (t_vm (th s p)) then s
  else match t_state (th s p) with
       | TWaiting => start_timing p 0 s
       | _ => s
       end.

(* the pools' Free; the director's current thread is a SafePtr: it reads as null from now on *)
Definition free_thread (t : N) (s : st) : st :=
  let s1 := set_tlog (t :: tlog s) (set_tpool (remove t (tpool s)) s) in
  match cur s1 with
  | Some x => if x =? t then set_cur None s1 else s1
  | None => s1
  end.
Definition free_vm (v : N) (s : st) : st :=
  set_vlog (v :: vlog s) (set_vpool (remove v (vpool s)) s).
Definition free_class (c : N) (s : st) : st :=
  set_clog (c :: clog s) (set_cpool (remove c (cpool s)) s).

(* ~Listener: UnregisterAll = Unregister("") : the thread that waits for the end of t is
   detached (UnregisterTarget) and told StoppedWaitFor("", false).  t's own StoppedNotify is
   Listener's (t is being destroyed): nothing. *)
Definition unregister_all (t : N) (s : st) : st :=
  match t_notify (th s t) with
  | None => s
  | Some p =>
      if negb (memb p (tpool s)) then flag_ub s else
      let found := match t_waitfor (th s p) with Some x => x =? t | None => false end in
      let s1 := if found then set_waitfor p None s else s in
      let s2 := set_notify t None s1 in
      if found then stopped_wait_for p s2 else s2
  end.

(* ---- the destructors: delete thread / delete instance, mutually recursive ---------------- *)
Fixpoint delete_thread (f : nat) (t : N) (s : st) {struct f} : st :=
  match f with
  | O => flag_oof s
  | S f' =>
      if negb (memb t (tpool s)) then flag_ub s else
      let r := th s t in
      let s1 :=
        if t_vm r then                                   (* ~ScriptThread *)
          let s := set_tvm t false s in
          let s := match t_state r with
                   | TTiming => remove_timing t (set_tstate t TRunning s)
                   | TWaiting => cancel_waiting_all f' t (set_tstate t TRunning s)
                   | TRunning => s
                   end in
          notify_delete f' t s
        else s in
      let s2 := unregister_all t s1 in                   (* ~Listener *)
      let s3 := cancel_waiting_all f' t s2 in
      free_thread t s3
  end
with cancel_waiting_all (f : nat) (t : N) (s : st) {struct f} : st :=   (* Listener::CancelWaitingAll *)
  match f with
  | O => flag_oof s
  | S f' =>
      match t_waitfor (th s t) with
      | None => s
      | Some c =>
          if negb (memb c (tpool s)) then flag_ub s else
          (* CancelWaitingSources: c->UnregisterSource("", t) *)
          let found := match t_notify (th s c) with Some x => x =? t | None => false end in
          let s1 := if found then set_notify c None s else s in
          let s2 := set_waitfor t None s1 in
          (* t->StoppedWaitFor("", false): returns at once when t is being destroyed (no VM) or
             is not Waiting (every caller has set Running) *)
          let s3 := if t_vm (th s2 t) then match t_state (th s2 t) with TWaiting => flag_ub s2 | _ => s2 end else s2 in
          (* c->StoppedNotify(): ScriptThread::StoppedNotify deletes the thread *)
          if found && t_vm (th s3 c) then delete_thread f' c s3 else s3
      end
  end
with notify_delete (f : nat) (v : N) (s : st) {struct f} : st :=        (* ScriptVM::NotifyDelete *)
  match f with
  | O => flag_oof s
  | S f' =>
      if negb (memb v (vpool s)) then flag_ub s else
      match v_state (vmof s v) with
      | VDestroyed => flag_ub s                          (* throws out of a destructor *)
      | VRunning | VSuspended =>
          let s1 := set_vstate v VDestroyed s in
          match v_class (vmof s v) with
          | Some c => remove_thread f' c v s1
          | None => s1
          end
      | VIdling =>
          let s1 := set_vstate v VDestroyed s in
          let s2 := match v_class (vmof s v) with
                    | Some c => remove_thread f' c v s1
                    | None => s1
                    end in
          free_vm v s2                                   (* delete this *)
      end
  end
with remove_thread (f : nat) (c v : N) (s : st) {struct f} : st :=      (* ScriptClass::RemoveThread *)
  match f with
  | O => flag_oof s
  | S f' =>
      if negb (memb c (cpool s)) then flag_ub s else
      match c_threads (clsof s c) with
      | [] => flag_ub s
      | h :: r =>
          if h =? v then
            let s1 := set_cthreads c r s in
            match r with
            | [] => destroy_class f' c s1                (* delete this *)
            | _ => s1
            end
          else if memb v r then set_cthreads c (h :: remove v r) s
          else flag_ub s
      end
  end
with destroy_class (f : nat) (c : N) (s : st) {struct f} : st :=        (* ~ScriptClass, then the pool's Free *)
  match f with
  | O => flag_oof s
  | S f' =>
      if negb (memb c (cpool s)) then flag_ub s else
      let s1 := set_chain (remove c (chain s)) s in
      (* KillThreads: every VM of the chain is detached first (ClearScriptClass) and its thread
         remembered by a weak reference; m_Threads = NULL; then each remembered thread that
         still exists is deleted *)
      let l := c_threads (clsof s1 c) in
      let s2 := fold_left (fun a v => if memb v (vpool a) then set_vclass v None a else flag_ub a) l s1 in
      let s3 := set_cthreads c [] s2 in
      let s4 := (fix kill (l : list N) (a : st) {struct l} : st :=
                   match l with
                   | [] => a
                   | t :: r => kill r (if memb t (tpool a) then delete_thread f' t a else a)
                   end) l s3 in
      free_class c s4
  end.

Definition dfuel (s : st) : nat := (16 + 8 * (length (tpool s) + length (cpool s)))%nat.

(* ScriptThread::Stop in full: a thread that still waits for another one (waitthread) cancels the
   wait - the awaited thread is deleted (StoppedNotify).  [stop] above is the same function for
   every thread that waits for nobody. *)
Definition stop_full (t : N) (s : st) : st :=
  match t_state (th s t) with
  | TWaiting =>
      match t_waitfor (th s t) with
      | None => set_tstate t TRunning s
      | Some _ => cancel_waiting_all (dfuel s) t (set_tstate t TRunning s)
      end
  | _ => stop t s
  end.
(* ScriptThread::Wait / Pause applied to thread b by whoever executes the command *)
Definition wait_on (b d : N) (s : st) : st :=
  let s1 := stop_full b s in
  suspend b (add_timing b d (set_tstate b TTiming s1)).
Definition pause_on (b : N) (s : st) : st := suspend b (stop_full b s).
(* a level variable holds a SafePtr: it reads as NULL once the thread is destroyed (and as NIL when
   it was never set): the command is then a script error and nothing happens *)
Definition deref (k : N) (s : st) : option N :=
  match get (refs s) k with
  | Some x => if memb x (tpool s) then Some x else None
  | None => None
  end.

(* BlockAlloc::FreeAll on the instance pool *)
Fixpoint free_all (f : nat) (s : st) : st :=
  match f with
  | O => flag_oof s
  | S f' =>
      match cpool s with
      | [] => s
      | c :: _ => free_all f' (destroy_class (dfuel s) c s)
      end
  end.

(* ScriptMaster::ClearAll = Reset: all instances, then the variables of game, level and parm (they
   are named by entries of the dictionary that is reset), then all programs *)
Definition reset (s : st) : st :=
  set_scripts [] (set_refs (aempty None) (set_gvars (aempty 0) (free_all (S (length (cpool s))) s))).

(* ScriptMaster::DeleteProgramScript: the instances of the script are collected first (weak
   references, in the order of the director's chain), then each one that still exists is deleted *)
Definition delete_program_script (k : N) (s : st) : st :=
  let l := filter (fun c => c_script (clsof s c) =? k) (chain s) in
  fold_left (fun a c => if memb c (cpool a) then destroy_class (dfuel a) c a else a) l s.

(* GetProgramScript(name, stream, recompile = true) of an existing script *)
Definition recompile (k : N) (s : st) : st :=
  if memb k (scripts s) then
    let s1 := set_scripts (remove k (scripts s)) s in
    let s2 := delete_program_script k s1 in
    set_scripts (scripts s2 ++ [k]) s2
  else s.

(* ---- creation ---------------------------------------------------------------------------- *)
Definition new_class (k : N) (s : st) : N * st :=        (* new ScriptClass(script, self): front of the chain *)
  let id := nextid s in
  let s1 := set_nextid (id + 1) s in
  let s2 := set_classes (set (classes s1) id (mkC k [])) s1 in
  (id, set_chain (id :: chain s2) (set_cpool (cpool s2 ++ [id]) s2)).

Definition new_thread (c : N) (p : list instr) (s : st) : N * st :=   (* new ScriptThread(class, codePos) + its VM; AddThread *)
  let id := nextid s in
  let s1 := set_nextid (id + 1) s in
  let s2 := set_threads (set (threads s1) id (mkT true TRunning None None)) s1 in
  let s3 := set_vms (set (vms s2) id (mkV (Some c) VRunning p)) s2 in
  let s4 := set_tpool (tpool s3 ++ [id]) (set_vpool (vpool s3 ++ [id]) s3) in
  (id, set_cthreads c (id :: c_threads (clsof s4 c)) s4).

(* ScriptThread::ScriptExecuteInternal up to the call of ScriptVM::Execute (which sets Running);
   m_ExecutionDepth counts the thread executions in progress on the native stack *)
Definition enter (t : N) (p : list instr) (s : st) : st :=
  let saved := cur s in
  let s1 := set_cur (Some t) s in
  let s2 := stop t s1 in
  let s3 := set_depth (S (depth s2)) (set_vstate t VRunning s2) in      (* ++m_ExecutionDepth *)
  set_stack (FExec t p :: FSEI saved :: stack s3) s3.

(* ScriptMaster::ExecuteRunning: nothing while there is a current thread *)
Definition execute_running (s : st) : st :=
  match cur s with
  | Some _ => s
  | None => if dirty s then set_stack (FLoop :: stack s) s else s
  end.

(* ---- one step of the C++ call stack -------------------------------------------------------- *)
Definition pop (s : st) : st := set_stack (tl (stack s)) s.
Definition set_top (fr : frame) (s : st) : st := set_stack (fr :: tl (stack s)) s.

Definition current_script (s : st) : option N :=         (* CurrentThread()->GetScriptClass()->GetScript() *)
  match cur s with
  | None => None
  | Some ct => match v_class (vmof s ct) with
               | None => None
               | Some c0 => Some (c_script (clsof s c0))
               end
  end.

Definition exec_instr (t : N) (i : instr) (r : list instr) (s0 : st) : st :=
  let s := set_top (FExec t r) s0 in
  match i with
  | IPrint m => set_out (m :: out s) s
  | IWait d => suspend t (start_timing t d s)                         (* ScriptThread::Wait *)
  | IThread q =>
      (* ScriptThread::CreateThread -> its instance's CreateThread: a thread of the same instance *)
      match v_class (vmof s t) with
      | None => flag_ub s
      | Some c =>
          if negb (memb c (cpool s)) then flag_ub s else
          let '(id, s1) := new_thread c q s in enter id q s1
      end
  | IWaitThread q =>
      (* Listener::WaitCreateThread on the thread itself: a NEW instance of the current script;
         Register("", current thread); then run it *)
      match cur s, current_script s with
      | Some ct, Some k =>
          let '(c, s1) := new_class k s in
          let '(id, s2) := new_thread c q s1 in
          let s3 := set_notify id (Some ct) s2 in                      (* RegisterSource *)
          let s4 := match t_waitfor (th s3 ct) with                    (* RegisterTarget: first entry -> StartedWaitFor *)
                    | None => suspend ct (set_tstate ct TWaiting (stop ct s3))
                    | Some _ => flag_ub s3
                    end in
          let s5 := set_waitfor ct (Some id) s4 in
          enter id q s5
      | _, _ => flag_ub s
      end
  | IReset => reset s
  | IRecompile =>
      match current_script s with
      | Some k => recompile k s
      | None => flag_ub s
      end
  | IStore k => set_refs (set (refs s) k (Some t)) s
  | IPause => pause_on t s
  | IXWait k d => match deref k s with Some b => wait_on b d s | None => s end
  | IXWaitFrame k => match deref k s with Some b => wait_on b (clock s - startclk s) s | None => s end
  | IXPause k => match deref k s with Some b => pause_on b s | None => s end
  | IGSet v x => set_gvars (set (gvars s) v x) s
  | IGPrint v => set_out ((9100 + 10 * v + get (gvars s) v) :: out s) s
  | IWaitMissing =>
      (* ScriptMaster::CreateScriptThread(script, self, label): new ScriptClass; the label is not found:
         the handler deletes the thread-less instance again and rethrows (a script error: the caller
         carries on; Register was not reached) *)
      match current_script s with
      | Some k => let '(c, s1) := new_class k s in destroy_class (dfuel s1) c s1
      | None => flag_ub s
      end
  end.

Definition step (s : st) : st :=
  match stack s with
  | [] => s
  | FExec t p :: _ =>
      if negb (memb t (vpool s)) then flag_ub s else
      match v_state (vmof s t) with
      | VRunning =>
          match p with
          | [] => delete_thread (dfuel s) t s                          (* OP_DONE: End -> delete m_Thread *)
          | i :: r => exec_instr t i r s
          end
      | VSuspended => pop (set_vcont t p (set_vstate t VIdling s))     (* tail of Execute *)
      | VDestroyed => pop (free_vm t s)                                (* delete this *)
      | VIdling => pop s
      end
  | FSEI saved :: _ =>
      let c := match saved with
               | Some x => if memb x (tpool s) then Some x else None
               | None => None
               end in
      let s1 := pop (set_cur c (set_depth (pred (depth s)) s)) in      (* --m_ExecutionDepth; restore *)
      (* only the outermost execution runs the due threads *)
      match depth s1 with
      | O => execute_running s1
      | S _ => s1
      end
  | FLoop :: _ =>
      match get_next s with
      | None => pop (set_cur None (set_dirty false s))
      | Some (t, s1) =>
          if negb (memb t (tpool s1)) then flag_ub s1 else
          let s2 := set_tstate t TRunning (set_cur (Some t) s1) in     (* Resume *)
          if t_vm (th s2 t) then
            let s3 := set_depth (S (depth s2)) (set_vstate t VRunning s2) in   (* ++m_ExecutionDepth; Resume *)
            set_stack (FExec t (v_cont (vmof s3 t)) :: FDec :: stack s3) s3
          else flag_ub s2
      end
  | FDec :: _ => pop (set_depth (pred (depth s)) s)
  end.

Fixpoint run_stack (f : nat) (s : st) : st :=
  match stack s with
  | [] => s
  | _ :: _ =>
      if ub s || oof s then s else
      match f with
      | O => flag_oof s
      | S f' => run_stack f' (step s)
      end
  end.

(* ---- sizes (fuel of the step loop) ---------------------------------------------------------- *)
Fixpoint isize (i : instr) : nat :=
  match i with
  | IThread p | IWaitThread p =>
      S (S (S ((fix ps (l : list instr) : nat := match l with [] => O | x :: r => (isize x + ps r)%nat end) p)))
  | _ => 1%nat
  end.
Definition psize (p : list instr) : nat := fold_right (fun i a => (isize i + a)%nat) O p.
Definition fsize (fr : frame) : nat := match fr with FExec _ p => S (psize p) | _ => 1%nat end.
Definition weight (s : st) : nat :=
  (fold_right (fun fr a => fsize fr + a) O (stack s)
   + fold_right (fun v a => S (psize (v_cont (vmof s v))) + a) O (tpool s))%nat.
Definition sfuel (s : st) : nat := (16 + 8 * weight s)%nat.

(* ---- host operations and observations ------------------------------------------------------ *)
Inductive op :=
| OStart (p : list instr)     (* compile a fresh script and ExecuteThread it *)
| OAdvance (dt : N)
| OExecute                    (* ScriptContext::Execute() *)
| OReset                      (* director.Reset() between two frames *)
| ORecompile (k : N)          (* recompile script k between two frames *)
| OStartMissing (k : N)       (* ExecuteThread(script k, <a label that does not exist>): refused *)
| ODestroy.                   (* destruction of the context *)

Definition init (c : N) : st :=
  mkSt (aempty (mkT false TRunning None None)) (aempty (mkV None VDestroyed [])) (aempty (mkC 0 []))
       [] [] [] [] [] [] 0 false 0 c c c None O (aempty None) (aempty 0) 0 0 [] [] [] [] [] false false.

Definition host_step (s0 : st) (o : op) : st :=
  if ub s0 || oof s0 then s0 else      (* after an error the model says nothing any more *)
  let s := set_out [] s0 in
  match o with
  | OStart p =>
      let k := nextscript s in
      let s1 := set_scripts (scripts s ++ [k]) (set_nextscript (k + 1) s) in
      let '(c, s2) := new_class k s1 in
      let '(id, s3) := new_thread c p s2 in
      let s4 := enter id p s3 in
      run_stack (sfuel s4) s4
  | OAdvance dt => set_clock (clock s + dt) s
  | OExecute =>
      (* Frame(): scaled += clock - last; SetTime(GetTime()): m_time = clock - start, dirty *)
      let s1 := set_dirty true (set_mtime (clock s - startclk s)
                  (set_lastclk (clock s) (set_scaled (scaled s + (clock s - lastclk s)) s))) in
      let s2 := execute_running s1 in
      run_stack (sfuel s2) s2
  | OReset => reset s
  | ORecompile k => recompile k s
  | OStartMissing k =>
      if memb k (scripts s) then let '(c, s1) := new_class k s in destroy_class (dfuel s1) c s1 else s
  | ODestroy => reset s
  end.

Record obs := mkObs {
  prints : list N; idle : bool; ncls : nat; nthr : nat; nvm : nat; nscr : nat; ntmr : nat;   (* ntmr: timer elements *)
  err : nat }.    (* 0 = fine, 1 = ub, 2 = out of fuel *)

Definition observe (s : st) : obs :=
  mkObs (rev (out s))
        (match cpool s with [] => true | _ => false end)     (* IsIdle: no instance (and no queued event) *)
        (length (cpool s)) (length (tpool s)) (length (vpool s)) (length (scripts s))
        (length (elems s))
        (if ub s then 1 else if oof s then 2 else 0)%nat.

Fixpoint run_from (s : st) (ops : list op) : list obs :=
  match ops with
  | [] => []
  | o :: ops' => let s' := host_step s o in observe s' :: run_from s' ops'
  end.

Definition run (ops : list op) : list obs := run_from (init 1000) ops.
