(* C13/ProofsStep.v — every step of the model's C++ call stack that does not raise an error flag
   keeps the structural invariant; hence every state a history reaches without an error. *)
From Coq Require Import NArith List Bool Lia PeanoNat Wf_nat Permutation.
From Morfuse Require Import Base.Arr Base.ListX C13.Model C13.Spec C13.ProofsLib C13.ProofsAbs C13.ProofsInv C13.ProofsKill C13.ProofsEvo C13.ProofsReset.
Import ListNotations.
Local Open Scope N_scope.

(* ---- more elementary updates ------------------------------------------------------------------ *)
Lemma dinv_set_tstate_idle sc cl s t x :
  Dinv sc cl s -> t_waitfor (th s t) = None -> ~ In t (map fst (elems s)) -> Dinv sc cl (set_tstate t x s).
Proof.
  intros H Hw Hne. dinv H.
  assert (Hh : forall y, healthy (set_tstate t x s) y <-> healthy s y).
  { intro y. unfold healthy. rewrite th_set_tstate. change (tpool (set_tstate t x s)) with (tpool s).
    destruct (N.eqb_spec y t) as [->|_]; prj; tauto. }
  constructor; try assumption.
  - intros y Hy. apply Hh in Hy. exact (Hthr y Hy).
  - intros c y Hy. apply Hh in Hy. exact (Hclall c y Hy).
  - intros e He. change (elems (set_tstate t x s)) with (elems s) in He. destruct (Htm e He) as [Q1 Q2].
    split; [exact Q1|]. rewrite th_set_tstate. destruct (N.eqb_spec (fst e) t) as [E|_]; [|exact Q2].
    exfalso. apply Hne. rewrite <- E. now apply in_map.
  - intros p c Hp Hwp. apply Hh in Hp. rewrite th_set_tstate in Hwp.
    destruct (N.eqb_spec p t) as [->|Hpt]; prj; [congruence|].
    destruct (Hwf p c Hp Hwp) as (Q1 & Q2 & Q3 & Q4). rewrite !th_set_tstate.
    destruct (N.eqb_spec p t); [congruence|]. destruct (N.eqb_spec c t) as [->|_]; prj; tauto.
  - intros c p Hc Hn. change (tpool (set_tstate t x s)) with (tpool s) in *. rewrite th_set_tstate in Hn.
    assert (Hn' : t_notify (th s c) = Some p) by (destruct (N.eqb_spec c t) as [->|_]; exact Hn).
    destruct (Hnf c p Hc Hn') as [Q1 Q2]. split; [exact Q1|]. rewrite th_set_tstate.
    destruct (N.eqb_spec p t) as [->|_]; exact Q2.
Qed.

Lemma dinv_add_timing sc cl s t d :
  Dinv sc cl s -> In t (tpool s) -> t_state (th s t) = TTiming -> ~ In t (map fst (elems s)) ->
  Dinv sc cl (add_timing t d s).
Proof.
  intros H Hin Hs Hne. unfold add_timing.
  assert (Hd2 : Dinv sc cl (set_elems (elems s ++ [(t, scaled s + d)]) s)).
  { dinv H. constructor; ssh; try assumption.
    - rewrite map_app. cbn [map fst]. apply nodup_app_intro; [exact Htmnd|repeat constructor; auto|].
      intros x Hx [<-|[]]. exact (Hne Hx).
    - intros e He. apply in_app_or in He. destruct He as [He|[<-|[]]]; [now apply Htm|]. prj. split; assumption. }
  destruct (scaled s + d <=? mtime s); [|exact Hd2].
  dinv Hd2. constructor; ss; assumption.
Qed.

Lemma rm_elems_id t l : ~ In t (map fst l) -> rm_elems t l = l.
Proof.
  intro H. unfold rm_elems.
  assert (G : forall l', ~ In t (map fst l') -> remove_first_elem t l' = l').
  { induction l' as [|e l' IH]; cbn [remove_first_elem map In]; intro Hn; [reflexivity|].
    destruct (N.eqb_spec (fst e) t); [tauto|]. f_equal. apply IH. tauto. }
  rewrite G; [apply rev_involutive|]. rewrite map_rev, <- in_rev. exact H.
Qed.

(* ScriptThread::StartTiming of a whole thread that does not wait for anybody *)
Lemma dinv_start_timing sc cl s t d :
  Dinv sc cl s -> healthy s t -> t_waitfor (th s t) = None -> Dinv sc cl (start_timing t d s).
Proof.
  intros H Ht Hw. unfold start_timing, stop.
  assert (Hnot : t_state (th s t) <> TTiming -> ~ In t (map fst (elems s))).
  { intros Hs Hx. apply in_map_iff in Hx. destruct Hx as [e [E He]]. destruct (d_tm _ _ _ H e He) as [_ Q]. rewrite E in Q. congruence. }
  destruct (t_state (th s t)) eqn:Es.
  - assert (Hne : ~ In t (map fst (elems s))) by (apply Hnot; congruence).
    apply dinv_add_timing; [now apply dinv_set_tstate_idle|apply Ht|rewrite th_set_tstate, N.eqb_refl; reflexivity|exact Hne].
  - unfold remove_timing. fold (rm_elems t (elems (set_tstate t TRunning s))).
    change (elems (set_tstate t TRunning s)) with (elems s).
    assert (E : set_elems (rm_elems t (elems s)) (set_tstate t TRunning s) = set_tstate t TRunning (set_elems (rm_elems t (elems s)) s)) by reflexivity.
    rewrite E.
    pose proof (dinv_rm_elems_any sc cl s t H) as H1.
    assert (Hne : ~ In t (map fst (elems (set_elems (rm_elems t (elems s)) s)))) by (apply rm_elems_notin; exact (d_tmnd _ _ _ H)).
    pose proof (dinv_set_tstate_idle sc cl _ t TRunning H1 Hw Hne) as H2.
    assert (Hw2 : t_waitfor (th (set_tstate t TRunning (set_elems (rm_elems t (elems s)) s)) t) = None) by (rewrite th_set_tstate, N.eqb_refl; exact Hw).
    pose proof (dinv_set_tstate_idle sc cl _ t TTiming H2 Hw2 Hne) as H3.
    apply dinv_add_timing; [exact H3|apply Ht|rewrite th_set_tstate, N.eqb_refl; reflexivity|exact Hne].
  - rewrite Hw.
    assert (Hne : ~ In t (map fst (elems s))) by (apply Hnot; congruence).
    pose proof (dinv_set_tstate_idle sc cl s t TRunning H Hw Hne) as H2.
    assert (Hw2 : t_waitfor (th (set_tstate t TRunning s) t) = None) by (rewrite th_set_tstate, N.eqb_refl; exact Hw).
    pose proof (dinv_set_tstate_idle sc cl _ t TTiming H2 Hw2 Hne) as H3.
    apply dinv_add_timing; [exact H3|apply Ht|rewrite th_set_tstate, N.eqb_refl; reflexivity|exact Hne].
Qed.

(* updates of fields the invariants do not mention *)
Lemma dinv_ext sc cl s s' :
  threads s' = threads s -> vms s' = vms s -> classes s' = classes s -> tpool s' = tpool s -> vpool s' = vpool s ->
  cpool s' = cpool s -> chain s' = chain s -> elems s' = elems s -> (forall x, cur s' = Some x -> In x (tpool s)) ->
  Dinv sc cl s -> Dinv sc cl s'.
Proof.
  intros E1 E2 E3 E4 E5 E6 E7 E8 E9 H. dinv H.
  constructor; unfold healthy, th, vmof, clsof in *; rewrite ?E1, ?E2, ?E3, ?E4, ?E5, ?E6, ?E7, ?E8; assumption.
Qed.
Lemma clean_ext s s' :
  threads s' = threads s -> vms s' = vms s -> classes s' = classes s -> tpool s' = tpool s ->
  cpool s' = cpool s -> chain s' = chain s -> Clean s -> Clean s'.
Proof.
  intros E1 E2 E3 E4 E5 E6 [C1 C2 C3 C4].
  constructor; unfold allh, NE, th, vmof, clsof in *; rewrite ?E1, ?E2, ?E3, ?E4, ?E5, ?E6; assumption.
Qed.

(* the state of the VM of a pooled thread changes (never to Destroyed) *)
Lemma dinv_set_vstate sc cl s v x :
  Dinv sc cl s -> In v (tpool s) -> x <> VDestroyed -> Dinv sc cl (set_vstate v x s).
Proof.
  intros H Hin Hx. dinv H. constructor; ssh; try assumption.
  - intros y Hy. destruct (Hthr y Hy) as (Q1 & Q2 & Q3). rewrite !get_set. destruct (N.eqb_spec y v) as [->|_]; prj; tauto.
  - intros y c Hy. rewrite get_set. destruct (N.eqb_spec y v) as [->|_]; prj; now apply Hcl.
  - intros c y Hc Hy. rewrite get_set. destruct (N.eqb_spec y v) as [->|_]; prj; now apply Hclin.
  - intros c y Hy. rewrite get_set. destruct (N.eqb_spec y v) as [->|_]; prj; now apply Hclall.
  - intros y Hy. rewrite get_set. destruct (N.eqb_spec y v) as [->|_]; prj; [now left|now apply Hzomb].
Qed.
Lemma dinv_set_vcont sc cl s v p : Dinv sc cl s -> Dinv sc cl (set_vcont v p s).
Proof.
  intros H. dinv H. constructor; ssh; try assumption.
  - intros y Hy. destruct (Hthr y Hy) as (Q1 & Q2 & Q3). rewrite !get_set. destruct (N.eqb_spec y v) as [->|_]; prj; tauto.
  - intros y c Hy. rewrite get_set. destruct (N.eqb_spec y v) as [->|_]; prj; now apply Hcl.
  - intros c y Hc Hy. rewrite get_set. destruct (N.eqb_spec y v) as [->|_]; prj; now apply Hclin.
  - intros c y Hy. rewrite get_set. destruct (N.eqb_spec y v) as [->|_]; prj; now apply Hclall.
  - intros y Hy. rewrite get_set. destruct (N.eqb_spec y v) as [->|_]; prj; now apply Hzomb.
Qed.
Lemma clean_vm_upd s s' :
  threads s' = threads s -> classes s' = classes s -> tpool s' = tpool s -> cpool s' = cpool s -> chain s' = chain s ->
  (forall t, v_class (vmof s' t) = v_class (vmof s t)) -> Clean s -> Clean s'.
Proof.
  intros E1 E3 E4 E5 E6 Ev [C1 C2 C3 C4].
  constructor; unfold allh, NE, th, clsof in *; rewrite ?E1, ?E3, ?E4, ?E5, ?E6; try assumption.
  intros t Ht. rewrite Ev. now apply C2.
Qed.

(* ---- the bookkeeping the invariants need about the C++ stack ------------------------------------- *)
Fixpoint ftids (k : list frame) : list N :=
  match k with
  | [] => []
  | FExec t _ :: r => t :: ftids r
  | _ :: r => ftids r
  end.
Definition Fresh (s : st) : Prop :=
  forall x, In x (tpool s) \/ In x (vpool s) \/ In x (cpool s) -> x < nextid s.
(* a pooled thread whose VM is executing (not parked) has a frame; a VM without a thread has one *)
Definition Fr1 (s : st) : Prop := forall t, In t (tpool s) -> v_state (vmof s t) <> VIdling -> In t (ftids (stack s)).
Definition Fr2 (s : st) : Prop := forall v, In v (vpool s) -> ~ In v (tpool s) -> In v (ftids (stack s)).

Record Good (sc cl : N -> N) (s : st) : Prop := {
  g_inv : Dinv sc cl s;
  g_clean : Clean s;
  g_fresh : Fresh s;
  g_fr1 : Fr1 s;
  g_fr2 : Fr2 s;
  g_ub : ub s = false;
  g_oof : oof s = false }.

(* a destruction (of whatever extent) between two steps *)
Lemma good_evo sc cl P Q s s' :
  Good sc cl s -> Dinv sc cl s' -> allh s' -> Evo P Q s s' -> Good sc cl s'.
Proof.
  intros [G1 G2 G3 G4 G5 G6 G7] H' Ha E.
  pose proof (clean_evo _ _ s s' G2 E Ha) as C'.
  destruct E as [e1 e2 [e3 e3'] e4 e5 e6 e7 e8 e9 e10 e11 [e12 e12'] e13 e14 e15 e16 e17].
  destruct e13 as (Est & _ & _ & Eid & _).
  constructor; try assumption.
  - intros x Hx. rewrite Eid. apply G3. destruct Hx as [Hx|[Hx|Hx]]; [left; now apply e1|right; left; now apply e2|right; right; now apply e3].
  - intros t Ht Hs. rewrite Est. apply G4; [now apply e1|]. rewrite <- e7 by (now left). exact Hs.
  - intros v Hv Hn. rewrite Est. destruct (in_dec N.eq_dec v (tpool s)) as [Hi|Hi].
    + apply G4; [exact Hi|]. intro Hs. exact (e17 v Hi Hn Hs Hv).
    + apply G5; [now apply e2|exact Hi].
  - congruence.
  - congruence.
Qed.

Lemma good_ext sc cl s s' :
  threads s' = threads s -> vms s' = vms s -> classes s' = classes s -> tpool s' = tpool s -> vpool s' = vpool s ->
  cpool s' = cpool s -> chain s' = chain s -> elems s' = elems s -> (forall x, cur s' = Some x -> In x (tpool s)) -> nextid s' = nextid s ->
  ftids (stack s') = ftids (stack s) -> ub s' = ub s -> oof s' = oof s ->
  Good sc cl s -> Good sc cl s'.
Proof.
  intros E1 E2 E3 E4 E5 E6 E7 E8 E9 E10 E11 E12 E13 [G1 G2 G3 G4 G5 G6 G7].
  constructor.
  - eapply dinv_ext; eauto.
  - eapply clean_ext; eauto.
  - unfold Fresh. rewrite E4, E5, E6, E10. exact G3.
  - unfold Fr1, vmof. rewrite E4, E2, E11. exact G4.
  - unfold Fr2. rewrite E4, E5, E11. exact G5.
  - congruence.
  - congruence.
Qed.

Lemma ftids_set_top t p r k : ftids (FExec t r :: tl (FExec t p :: k)) = ftids (FExec t p :: k).
Proof. reflexivity. Qed.

(* ---- creation ------------------------------------------------------------------------------------- *)
Definition upd (f : N -> N) (id v : N) : N -> N := fun x => if x =? id then v else f x.

(* `thread label`: a state that differs from s by a new running thread id of instance c with a frame *)
Lemma good_spawn_spec sc cl s s' c q id k0 :
  Good sc cl s -> In c (cpool s) -> id = nextid s ->
  (forall x, th s' x = if x =? id then mkT true TRunning None None else th s x) ->
  (forall x, vmof s' x = if x =? id then mkV (Some c) VRunning q else vmof s x) ->
  (forall x, clsof s' x = if x =? c then mkC (c_script (clsof s c)) (id :: c_threads (clsof s c)) else clsof s x) ->
  tpool s' = tpool s ++ [id] -> vpool s' = vpool s ++ [id] -> cpool s' = cpool s -> chain s' = chain s ->
  elems s' = elems s -> cur s' = Some id -> nextid s' = id + 1 ->
  ftids (stack s') = id :: ftids (stack s) -> ub s' = ub s -> oof s' = oof s ->
  k0 = c_script (clsof s c) ->
  Good (upd sc id k0) (upd cl id c) s'.
Proof.
  intros [G1 G2 G3 G4 G5 G6 G7] Hc Hid Eth Evm Ecl Etp Evp Ecp Ech Eel Ecu Eni Eft Eub Eoo Ek.
  assert (Hfr : forall x, In x (tpool s) \/ In x (vpool s) \/ In x (cpool s) -> x <> id).
  { intros x Hx. pose proof (G3 x Hx). lia. }
  assert (Hidt : ~ In id (tpool s)) by (intro Hx; apply (Hfr id); auto).
  assert (Hidv : ~ In id (vpool s)) by (intro Hx; apply (Hfr id); auto).
  assert (Hcid : c <> id) by (apply Hfr; auto).
  assert (Hsc : forall x, x <> id -> upd sc id k0 x = sc x) by (intros x Hx; unfold upd; destruct (N.eqb_spec x id); [congruence|reflexivity]).
  assert (Hcl' : forall x, x <> id -> upd cl id c x = cl x) by (intros x Hx; unfold upd; destruct (N.eqb_spec x id); [congruence|reflexivity]).
  assert (Hh : forall x, healthy s' x <-> healthy s x \/ x = id).
  { intro x. unfold healthy. rewrite Etp, Eth, in_app_iff. cbn [In]. destruct (N.eqb_spec x id) as [->|Hne]; prj; [tauto|].
    split; [intros [[Hx|[Hx|[]]] Hv]; [tauto|congruence]|intros [[Hx Hv]|Hx]; [tauto|congruence]]. }
  pose proof G1 as G1'. dinv G1.
  constructor.
  - (* Dinv *)
    constructor; rewrite ?Etp, ?Evp, ?Ecp, ?Ech, ?Eel; try assumption.
    + apply nodup_app_intro; [exact Htp|repeat constructor; auto|]. intros x Hx [<-|[]]. exact (Hidt Hx).
    + apply nodup_app_intro; [exact Hvp|repeat constructor; auto|]. intros x Hx [<-|[]]. exact (Hidv Hx).
    + intros x Hx. apply Hh in Hx. rewrite Evm, in_app_iff. destruct (N.eqb_spec x id) as [->|Hne]; prj.
      * split; [right; now left|]. split; [discriminate|]. intros c' Hc'. injection Hc' as <-. split; [exact Hc|].
        rewrite Ecl, N.eqb_refl. prj. unfold upd. now rewrite N.eqb_refl.
      * destruct Hx as [Hx|Hx]; [|congruence]. destruct (Hthr x Hx) as (Q1 & Q2 & Q3). split; [now left|]. split; [exact Q2|].
        intros c' Hc'. destruct (Q3 c' Hc') as [Q4 Q5]. split; [exact Q4|]. rewrite Ecl, Hsc by exact Hne.
        destruct (N.eqb_spec c' c) as [->|_]; [exact Q5|exact Q5].
    + intros x c' Hx. rewrite Evm. apply in_app_or in Hx. destruct (N.eqb_spec x id) as [->|Hne]; prj.
      * intro E. injection E as <-. unfold upd. now rewrite N.eqb_refl.
      * destruct Hx as [Hx|[Hx|[]]]; [|congruence]. rewrite Hcl' by exact Hne. now apply Hcl.
    + intros c' Hc'. rewrite Ecl. destruct (N.eqb_spec c' c) as [->|_]; prj; [|now apply Hclnd].
      constructor; [|now apply Hclnd]. intro Hx. destruct (Hclin c id Hc Hx) as [Q _]. exact (Hidt Q).
    + intros c' x Hc'. rewrite Ecl, Evm, in_app_iff. destruct (N.eqb_spec c' c) as [->|Hne]; prj.
      * intros [<-|Hx]; [rewrite N.eqb_refl; split; [right; now left|reflexivity]|].
        destruct (Hclin c x Hc Hx) as [Q1 Q2]. destruct (N.eqb_spec x id) as [->|_]; [tauto|]. tauto.
      * intro Hx. destruct (Hclin c' x Hc' Hx) as [Q1 Q2]. destruct (N.eqb_spec x id) as [->|_]; [tauto|]. tauto.
    + intros c' x Hx. apply Hh in Hx. rewrite Evm, Ecl. destruct (N.eqb_spec x id) as [->|Hne]; prj.
      * intro E. injection E as <-. rewrite N.eqb_refl. now left.
      * destruct Hx as [Hx|Hx]; [|congruence]. intro Hc'. pose proof (Hclall c' x Hx Hc') as Q.
        destruct (N.eqb_spec c' c) as [->|_]; prj; [now right|exact Q].
    + intros c' Hc' Hn. rewrite Ecl. destruct (N.eqb_spec c' c) as [->|_]; prj; [|now apply Hdying].
      exfalso. apply Hn. now apply (cl_inch _ G2).
    + intros e He. destruct (Htm e He) as [Q1 Q2]. rewrite in_app_iff, Eth. split; [now left|].
      destruct (N.eqb_spec (fst e) id) as [E|_]; [rewrite E in Q1; tauto|exact Q2].
    + intros p c' Hp. apply Hh in Hp. rewrite Eth. destruct (N.eqb_spec p id) as [->|Hne]; prj; [discriminate|].
      destruct Hp as [Hp|Hp]; [|congruence]. intro Hw. destruct (Hwf p c' Hp Hw) as (Q1 & Q2 & Q3 & Q4 & Q5).
      assert (c' <> id) by (intros ->; tauto).
      rewrite in_app_iff, !Eth, !Hsc, !Hcl' by assumption. destruct (N.eqb_spec c' id); [congruence|]. destruct (N.eqb_spec p id); [congruence|]. tauto.
    + intros c' p Hc'. rewrite Eth. apply in_app_or in Hc'. destruct (N.eqb_spec c' id) as [->|Hne]; prj; [discriminate|].
      destruct Hc' as [Hc'|[Hc'|[]]]; [|congruence]. intro Hn. destruct (Hnf c' p Hc' Hn) as [Q1 Q2].
      assert (p <> id) by (intros ->; tauto). rewrite in_app_iff, Eth. destruct (N.eqb_spec p id); [congruence|]. tauto.
    + intros v Hv. apply in_app_or in Hv. rewrite in_app_iff, Evm. destruct Hv as [Hv|[<-|[]]].
      * destruct (N.eqb_spec v id) as [->|_]; [tauto|]. destruct (Hzomb v Hv); tauto.
      * left. right. now left.
    + intros x Hx. rewrite Ecu in Hx. injection Hx as <-. apply in_or_app. right. now left.
  - (* Clean *)
    destruct G2 as [C1 C2 C3 C4]. constructor.
    + intros x Hx. rewrite Etp in Hx. apply in_app_or in Hx. rewrite Eth. destruct (N.eqb_spec x id) as [->|Hne]; [reflexivity|].
      destruct Hx as [Hx|[Hx|[]]]; [now apply C1|congruence].
    + intros x Hx. rewrite Etp in Hx. apply in_app_or in Hx. rewrite Evm. destruct (N.eqb_spec x id) as [->|Hne]; prj; [discriminate|].
      destruct Hx as [Hx|[Hx|[]]]; [now apply C2|congruence].
    + intros c' Hc'. rewrite Ecp in Hc'. rewrite Ech. now apply C3.
    + intros c' Hc'. rewrite Ech in Hc'. rewrite Ecl. destruct (N.eqb_spec c' c); prj; [discriminate|now apply C4].
  - (* Fresh *)
    intros x Hx. rewrite Eni. rewrite Etp, Evp, Ecp, !in_app_iff in Hx. cbn [In] in Hx.
    assert (x = id \/ x < nextid s) by (destruct Hx as [[Hx|[Hx|[]]]|[[Hx|[Hx|[]]]|Hx]]; auto). lia.
  - (* Fr1 *)
    intros x Hx. rewrite Etp in Hx. apply in_app_or in Hx. rewrite Evm, Eft. destruct (N.eqb_spec x id) as [->|Hne]; [intros _; now left|].
    destruct Hx as [Hx|[Hx|[]]]; [|congruence]. intro Hs. right. now apply G4.
  - (* Fr2 *)
    intros v Hv Hn. rewrite Evp in Hv. rewrite Etp in Hn. rewrite Eft. apply in_app_or in Hv.
    destruct Hv as [Hv|[<-|[]]]; [|now left]. right. apply G5; [exact Hv|]. intro Hi. apply Hn. apply in_or_app. now left.
  - congruence.
  - congruence.
Qed.

(* `waitthread label`: a new instance c (script k) with a new running thread id; the caller ct
   waits for it (registered both ways) and is suspended *)
Lemma good_wspawn_spec sc cl s s' ct c0 c id q k vs :
  Good sc cl s -> healthy s ct -> t_waitfor (th s ct) = None -> v_class (vmof s ct) = Some c0 ->
  k = c_script (clsof s c0) -> c = nextid s -> id = c + 1 ->
  vs <> VDestroyed -> (v_state (vmof s ct) = VIdling -> vs = VIdling) ->
  (forall x, th s' x = if x =? id then mkT true TRunning None (Some ct)
                      else if x =? ct then mkT (t_vm (th s ct)) TWaiting (Some id) (t_notify (th s ct)) else th s x) ->
  (forall x, vmof s' x = if x =? id then mkV (Some c) VRunning q
                        else if x =? ct then mkV (v_class (vmof s ct)) vs (v_cont (vmof s ct)) else vmof s x) ->
  (forall x, clsof s' x = if x =? c then mkC k [id] else clsof s x) ->
  tpool s' = tpool s ++ [id] -> vpool s' = vpool s ++ [id] -> cpool s' = cpool s ++ [c] -> chain s' = c :: chain s ->
  NoDup (map fst (elems s')) -> incl (elems s') (elems s) -> ~ In ct (map fst (elems s')) ->
  cur s' = Some id -> nextid s' = id + 1 ->
  ftids (stack s') = id :: ftids (stack s) -> ub s' = ub s -> oof s' = oof s ->
  Good (upd sc id k) (upd cl id c) s'.
Proof.
  intros [G1 G2 G3 G4 G5 G6 G7] Hct Hwct Hc0 Ek Ec Eid Hvs Hvs' Eth Evm Ecl Etp Evp Ecp Ech Eelnd Eel Eelct Ecu Eni Eft Eub Eoo.
  assert (Hfr : forall x, In x (tpool s) \/ In x (vpool s) \/ In x (cpool s) -> x < c) by (intros x Hx; rewrite Ec; now apply G3).
  assert (Hidt : forall x, In x (tpool s) -> x <> id /\ x <> c) by (intros x Hx; pose proof (Hfr x (or_introl Hx)); lia).
  assert (Hidv : forall x, In x (vpool s) -> x <> id /\ x <> c) by (intros x Hx; pose proof (Hfr x (or_intror (or_introl Hx))); lia).
  assert (Hidc : forall x, In x (cpool s) -> x <> id /\ x <> c) by (intros x Hx; pose proof (Hfr x (or_intror (or_intror Hx))); lia).
  assert (Hsc : forall x, x <> id -> upd sc id k x = sc x) by (intros x Hx; unfold upd; destruct (N.eqb_spec x id); [congruence|reflexivity]).
  assert (Hcl' : forall x, x <> id -> upd cl id c x = cl x) by (intros x Hx; unfold upd; destruct (N.eqb_spec x id); [congruence|reflexivity]).
  assert (Hctin : In ct (tpool s)) by apply Hct.
  assert (Hctid : ct <> id) by (now apply Hidt).
  destruct (d_thr _ _ _ G1 ct Hct) as (Hctv & Hcts & Hctc). destruct (Hctc c0 Hc0) as [Hc0in Hc0s].
  assert (Ecl0 : c0 = cl ct) by (apply (d_cl _ _ _ G1 ct c0 Hctin Hc0)).
  assert (Eth1 : th s' id = mkT true TRunning None (Some ct)) by (rewrite Eth, N.eqb_refl; reflexivity).
  assert (Eth2 : th s' ct = mkT (t_vm (th s ct)) TWaiting (Some id) (t_notify (th s ct))).
  { rewrite Eth. destruct (N.eqb_spec ct id); [congruence|]. rewrite N.eqb_refl. reflexivity. }
  assert (Hh : forall x, healthy s' x <-> healthy s x \/ x = id).
  { intro x. unfold healthy. rewrite Etp, Eth, in_app_iff. cbn [In]. destruct (N.eqb_spec x id) as [->|Hne]; prj; [tauto|].
    destruct (N.eqb_spec x ct) as [->|Hne2]; prj.
    - destruct Hct. split; [tauto|]. intros [Q|Q]; [tauto|congruence].
    - split; [intros [[Hx|[Hx|[]]] Hv]; [tauto|congruence]|intros [[Hx Hv]|Hx]; [tauto|congruence]]. }
  pose proof G1 as G1'. dinv G1.
  constructor.
  - constructor; rewrite ?Etp, ?Evp, ?Ecp, ?Ech; try assumption.
    + apply nodup_app_intro; [exact Htp|repeat constructor; auto|]. intros x Hx [<-|[]]. destruct (Hidt _ Hx). congruence.
    + apply nodup_app_intro; [exact Hvp|repeat constructor; auto|]. intros x Hx [<-|[]]. destruct (Hidv _ Hx). congruence.
    + apply nodup_app_intro; [exact Hcp|repeat constructor; auto|]. intros x Hx [<-|[]]. destruct (Hidc _ Hx). congruence.
    + constructor; [|exact Hchnd]. intro Hx. apply Hchin in Hx. destruct (Hidc _ Hx). congruence.
    + intros x [<-|Hx]; apply in_or_app; [right; now left|left; now apply Hchin].
    + intros x Hx. apply Hh in Hx. rewrite Evm, !in_app_iff. destruct (N.eqb_spec x id) as [->|Hne]; prj.
      * split; [right; now left|]. split; [discriminate|]. intros c' Hc'. injection Hc' as <-. split; [apply in_or_app; right; now left|].
        rewrite Ecl, N.eqb_refl. prj. unfold upd. now rewrite N.eqb_refl.
      * destruct Hx as [Hx|Hx]; [|congruence]. destruct (Hthr x Hx) as (Q1 & Q2 & Q3).
        destruct (N.eqb_spec x ct) as [->|Hne2]; prj.
        -- split; [now left|]. split; [exact Hvs|]. intros c' Hc'. destruct (Q3 c' Hc') as [Q4 Q5]. split; [apply in_or_app; now left|].
           rewrite Ecl, Hsc by exact Hne. destruct (N.eqb_spec c' c) as [->|_]; [destruct (Hidc _ Q4); congruence|exact Q5].
        -- split; [now left|]. split; [exact Q2|]. intros c' Hc'. destruct (Q3 c' Hc') as [Q4 Q5]. split; [apply in_or_app; now left|].
           rewrite Ecl, Hsc by exact Hne. destruct (N.eqb_spec c' c) as [->|_]; [destruct (Hidc _ Q4); congruence|exact Q5].
    + intros x c' Hx. rewrite Evm. apply in_app_or in Hx. destruct (N.eqb_spec x id) as [->|Hne]; prj.
      * intro E. injection E as <-. unfold upd. now rewrite N.eqb_refl.
      * destruct Hx as [Hx|[Hx|[]]]; [|congruence]. rewrite Hcl' by exact Hne.
        destruct (N.eqb_spec x ct) as [->|_]; prj; now apply Hcl.
    + intros c' Hc'. apply in_app_or in Hc'. rewrite Ecl. destruct (N.eqb_spec c' c) as [->|Hne]; prj; [repeat constructor; auto|].
      destruct Hc' as [Hc'|[Hc'|[]]]; [now apply Hclnd|congruence].
    + intros c' x Hc'. apply in_app_or in Hc'. rewrite Ecl, Evm, in_app_iff. destruct (N.eqb_spec c' c) as [->|Hne]; prj.
      * intros [<-|[]]. rewrite N.eqb_refl. split; [right; now left|reflexivity].
      * destruct Hc' as [Hc'|[Hc'|[]]]; [|congruence]. intro Hx. destruct (Hclin c' x Hc' Hx) as [Q1 Q2].
        destruct (Hidt _ Q1). destruct (N.eqb_spec x id); [congruence|]. destruct (N.eqb_spec x ct) as [->|_]; prj; tauto.
    + intros c' x Hx. apply Hh in Hx. rewrite Evm, Ecl. destruct (N.eqb_spec x id) as [->|Hne]; prj.
      * intro E. injection E as <-. rewrite N.eqb_refl. now left.
      * destruct Hx as [Hx|Hx]; [|congruence].
        assert (Hq : v_class (vmof s x) = Some c' -> In x (c_threads (clsof s' c'))).
        { intro Hc'. pose proof (Hclall c' x Hx Hc') as Q. destruct (Hthr x Hx) as (_ & _ & Q3). destruct (Q3 c' Hc') as [Q4 _].
          rewrite Ecl. destruct (N.eqb_spec c' c) as [->|_]; [destruct (Hidc _ Q4); congruence|exact Q]. }
        rewrite <- Ecl. destruct (N.eqb_spec x ct) as [->|_]; prj; exact Hq.
    + intros c' Hc' Hn. apply in_app_or in Hc'. rewrite Ecl. destruct (N.eqb_spec c' c) as [->|Hne]; prj; [exfalso; apply Hn; now left|].
      destruct Hc' as [Hc'|[Hc'|[]]]; [|congruence]. exfalso. apply Hn. right. now apply (cl_inch _ G2).
    + intros e He. destruct (Htm e (Eel e He)) as [Q1 Q2]. rewrite in_app_iff, Eth. split; [now left|].
      destruct (Hidt _ Q1). destruct (N.eqb_spec (fst e) id) as [E|_]; [congruence|].
      destruct (N.eqb_spec (fst e) ct) as [E|_]; [|exact Q2]. exfalso. apply Eelct. rewrite <- E. now apply in_map.
    + intros p c' Hp Hw. apply Hh in Hp.
      destruct (N.eq_dec p id) as [->|Hne]; [rewrite Eth1 in Hw; discriminate|].
      destruct Hp as [Hp|Hp]; [|congruence].
      destruct (N.eq_dec p ct) as [->|Hne2].
      * rewrite Eth2 in Hw |- *. prj. injection Hw as <-. rewrite Eth1. prj.
        split; [apply in_or_app; right; now left|]. split; [reflexivity|]. split; [reflexivity|].
        unfold upd. rewrite N.eqb_refl. destruct (N.eqb_spec ct id); [congruence|]. split; [congruence|].
        rewrite <- Ecl0. apply Hfr. right. right. exact Hc0in.
      * assert (Ethp : th s' p = th s p).
        { rewrite Eth. destruct (N.eqb_spec p id); [congruence|]. destruct (N.eqb_spec p ct); [congruence|]. reflexivity. }
        rewrite Ethp in Hw |- *. destruct (Hwf p c' Hp Hw) as (Q1 & Q2 & Q3 & Q4 & Q5). destruct (Hidt _ Q1).
        assert (Ethc : t_notify (th s' c') = t_notify (th s c')).
        { rewrite Eth. destruct (N.eqb_spec c' id); [congruence|]. destruct (N.eqb_spec c' ct) as [->|_]; reflexivity. }
        rewrite Ethc, !Hsc, !Hcl' by assumption. split; [apply in_or_app; now left|]. tauto.
    + intros c' p Hc' Hn. apply in_app_or in Hc'.
      destruct (N.eq_dec c' id) as [->|Hne].
      * rewrite Eth1 in Hn. prj. injection Hn as <-. rewrite Eth2. prj. split; [apply in_or_app; now left|reflexivity].
      * destruct Hc' as [Hc'|[Hc'|[]]]; [|congruence].
        assert (En : t_notify (th s' c') = t_notify (th s c')).
        { rewrite Eth. destruct (N.eqb_spec c' id); [congruence|]. destruct (N.eqb_spec c' ct) as [->|_]; reflexivity. }
        rewrite En in Hn. destruct (Hnf c' p Hc' Hn) as [Q1 Q2]. destruct (Hidt _ Q1).
        split; [apply in_or_app; now left|].
        rewrite Eth. destruct (N.eqb_spec p id); [congruence|]. destruct (N.eqb_spec p ct) as [->|_]; [congruence|exact Q2].
    + intros v Hv. apply in_app_or in Hv. rewrite in_app_iff, Evm. destruct Hv as [Hv|[<-|[]]].
      * destruct (Hidv _ Hv). destruct (N.eqb_spec v id); [congruence|].
        destruct (N.eqb_spec v ct) as [->|_]; prj; [tauto|]. destruct (Hzomb v Hv); tauto.
      * left. right. now left.
    + intros x Hx. rewrite Ecu in Hx. injection Hx as <-. apply in_or_app. right. now left.
  - destruct G2 as [C1 C2 C3 C4]. constructor.
    + intros x Hx. rewrite Etp in Hx. apply in_app_or in Hx. rewrite Eth. destruct (N.eqb_spec x id) as [->|Hne]; [reflexivity|].
      destruct Hx as [Hx|[Hx|[]]]; [|congruence]. destruct (N.eqb_spec x ct) as [->|_]; prj; now apply C1.
    + intros x Hx. rewrite Etp in Hx. apply in_app_or in Hx. rewrite Evm. destruct (N.eqb_spec x id) as [->|Hne]; prj; [discriminate|].
      destruct Hx as [Hx|[Hx|[]]]; [|congruence]. destruct (N.eqb_spec x ct) as [->|_]; prj; now apply C2.
    + intros c' Hc'. rewrite Ecp in Hc'. rewrite Ech. apply in_app_or in Hc'. destruct Hc' as [Hc'|[<-|[]]]; [right; now apply C3|now left].
    + intros c' Hc'. rewrite Ech in Hc'. rewrite Ecl. destruct (N.eqb_spec c' c) as [->|Hne]; prj; [discriminate|].
      destruct Hc' as [Hc'|Hc']; [congruence|now apply C4].
  - intros x Hx. rewrite Eni. rewrite Etp, Evp, Ecp, !in_app_iff in Hx. cbn [In] in Hx.
    assert (x = id \/ x = c \/ x < c).
    { destruct Hx as [[Hx|[Hx|[]]]|[[Hx|[Hx|[]]]|[Hx|[Hx|[]]]]]; auto; right; right; apply Hfr; auto. }
    lia.
  - intros x Hx. rewrite Etp in Hx. apply in_app_or in Hx. rewrite Evm, Eft. destruct (N.eqb_spec x id) as [->|Hne]; [intros _; now left|].
    destruct Hx as [Hx|[Hx|[]]]; [|congruence]. destruct (N.eqb_spec x ct) as [->|_]; prj.
    + intro Hs. right. apply G4; [exact Hx|]. intro Hi. apply Hs. now apply Hvs'.
    + intro Hs. right. now apply G4.
  - intros v Hv Hn. rewrite Evp in Hv. rewrite Etp in Hn. rewrite Eft. apply in_app_or in Hv.
    destruct Hv as [Hv|[<-|[]]]; [|now left]. right. apply G5; [exact Hv|]. intro Hi. apply Hn. apply in_or_app. now left.
  - congruence.
  - congruence.
Qed.

(* ---- the steps ---------------------------------------------------------------------------------------- *)
Lemma dinv_free_vm' sc cl s t : Dinv sc cl s -> ~ healthy s t -> Dinv sc cl (free_vm t s).
Proof.
  intros H Hu. dinv H. constructor; ssh; try assumption.
  - now apply nodup_remove.
  - intros x Hx. destruct (Hthr x Hx) as (H1 & H2 & H3). split; [|tauto].
    apply in_remove. split; [exact H1|]. intros ->. apply Hu. exact Hx.
  - intros v Hv. apply in_remove in Hv. apply Hzomb. tauto.
Qed.

Lemma dinv_elems_sub sc cl s l :
  Dinv sc cl s -> NoDup (map fst l) -> incl l (elems s) -> Dinv sc cl (set_elems l s).
Proof. intros H Hnd Hi. dinv H. constructor; ssh; try assumption. intros e He. apply Htm. now apply Hi. Qed.

Lemma remove_at_split (l : list (N * N)) : forall i e, nth_error l (pred i) = Some e -> (1 <= i)%nat ->
  exists l1 l2, l = l1 ++ e :: l2 /\ remove_at l i = l1 ++ l2.
Proof.
  induction l as [|x l IH]; intros i e Hn Hi.
  - destruct (pred i); discriminate.
  - destruct i as [|[|j]]; [lia| |].
    + cbn in Hn. injection Hn as <-. exists [], l. split; reflexivity.
    + cbn [pred] in Hn. cbn [nth_error] in Hn. destruct (IH (S j) e Hn ltac:(lia)) as (l1 & l2 & E1 & E2).
      exists (x :: l1), l2. split; [cbn [app]; now rewrite E1|]. cbn [remove_at app]. now rewrite E2.
Qed.
Lemma scan_ge1 : forall rl i best found r, scan rl i best found = Some r ->
  (length rl = i)%nat -> (match found with Some j => (1 <= j)%nat | None => True end) -> (1 <= r)%nat.
Proof.
  induction rl as [|e rl IH]; intros i best found r Hs Hl Hf; cbn [scan] in Hs.
  - subst found. exact Hf.
  - cbn [length] in Hl. destruct (snd e <=? best).
    + apply (IH _ _ _ _ Hs); [lia|lia].
    + apply (IH _ _ _ _ Hs); [lia|exact Hf].
Qed.

Lemma get_next_some s t s1 :
  get_next s = Some (t, s1) -> NoDup (map fst (elems s)) ->
  exists l', s1 = set_elems l' s /\ incl l' (elems s) /\ NoDup (map fst l') /\ ~ In t (map fst l') /\ In t (map fst (elems s)).
Proof.
  unfold get_next. intros H Hnd.
  destruct (scan (rev (elems s)) (length (elems s)) (mtime s) None) as [i|] eqn:Es; [|discriminate].
  destruct (nth_error (elems s) (pred i)) as [e|] eqn:En; [|discriminate].
  injection H as <- <-.
  assert (Hi : (1 <= i)%nat) by (apply (scan_ge1 _ _ _ _ _ Es); [now rewrite rev_length|exact I]).
  destruct (remove_at_split (elems s) i e En Hi) as (l1 & l2 & E1 & E2).
  exists (remove_at (elems s) i). split; [reflexivity|]. rewrite E2, E1 in *. clear E1 E2.
  rewrite map_app in Hnd. cbn [map] in Hnd. split; [|split; [|split]].
  - intros x Hx. apply in_app_or in Hx. apply in_or_app. destruct Hx; [now left|right; now right].
  - rewrite map_app. eapply NoDup_remove_1. exact Hnd.
  - rewrite map_app. eapply NoDup_remove_2. exact Hnd.
  - rewrite map_app. cbn [map]. apply in_or_app. right. now left.
Qed.

Lemma running_is_pooled sc cl s t : Good sc cl s -> In t (vpool s) -> v_state (vmof s t) <> VDestroyed -> healthy s t.
Proof.
  intros G Hv Hs. destruct (d_zomb _ _ _ (g_inv _ _ _ G) t Hv) as [Hi|Hd]; [|congruence].
  split; [exact Hi|]. now apply (cl_allh _ (g_clean _ _ _ G)).
Qed.

(* tail of Execute: Suspended -> Idling, the frame is popped *)
Lemma good_pop_suspended sc cl s t p k :
  Good sc cl s -> stack s = FExec t p :: k -> In t (vpool s) -> v_state (vmof s t) = VSuspended ->
  Good sc cl (pop (set_vcont t p (set_vstate t VIdling s))).
Proof.
  intros G Est Hv Hs. pose proof (running_is_pooled sc cl s t G Hv ltac:(congruence)) as [Hin _].
  destruct G as [G1 G2 G3 G4 G5 G6 G7].
  set (s1 := set_vcont t p (set_vstate t VIdling s)).
  assert (Evm : forall x, vmof s1 x = if x =? t then mkV (v_class (vmof s t)) VIdling p else vmof s x).
  { intro x. unfold s1. rewrite vm_set_vcont, !vm_set_vstate, N.eqb_refl. destruct (N.eqb_spec x t); reflexivity. }
  assert (H1 : Dinv sc cl s1) by (apply dinv_set_vcont, dinv_set_vstate; [exact G1|exact Hin|discriminate]).
  constructor.
  - eapply dinv_ext; [..|exact H1]; try reflexivity. intros x Hx. now apply (d_cur _ _ _ G1).
  - apply (clean_vm_upd s); try reflexivity; [|exact G2]. intro x. change (vmof (pop s1) x) with (vmof s1 x). rewrite Evm.
    destruct (N.eqb_spec x t) as [->|_]; reflexivity.
  - exact G3.
  - intros x Hx. change (vmof (pop s1) x) with (vmof s1 x). rewrite Evm. unfold pop. prj. change (stack s1) with (stack s). rewrite Est. cbn [tl].
    destruct (N.eqb_spec x t) as [->|Hne]; prj; [congruence|]. intro Hs'. pose proof (G4 x Hx Hs') as Q. rewrite Est in Q. destruct Q; [congruence|assumption].
  - intros v Hv' Hn. unfold pop. prj. change (stack s1) with (stack s). rewrite Est. cbn [tl]. pose proof (G5 v Hv' Hn) as Q. rewrite Est in Q.
    destruct Q as [<-|Q]; [tauto|exact Q].
  - exact G6.
  - exact G7.
Qed.

(* tail of Execute: a destroyed VM frees itself *)
Lemma good_pop_destroyed sc cl s t p k :
  Good sc cl s -> stack s = FExec t p :: k -> v_state (vmof s t) = VDestroyed ->
  Good sc cl (pop (free_vm t s)).
Proof.
  intros [G1 G2 G3 G4 G5 G6 G7] Est Hs.
  assert (Hnh : ~ healthy s t) by (intro Hh; destruct (d_thr _ _ _ G1 t Hh) as (_ & Q & _); congruence).
  assert (Hnin : ~ In t (tpool s)) by (intro Hi; apply Hnh; split; [exact Hi|now apply (cl_allh _ G2)]).
  pose proof (dinv_free_vm' sc cl s t G1 Hnh) as H1.
  constructor.
  - eapply dinv_ext; [..|exact H1]; try reflexivity. intros x Hx. now apply (d_cur _ _ _ G1).
  - eapply clean_ext; [..|exact G2]; reflexivity.
  - intros x Hx. apply G3. destruct Hx as [Hx|[Hx|Hx]]; [now left| |now right; right]. right. left.
    unfold pop, free_vm in Hx. prj. apply in_remove in Hx. tauto.
  - intros x Hx Hs'. unfold pop. prj. rewrite Est. cbn [tl]. pose proof (G4 x Hx Hs') as Q. rewrite Est in Q.
    destruct Q as [<-|Q]; [tauto|exact Q].
  - intros v Hv Hn. unfold pop, free_vm in *. prj. rewrite Est. cbn [tl]. apply in_remove in Hv. destruct Hv as [Hv Hne].
    pose proof (G5 v Hv Hn) as Q. rewrite Est in Q. destruct Q as [E|Q]; [congruence|exact Q].
  - exact G6.
  - exact G7.
Qed.

Lemma good_pop_idle sc cl s t p k :
  Good sc cl s -> stack s = FExec t p :: k -> In t (vpool s) -> v_state (vmof s t) = VIdling -> Good sc cl (pop s).
Proof.
  intros G Est Hv Hs. pose proof (running_is_pooled sc cl s t G Hv ltac:(congruence)) as [Hin _].
  destruct G as [G1 G2 G3 G4 G5 G6 G7].
  constructor.
  - eapply dinv_ext; [..|exact G1]; try reflexivity. intros x Hx. now apply (d_cur _ _ _ G1).
  - eapply clean_ext; [..|exact G2]; reflexivity.
  - exact G3.
  - intros x Hx Hs'. unfold pop. prj. rewrite Est. cbn [tl]. pose proof (G4 x Hx Hs') as Q. rewrite Est in Q.
    destruct Q as [<-|Q]; [exfalso; apply Hs'; exact Hs|exact Q].
  - intros v Hv' Hn. unfold pop. prj. rewrite Est. cbn [tl]. pose proof (G5 v Hv' Hn) as Q. rewrite Est in Q.
    destruct Q as [<-|Q]; [tauto|exact Q].
  - exact G6.
  - exact G7.
Qed.

(* the epilogue of ScriptExecuteInternal *)
Lemma good_sei sc cl s saved k :
  Good sc cl s -> stack s = FSEI saved :: k ->
  Good sc cl (let s1 := pop (set_cur (match saved with Some x => if memb x (tpool s) then Some x else None | None => None end)
                                     (set_depth (pred (depth s)) s)) in
              match depth s1 with O => execute_running s1 | S _ => s1 end).
Proof.
  intros G Est.
  set (c := match saved with Some x => if memb x (tpool s) then Some x else None | None => None end).
  assert (Hc : forall x, c = Some x -> In x (tpool s)).
  { intros x Hx. unfold c in Hx. destruct saved as [y|]; [|discriminate]. destruct (memb_spec y (tpool s)); [|discriminate].
    injection Hx as <-. assumption. }
  assert (G' : Good sc cl (pop (set_cur c (set_depth (pred (depth s)) s)))).
  { eapply good_ext; [..|exact G]; try reflexivity; [exact Hc|]. unfold pop. prj. rewrite Est. reflexivity. }
  cbv zeta. destruct (depth (pop (set_cur c (set_depth (pred (depth s)) s)))); [|exact G'].
  unfold execute_running. destruct (cur (pop (set_cur c (set_depth (pred (depth s)) s)))); [exact G'|].
  destruct (dirty (pop (set_cur c (set_depth (pred (depth s)) s)))); [|exact G'].
  eapply good_ext; [..|exact G']; try reflexivity. intros x Hx. exact (d_cur _ _ _ (g_inv _ _ _ G') x Hx).
Qed.

Lemma good_dec sc cl s k : Good sc cl s -> stack s = FDec :: k -> Good sc cl (pop (set_depth (pred (depth s)) s)).
Proof.
  intros G Est. eapply good_ext; [..|exact G]; try reflexivity.
  - intros x Hx. exact (d_cur _ _ _ (g_inv _ _ _ G) x Hx).
  - unfold pop. prj. rewrite Est. reflexivity.
Qed.

(* the loop of ExecuteRunning *)
Lemma good_loop_none sc cl s k :
  Good sc cl s -> stack s = FLoop :: k -> Good sc cl (pop (set_cur None (set_dirty false s))).
Proof.
  intros G Est. eapply good_ext; [..|exact G]; try reflexivity; [discriminate|]. unfold pop. prj. rewrite Est. reflexivity.
Qed.

Lemma good_loop_some sc cl s k t s1 :
  Good sc cl s -> stack s = FLoop :: k -> get_next s = Some (t, s1) -> In t (tpool s1) ->
  Good sc cl (let s2 := set_tstate t TRunning (set_cur (Some t) s1) in
              let s3 := set_depth (S (depth s2)) (set_vstate t VRunning s2) in
              set_stack (FExec t (v_cont (vmof s3 t)) :: FDec :: stack s3) s3).
Proof.
  intros [G1 G2 G3 G4 G5 G6 G7] Est Hg Hin.
  destruct (get_next_some s t s1 Hg (d_tmnd _ _ _ G1)) as (l' & -> & Hi & Hnd & Hnt & Hte).
  change (tpool (set_elems l' s)) with (tpool s) in Hin.
  assert (Hh : healthy s t) by (split; [exact Hin|now apply (cl_allh _ G2)]).
  assert (Hw : t_waitfor (th s t) = None).
  { destruct (t_waitfor (th s t)) as [c|] eqn:Ew; [|reflexivity]. destruct (d_wf _ _ _ G1 t c Hh Ew) as (_ & _ & Q & _).
    apply in_map_iff in Hte. destruct Hte as [e [E He]]. destruct (d_tm _ _ _ G1 e He) as [_ Q2]. rewrite E in Q2. congruence. }
  pose proof (dinv_elems_sub sc cl s l' G1 Hnd Hi) as H1.
  assert (H2 : Dinv sc cl (set_cur (Some t) (set_elems l' s))).
  { eapply dinv_ext; [..|exact H1]; try reflexivity. intros x Hx. injection Hx as <-. exact Hin. }
  pose proof (dinv_set_tstate_idle sc cl _ t TRunning H2 Hw Hnt) as H3.
  assert (H4 : Dinv sc cl (set_vstate t VRunning (set_tstate t TRunning (set_cur (Some t) (set_elems l' s))))).
  { apply dinv_set_vstate; [exact H3|exact Hin|discriminate]. }
  cbv zeta. set (s3' := set_vstate t VRunning (set_tstate t TRunning (set_cur (Some t) (set_elems l' s)))) in *.
  set (s3 := set_depth (S (depth (set_tstate t TRunning (set_cur (Some t) (set_elems l' s))))) s3').
  assert (Evm : forall x, vmof s3 x = if x =? t then mkV (v_class (vmof s t)) VRunning (v_cont (vmof s t)) else vmof s x).
  { intro x. change (vmof s3 x) with (vmof s3' x). unfold s3'. rewrite vm_set_vstate. reflexivity. }
  assert (Eth : forall x, th s3 x = if x =? t then mkT (t_vm (th s t)) TRunning (t_waitfor (th s t)) (t_notify (th s t)) else th s x).
  { intro x. change (th s3 x) with (th (set_tstate t TRunning (set_cur (Some t) (set_elems l' s))) x). rewrite th_set_tstate. reflexivity. }
  assert (H5 : Dinv sc cl s3) by (eapply dinv_ext; [..|exact H4]; try reflexivity; intros x Hx; injection Hx as <-; exact Hin).
  constructor.
  - eapply dinv_ext; [..|exact H5]; try reflexivity. intros x Hx. injection Hx as <-. exact Hin.
  - destruct G2 as [C1 C2 C3 C4]. constructor.
    + intros x Hx. change (th (set_stack _ s3) x) with (th s3 x). rewrite Eth. destruct (N.eqb_spec x t) as [->|_]; prj; now apply C1.
    + intros x Hx. change (vmof (set_stack _ s3) x) with (vmof s3 x). rewrite Evm. destruct (N.eqb_spec x t) as [->|_]; prj; now apply C2.
    + exact C3.
    + exact C4.
  - exact G3.
  - intros x Hx. change (vmof (set_stack _ s3) x) with (vmof s3 x). rewrite Evm. prj. change (stack s3) with (stack s). cbn [ftids].
    destruct (N.eqb_spec x t) as [->|_]; [intros _; now left|]. intro Hs. right. now apply G4.
  - intros v Hv Hn. prj. change (stack s3) with (stack s). cbn [ftids]. right. now apply G5.
  - exact G6.
  - exact G7.
Qed.

Lemma good_set_top sc cl s t p r k :
  Good sc cl s -> stack s = FExec t p :: k -> Good sc cl (set_top (FExec t r) s).
Proof.
  intros G Est. eapply good_ext; [..|exact G]; try reflexivity.
  - intros x Hx. exact (d_cur _ _ _ (g_inv _ _ _ G) x Hx).
  - unfold set_top. prj. rewrite Est. reflexivity.
Qed.

(* OP_DONE: the running thread deletes itself *)
Lemma good_done sc cl s t :
  Good sc cl s -> healthy s t -> Good sc cl (delete_thread (dfuel s) t s).
Proof.
  intros G Ht. pose proof G as [G1 G2 G3 G4 G5 G6 G7].
  assert (Hf : (4 * hcount s + 4 <= dfuel s)%nat) by (pose proof (dfuel_enough s); lia).
  pose proof (delete_thread_ok sc cl (dfuel s) t s G1 Ht (anc_allh cl s t (cl_allh _ G2)) Hf) as D.
  eapply good_evo; [exact G|exact (p_inv _ _ _ _ _ D)|exact (allh_after_dt sc cl t s _ (cl_allh _ G2) D)|exact (dtpost_evo sc cl t s _ Ht D)].
Qed.

Lemma good_reset sc cl s : Good sc cl s -> Good sc cl (reset s).
Proof.
  intros G. pose proof G as [G1 G2 G3 G4 G5 G6 G7].
  destruct (reset_ok sc cl s G1 G2) as (R1 & R2 & _ & _ & _ & _ & _ & _ & _ & R3).
  destruct (free_all_ok sc cl (S (length (cpool s))) s G1 G2 ltac:(lia)) as (F1 & F2 & _ & _).
  assert (G' : Good sc cl (free_all (S (length (cpool s))) s)) by (eapply good_evo; [exact G|exact F1|exact (cl_allh _ F2)|exact R3]).
  unfold reset. eapply good_ext; [..|exact G']; try reflexivity. intros x Hx. exact (d_cur _ _ _ F1 x Hx).
Qed.

Lemma good_recompile sc cl s k : Good sc cl s -> Good sc cl (recompile k s).
Proof.
  intros G. unfold recompile. destruct (memb k (scripts s)); [|exact G]. cbv zeta.
  set (s1 := set_scripts (remove k (scripts s)) s).
  assert (G1 : Good sc cl s1).
  { eapply good_ext; [..|exact G]; try reflexivity. intros x Hx. exact (d_cur _ _ _ (g_inv _ _ _ G) x Hx). }
  rewrite delete_program_script_eq.
  set (l := filter (fun c => c_script (clsof s1 c) =? k) (chain s1)).
  assert (Hl : forall c, In c l -> c_script (clsof s1 c) = k).
  { intros c Hc. apply filter_In in Hc. destruct Hc as [_ Hc]. now apply N.eqb_eq in Hc. }
  destruct (dps_ok sc cl k s1 l s1 (g_inv _ _ _ G1) (g_clean _ _ _ G1) Hl (fun c => eq_refl)) as (R1 & R2 & R3 & _).
  assert (G2 : Good sc cl (dps_fold l s1)) by (eapply good_evo; [exact G1|exact R1|exact (cl_allh _ R2)|exact R3]).
  eapply good_ext; [..|exact G2]; try reflexivity. intros x Hx. exact (d_cur _ _ _ R1 x Hx).
Qed.

(* ---- wait ------------------------------------------------------------------------------------------------ *)
Lemma start_timing_frame t d s :
  vms (start_timing t d s) = vms s /\ classes (start_timing t d s) = classes s /\ tpool (start_timing t d s) = tpool s /\
  vpool (start_timing t d s) = vpool s /\ cpool (start_timing t d s) = cpool s /\ chain (start_timing t d s) = chain s /\
  cur (start_timing t d s) = cur s /\ nextid (start_timing t d s) = nextid s /\ stack (start_timing t d s) = stack s /\
  oof (start_timing t d s) = oof s /\
  (forall x, t_vm (th (start_timing t d s) x) = t_vm (th s x)) /\
  (ub (start_timing t d s) = ub s \/ (ub (start_timing t d s) = true /\ t_waitfor (th s t) <> None)).
Proof.
  unfold start_timing.
  set (s1 := set_tstate t TTiming (stop t s)).
  destruct (add_timing_fields t d s1) as (F1 & F2 & F3 & F4 & F5 & F6 & F7 & F8 & _ & F10 & F11 & F12).
  destruct F12 as (F13 & _ & _ & F14 & _).
  rewrite F2, F3, F4, F5, F6, F7, F8, F10, F11, F13, F14.
  assert (Q : vms (stop t s) = vms s /\ classes (stop t s) = classes s /\ tpool (stop t s) = tpool s /\
              vpool (stop t s) = vpool s /\ cpool (stop t s) = cpool s /\ chain (stop t s) = chain s /\
              cur (stop t s) = cur s /\ nextid (stop t s) = nextid s /\ stack (stop t s) = stack s /\ oof (stop t s) = oof s /\
              (forall x, t_vm (th (stop t s) x) = t_vm (th s x)) /\
              (ub (stop t s) = ub s \/ (ub (stop t s) = true /\ t_waitfor (th s t) <> None))).
  { unfold stop. destruct (t_state (th s t)).
    - repeat split; auto.
    - repeat split; auto. intro x. rewrite th_remove_timing, th_set_tstate. destruct (N.eqb_spec x t) as [->|_]; reflexivity.
    - destruct (t_waitfor (th s t)) eqn:Ew.
      + repeat split; try reflexivity.
        * intro x. change (th (flag_ub (set_tstate t TRunning s)) x) with (th (set_tstate t TRunning s) x). rewrite th_set_tstate.
          destruct (N.eqb_spec x t) as [->|_]; reflexivity.
        * right. split; [reflexivity|discriminate].
      + repeat split; auto. intro x. rewrite th_set_tstate. destruct (N.eqb_spec x t) as [->|_]; reflexivity. }
  destruct Q as (Q1 & Q2 & Q3 & Q4 & Q5 & Q6 & Q7 & Q8 & Q9 & Q10 & Q11 & Q12).
  unfold s1. prj. repeat (split; [assumption|]). split.
  - intro x. rewrite th_add_timing. unfold s1. rewrite th_set_tstate.
    destruct (N.eqb_spec x t) as [->|_]; prj; apply Q11.
  - exact Q12.
Qed.

Lemma good_set_vstate sc cl s t x :
  Good sc cl s -> In t (tpool s) -> In t (ftids (stack s)) -> x <> VDestroyed -> Good sc cl (set_vstate t x s).
Proof.
  intros [G1 G2 G3 G4 G5 G6 G7] Hin Hfr Hx.
  constructor.
  - now apply dinv_set_vstate.
  - apply (clean_vm_upd s); try reflexivity; [|exact G2]. intro y. rewrite vm_set_vstate. destruct (N.eqb_spec y t) as [->|_]; reflexivity.
  - exact G3.
  - intros y Hy. rewrite vm_set_vstate. change (stack (set_vstate t x s)) with (stack s).
    destruct (N.eqb_spec y t) as [->|_]; [intros _; exact Hfr|]. now apply G4.
  - exact G5.
  - exact G6.
  - exact G7.
Qed.

Lemma good_start_timing sc cl s t d :
  Good sc cl s -> healthy s t -> ub (start_timing t d s) = false -> Good sc cl (start_timing t d s).
Proof.
  intros G Ht Hub1. pose proof G as [G1 G2 G3 G4 G5 G6 G7].
  destruct (start_timing_frame t d s) as (E1 & E2 & E3 & E4 & E5 & E6 & E7 & E8 & E9 & E10 & E11 & E12).
  assert (Hw : t_waitfor (th s t) = None).
  { destruct E12 as [_|[Q _]]; [|congruence].
    destruct (t_waitfor (th s t)) as [c|] eqn:Ew; [|reflexivity]. exfalso.
    destruct (d_wf _ _ _ G1 t c Ht Ew) as (_ & _ & Hs & _).
    assert (Q : ub (start_timing t d s) = true); [|congruence].
    unfold start_timing, stop. rewrite Hs, Ew.
    destruct (add_timing_fields t d (set_tstate t TTiming (flag_ub (set_tstate t TRunning s)))) as (_ & _ & _ & _ & _ & _ & _ & _ & _ & F10 & _).
    rewrite F10. reflexivity. }
  pose proof (dinv_start_timing sc cl s t d G1 Ht Hw) as H1.
  set (s1 := start_timing t d s) in *.
  constructor.
  - exact H1.
  - destruct G2 as [C1 C2 C3 C4]. constructor.
    + intros x Hx. rewrite E11. apply C1. now rewrite <- E3.
    + intros x Hx. unfold vmof. rewrite E1. apply C2. now rewrite <- E3.
    + intros c Hc. rewrite E6. apply C3. now rewrite <- E5.
    + intros c Hc. unfold clsof. rewrite E2. apply C4. now rewrite <- E6.
  - unfold Fresh. rewrite E3, E4, E5, E8. exact G3.
  - unfold Fr1, vmof. rewrite E3, E1, E9. exact G4.
  - unfold Fr2. rewrite E3, E4, E9. exact G5.
  - exact Hub1.
  - congruence.
Qed.

Lemma good_wait sc cl s t d :
  Good sc cl s -> healthy s t -> In t (ftids (stack s)) -> ub (suspend t (start_timing t d s)) = false ->
  Good sc cl (suspend t (start_timing t d s)).
Proof.
  intros G Ht Hfr Hub.
  destruct (start_timing_frame t d s) as (E1 & _ & E3 & _ & _ & _ & _ & _ & E9 & _).
  assert (Hub1 : ub (start_timing t d s) = false).
  { unfold suspend in Hub. destruct (v_state (vmof (start_timing t d s) t)); try exact Hub. discriminate. }
  pose proof (good_start_timing sc cl s t d G Ht Hub1) as G1.
  unfold suspend in *. destruct (v_state (vmof (start_timing t d s) t)); try exact G1.
  - apply good_set_vstate; [exact G1|rewrite E3; apply Ht|rewrite E9; exact Hfr|discriminate].
  - discriminate.
Qed.

(* ---- thread / waitthread ------------------------------------------------------------------------------------ *)
Definition entered (t : N) (p : list instr) (s : st) : st :=
  set_stack (FExec t p :: FSEI (cur s) :: stack s) (set_depth (S (depth s)) (set_vstate t VRunning (set_cur (Some t) s))).
Lemma enter_eq t p s : t_state (th s t) = TRunning -> enter t p s = entered t p s.
Proof.
  intro H. unfold enter, entered, stop. change (th (set_cur (Some t) s) t) with (th s t). rewrite H. reflexivity.
Qed.
Lemma entered_fields t p s :
  (forall x, th (entered t p s) x = th s x) /\
  (forall x, vmof (entered t p s) x = if x =? t then mkV (v_class (vmof s t)) VRunning (v_cont (vmof s t)) else vmof s x) /\
  (forall x, clsof (entered t p s) x = clsof s x) /\
  tpool (entered t p s) = tpool s /\ vpool (entered t p s) = vpool s /\ cpool (entered t p s) = cpool s /\
  chain (entered t p s) = chain s /\ elems (entered t p s) = elems s /\ cur (entered t p s) = Some t /\
  nextid (entered t p s) = nextid s /\ ftids (stack (entered t p s)) = t :: ftids (stack s) /\
  ub (entered t p s) = ub s /\ oof (entered t p s) = oof s.
Proof.
  unfold entered. split; [reflexivity|]. split; [|repeat split; reflexivity].
  intro x. change (vmof (set_stack _ (set_depth _ ?a)) x) with (vmof a x). rewrite vm_set_vstate. reflexivity.
Qed.

Lemma new_thread_fields c q s :
  fst (new_thread c q s) = nextid s /\
  (forall x, th (snd (new_thread c q s)) x = if x =? nextid s then mkT true TRunning None None else th s x) /\
  (forall x, vmof (snd (new_thread c q s)) x = if x =? nextid s then mkV (Some c) VRunning q else vmof s x) /\
  (forall x, clsof (snd (new_thread c q s)) x =
             if x =? c then mkC (c_script (clsof s c)) (nextid s :: c_threads (clsof s c)) else clsof s x) /\
  tpool (snd (new_thread c q s)) = tpool s ++ [nextid s] /\ vpool (snd (new_thread c q s)) = vpool s ++ [nextid s] /\
  cpool (snd (new_thread c q s)) = cpool s /\ chain (snd (new_thread c q s)) = chain s /\
  elems (snd (new_thread c q s)) = elems s /\ cur (snd (new_thread c q s)) = cur s /\
  nextid (snd (new_thread c q s)) = nextid s + 1 /\ stack (snd (new_thread c q s)) = stack s /\
  ub (snd (new_thread c q s)) = ub s /\ oof (snd (new_thread c q s)) = oof s.
Proof.
  unfold new_thread. cbn [fst snd]. split; [reflexivity|]. split; [|split; [|split]].
  - intro x. unfold th. prj. apply get_set.
  - intro x. unfold vmof. prj. apply get_set.
  - intro x. rewrite cls_set_cthreads. reflexivity.
  - repeat split; reflexivity.
Qed.

Lemma good_thread sc cl s c q :
  Good sc cl s -> In c (cpool s) ->
  exists sc' cl', Good sc' cl' (enter (fst (new_thread c q s)) q (snd (new_thread c q s))).
Proof.
  intros G Hc.
  destruct (new_thread_fields c q s) as (E0 & Eth & Evm & Ecl & Etp & Evp & Ecp & Ech & Eel & Ecu & Eni & Est & Eub & Eoo).
  rewrite E0. set (id := nextid s) in *. set (s1 := snd (new_thread c q s)) in *.
  assert (Hrun : t_state (th s1 id) = TRunning) by (rewrite Eth, N.eqb_refl; reflexivity).
  rewrite (enter_eq id q s1 Hrun).
  destruct (entered_fields id q s1) as (K1 & K2 & K3 & K4 & K5 & K6 & K7 & K8 & K9 & K10 & K11 & K12 & K13).
  exists (upd sc id (c_script (clsof s c))), (upd cl id c).
  apply (good_spawn_spec sc cl s _ c q id (c_script (clsof s c)) G Hc eq_refl).
  - intro x. rewrite K1. apply Eth.
  - intro x. rewrite K2, !Evm, N.eqb_refl. destruct (N.eqb_spec x id); reflexivity.
  - intro x. rewrite K3. apply Ecl.
  - now rewrite K4.
  - now rewrite K5.
  - now rewrite K6.
  - now rewrite K7.
  - now rewrite K8.
  - exact K9.
  - now rewrite K10.
  - now rewrite K11, Est.
  - now rewrite K12.
  - now rewrite K13.
  - reflexivity.
Qed.

Lemma stop_fields ct s :
  t_waitfor (th s ct) = None ->
  vms (stop ct s) = vms s /\ classes (stop ct s) = classes s /\ tpool (stop ct s) = tpool s /\ vpool (stop ct s) = vpool s /\
  cpool (stop ct s) = cpool s /\ chain (stop ct s) = chain s /\ cur (stop ct s) = cur s /\ nextid (stop ct s) = nextid s /\
  stack (stop ct s) = stack s /\ ub (stop ct s) = ub s /\ oof (stop ct s) = oof s /\
  elems (stop ct s) = (match t_state (th s ct) with TTiming => rm_elems ct (elems s) | _ => elems s end) /\
  (forall st x, th (set_tstate ct st (stop ct s)) x =
                if x =? ct then mkT (t_vm (th s ct)) st None (t_notify (th s ct)) else th s x).
Proof.
  intro Hw. unfold stop. destruct (t_state (th s ct)).
  - repeat (split; [reflexivity|]). intros st x. rewrite th_set_tstate, Hw. reflexivity.
  - repeat (split; [reflexivity|]). intros st x. rewrite th_set_tstate, !th_remove_timing, !th_set_tstate, N.eqb_refl. prj. rewrite Hw.
    destruct (N.eqb_spec x ct); reflexivity.
  - rewrite Hw. repeat (split; [reflexivity|]). intros st x. rewrite !th_set_tstate, N.eqb_refl. prj. rewrite Hw.
    destruct (N.eqb_spec x ct); reflexivity.
Qed.

Lemma good_wthread sc cl s ct c0 q :
  Good sc cl s -> cur s = Some ct -> v_class (vmof s ct) = Some c0 ->
  let k := c_script (clsof s c0) in
  let s1 := snd (new_class k s) in let c := fst (new_class k s) in
  let s2 := snd (new_thread c q s1) in let id := fst (new_thread c q s1) in
  let s3 := set_notify id (Some ct) s2 in
  let s4 := match t_waitfor (th s3 ct) with
            | None => suspend ct (set_tstate ct TWaiting (stop ct s3))
            | Some _ => flag_ub s3
            end in
  let s5 := set_waitfor ct (Some id) s4 in
  ub (enter id q s5) = false ->
  exists sc' cl', Good sc' cl' (enter id q s5).
Proof.
  intros G Hcur Hc0. cbv zeta.
  pose proof G as [G1 G2 G3 G4 G5 G6 G7].
  assert (Hctin : In ct (tpool s)) by (apply (d_cur _ _ _ G1); exact Hcur).
  assert (Hct : healthy s ct) by (split; [exact Hctin|now apply (cl_allh _ G2)]).
  set (k := c_script (clsof s c0)).
  set (c := nextid s). set (id := c + 1).
  change (fst (new_class k s)) with c.
  set (s1 := snd (new_class k s)).
  destruct (new_thread_fields c q s1) as (E0 & Eth2 & Evm2 & Ecl2 & Etp2 & Evp2 & Ecp2 & Ech2 & Eel2 & Ecu2 & Eni2 & Est2 & Eub2 & Eoo2).
  change (nextid s1) with id in *. rewrite E0.
  set (s2 := snd (new_thread c q s1)) in *.
  assert (Hctc : ct <> id /\ ct <> c) by (pose proof (G3 ct (or_introl Hctin)); unfold id, c; lia).
  destruct Hctc as [Hctid Hctc].
  set (s3 := set_notify id (Some ct) s2).
  assert (Eth3 : forall x, th s3 x = if x =? id then mkT true TRunning None (Some ct) else th s x).
  { intro x. unfold s3. rewrite th_set_notify, !Eth2, N.eqb_refl. destruct (N.eqb_spec x id); reflexivity. }
  assert (Hw3 : t_waitfor (th s3 ct) = t_waitfor (th s ct)) by (rewrite Eth3; destruct (N.eqb_spec ct id); [congruence|reflexivity]).
  rewrite Hw3.
  destruct (t_waitfor (th s ct)) eqn:Hw.
  { (* a second wait-for entry: the model raises ub *)
    intro Hub. exfalso. unfold enter in Hub.
    assert (Q : forall a, ub a = true -> ub (stop id a) = true).
    { intros a Ha. unfold stop. destruct (t_state (th a id)); [exact Ha|exact Ha|destruct (t_waitfor (th a id)); [reflexivity|exact Ha]]. }
    prj. rewrite Q in Hub; [discriminate|reflexivity]. }
  assert (Hw3' : t_waitfor (th s3 ct) = None) by (rewrite Hw3; reflexivity).
  destruct (stop_fields ct s3 Hw3') as (F1 & F2 & F3 & F4 & F5 & F6 & F7 & F8 & F9 & F10 & F11 & F12 & F13).
  set (s3b := set_tstate ct TWaiting (stop ct s3)).
  assert (Eth3b : forall x, th s3b x = if x =? id then mkT true TRunning None (Some ct)
                            else if x =? ct then mkT (t_vm (th s ct)) TWaiting None (t_notify (th s ct)) else th s x).
  { intro x. unfold s3b. rewrite F13, !Eth3. destruct (N.eqb_spec ct id); [congruence|].
    destruct (N.eqb_spec x ct) as [->|Hne]; [destruct (N.eqb_spec ct id); [congruence|reflexivity]|reflexivity]. }
  assert (Evm3b : forall x, vmof s3b x = if x =? id then mkV (Some c) VRunning q else vmof s x).
  { intro x. unfold vmof. change (vms s3b) with (vms (stop ct s3)). rewrite F1. change (vms s3) with (vms s2). fold (vmof s2 x). rewrite Evm2. reflexivity. }
  intro Hub.
  (* suspend *)
  assert (HS : exists vs s4, suspend ct s3b = s4 /\ vs <> VDestroyed /\ (v_state (vmof s ct) = VIdling -> vs = VIdling) /\
             threads s4 = threads s3b /\ classes s4 = classes s3b /\ tpool s4 = tpool s3b /\ vpool s4 = vpool s3b /\
             cpool s4 = cpool s3b /\ chain s4 = chain s3b /\ elems s4 = elems s3b /\ nextid s4 = nextid s3b /\ stack s4 = stack s3b /\
             cur s4 = cur s3b /\ ub s4 = ub s3b /\ oof s4 = oof s3b /\
             (forall x, vmof s4 x = if x =? id then mkV (Some c) VRunning q
                                   else if x =? ct then mkV (v_class (vmof s ct)) vs (v_cont (vmof s ct)) else vmof s x)).
  { unfold suspend. rewrite Evm3b. destruct (N.eqb_spec ct id); [congruence|].
    destruct (v_state (vmof s ct)) eqn:Es.
    - exists VSuspended, (set_vstate ct VSuspended s3b). split; [reflexivity|]. split; [discriminate|]. split; [discriminate|].
      repeat (split; [reflexivity|]). intro x. rewrite vm_set_vstate, !Evm3b. destruct (N.eqb_spec ct id); [congruence|].
      destruct (N.eqb_spec x ct) as [->|_]; [destruct (N.eqb_spec ct id); [congruence|reflexivity]|reflexivity].
    - exists VSuspended, s3b. split; [reflexivity|]. split; [discriminate|]. split; [discriminate|].
      repeat (split; [reflexivity|]). intro x. rewrite Evm3b. destruct (N.eqb_spec x id); [reflexivity|].
      destruct (N.eqb_spec x ct) as [->|_]; [|reflexivity]. rewrite <- Es. now destruct (vmof s ct).
    - exists VIdling, s3b. split; [reflexivity|]. split; [discriminate|]. split; [reflexivity|].
      repeat (split; [reflexivity|]). intro x. rewrite Evm3b. destruct (N.eqb_spec x id); [reflexivity|].
      destruct (N.eqb_spec x ct) as [->|_]; [|reflexivity]. rewrite <- Es. now destruct (vmof s ct).
    - exfalso. destruct (d_thr _ _ _ G1 ct Hct) as (_ & Q & _). congruence. }
  destruct HS as (vs & s4 & ES & Hvs & Hvs' & K1 & K2 & K3 & K4 & K5 & K6 & K7 & K8 & K9 & K10 & K11 & K12 & K13).
  rewrite ES in *. clear ES.
  set (s5 := set_waitfor ct (Some id) s4) in *.
  assert (Eth5 : forall x, th s5 x = if x =? id then mkT true TRunning None (Some ct)
                           else if x =? ct then mkT (t_vm (th s ct)) TWaiting (Some id) (t_notify (th s ct)) else th s x).
  { intro x. unfold s5. rewrite th_set_waitfor. unfold th at 1 2 3 4. rewrite K1. fold (th s3b ct) (th s3b x). rewrite !Eth3b.
    destruct (N.eqb_spec ct id); [congruence|]. rewrite N.eqb_refl. prj.
    destruct (N.eqb_spec x ct) as [->|Hne]; [destruct (N.eqb_spec ct id); [congruence|reflexivity]|reflexivity]. }
  assert (Hrun : t_state (th s5 id) = TRunning) by (rewrite Eth5, N.eqb_refl; reflexivity).
  rewrite (enter_eq id q s5 Hrun) in *.
  destruct (entered_fields id q s5) as (J1 & J2 & J3 & J4 & J5 & J6 & J7 & J8 & J9 & J10 & J11 & J12 & J13).
  assert (Evm5 : forall x, vmof s5 x = vmof s4 x) by reflexivity.
  assert (Ecl4 : forall x, clsof s4 x = if x =? c then mkC k [id] else clsof s x).
  { intro x. unfold clsof. rewrite K2. change (classes s3b) with (classes (stop ct s3)). rewrite F2. change (classes s3) with (classes s2).
    fold (clsof s2 x). rewrite Ecl2. unfold s1, new_class, clsof. prj. rewrite gss. prj.
    destruct (N.eqb_spec x c) as [->|Hne]; [reflexivity|]. rewrite gso by exact Hne. reflexivity. }
  assert (Eel4 : elems s4 = match t_state (th s ct) with TTiming => rm_elems ct (elems s) | _ => elems s end).
  { rewrite K7. change (elems s3b) with (elems (stop ct s3)). rewrite F12. change (elems s3) with (elems s2). rewrite Eel2. change (elems s1) with (elems s).
    assert (Est3 : t_state (th s3 ct) = t_state (th s ct)) by (rewrite Eth3; destruct (N.eqb_spec ct id); [congruence|reflexivity]).
    now rewrite Est3. }
  exists (upd sc id k), (upd cl id c).
  apply (good_wspawn_spec sc cl s _ ct c0 c id q k vs G Hct Hw Hc0 eq_refl eq_refl eq_refl Hvs Hvs').
  - intro x. rewrite J1. apply Eth5.
  - intro x. rewrite J2, !Evm5, !K13, N.eqb_refl. destruct (N.eqb_spec x id); reflexivity.
  - intro x. rewrite J3. change (clsof s5 x) with (clsof s4 x). apply Ecl4.
  - rewrite J4. change (tpool s5) with (tpool s4). rewrite K3. change (tpool s3b) with (tpool (stop ct s3)). rewrite F3. exact Etp2.
  - rewrite J5. change (vpool s5) with (vpool s4). rewrite K4. change (vpool s3b) with (vpool (stop ct s3)). rewrite F4. exact Evp2.
  - rewrite J6. change (cpool s5) with (cpool s4). rewrite K5. change (cpool s3b) with (cpool (stop ct s3)). rewrite F5.
    change (cpool s3) with (cpool s2). rewrite Ecp2. reflexivity.
  - rewrite J7. change (chain s5) with (chain s4). rewrite K6. change (chain s3b) with (chain (stop ct s3)). rewrite F6.
    change (chain s3) with (chain s2). rewrite Ech2. reflexivity.
  - rewrite J8. change (elems s5) with (elems s4). rewrite Eel4.
    destruct (t_state (th s ct)); try exact (d_tmnd _ _ _ G1). apply nodup_rm_elems. exact (d_tmnd _ _ _ G1).
  - rewrite J8. change (elems s5) with (elems s4). rewrite Eel4.
    destruct (t_state (th s ct)); try apply incl_refl. intros e He. eapply in_rm_elems; eauto.
  - rewrite J8. change (elems s5) with (elems s4). rewrite Eel4.
    assert (Hnt : t_state (th s ct) <> TTiming -> ~ In ct (map fst (elems s))).
    { intros Hs Hx. apply in_map_iff in Hx. destruct Hx as [e [E He]]. destruct (d_tm _ _ _ G1 e He) as [_ Q]. rewrite E in Q. congruence. }
    destruct (t_state (th s ct)); [apply Hnt; discriminate|apply rm_elems_notin; exact (d_tmnd _ _ _ G1)|apply Hnt; discriminate].
  - exact J9.
  - rewrite J10. change (nextid s5) with (nextid s4). rewrite K8. change (nextid s3b) with (nextid (stop ct s3)). rewrite F8. exact Eni2.
  - rewrite J11. change (stack s5) with (stack s4). rewrite K9. change (stack s3b) with (stack (stop ct s3)). rewrite F9.
    change (stack s3) with (stack s2). rewrite Est2. reflexivity.
  - rewrite J12. change (ub s5) with (ub s4). rewrite K11. change (ub s3b) with (ub (stop ct s3)). rewrite F10.
    change (ub s3) with (ub s2). rewrite Eub2. reflexivity.
  - rewrite J13. change (oof s5) with (oof s4). rewrite K12. change (oof s3b) with (oof (stop ct s3)). rewrite F11.
    change (oof s3) with (oof s2). rewrite Eoo2. reflexivity.
Qed.

(* ---- timing commands applied to another thread --------------------------------------------------------------- *)
(* Stop of a whole thread b that waits for c: the wait is cancelled in both tables *)
Lemma dinv_cancel_healthy sc cl s b c :
  Dinv sc cl s -> healthy s b -> t_state (th s b) = TWaiting -> t_waitfor (th s b) = Some c ->
  Dinv sc cl (set_waitfor b None (set_notify c None (set_tstate b TRunning s))).
Proof.
  intros H Hb Hs Hw. destruct (d_wf _ _ _ H b c Hb Hw) as (Hc & Hnc & _ & _ & Hclbc).
  assert (Hbc : b <> c) by (intros ->; lia).
  set (s3 := set_waitfor b None (set_notify c None (set_tstate b TRunning s))).
  assert (Hrd : forall x, th s3 x =
            if x =? b then mkT (t_vm (th s b)) TRunning None (t_notify (th s b))
            else if x =? c then mkT (t_vm (th s c)) (t_state (th s c)) (t_waitfor (th s c)) None else th s x).
  { intro x. unfold s3. rewrite th_set_waitfor, !th_set_notify, !th_set_tstate, !N.eqb_refl.
    destruct (N.eqb_spec b c); [congruence|]. destruct (N.eqb_spec c b); [congruence|].
    destruct (N.eqb_spec x b); [reflexivity|]. destruct (N.eqb_spec x c); reflexivity. }
  assert (Hnel : ~ In b (map fst (elems s))).
  { intro Hx. apply in_map_iff in Hx. destruct Hx as [e [E He]]. destruct (d_tm _ _ _ H e He) as [_ Q]. rewrite E in Q. congruence. }
  assert (Hh : forall x, healthy s3 x <-> healthy s x).
  { intro x. unfold healthy. rewrite Hrd. change (tpool s3) with (tpool s).
    destruct (N.eqb_spec x b) as [->|_]; prj; [tauto|]. destruct (N.eqb_spec x c) as [->|_]; prj; tauto. }
  dinv H. constructor; try assumption.
  - intros x Hx. apply Hh in Hx. exact (Hthr x Hx).
  - intros c' x Hx. apply Hh in Hx. exact (Hclall c' x Hx).
  - intros e He. change (elems s3) with (elems s) in He. destruct (Htm e He) as [Q1 Q2]. split; [exact Q1|]. rewrite Hrd.
    destruct (N.eqb_spec (fst e) b) as [E|_]; [exfalso; apply Hnel; rewrite <- E; now apply in_map|].
    destruct (N.eqb_spec (fst e) c) as [E|_]; prj; [rewrite <- E|]; exact Q2.
  - intros p c' Hp Hw'. apply Hh in Hp. rewrite Hrd in Hw'.
    destruct (N.eqb_spec p b) as [->|Hpb]; prj; [discriminate|].
    assert (Hw0 : t_waitfor (th s p) = Some c') by (destruct (N.eqb_spec p c) as [->|_]; exact Hw').
    destruct (Hwf p c' Hp Hw0) as (Q1 & Q2 & Q3 & Q4 & Q5).
    assert (Hc'c : c' <> c) by (intros ->; rewrite Hnc in Q2; congruence).
    rewrite !Hrd. destruct (N.eqb_spec p b); [congruence|]. destruct (N.eqb_spec c' c); [congruence|].
    split; [exact Q1|]. split; [destruct (N.eqb_spec c' b) as [->|_]; exact Q2|].
    split; [destruct (N.eqb_spec p c) as [->|_]; exact Q3|tauto].
  - intros c' p Hc' Hn. change (tpool s3) with (tpool s) in *. rewrite Hrd in Hn.
    destruct (N.eqb_spec c' c) as [->|Hne].
    + destruct (N.eqb_spec c b); [congruence|]. discriminate.
    + assert (Hn0 : t_notify (th s c') = Some p) by (destruct (N.eqb_spec c' b) as [->|_]; exact Hn).
      destruct (Hnf c' p Hc' Hn0) as [Q1 Q2]. split; [exact Q1|].
      assert (Hpb : p <> b) by (intros ->; rewrite Hw in Q2; congruence).
      rewrite Hrd. destruct (N.eqb_spec p b); [congruence|]. destruct (N.eqb_spec p c) as [->|_]; exact Q2.
Qed.

(* a change of thread records only (who is whole stays) keeps everything but Dinv *)
Lemma good_threads_only sc cl s s' :
  Good sc cl s -> Dinv sc cl s' ->
  vms s' = vms s -> classes s' = classes s -> tpool s' = tpool s -> vpool s' = vpool s -> cpool s' = cpool s ->
  chain s' = chain s -> nextid s' = nextid s -> stack s' = stack s -> ub s' = ub s -> oof s' = oof s ->
  (forall x, t_vm (th s' x) = t_vm (th s x)) ->
  Good sc cl s'.
Proof.
  intros [G1 G2 G3 G4 G5 G6 G7] H' E1 E2 E3 E4 E5 E6 E7 E8 E9 E10 E11.
  constructor.
  - exact H'.
  - destruct G2 as [C1 C2 C3 C4]. constructor.
    + intros x Hx. rewrite E11. apply C1. now rewrite <- E3.
    + intros x Hx. unfold vmof. rewrite E1. apply C2. now rewrite <- E3.
    + intros c Hc. rewrite E6. apply C3. now rewrite <- E5.
    + intros c Hc. unfold clsof. rewrite E2. apply C4. now rewrite <- E6.
  - unfold Fresh. rewrite E3, E4, E5, E7. exact G3.
  - unfold Fr1, vmof. rewrite E3, E1, E8. exact G4.
  - unfold Fr2. rewrite E3, E4, E8. exact G5.
  - congruence.
  - congruence.
Qed.

Lemma not_timing_not_in_elems sc cl s b : Dinv sc cl s -> t_state (th s b) <> TTiming -> ~ In b (map fst (elems s)).
Proof.
  intros H Hs Hx. apply in_map_iff in Hx. destruct Hx as [e [E He]]. destruct (d_tm _ _ _ H e He) as [_ Q]. rewrite E in Q. congruence.
Qed.
Lemma healthy_nowait sc cl s b : Dinv sc cl s -> healthy s b -> t_state (th s b) <> TWaiting -> t_waitfor (th s b) = None.
Proof.
  intros H Hb Hs. destruct (t_waitfor (th s b)) as [c|] eqn:Ew; [|reflexivity].
  destruct (d_wf _ _ _ H b c Hb Ew) as (_ & _ & Q & _). congruence.
Qed.

(* ScriptThread::Stop of any whole thread: afterwards it is in no timer and waits for nobody *)
Lemma stop_full_ok sc cl s b :
  Good sc cl s -> healthy s b ->
  Good sc cl (stop_full b s) /\ healthy (stop_full b s) b /\ t_waitfor (th (stop_full b s) b) = None /\
  ~ In b (map fst (elems (stop_full b s))) /\ vmof (stop_full b s) b = vmof s b /\ stack (stop_full b s) = stack s.
Proof.
  intros G Hb. pose proof G as [G1 G2 G3 G4 G5 G6 G7]. pose proof Hb as [Hbin Hbv].
  unfold stop_full, stop. destruct (t_state (th s b)) eqn:Es.
  - (* running *)
    split; [exact G|]. split; [exact Hb|]. split; [apply (healthy_nowait sc cl s b G1 Hb); congruence|].
    split; [apply (not_timing_not_in_elems sc cl s b G1); congruence|]. split; reflexivity.
  - (* timing: the element is withdrawn *)
    assert (Hw : t_waitfor (th s b) = None) by (apply (healthy_nowait sc cl s b G1 Hb); congruence).
    unfold remove_timing. fold (rm_elems b (elems (set_tstate b TRunning s))). change (elems (set_tstate b TRunning s)) with (elems s).
    assert (E : set_elems (rm_elems b (elems s)) (set_tstate b TRunning s) = set_tstate b TRunning (set_elems (rm_elems b (elems s)) s)) by reflexivity.
    rewrite E.
    pose proof (dinv_rm_elems_any sc cl s b G1) as H1.
    assert (Hne : ~ In b (map fst (elems (set_elems (rm_elems b (elems s)) s)))) by (apply rm_elems_notin; exact (d_tmnd _ _ _ G1)).
    pose proof (dinv_set_tstate_idle sc cl _ b TRunning H1 Hw Hne) as H2.
    split; [|split; [|split; [|split; [exact Hne|split; reflexivity]]]].
    + eapply good_threads_only; [exact G|exact H2|..]; try reflexivity. intro x. rewrite th_set_tstate. destruct (N.eqb_spec x b) as [->|_]; reflexivity.
    + split; [exact Hbin|]. rewrite th_set_tstate, N.eqb_refl. exact Hbv.
    + rewrite th_set_tstate, N.eqb_refl. exact Hw.
  - (* waiting *)
    assert (Hne : ~ In b (map fst (elems s))) by (apply (not_timing_not_in_elems sc cl s b G1); congruence).
    destruct (t_waitfor (th s b)) as [c|] eqn:Ew.
    + (* the awaited thread is deleted *)
      destruct (d_wf _ _ _ G1 b c Hb Ew) as (Hc & Hnc & _ & Hsc & Hclc).
      assert (Hbc : b <> c) by (intros ->; lia).
      assert (Hcv : t_vm (th s c) = true) by (now apply (cl_allh _ G2)).
      assert (Ef : dfuel (set_tstate b TRunning s) = S (pred (dfuel s))) by reflexivity.
      change (dfuel s) with (dfuel (set_tstate b TRunning s)). rewrite Ef, cancel_waiting_all_unfold.
      set (sW := set_tstate b TRunning s).
      assert (EthW : forall x, th sW x = if x =? b then mkT (t_vm (th s b)) TRunning (t_waitfor (th s b)) (t_notify (th s b)) else th s x)
        by (intro x; apply th_set_tstate).
      rewrite EthW, N.eqb_refl. prj. rewrite Ew.
      change (tpool sW) with (tpool s). rewrite (memb_true _ _ Hc). cbn [negb].
      rewrite EthW. destruct (N.eqb_spec c b) as [E|_]; [congruence|]. rewrite Hnc, N.eqb_refl. cbv zeta.
      pose proof (dinv_cancel_healthy sc cl s b c G1 Hb Es Ew) as H3.
      set (s3 := set_waitfor b None (set_notify c None sW)) in *.
      assert (Eth3 : forall x, th s3 x =
                if x =? b then mkT (t_vm (th s b)) TRunning None (t_notify (th s b))
                else if x =? c then mkT (t_vm (th s c)) (t_state (th s c)) (t_waitfor (th s c)) None else th s x).
      { intro x. unfold s3. rewrite th_set_waitfor, !th_set_notify, !EthW, !N.eqb_refl.
        destruct (N.eqb_spec b c); [congruence|]. destruct (N.eqb_spec c b); [congruence|].
        destruct (N.eqb_spec x b); [reflexivity|]. destruct (N.eqb_spec x c); reflexivity. }
      rewrite Eth3, N.eqb_refl. prj. rewrite Hbv. cbn iota.
      rewrite Eth3. destruct (N.eqb_spec c b); [congruence|]. rewrite N.eqb_refl. prj. rewrite Hcv. cbn [andb].
      assert (G3' : Good sc cl s3).
      { eapply good_threads_only; [exact G|exact H3|..]; try reflexivity. intro x. rewrite Eth3.
        destruct (N.eqb_spec x b) as [->|_]; [reflexivity|]. destruct (N.eqb_spec x c) as [->|_]; reflexivity. }
      assert (Hc3 : healthy s3 c).
      { split; [exact Hc|]. rewrite Eth3. destruct (N.eqb_spec c b); [congruence|]. rewrite N.eqb_refl. exact Hcv. }
      assert (Hf : (4 * hcount s3 + 4 <= pred (dfuel s))%nat).
      { assert (Q : hcount s3 = hcount s).
        { apply hcount_same; [reflexivity|]. intro u. rewrite Eth3. destruct (N.eqb_spec u b) as [->|_]; [reflexivity|]. destruct (N.eqb_spec u c) as [->|_]; reflexivity. }
        rewrite Q. unfold dfuel. pose proof (hcount_le_tpool s). lia. }
      pose proof (delete_thread_ok sc cl (pred (dfuel s)) c s3 H3 Hc3 (anc_allh cl s3 c (cl_allh _ (g_clean _ _ _ G3'))) Hf) as D.
      pose proof (good_evo sc cl _ _ s3 _ G3' (p_inv _ _ _ _ _ D) (allh_after_dt sc cl c s3 _ (cl_allh _ (g_clean _ _ _ G3')) D) (dtpost_evo sc cl c s3 _ Hc3 D)) as G4'.
      set (s4 := delete_thread (pred (dfuel s)) c s3) in *.
      destruct D as [d1 d2 d3 d4 d5 d6 d7 d8 d9 d10 d11 d12 d13 d14 d15 d16 d17 d18 d19 d20 d21].
      assert (Hb4 : In b (tpool s4)).
      { destruct (in_dec N.eq_dec b (tpool s4)) as [Hi|Hi]; [exact Hi|]. exfalso.
        destruct (d6 b Hbin Hi) as (_ & _ & Q). lia. }
      assert (Eb4 : th s4 b = th s3 b).
      { destruct (d7 b Hb4) as [E|W]; [exact E|]. exfalso. destruct W as (W1 & _). rewrite Eth3 in W1.
        destruct (N.eqb_spec c b); [congruence|]. rewrite N.eqb_refl in W1. discriminate. }
      split; [exact G4'|]. split; [|split; [|split; [|split]]].
      * split; [exact Hb4|]. rewrite Eb4, Eth3, N.eqb_refl. exact Hbv.
      * rewrite Eb4, Eth3, N.eqb_refl. reflexivity.
      * intro Hx. apply in_map_iff in Hx. destruct Hx as [e [E He]]. destruct (d16 e He) as [Q|Q].
        -- apply Hne. rewrite <- E. now apply in_map.
        -- rewrite Eth3 in Q. destruct (N.eqb_spec c b); [congruence|]. rewrite N.eqb_refl in Q. discriminate.
      * rewrite d8 by (now left). reflexivity.
      * destruct d3 as (Q & _). exact Q.
    + (* it waits for nobody *)
      pose proof (dinv_set_tstate_idle sc cl s b TRunning G1 Ew Hne) as H2.
      split; [|split; [|split; [|split; [exact Hne|split; reflexivity]]]].
      * eapply good_threads_only; [exact G|exact H2|..]; try reflexivity. intro x. rewrite th_set_tstate. destruct (N.eqb_spec x b) as [->|_]; reflexivity.
      * split; [exact Hbin|]. rewrite th_set_tstate, N.eqb_refl. exact Hbv.
      * rewrite th_set_tstate, N.eqb_refl. exact Ew.
Qed.

Lemma good_suspend sc cl s b : Good sc cl s -> healthy s b -> Good sc cl (suspend b s).
Proof.
  intros G Hb. unfold suspend. destruct (v_state (vmof s b)) eqn:Es; try exact G.
  - apply good_set_vstate; [exact G|apply Hb| |discriminate]. apply (g_fr1 _ _ _ G); [apply Hb|congruence].
  - exfalso. destruct (d_thr _ _ _ (g_inv _ _ _ G) b Hb) as (_ & Q & _). congruence.
Qed.

Lemma good_retime sc cl s b d :
  Good sc cl s -> healthy s b -> t_waitfor (th s b) = None -> ~ In b (map fst (elems s)) ->
  Good sc cl (add_timing b d (set_tstate b TTiming s)) /\ healthy (add_timing b d (set_tstate b TTiming s)) b.
Proof.
  intros G Hb Hw Hne. pose proof Hb as [Hbin Hbv].
  pose proof (dinv_set_tstate_idle sc cl s b TTiming (g_inv _ _ _ G) Hw Hne) as H2.
  assert (H3 : Dinv sc cl (add_timing b d (set_tstate b TTiming s))).
  { apply dinv_add_timing; [exact H2|exact Hbin|rewrite th_set_tstate, N.eqb_refl; reflexivity|exact Hne]. }
  destruct (add_timing_fields b d (set_tstate b TTiming s)) as (F1 & F2 & F3 & F4 & F5 & F6 & F7 & F8 & F9 & F10 & F11 & F12).
  destruct F12 as (F13 & _ & _ & F14 & _).
  assert (Ev : forall x, t_vm (th (add_timing b d (set_tstate b TTiming s)) x) = t_vm (th s x)).
  { intro x. rewrite th_add_timing, th_set_tstate. destruct (N.eqb_spec x b) as [->|_]; reflexivity. }
  split.
  - eapply good_threads_only; [exact G|exact H3|..]; try assumption.
  - split; [rewrite F4; exact Hbin|rewrite Ev; exact Hbv].
Qed.

Lemma good_wait_on sc cl s b d : Good sc cl s -> healthy s b -> Good sc cl (wait_on b d s).
Proof.
  intros G Hb. unfold wait_on. cbv zeta.
  destruct (stop_full_ok sc cl s b G Hb) as (G1 & Hb1 & Hw1 & Hne1 & _ & _).
  destruct (good_retime sc cl _ b d G1 Hb1 Hw1 Hne1) as [G2 Hb2].
  now apply good_suspend.
Qed.
Lemma good_pause_on sc cl s b : Good sc cl s -> healthy s b -> Good sc cl (pause_on b s).
Proof.
  intros G Hb. unfold pause_on. destruct (stop_full_ok sc cl s b G Hb) as (G1 & Hb1 & _). now apply good_suspend.
Qed.
Lemma deref_healthy sc cl s k b : Good sc cl s -> deref k s = Some b -> healthy s b.
Proof.
  intros G H. unfold deref in H. destruct (get (refs s) k) as [x|]; [|discriminate].
  destruct (memb_spec x (tpool s)) as [Hi|_]; [|discriminate]. injection H as <-.
  split; [exact Hi|now apply (cl_allh _ (g_clean _ _ _ G))].
Qed.

(* ---- a thread start that creates a new instance and fails ---------------------------------------------------- *)
Lemma good_ext_cls sc cl s s' :
  threads s' = threads s -> vms s' = vms s -> tpool s' = tpool s -> vpool s' = vpool s ->
  cpool s' = cpool s -> chain s' = chain s -> elems s' = elems s -> cur s' = cur s -> (nextid s <= nextid s') ->
  ftids (stack s') = ftids (stack s) -> ub s' = ub s -> oof s' = oof s ->
  (forall x, In x (cpool s) -> clsof s' x = clsof s x) ->
  Good sc cl s -> Good sc cl s'.
Proof.
  intros E1 E2 E4 E5 E6 E7 E8 E9 E10 E11 E12 E13 Ecl [G1 G2 G3 G4 G5 G6 G7].
  assert (Eth : forall x, th s' x = th s x) by (intro x; unfold th; now rewrite E1).
  assert (Evm : forall x, vmof s' x = vmof s x) by (intro x; unfold vmof; now rewrite E2).
  assert (Hh : forall x, healthy s' x <-> healthy s x) by (intro x; unfold healthy; now rewrite E4, Eth).
  pose proof G1 as G1'. dinv G1.
  constructor.
  - constructor; rewrite ?E4, ?E5, ?E6, ?E7, ?E8; try assumption.
    + intros t Ht. apply Hh in Ht. destruct (Hthr t Ht) as (Q1 & Q2 & Q3). rewrite Evm. split; [exact Q1|]. split; [exact Q2|].
      intros c Hc. destruct (Q3 c Hc) as [Q4 Q5]. split; [exact Q4|]. now rewrite Ecl.
    + intros t c Ht. rewrite Evm. now apply Hcl.
    + intros c Hc. rewrite Ecl by exact Hc. now apply Hclnd.
    + intros c t Hc. rewrite Ecl, Evm by exact Hc. now apply Hclin.
    + intros c t Ht. apply Hh in Ht. rewrite Evm. intro Hc. destruct (Hthr t Ht) as (_ & _ & Q3). destruct (Q3 c Hc) as [Q4 _].
      rewrite Ecl by exact Q4. now apply Hclall.
    + intros c Hc Hn. rewrite Ecl by exact Hc. now apply Hdying.
    + intros e He. rewrite Eth. now apply Htm.
    + intros p c Hp. apply Hh in Hp. rewrite !Eth. now apply Hwf.
    + intros c p Hc. rewrite !Eth. now apply Hnf.
    + intros v Hv. rewrite Evm. now apply Hzomb.
    + intros x Hx. rewrite E9 in Hx. now apply Hcur.
  - destruct G2 as [C1 C2 C3 C4]. constructor.
    + intros x Hx. rewrite Eth. apply C1. now rewrite <- E4.
    + intros x Hx. rewrite Evm. apply C2. now rewrite <- E4.
    + intros c Hc. rewrite E7. apply C3. now rewrite <- E6.
    + intros c Hc. rewrite E7 in Hc. rewrite Ecl by (now apply Hchin). now apply C4.
  - intros x Hx. rewrite E4, E5, E6 in Hx. pose proof (G3 x Hx). lia.
  - intros t Ht. rewrite Evm, E11. rewrite E4 in Ht. now apply G4.
  - intros v Hv Hn. rewrite E11. rewrite E5 in Hv. rewrite E4 in Hn. now apply G5.
  - congruence.
  - congruence.
Qed.

Lemma good_failed_start sc cl s k :
  Good sc cl s -> Good sc cl (let '(c, s1) := new_class k s in destroy_class (dfuel s1) c s1).
Proof.
  intro G. unfold new_class. set (c := nextid s).
  set (s1 := set_chain (c :: chain _) (set_cpool (cpool _ ++ [c]) (set_classes (set (classes (set_nextid (c + 1) s)) c (mkC k [])) (set_nextid (c + 1) s)))).
  assert (Hnc : ~ In c (cpool s)) by (intro Hx; pose proof (g_fresh _ _ _ G c (or_intror (or_intror Hx))); unfold c in *; lia).
  assert (Hnch : ~ In c (chain s)) by (intro Hx; apply Hnc; now apply (d_chin _ _ _ (g_inv _ _ _ G))).
  assert (Ef : dfuel s1 = S (pred (dfuel s1))) by reflexivity. rewrite Ef.
  rewrite destroy_class_empty.
  2:{ change (cpool s1) with (cpool s ++ [c]). apply in_or_app. right. now left. }
  2:{ unfold clsof. change (classes s1) with (set (classes s) c (mkC k [])). now rewrite gss. }
  eapply good_ext_cls; [..|exact G]; try reflexivity.
  - rewrite cpool_destroy_empty. change (cpool s1) with (cpool s ++ [c]). rewrite remove_app, (remove_notin c (cpool s) Hnc).
    unfold remove. cbn [filter]. rewrite N.eqb_refl. cbn [negb]. apply app_nil_r.
  - rewrite chain_destroy_empty. change (chain s1) with (c :: chain s). unfold remove. cbn [filter]. rewrite N.eqb_refl. cbn [negb].
    fold (remove c (chain s)). now apply remove_notin.
  - change (nextid (destroy_empty c s1)) with (c + 1). unfold c. lia.
  - intros x Hx. rewrite cls_destroy_empty. assert (x <> c) by (intros ->; tauto).
    destruct (N.eqb_spec x c); [congruence|]. unfold clsof. change (classes s1) with (set (classes s) c (mkC k [])). now rewrite gso.
Qed.

(* ---- every step ------------------------------------------------------------------------------------------------ *)
Lemma exec_instr_good sc cl s t i r p k :
  Good sc cl s -> stack s = FExec t p :: k -> healthy s t ->
  ub (exec_instr t i r s) = false ->
  exists sc' cl', Good sc' cl' (exec_instr t i r s).
Proof.
  intros G Est Ht Hub. unfold exec_instr in *.
  pose proof (good_set_top sc cl s t p r k G Est) as G0.
  set (s0 := set_top (FExec t r) s) in *.
  assert (Ht0 : healthy s0 t) by exact Ht.
  assert (Hfr0 : In t (ftids (stack s0))) by (unfold s0, set_top; prj; now left).
  destruct i as [m|d|q|q| | |k'|  |k' d|k'|k'|gv gx|gv| ].
  - (* println *)
    exists sc, cl. eapply good_ext; [..|exact G0]; try reflexivity. intros x Hx. exact (d_cur _ _ _ (g_inv _ _ _ G0) x Hx).
  - (* wait *)
    exists sc, cl. now apply good_wait.
  - (* thread *)
    destruct (v_class (vmof s0 t)) as [c|] eqn:Ec; [|discriminate].
    destruct (memb_spec c (cpool s0)) as [Hc|Hc]; cbn [negb] in *; [|discriminate].
    destruct (new_thread c q s0) as [id s1] eqn:En.
    pose proof (good_thread sc cl s0 c q G0 Hc) as Q. rewrite En in Q. exact Q.
  - (* waitthread *)
    destruct (cur s0) as [ct|] eqn:Ecu; [|discriminate].
    unfold current_script in *. rewrite Ecu in *.
    destruct (v_class (vmof s0 ct)) as [c0|] eqn:Ec0; [|discriminate].
    pose proof (good_wthread sc cl s0 ct c0 q G0 Ecu Ec0) as Q. cbv zeta in Q.
    destruct (new_class (c_script (clsof s0 c0)) s0) as [c s1] eqn:E1. cbn [fst snd] in Q.
    destruct (new_thread c q s1) as [id s2] eqn:E2. cbn [fst snd] in Q.
    apply Q. exact Hub.
  - (* host_reset *)
    exists sc, cl. now apply good_reset.
  - (* host_recompile *)
    destruct (current_script s0) as [k'|]; [|discriminate]. exists sc, cl. now apply good_recompile.
  - (* level.r<k> = local *)
    exists sc, cl. eapply good_ext; [..|exact G0]; try reflexivity. intros x Hx. exact (d_cur _ _ _ (g_inv _ _ _ G0) x Hx).
  - exists sc, cl. now apply good_pause_on.
  - exists sc, cl. destruct (deref k' s0) as [b|] eqn:Ed; [|exact G0]. apply good_wait_on; [exact G0|eapply deref_healthy; eauto].
  - exists sc, cl. destruct (deref k' s0) as [b|] eqn:Ed; [|exact G0]. apply good_wait_on; [exact G0|eapply deref_healthy; eauto].
  - exists sc, cl. destruct (deref k' s0) as [b|] eqn:Ed; [|exact G0]. apply good_pause_on; [exact G0|eapply deref_healthy; eauto].
  - exists sc, cl. eapply good_ext; [..|exact G0]; try reflexivity. intros x Hx. exact (d_cur _ _ _ (g_inv _ _ _ G0) x Hx).
  - exists sc, cl. eapply good_ext; [..|exact G0]; try reflexivity. intros x Hx. exact (d_cur _ _ _ (g_inv _ _ _ G0) x Hx).
  - destruct (current_script s0) as [k'|]; [|discriminate]. exists sc, cl. now apply good_failed_start.
Qed.

Theorem step_good sc cl s :
  Good sc cl s -> ub (step s) = false -> oof (step s) = false ->
  exists sc' cl', Good sc' cl' (step s).
Proof.
  intros G Hub Hoo. unfold step in *.
  destruct (stack s) as [|[t p|saved| |] k] eqn:Est.
  - exists sc, cl. exact G.
  - destruct (memb_spec t (vpool s)) as [Hv|Hv]; cbn [negb] in *; [|discriminate].
    destruct (v_state (vmof s t)) eqn:Es.
    + (* running *)
      pose proof (running_is_pooled sc cl s t G Hv ltac:(congruence)) as Ht.
      destruct p as [|i r].
      * exists sc, cl. now apply good_done.
      * eapply exec_instr_good; eauto.
    + exists sc, cl. eapply good_pop_suspended; eauto.
    + exists sc, cl. eapply good_pop_idle; eauto.
    + exists sc, cl. eapply good_pop_destroyed; eauto.
  - exists sc, cl. eapply good_sei; eauto.
  - destruct (get_next s) as [[t s1]|] eqn:Eg.
    + destruct (memb_spec t (tpool s1)) as [Hin|Hin]; cbn [negb] in *; [|discriminate].
      destruct (t_vm (th (set_tstate t TRunning (set_cur (Some t) s1)) t)) eqn:Ev; [|discriminate].
      exists sc, cl. eapply good_loop_some; eauto.
    + exists sc, cl. eapply good_loop_none; eauto.
  - exists sc, cl. eapply good_dec; eauto.
Qed.

Lemma run_stack_good : forall f sc cl s,
  Good sc cl s -> ub (run_stack f s) = false -> oof (run_stack f s) = false ->
  exists sc' cl', Good sc' cl' (run_stack f s).
Proof.
  induction f as [|f IH]; intros sc cl s G Hub Hoo; cbn [run_stack] in *.
  - destruct (stack s); [exists sc, cl; exact G|].
    destruct (ub s || oof s); [exists sc, cl; exact G|]. discriminate.
  - destruct (stack s) eqn:Est; [exists sc, cl; exact G|].
    destruct (ub s || oof s) eqn:Ef; [exists sc, cl; exact G|].
    (* the flags are sticky inside run_stack: a flagged state is returned as it is *)
    assert (Hs : ub (step s) = false /\ oof (step s) = false).
    { destruct (ub (step s)) eqn:E1.
      - exfalso. clear IH. destruct f; cbn [run_stack] in Hub; destruct (stack (step s)); rewrite ?E1 in Hub; cbn [orb] in Hub; congruence.
      - split; [reflexivity|]. destruct (oof (step s)) eqn:E2; [|reflexivity].
        exfalso. clear IH. destruct f; cbn [run_stack] in Hoo; destruct (stack (step s)); rewrite ?E1, ?E2 in Hoo; cbn [orb] in Hoo; congruence. }
    destruct Hs as [Hs1 Hs2].
    destruct (step_good sc cl s G Hs1 Hs2) as (sc' & cl' & G').
    exact (IH sc' cl' (step s) G' Hub Hoo).
Qed.

(* ---- the host operations --------------------------------------------------------------------------------------- *)
(* ExecuteThread of a fresh script: a new instance with its first thread *)
Lemma good_start_spec sc cl s s' c id q k :
  Good sc cl s -> c = nextid s -> id = c + 1 ->
  (forall x, th s' x = if x =? id then mkT true TRunning None None else th s x) ->
  (forall x, vmof s' x = if x =? id then mkV (Some c) VRunning q else vmof s x) ->
  (forall x, clsof s' x = if x =? c then mkC k [id] else clsof s x) ->
  tpool s' = tpool s ++ [id] -> vpool s' = vpool s ++ [id] -> cpool s' = cpool s ++ [c] -> chain s' = c :: chain s ->
  elems s' = elems s -> cur s' = Some id -> nextid s' = id + 1 ->
  ftids (stack s') = id :: ftids (stack s) -> ub s' = ub s -> oof s' = oof s ->
  Good (upd sc id k) (upd cl id c) s'.
Proof.
  intros [G1 G2 G3 G4 G5 G6 G7] Ec Eid Eth Evm Ecl Etp Evp Ecp Ech Eel Ecu Eni Eft Eub Eoo.
  assert (Hfr : forall x, In x (tpool s) \/ In x (vpool s) \/ In x (cpool s) -> x < c) by (intros x Hx; rewrite Ec; now apply G3).
  assert (Hidt : forall x, In x (tpool s) -> x <> id /\ x <> c) by (intros x Hx; pose proof (Hfr x (or_introl Hx)); lia).
  assert (Hidv : forall x, In x (vpool s) -> x <> id /\ x <> c) by (intros x Hx; pose proof (Hfr x (or_intror (or_introl Hx))); lia).
  assert (Hidc : forall x, In x (cpool s) -> x <> id /\ x <> c) by (intros x Hx; pose proof (Hfr x (or_intror (or_intror Hx))); lia).
  assert (Hsc : forall x, x <> id -> upd sc id k x = sc x) by (intros x Hx; unfold upd; destruct (N.eqb_spec x id); [congruence|reflexivity]).
  assert (Hcl' : forall x, x <> id -> upd cl id c x = cl x) by (intros x Hx; unfold upd; destruct (N.eqb_spec x id); [congruence|reflexivity]).
  assert (Hh : forall x, healthy s' x <-> healthy s x \/ x = id).
  { intro x. unfold healthy. rewrite Etp, Eth, in_app_iff. cbn [In]. destruct (N.eqb_spec x id) as [->|Hne]; prj; [tauto|].
    split; [intros [[Hx|[Hx|[]]] Hv]; [tauto|congruence]|intros [[Hx Hv]|Hx]; [tauto|congruence]]. }
  pose proof G1 as G1'. dinv G1.
  constructor.
  - constructor; rewrite ?Etp, ?Evp, ?Ecp, ?Ech, ?Eel; try assumption.
    + apply nodup_app_intro; [exact Htp|repeat constructor; auto|]. intros x Hx [<-|[]]. destruct (Hidt _ Hx). congruence.
    + apply nodup_app_intro; [exact Hvp|repeat constructor; auto|]. intros x Hx [<-|[]]. destruct (Hidv _ Hx). congruence.
    + apply nodup_app_intro; [exact Hcp|repeat constructor; auto|]. intros x Hx [<-|[]]. destruct (Hidc _ Hx). congruence.
    + constructor; [|exact Hchnd]. intro Hx. apply Hchin in Hx. destruct (Hidc _ Hx). congruence.
    + intros x [<-|Hx]; apply in_or_app; [right; now left|left; now apply Hchin].
    + intros x Hx. apply Hh in Hx. rewrite Evm, in_app_iff. destruct (N.eqb_spec x id) as [->|Hne]; prj.
      * split; [right; now left|]. split; [discriminate|]. intros c' Hc'. injection Hc' as <-. split; [apply in_or_app; right; now left|].
        rewrite Ecl, N.eqb_refl. prj. unfold upd. now rewrite N.eqb_refl.
      * destruct Hx as [Hx|Hx]; [|congruence]. destruct (Hthr x Hx) as (Q1 & Q2 & Q3). split; [now left|]. split; [exact Q2|].
        intros c' Hc'. destruct (Q3 c' Hc') as [Q4 Q5]. split; [apply in_or_app; now left|]. rewrite Ecl, Hsc by exact Hne.
        destruct (N.eqb_spec c' c) as [->|_]; [destruct (Hidc _ Q4); congruence|exact Q5].
    + intros x c' Hx. rewrite Evm. apply in_app_or in Hx. destruct (N.eqb_spec x id) as [->|Hne]; prj.
      * intro E. injection E as <-. unfold upd. now rewrite N.eqb_refl.
      * destruct Hx as [Hx|[Hx|[]]]; [|congruence]. rewrite Hcl' by exact Hne. now apply Hcl.
    + intros c' Hc'. apply in_app_or in Hc'. rewrite Ecl. destruct (N.eqb_spec c' c) as [->|Hne]; prj; [repeat constructor; auto|].
      destruct Hc' as [Hc'|[Hc'|[]]]; [now apply Hclnd|congruence].
    + intros c' x Hc'. apply in_app_or in Hc'. rewrite Ecl, Evm, in_app_iff. destruct (N.eqb_spec c' c) as [->|Hne]; prj.
      * intros [<-|[]]. rewrite N.eqb_refl. split; [right; now left|reflexivity].
      * destruct Hc' as [Hc'|[Hc'|[]]]; [|congruence]. intro Hx. destruct (Hclin c' x Hc' Hx) as [Q1 Q2].
        destruct (Hidt _ Q1). destruct (N.eqb_spec x id); [congruence|]. tauto.
    + intros c' x Hx. apply Hh in Hx. rewrite Evm, Ecl. destruct (N.eqb_spec x id) as [->|Hne]; prj.
      * intro E. injection E as <-. rewrite N.eqb_refl. now left.
      * destruct Hx as [Hx|Hx]; [|congruence]. intro Hc'. pose proof (Hclall c' x Hx Hc') as Q.
        destruct (Hthr x Hx) as (_ & _ & Q3). destruct (Q3 c' Hc') as [Q4 _].
        destruct (N.eqb_spec c' c) as [->|_]; [destruct (Hidc _ Q4); congruence|exact Q].
    + intros c' Hc' Hn. apply in_app_or in Hc'. rewrite Ecl. destruct (N.eqb_spec c' c) as [->|Hne]; prj; [exfalso; apply Hn; now left|].
      destruct Hc' as [Hc'|[Hc'|[]]]; [|congruence]. exfalso. apply Hn. right. now apply (cl_inch _ G2).
    + intros e He. destruct (Htm e He) as [Q1 Q2]. rewrite in_app_iff, Eth. split; [now left|].
      destruct (Hidt _ Q1). destruct (N.eqb_spec (fst e) id) as [E|_]; [congruence|exact Q2].
    + intros p c' Hp Hw. apply Hh in Hp. rewrite Eth in Hw. destruct (N.eqb_spec p id) as [->|Hne]; prj; [discriminate|].
      destruct Hp as [Hp|Hp]; [|congruence]. destruct (Hwf p c' Hp Hw) as (Q1 & Q2 & Q3 & Q4 & Q5). destruct (Hidt _ Q1).
      rewrite in_app_iff, !Eth, !Hsc, !Hcl' by assumption. destruct (N.eqb_spec c' id); [congruence|]. destruct (N.eqb_spec p id); [congruence|]. tauto.
    + intros c' p Hc' Hn. rewrite Eth in Hn. apply in_app_or in Hc'. destruct (N.eqb_spec c' id) as [->|Hne]; prj; [discriminate|].
      destruct Hc' as [Hc'|[Hc'|[]]]; [|congruence]. destruct (Hnf c' p Hc' Hn) as [Q1 Q2]. destruct (Hidt _ Q1).
      rewrite in_app_iff, Eth. destruct (N.eqb_spec p id); [congruence|]. tauto.
    + intros v Hv. apply in_app_or in Hv. rewrite in_app_iff, Evm. destruct Hv as [Hv|[<-|[]]].
      * destruct (Hidv _ Hv). destruct (N.eqb_spec v id); [congruence|]. destruct (Hzomb v Hv); tauto.
      * left. right. now left.
    + intros x Hx. rewrite Ecu in Hx. injection Hx as <-. apply in_or_app. right. now left.
  - destruct G2 as [C1 C2 C3 C4]. constructor.
    + intros x Hx. rewrite Etp in Hx. apply in_app_or in Hx. rewrite Eth. destruct (N.eqb_spec x id) as [->|Hne]; [reflexivity|].
      destruct Hx as [Hx|[Hx|[]]]; [now apply C1|congruence].
    + intros x Hx. rewrite Etp in Hx. apply in_app_or in Hx. rewrite Evm. destruct (N.eqb_spec x id) as [->|Hne]; prj; [discriminate|].
      destruct Hx as [Hx|[Hx|[]]]; [now apply C2|congruence].
    + intros c' Hc'. rewrite Ecp in Hc'. rewrite Ech. apply in_app_or in Hc'. destruct Hc' as [Hc'|[<-|[]]]; [right; now apply C3|now left].
    + intros c' Hc'. rewrite Ech in Hc'. rewrite Ecl. destruct (N.eqb_spec c' c) as [->|Hne]; prj; [discriminate|].
      destruct Hc' as [Hc'|Hc']; [congruence|now apply C4].
  - intros x Hx. rewrite Eni. rewrite Etp, Evp, Ecp, !in_app_iff in Hx. cbn [In] in Hx.
    assert (x = id \/ x = c \/ x < c).
    { destruct Hx as [[Hx|[Hx|[]]]|[[Hx|[Hx|[]]]|[Hx|[Hx|[]]]]]; auto; right; right; apply Hfr; auto. }
    lia.
  - intros x Hx. rewrite Etp in Hx. apply in_app_or in Hx. rewrite Evm, Eft. destruct (N.eqb_spec x id) as [->|Hne]; [intros _; now left|].
    destruct Hx as [Hx|[Hx|[]]]; [|congruence]. intro Hs. right. now apply G4.
  - intros v Hv Hn. rewrite Evp in Hv. rewrite Etp in Hn. rewrite Eft. apply in_app_or in Hv.
    destruct Hv as [Hv|[<-|[]]]; [|now left]. right. apply G5; [exact Hv|]. intro Hi. apply Hn. apply in_or_app. now left.
  - congruence.
  - congruence.
Qed.
