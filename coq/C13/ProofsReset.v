(* C13/ProofsReset.v — Reset (BlockAlloc::FreeAll over the instances) and the recompilation of a
   script (DeleteProgramScript), on every state that satisfies the structural invariant and in
   which no destructor is in progress. *)
From Coq Require Import NArith List Bool Lia PeanoNat Wf_nat Permutation.
From Morfuse Require Import Base.Arr Base.ListX C13.Model C13.Spec C13.ProofsLib C13.ProofsAbs C13.ProofsInv C13.ProofsKill C13.ProofsEvo.
Import ListNotations.
Local Open Scope N_scope.

(* no destructor is in progress: every pooled thread is whole and knows its instance, every
   pooled instance is on the director's chain and has a thread *)
Record Clean (s : st) : Prop := {
  cl_allh : allh s;
  cl_att : forall t, In t (tpool s) -> v_class (vmof s t) <> None;
  cl_inch : forall c, In c (cpool s) -> In c (chain s);
  cl_ne : NE s }.

Lemma clean_evo P Q s s' : Clean s -> Evo P Q s s' -> allh s' -> Clean s'.
Proof.
  intros [C1 C2 C3 C4] E Ha. destruct E as [e1 e2 [e3 e3'] e4 e5 e6 e7 e8 e9 e10 e11 e12 e13 e14 e15].
  constructor.
  - exact Ha.
  - intros t Ht. rewrite e7 by (now left). apply C2. now apply e1.
  - intros c Hc. apply e10; [exact Hc|]. apply C3. now apply e3.
  - now apply e15.
Qed.

Lemma hcount_le_tpool s : (hcount s <= length (tpool s))%nat.
Proof. apply filter_length_le. Qed.
Lemma dfuel_enough s : (4 * hcount s + 5 <= dfuel s)%nat.
Proof. unfold dfuel. pose proof (hcount_le_tpool s). lia. Qed.

Lemma length_shrinks (l l' : list N) c : NoDup l' -> incl l' l -> In c l -> ~ In c l' -> (length l' < length l)%nat.
Proof.
  intros Hnd Hi Hc Hn.
  assert (H : (length (c :: l') <= length l)%nat).
  { apply NoDup_incl_length; [constructor; assumption|]. intros x [<-|Hx]; [exact Hc|now apply Hi]. }
  cbn [length] in H. lia.
Qed.

(* ---- FreeAll --------------------------------------------------------------------------------- *)
Lemma free_all_ok sc cl : forall n s,
  Dinv sc cl s -> Clean s -> (length (cpool s) < n)%nat ->
  Dinv sc cl (free_all n s) /\ Clean (free_all n s) /\ cpool (free_all n s) = [] /\
  Evo (fun _ => True) (fun _ => True) s (free_all n s).
Proof.
  induction n as [|n IH]; intros s H C Hn; [lia|].
  cbn [free_all]. destruct (cpool s) as [|c r] eqn:Ec.
  - split; [exact H|]. split; [exact C|]. split; [exact Ec|]. apply evo_refl. exact (d_cur _ _ _ H).
  - assert (Hc : In c (cpool s)) by (rewrite Ec; now left).
    destruct (destroy_class_ok sc cl c s (dfuel s) H (cl_allh _ C) Hc (dfuel_enough s)) as (D1 & D2 & D3 & D4 & _).
    set (s1 := destroy_class (dfuel s) c s) in *.
    pose proof (clean_evo _ _ s s1 C D3 D2) as C1.
    assert (Hlen : (length (cpool s1) < n)%nat).
    { pose proof (length_shrinks (cpool s) (cpool s1) c (d_cp _ _ _ D1) (proj1 (ev_c _ _ _ _ D3)) Hc D4) as Hl. rewrite Ec in Hl. cbn [length] in *. lia. }
    destruct (IH s1 D1 C1 Hlen) as (R1 & R2 & R3 & R4).
    split; [exact R1|]. split; [exact R2|]. split; [exact R3|].
    eapply evo_trans; [|exact R4]. eapply evo_weaken; [| |exact D3]; auto.
Qed.

(* what an empty instance pool means *)
Lemma empty_means_empty sc cl s :
  Dinv sc cl s -> Clean s -> cpool s = [] ->
  tpool s = [] /\ chain s = [] /\ elems s = [] /\ cur s = None /\
  (forall v, In v (vpool s) -> v_state (vmof s v) = VDestroyed).
Proof.
  intros H C Ec.
  assert (Et : tpool s = []).
  { destruct (tpool s) as [|t r] eqn:Et; [reflexivity|exfalso].
    assert (Hin : In t (tpool s)) by (rewrite Et; now left).
    assert (Hh : healthy s t) by (split; [exact Hin|now apply (cl_allh _ C)]).
    destruct (v_class (vmof s t)) as [c|] eqn:Ev; [|exact (cl_att _ C t Hin Ev)].
    destruct (d_thr _ _ _ H t Hh) as (_ & _ & Q). destruct (Q c Ev) as [Q1 _]. rewrite Ec in Q1. exact Q1. }
  split; [exact Et|]. split; [|split; [|split]].
  - destruct (chain s) as [|c r] eqn:E; [reflexivity|exfalso].
    assert (Hi : In c (cpool s)) by (apply (d_chin _ _ _ H); rewrite E; now left). rewrite Ec in Hi. exact Hi.
  - destruct (elems s) as [|e r] eqn:E; [reflexivity|exfalso].
    destruct (d_tm _ _ _ H e) as [Hi _]; [rewrite E; now left|]. rewrite Et in Hi. exact Hi.
  - destruct (cur s) as [x|] eqn:E; [exfalso|reflexivity]. pose proof (d_cur _ _ _ H x E) as Hi. rewrite Et in Hi. exact Hi.
  - intros v Hv. destruct (d_zomb _ _ _ H v Hv) as [Hi|Hd]; [rewrite Et in Hi; destruct Hi|exact Hd].
Qed.

Lemma dinv_set_scripts sc cl l s : Dinv sc cl s -> Dinv sc cl (set_scripts l s).
Proof. intro H. dinv H. constructor; ssh; assumption. Qed.
Lemma clean_set_scripts l s : Clean s -> Clean (set_scripts l s).
Proof. intros [C1 C2 C3 C4]. constructor; assumption. Qed.

Lemma dinv_set_refs sc cl r s : Dinv sc cl s -> Dinv sc cl (set_refs r s).
Proof. intro H. dinv H. constructor; ssh; assumption. Qed.
Lemma clean_set_refs r s : Clean s -> Clean (set_refs r s).
Proof. intros [C1 C2 C3 C4]. constructor; assumption. Qed.
Lemma dinv_set_gvars sc cl r s : Dinv sc cl s -> Dinv sc cl (set_gvars r s).
Proof. intro H. dinv H. constructor; ssh; assumption. Qed.
Lemma clean_set_gvars r s : Clean s -> Clean (set_gvars r s).
Proof. intros [C1 C2 C3 C4]. constructor; assumption. Qed.

(* Reset on ANY such state - threads running, waiting, in the middle of a call *)
Theorem reset_ok sc cl s :
  Dinv sc cl s -> Clean s ->
  Dinv sc cl (reset s) /\ Clean (reset s) /\
  cpool (reset s) = [] /\ tpool (reset s) = [] /\ chain (reset s) = [] /\ elems (reset s) = [] /\ scripts (reset s) = [] /\
  cur (reset s) = None /\
  (forall v, In v (vpool (reset s)) -> v_state (vmof (reset s) v) = VDestroyed) /\
  Evo (fun _ => True) (fun _ => True) s (free_all (S (length (cpool s))) s).
Proof.
  intros H C. unfold reset.
  destruct (free_all_ok sc cl (S (length (cpool s))) s H C ltac:(lia)) as (R1 & R2 & R3 & R4).
  set (s1 := free_all (S (length (cpool s))) s) in *.
  destruct (empty_means_empty sc cl s1 R1 R2 R3) as (Q1 & Q2 & Q3 & Q4 & Q5).
  split; [now apply dinv_set_scripts, dinv_set_refs, dinv_set_gvars|]. split; [now apply clean_set_scripts, clean_set_refs, clean_set_gvars|].
  split; [exact R3|]. split; [exact Q1|]. split; [exact Q2|]. split; [exact Q3|]. split; [reflexivity|]. split; [exact Q4|].
  split; [exact Q5|exact R4].
Qed.

(* ---- DeleteProgramScript / recompilation -------------------------------------------------------- *)
Definition script_of (s : st) (t : N) : option N :=
  match v_class (vmof s t) with
  | Some c => Some (c_script (clsof s c))
  | None => None
  end.

Lemma script_of_sc sc cl s t : Dinv sc cl s -> Clean s -> In t (tpool s) -> script_of s t = Some (sc t).
Proof.
  intros H C Hin. unfold script_of.
  assert (Hh : healthy s t) by (split; [exact Hin|now apply (cl_allh _ C)]).
  destruct (v_class (vmof s t)) as [c|] eqn:Ev; [|exfalso; exact (cl_att _ C t Hin Ev)].
  destruct (d_thr _ _ _ H t Hh) as (_ & _ & Q). destruct (Q c Ev) as [_ Q2]. now rewrite Q2.
Qed.

Definition dps_fold (l : list N) (s : st) : st :=
  fold_left (fun a c => if memb c (cpool a) then destroy_class (dfuel a) c a else a) l s.

Lemma dps_ok sc cl k (s0 : st) : forall l s,
  Dinv sc cl s -> Clean s ->
  (forall c, In c l -> c_script (clsof s0 c) = k) ->
  (forall c, c_script (clsof s c) = c_script (clsof s0 c)) ->
  Dinv sc cl (dps_fold l s) /\ Clean (dps_fold l s) /\
  Evo (fun x => sc x = k) (fun c => c_script (clsof s0 c) = k) s (dps_fold l s) /\
  (forall c, In c l -> ~ In c (cpool (dps_fold l s))) /\
  (forall c, c_script (clsof (dps_fold l s) c) = c_script (clsof s0 c)).
Proof.
  induction l as [|c r IH]; intros s H C Hl Hs.
  - cbn [dps_fold fold_left]. split; [exact H|]. split; [exact C|]. split; [apply evo_refl; exact (d_cur _ _ _ H)|].
    split; [intros c []|exact Hs].
  - unfold dps_fold. cbn [fold_left]. fold (dps_fold r (if memb c (cpool s) then destroy_class (dfuel s) c s else s)).
    destruct (memb_spec c (cpool s)) as [Hc|Hc].
    + destruct (destroy_class_ok sc cl c s (dfuel s) H (cl_allh _ C) Hc (dfuel_enough s)) as (D1 & D2 & D3 & D4 & _).
      set (s1 := destroy_class (dfuel s) c s) in *.
      pose proof (clean_evo _ _ s s1 C D3 D2) as C1.
      assert (Hs1 : forall c', c_script (clsof s1 c') = c_script (clsof s0 c')) by (intro c'; rewrite (ev_cscript _ _ _ _ D3); apply Hs).
      destruct (IH s1 D1 C1 (fun c' Hc' => Hl c' (or_intror Hc')) Hs1) as (R1 & R2 & R3 & R4 & R5).
      split; [exact R1|]. split; [exact R2|]. split; [|split; [|exact R5]].
      * eapply evo_trans; [|exact R3]. eapply evo_weaken; [| |exact D3].
        -- intros x [X _]. rewrite X, Hs. apply Hl. now left.
        -- intros c' [_ X]. rewrite <- Hs, X, Hs. apply Hl. now left.
      * intros c' [<-|Hr]; [|now apply R4]. intro Hi. apply D4. now apply (proj1 (ev_c _ _ _ _ R3)).
    + destruct (IH s H C (fun c' Hc' => Hl c' (or_intror Hc')) Hs) as (R1 & R2 & R3 & R4 & R5).
      split; [exact R1|]. split; [exact R2|]. split; [exact R3|]. split; [|exact R5].
      intros c' [<-|Hr]; [|now apply R4]. intro Hi. apply Hc. now apply (proj1 (ev_c _ _ _ _ R3)).
Qed.

Lemma delete_program_script_eq k s :
  delete_program_script k s = dps_fold (filter (fun c => c_script (clsof s c) =? k) (chain s)) s.
Proof. reflexivity. Qed.

(* recompiling script k on ANY such state destroys exactly the instances (and the threads of the
   instances) that run k; everything else is untouched *)
Theorem recompile_ok sc cl k s :
  Dinv sc cl s -> Clean s -> In k (scripts s) ->
  Dinv sc cl (recompile k s) /\ Clean (recompile k s) /\
  (forall c, In c (cpool (recompile k s)) <-> In c (cpool s) /\ c_script (clsof s c) <> k) /\
  (forall t, In t (tpool (recompile k s)) <-> In t (tpool s) /\ script_of s t <> Some k) /\
  (forall t, In t (tpool (recompile k s)) -> th (recompile k s) t = th s t /\ vmof (recompile k s) t = vmof s t) /\
  (forall c, In c (cpool (recompile k s)) -> c_script (clsof (recompile k s) c) = c_script (clsof s c)) /\
  scripts (recompile k s) = remove k (scripts s) ++ [k] /\
  Lcons s (recompile k s).
Proof.
  intros H C Hk. unfold recompile. rewrite (memb_true _ _ Hk). cbv zeta.
  set (s1 := set_scripts (remove k (scripts s)) s).
  assert (H1 : Dinv sc cl s1) by (now apply dinv_set_scripts).
  assert (C1 : Clean s1) by (now apply clean_set_scripts).
  rewrite delete_program_script_eq.
  set (l := filter (fun c => c_script (clsof s1 c) =? k) (chain s1)).
  assert (Hl : forall c, In c l -> c_script (clsof s c) = k).
  { intros c Hc. apply filter_In in Hc. destruct Hc as [_ Hc]. apply N.eqb_eq in Hc. exact Hc. }
  destruct (dps_ok sc cl k s l s1 H1 C1 Hl (fun c => eq_refl)) as (R1 & R2 & R3 & R4 & R5).
  set (s2 := dps_fold l s1) in *.
  destruct R3 as [r1 r2 [r3 r3'] r4 r5 r6 r7 r8 r9 r10 r11 r12 r13 r14 r15 r16].
  split; [now apply dinv_set_scripts|]. split; [now apply clean_set_scripts|].
  assert (Hcp : forall c, In c (cpool s2) <-> In c (cpool s) /\ c_script (clsof s c) <> k).
  { intro c. split.
    - intro Hc. split; [now apply r3|]. intro Hs. apply (R4 c); [|exact Hc].
      apply filter_In. split; [apply (cl_inch _ C); now apply r3|now apply N.eqb_eq].
    - intros [Hc Hs]. destruct (in_dec N.eq_dec c (cpool s2)) as [Hi|Hi]; [exact Hi|]. exfalso. apply Hs. exact (r5 c Hc Hi). }
  assert (Htp : forall t, In t (tpool s2) <-> In t (tpool s) /\ script_of s t <> Some k).
  { intro t. split.
    - intro Ht. assert (Ht0 : In t (tpool s)) by (now apply r1). split; [exact Ht0|].
      rewrite (script_of_sc sc cl s t H C Ht0). intro Es. injection Es as Es.
      (* its instance would have been destroyed *)
      assert (Hh2 : healthy s2 t) by (split; [exact Ht|now apply (cl_allh _ R2)]).
      destruct (v_class (vmof s2 t)) as [c|] eqn:Ev; [|exact (cl_att _ R2 t Ht Ev)].
      destruct (d_thr _ _ _ R1 t Hh2) as (_ & _ & Q). destruct (Q c Ev) as [Q1 Q2].
      apply Hcp in Q1. destruct Q1 as [_ Q1]. apply Q1. rewrite <- R5. congruence.
    - intros [Ht Hs]. destruct (in_dec N.eq_dec t (tpool s2)) as [Hi|Hi]; [exact Hi|]. exfalso.
      destruct (r4 t Ht Hi) as [_ Hsc]. apply Hs. rewrite (script_of_sc sc cl s t H C Ht). congruence. }
  split; [exact Hcp|]. split; [exact Htp|]. split; [|split; [|split; [prj; destruct r13 as (_ & _ & Es & _); rewrite Es; reflexivity|exact r16]]].
  - intros t Ht. change (th (set_scripts (scripts s2 ++ [k]) s2) t) with (th s2 t).
    change (vmof (set_scripts (scripts s2 ++ [k]) s2) t) with (vmof s2 t).
    change (tpool (set_scripts (scripts s2 ++ [k]) s2)) with (tpool s2) in Ht.
    split; [|apply r7; now left].
    destruct (r6 t Ht) as [E|W]; [exact E|exfalso].
    destruct W as (W1 & _ & y & W3 & W4 & W5).
    (* t waited for a destroyed thread: then t runs the same script and is destroyed too *)
    assert (Ht0 : In t (tpool s)) by (now apply r1).
    assert (Hh : healthy s t) by (split; [exact Ht0|now apply (cl_allh _ C)]).
    destruct (d_wf _ _ _ H t y Hh W3) as (_ & _ & _ & Hsc & _).
    destruct (r4 y W4 W5) as [_ Hk']. apply Htp in Ht. destruct Ht as [_ Hne]. apply Hne.
    rewrite (script_of_sc sc cl s t H C Ht0). congruence.
  - intros c _. apply r9.
Qed.
