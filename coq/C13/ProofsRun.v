(* C13/ProofsRun.v — every state a history reaches without an error flag satisfies the invariant;
   what the host then observes between two operations. *)
From Coq Require Import NArith List Bool Lia PeanoNat Wf_nat Permutation.
From Morfuse Require Import Base.Arr Base.ListX C13.Model C13.Spec C13.ProofsLib C13.ProofsAbs C13.ProofsInv C13.ProofsKill C13.ProofsEvo C13.ProofsReset C13.ProofsStep.
Import ListNotations.
Local Open Scope N_scope.

Definition unflagged (s : st) : Prop := ub s = false /\ oof s = false.

Lemma run_stack_empties : forall f s, unflagged (run_stack f s) -> stack (run_stack f s) = [].
Proof.
  induction f as [|f IH]; intros s [H1 H2]; cbn [run_stack] in *.
  - destruct (stack s) eqn:E; [exact E|]. destruct (ub s || oof s) eqn:Ef.
    + apply orb_true_iff in Ef. destruct Ef; congruence.
    + discriminate.
  - destruct (stack s) eqn:E; [exact E|]. destruct (ub s || oof s) eqn:Ef.
    + apply orb_true_iff in Ef. destruct Ef; congruence.
    + apply IH. split; assumption.
Qed.

Ltac vac := unfold healthy, Fresh, Fr1, Fr2, allh, NE in *; intros; unfold healthy in *; cbn [init tpool vpool cpool chain elems cur stack map ftids] in *;
  repeat match goal with
         | H : In _ [] |- _ => destruct H
         | H : _ /\ _ |- _ => destruct H
         | H : _ \/ _ |- _ => destruct H
         | H : None = Some _ |- _ => discriminate H
         end.
Lemma good_init c : Good (fun _ => 0) (fun _ => 0) (init c).
Proof.
  constructor.
  - constructor; try (vac; fail); cbn [init tpool vpool cpool chain elems map]; try constructor.
    all: try (intros x []).
  - constructor; vac.
  - vac.
  - vac.
  - vac.
  - reflexivity.
  - reflexivity.
Qed.

(* the state in which the step loop of a host operation starts *)
Definition start_pre (p : list instr) (s : st) : st :=
  let k := nextscript s in
  let s1 := set_scripts (scripts s ++ [k]) (set_nextscript (k + 1) s) in
  let '(c, s2) := new_class k s1 in
  let '(id, s3) := new_thread c p s2 in
  enter id p s3.
Definition exec_pre (s : st) : st :=
  execute_running (set_dirty true (set_mtime (clock s - startclk s)
                    (set_lastclk (clock s) (set_scaled (scaled s + (clock s - lastclk s)) s)))).

Lemma host_step_eq s0 o :
  host_step s0 o =
    if ub s0 || oof s0 then s0 else
    let s := set_out [] s0 in
    match o with
    | OStart p => run_stack (sfuel (start_pre p s)) (start_pre p s)
    | OAdvance dt => set_clock (clock s + dt) s
    | OExecute => run_stack (sfuel (exec_pre s)) (exec_pre s)
    | OReset => reset s
    | ORecompile k => recompile k s
    | OStartMissing k =>
        if memb k (scripts s) then let '(c, s1) := new_class k s in destroy_class (dfuel s1) c s1 else s
    | ODestroy => reset s
    end.
Proof. unfold host_step, start_pre, exec_pre. destruct (ub s0 || oof s0); [reflexivity|]. destruct o; reflexivity. Qed.

Lemma good_out sc cl s : Good sc cl s -> Good sc cl (set_out [] s).
Proof.
  intro G. eapply good_ext; [..|exact G]; try reflexivity. intros x Hx. exact (d_cur _ _ _ (g_inv _ _ _ G) x Hx).
Qed.

Lemma start_pre_good sc cl p s :
  Good sc cl s -> stack s = [] -> exists sc' cl', Good sc' cl' (start_pre p s).
Proof.
  intros G0 Est0. unfold start_pre.
  set (k := nextscript s).
  set (s1 := set_scripts (scripts s ++ [k]) (set_nextscript (k + 1) s)).
  assert (G1 : Good sc cl s1).
  { eapply good_ext; [..|exact G0]; try reflexivity. intros x Hx. exact (d_cur _ _ _ (g_inv _ _ _ G0) x Hx). }
  set (c := nextid s1). set (id := c + 1).
  change (new_class k s1) with (c, snd (new_class k s1)). cbv iota beta.
  set (s2 := snd (new_class k s1)).
  destruct (new_thread_fields c p s2) as (E0 & Eth & Evm & Ecl & Etp & Evp & Ecp & Ech & Eel & Ecu & Eni & Est2 & Eub & Eoo).
  change (nextid s2) with id in *.
  destruct (new_thread c p s2) as [id' s3] eqn:En. cbn [fst snd] in *. subst id'.
  assert (Hrun : t_state (th s3 id) = TRunning) by (rewrite Eth, N.eqb_refl; reflexivity).
  rewrite (enter_eq id p s3 Hrun).
  destruct (entered_fields id p s3) as (K1 & K2 & K3 & K4 & K5 & K6 & K7 & K8 & K9 & K10 & K11 & K12 & K13).
  exists (upd sc id k), (upd cl id c).
  apply (good_start_spec sc cl s1 _ c id p k G1 eq_refl eq_refl).
  - intro x. rewrite K1. apply Eth.
  - intro x. rewrite K2, !Evm, N.eqb_refl. destruct (N.eqb_spec x id); reflexivity.
  - intro x. rewrite K3, Ecl. unfold s2, new_class, clsof. prj. rewrite gss. prj.
    destruct (N.eqb_spec x c) as [->|Hne]; [reflexivity|]. rewrite gso by exact Hne. reflexivity.
  - now rewrite K4.
  - now rewrite K5.
  - rewrite K6, Ecp. reflexivity.
  - rewrite K7, Ech. reflexivity.
  - now rewrite K8.
  - exact K9.
  - now rewrite K10.
  - rewrite K11, Est2. change (stack s2) with (stack s). change (stack s1) with (stack s). rewrite Est0. reflexivity.
  - now rewrite K12.
  - now rewrite K13.
Qed.

Lemma exec_pre_good sc cl s : Good sc cl s -> Good sc cl (exec_pre s).
Proof.
  intro G0. unfold exec_pre.
  set (s1 := set_dirty true (set_mtime (clock s - startclk s) (set_lastclk (clock s) (set_scaled (scaled s + (clock s - lastclk s)) s)))).
  assert (G1 : Good sc cl s1).
  { eapply good_ext; [..|exact G0]; try reflexivity. intros x Hx. exact (d_cur _ _ _ (g_inv _ _ _ G0) x Hx). }
  unfold execute_running. destruct (cur s1); [exact G1|]. destruct (dirty s1); [|exact G1].
  eapply good_ext; [..|exact G1]; try reflexivity. intros x Hx. exact (d_cur _ _ _ (g_inv _ _ _ G1) x Hx).
Qed.

Lemma reset_stack sc cl s : Good sc cl s -> stack (reset s) = stack s.
Proof.
  intro G. destruct (reset_ok sc cl s (g_inv _ _ _ G) (g_clean _ _ _ G)) as (_ & _ & _ & _ & _ & _ & _ & _ & _ & R).
  destruct (ev_ctl _ _ _ _ R) as (E & _). unfold reset. prj. exact E.
Qed.
Lemma recompile_stack sc cl s k : Good sc cl s -> stack (recompile k s) = stack s.
Proof.
  intro G0. unfold recompile. destruct (memb k (scripts s)); [|reflexivity]. cbv zeta. prj.
  rewrite delete_program_script_eq.
  set (s1 := set_scripts (remove k (scripts s)) s).
  assert (G1 : Good sc cl s1).
  { eapply good_ext; [..|exact G0]; try reflexivity. intros x Hx. exact (d_cur _ _ _ (g_inv _ _ _ G0) x Hx). }
  set (l := filter (fun c => c_script (clsof s1 c) =? k) (chain s1)).
  assert (Hl : forall c, In c l -> c_script (clsof s1 c) = k).
  { intros c Hc. apply filter_In in Hc. destruct Hc as [_ Hc]. now apply N.eqb_eq in Hc. }
  destruct (dps_ok sc cl k s1 l s1 (g_inv _ _ _ G1) (g_clean _ _ _ G1) Hl (fun c => eq_refl)) as (_ & _ & R3 & _).
  destruct (ev_ctl _ _ _ _ R3) as (E & _). exact E.
Qed.

Lemma failed_start_stack k s : stack (let '(c, s1) := new_class k s in destroy_class (dfuel s1) c s1) = stack s.
Proof.
  unfold new_class. set (c := nextid s).
  set (s1 := set_chain (c :: chain _) (set_cpool (cpool _ ++ [c]) (set_classes (set (classes (set_nextid (c + 1) s)) c (mkC k [])) (set_nextid (c + 1) s)))).
  assert (Ef : dfuel s1 = S (pred (dfuel s1))) by reflexivity. rewrite Ef.
  rewrite destroy_class_empty; [reflexivity| |].
  - change (cpool s1) with (cpool s ++ [c]). apply in_or_app. right. now left.
  - unfold clsof. change (classes s1) with (set (classes s) c (mkC k [])). now rewrite gss.
Qed.

Theorem host_step_good sc cl s o :
  Good sc cl s -> stack s = [] -> unflagged (host_step s o) ->
  exists sc' cl', Good sc' cl' (host_step s o) /\ stack (host_step s o) = [].
Proof.
  intros G Est. rewrite host_step_eq. rewrite (g_ub _ _ _ G), (g_oof _ _ _ G). cbn [orb]. cbv zeta.
  pose proof (good_out sc cl s G) as G0.
  assert (Est0 : stack (set_out [] s) = []) by exact Est.
  generalize dependent (set_out [] s). intros s0 G0 Est0.
  destruct o as [p|dt| | |k|k|]; intros [Hub Hoo].
  - destruct (start_pre_good sc cl p s0 G0 Est0) as (sc1 & cl1 & G1).
    destruct (run_stack_good _ _ _ _ G1 Hub Hoo) as (sc' & cl' & G').
    exists sc', cl'. split; [exact G'|]. apply run_stack_empties. split; assumption.
  - exists sc, cl. split; [|exact Est0].
    eapply good_ext; [..|exact G0]; try reflexivity. intros x Hx. exact (d_cur _ _ _ (g_inv _ _ _ G0) x Hx).
  - pose proof (exec_pre_good sc cl s0 G0) as G1.
    destruct (run_stack_good _ _ _ _ G1 Hub Hoo) as (sc' & cl' & G').
    exists sc', cl'. split; [exact G'|]. apply run_stack_empties. split; assumption.
  - exists sc, cl. split; [now apply good_reset|]. rewrite (reset_stack sc cl s0 G0). exact Est0.
  - exists sc, cl. split; [now apply good_recompile|]. rewrite (recompile_stack sc cl s0 k G0). exact Est0.
  - exists sc, cl. destruct (memb k (scripts s0)); [|split; assumption].
    split; [now apply good_failed_start|]. rewrite failed_start_stack. exact Est0.
  - exists sc, cl. split; [now apply good_reset|]. rewrite (reset_stack sc cl s0 G0). exact Est0.
Qed.

(* ---- histories ----------------------------------------------------------------------------------------------- *)
Lemma host_step_flagged s o : ~ unflagged s -> host_step s o = s.
Proof.
  intro H. unfold host_step. destruct (ub s) eqn:E1; [reflexivity|]. destruct (oof s) eqn:E2; [reflexivity|].
  exfalso. apply H. split; assumption.
Qed.

Lemma unflagged_dec s : {unflagged s} + {~ unflagged s}.
Proof.
  unfold unflagged. destruct (ub s); [right; intros [H _]; discriminate|]. destruct (oof s); [right; intros [_ H]; discriminate|].
  left. split; reflexivity.
Qed.

(* what the host sees between two operations *)
Definition obs_ok (ob : obs) : Prop :=
  err ob = O ->
  nvm ob = nthr ob /\
  (ncls ob = O -> nthr ob = O /\ ntmr ob = O /\ idle ob = true) /\
  (nthr ob <> O -> idle ob = false) /\
  (idle ob = true -> ntmr ob = O) /\
  (ntmr ob <= nthr ob)%nat.

Lemma observe_ok sc cl s : Good sc cl s -> stack s = [] -> obs_ok (observe s).
Proof.
  intros [G1 G2 G3 G4 G5 G6 G7] Est _. unfold observe. prj.
  assert (Hvt : incl (vpool s) (tpool s)).
  { intros v Hv. destruct (in_dec N.eq_dec v (tpool s)) as [Hi|Hi]; [exact Hi|]. exfalso.
    pose proof (G5 v Hv Hi) as Q. rewrite Est in Q. exact Q. }
  assert (Htv : incl (tpool s) (vpool s)).
  { intros t Ht. assert (Hh : healthy s t) by (split; [exact Ht|now apply (cl_allh _ G2)]). now destruct (d_thr _ _ _ G1 t Hh). }
  assert (Hlen : length (vpool s) = length (tpool s)).
  { apply Nat.le_antisymm; apply NoDup_incl_length; auto; [exact (d_vp _ _ _ G1)|exact (d_tp _ _ _ G1)]. }
  assert (Hcls : tpool s <> [] -> cpool s <> []).
  { intros Hne Hc. destruct (empty_means_empty sc cl s G1 G2 Hc) as (Q & _). congruence. }
  assert (Htm : (length (elems s) <= length (tpool s))%nat).
  { rewrite <- (map_length fst). apply NoDup_incl_length; [exact (d_tmnd _ _ _ G1)|].
    intros x Hx. apply in_map_iff in Hx. destruct Hx as [e [<- He]]. now destruct (d_tm _ _ _ G1 e He). }
  cbn [nvm nthr ncls ntmr idle err]. split; [exact Hlen|]. split; [|split; [|split; [|exact Htm]]].
  - intro Hc. assert (Ec : cpool s = []) by (destruct (cpool s); [reflexivity|discriminate]).
    destruct (empty_means_empty sc cl s G1 G2 Ec) as (Q1 & _ & Q3 & _). rewrite Q1, Q3, Ec. repeat split.
  - intro Hn. destruct (cpool s) eqn:Ec; [|reflexivity]. exfalso. apply Hcls; [|reflexivity]. intro E. rewrite E in Hn. now apply Hn.
  - intro Hi. destruct (cpool s) eqn:Ec; [|discriminate].
    destruct (empty_means_empty sc cl s G1 G2 Ec) as (_ & _ & Q3 & _). now rewrite Q3.
Qed.

(* every timer element is a distinct pooled thread in state Timing, in every good state *)
Lemma timer_elements_ok sc cl s :
  Good sc cl s ->
  NoDup (map fst (elems s)) /\
  forall e, In e (elems s) -> In (fst e) (tpool s) /\ t_vm (th s (fst e)) = true /\ t_state (th s (fst e)) = TTiming.
Proof.
  intros [G1 G2 _ _ _ _ _]. split; [exact (d_tmnd _ _ _ G1)|]. intros e He. destruct (d_tm _ _ _ G1 e He) as [Q1 Q2].
  split; [exact Q1|]. split; [now apply (cl_allh _ G2)|exact Q2].
Qed.

Lemma obs_ok_flagged s : ~ unflagged s -> obs_ok (observe s).
Proof.
  intros H He. exfalso. apply H. unfold observe in He. cbn [err] in He. unfold unflagged.
  destruct (ub s); [discriminate|]. destruct (oof s); [discriminate|]. split; reflexivity.
Qed.

Theorem run_from_ok : forall ops sc cl s,
  Good sc cl s -> stack s = [] -> Forall obs_ok (run_from s ops).
Proof.
  induction ops as [|o ops IH]; intros sc cl s G Est; cbn [run_from]; [constructor|].
  destruct (unflagged_dec (host_step s o)) as [Hu|Hu].
  - destruct (host_step_good sc cl s o G Est Hu) as (sc' & cl' & G' & Est').
    constructor; [eapply observe_ok; eauto|eapply IH; eauto].
  - constructor; [now apply obs_ok_flagged|].
    (* after an error the model repeats the flagged state *)
    clear IH. generalize dependent (host_step s o). intros s' Hu. clear - Hu. induction ops as [|o' ops IH]; cbn [run_from]; [constructor|].
    rewrite (host_step_flagged s' o' Hu). constructor; [now apply obs_ok_flagged|exact IH].
Qed.

Theorem run_ok ops : Forall obs_ok (run ops).
Proof. unfold run. eapply run_from_ok; [apply good_init|reflexivity]. Qed.

(* every state a history reaches without an error satisfies the invariant, with an empty call stack *)
Theorem reach_good : forall ops sc cl s,
  Good sc cl s -> stack s = [] -> unflagged (fold_left host_step ops s) ->
  exists sc' cl', Good sc' cl' (fold_left host_step ops s) /\ stack (fold_left host_step ops s) = [].
Proof.
  induction ops as [|o ops IH]; intros sc cl s G Est Hu; cbn [fold_left] in *.
  - exists sc, cl. split; assumption.
  - destruct (unflagged_dec (host_step s o)) as [Hu1|Hu1].
    + destruct (host_step_good sc cl s o G Est Hu1) as (sc' & cl' & G' & Est'). eapply IH; eauto.
    + exfalso. assert (E : fold_left host_step ops (host_step s o) = host_step s o).
      { generalize dependent (host_step s o). intros s' _ Hu1. clear - Hu1. induction ops as [|o' ops IH]; [reflexivity|].
        cbn [fold_left]. rewrite (host_step_flagged s' o' Hu1). exact IH. }
      rewrite E in Hu. exact (Hu1 Hu).
Qed.

(* Reset between two frames: the host sees a new engine *)
Theorem reset_observed sc cl s :
  Good sc cl s -> stack s = [] ->
  let ob := observe (host_step s OReset) in
  ncls ob = O /\ nthr ob = O /\ nvm ob = O /\ nscr ob = O /\ ntmr ob = O /\ idle ob = true /\ err ob = O.
Proof.
  intros G Est. cbv zeta. rewrite host_step_eq. rewrite (g_ub _ _ _ G), (g_oof _ _ _ G). cbn [orb]. cbv zeta.
  pose proof (good_out sc cl s G) as G0. assert (Est0 : stack (set_out [] s) = []) by exact Est.
  generalize dependent (set_out [] s). intros s0 G0 Est0.
  pose proof (good_reset sc cl s0 G0) as GR.
  destruct (reset_ok sc cl s0 (g_inv _ _ _ G0) (g_clean _ _ _ G0)) as (_ & _ & R3 & R4 & _ & R6 & R7 & _).
  assert (EstR : stack (reset s0) = []) by (rewrite (reset_stack sc cl s0 G0); exact Est0).
  pose proof (observe_ok sc cl (reset s0) GR EstR) as Q.
  unfold observe in *. cbn [ncls nthr nvm nscr ntmr idle err] in *. rewrite (g_ub _ _ _ GR), (g_oof _ _ _ GR) in *.
  destruct (Q eq_refl) as (Q1 & _). rewrite R3, R4, R6, R7 in *. cbn [length] in *. repeat split; assumption.
Qed.

Theorem timer_elements_reachable : forall ops sc cl s,
  Good sc cl s -> stack s = [] -> unflagged (fold_left host_step ops s) ->
  let s' := fold_left host_step ops s in
  NoDup (map fst (elems s')) /\
  forall e, In e (elems s') -> In (fst e) (tpool s') /\ t_vm (th s' (fst e)) = true /\ t_state (th s' (fst e)) = TTiming.
Proof.
  intros ops sc cl s G Est Hu. destruct (reach_good ops sc cl s G Est Hu) as (sc' & cl' & G' & _).
  exact (timer_elements_ok sc' cl' _ G').
Qed.

Lemma failed_start_pools sc cl k s :
  Good sc cl s ->
  let s' := (let '(c, s1) := new_class k s in destroy_class (dfuel s1) c s1) in
  Good sc cl s' /\ cpool s' = cpool s /\ chain s' = chain s /\ tpool s' = tpool s /\ vpool s' = vpool s.
Proof.
  intro G. cbv zeta. split; [now apply good_failed_start|].
  unfold new_class. set (c := nextid s).
  set (s1 := set_chain (c :: chain _) (set_cpool (cpool _ ++ [c]) (set_classes (set (classes (set_nextid (c + 1) s)) c (mkC k [])) (set_nextid (c + 1) s)))).
  assert (Hnc : ~ In c (cpool s)) by (intro Hx; pose proof (g_fresh _ _ _ G c (or_intror (or_intror Hx))); unfold c in *; lia).
  assert (Hnch : ~ In c (chain s)) by (intro Hx; apply Hnc; now apply (d_chin _ _ _ (g_inv _ _ _ G))).
  assert (Ef : dfuel s1 = S (pred (dfuel s1))) by reflexivity. rewrite Ef.
  rewrite destroy_class_empty.
  2:{ change (cpool s1) with (cpool s ++ [c]). apply in_or_app. right. now left. }
  2:{ unfold clsof. change (classes s1) with (set (classes s) c (mkC k [])). now rewrite gss. }
  split; [|split; [|split; reflexivity]].
  - rewrite cpool_destroy_empty. change (cpool s1) with (cpool s ++ [c]). rewrite remove_app, (remove_notin c (cpool s) Hnc).
    unfold remove. cbn [filter]. rewrite N.eqb_refl. cbn [negb]. apply app_nil_r.
  - rewrite chain_destroy_empty. change (chain s1) with (c :: chain s). unfold remove. cbn [filter]. rewrite N.eqb_refl. cbn [negb].
    fold (remove c (chain s)). now apply remove_notin.
Qed.

Lemma reset_forgets_globals s v k : get (gvars (reset s)) v = 0 /\ get (refs (reset s)) k = None.
Proof. split; apply get_empty. Qed.
Lemma timing_commands_ok sc cl s b d :
  Good sc cl s -> healthy s b -> Good sc cl (wait_on b d s) /\ Good sc cl (pause_on b s).
Proof. intros G Hb. split; [exact (good_wait_on sc cl s b d G Hb)|exact (good_pause_on sc cl s b G Hb)]. Qed.
