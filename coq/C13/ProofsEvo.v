(* C13/ProofsEvo.v — what a whole destruction (one thread with its cascade, one instance, all
   instances, the instances of one script) does, as a transitive relation between states. *)
From Coq Require Import NArith List Bool Lia PeanoNat Wf_nat Permutation.
From Morfuse Require Import Base.Arr Base.ListX C13.Model C13.Spec C13.ProofsLib C13.ProofsAbs C13.ProofsInv C13.ProofsKill.
Import ListNotations.
Local Open Scope N_scope.

Definition wokenby (s s' : st) (x : N) : Prop :=
  t_state (th s x) = TWaiting /\
  th s' x = mkT (t_vm (th s x)) TTiming None (t_notify (th s x)) /\
  exists y, t_waitfor (th s x) = Some y /\ In y (tpool s) /\ ~ In y (tpool s').

(* P: what is known of a destroyed thread; Q: of a destroyed instance *)
Record Evo (P Q : N -> Prop) (s s' : st) : Prop := {
  ev_t : incl (tpool s') (tpool s);
  ev_v : incl (vpool s') (vpool s);
  ev_c : incl (cpool s') (cpool s) /\ incl (chain s') (chain s);
  ev_kill : forall x, In x (tpool s) -> ~ In x (tpool s') -> healthy s x /\ P x;
  ev_ckill : forall c, In c (cpool s) -> ~ In c (cpool s') -> Q c;
  ev_th : forall x, In x (tpool s') -> th s' x = th s x \/ wokenby s s' x;
  ev_vm : forall x, In x (tpool s') \/ ~ In x (tpool s) -> vmof s' x = vmof s x;
  ev_vkeep : forall v, In v (vpool s) -> In v (tpool s') \/ ~ In v (tpool s) \/ v_state (vmof s v) <> VIdling -> In v (vpool s');
  ev_cscript : forall c, c_script (clsof s' c) = c_script (clsof s c);
  ev_chkeep : forall c, In c (cpool s') -> In c (chain s) -> In c (chain s');
  ev_cur : cur s' = match cur s with Some x => if memb x (tpool s') then Some x else None | None => None end;
  ev_flags : ub s' = ub s /\ oof s' = oof s;
  ev_ctl : ctl_eq s s';
  ev_hc : (hcount s' <= hcount s)%nat;
  ev_ne : NE s -> NE s';
  ev_log : Lcons s s';
  ev_vgone : forall v, In v (tpool s) -> ~ In v (tpool s') -> v_state (vmof s v) = VIdling -> ~ In v (vpool s') }.

Lemma evo_refl P Q s : (forall x, cur s = Some x -> In x (tpool s)) -> Evo P Q s s.
Proof.
  intro Hc. constructor; try (apply incl_refl); try tauto; auto.
  - split; apply incl_refl.
  - destruct (cur s) as [x|] eqn:E; [|reflexivity]. now rewrite (memb_true _ _ (Hc x eq_refl)).
  - apply ctl_eq_refl.
  - apply lcons_refl.
Qed.

Lemma evo_weaken (P Q P' Q' : N -> Prop) s s' :
  (forall x, P x -> P' x) -> (forall c, Q c -> Q' c) -> Evo P Q s s' -> Evo P' Q' s s'.
Proof.
  intros HP HQ E. destruct E. constructor; auto.
  intros x Hx Hn. destruct (ev_kill0 x Hx Hn). auto.
Qed.

Lemma evo_trans P Q s1 s2 s3 : Evo P Q s1 s2 -> Evo P Q s2 s3 -> Evo P Q s1 s3.
Proof.
  intros A B. destruct A as [a1 a2 [a3 a3'] a4 a5 a6 a7 a8 a9 a10 a11 [a12 a12'] a13 a14 a15 a16 a17].
  destruct B as [b1 b2 [b3 b3'] b4 b5 b6 b7 b8 b9 b10 b11 [b12 b12'] b13 b14 b15 b16 b17].
  constructor.
  - eapply incl_tran; eauto.
  - eapply incl_tran; eauto.
  - split; eapply incl_tran; eauto.
  - intros x Hx Hn. destruct (in_dec N.eq_dec x (tpool s2)) as [H2|H2].
    + destruct (b4 x H2 Hn) as [[_ Hv] Hp]. split; [|exact Hp]. split; [exact Hx|].
      destruct (a6 x H2) as [E|(_ & E & _)]; [now rewrite <- E|]. rewrite E in Hv. exact Hv.
    + exact (a4 x Hx H2).
  - intros c Hc Hn. destruct (in_dec N.eq_dec c (cpool s2)) as [H2|H2]; [exact (b5 c H2 Hn)|exact (a5 c Hc H2)].
  - intros x Hx. pose proof (b1 x Hx) as Hx2.
    destruct (b6 x Hx) as [E2|W2]; destruct (a6 x Hx2) as [E1|W1].
    + left. congruence.
    + right. destruct W1 as (W1 & W1' & y & Wy & Wy1 & Wy2). split; [exact W1|]. split; [congruence|].
      exists y. split; [exact Wy|]. split; [exact Wy1|]. intro H3. apply Wy2. now apply b1.
    + right. destruct W2 as (W2 & W2' & y & Wy & Wy1 & Wy2). rewrite E1 in *. split; [exact W2|]. split; [exact W2'|].
      exists y. split; [exact Wy|]. split; [now apply a1|exact Wy2].
    + exfalso. destruct W1 as (_ & W1' & _). destruct W2 as (W2 & _). rewrite W1' in W2. discriminate.
  - intros x Hx. assert (H2 : In x (tpool s2) \/ ~ In x (tpool s1)).
    { destruct Hx as [Hx|Hx]; [left; now apply b1|right; exact Hx]. }
    rewrite b7; [now apply a7|]. destruct Hx as [Hx|Hx]; [now left|]. right. intro H3. apply Hx. now apply a1.
  - intros v Hv Hc.
    assert (Hv2 : In v (vpool s2)).
    { apply a8; [exact Hv|]. destruct Hc as [Hc|[Hc|Hc]]; [left; now apply b1|tauto|tauto]. }
    apply b8; [exact Hv2|].
    destruct Hc as [Hc|[Hc|Hc]]; [now left| |].
    + right. left. intro H3. apply Hc. now apply a1.
    + destruct (in_dec N.eq_dec v (tpool s2)) as [H2|H2]; [|tauto].
      right. right. rewrite a7; [exact Hc|now left].
  - intro c. now rewrite b9.
  - intros c Hc Hch. apply b10; [exact Hc|]. apply a10; [now apply b3|exact Hch].
  - rewrite b11, a11. destruct (cur s1) as [x|]; [|reflexivity].
    destruct (memb_spec x (tpool s2)) as [H2|H2]; [reflexivity|].
    destruct (memb_spec x (tpool s3)) as [H3|H3]; [exfalso; apply H2; now apply b1|reflexivity].
  - split; congruence.
  - eapply ctl_eq_trans; eauto.
  - lia.
  - auto.
  - eapply lcons_trans; eauto.
  - intros v Hv Hn Hs Hin'. destruct (in_dec N.eq_dec v (tpool s2)) as [H2|H2].
    + apply (b17 v H2 Hn); [|exact Hin']. rewrite a7 by (now left). exact Hs.
    + apply (a17 v Hv H2 Hs). now apply b2.
Qed.

(* the deletion of one thread is such an evolution *)
Lemma dtpost_evo sc cl t s s' :
  healthy s t -> DTpost sc cl t s s' ->
  Evo (fun x => sc x = sc t /\ cl t <= cl x) (fun c => cl t <= c /\ c_script (clsof s c) = sc t) s s'.
Proof.
  intros Ht D.
  destruct D as [d1 d2 d3 d4 d5 d6 d7 d8 d9 d10 d11 d12 d13 d14 d15 d16 d17 d18 d19 d20 d21].
  constructor.
  - exact d4.
  - exact d9.
  - exact d11.
  - intros x Hx Hn. destruct (d6 x Hx Hn) as (K1 & K2 & K3). tauto.
  - intros c Hc Hn. destruct (d14 c Hc Hn). tauto.
  - intros x Hx. destruct (d7 x Hx) as [E|W]; [now left|right]. unfold woken in W. destruct W as (W1 & W2 & W2' & W3).
    split; [exact W2'|]. split; [exact W3|]. exists t. split; [exact W2|]. split; [apply Ht|exact d5].
  - exact d8.
  - exact d10.
  - exact d13.
  - exact d15.
  - exact d17.
  - exact d2.
  - exact d3.
  - lia.
  - exact d19.
  - exact d20.
  - exact d21.
Qed.

(* ---- the destruction of an instance (between two cascades every pooled thread is whole) ---------- *)
Definition allh (s : st) : Prop := forall x, In x (tpool s) -> t_vm (th s x) = true.

Lemma anc_allh cl s t : allh s -> anc cl s t.
Proof. intros Ha x Hx Hv. rewrite (Ha x Hx) in Hv. discriminate. Qed.

Definition kill_list (f : nat) : list N -> st -> st :=
  fix kill (l : list N) (a : st) {struct l} : st :=
    match l with
    | [] => a
    | t :: r => kill r (if memb t (tpool a) then delete_thread f t a else a)
    end.
Lemma kill_list_nil f s : kill_list f [] s = s.
Proof. reflexivity. Qed.
Lemma kill_list_cons f t r s : kill_list f (t :: r) s = kill_list f r (if memb t (tpool s) then delete_thread f t s else s).
Proof. reflexivity. Qed.
Definition detach (l : list N) (s : st) : st := fold_left (fun a v => set_vclass v None a) l s.

Lemma detach_fields l : forall s,
  threads (detach l s) = threads s /\ classes (detach l s) = classes s /\ tpool (detach l s) = tpool s /\
  vpool (detach l s) = vpool s /\ cpool (detach l s) = cpool s /\ chain (detach l s) = chain s /\ elems (detach l s) = elems s /\
  cur (detach l s) = cur s /\ ub (detach l s) = ub s /\ oof (detach l s) = oof s /\ ctl_eq s (detach l s) /\
  forall x, vmof (detach l s) x = if memb x l then mkV None (v_state (vmof s x)) (v_cont (vmof s x)) else vmof s x.
Proof.
  induction l as [|v l IH]; intro s; cbn [detach fold_left].
  - repeat split; try reflexivity.
  - fold (detach l (set_vclass v None s)).
    destruct (IH (set_vclass v None s)) as (E1 & E2 & E3 & E4 & E5 & E6 & E7 & E8 & E9 & E10 & E11 & E12).
    rewrite E1, E2, E3, E4, E5, E6, E7, E8, E9, E10. repeat (split; [reflexivity|]). split.
    + eapply ctl_eq_trans; [|exact E11]. unfold ctl_eq. repeat split; reflexivity.
    + intro x. rewrite E12. cbn [memb]. rewrite !vm_set_vclass. rewrite (N.eqb_sym v x).
      destruct (N.eqb_spec x v) as [->|_]; cbn [orb]; prj; destruct (memb _ l); reflexivity.
Qed.

Lemma detach_logs l : forall s,
  tlog (detach l s) = tlog s /\ vlog (detach l s) = vlog s /\ clog (detach l s) = clog s.
Proof.
  induction l as [|v l IH]; intro s; [repeat split|]. cbn [detach fold_left]. fold (detach l (set_vclass v None s)).
  destruct (IH (set_vclass v None s)) as (A & B & C). rewrite A, B, C. repeat split.
Qed.

Lemma detach_checked l : forall s, (forall v, In v l -> In v (vpool s)) ->
  fold_left (fun a v => if memb v (vpool a) then set_vclass v None a else flag_ub a) l s = detach l s.
Proof.
  induction l as [|v l IH]; intros s H; cbn [fold_left detach]; [reflexivity|].
  rewrite (memb_true v (vpool s)) by (apply H; now left). apply IH. intros x Hx. apply H. now right.
Qed.

Lemma destroy_class_eq f c s :
  In c (cpool s) -> (forall v, In v (c_threads (clsof s c)) -> In v (vpool s)) ->
  destroy_class (S f) c s =
    free_class c (kill_list f (c_threads (clsof s c))
                   (set_cthreads c [] (detach (c_threads (clsof s c)) (set_chain (remove c (chain s)) s)))).
Proof.
  intros Hc Hv. cbn [destroy_class]. rewrite (memb_true _ _ Hc). cbn [negb]. cbv zeta.
  change (clsof (set_chain (remove c (chain s)) s) c) with (clsof s c).
  rewrite detach_checked by exact Hv. reflexivity.
Qed.

(* the instance is unlinked and its threads are detached *)
Lemma dinv_detach sc cl s c :
  Dinv sc cl s -> In c (cpool s) ->
  Dinv sc cl (set_cthreads c [] (detach (c_threads (clsof s c)) (set_chain (remove c (chain s)) s))).
Proof.
  intros H Hc. set (l := c_threads (clsof s c)). set (s1 := set_chain (remove c (chain s)) s).
  destruct (detach_fields l s1) as (E1 & E2 & E3 & E4 & E5 & E6 & E7 & E8 & E9 & E10 & E11 & E12).
  set (s2 := detach l s1) in *. set (s3 := set_cthreads c [] s2).
  assert (Eth : forall x, th s3 x = th s x) by (intro x; unfold th; change (threads s3) with (threads s2); now rewrite E1).
  assert (Evm : forall x, vmof s3 x = if memb x l then mkV None (v_state (vmof s x)) (v_cont (vmof s x)) else vmof s x).
  { intro x. change (vmof s3 x) with (vmof s2 x). apply E12. }
  assert (Ecl : forall x, clsof s3 x = if x =? c then mkC (c_script (clsof s c)) [] else clsof s x).
  { intro x. unfold s3. rewrite cls_set_cthreads. unfold clsof. rewrite E2. reflexivity. }
  assert (Etp : tpool s3 = tpool s) by exact E3.
  assert (Evp : vpool s3 = vpool s) by exact E4.
  assert (Ecp : cpool s3 = cpool s) by exact E5.
  assert (Ech : chain s3 = remove c (chain s)) by exact E6.
  assert (Eel : elems s3 = elems s) by exact E7.
  assert (Ecu : cur s3 = cur s) by exact E8.
  assert (Hh : forall x, healthy s3 x <-> healthy s x) by (intro x; unfold healthy; now rewrite Etp, Eth).
  assert (Hl : forall x, In x l -> v_class (vmof s x) = Some c).
  { intros x Hx. now destruct (d_clin _ _ _ H c x Hc Hx). }
  clearbody s3. clear E1 E2 E3 E4 E5 E6 E7 E8 E9 E10 E11 E12.
  dinv H. constructor; rewrite ?Etp, ?Evp, ?Ecp, ?Ech, ?Eel, ?Ecu; try assumption.
  - now apply nodup_remove.
  - intros x Hx. apply in_remove in Hx. apply Hchin. tauto.
  - intros x Hx. apply Hh in Hx. destruct (Hthr x Hx) as (Q1 & Q2 & Q3). rewrite Evm.
    destruct (memb_spec x l) as [Hxl|Hxl]; prj.
    + split; [exact Q1|]. split; [exact Q2|]. intros c' Hc'. discriminate.
    + split; [exact Q1|]. split; [exact Q2|]. intros c' Hc'. destruct (Q3 c' Hc') as [Q4 Q5]. split; [exact Q4|].
      rewrite Ecl. destruct (N.eqb_spec c' c) as [->|_]; [|exact Q5].
      exfalso. apply Hxl. now apply (Hclall c x Hx).
  - intros x c' Hx. rewrite Evm. destruct (memb x l); prj; [discriminate|now apply Hcl].
  - intros c' Hc'. rewrite Ecl. destruct (N.eqb_spec c' c); prj; [constructor|now apply Hclnd].
  - intros c' x Hc'. rewrite Ecl. destruct (N.eqb_spec c' c) as [->|Hne]; prj; [intros []|].
    intro Hx. destruct (Hclin c' x Hc' Hx) as [Q1 Q2]. split; [exact Q1|]. rewrite Evm.
    destruct (memb_spec x l) as [Hxl|_]; [|exact Q2]. rewrite (Hl x Hxl) in Q2. congruence.
  - intros c' x Hx. apply Hh in Hx. rewrite Evm. destruct (memb_spec x l) as [Hxl|Hxl]; prj; [discriminate|].
    intro Hc'. rewrite Ecl. destruct (N.eqb_spec c' c) as [->|_]; [|now apply Hclall].
    exfalso. apply Hxl. now apply (Hclall c x Hx).
  - intros c' Hc' Hn. rewrite Ecl. destruct (N.eqb_spec c' c) as [->|Hne]; [reflexivity|].
    apply Hdying; [exact Hc'|]. intro Hi. apply Hn. apply in_remove. tauto.
  - intros e He. rewrite Eth. now apply Htm.
  - intros p c' Hp. apply Hh in Hp. rewrite !Eth. now apply Hwf.
  - intros c' p Hc'. rewrite !Eth. now apply Hnf.
  - intros v Hv. rewrite Evm. destruct (Hzomb v Hv) as [Q|Q]; [now left|right]. destruct (memb v l); exact Q.
Qed.

(* the pool frees an instance that has unlinked itself and lost its threads *)
Lemma dinv_free_class_dying sc cl s c :
  Dinv sc cl s -> c_threads (clsof s c) = [] -> ~ In c (chain s) -> Dinv sc cl (free_class c s).
Proof.
  intros H He Hn. dinv H. constructor; ssh; try assumption.
  - now apply nodup_remove.
  - intros x Hx. apply in_remove. split; [now apply Hchin|]. intros ->. tauto.
  - intros x Hx. destruct (Hthr x Hx) as (H1 & H2 & H3). split; [exact H1|]. split; [exact H2|].
    intros c' Hc'. destruct (H3 c' Hc') as [H4 H5]. split; [|exact H5].
    apply in_remove. split; [exact H4|]. intros ->. pose proof (Hclall c x Hx Hc') as Hin. rewrite He in Hin. exact Hin.
  - intros c' Hc'. apply in_remove in Hc'. apply Hclnd. tauto.
  - intros c' x Hc'. apply in_remove in Hc'. apply Hclin. tauto.
  - intros c' Hc' Hn'. apply in_remove in Hc'. apply Hdying; tauto.
Qed.

Lemma allh_after_dt sc cl t s s' : allh s -> DTpost sc cl t s s' -> allh s'.
Proof.
  intros Ha D x Hx. destruct D as [d1 d2 d3 d4 d5 d6 d7 d8 d9 d10 d11 d12 d13 d14 d15 d16 d17 d18 d19 d20 d21].
  destruct (d7 x Hx) as [E|W].
  - rewrite E. apply Ha. now apply d4.
  - destruct W as (_ & _ & _ & W). rewrite W. prj. apply Ha. now apply d4.
Qed.

Lemma kill_list_ok sc cl c k f : forall l s,
  Dinv sc cl s -> allh s ->
  (forall t, In t l -> In t (tpool s) -> v_class (vmof s t) = None /\ cl t = c /\ sc t = k) ->
  In c (cpool s) -> ~ In c (chain s) -> c_threads (clsof s c) = [] ->
  (4 * hcount s + 4 <= f)%nat ->
  Dinv sc cl (kill_list f l s) /\ allh (kill_list f l s) /\
  Evo (fun x => sc x = k /\ c <= cl x) (fun c' => c <= c' /\ c_script (clsof s c') = k) s (kill_list f l s) /\
  (forall t, In t l -> ~ In t (tpool (kill_list f l s))) /\
  In c (cpool (kill_list f l s)) /\ ~ In c (chain (kill_list f l s)) /\ c_threads (clsof (kill_list f l s) c) = [].
Proof.
  induction l as [|t r IH]; intros s H Ha Hl Hc Hn He Hf.
  - rewrite kill_list_nil. split; [exact H|]. split; [exact Ha|]. split; [apply evo_refl; exact (d_cur _ _ _ H)|].
    split; [intros t []|]. tauto.
  - rewrite kill_list_cons. destruct (memb_spec t (tpool s)) as [Hin|Hin].
    + (* the thread still exists: delete it *)
      assert (Ht : healthy s t) by (split; [exact Hin|now apply Ha]).
      destruct (Hl t (or_introl eq_refl) Hin) as (Hcn & Hcl & Hsc).
      pose proof (delete_thread_ok sc cl f t s H Ht (anc_allh cl s t Ha) Hf) as D.
      pose proof (allh_after_dt sc cl t s _ Ha D) as Ha1.
      pose proof (dtpost_evo sc cl t s _ Ht D) as E1.
      set (s1 := delete_thread f t s) in *.
      destruct D as [d1 d2 d3 d4 d5 d6 d7 d8 d9 d10 d11 d12 d13 d14 d15 d16 d17 d18 d19 d20 d21].
      destruct (d12 c) as (Q1 & Q2 & Q3); [right; split; [now symmetry|exact Hcn]|].
      assert (Hl1 : forall t', In t' r -> In t' (tpool s1) -> v_class (vmof s1 t') = None /\ cl t' = c /\ sc t' = k).
      { intros t' Hr Hi. rewrite d8 by (now left). apply Hl; [now right|now apply d4]. }
      assert (Hn1 : ~ In c (chain s1)) by (intro Hi; apply Hn; now apply (proj2 d11)).
      assert (He1 : c_threads (clsof s1 c) = []) by (now rewrite Q1).
      assert (Hf1 : (4 * hcount s1 + 4 <= f)%nat) by lia.
      destruct (IH s1 d1 Ha1 Hl1 (Q2 Hc) Hn1 He1 Hf1) as (R1 & R2 & R3 & R4 & R5).
      split; [exact R1|]. split; [exact R2|]. split; [|split; [|exact R5]].
      * eapply evo_trans.
        -- eapply evo_weaken; [| |exact E1].
           ++ intros x [X1 X2]. split; [congruence|lia].
           ++ intros c' [X1 X2]. split; [lia|congruence].
        -- eapply evo_weaken; [| |exact R3].
           ++ tauto.
           ++ intros c' [X1 X2]. split; [exact X1|]. now rewrite <- d13.
      * intros t' [<-|Hr]; [|now apply R4].
        intro Hi. apply d5. destruct R3 as [r1 _]. now apply r1.
    + (* it is gone already (weak reference) *)
      assert (Hl1 : forall t', In t' r -> In t' (tpool s) -> v_class (vmof s t') = None /\ cl t' = c /\ sc t' = k).
      { intros t' Hr Hi. apply Hl; [now right|exact Hi]. }
      destruct (IH s H Ha Hl1 Hc Hn He Hf) as (R1 & R2 & R3 & R4 & R5).
      split; [exact R1|]. split; [exact R2|]. split; [exact R3|]. split; [|exact R5].
      intros t' [<-|Hr]; [|now apply R4]. intro Hi. apply Hin. destruct R3 as [r1 _]. now apply r1.
Qed.

Theorem destroy_class_ok sc cl c s f :
  Dinv sc cl s -> allh s -> In c (cpool s) -> (4 * hcount s + 5 <= f)%nat ->
  Dinv sc cl (destroy_class f c s) /\ allh (destroy_class f c s) /\
  Evo (fun x => sc x = c_script (clsof s c) /\ c <= cl x)
      (fun c' => c <= c' /\ c_script (clsof s c') = c_script (clsof s c)) s (destroy_class f c s) /\
  ~ In c (cpool (destroy_class f c s)) /\
  (forall t, In t (tpool s) -> v_class (vmof s t) = Some c -> ~ In t (tpool (destroy_class f c s))).
Proof.
  intros H Ha Hc Hf. destruct f as [|f]; [lia|].
  set (k := c_script (clsof s c)). set (l := c_threads (clsof s c)).
  assert (Hlin : forall v, In v l -> healthy s v /\ v_class (vmof s v) = Some c).
  { intros v Hv. destruct (d_clin _ _ _ H c v Hc Hv) as [Q1 Q2]. split; [split; [exact Q1|now apply Ha]|exact Q2]. }
  rewrite destroy_class_eq; [|exact Hc|].
  2:{ intros v Hv. destruct (Hlin v Hv) as [Hh _]. now destruct (d_thr _ _ _ H v Hh). }
  fold l.
  pose proof (dinv_detach sc cl s c H Hc) as H3. fold l in H3.
  destruct (detach_fields l (set_chain (remove c (chain s)) s)) as (E1 & E2 & E3 & E4 & E5 & E6 & E7 & E8 & E9 & E10 & E11 & E12).
  set (s3 := set_cthreads c [] (detach l (set_chain (remove c (chain s)) s))) in *.
  assert (Eth : forall x, th s3 x = th s x) by (intro x; unfold th; change (threads s3) with (threads (detach l (set_chain (remove c (chain s)) s))); now rewrite E1).
  assert (Evm : forall x, vmof s3 x = if memb x l then mkV None (v_state (vmof s x)) (v_cont (vmof s x)) else vmof s x) by (intro x; apply E12).
  assert (Ecl : forall x, clsof s3 x = if x =? c then mkC (c_script (clsof s c)) [] else clsof s x).
  { intro x. unfold s3. rewrite cls_set_cthreads. unfold clsof. rewrite E2. reflexivity. }
  assert (Etp : tpool s3 = tpool s) by exact E3.
  assert (Evp : vpool s3 = vpool s) by exact E4.
  assert (Ecp : cpool s3 = cpool s) by exact E5.
  assert (Ech : chain s3 = remove c (chain s)) by exact E6.
  assert (Ecu : cur s3 = cur s) by exact E8.
  assert (Eub : ub s3 = ub s) by exact E9.
  assert (Eoo : oof s3 = oof s) by exact E10.
  assert (Ect : ctl_eq s s3) by (eapply ctl_eq_trans; [|exact E11]; unfold ctl_eq; repeat split; reflexivity).
  assert (Ehc : hcount s3 = hcount s) by (apply hcount_same; [exact Etp|intro u; now rewrite Eth]).
  assert (Ecs : forall x, c_script (clsof s3 x) = c_script (clsof s x)) by (intro x; rewrite Ecl; destruct (N.eqb_spec x c) as [->|_]; reflexivity).
  assert (Elg : tlog s3 = tlog s /\ vlog s3 = vlog s /\ clog s3 = clog s).
  { destruct (detach_logs l (set_chain (remove c (chain s)) s)) as (A & B & C'). unfold s3. prj. rewrite A, B, C'. repeat split. }
  destruct Elg as (Lg1 & Lg2 & Lg3).
  clearbody s3. clear E1 E2 E3 E4 E5 E6 E7 E8 E9 E10 E11 E12.
  assert (Ha3 : allh s3) by (intros x Hx; rewrite Eth; apply Ha; now rewrite <- Etp).
  assert (Hl3 : forall t, In t l -> In t (tpool s3) -> v_class (vmof s3 t) = None /\ cl t = c /\ sc t = k).
  { intros t Ht _. destruct (Hlin t Ht) as [Hh Hv]. rewrite Evm, (memb_true _ _ Ht). prj. split; [reflexivity|].
    split; [symmetry; apply (d_cl _ _ _ H t c); [apply Hh|exact Hv]|].
    destruct (d_thr _ _ _ H t Hh) as (_ & _ & Q). destruct (Q c Hv) as [_ Q2]. now symmetry. }
  assert (Hc3 : In c (cpool s3)) by (now rewrite Ecp).
  assert (Hn3 : ~ In c (chain s3)) by (rewrite Ech; intro Hi; apply in_remove in Hi; tauto).
  assert (He3 : c_threads (clsof s3 c) = []) by (rewrite Ecl, N.eqb_refl; reflexivity).
  assert (Hf3 : (4 * hcount s3 + 4 <= f)%nat) by lia.
  destruct (kill_list_ok sc cl c k f l s3 H3 Ha3 Hl3 Hc3 Hn3 He3 Hf3) as (R1 & R2 & R3 & R4 & R5 & R6 & R7).
  set (s4 := kill_list f l s3) in *.
  pose proof (dinv_free_class_dying sc cl s4 c R1 R7 R6) as H5.
  destruct R3 as [r1 r2 [r3 r3'] r4 r5 r6 r7 r8 r9 r10 r11 [r12 r12'] r13 r14 r15 r16 r17].
  assert (Hldead : forall t, In t (tpool s) -> v_class (vmof s t) = Some c -> ~ In t (tpool s4)).
  { intros t Ht Hv. apply R4. apply (d_clall _ _ _ H c t); [split; [exact Ht|now apply Ha]|exact Hv]. }
  split; [exact H5|]. split; [exact R2|]. split; [|split].
  - constructor.
    + change (tpool (free_class c s4)) with (tpool s4). now rewrite <- Etp.
    + change (vpool (free_class c s4)) with (vpool s4). now rewrite <- Evp.
    + change (cpool (free_class c s4)) with (remove c (cpool s4)). change (chain (free_class c s4)) with (chain s4). split.
      * intros x Hx. apply in_remove in Hx. rewrite <- Ecp. apply r3. tauto.
      * intros x Hx. apply r3' in Hx. rewrite Ech in Hx. apply in_remove in Hx. tauto.
    + change (tpool (free_class c s4)) with (tpool s4). intros x Hx Hn. rewrite <- Etp in Hx.
      destruct (r4 x Hx Hn) as [[_ Q1] Q2]. split; [|exact Q2]. split; [now rewrite <- Etp|now rewrite <- Eth].
    + change (cpool (free_class c s4)) with (remove c (cpool s4)). intros c' Hc' Hn'.
      destruct (N.eq_dec c' c) as [->|Hne]; [split; [lia|reflexivity]|].
      rewrite <- Ecp in Hc'. destruct (r5 c' Hc') as [Q1 Q2]; [intro Hi; apply Hn'; apply in_remove; tauto|].
      split; [exact Q1|]. now rewrite <- Ecs.
    + change (tpool (free_class c s4)) with (tpool s4). change (th (free_class c s4)) with (th s4). intros x Hx.
      destruct (r6 x Hx) as [E|W]; [left; now rewrite E|right].
      destruct W as (W1 & W2 & y & W3 & W4 & W5). rewrite !Eth in *. split; [exact W1|]. split; [exact W2|].
      exists y. split; [exact W3|]. split; [now rewrite <- Etp|exact W5].
    + change (tpool (free_class c s4)) with (tpool s4). change (vmof (free_class c s4)) with (vmof s4). intros x Hx.
      rewrite r7 by (rewrite Etp; exact Hx). rewrite Evm.
      destruct (memb_spec x l) as [Hxl|_]; [|reflexivity]. exfalso.
      destruct (Hlin x Hxl) as [[Hi _] Hv]. destruct Hx as [Hx|Hx]; [exact (Hldead x Hi Hv Hx)|tauto].
    + change (tpool (free_class c s4)) with (tpool s4). change (vpool (free_class c s4)) with (vpool s4). intros v Hv Hcond.
      apply r8; [now rewrite Evp|]. rewrite Etp.
      destruct Hcond as [Q|[Q|Q]]; [now left|right; now left|right; right].
      rewrite Evm. destruct (memb v l); exact Q.
    + intro x. change (clsof (free_class c s4) x) with (clsof s4 x). now rewrite r9.
    + change (cpool (free_class c s4)) with (remove c (cpool s4)). change (chain (free_class c s4)) with (chain s4).
      intros c' Hc' Hch. apply in_remove in Hc'. apply r10; [tauto|]. rewrite Ech. apply in_remove. tauto.
    + change (tpool (free_class c s4)) with (tpool s4). change (cur (free_class c s4)) with (cur s4). now rewrite r11, Ecu.
    + change (ub (free_class c s4)) with (ub s4). change (oof (free_class c s4)) with (oof s4). split; congruence.
    + eapply ctl_eq_trans; [exact Ect|]. eapply ctl_eq_trans; [exact r13|]. unfold ctl_eq. repeat split; reflexivity.
    + assert (E : hcount (free_class c s4) = hcount s4) by (apply hcount_same; reflexivity). lia.
    + intros Hne c' Hc'. change (chain (free_class c s4)) with (chain s4) in Hc'. change (clsof (free_class c s4) c') with (clsof s4 c').
      apply r15; [|exact Hc']. intros c'' Hc''. rewrite Ech in Hc''. apply in_remove in Hc''. rewrite Ecl.
      destruct (N.eqb_spec c'' c); [tauto|]. apply Hne. tauto.
    + eapply lcons_trans; [apply (lcons_same s s3); try reflexivity; assumption|].
      eapply lcons_trans; [exact r16|].
      unfold Lcons, free_class. prj. split; [apply Permutation_refl|]. split; [apply Permutation_refl|].
      apply perm_free; [exact (d_cp _ _ _ R1)|exact R5].
    + change (tpool (free_class c s4)) with (tpool s4). change (vpool (free_class c s4)) with (vpool s4).
      intros v Hv Hn Hs. apply (r17 v); [now rewrite Etp|exact Hn|]. rewrite Evm. destruct (memb v l); exact Hs.
  - change (cpool (free_class c s4)) with (remove c (cpool s4)). intro Hi. apply in_remove in Hi. tauto.
  - exact Hldead.
Qed.
