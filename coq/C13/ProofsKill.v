(* C13/ProofsKill.v — the destructors: what the deletion of a thread (with its cascade) and the
   destruction of an instance do to the pools, and that they keep the structural invariant. *)
From Coq Require Import NArith List Bool Lia PeanoNat Wf_nat Permutation.
From Morfuse Require Import Base.Arr Base.ListX C13.Model C13.Spec C13.ProofsLib C13.ProofsAbs C13.ProofsInv.
Import ListNotations.
Local Open Scope N_scope.

(* ---- unfolding one level ---------------------------------------------------------------------- *)
Lemma destroy_class_empty f c s :
  In c (cpool s) -> c_threads (clsof s c) = [] -> destroy_class (S f) c s = destroy_empty c s.
Proof.
  intros Hc He. cbn [destroy_class]. apply memb_in in Hc. rewrite Hc. cbn [negb].
  assert (E : c_threads (clsof (set_chain (remove c (chain s)) s) c) = []) by exact He.
  rewrite E. cbn [fold_left]. reflexivity.
Qed.

Lemma remove_head_nodup (t : N) r : NoDup (t :: r) -> remove t (t :: r) = r.
Proof.
  intro H. inversion H; subst. unfold remove. cbn [filter]. rewrite N.eqb_refl. cbn [negb].
  fold (remove t r). now apply remove_notin.
Qed.
Lemma remove_nonhead (t h : N) r : h <> t -> remove t (h :: r) = h :: remove t r.
Proof. intro H. unfold remove. cbn [filter]. destruct (N.eqb_spec h t); [congruence|]. reflexivity. Qed.

Lemma remove_thread_eq f c t s :
  In c (cpool s) -> In t (c_threads (clsof s c)) -> NoDup (c_threads (clsof s c)) ->
  remove_thread (S (S f)) c t s =
    let s1 := set_cthreads c (remove t (c_threads (clsof s c))) s in
    match remove t (c_threads (clsof s c)) with
    | [] => destroy_empty c s1
    | _ => s1
    end.
Proof.
  intros Hc Hin Hnd. cbn [remove_thread]. pose proof Hc as Hc'. apply memb_in in Hc'. rewrite Hc'. cbn [negb].
  destruct (c_threads (clsof s c)) as [|h r] eqn:El; [destruct Hin|].
  destruct (N.eqb_spec h t) as [->|Hne].
  - rewrite remove_head_nodup by exact Hnd. cbn zeta. destruct r as [|h' r'].
    + apply destroy_class_empty; [exact Hc|]. rewrite cls_set_cthreads, N.eqb_refl. reflexivity.
    + reflexivity.
  - destruct Hin as [E|Hin]; [congruence|]. apply memb_in in Hin. rewrite Hin.
    rewrite remove_nonhead by exact Hne. reflexivity.
Qed.

Lemma cancel_none f t s : t_waitfor (th s t) = None -> cancel_waiting_all (S f) t s = s.
Proof. intro H. cbn [cancel_waiting_all]. now rewrite H. Qed.

(* ---- NotifyDelete of the VM of a dying thread ---------------------------------------------------- *)
Definition nd_class (t : N) (s : st) : st :=
  match v_class (vmof s t) with
  | Some c =>
      let s2 := set_cthreads c (remove t (c_threads (clsof s c))) s in
      match remove t (c_threads (clsof s c)) with
      | [] => destroy_empty c s2
      | _ => s2
      end
  | None => s
  end.
Definition nd_result (t : N) (s : st) : st :=
  let s2 := nd_class t (set_vstate t VDestroyed s) in
  match v_state (vmof s t) with
  | VIdling => free_vm t s2
  | _ => s2
  end.

Lemma notify_delete_eq f t s :
  In t (vpool s) -> v_state (vmof s t) <> VDestroyed ->
  (forall c, v_class (vmof s t) = Some c ->
     In c (cpool s) /\ In t (c_threads (clsof s c)) /\ NoDup (c_threads (clsof s c))) ->
  notify_delete (S (S (S f))) t s = nd_result t s.
Proof.
  intros Hv Hs Hc. cbn [notify_delete]. apply memb_in in Hv. rewrite Hv. cbn [negb].
  unfold nd_result, nd_class.
  assert (E1 : v_class (vmof (set_vstate t VDestroyed s) t) = v_class (vmof s t)) by (rewrite vm_set_vstate, N.eqb_refl; reflexivity).
  assert (E2 : forall c, clsof (set_vstate t VDestroyed s) c = clsof s c) by reflexivity.
  rewrite E1.
  destruct (v_class (vmof s t)) as [c|] eqn:Ec.
  - destruct (Hc c eq_refl) as (H1 & H2 & H3).
    rewrite E2. destruct (v_state (vmof s t)) eqn:Es; try congruence;
      rewrite remove_thread_eq by (rewrite ?E2; assumption); rewrite ?E2; reflexivity.
  - destruct (v_state (vmof s t)); try congruence; reflexivity.
Qed.

Lemma dinv_nd_class sc cl s t :
  Dinv sc cl s -> t_vm (th s t) = false -> Dinv sc cl (nd_class t s).
Proof.
  intros H Hu. unfold nd_class. destruct (v_class (vmof s t)) as [c|]; [|exact H].
  pose proof (dinv_cthreads_remove sc cl s c t H Hu) as H2.
  destruct (remove t (c_threads (clsof s c))) eqn:E; [|exact H2].
  apply dinv_destroy_empty; [exact H2|]. rewrite cls_set_cthreads, N.eqb_refl. reflexivity.
Qed.

Lemma dinv_nd_result sc cl s t :
  Dinv sc cl s -> t_vm (th s t) = false -> Dinv sc cl (nd_result t s).
Proof.
  intros H Hu. unfold nd_result.
  assert (H2 : Dinv sc cl (nd_class t (set_vstate t VDestroyed s))).
  { apply dinv_nd_class; [now apply dinv_vstate_destroyed|exact Hu]. }
  destruct (v_state (vmof s t)); try exact H2.
  apply dinv_free_vm; [exact H2|].
  (* thread records are not touched by nd_class / set_vstate *)
  unfold nd_class. destruct (v_class (vmof (set_vstate t VDestroyed s) t)); [|exact Hu].
  destruct (remove t _); exact Hu.
Qed.

(* what nd_result leaves alone *)
Lemma nd_class_threads t s : threads (nd_class t s) = threads s /\ tpool (nd_class t s) = tpool s /\
  elems (nd_class t s) = elems s /\ cur (nd_class t s) = cur s /\ vms (nd_class t s) = vms s /\ vpool (nd_class t s) = vpool s /\
  ub (nd_class t s) = ub s /\ oof (nd_class t s) = oof s /\ dirty (nd_class t s) = dirty s.
Proof.
  unfold nd_class. destruct (v_class (vmof s t)); [|repeat split; reflexivity].
  destruct (remove t _); repeat split; reflexivity.
Qed.
Lemma nd_result_fields t s :
  threads (nd_result t s) = threads s /\ tpool (nd_result t s) = tpool s /\ elems (nd_result t s) = elems s /\
  cur (nd_result t s) = cur s /\ ub (nd_result t s) = ub s /\ oof (nd_result t s) = oof s /\ dirty (nd_result t s) = dirty s.
Proof.
  unfold nd_result.
  destruct (nd_class_threads t (set_vstate t VDestroyed s)) as (E1 & E2 & E3 & E4 & _ & _ & E7 & E8 & E9).
  destruct (v_state (vmof s t)); prj; rewrite ?E1, ?E2, ?E3, ?E4, ?E7, ?E8, ?E9; repeat split; reflexivity.
Qed.
Lemma nd_result_vm t s x :
  vmof (nd_result t s) x = if x =? t then mkV (v_class (vmof s t)) VDestroyed (v_cont (vmof s t)) else vmof s x.
Proof.
  unfold nd_result.
  destruct (nd_class_threads t (set_vstate t VDestroyed s)) as (_ & _ & _ & _ & E5 & _).
  assert (E : vmof (nd_class t (set_vstate t VDestroyed s)) x = vmof (set_vstate t VDestroyed s) x) by (unfold vmof; now rewrite E5).
  destruct (v_state (vmof s t)); unfold vmof in *; prj; rewrite E; apply get_set.
Qed.
Lemma nd_result_vpool t s :
  vpool (nd_result t s) = match v_state (vmof s t) with VIdling => remove t (vpool s) | _ => vpool s end.
Proof.
  unfold nd_result.
  destruct (nd_class_threads t (set_vstate t VDestroyed s)) as (_ & _ & _ & _ & _ & E6 & _).
  destruct (v_state (vmof s t)); prj; rewrite E6; reflexivity.
Qed.

(* ---- ~Listener of a dying thread ------------------------------------------------------------------ *)
Definition unreg_result (t : N) (s : st) : st :=
  match t_notify (th s t) with
  | None => s
  | Some p => start_timing p 0 (set_notify t None (set_waitfor p None s))
  end.
Lemma unregister_all_eq t s :
  (forall p, t_notify (th s t) = Some p ->
     p <> t /\ In p (tpool s) /\ t_waitfor (th s p) = Some t /\ t_vm (th s p) = true /\ t_state (th s p) = TWaiting) ->
  unregister_all t s = unreg_result t s.
Proof.
  intro H. unfold unregister_all, unreg_result. destruct (t_notify (th s t)) as [p|]; [|reflexivity].
  destruct (H p eq_refl) as (Hne & Hin & Hw & Hv & Hs).
  apply memb_in in Hin. rewrite Hin. cbn [negb]. rewrite Hw. rewrite !N.eqb_refl.
  unfold stopped_wait_for.
  assert (E : th (set_notify t None (set_waitfor p None s)) p = mkT (t_vm (th s p)) (t_state (th s p)) None (t_notify (th s p))).
  { rewrite th_set_notify, !th_set_waitfor. destruct (N.eqb_spec p t); [congruence|]. now rewrite N.eqb_refl. }
  rewrite E. prj. rewrite Hv, Hs. reflexivity.
Qed.

(* ---- the end of ~ScriptThread / ~Listener / Free of a dying thread (no cascade any more) -------- *)
Definition anc (cl : N -> N) (s : st) (t : N) : Prop :=
  forall x, In x (tpool s) -> t_vm (th s x) = false -> x <> t -> cl x < cl t /\ t_waitfor (th s x) = None.

Definition ctl_eq (s s' : st) : Prop :=
  stack s' = stack s /\ out s' = out s /\ scripts s' = scripts s /\ nextid s' = nextid s /\ nextscript s' = nextscript s /\
  mtime s' = mtime s /\ scaled s' = scaled s /\ lastclk s' = lastclk s /\ startclk s' = startclk s /\ clock s' = clock s.
Lemma ctl_eq_refl s : ctl_eq s s.
Proof. repeat split. Qed.
Lemma ctl_eq_trans s1 s2 s3 : ctl_eq s1 s2 -> ctl_eq s2 s3 -> ctl_eq s1 s3.
Proof. unfold ctl_eq. intuition congruence. Qed.

Definition hcount (s : st) : nat := length (filter (healthyb s) (tpool s)).

(* ---- conservation: whatever leaves a pool enters the log of destroyed objects ----------------------- *)
Definition Lcons (s s' : st) : Prop :=
  Permutation (tlog s' ++ tpool s') (tlog s ++ tpool s) /\
  Permutation (vlog s' ++ vpool s') (vlog s ++ vpool s) /\
  Permutation (clog s' ++ cpool s') (clog s ++ cpool s).
Lemma lcons_refl s : Lcons s s.
Proof. repeat split; apply Permutation_refl. Qed.
Lemma lcons_trans s1 s2 s3 : Lcons s1 s2 -> Lcons s2 s3 -> Lcons s1 s3.
Proof. intros (A1 & A2 & A3) (B1 & B2 & B3). repeat split; eapply Permutation_trans; eauto. Qed.
Lemma lcons_same s s' :
  tlog s' = tlog s -> tpool s' = tpool s -> vlog s' = vlog s -> vpool s' = vpool s -> clog s' = clog s -> cpool s' = cpool s ->
  Lcons s s'.
Proof. intros E1 E2 E3 E4 E5 E6. unfold Lcons. rewrite E1, E2, E3, E4, E5, E6. repeat split; apply Permutation_refl. Qed.
Lemma perm_free (t : N) log pool : NoDup pool -> In t pool -> Permutation ((t :: log) ++ remove t pool) (log ++ pool).
Proof.
  intros Hnd Hin. cbn [app]. apply Permutation_sym. apply Permutation_trans with (t :: remove t pool ++ log).
  - apply Permutation_trans with (pool ++ log); [apply Permutation_app_comm|].
    apply Permutation_trans with ((t :: remove t pool) ++ log); [|reflexivity].
    apply Permutation_app_tail. apply NoDup_Permutation; [exact Hnd|constructor; [|now apply nodup_remove]|].
    + intro Hx. apply in_remove in Hx. tauto.
    + intro x. cbn [In]. rewrite in_remove. destruct (N.eq_dec x t) as [->|Hne]; [tauto|]. split; [tauto|]. intros [E|[Hx _]]; [congruence|exact Hx].
  - constructor. apply Permutation_app_comm.
Qed.

(* every instance of the director's chain has a thread *)
Definition NE (s : st) : Prop := forall c, In c (chain s) -> c_threads (clsof s c) <> [].

Definition tailf (t : N) (s : st) : st := free_thread t (unreg_result t (nd_result t s)).

Definition woken (s s' : st) (t x : N) : Prop :=
  t_notify (th s t) = Some x /\ t_waitfor (th s x) = Some t /\ t_state (th s x) = TWaiting /\
  th s' x = mkT (t_vm (th s x)) TTiming None (t_notify (th s x)).

Record Tailpost (sc cl : N -> N) (t : N) (s s' : st) : Prop := {
  tp_inv : Dinv sc cl s';
  tp_flags : ub s' = ub s /\ oof s' = oof s;
  tp_ctl : ctl_eq s s';
  tp_tpool : tpool s' = remove t (tpool s);
  tp_th : forall x, x <> t -> th s' x = th s x \/ woken s s' t x;
  tp_vm : forall x, x <> t -> vmof s' x = vmof s x;
  tp_vpool : vpool s' = match v_state (vmof s t) with VIdling => remove t (vpool s) | _ => vpool s end;
  tp_cls : forall c, v_class (vmof s t) <> Some c -> clsof s' c = clsof s c /\ (In c (cpool s) -> In c (cpool s')) /\ (In c (chain s) -> In c (chain s'));
  tp_cscript : forall c, c_script (clsof s' c) = c_script (clsof s c);
  tp_cin : incl (cpool s') (cpool s) /\ incl (chain s') (chain s);
  tp_chkeep : forall c, In c (cpool s') -> In c (chain s) -> In c (chain s');
  tp_elems : forall e, In e (elems s') -> In e (elems s) \/ t_notify (th s t) = Some (fst e);
  tp_cur : cur s' = match cur s with Some x => if x =? t then None else Some x | None => None end;
  tp_ne : NE s -> NE s';
  tp_log : Lcons s s' }.

Lemma add_timing_fields t d s :
  threads (add_timing t d s) = threads s /\ vms (add_timing t d s) = vms s /\ classes (add_timing t d s) = classes s /\
  tpool (add_timing t d s) = tpool s /\ vpool (add_timing t d s) = vpool s /\ cpool (add_timing t d s) = cpool s /\
  chain (add_timing t d s) = chain s /\ cur (add_timing t d s) = cur s /\
  elems (add_timing t d s) = elems s ++ [(t, scaled s + d)] /\ ub (add_timing t d s) = ub s /\ oof (add_timing t d s) = oof s /\
  ctl_eq s (add_timing t d s).
Proof. unfold add_timing, ctl_eq. destruct (scaled s + d <=? mtime s); prj; repeat split; reflexivity. Qed.

Lemma free_thread_flags t s : ub (free_thread t s) = ub s /\ oof (free_thread t s) = oof s /\ ctl_eq s (free_thread t s).
Proof. unfold free_thread, ctl_eq. prj. destruct (cur s) as [x|]; [destruct (x =? t)|]; repeat split; reflexivity. Qed.

Lemma nd_class_script t s c : c_script (clsof (nd_class t s) c) = c_script (clsof s c).
Proof.
  unfold nd_class. destruct (v_class (vmof s t)) as [c0|]; [|reflexivity].
  destruct (remove t (c_threads (clsof s c0))).
  - rewrite cls_destroy_empty, !cls_set_cthreads. destruct (N.eqb_spec c c0) as [->|_]; [rewrite N.eqb_refl|]; reflexivity.
  - rewrite cls_set_cthreads. destruct (N.eqb_spec c c0) as [->|_]; reflexivity.
Qed.
Lemma nd_class_other t s c :
  v_class (vmof s t) <> Some c ->
  clsof (nd_class t s) c = clsof s c /\ (In c (cpool s) -> In c (cpool (nd_class t s))) /\ (In c (chain s) -> In c (chain (nd_class t s))).
Proof.
  intro Hc. unfold nd_class. destruct (v_class (vmof s t)) as [c0|]; [|repeat split; auto].
  assert (Hne : c <> c0) by congruence.
  destruct (remove t (c_threads (clsof s c0))).
  - rewrite cls_destroy_empty, cpool_destroy_empty, chain_destroy_empty, !cls_set_cthreads. destruct (N.eqb_spec c c0); [congruence|].
    split; [reflexivity|]. split; intro Hi; apply in_remove; tauto.
  - rewrite cls_set_cthreads. destruct (N.eqb_spec c c0); [congruence|]. repeat split; auto.
Qed.
Lemma nd_class_incl t s :
  incl (cpool (nd_class t s)) (cpool s) /\ incl (chain (nd_class t s)) (chain s) /\
  (forall c, In c (cpool (nd_class t s)) -> In c (chain s) -> In c (chain (nd_class t s))).
Proof.
  unfold nd_class. destruct (v_class (vmof s t)) as [c0|]; [|split; [apply incl_refl|split; [apply incl_refl|auto]]].
  destruct (remove t (c_threads (clsof s c0))).
  - rewrite cpool_destroy_empty, chain_destroy_empty. split; [|split].
    + intros x Hx. apply in_remove in Hx. tauto.
    + intros x Hx. apply in_remove in Hx. tauto.
    + intros c Hc Hch. apply in_remove in Hc. apply in_remove. tauto.
  - split; [apply incl_refl|split; [apply incl_refl|auto]].
Qed.

Lemma nd_class_ne t s : NE s -> NE (nd_class t s).
Proof.
  intros Hne c Hc. unfold nd_class in *. destruct (v_class (vmof s t)) as [c0|]; [|now apply Hne].
  destruct (remove t (c_threads (clsof s c0))) as [|h r] eqn:Er.
  - rewrite chain_destroy_empty in Hc. apply in_remove in Hc. destruct Hc as [Hc Hn].
    rewrite cls_destroy_empty, !cls_set_cthreads. destruct (N.eqb_spec c c0); [congruence|]. now apply Hne.
  - rewrite cls_set_cthreads. destruct (N.eqb_spec c c0) as [->|_]; prj; [discriminate|now apply Hne].
Qed.

Lemma lcons_nd_class t s :
  NoDup (cpool s) -> (forall c, v_class (vmof s t) = Some c -> In c (cpool s)) -> Lcons s (nd_class t s).
Proof.
  intros Hnd Hc. unfold nd_class. destruct (v_class (vmof s t)) as [c|]; [|apply lcons_refl].
  destruct (remove t (c_threads (clsof s c))); [|apply lcons_same; reflexivity].
  unfold Lcons, destroy_empty. prj. split; [apply Permutation_refl|]. split; [apply Permutation_refl|].
  apply perm_free; [exact Hnd|now apply Hc].
Qed.
Lemma lcons_nd_result t s :
  NoDup (cpool s) -> NoDup (vpool s) -> In t (vpool s) -> (forall c, v_class (vmof s t) = Some c -> In c (cpool s)) ->
  Lcons s (nd_result t s).
Proof.
  intros Hc Hv Hin Hcl. unfold nd_result.
  assert (L1 : Lcons s (nd_class t (set_vstate t VDestroyed s))).
  { eapply lcons_trans; [apply (lcons_same s (set_vstate t VDestroyed s)); reflexivity|].
    apply lcons_nd_class; [exact Hc|]. intros c Hvc. rewrite vm_set_vstate, N.eqb_refl in Hvc. now apply Hcl. }
  destruct (v_state (vmof s t)); try exact L1.
  eapply lcons_trans; [exact L1|].
  destruct (nd_class_threads t (set_vstate t VDestroyed s)) as (_ & _ & _ & _ & _ & E6 & _).
  unfold Lcons, free_vm. prj. split; [apply Permutation_refl|]. split; [|apply Permutation_refl].
  apply perm_free; rewrite E6; assumption.
Qed.
Lemma start_timing_pools p d s :
  tlog (start_timing p d s) = tlog s /\ tpool (start_timing p d s) = tpool s /\ vlog (start_timing p d s) = vlog s /\
  vpool (start_timing p d s) = vpool s /\ clog (start_timing p d s) = clog s /\ cpool (start_timing p d s) = cpool s.
Proof.
  unfold start_timing, add_timing, stop.
  destruct (t_state (th s p)); [| |destruct (t_waitfor (th s p))];
    match goal with |- context [if ?b then _ else _] => destruct b end; repeat split; reflexivity.
Qed.
Lemma lcons_unreg t s : Lcons s (unreg_result t s).
Proof.
  unfold unreg_result. destruct (t_notify (th s t)) as [p|]; [|apply lcons_refl].
  destruct (start_timing_pools p 0 (set_notify t None (set_waitfor p None s))) as (E1 & E2 & E3 & E4 & E5 & E6).
  apply lcons_same; assumption.
Qed.
Lemma lcons_free_thread t s : NoDup (tpool s) -> In t (tpool s) -> Lcons s (free_thread t s).
Proof.
  intros Hnd Hin. unfold Lcons.
  assert (E : tlog (free_thread t s) = t :: tlog s /\ vlog (free_thread t s) = vlog s /\ clog (free_thread t s) = clog s).
  { unfold free_thread. prj. destruct (cur s) as [x|]; [destruct (x =? t)|]; repeat split; reflexivity. }
  destruct E as (E1 & E2 & E3). destruct (free_thread_fields t s) as (_ & _ & _ & K4 & K5 & _).
  rewrite E1, E2, E3, K4, K5, tpool_free_thread. split; [now apply perm_free|]. split; apply Permutation_refl.
Qed.

Lemma tail_ok sc cl s t :
  Dinv sc cl s -> In t (tpool s) -> t_vm (th s t) = false -> t_waitfor (th s t) = None ->
  ~ In t (map fst (elems s)) -> In t (vpool s) -> v_state (vmof s t) <> VDestroyed ->
  (forall c, v_class (vmof s t) = Some c -> In c (cpool s) /\ In t (c_threads (clsof s c))) ->
  anc cl s t ->
  Tailpost sc cl t s (tailf t s).
Proof.
  intros H Hin Hu Hwt Hel Hvp Hvs Hcls Hanc.
  (* phase C: NotifyDelete *)
  pose proof (dinv_nd_result sc cl s t H Hu) as H1.
  destruct (nd_result_fields t s) as (E1 & E2 & E3 & E4 & E5 & E6 & E7).
  set (s1 := nd_result t s) in *.
  assert (Eth : forall x, th s1 x = th s x) by (intro x; unfold th; now rewrite E1).
  (* phase D: UnregisterAll *)
  assert (HD : exists s2, s2 = unreg_result t s1 /\ Dinv sc cl s2 /\
            vms s2 = vms s1 /\ classes s2 = classes s1 /\ tpool s2 = tpool s1 /\ vpool s2 = vpool s1 /\
            cpool s2 = cpool s1 /\ chain s2 = chain s1 /\ cur s2 = cur s1 /\ ub s2 = ub s1 /\ oof s2 = oof s1 /\ ctl_eq s1 s2 /\
            t_vm (th s2 t) = false /\ t_waitfor (th s2 t) = None /\ t_notify (th s2 t) = None /\
            (forall x, x <> t -> th s2 x = th s x \/ woken s s2 t x) /\
            (forall e, In e (elems s2) -> In e (elems s) \/ (t_notify (th s t) = Some (fst e) /\ fst e <> t))).
  { unfold unreg_result. rewrite Eth. destruct (t_notify (th s t)) as [p|] eqn:En.
    - (* somebody waits for the end of t *)
      assert (Hin1 : In t (tpool s1)) by (rewrite E2; exact Hin).
      assert (En1 : t_notify (th s1 t) = Some p) by (rewrite Eth; exact En).
      destruct (d_nf _ _ _ H1 t p Hin1 En1) as [Hp Hwp].
      assert (Hpt : p <> t). { intros ->. rewrite Eth, Hwt in Hwp. discriminate. }
      assert (Hpv : t_vm (th s p) = true).
      { destruct (t_vm (th s p)) eqn:Ev; [reflexivity|]. rewrite E2 in Hp.
        destruct (Hanc p Hp Ev Hpt) as [_ Hw0]. rewrite Eth, Hw0 in Hwp. discriminate. }
      assert (Hph : healthy s1 p) by (split; [exact Hp|rewrite Eth; exact Hpv]).
      destruct (d_wf _ _ _ H1 p t Hph Hwp) as (_ & _ & Hps & _).
      assert (Hu1 : t_vm (th s1 t) = false) by (rewrite Eth; exact Hu).
      pose proof (dinv_unregister sc cl s1 t p H1 Hu1 Hin1 En1 Hpt) as H2.
      set (sm := set_notify t None (set_waitfor p None s1)) in *.
      assert (Ethm : forall x, th sm x = if x =? t then mkT (t_vm (th s t)) (t_state (th s t)) (t_waitfor (th s t)) None
                               else if x =? p then mkT (t_vm (th s p)) (t_state (th s p)) None (t_notify (th s p)) else th s x).
      { intro x. unfold sm. rewrite th_set_notify, !th_set_waitfor, !Eth. destruct (N.eqb_spec t p); [congruence|].
        destruct (N.eqb_spec x t); reflexivity. }
      assert (Hpm : healthy sm p).
      { split; [exact Hp|]. rewrite Ethm. destruct (N.eqb_spec p t); [congruence|]. rewrite N.eqb_refl. exact Hpv. }
      assert (Hsm : t_state (th sm p) = TWaiting).
      { rewrite Ethm. destruct (N.eqb_spec p t); [congruence|]. rewrite N.eqb_refl. prj. rewrite <- Eth. exact Hps. }
      assert (Hwm : t_waitfor (th sm p) = None).
      { rewrite Ethm. destruct (N.eqb_spec p t); [congruence|]. now rewrite N.eqb_refl. }
      pose proof (dinv_wake sc cl sm p 0 H2 Hpm Hsm Hwm) as H3.
      rewrite start_timing_waiting in * by assumption.
      set (sq := set_tstate p TTiming (set_tstate p TRunning sm)) in *.
      destruct (add_timing_fields p 0 sq) as (F1 & F2 & F3 & F4 & F5 & F6 & F7 & F8 & F9 & F10 & F11 & F12).
      assert (Ethq : forall x, th (add_timing p 0 sq) x =
                if x =? p then mkT (t_vm (th s p)) TTiming None (t_notify (th s p)) else th sm x).
      { intro x. unfold th at 1. rewrite F1. fold (th sq x). unfold sq. rewrite !th_set_tstate, N.eqb_refl.
        destruct (N.eqb_spec x p) as [->|_]; [|reflexivity]. prj.
        rewrite Ethm. destruct (N.eqb_spec p t); [congruence|]. rewrite N.eqb_refl. reflexivity. }
      exists (add_timing p 0 sq). split; [reflexivity|]. split; [exact H3|].
      rewrite F2, F3, F4, F5, F6, F7, F8, F10, F11. repeat (split; [reflexivity|]).
      split; [exact F12|].
      rewrite !Ethq. destruct (N.eqb_spec t p); [congruence|]. rewrite !Ethm, N.eqb_refl. prj.
      split; [exact Hu|]. split; [exact Hwt|]. split; [reflexivity|]. split.
      + intros x Hx. rewrite Ethq. destruct (N.eqb_spec x p) as [->|Hxp].
        * right. split; [exact En|]. split; [rewrite <- Eth; exact Hwp|]. split; [rewrite <- Eth; exact Hps|]. rewrite Ethq, N.eqb_refl. reflexivity.
        * left. rewrite Ethm. destruct (N.eqb_spec x t); [congruence|]. destruct (N.eqb_spec x p); [congruence|]. reflexivity.
      + intros e He. rewrite F9 in He. apply in_app_or in He. destruct He as [He|[<-|[]]].
        * left. rewrite <- E3. exact He.
        * right. prj. split; [reflexivity|exact Hpt].
    - exists s1. split; [reflexivity|]. split; [exact H1|]. repeat (split; [reflexivity|]).
      split; [apply ctl_eq_refl|]. rewrite !Eth. split; [exact Hu|]. split; [exact Hwt|]. split; [exact En|]. split.
      + intros x _. left. apply Eth.
      + intros e He. left. rewrite <- E3. exact He. }
  destruct HD as (s2 & Es2 & H2 & G1 & G2 & G3 & G4 & G5 & G6 & G7 & G8 & G9 & G10 & Gu & Gw & Gn & Gth & Gel).
  unfold tailf. fold s1. rewrite <- Es2. pose proof Es2 as Es2'. clear Es2.
  assert (Evm2 : forall x, vmof s2 x = vmof s1 x) by (intro x; unfold vmof; now rewrite G1).
  assert (Ecl2 : forall c, clsof s2 c = clsof s1 c) by (intro c; unfold clsof; now rewrite G2).
  (* phase F: the pool frees the thread *)
  assert (H3 : Dinv sc cl (free_thread t s2)).
  { apply dinv_free_thread; try assumption.
    - (* no instance chain holds it *)
      intros c Hc Hx. rewrite Ecl2 in Hx. rewrite G5 in Hc.
      destruct (d_clin _ _ _ H1 c t Hc Hx) as [_ Hv]. unfold s1 in Hv, Hx. rewrite nd_result_vm, N.eqb_refl in Hv. prj.
      (* so t's VM knew c: its chain lost t in phase C *)
      unfold nd_result in Hx.
      assert (Hx' : In t (c_threads (clsof (nd_class t (set_vstate t VDestroyed s)) c))).
      { destruct (v_state (vmof s t)); exact Hx. }
      clear Hx. unfold nd_class in Hx'.
      assert (Ev' : v_class (vmof (set_vstate t VDestroyed s) t) = Some c) by (rewrite vm_set_vstate, N.eqb_refl; exact Hv).
      rewrite Ev' in Hx'.
      assert (Ec' : clsof (set_vstate t VDestroyed s) c = clsof s c) by reflexivity. rewrite Ec' in Hx'.
      destruct (remove t (c_threads (clsof s c))) as [|h r] eqn:Er.
      + rewrite cls_destroy_empty, N.eqb_refl in Hx'. exact Hx'.
      + rewrite cls_set_cthreads, N.eqb_refl in Hx'. prj. rewrite <- Er in Hx'. apply in_remove in Hx'. tauto.
    - (* no timer element *)
      intro Hx. apply in_map_iff in Hx. destruct Hx as [e [E He]]. destruct (Gel e He) as [He'|[_ Hne]]; [|congruence].
      apply Hel. rewrite <- E. now apply in_map.
    - (* nobody waits for it *)
      intros p Hp Hw. destruct (d_wf _ _ _ H2 p t Hp Hw) as (_ & Hn & _). rewrite Gn in Hn. discriminate.
    - (* it waits for nobody *)
      intros c Hc Hn. destruct (d_nf _ _ _ H2 c t Hc Hn) as [_ Hw]. rewrite Gw in Hw. discriminate.
    - (* its VM is destroyed *)
      intros _. rewrite Evm2. unfold s1. rewrite nd_result_vm, N.eqb_refl. reflexivity. }
  destruct (free_thread_fields t s2) as (K1 & K2 & K3 & K4 & K5 & K6 & K7 & K8).
  constructor.
  - exact H3.
  - destruct (free_thread_flags t s2) as (L1 & L2 & _). split; congruence.
  - apply ctl_eq_trans with s2.
    + apply ctl_eq_trans with s1; [|exact G10]. unfold s1, nd_result, nd_class, ctl_eq.
      destruct (v_class (vmof (set_vstate t VDestroyed s) t)); [destruct (remove t (c_threads (clsof (set_vstate t VDestroyed s) _)))|];
        destruct (v_state (vmof s t)); repeat split; reflexivity.
    + apply free_thread_flags.
  - rewrite tpool_free_thread, G3, E2. reflexivity.
  - intros x Hx. unfold th at 1. rewrite K1. fold (th s2 x). destruct (Gth x Hx) as [E|W]; [left; exact E|right].
    destruct W as (W1 & W2 & W2' & W3). split; [exact W1|]. split; [exact W2|]. split; [exact W2'|]. unfold th at 1. rewrite K1. exact W3.
  - intros x Hx. unfold vmof at 1. rewrite K2. fold (vmof s2 x). rewrite Evm2. unfold s1. rewrite nd_result_vm.
    destruct (N.eqb_spec x t); [congruence|reflexivity].
  - rewrite K4, G4. unfold s1. apply nd_result_vpool.
  - intros c Hc. unfold clsof at 1. rewrite K3. fold (clsof s2 c). rewrite Ecl2, K5, K6, G5, G6.
    unfold s1, nd_result.
    assert (Hc' : v_class (vmof (set_vstate t VDestroyed s) t) <> Some c) by (rewrite vm_set_vstate, N.eqb_refl; exact Hc).
    pose proof (nd_class_other t (set_vstate t VDestroyed s) c Hc') as Q.
    destruct (v_state (vmof s t)); exact Q.
  - intro c. unfold clsof at 1. rewrite K3. fold (clsof s2 c). rewrite Ecl2. unfold s1, nd_result.
    pose proof (nd_class_script t (set_vstate t VDestroyed s) c) as Q.
    destruct (v_state (vmof s t)); exact Q.
  - rewrite K5, K6, G5, G6. unfold s1, nd_result.
    destruct (nd_class_incl t (set_vstate t VDestroyed s)) as (Q1 & Q2 & _).
    destruct (v_state (vmof s t)); split; assumption.
  - intros c. rewrite K5, K6, G5, G6. unfold s1, nd_result.
    destruct (nd_class_incl t (set_vstate t VDestroyed s)) as (_ & _ & Q).
    destruct (v_state (vmof s t)); apply Q.
  - intros e He. rewrite K7 in He. destruct (Gel e He) as [Hl|[Hr _]]; [now left|now right].
  - rewrite K8, G7, E4. reflexivity.
  - intros Hne c Hc. unfold clsof. rewrite K3. fold (clsof s2 c). rewrite Ecl2. rewrite K6, G6 in Hc.
    unfold s1, nd_result in *.
    pose proof (nd_class_ne t (set_vstate t VDestroyed s) Hne) as Q.
    destruct (v_state (vmof s t)); now apply Q.
  - eapply lcons_trans; [apply (lcons_nd_result t s); [exact (d_cp _ _ _ H)|exact (d_vp _ _ _ H)|exact Hvp|intros c Hc; now destruct (Hcls c Hc)]|].
    fold s1. eapply lcons_trans; [apply (lcons_unreg t s1)|]. rewrite <- Es2'.
    apply lcons_free_thread; [exact (d_tp _ _ _ H2)|rewrite G3, E2; exact Hin].
Qed.

(* ---- counting the threads whose destructor has not begun ------------------------------------------ *)
Lemma hcount_same s s' : tpool s' = tpool s -> (forall u, t_vm (th s' u) = t_vm (th s u)) -> hcount s' = hcount s.
Proof. intros Hp Hv. unfold hcount. rewrite Hp. f_equal. apply filter_ext. intro u. unfold healthyb. apply Hv. Qed.
Lemma filter_length_le {A} (f : A -> bool) l : (length (filter f l) <= length l)%nat.
Proof. induction l as [|x l IH]; cbn [filter length]; [lia|]. destruct (f x); cbn [length]; lia. Qed.
Lemma hcount_set_tvm_false s t : healthy s t -> NoDup (tpool s) -> S (hcount (set_tvm t false s)) = hcount s.
Proof.
  intros [Hin Hv] Hnd. unfold hcount. change (tpool (set_tvm t false s)) with (tpool s).
  induction (tpool s) as [|x l IH]; [destruct Hin|].
  inversion Hnd as [|? ? Hn Hd]; subst. cbn [filter].
  assert (E1 : healthyb (set_tvm t false s) x = if x =? t then false else healthyb s x).
  { unfold healthyb. rewrite th_set_tvm. destruct (x =? t); reflexivity. }
  rewrite E1.
  destruct (N.eqb_spec x t) as [->|Hne].
  - unfold healthyb at 2. rewrite Hv. cbn [length]. f_equal.
    apply f_equal. apply filter_ext_in. intros u Hu. unfold healthyb. rewrite th_set_tvm.
    destruct (N.eqb_spec u t) as [->|_]; [tauto|reflexivity].
  - destruct Hin as [E|Hin]; [congruence|]. destruct (healthyb s x); cbn [length]; rewrite <- IH by assumption; reflexivity.
Qed.
Lemma hcount_remove_unhealthy s s' t :
  tpool s' = remove t (tpool s) -> (forall u, u <> t -> t_vm (th s' u) = t_vm (th s u)) -> t_vm (th s t) = false ->
  hcount s' = hcount s.
Proof.
  intros Hp Hv Hu. unfold hcount. rewrite Hp. unfold remove. clear Hp.
  induction (tpool s) as [|x l IH]; [reflexivity|]. cbn [filter].
  destruct (N.eqb_spec x t) as [->|Hne]; cbn [negb].
  - unfold healthyb at 2. rewrite Hu. exact IH.
  - cbn [filter]. assert (E : healthyb s' x = healthyb s x) by (unfold healthyb; now apply Hv). rewrite E.
    destruct (healthyb s x); cbn [length]; now rewrite IH.
Qed.

(* ---- the deletion of a thread, with its cascade ---------------------------------------------------- *)
Record DTpost (sc cl : N -> N) (t : N) (s s' : st) : Prop := {
  p_inv : Dinv sc cl s';
  p_flags : ub s' = ub s /\ oof s' = oof s;
  p_ctl : ctl_eq s s';
  p_tin : incl (tpool s') (tpool s);
  p_tnot : ~ In t (tpool s');
  p_kill : forall x, In x (tpool s) -> ~ In x (tpool s') -> healthy s x /\ sc x = sc t /\ cl t <= cl x;
  p_th : forall x, In x (tpool s') -> th s' x = th s x \/ woken s s' t x;
  p_vm : forall x, In x (tpool s') \/ ~ In x (tpool s) -> vmof s' x = vmof s x;
  p_vin : incl (vpool s') (vpool s);
  p_vkeep : forall v, In v (vpool s) -> In v (tpool s') \/ ~ In v (tpool s) \/ v_state (vmof s v) <> VIdling -> In v (vpool s');
  p_cin : incl (cpool s') (cpool s) /\ incl (chain s') (chain s);
  p_clow : forall c, c < cl t \/ (c = cl t /\ v_class (vmof s t) = None) ->
      clsof s' c = clsof s c /\ (In c (cpool s) -> In c (cpool s')) /\ (In c (chain s) -> In c (chain s'));
  p_cscript : forall c, c_script (clsof s' c) = c_script (clsof s c);
  p_ckill : forall c, In c (cpool s) -> ~ In c (cpool s') -> c_script (clsof s c) = sc t /\ cl t <= c;
  p_chkeep : forall c, In c (cpool s') -> In c (chain s) -> In c (chain s');
  p_elems : forall e, In e (elems s') -> In e (elems s) \/ t_notify (th s t) = Some (fst e);
  p_cur : cur s' = match cur s with Some x => if memb x (tpool s') then Some x else None | None => None end;
  p_hc : (hcount s' < hcount s)%nat;
  p_ne : NE s -> NE s';
  p_log : Lcons s s';
  p_vgone : forall v, In v (tpool s) -> ~ In v (tpool s') -> v_state (vmof s v) = VIdling -> ~ In v (vpool s') }.

(* the state when the destructor of t has dealt with what t was doing (timer / awaited thread) *)
Record Bpost (sc cl : N -> N) (t : N) (s sB : st) : Prop := {
  b_inv : Dinv sc cl sB;
  b_flags : ub sB = ub s /\ oof sB = oof s;
  b_ctl : ctl_eq s sB;
  b_t : In t (tpool sB) /\ t_vm (th sB t) = false /\ t_waitfor (th sB t) = None /\ t_notify (th sB t) = t_notify (th s t) /\
        ~ In t (map fst (elems sB)) /\ vmof sB t = vmof s t /\ In t (vpool sB);
  b_tin : incl (tpool sB) (tpool s);
  b_kill : forall x, In x (tpool s) -> ~ In x (tpool sB) -> healthy s x /\ sc x = sc t /\ cl t < cl x;
  b_th : forall x, In x (tpool sB) -> x <> t -> th sB x = th s x;
  b_vm : forall x, In x (tpool sB) \/ ~ In x (tpool s) -> vmof sB x = vmof s x;
  b_vin : incl (vpool sB) (vpool s);
  b_vkeep : forall v, In v (vpool s) -> In v (tpool sB) \/ ~ In v (tpool s) \/ v_state (vmof s v) <> VIdling -> In v (vpool sB);
  b_cin : incl (cpool sB) (cpool s) /\ incl (chain sB) (chain s);
  b_clow : forall c, c <= cl t -> clsof sB c = clsof s c /\ (In c (cpool s) -> In c (cpool sB)) /\ (In c (chain s) -> In c (chain sB));
  b_cscript : forall c, c_script (clsof sB c) = c_script (clsof s c);
  b_ckill : forall c, In c (cpool s) -> ~ In c (cpool sB) -> c_script (clsof s c) = sc t /\ cl t < c;
  b_chkeep : forall c, In c (cpool sB) -> In c (chain s) -> In c (chain sB);
  b_elems : forall e, In e (elems sB) -> In e (elems s);
  b_cur : cur sB = match cur s with Some x => if memb x (tpool sB) then Some x else None | None => None end;
  b_hc : (hcount sB < hcount s)%nat;
  b_ne : NE s -> NE sB;
  b_log : Lcons s sB;
  b_vgone : forall v, In v (tpool s) -> ~ In v (tpool sB) -> v_state (vmof s v) = VIdling -> ~ In v (vpool sB) }.

Lemma hcount_pos s t : healthy s t -> (1 <= hcount s)%nat.
Proof.
  intros [Hin Hv]. unfold hcount. assert (H : In t (filter (healthyb s) (tpool s))) by (apply filter_In; split; assumption).
  destruct (filter (healthyb s) (tpool s)); [destruct H|cbn [length]; lia].
Qed.

Lemma memb_true x l : In x l -> memb x l = true.
Proof. apply memb_in. Qed.

Lemma option_eq_dec_N (a b : option N) : {a = b} + {a <> b}.
Proof. decide equality. apply N.eq_dec. Qed.

(* composing the two halves *)
Lemma dt_compose sc cl t s sB sF :
  Dinv sc cl s -> healthy s t -> Bpost sc cl t s sB -> Tailpost sc cl t sB sF -> DTpost sc cl t s sF.
Proof.
  intros H Ht B T. destruct B, T.
  destruct b_t0 as (Bt1 & Bt2 & Bt3 & Bt4 & Bt5 & Bt6 & Bt7).
  assert (Htp : forall x, In x (tpool sF) <-> In x (tpool sB) /\ x <> t) by (intro x; rewrite tp_tpool0; apply in_remove).
  assert (Hcl : forall c, v_class (vmof s t) = Some c -> c = cl t).
  { intros c Hc. apply (d_cl _ _ _ H t c); [apply Ht|exact Hc]. }
  constructor.
  - exact tp_inv0.
  - destruct b_flags0, tp_flags0. split; congruence.
  - eapply ctl_eq_trans; eauto.
  - intros x Hx. apply Htp in Hx. apply b_tin0. tauto.
  - intro Hx. apply Htp in Hx. tauto.
  - intros x Hx Hn. destruct (N.eq_dec x t) as [->|Hne].
    + split; [exact Ht|]. split; [reflexivity|lia].
    + assert (Hnb : ~ In x (tpool sB)) by (intro Hb; apply Hn; apply Htp; tauto).
      destruct (b_kill0 x Hx Hnb) as (K1 & K2 & K3). split; [exact K1|]. split; [exact K2|lia].
  - intros x Hx. apply Htp in Hx. destruct Hx as [Hx Hne].
    destruct (tp_th0 x Hne) as [E|W].
    + left. rewrite E. now apply b_th0.
    + right. destruct W as (W1 & W2 & W2' & W3). unfold woken. rewrite <- Bt4, <- (b_th0 x Hx Hne).
      split; [exact W1|]. split; [exact W2|]. split; [exact W2'|exact W3].
  - intros x Hx. assert (Hne : x <> t).
    { destruct Hx as [Hx|Hx]; [apply Htp in Hx; tauto|]. intros ->. apply Hx. apply Ht. }
    rewrite (tp_vm0 x Hne). apply b_vm0. destruct Hx as [Hx|Hx]; [apply Htp in Hx; tauto|tauto].
  - intros v Hv. apply b_vin0. rewrite tp_vpool0 in Hv. destruct (v_state (vmof sB t)); try exact Hv.
    apply in_remove in Hv. tauto.
  - intros v Hv Hc.
    destruct (N.eq_dec v t) as [->|Hne].
    + (* t itself: its VM stays unless it was idling *)
      assert (Hs : v_state (vmof s t) <> VIdling).
      { destruct Hc as [Hc|[Hc|Hc]]; [apply Htp in Hc; tauto|exfalso; apply Hc; apply Ht|exact Hc]. }
      rewrite tp_vpool0, Bt6. destruct (v_state (vmof s t)); try exact Bt7. congruence.
    + assert (Hb : In v (vpool sB)).
      { apply b_vkeep0; [exact Hv|]. destruct Hc as [Hc|[Hc|Hc]]; [apply Htp in Hc; tauto|tauto|tauto]. }
      rewrite tp_vpool0. destruct (v_state (vmof sB t)); try exact Hb. apply in_remove. tauto.
  - destruct b_cin0, tp_cin0. split; eapply incl_tran; eauto.
  - intros c Hc.
    assert (Hcb : c <= cl t) by (destruct Hc as [Hc|[Hc _]]; lia).
    assert (Hnc : v_class (vmof sB t) <> Some c).
    { rewrite Bt6. intro Hv. pose proof (Hcl c Hv) as E. destruct Hc as [Hc|[_ Hc]]; [lia|congruence]. }
    destruct (b_clow0 c Hcb) as (B1 & B2 & B3). destruct (tp_cls0 c Hnc) as (T1 & T2 & T3).
    split; [congruence|]. split; auto.
  - intro c. rewrite tp_cscript0. apply b_cscript0.
  - intros c Hc Hn. destruct (in_dec N.eq_dec c (cpool sB)) as [Hb|Hb].
    + (* destroyed by the tail: t's own instance *)
      destruct (option_eq_dec_N (v_class (vmof sB t)) (Some c)) as [E|E].
      * rewrite Bt6 in E. pose proof (Hcl c E) as ->. split; [|lia].
        destruct (d_thr _ _ _ H t Ht) as (_ & _ & Hc3). now destruct (Hc3 _ E).
      * destruct (tp_cls0 c E) as (_ & T2 & _). tauto.
    + destruct (b_ckill0 c Hc Hb) as [K1 K2]. split; [exact K1|lia].
  - intros c Hc Hch. apply tp_chkeep0; [exact Hc|]. apply b_chkeep0; [|exact Hch]. destruct tp_cin0 as [Hi _]. now apply Hi.
  - intros e He. destruct (tp_elems0 e He) as [Hl|Hr]; [left; now apply b_elems0|right; congruence].
  - rewrite tp_cur0, b_cur0. destruct (cur s) as [x|]; [|reflexivity].
    destruct (memb_spec x (tpool sB)) as [Hb|Hb].
    + destruct (N.eqb_spec x t) as [->|Hne].
      * destruct (memb_spec t (tpool sF)) as [Hf|_]; [apply Htp in Hf; tauto|reflexivity].
      * rewrite memb_true; [reflexivity|]. apply Htp. tauto.
    + destruct (memb_spec x (tpool sF)) as [Hf|_]; [apply Htp in Hf; tauto|reflexivity].
  - assert (E : hcount sF = hcount sB).
    { apply hcount_remove_unhealthy with t; [exact tp_tpool0| |exact Bt2].
      intros u Hu. destruct (tp_th0 u Hu) as [E|(_ & _ & _ & W3)]; [now rewrite E|]. rewrite W3. reflexivity. }
    lia.
  - auto.
  - eapply lcons_trans; eauto.
  - intros v Hv Hn Hs Hin'. rewrite tp_vpool0 in Hin'.
    destruct (N.eq_dec v t) as [->|Hne].
    + rewrite Bt6, Hs in Hin'. apply in_remove in Hin'. tauto.
    + assert (Hnb : ~ In v (tpool sB)) by (intro Hb; apply Hn; apply Htp; tauto).
      apply (b_vgone0 v Hv Hnb Hs). destruct (v_state (vmof sB t)); try exact Hin'. apply in_remove in Hin'. tauto.
Qed.

Lemma bpost_simple sc cl t s sB :
  Dinv sc cl s -> healthy s t -> Dinv sc cl sB ->
  tpool sB = tpool s -> vms sB = vms s -> classes sB = classes s -> vpool sB = vpool s -> cpool sB = cpool s ->
  chain sB = chain s -> cur sB = cur s -> ub sB = ub s -> oof sB = oof s -> ctl_eq s sB ->
  tlog sB = tlog s -> vlog sB = vlog s -> clog sB = clog s ->
  (forall x, x <> t -> th sB x = th s x) ->
  t_vm (th sB t) = false -> t_waitfor (th sB t) = None -> t_notify (th sB t) = t_notify (th s t) ->
  incl (elems sB) (elems s) -> ~ In t (map fst (elems sB)) ->
  Bpost sc cl t s sB.
Proof.
  intros H Ht HB E1 E2 E3 E4 E5 E6 E7 E8 E9 E10 L1 L2 L3 Hth Hu Hw Hn Hel Hnel.
  assert (Evm : forall x, vmof sB x = vmof s x) by (intro x; unfold vmof; now rewrite E2).
  assert (Ecl : forall c, clsof sB c = clsof s c) by (intro c; unfold clsof; now rewrite E3).
  destruct (d_thr _ _ _ H t Ht) as (Hv & _).
  constructor.
  - exact HB.
  - split; assumption.
  - exact E10.
  - destruct Ht as [Hin _]. rewrite E1, E4. repeat split; auto.
  - rewrite E1. apply incl_refl.
  - intros x Hx Hn'. rewrite E1 in Hn'. tauto.
  - intros x _ Hne. now apply Hth.
  - intros x _. apply Evm.
  - rewrite E4. apply incl_refl.
  - intros v Hv' _. rewrite E4. exact Hv'.
  - rewrite E5, E6. split; apply incl_refl.
  - intros c _. rewrite Ecl, E5, E6. auto.
  - intro c. now rewrite Ecl.
  - intros c Hc Hn'. rewrite E5 in Hn'. tauto.
  - intros c _ Hc. rewrite E6. exact Hc.
  - exact Hel.
  - rewrite E7, E1. destruct (cur s) as [x|] eqn:Ec; [|reflexivity]. rewrite memb_true; [reflexivity|].
    apply (d_cur _ _ _ H x Ec).
  - assert (E : hcount sB = hcount (set_tvm t false s)).
    { apply hcount_same; [exact E1|]. intro u. rewrite th_set_tvm. destruct (N.eqb_spec u t) as [->|Hne]; [exact Hu|now rewrite Hth]. }
    rewrite E. pose proof (hcount_set_tvm_false s t Ht (d_tp _ _ _ H)). lia.
  - intros Hne c Hc. rewrite Ecl. apply Hne. now rewrite <- E6.
  - apply lcons_same; assumption.
  - intros v Hv' Hn'. rewrite E1 in Hn'. tauto.
Qed.

Lemma th_add_timing p d s x : th (add_timing p d s) x = th s x.
Proof. unfold th. now destruct (add_timing_fields p d s) as (-> & _). Qed.
Lemma th_remove_timing p s x : th (remove_timing p s) x = th s x.
Proof. reflexivity. Qed.
Lemma th_stop_other p s x : x <> p -> th (stop p s) x = th s x.
Proof.
  intro Hne. unfold stop. destruct (t_state (th s p)); [reflexivity| |].
  - rewrite th_remove_timing, th_set_tstate. destruct (N.eqb_spec x p); [congruence|reflexivity].
  - destruct (t_waitfor (th s p)).
    + change (th (flag_ub (set_tstate p TRunning s)) x) with (th (set_tstate p TRunning s) x).
      rewrite th_set_tstate. destruct (N.eqb_spec x p); [congruence|reflexivity].
    + rewrite th_set_tstate. destruct (N.eqb_spec x p); [congruence|reflexivity].
Qed.
Lemma th_start_timing_other p d s x : x <> p -> th (start_timing p d s) x = th s x.
Proof.
  intro Hne. unfold start_timing. rewrite th_add_timing, th_set_tstate.
  destruct (N.eqb_spec x p); [congruence|]. now apply th_stop_other.
Qed.

Lemma unreg_cond sc cl s t :
  Dinv sc cl s -> In t (tpool s) -> t_waitfor (th s t) = None -> anc cl s t ->
  forall p, t_notify (th s t) = Some p ->
    p <> t /\ In p (tpool s) /\ t_waitfor (th s p) = Some t /\ t_vm (th s p) = true /\ t_state (th s p) = TWaiting.
Proof.
  intros H Hin Hwt Hanc p En.
  destruct (d_nf _ _ _ H t p Hin En) as [Hp Hwp].
  assert (Hpt : p <> t) by (intros ->; rewrite Hwt in Hwp; discriminate).
  assert (Hpv : t_vm (th s p) = true).
  { destruct (t_vm (th s p)) eqn:Ev; [reflexivity|]. destruct (Hanc p Hp Ev Hpt) as [_ Hw0]. rewrite Hw0 in Hwp. discriminate. }
  destruct (d_wf _ _ _ H p t (conj Hp Hpv) Hwp) as (_ & _ & Hps & _).
  tauto.
Qed.

Lemma unreg_result_t_waitfor t s : t_waitfor (th (unreg_result t s) t) = t_waitfor (th s t) \/ t_notify (th s t) = Some t.
Proof.
  unfold unreg_result. destruct (t_notify (th s t)) as [p|] eqn:En; [|now left].
  destruct (N.eq_dec p t) as [->|Hne]; [now right|left].
  rewrite th_start_timing_other by congruence. rewrite th_set_notify, N.eqb_refl. prj.
  rewrite th_set_waitfor. destruct (N.eqb_spec t p); [congruence|reflexivity].
Qed.

Lemma delete_thread_tail sc cl g t s sB :
  Dinv sc cl s -> healthy s t -> Bpost sc cl t s sB -> anc cl sB t ->
  free_thread t (cancel_waiting_all (S (S (S g))) t (unregister_all t (notify_delete (S (S (S g))) t sB))) = tailf t sB /\
  Tailpost sc cl t sB (tailf t sB).
Proof.
  intros H Ht B Hanc. pose proof B as B'. destruct B'.
  destruct b_t0 as (Bt1 & Bt2 & Bt3 & Bt4 & Bt5 & Bt6 & Bt7).
  destruct (d_thr _ _ _ H t Ht) as (Hv & Hvs & Hc3).
  assert (Hcls : forall c, v_class (vmof sB t) = Some c -> In c (cpool sB) /\ In t (c_threads (clsof sB c)) /\ NoDup (c_threads (clsof sB c))).
  { intros c Hc. rewrite Bt6 in Hc. destruct (Hc3 c Hc) as [Hcp _].
    assert (Ecl : c = cl t) by (apply (d_cl _ _ _ H t c); [apply Ht|exact Hc]).
    destruct (b_clow0 c) as (E1 & E2 & _); [lia|].
    assert (Hcb : In c (cpool sB)) by auto.
    split; [exact Hcb|]. split.
    - rewrite E1. now apply (d_clall _ _ _ H).
    - now apply (d_clnd _ _ _ b_inv0). }
  assert (Hvs' : v_state (vmof sB t) <> VDestroyed) by (rewrite Bt6; exact Hvs).
  rewrite notify_delete_eq by assumption.
  destruct (nd_result_fields t sB) as (E1 & E2 & E3 & _).
  assert (Eth : forall x, th (nd_result t sB) x = th sB x) by (intro x; unfold th; now rewrite E1).
  pose proof (dinv_nd_result sc cl sB t b_inv0 Bt2) as H1.
  assert (Hanc1 : anc cl (nd_result t sB) t).
  { intros x Hx Hxv Hne. rewrite E2 in Hx. rewrite Eth in *. now apply Hanc. }
  rewrite unregister_all_eq.
  2:{ apply (unreg_cond sc cl); [exact H1|rewrite E2; exact Bt1|rewrite Eth; exact Bt3|exact Hanc1]. }
  rewrite cancel_none.
  2:{ destruct (unreg_result_t_waitfor t (nd_result t sB)) as [E|E].
      - rewrite E, Eth. exact Bt3.
      - exfalso. destruct (unreg_cond sc cl _ t H1) with (p := t) as (Hne & _); auto.
        + rewrite E2; exact Bt1.
        + rewrite Eth; exact Bt3. }
  split; [reflexivity|].
  apply tail_ok; try assumption.
  intros c Hc. destruct (Hcls c Hc) as (Q1 & Q2 & _). tauto.
Qed.

Lemma anc_after_b sc cl t s sB : Bpost sc cl t s sB -> anc cl s t -> anc cl sB t.
Proof.
  intros B Hanc x Hx Hxv Hne. destruct B.
  rewrite (b_th0 x Hx Hne) in *. apply Hanc; auto.
Qed.

(* one level of the two recursive destructors, as equations *)
Lemma delete_thread_unfold f t s :
  delete_thread (S f) t s =
    if negb (memb t (tpool s)) then flag_ub s else
    let r := th s t in
    let s1 :=
      if t_vm r then
        notify_delete f t
          (match t_state r with
           | TTiming => remove_timing t (set_tstate t TRunning (set_tvm t false s))
           | TWaiting => cancel_waiting_all f t (set_tstate t TRunning (set_tvm t false s))
           | TRunning => set_tvm t false s
           end)
      else s in
    free_thread t (cancel_waiting_all f t (unregister_all t s1)).
Proof. reflexivity. Qed.

Lemma cancel_waiting_all_unfold f t s :
  cancel_waiting_all (S f) t s =
    match t_waitfor (th s t) with
    | None => s
    | Some c =>
        if negb (memb c (tpool s)) then flag_ub s else
        let found := match t_notify (th s c) with Some x => x =? t | None => false end in
        let s1 := if found then set_notify c None s else s in
        let s2 := set_waitfor t None s1 in
        let s3 := if t_vm (th s2 t) then match t_state (th s2 t) with TWaiting => flag_ub s2 | _ => s2 end else s2 in
        if found && t_vm (th s3 c) then delete_thread f c s3 else s3
    end.
Proof. reflexivity. Qed.

Definition s3_of (t c : N) (s : st) : st :=
  set_waitfor t None (set_notify c None (set_tstate t TRunning (set_tvm t false s))).

Lemma th_s3_of t c s x : t <> c ->
  th (s3_of t c s) x =
    if x =? t then mkT false TRunning None (t_notify (th s t))
    else if x =? c then mkT (t_vm (th s c)) (t_state (th s c)) (t_waitfor (th s c)) None else th s x.
Proof.
  intro Htc. unfold s3_of. rewrite th_set_waitfor, !th_set_notify, !th_set_tstate, !th_set_tvm, !N.eqb_refl.
  destruct (N.eqb_spec t c); [congruence|]. destruct (N.eqb_spec c t); [congruence|].
  destruct (N.eqb_spec x t); [reflexivity|]. destruct (N.eqb_spec x c); reflexivity.
Qed.

(* the cascade: t waited for c; c is deleted first (its own cascade included) *)
Lemma bpost_cascade sc cl t c s s4 :
  Dinv sc cl s -> healthy s t -> t_state (th s t) = TWaiting -> t_waitfor (th s t) = Some c ->
  t <> c -> cl t < cl c -> sc c = sc t ->
  DTpost sc cl c (s3_of t c s) s4 ->
  Bpost sc cl t s s4.
Proof.
  intros H Ht Ets Ew Htc Hclc Hsc P. pose proof Ht as [Hin Hv].
  set (s3 := s3_of t c s) in *.
  assert (Eth3 : forall x, th s3 x =
            if x =? t then mkT false TRunning None (t_notify (th s t))
            else if x =? c then mkT (t_vm (th s c)) (t_state (th s c)) (t_waitfor (th s c)) None else th s x)
    by (intro x; apply th_s3_of; exact Htc).
  assert (Hnel : ~ In t (map fst (elems s))).
  { intro Hx. apply in_map_iff in Hx. destruct Hx as [e [E He]].
    destruct (d_tm _ _ _ H e He) as [_ Hs]. rewrite E in Hs. congruence. }
  destruct P as [p_inv0 p_flags0 p_ctl0 p_tin0 p_tnot0 p_kill0 p_th0 p_vm0 p_vin0 p_vkeep0 p_cin0 p_clow0 p_cscript0 p_ckill0 p_chkeep0 p_elems0 p_cur0 p_hc0 p_ne0 p_log0 p_vgone0].
  assert (Hnw : forall x, ~ woken s3 s4 c x).
  { intros x W. destruct W as (W1 & _). rewrite Eth3 in W1. destruct (N.eqb_spec c t); [congruence|]. rewrite N.eqb_refl in W1. discriminate. }
  assert (Ht4 : In t (tpool s4)).
  { destruct (in_dec N.eq_dec t (tpool s4)) as [Hi|Hi]; [exact Hi|].
    destruct (p_kill0 t Hin Hi) as [[_ Hx] _]. rewrite Eth3, N.eqb_refl in Hx. discriminate. }
  assert (Eth4 : forall x, In x (tpool s4) -> th s4 x = th s3 x).
  { intros x Hx. destruct (p_th0 x Hx) as [E|W]; [exact E|]. exfalso. exact (Hnw x W). }
  assert (Evm3 : forall x, vmof s3 x = vmof s x) by reflexivity.
  assert (Ecl3 : forall x, clsof s3 x = clsof s x) by reflexivity.
  destruct (d_thr _ _ _ H t Ht) as (Hvp & _).
  assert (Eh3 : hcount s3 = hcount (set_tvm t false s)).
  { apply hcount_same; [reflexivity|]. intro u. rewrite Eth3, th_set_tvm.
    destruct (N.eqb_spec u t); [reflexivity|]. destruct (N.eqb_spec u c) as [->|_]; reflexivity. }
  pose proof (hcount_set_tvm_false s t Ht (d_tp _ _ _ H)) as EhA.
  constructor.
  - exact p_inv0.
  - exact p_flags0.
  - exact p_ctl0.
  - rewrite (Eth4 t Ht4), Eth3, N.eqb_refl. prj. split; [exact Ht4|]. repeat (split; [reflexivity|]). split; [|split].
    + intro Hx. apply in_map_iff in Hx. destruct Hx as [e [E He]].
      destruct (p_elems0 e He) as [He'|He'].
      * apply Hnel. rewrite <- E. apply in_map. exact He'.
      * rewrite Eth3 in He'. destruct (N.eqb_spec c t); [congruence|]. rewrite N.eqb_refl in He'. discriminate.
    + rewrite p_vm0 by (left; exact Ht4). apply Evm3.
    + apply p_vkeep0; [exact Hvp|left; exact Ht4].
  - exact p_tin0.
  - intros x Hx Hn. destruct (p_kill0 x Hx Hn) as ([_ K1] & K2 & K3).
    assert (Hxt : x <> t) by (intros ->; tauto).
    split; [split; [exact Hx|]|split; [congruence|lia]].
    rewrite Eth3 in K1. destruct (N.eqb_spec x t); [congruence|]. destruct (N.eqb_spec x c) as [->|_]; exact K1.
  - intros x Hx Hne. rewrite (Eth4 x Hx), Eth3. destruct (N.eqb_spec x t); [congruence|].
    destruct (N.eqb_spec x c) as [->|_]; [tauto|reflexivity].
  - intros x Hx. rewrite p_vm0 by exact Hx. apply Evm3.
  - exact p_vin0.
  - exact p_vkeep0.
  - exact p_cin0.
  - intros c' Hc'. destruct (p_clow0 c') as (Q1 & Q2 & Q3); [left; lia|]. rewrite Q1, Ecl3. auto.
  - intro c'. rewrite p_cscript0. now rewrite Ecl3.
  - intros c' Hc' Hn. destruct (p_ckill0 c' Hc' Hn) as [K1 K2]. rewrite Ecl3 in K1. split; [congruence|lia].
  - exact p_chkeep0.
  - intros e He. destruct (p_elems0 e He) as [He'|He']; [exact He'|].
    rewrite Eth3 in He'. destruct (N.eqb_spec c t); [congruence|]. rewrite N.eqb_refl in He'. discriminate.
  - exact p_cur0.
  - lia.
  - intro Hne. apply p_ne0. exact Hne.
  - exact p_log0.
  - intros v Hv' Hn' Hs'. apply (p_vgone0 v Hv' Hn'). rewrite Evm3. exact Hs'.
Qed.

(* the state in which the nested deletion starts *)
Lemma s3_ready sc cl t c s :
  Dinv sc cl s -> healthy s t -> anc cl s t -> t_state (th s t) = TWaiting -> t_waitfor (th s t) = Some c ->
  t <> c /\ cl t < cl c /\ sc c = sc t /\ In c (tpool s) /\ t_notify (th s c) = Some t /\ t_vm (th s c) = true /\
  Dinv sc cl (s3_of t c s) /\ healthy (s3_of t c s) c /\ anc cl (s3_of t c s) c /\
  S (hcount (s3_of t c s)) = hcount s.
Proof.
  intros H Ht Hanc Ets Ew. pose proof Ht as [Hin Hv].
  destruct (d_wf _ _ _ H t c Ht Ew) as (Hc & Hnc & _ & Hsc & Hclc).
  assert (Htc : t <> c) by (intros <-; lia).
  assert (Hcv : t_vm (th s c) = true).
  { destruct (t_vm (th s c)) eqn:Ev; [reflexivity|].
    destruct (Hanc c Hc Ev (not_eq_sym Htc)) as [Hlt _]. lia. }
  pose proof (th_s3_of t c s) as Eth3.
  set (sA := set_tvm t false s).
  pose proof (dinv_set_tvm_false sc cl s t H) as HA. fold sA in HA.
  assert (HuA : t_vm (th sA t) = false) by (unfold sA; rewrite th_set_tvm, N.eqb_refl; reflexivity).
  assert (Hnel : ~ In t (map fst (elems sA))).
  { intro Hx. apply in_map_iff in Hx. destruct Hx as [e [E He]].
    destruct (d_tm _ _ _ H e He) as [_ Hs]. rewrite E in Hs. congruence. }
  pose proof (dinv_unhealthy_running sc cl sA t HA HuA Hnel) as HW.
  set (sW := set_tstate t TRunning sA) in *.
  assert (EthW : forall x, th sW x = if x =? t then mkT false TRunning (t_waitfor (th s t)) (t_notify (th s t)) else th s x).
  { intro x. unfold sW, sA. rewrite th_set_tstate, !th_set_tvm, N.eqb_refl. destruct (N.eqb_spec x t); reflexivity. }
  assert (Hw3 : t_waitfor (th sW t) = Some c) by (rewrite EthW, N.eqb_refl; exact Ew).
  assert (Hn3 : t_notify (th sW c) = Some t) by (rewrite EthW; destruct (N.eqb_spec c t); [congruence|exact Hnc]).
  assert (HuW : t_vm (th sW t) = false) by (rewrite EthW, N.eqb_refl; reflexivity).
  pose proof (dinv_cancel_clear sc cl sW t c HW HuW Hw3 Hn3 Htc) as H3.
  change (set_waitfor t None (set_notify c None sW)) with (s3_of t c s) in H3.
  repeat (split; [assumption|]).
  split; [|split].
  - split; [exact Hc|]. rewrite Eth3 by exact Htc. destruct (N.eqb_spec c t); [congruence|]. rewrite N.eqb_refl. exact Hcv.
  - intros x Hx Hxv Hne. change (tpool (s3_of t c s)) with (tpool s) in Hx. rewrite Eth3 in Hxv |- * by exact Htc.
    destruct (N.eqb_spec x t) as [->|Hxt]; prj; [split; [exact Hclc|reflexivity]|].
    destruct (N.eqb_spec x c); [congruence|].
    destruct (Hanc x Hx Hxv Hxt) as [Hlt Hw0]. split; [lia|exact Hw0].
  - assert (Eh3 : hcount (s3_of t c s) = hcount sA).
    { apply hcount_same; [reflexivity|]. intro u. rewrite Eth3 by exact Htc. unfold sA. rewrite th_set_tvm.
      destruct (N.eqb_spec u t); [reflexivity|]. destruct (N.eqb_spec u c) as [->|_]; reflexivity. }
    rewrite Eh3. apply hcount_set_tvm_false; [exact Ht|exact (d_tp _ _ _ H)].
Qed.

(* the cancel step of a waiting, dying thread computes the nested deletion *)
Lemma cancel_step f t c s :
  t <> c -> t_waitfor (th s t) = Some c -> In c (tpool s) -> t_notify (th s c) = Some t -> t_vm (th s c) = true ->
  cancel_waiting_all (S f) t (set_tstate t TRunning (set_tvm t false s)) = delete_thread f c (s3_of t c s).
Proof.
  intros Htc Ew Hc Hnc Hcv. rewrite cancel_waiting_all_unfold.
  set (sW := set_tstate t TRunning (set_tvm t false s)).
  assert (EthW : forall x, th sW x = if x =? t then mkT false TRunning (t_waitfor (th s t)) (t_notify (th s t)) else th s x).
  { intro x. unfold sW. rewrite th_set_tstate, !th_set_tvm, N.eqb_refl. destruct (N.eqb_spec x t); reflexivity. }
  rewrite EthW, N.eqb_refl. prj. rewrite Ew.
  change (tpool sW) with (tpool s). rewrite (memb_true _ _ Hc). cbn [negb].
  rewrite EthW. destruct (N.eqb_spec c t) as [E|_]; [congruence|]. rewrite Hnc, N.eqb_refl. cbv zeta.
  change (set_waitfor t None (set_notify c None sW)) with (s3_of t c s).
  rewrite !th_s3_of by exact Htc. rewrite N.eqb_refl. prj.
  destruct (N.eqb_spec c t); [congruence|]. rewrite th_s3_of by exact Htc.
  destruct (N.eqb_spec c t); [congruence|]. rewrite N.eqb_refl. prj. rewrite Hcv. reflexivity.
Qed.

Theorem delete_thread_ok sc cl : forall f t s,
  Dinv sc cl s -> healthy s t -> anc cl s t -> (4 * hcount s + 4 <= f)%nat ->
  DTpost sc cl t s (delete_thread f t s).
Proof.
  induction f as [f IH] using (well_founded_induction lt_wf).
  intros t s H Ht Hanc Hf.
  pose proof (hcount_pos s t Ht) as Hpos.
  destruct f as [|[|[|[|g]]]]; try lia.
  pose proof Ht as [Hin Hv].
  rewrite delete_thread_unfold. rewrite (memb_true _ _ Hin). cbn [negb]. cbv zeta. rewrite Hv.
  (* phase B *)
  assert (HB : exists sB,
            match t_state (th s t) with
            | TTiming => remove_timing t (set_tstate t TRunning (set_tvm t false s))
            | TWaiting => cancel_waiting_all (S (S (S g))) t (set_tstate t TRunning (set_tvm t false s))
            | TRunning => set_tvm t false s
            end = sB /\ Bpost sc cl t s sB).
  { pose proof (dinv_set_tvm_false sc cl s t H) as HA.
    assert (HuA : t_vm (th (set_tvm t false s) t) = false) by (rewrite th_set_tvm, N.eqb_refl; reflexivity).
    destruct (t_state (th s t)) eqn:Ets.
    - (* running *)
      eexists. split; [reflexivity|].
      assert (Hw : t_waitfor (th s t) = None).
      { destruct (t_waitfor (th s t)) as [c|] eqn:Ew; [|reflexivity].
        destruct (d_wf _ _ _ H t c Ht Ew) as (_ & _ & Hs & _). congruence. }
      apply bpost_simple; try assumption; try reflexivity.
      + unfold ctl_eq; repeat split; reflexivity.
      + intros x Hx. rewrite th_set_tvm. destruct (N.eqb_spec x t); [congruence|reflexivity].
      + rewrite th_set_tvm, N.eqb_refl. exact Hw.
      + rewrite th_set_tvm, N.eqb_refl. reflexivity.
      + apply incl_refl.
      + intro Hx. apply in_map_iff in Hx. destruct Hx as [e [E He]].
        destruct (d_tm _ _ _ H e He) as [_ Hs]. rewrite E in Hs. congruence.
    - (* timing *)
      eexists. split; [reflexivity|].
      assert (Hw : t_waitfor (th s t) = None).
      { destruct (t_waitfor (th s t)) as [c|] eqn:Ew; [|reflexivity].
        destruct (d_wf _ _ _ H t c Ht Ew) as (_ & _ & Hs & _). congruence. }
      apply bpost_simple; try assumption; try reflexivity.
      + apply dinv_untime; assumption.
      + unfold ctl_eq; repeat split; reflexivity.
      + intros x Hx. rewrite th_remove_timing, th_set_tstate, !th_set_tvm. destruct (N.eqb_spec x t); [congruence|reflexivity].
      + rewrite th_remove_timing, th_set_tstate, N.eqb_refl. prj. exact HuA.
      + rewrite th_remove_timing, th_set_tstate, N.eqb_refl. prj. rewrite th_set_tvm, N.eqb_refl. exact Hw.
      + rewrite th_remove_timing, th_set_tstate, N.eqb_refl. prj. rewrite th_set_tvm, N.eqb_refl. reflexivity.
      + intros e He. eapply in_rm_elems. exact He.
      + apply rm_elems_notin. exact (d_tmnd _ _ _ H).
    - (* waiting *)
      destruct (t_waitfor (th s t)) as [c|] eqn:Ew.
      + (* the awaited thread dies with t *)
        destruct (s3_ready sc cl t c s H Ht Hanc Ets Ew) as (Htc & Hclc & Hsc & Hc & Hnc & Hcv & H3 & Hc3 & Hanc3 & Eh3).
        rewrite (cancel_step (S (S g)) t c s Htc Ew Hc Hnc Hcv).
        eexists. split; [reflexivity|].
        apply bpost_cascade with c; try assumption.
        apply IH; try assumption; lia.
      + (* it waits for nobody *)
        rewrite cancel_none by (rewrite th_set_tstate, N.eqb_refl; prj; rewrite th_set_tvm, N.eqb_refl; exact Ew).
        eexists. split; [reflexivity|].
        assert (Hnel : ~ In t (map fst (elems (set_tvm t false s)))).
        { intro Hx. apply in_map_iff in Hx. destruct Hx as [e [E He]].
          destruct (d_tm _ _ _ H e He) as [_ Hs]. rewrite E in Hs. congruence. }
        apply bpost_simple; try assumption; try reflexivity.
        * apply dinv_unhealthy_running; assumption.
        * unfold ctl_eq; repeat split; reflexivity.
        * intros x Hx. rewrite th_set_tstate, !th_set_tvm. destruct (N.eqb_spec x t); [congruence|reflexivity].
        * rewrite th_set_tstate, N.eqb_refl. prj. exact HuA.
        * rewrite th_set_tstate, N.eqb_refl. prj. rewrite th_set_tvm, N.eqb_refl. exact Ew.
        * rewrite th_set_tstate, N.eqb_refl. prj. rewrite th_set_tvm, N.eqb_refl. reflexivity.
        * apply incl_refl. }
  destruct HB as (sB & EB & B). rewrite EB.
  pose proof (anc_after_b sc cl t s sB B Hanc) as HancB.
  destruct (delete_thread_tail sc cl g t s sB H Ht B HancB) as [E T].
  rewrite E. eapply dt_compose; eauto.
Qed.
