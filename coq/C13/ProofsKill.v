(* C13/ProofsKill.v — the destructors: what the deletion of a thread (with its cascade) and the
   destruction of an instance do to the pools, and that they keep the structural invariant. *)
From Coq Require Import NArith List Bool Lia PeanoNat.
From Morfuse Require Import Base.Arr Base.ListX C13.Model C13.Spec C13.ProofsLib C13.ProofsAbs C13.ProofsInv.
Import ListNotations.
Local Open Scope N_scope.

(* ---- unfolding one level ---------------------------------------------------------------------- *)
Lemma destroy_class_empty f c s :
  In c (cpool s) -> c_threads (clsof s c) = [] -> destroy_class (S f) c s = destroy_empty c s.
Proof.
  intros Hc He. cbn [destroy_class]. apply memb_in in Hc. rewrite Hc. cbn [negb].
  assert (E : c_threads (clsof (set_chain (remove c (chain s)) s) c) = []) by exact He.
  rewrite E. cbn [fold_left]. reflexivity.
Qed.

Lemma remove_head_nodup (t : N) r : NoDup (t :: r) -> remove t (t :: r) = r.
Proof.
  intro H. inversion H; subst. unfold remove. cbn [filter]. rewrite N.eqb_refl. cbn [negb].
  fold (remove t r). now apply remove_notin.
Qed.
Lemma remove_nonhead (t h : N) r : h <> t -> remove t (h :: r) = h :: remove t r.
Proof. intro H. unfold remove. cbn [filter]. destruct (N.eqb_spec h t); [congruence|]. reflexivity. Qed.

Lemma remove_thread_eq f c t s :
  In c (cpool s) -> In t (c_threads (clsof s c)) -> NoDup (c_threads (clsof s c)) ->
  remove_thread (S (S f)) c t s =
    let s1 := set_cthreads c (remove t (c_threads (clsof s c))) s in
    match remove t (c_threads (clsof s c)) with
    | [] => destroy_empty c s1
    | _ => s1
    end.
Proof.
  intros Hc Hin Hnd. cbn [remove_thread]. pose proof Hc as Hc'. apply memb_in in Hc'. rewrite Hc'. cbn [negb].
  destruct (c_threads (clsof s c)) as [|h r] eqn:El; [destruct Hin|].
  destruct (N.eqb_spec h t) as [->|Hne].
  - rewrite remove_head_nodup by exact Hnd. cbn zeta. destruct r as [|h' r'].
    + apply destroy_class_empty; [exact Hc|]. rewrite cls_set_cthreads, N.eqb_refl. reflexivity.
    + reflexivity.
  - destruct Hin as [E|Hin]; [congruence|]. apply memb_in in Hin. rewrite Hin.
    rewrite remove_nonhead by exact Hne. reflexivity.
Qed.

Lemma cancel_none f t s : t_waitfor (th s t) = None -> cancel_waiting_all (S f) t s = s.
Proof. intro H. cbn [cancel_waiting_all]. now rewrite H. Qed.

(* ---- NotifyDelete of the VM of a dying thread ---------------------------------------------------- *)
Definition nd_class (t : N) (s : st) : st :=
  match v_class (vmof s t) with
  | Some c =>
      let s2 := set_cthreads c (remove t (c_threads (clsof s c))) s in
      match remove t (c_threads (clsof s c)) with
      | [] => destroy_empty c s2
      | _ => s2
      end
  | None => s
  end.
Definition nd_result (t : N) (s : st) : st :=
  let s2 := nd_class t (set_vstate t VDestroyed s) in
  match v_state (vmof s t) with
  | VIdling => free_vm t s2
  | _ => s2
  end.

Lemma notify_delete_eq f t s :
  In t (vpool s) -> v_state (vmof s t) <> VDestroyed ->
  (forall c, v_class (vmof s t) = Some c ->
     In c (cpool s) /\ In t (c_threads (clsof s c)) /\ NoDup (c_threads (clsof s c))) ->
  notify_delete (S (S (S f))) t s = nd_result t s.
Proof.
  intros Hv Hs Hc. cbn [notify_delete]. apply memb_in in Hv. rewrite Hv. cbn [negb].
  unfold nd_result, nd_class.
  assert (E1 : v_class (vmof (set_vstate t VDestroyed s) t) = v_class (vmof s t)) by (rewrite vm_set_vstate, N.eqb_refl; reflexivity).
  assert (E2 : forall c, clsof (set_vstate t VDestroyed s) c = clsof s c) by reflexivity.
  rewrite E1.
  destruct (v_class (vmof s t)) as [c|] eqn:Ec.
  - destruct (Hc c eq_refl) as (H1 & H2 & H3).
    rewrite E2. destruct (v_state (vmof s t)) eqn:Es; try congruence;
      rewrite remove_thread_eq by (rewrite ?E2; assumption); rewrite ?E2; reflexivity.
  - destruct (v_state (vmof s t)); try congruence; reflexivity.
Qed.

Lemma dinv_nd_class sc cl s t :
  Dinv sc cl s -> t_vm (th s t) = false -> Dinv sc cl (nd_class t s).
Proof.
  intros H Hu. unfold nd_class. destruct (v_class (vmof s t)) as [c|]; [|exact H].
  pose proof (dinv_cthreads_remove sc cl s c t H Hu) as H2.
  destruct (remove t (c_threads (clsof s c))) eqn:E; [|exact H2].
  apply dinv_destroy_empty; [exact H2|]. rewrite cls_set_cthreads, N.eqb_refl. reflexivity.
Qed.

Lemma dinv_nd_result sc cl s t :
  Dinv sc cl s -> t_vm (th s t) = false -> Dinv sc cl (nd_result t s).
Proof.
  intros H Hu. unfold nd_result.
  assert (H2 : Dinv sc cl (nd_class t (set_vstate t VDestroyed s))).
  { apply dinv_nd_class; [now apply dinv_vstate_destroyed|exact Hu]. }
  destruct (v_state (vmof s t)); try exact H2.
  apply dinv_free_vm; [exact H2|].
  (* thread records are not touched by nd_class / set_vstate *)
  unfold nd_class. destruct (v_class (vmof (set_vstate t VDestroyed s) t)); [|exact Hu].
  destruct (remove t _); exact Hu.
Qed.

(* what nd_result leaves alone *)
Lemma nd_class_threads t s : threads (nd_class t s) = threads s /\ tpool (nd_class t s) = tpool s /\
  elems (nd_class t s) = elems s /\ cur (nd_class t s) = cur s /\ vms (nd_class t s) = vms s /\ vpool (nd_class t s) = vpool s /\
  ub (nd_class t s) = ub s /\ oof (nd_class t s) = oof s /\ dirty (nd_class t s) = dirty s.
Proof.
  unfold nd_class. destruct (v_class (vmof s t)); [|repeat split; reflexivity].
  destruct (remove t _); repeat split; reflexivity.
Qed.
Lemma nd_result_fields t s :
  threads (nd_result t s) = threads s /\ tpool (nd_result t s) = tpool s /\ elems (nd_result t s) = elems s /\
  cur (nd_result t s) = cur s /\ ub (nd_result t s) = ub s /\ oof (nd_result t s) = oof s /\ dirty (nd_result t s) = dirty s.
Proof.
  unfold nd_result.
  destruct (nd_class_threads t (set_vstate t VDestroyed s)) as (E1 & E2 & E3 & E4 & _ & _ & E7 & E8 & E9).
  destruct (v_state (vmof s t)); prj; rewrite ?E1, ?E2, ?E3, ?E4, ?E7, ?E8, ?E9; repeat split; reflexivity.
Qed.
Lemma nd_result_vm t s x :
  vmof (nd_result t s) x = if x =? t then mkV (v_class (vmof s t)) VDestroyed (v_cont (vmof s t)) else vmof s x.
Proof.
  unfold nd_result.
  destruct (nd_class_threads t (set_vstate t VDestroyed s)) as (_ & _ & _ & _ & E5 & _).
  assert (E : vmof (nd_class t (set_vstate t VDestroyed s)) x = vmof (set_vstate t VDestroyed s) x) by (unfold vmof; now rewrite E5).
  destruct (v_state (vmof s t)); unfold vmof in *; prj; rewrite E; apply get_set.
Qed.
Lemma nd_result_vpool t s :
  vpool (nd_result t s) = match v_state (vmof s t) with VIdling => remove t (vpool s) | _ => vpool s end.
Proof.
  unfold nd_result.
  destruct (nd_class_threads t (set_vstate t VDestroyed s)) as (_ & _ & _ & _ & _ & E6 & _).
  destruct (v_state (vmof s t)); prj; rewrite E6; reflexivity.
Qed.

(* ---- ~Listener of a dying thread ------------------------------------------------------------------ *)
Definition unreg_result (t : N) (s : st) : st :=
  match t_notify (th s t) with
  | None => s
  | Some p => start_timing p 0 (set_notify t None (set_waitfor p None s))
  end.
Lemma unregister_all_eq t s :
  (forall p, t_notify (th s t) = Some p ->
     p <> t /\ In p (tpool s) /\ t_waitfor (th s p) = Some t /\ t_vm (th s p) = true /\ t_state (th s p) = TWaiting) ->
  unregister_all t s = unreg_result t s.
Proof.
  intro H. unfold unregister_all, unreg_result. destruct (t_notify (th s t)) as [p|]; [|reflexivity].
  destruct (H p eq_refl) as (Hne & Hin & Hw & Hv & Hs).
  apply memb_in in Hin. rewrite Hin. cbn [negb]. rewrite Hw. rewrite !N.eqb_refl.
  unfold stopped_wait_for.
  assert (E : th (set_notify t None (set_waitfor p None s)) p = mkT (t_vm (th s p)) (t_state (th s p)) None (t_notify (th s p))).
  { rewrite th_set_notify, !th_set_waitfor. destruct (N.eqb_spec p t); [congruence|]. now rewrite N.eqb_refl. }
  rewrite E. prj. rewrite Hv, Hs. reflexivity.
Qed.
