(* C13/ProofsInv.v — the structural invariant of the pools that holds at every moment, also in
   the middle of a cascade of destructors, and its preservation by the elementary updates. *)
From Coq Require Import NArith List Bool Lia PeanoNat.
From Morfuse Require Import Base.Arr Base.ListX C13.Model C13.Spec C13.ProofsLib C13.ProofsAbs.
Import ListNotations.
Local Open Scope N_scope.

(* [sc t], [cl t]: the script and the instance a thread was created for (ghosts: a detached
   VM has forgotten its instance). *)
Record Dinv (sc cl : N -> N) (s : st) : Prop := mkD {
  d_tp : NoDup (tpool s);
  d_vp : NoDup (vpool s);
  d_cp : NoDup (cpool s);
  d_chnd : NoDup (chain s);
  d_chin : incl (chain s) (cpool s);
  (* a thread whose destructor has not begun has a VM that is not destroyed; its instance, if
     it still knows one, exists *)
  d_thr : forall t, healthy s t ->
      In t (vpool s) /\ v_state (vmof s t) <> VDestroyed /\
      forall c, v_class (vmof s t) = Some c -> In c (cpool s) /\ c_script (clsof s c) = sc t;
  d_cl : forall t c, In t (tpool s) -> v_class (vmof s t) = Some c -> c = cl t;
  (* the thread chain of an instance *)
  d_clnd : forall c, In c (cpool s) -> NoDup (c_threads (clsof s c));
  d_clin : forall c t, In c (cpool s) -> In t (c_threads (clsof s c)) -> In t (tpool s) /\ v_class (vmof s t) = Some c;
  d_clall : forall c t, healthy s t -> v_class (vmof s t) = Some c -> In t (c_threads (clsof s c));
  d_dying : forall c, In c (cpool s) -> ~ In c (chain s) -> c_threads (clsof s c) = [];
  (* the timer *)
  d_tmnd : NoDup (map fst (elems s));
  d_tm : forall e, In e (elems s) -> In (fst e) (tpool s) /\ t_state (th s (fst e)) = TTiming;
  (* waitthread registrations *)
  d_wf : forall p c, healthy s p -> t_waitfor (th s p) = Some c ->
      In c (tpool s) /\ t_notify (th s c) = Some p /\ t_state (th s p) = TWaiting /\ sc c = sc p /\ cl p < cl c;
  d_nf : forall c p, In c (tpool s) -> t_notify (th s c) = Some p -> In p (tpool s) /\ t_waitfor (th s p) = Some c;
  (* a VM without a thread is a destroyed one (still executing) *)
  d_zomb : forall v, In v (vpool s) -> In v (tpool s) \/ v_state (vmof s v) = VDestroyed;
  d_cur : forall x, cur s = Some x -> In x (tpool s) }.

Lemma healthy_in s t : healthy s t -> In t (tpool s).
Proof. now intros [H _]. Qed.

(* ---- updates that only touch the timer ---------------------------------------------------------- *)
Lemma in_remove_first_elem t e l : In e (remove_first_elem t l) -> In e l.
Proof.
  induction l as [|x l IH]; cbn [remove_first_elem]; [tauto|].
  destruct (fst x =? t); cbn [In]; tauto.
Qed.
Lemma remove_first_elem_notin t l : NoDup (map fst l) -> ~ In t (map fst (remove_first_elem t l)).
Proof.
  induction l as [|x l IH]; cbn [remove_first_elem map]; intro Hnd; [tauto|].
  inversion Hnd as [|? ? Hn Hd]; subst.
  destruct (N.eqb_spec (fst x) t) as [E|Hne]; [now rewrite <- E|].
  cbn [map In]. intros [E|H]; [congruence|]. now apply IH.
Qed.
Lemma nodup_remove_first_elem t l : NoDup (map fst l) -> NoDup (map fst (remove_first_elem t l)).
Proof.
  induction l as [|x l IH]; cbn [remove_first_elem map]; intro Hnd; [constructor|].
  inversion Hnd as [|? ? Hn Hd]; subst.
  destruct (fst x =? t); [exact Hd|]. cbn [map]. constructor; [|now apply IH].
  intro H. apply Hn. apply in_map_iff in H. destruct H as [e [E He]]. apply in_map_iff. exists e.
  split; [exact E|]. eapply in_remove_first_elem; eauto.
Qed.
Definition rm_elems (t : N) (l : list (N * N)) := rev (remove_first_elem t (rev l)).
Lemma in_rm_elems t e l : In e (rm_elems t l) -> In e l.
Proof. unfold rm_elems. rewrite <- in_rev. intro H. apply in_remove_first_elem in H. now apply in_rev. Qed.
Lemma nodup_map_rev {A} (l : list A) : NoDup l -> NoDup (rev l).
Proof. intro H. eapply Permutation.Permutation_NoDup; [apply Permutation.Permutation_rev|exact H]. Qed.
Lemma nodup_rm_elems t l : NoDup (map fst l) -> NoDup (map fst (rm_elems t l)).
Proof.
  unfold rm_elems. intro H. rewrite map_rev. apply nodup_map_rev. apply nodup_remove_first_elem.
  rewrite map_rev. now apply nodup_map_rev.
Qed.
Lemma rm_elems_notin t l : NoDup (map fst l) -> ~ In t (map fst (rm_elems t l)).
Proof.
  unfold rm_elems. intro H. rewrite map_rev, <- in_rev. apply remove_first_elem_notin.
  rewrite map_rev. now apply nodup_map_rev.
Qed.

Ltac dinv H :=
  destruct H as [Htp Hvp Hcp Hchnd Hchin Hthr Hcl Hclnd Hclin Hclall Hdying Htmnd Htm Hwf Hnf Hzomb Hcur].
Ltac ssh := unfold healthy in *; ss.
Ltac gsd u t := rewrite ?get_set in *; destruct (N.eqb_spec u t); subst; prj.

Lemma healthy_set_tvm_false s t x : healthy (set_tvm t false s) x <-> healthy s x /\ x <> t.
Proof.
  unfold healthy. ss. rewrite get_set. destruct (N.eqb_spec x t) as [->|Hne]; prj; intuition congruence.
Qed.

(* M1: the destructor of thread t begins *)
Lemma dinv_set_tvm_false sc cl s t : Dinv sc cl s -> Dinv sc cl (set_tvm t false s).
Proof.
  intro H. dinv H.
  assert (Hh : forall x, healthy (set_tvm t false s) x -> healthy s x) by (intros x Hx; now apply healthy_set_tvm_false in Hx).
  constructor; ss; try assumption.
  - intros x Hx. apply Hh in Hx. now apply Hthr.
  - intros c x Hx. apply Hh in Hx. now apply Hclall.
  - intros e He. specialize (Htm e He). rewrite get_set. destruct (N.eqb_spec (fst e) t) as [E|_]; prj; [rewrite <- E|]; exact Htm.
  - intros p c Hp. pose proof (Hh _ Hp) as Hp'. apply healthy_set_tvm_false in Hp. destruct Hp as [_ Hne].
    rewrite (get_set _ p). destruct (N.eqb_spec p t) as [->|_]; [congruence|]. intro Hw.
    specialize (Hwf p c Hp' Hw). rewrite get_set. destruct (N.eqb_spec c t) as [->|_]; prj; exact Hwf.
  - intros c p Hc. rewrite get_set. destruct (N.eqb_spec c t) as [->|_]; prj; intro Hn.
    + specialize (Hnf t p Hc Hn). rewrite get_set. destruct (N.eqb_spec p t) as [->|_]; prj; exact Hnf.
    + specialize (Hnf c p Hc Hn). rewrite get_set. destruct (N.eqb_spec p t) as [->|_]; prj; exact Hnf.
Qed.

Lemma healthy_threads_other s s' t :
  tpool s' = tpool s -> (forall u, u <> t -> th s' u = th s u) -> t_vm (th s' t) = t_vm (th s t) ->
  forall x, healthy s' x <-> healthy s x.
Proof.
  intros Hp Ho Ht x. unfold healthy. rewrite Hp.
  destruct (N.eq_dec x t) as [->|Hne]; [now rewrite Ht|now rewrite Ho].
Qed.

(* M2': the dying thread stops waiting *)
Lemma dinv_unhealthy_running sc cl s t :
  Dinv sc cl s -> t_vm (th s t) = false -> ~ In t (map fst (elems s)) -> Dinv sc cl (set_tstate t TRunning s).
Proof.
  intros H Hu Hne. dinv H.
  assert (Hh : forall x, healthy (set_tstate t TRunning s) x <-> healthy s x).
  { apply healthy_threads_other with t; [reflexivity| |]; ss; intros; now rewrite ?gss, ?gso. }
  constructor; ss; try assumption.
  - intros x Hx. apply Hh in Hx. now apply Hthr.
  - intros c x Hx. apply Hh in Hx. now apply Hclall.
  - intros e He. specialize (Htm e He). rewrite get_set. destruct (N.eqb_spec (fst e) t) as [E|_]; prj; [|exact Htm].
    exfalso. apply Hne. rewrite <- E. now apply in_map.
  - intros p c Hp. apply Hh in Hp. assert (p <> t) by (intros ->; destruct Hp; ss; congruence).
    rewrite (get_set _ p). destruct (N.eqb_spec p t); [congruence|]. intro Hw.
    specialize (Hwf p c Hp Hw). rewrite get_set. destruct (N.eqb_spec c t) as [->|_]; prj; exact Hwf.
  - intros c p Hc. rewrite get_set. destruct (N.eqb_spec c t) as [->|_]; prj; intro Hn.
    + specialize (Hnf t p Hc Hn). rewrite get_set. destruct (N.eqb_spec p t) as [->|_]; prj; exact Hnf.
    + specialize (Hnf c p Hc Hn). rewrite get_set. destruct (N.eqb_spec p t) as [->|_]; prj; exact Hnf.
Qed.

(* removing the timer element of a thread *)
Lemma dinv_rm_elems_any sc cl s t :
  Dinv sc cl s -> Dinv sc cl (set_elems (rm_elems t (elems s)) s).
Proof.
  intro H. dinv H. constructor; ss; try assumption.
  - now apply nodup_rm_elems.
  - intros e He. apply Htm. eapply in_rm_elems; eauto.
Qed.

(* M2: the dying thread leaves the timer *)
Lemma dinv_untime sc cl s t :
  Dinv sc cl s -> t_vm (th s t) = false -> Dinv sc cl (remove_timing t (set_tstate t TRunning s)).
Proof.
  intros H Hu. unfold remove_timing. fold (rm_elems t (elems (set_tstate t TRunning s))).
  change (elems (set_tstate t TRunning s)) with (elems s).
  (* first remove the element, then change the state: the two updates commute *)
  assert (E : set_elems (rm_elems t (elems s)) (set_tstate t TRunning s) = set_tstate t TRunning (set_elems (rm_elems t (elems s)) s)) by reflexivity.
  rewrite E. apply dinv_unhealthy_running.
  - now apply dinv_rm_elems_any.
  - exact Hu.
  - prj. apply rm_elems_notin. now destruct H.
Qed.

(* M4+M5: CancelWaitingAll of the dying thread t detaches the thread c it waited for *)
Lemma dinv_cancel_clear sc cl s t c :
  Dinv sc cl s -> t_vm (th s t) = false -> t_waitfor (th s t) = Some c -> t_notify (th s c) = Some t -> t <> c ->
  Dinv sc cl (set_waitfor t None (set_notify c None s)).
Proof.
  intros H Hu Hw Hnc Htc. dinv H.
  assert (Hrd : forall x, th (set_waitfor t None (set_notify c None s)) x =
            if x =? t then mkT (t_vm (th s t)) (t_state (th s t)) None (t_notify (th s t))
            else if x =? c then mkT (t_vm (th s c)) (t_state (th s c)) (t_waitfor (th s c)) None else th s x).
  { intro x. rewrite th_set_waitfor, !th_set_notify. destruct (N.eqb_spec t c); [congruence|].
    destruct (N.eqb_spec x t); reflexivity. }
  assert (Hh : forall x, healthy (set_waitfor t None (set_notify c None s)) x <-> healthy s x).
  { intro x. unfold healthy. rewrite Hrd. change (tpool (set_waitfor t None (set_notify c None s))) with (tpool s).
    destruct (N.eqb_spec x t) as [->|_]; prj; [tauto|]. destruct (N.eqb_spec x c) as [->|_]; prj; tauto. }
  assert (Hst : forall x, t_state (th (set_waitfor t None (set_notify c None s)) x) = t_state (th s x)).
  { intro x. rewrite Hrd. destruct (N.eqb_spec x t) as [->|_]; prj; [reflexivity|]. destruct (N.eqb_spec x c) as [->|_]; prj; reflexivity. }
  assert (Hwf' : forall x, x <> t -> t_waitfor (th (set_waitfor t None (set_notify c None s)) x) = t_waitfor (th s x)).
  { intros x Hx. rewrite Hrd. destruct (N.eqb_spec x t); [congruence|]. destruct (N.eqb_spec x c) as [->|_]; prj; reflexivity. }
  assert (Hnf' : forall x, x <> c -> t_notify (th (set_waitfor t None (set_notify c None s)) x) = t_notify (th s x)).
  { intros x Hx. rewrite Hrd. destruct (N.eqb_spec x t) as [->|_]; prj; [reflexivity|]. destruct (N.eqb_spec x c); [congruence|]. reflexivity. }
  assert (Hnc' : t_notify (th (set_waitfor t None (set_notify c None s)) c) = None).
  { rewrite Hrd. destruct (N.eqb_spec c t); [congruence|]. now rewrite N.eqb_refl. }
  assert (Hwt' : t_waitfor (th (set_waitfor t None (set_notify c None s)) t) = None).
  { rewrite Hrd. now rewrite N.eqb_refl. }
  clear Hrd.
  set (s2 := set_waitfor t None (set_notify c None s)) in *.
  constructor; try assumption.
  - intros x Hx. apply Hh in Hx. exact (Hthr x Hx).
  - intros c' x Hx. apply Hh in Hx. exact (Hclall c' x Hx).
  - intros e He. rewrite Hst. exact (Htm e He).
  - intros p c' Hp Hw'. apply Hh in Hp.
    assert (Hpt : p <> t) by (intros ->; destruct Hp; unfold th in *; congruence).
    rewrite Hwf' in Hw' by exact Hpt. destruct (Hwf p c' Hp Hw') as (Hi & Hn & Hs & Hrest).
    assert (Hc' : c' <> c) by (intros ->; rewrite Hnc in Hn; congruence).
    rewrite Hnf' by exact Hc'. rewrite Hst. tauto.
  - intros c' p Hc' Hn.
    assert (Hcc : c' <> c) by (intros ->; rewrite Hnc' in Hn; discriminate).
    rewrite Hnf' in Hn by exact Hcc. destruct (Hnf c' p Hc' Hn) as [Hi Hwp].
    assert (Hpt : p <> t) by (intros ->; rewrite Hw in Hwp; congruence).
    rewrite Hwf' by exact Hpt. tauto.
Qed.

(* M6: the VM of a dying thread is marked destroyed *)
Lemma dinv_vstate_destroyed sc cl s t :
  Dinv sc cl s -> t_vm (th s t) = false -> Dinv sc cl (set_vstate t VDestroyed s).
Proof.
  intros H Hu. dinv H. constructor; ssh; try assumption.
  - intros x Hx. assert (x <> t) by (intros ->; destruct Hx; congruence).
    rewrite !(get_set _ x). destruct (N.eqb_spec x t); [congruence|]. exact (Hthr x Hx).
  - intros x c Hx. rewrite get_set. destruct (N.eqb_spec x t) as [->|_]; prj; now apply Hcl.
  - intros c x Hc Hx. rewrite get_set. destruct (N.eqb_spec x t) as [->|_]; prj; now apply Hclin.
  - intros c x Hx. assert (x <> t) by (intros ->; destruct Hx; congruence).
    rewrite get_set. destruct (N.eqb_spec x t); [congruence|]. now apply Hclall.
  - intros v Hv. rewrite get_set. destruct (N.eqb_spec v t) as [->|_]; prj; [now right|now apply Hzomb].
Qed.

(* M7: RemoveThread takes the VM of the dying thread out of its instance's chain *)
Lemma dinv_cthreads_remove sc cl s c t :
  Dinv sc cl s -> t_vm (th s t) = false ->
  Dinv sc cl (set_cthreads c (remove t (c_threads (clsof s c))) s).
Proof.
  intros H Hu. dinv H. constructor; ssh; try assumption.
  - intros x Hx. destruct (Hthr x Hx) as (H1 & H2 & H3). split; [exact H1|]. split; [exact H2|].
    intros c' Hc'. destruct (H3 c' Hc') as [H4 H5]. split; [exact H4|].
    rewrite get_set. destruct (N.eqb_spec c' c) as [->|_]; prj; exact H5.
  - intros c' Hc'. rewrite get_set. destruct (N.eqb_spec c' c) as [->|_]; prj; [apply nodup_remove|]; now apply Hclnd.
  - intros c' x Hc'. rewrite get_set. destruct (N.eqb_spec c' c) as [->|_]; prj; [|now apply Hclin].
    intro Hx. apply in_remove in Hx. now apply Hclin.
  - intros c' x Hx Hcx. rewrite get_set. destruct (N.eqb_spec c' c) as [->|_]; prj; [|now apply Hclall].
    apply in_remove. split; [now apply Hclall|]. intros ->. destruct Hx. congruence.
  - intros c' Hc' Hn. rewrite get_set. destruct (N.eqb_spec c' c) as [->|_]; prj; [|now apply Hdying].
    now rewrite (Hdying c Hc' Hn).
Qed.

(* M8: an instance without threads is destroyed (~ScriptClass with an empty chain, then Free) *)
Definition destroy_empty (c : N) (s : st) : st :=
  free_class c (set_cthreads c [] (set_chain (remove c (chain s)) s)).
Lemma cls_destroy_empty c s x :
  clsof (destroy_empty c s) x = if x =? c then mkC (c_script (clsof s c)) [] else clsof s x.
Proof. unfold destroy_empty, clsof. prj. apply get_set. Qed.
Lemma cpool_destroy_empty c s : cpool (destroy_empty c s) = remove c (cpool s).
Proof. reflexivity. Qed.
Lemma chain_destroy_empty c s : chain (destroy_empty c s) = remove c (chain s).
Proof. reflexivity. Qed.

Lemma dinv_destroy_empty sc cl s c :
  Dinv sc cl s -> c_threads (clsof s c) = [] -> Dinv sc cl (destroy_empty c s).
Proof.
  intros H He. dinv H. unfold destroy_empty. constructor; ssh; try assumption.
  - now apply nodup_remove.
  - now apply nodup_remove.
  - intros x Hx. apply in_remove in Hx. apply in_remove. split; [apply Hchin|]; tauto.
  - intros x Hx. destruct (Hthr x Hx) as (H1 & H2 & H3). split; [exact H1|]. split; [exact H2|].
    intros c' Hc'. destruct (H3 c' Hc') as [H4 H5].
    assert (c' <> c). { intros ->. pose proof (Hclall c x Hx Hc') as Hin. rewrite He in Hin. exact Hin. }
    split; [apply in_remove; tauto|]. rewrite get_set. destruct (N.eqb_spec c' c); [congruence|]. exact H5.
  - intros c' Hc'. apply in_remove in Hc'. rewrite get_set. destruct (N.eqb_spec c' c); [tauto|]. apply Hclnd. tauto.
  - intros c' x Hc'. apply in_remove in Hc'. rewrite get_set. destruct (N.eqb_spec c' c); [tauto|]. apply Hclin. tauto.
  - intros c' x Hx Hcx. rewrite get_set. destruct (N.eqb_spec c' c) as [->|_]; prj; [|now apply Hclall].
    pose proof (Hclall c x Hx Hcx) as Hin. now rewrite He in Hin.
  - intros c' Hc' Hn. apply in_remove in Hc'. rewrite get_set. destruct (N.eqb_spec c' c); [tauto|].
    apply Hdying; [tauto|]. intro Hin. apply Hn. apply in_remove. tauto.
Qed.

(* M9: the pool frees the VM of a dying thread *)
Lemma dinv_free_vm sc cl s t :
  Dinv sc cl s -> t_vm (th s t) = false -> Dinv sc cl (free_vm t s).
Proof.
  intros H Hu. dinv H. constructor; ssh; try assumption.
  - now apply nodup_remove.
  - intros x Hx. destruct (Hthr x Hx) as (H1 & H2 & H3). split; [|tauto].
    apply in_remove. split; [exact H1|]. intros ->. destruct Hx. congruence.
  - intros v Hv. apply in_remove in Hv. apply Hzomb. tauto.
Qed.

(* M10: ~Listener of the dying thread t detaches the thread p that waits for its end *)
Lemma dinv_unregister sc cl s t p :
  Dinv sc cl s -> t_vm (th s t) = false -> In t (tpool s) -> t_notify (th s t) = Some p -> p <> t ->
  Dinv sc cl (set_notify t None (set_waitfor p None s)).
Proof.
  intros H Hu Hin Hn Hpt. pose proof H as H0. dinv H.
  destruct (Hnf t p Hin Hn) as [Hpin Hwp].
  assert (Hrd : forall x, th (set_notify t None (set_waitfor p None s)) x =
            if x =? t then mkT (t_vm (th s t)) (t_state (th s t)) (t_waitfor (th s t)) None
            else if x =? p then mkT (t_vm (th s p)) (t_state (th s p)) None (t_notify (th s p)) else th s x).
  { intro x. rewrite th_set_notify, !th_set_waitfor. destruct (N.eqb_spec t p); [congruence|].
    destruct (N.eqb_spec x t); reflexivity. }
  set (s2 := set_notify t None (set_waitfor p None s)) in *.
  assert (Hh : forall x, healthy s2 x <-> healthy s x).
  { intro x. unfold healthy. rewrite Hrd. change (tpool s2) with (tpool s).
    destruct (N.eqb_spec x t) as [->|_]; prj; [tauto|]. destruct (N.eqb_spec x p) as [->|_]; prj; tauto. }
  assert (Hst : forall x, t_state (th s2 x) = t_state (th s x)).
  { intro x. rewrite Hrd. destruct (N.eqb_spec x t) as [->|_]; prj; [reflexivity|]. destruct (N.eqb_spec x p) as [->|_]; prj; reflexivity. }
  assert (Hwf' : forall x, x <> p -> t_waitfor (th s2 x) = t_waitfor (th s x)).
  { intros x Hx. rewrite Hrd. destruct (N.eqb_spec x t) as [->|_]; prj; [reflexivity|]. destruct (N.eqb_spec x p); [congruence|]. reflexivity. }
  assert (Hwp' : t_waitfor (th s2 p) = None).
  { rewrite Hrd. destruct (N.eqb_spec p t); [congruence|]. now rewrite N.eqb_refl. }
  assert (Hnf' : forall x, x <> t -> t_notify (th s2 x) = t_notify (th s x)).
  { intros x Hx. rewrite Hrd. destruct (N.eqb_spec x t); [congruence|]. destruct (N.eqb_spec x p) as [->|_]; prj; reflexivity. }
  assert (Hnt' : t_notify (th s2 t) = None).
  { rewrite Hrd. now rewrite N.eqb_refl. }
  clear Hrd.
  constructor; try assumption.
  - intros x Hx. apply Hh in Hx. exact (Hthr x Hx).
  - intros c' x Hx. apply Hh in Hx. exact (Hclall c' x Hx).
  - intros e He. rewrite Hst. exact (Htm e He).
  - intros q c Hq Hw'. apply Hh in Hq.
    assert (Hqp : q <> p) by (intros ->; rewrite Hwp' in Hw'; discriminate).
    rewrite Hwf' in Hw' by exact Hqp. destruct (Hwf q c Hq Hw') as (Hi & Hnq & Hs & Hrest).
    assert (Hct : c <> t) by (intros ->; rewrite Hn in Hnq; congruence).
    rewrite Hnf' by exact Hct. rewrite Hst. tauto.
  - intros c q Hc Hnq.
    assert (Hct : c <> t) by (intros ->; rewrite Hnt' in Hnq; discriminate).
    rewrite Hnf' in Hnq by exact Hct. destruct (Hnf c q Hc Hnq) as [Hi Hwq].
    assert (Hqp : q <> p) by (intros ->; rewrite Hwp in Hwq; congruence).
    rewrite Hwf' by exact Hqp. tauto.
Qed.

(* M11: StoppedWaitFor("", false) of a waiting thread whose wait-for table is empty: it becomes due now *)
Lemma start_timing_waiting s p d :
  t_state (th s p) = TWaiting -> t_waitfor (th s p) = None ->
  start_timing p d s = add_timing p d (set_tstate p TTiming (set_tstate p TRunning s)).
Proof. intros H1 H2. unfold start_timing, stop. now rewrite H1, H2. Qed.

Lemma dinv_wake sc cl s p d :
  Dinv sc cl s -> healthy s p -> t_state (th s p) = TWaiting -> t_waitfor (th s p) = None ->
  Dinv sc cl (start_timing p d s).
Proof.
  intros H Hp Hs Hw. rewrite start_timing_waiting by assumption. dinv H.
  assert (Hnotin : ~ In p (map fst (elems s))).
  { intro Hin. apply in_map_iff in Hin. destruct Hin as [e [E He]]. destruct (Htm e He) as [_ Ht]. rewrite E in Ht. congruence. }
  set (s1 := set_tstate p TTiming (set_tstate p TRunning s)).
  assert (Hrd : forall x, th s1 x = if x =? p then mkT (t_vm (th s p)) TTiming (t_waitfor (th s p)) (t_notify (th s p)) else th s x).
  { intro x. unfold s1. rewrite !th_set_tstate. rewrite N.eqb_refl. destruct (N.eqb_spec x p); reflexivity. }
  assert (Hh : forall x, healthy s1 x <-> healthy s x).
  { intro x. unfold healthy. rewrite Hrd. change (tpool s1) with (tpool s). destruct (N.eqb_spec x p) as [->|_]; prj; tauto. }
  assert (Hd : Dinv sc cl s1).
  { constructor; try assumption.
    - intros x Hx. apply Hh in Hx. exact (Hthr x Hx).
    - intros c x Hx. apply Hh in Hx. exact (Hclall c x Hx).
    - intros e He. change (elems s1) with (elems s) in He. destruct (Htm e He) as [Hi Ht].
      split; [exact Hi|]. rewrite Hrd. destruct (N.eqb_spec (fst e) p); prj; [reflexivity|exact Ht].
    - intros q c Hq Hwq. apply Hh in Hq. rewrite Hrd in Hwq.
      destruct (N.eqb_spec q p) as [->|Hqp]; prj; [congruence|].
      destruct (Hwf q c Hq Hwq) as (Hi & Hn & Hst & Hrest). rewrite !Hrd.
      destruct (N.eqb_spec q p); [congruence|].
      destruct (N.eqb_spec c p) as [->|_]; prj; tauto.
    - intros c q Hc Hn. change (tpool s1) with (tpool s) in *. rewrite Hrd in Hn.
      assert (Hn' : t_notify (th s c) = Some q) by (destruct (N.eqb_spec c p) as [->|_]; prj; exact Hn).
      destruct (Hnf c q Hc Hn') as [Hi Hwq]. split; [exact Hi|]. rewrite Hrd.
      destruct (N.eqb_spec q p) as [->|_]; prj; exact Hwq. }
  clear - Hd Hnotin Hrd Hp. unfold add_timing.
  assert (Hd2 : Dinv sc cl (set_elems (elems s1 ++ [(p, scaled s1 + d)]) s1)).
  { dinv Hd. constructor; ss; try assumption.
    - rewrite map_app. cbn [map fst]. apply nodup_app_intro; [exact Htmnd|repeat constructor; auto|].
      intros x Hx [<-|[]]. exact (Hnotin Hx).
    - intros e He. apply in_app_or in He. destruct He as [He|[<-|[]]]; [now apply Htm|]. prj.
      split; [apply Hp|]. specialize (Hrd p). unfold th in Hrd. rewrite Hrd, N.eqb_refl. reflexivity. }
  destruct (scaled s1 + d <=? mtime s1); [|exact Hd2].
  dinv Hd2. constructor; ss; assumption.
Qed.

(* M12: the pool frees the dying thread: nothing refers to it any more *)
Lemma tpool_free_thread t s : tpool (free_thread t s) = remove t (tpool s).
Proof. unfold free_thread. prj. destruct (cur s) as [x|]; [destruct (x =? t)|]; reflexivity. Qed.
Lemma free_thread_fields t s :
  threads (free_thread t s) = threads s /\ vms (free_thread t s) = vms s /\ classes (free_thread t s) = classes s /\
  vpool (free_thread t s) = vpool s /\ cpool (free_thread t s) = cpool s /\ chain (free_thread t s) = chain s /\
  elems (free_thread t s) = elems s /\
  cur (free_thread t s) = match cur s with Some x => if x =? t then None else Some x | None => None end.
Proof. unfold free_thread. prj. destruct (cur s) as [x|] eqn:Ec; [destruct (x =? t)|]; prj; rewrite ?Ec; repeat split; reflexivity. Qed.

Lemma dinv_free_thread sc cl s t :
  Dinv sc cl s -> t_vm (th s t) = false ->
  (forall c, In c (cpool s) -> ~ In t (c_threads (clsof s c))) ->
  ~ In t (map fst (elems s)) ->
  (forall p, healthy s p -> t_waitfor (th s p) <> Some t) ->
  (forall c, In c (tpool s) -> t_notify (th s c) <> Some t) ->
  (In t (vpool s) -> v_state (vmof s t) = VDestroyed) ->
  Dinv sc cl (free_thread t s).
Proof.
  intros H Hu Hcl' Hel Hwt Hnt Hvm. dinv H.
  destruct (free_thread_fields t s) as (E1 & E2 & E3 & E4 & E5 & E6 & E7 & E8).
  pose proof (tpool_free_thread t s) as E0.
  assert (Hh : forall x, healthy (free_thread t s) x <-> healthy s x).
  { intro x. unfold healthy, th. rewrite E0, E1, in_remove. split; [tauto|]. intros [Hi Hv]. split; [split; [exact Hi|]|exact Hv].
    intros ->. unfold th in Hu. congruence. }
  constructor; unfold th, vmof, clsof in *; rewrite ?E0, ?E1, ?E2, ?E3, ?E4, ?E5, ?E6, ?E7; try assumption.
  - now apply nodup_remove.
  - intros x Hx. apply Hh in Hx. exact (Hthr x Hx).
  - intros x c Hx. apply in_remove in Hx. apply Hcl. tauto.
  - intros c x Hc Hx. destruct (Hclin c x Hc Hx) as [Hi Hv]. split; [|exact Hv]. apply in_remove. split; [exact Hi|].
    intros ->. exact (Hcl' c Hc Hx).
  - intros c x Hx. apply Hh in Hx. exact (Hclall c x Hx).
  - intros e He. destruct (Htm e He) as [Hi Ht]. split; [|exact Ht]. apply in_remove. split; [exact Hi|].
    intro E. apply Hel. rewrite <- E. now apply in_map.
  - intros p c Hp Hw. apply Hh in Hp. destruct (Hwf p c Hp Hw) as (Hi & Hrest). split; [|exact Hrest].
    apply in_remove. split; [exact Hi|]. intros ->. exact (Hwt p Hp Hw).
  - intros c p Hc Hn. apply in_remove in Hc. destruct Hc as [Hc _]. destruct (Hnf c p Hc Hn) as [Hi Hw]. split; [|exact Hw].
    apply in_remove. split; [exact Hi|]. intros ->. exact (Hnt c Hc Hn).
  - intros v Hv. destruct (N.eq_dec v t) as [->|Hne]; [right; now apply Hvm|].
    destruct (Hzomb v Hv) as [Hi|Hd]; [left; apply in_remove; tauto|now right].
  - intros x Hx. rewrite E8 in Hx. destruct (cur s) as [y|] eqn:Ec; [|discriminate].
    destruct (N.eqb_spec y t); [discriminate|]. injection Hx as <-. apply in_remove. split; [now apply Hcur|assumption].
Qed.
