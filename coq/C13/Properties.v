(* C13/Properties.v — the property theorems of C13, and nothing else. *)
From Coq Require Import NArith List Bool.
From Morfuse Require Import C13.Model C13.Spec.
Import ListNotations.
Local Open Scope N_scope.

Example C13_history_example :
  map (fun o => (prints o, idle o, ncls o, nthr o, nvm o, nscr o, tmr o, err o))
      (run [ OStart [IPrint 1; IWait 5; IPrint 2];
             OStart [IPrint 3; IWaitThread [IPrint 4; IWaitThread [IPrint 5; IReset; IPrint 6]; IPrint 7]; IPrint 8];
             OStart [IPrint 9; IWait 1; IPrint 10];
             OAdvance 1; OExecute ]) =
  [ ([1], false, 1%nat, 1%nat, 1%nat, 1%nat, true, 0%nat);
    ([3; 4; 5], true, 0%nat, 0%nat, 0%nat, 0%nat, false, 0%nat);
    ([9], false, 1%nat, 1%nat, 1%nat, 1%nat, true, 0%nat);
    ([], false, 1%nat, 1%nat, 1%nat, 1%nat, true, 0%nat);
    ([10], true, 0%nat, 0%nat, 0%nat, 1%nat, false, 0%nat) ].
Proof. vm_compute. reflexivity. Qed.
