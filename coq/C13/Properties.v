(* C13/Properties.v — the property theorems of C13, and nothing else.
   Every theorem is closed by [exact <lemma>] and followed by Print Assumptions.

   Vocabulary.  [Dinv sc cl s] (C13/ProofsInv.v) is the structural invariant of the pools, valid
   at EVERY moment of an execution, also in the middle of a cascade of destructors: no id twice
   in a pool, every thread whose destructor has not begun has a VM that is not destroyed and an
   instance that exists, the thread chain of an instance holds exactly its threads, timer
   elements / wait-for and notify entries only name pooled threads and are mutually consistent, a
   VM without a thread is a destroyed one; [sc t] / [cl t] are the script and the instance thread
   t was created for.  [Clean s] (C13/ProofsReset.v): no destructor is in progress (the states
   between two steps of the C++ call stack: threads running, waiting, or in the middle of a call
   at any nesting depth of thread / waitthread).  [tlog], [vlog], [clog] are the model's record
   of every destruction; ids are never reused, the flag [ub] records any second destruction of an
   object and any use of a destroyed one. *)
From Coq Require Import NArith List Bool Permutation.
From Morfuse Require Import Base.Arr C13.Model C13.Spec C13.ProofsLib C13.ProofsInv C13.ProofsKill C13.ProofsEvo C13.ProofsReset C13.ProofsStep C13.ProofsRun.
Import ListNotations.
Local Open Scope N_scope.

(* Deleting a thread - with everything the C++ destructors cascade into: the thread it waited
   for is deleted with it (recursively), the thread that waited for its end becomes due, its
   instance is destroyed with its last thread - keeps the structural invariant, never touches a
   destroyed object nor destroys one twice ([ub] unchanged), never runs out of fuel, removes the
   thread from the pool, only removes threads of the same script, and conserves pool + log. *)
Theorem C13_deleting_a_thread_destroys_each_object_once :
  forall sc cl f t s,
    Dinv sc cl s -> healthy s t -> anc cl s t -> (4 * hcount s + 4 <= f)%nat ->
    DTpost sc cl t s (delete_thread f t s).
Proof. exact delete_thread_ok. Qed.
Print Assumptions C13_deleting_a_thread_destroys_each_object_once.

(* Destroying an instance (~ScriptClass: unlink, detach every VM, delete every thread that
   still exists, Free) in a state without a destructor in progress. *)
Theorem C13_destroying_an_instance_destroys_its_threads_once :
  forall sc cl c s f,
    Dinv sc cl s -> allh s -> In c (cpool s) -> (4 * hcount s + 5 <= f)%nat ->
    Dinv sc cl (destroy_class f c s) /\ allh (destroy_class f c s) /\
    Evo (fun x => sc x = c_script (clsof s c) /\ c <= cl x)
        (fun c' => c <= c' /\ c_script (clsof s c') = c_script (clsof s c)) s (destroy_class f c s) /\
    ~ In c (cpool (destroy_class f c s)) /\
    (forall t, In t (tpool s) -> v_class (vmof s t) = Some c -> ~ In t (tpool (destroy_class f c s))).
Proof. exact destroy_class_ok. Qed.
Print Assumptions C13_destroying_an_instance_destroys_its_threads_once.

(* Reset means clean.  On EVERY state of the invariant - threads running, waiting, mid-call at
   any depth - ClearAll leaves no instance, no thread, no chain link, no timer element, no
   program and no current thread; the only VMs left are destroyed ones (they are executing on
   the C++ stack and free themselves at the tail of ScriptVM::Execute); the invariant holds
   again; [Evo]: no flag was raised (nothing destroyed twice, nothing used after destruction,
   no fuel exhausted) and [ev_log]: pool + log is conserved, i.e. every thread, VM and instance
   that left its pool is in the log exactly once more. *)
Theorem C13_reset_destroys_everything_once :
  forall sc cl s,
    Dinv sc cl s -> Clean s ->
    Dinv sc cl (reset s) /\ Clean (reset s) /\
    cpool (reset s) = [] /\ tpool (reset s) = [] /\ chain (reset s) = [] /\ elems (reset s) = [] /\ scripts (reset s) = [] /\
    cur (reset s) = None /\
    (forall v, In v (vpool (reset s)) -> v_state (vmof (reset s) v) = VDestroyed) /\
    Evo (fun _ => True) (fun _ => True) s (free_all (S (length (cpool s))) s).
Proof. exact reset_ok. Qed.
Print Assumptions C13_reset_destroys_everything_once.

(* Idle means empty: no instance => no thread, no chain link, no pending timer, no current
   thread, and only destroyed (still executing) VMs. *)
Theorem C13_no_instance_means_nothing_left :
  forall sc cl s,
    Dinv sc cl s -> Clean s -> cpool s = [] ->
    tpool s = [] /\ chain s = [] /\ elems s = [] /\ cur s = None /\
    (forall v, In v (vpool s) -> v_state (vmof s v) = VDestroyed).
Proof. exact empty_means_empty. Qed.
Print Assumptions C13_no_instance_means_nothing_left.

(* Recompiling a script destroys exactly the instances that were running the old version: an
   instance survives iff it runs another script, a thread survives iff its instance runs another
   script, the survivors' thread and VM records are untouched (no wake-up crosses scripts), the
   program table holds the script again, pool + log is conserved. *)
Theorem C13_recompile_destroys_exactly_the_old_instances :
  forall sc cl k s,
    Dinv sc cl s -> Clean s -> In k (scripts s) ->
    Dinv sc cl (recompile k s) /\ Clean (recompile k s) /\
    (forall c, In c (cpool (recompile k s)) <-> In c (cpool s) /\ c_script (clsof s c) <> k) /\
    (forall t, In t (tpool (recompile k s)) <-> In t (tpool s) /\ script_of s t <> Some k) /\
    (forall t, In t (tpool (recompile k s)) -> th (recompile k s) t = th s t /\ vmof (recompile k s) t = vmof s t) /\
    (forall c, In c (cpool (recompile k s)) -> c_script (clsof (recompile k s) c) = c_script (clsof s c)) /\
    scripts (recompile k s) = remove k (scripts s) ++ [k] /\
    Lcons s (recompile k s).
Proof. exact recompile_ok. Qed.
Print Assumptions C13_recompile_destroys_exactly_the_old_instances.

(* [Good sc cl s] (C13/ProofsStep.v): the structural invariant, no destructor in progress, all ids
   below the allocation counter, every pooled thread whose VM is not parked has a frame on the
   C++ stack, every VM without a thread has one, no error flag.

   Every step of the C++ call stack - an instruction of the running thread (println, wait,
   thread, waitthread, host_reset, host_recompile, end), the tail of ScriptVM::Execute, the
   epilogue of ScriptExecuteInternal, an iteration of ExecuteRunning - that raises no error flag
   leads from a good state to a good state: in particular a Reset / recompile issued from inside
   a host command acts on a good state (threads running, waiting, mid-call at any nesting depth)
   and leaves a good state in which the callers' destroyed VMs still have their frames. *)
Theorem C13_every_step_keeps_the_invariant :
  forall sc cl s,
    Good sc cl s -> ub (step s) = false -> oof (step s) = false ->
    exists sc' cl', Good sc' cl' (step s).
Proof. exact step_good. Qed.
Print Assumptions C13_every_step_keeps_the_invariant.

Theorem C13_every_host_operation_keeps_the_invariant :
  forall sc cl s o,
    Good sc cl s -> stack s = [] -> unflagged (host_step s o) ->
    exists sc' cl', Good sc' cl' (host_step s o) /\ stack (host_step s o) = [].
Proof. exact host_step_good. Qed.
Print Assumptions C13_every_host_operation_keeps_the_invariant.

Theorem C13_every_error_free_history_reaches_a_good_state :
  forall ops sc cl s,
    Good sc cl s -> stack s = [] -> unflagged (fold_left host_step ops s) ->
    exists sc' cl', Good sc' cl' (fold_left host_step ops s) /\ stack (fold_left host_step ops s) = [].
Proof. exact reach_good. Qed.
Print Assumptions C13_every_error_free_history_reaches_a_good_state.

(* Idle means empty, suspended means busy.  For EVERY history of thread starts (any program of
   println / wait / thread / waitthread / host_reset / host_recompile / pause / level.r<k> = local /
   level.r<k> wait|waitframe|pause applied to another thread / waitthread of a missing label, any
   nesting; also refused host starts), clock
   advances, frames, Resets, recompiles and the destruction of the context, every observation
   the host makes between two operations that carries no error flag satisfies:
   as many VMs as threads; no instance => no thread, no timer element, idle;
   a thread exists => not idle; idle => no timer element; never more timer elements than threads.
   (_partial: that no observation ever carries an error flag - the model's [ub] = a destroyed
   object used or destroyed twice, [oof] = a loop out of fuel - is proved for the destructors
   (C13_deleting_a_thread_..., C13_destroying_an_instance_..., C13_reset_..., C13_recompile_...
   include it) but not for the step loop as a whole: it is sampled, see the evidence.) *)
Theorem C13_idle_means_empty_and_threads_mean_busy_partial :
  forall ops, Forall
    (fun ob => err ob = O ->
       nvm ob = nthr ob /\
       (ncls ob = O -> nthr ob = O /\ ntmr ob = O /\ idle ob = true) /\
       (nthr ob <> O -> idle ob = false) /\
       (idle ob = true -> ntmr ob = O) /\
       (ntmr ob <= nthr ob)%nat)
    (run ops).
Proof. exact run_ok. Qed.
Print Assumptions C13_idle_means_empty_and_threads_mean_busy_partial.

(* Reset between two frames, in any good state: the host observes a new engine (no instance,
   thread, VM, program, timer; idle; no error). *)
Theorem C13_after_a_reset_the_host_observes_a_new_engine :
  forall sc cl s,
    Good sc cl s -> stack s = [] ->
    let ob := observe (host_step s OReset) in
    ncls ob = O /\ nthr ob = O /\ nvm ob = O /\ nscr ob = O /\ ntmr ob = O /\ idle ob = true /\ err ob = O.
Proof. exact reset_observed. Qed.
Print Assumptions C13_after_a_reset_the_host_observes_a_new_engine.

(* A thread has at most one timer element.  In every good state - hence, by the theorems above,
   after every error-free step and in every state an error-free history reaches, whatever
   timing commands (wait, waitframe, pause) threads applied to themselves or, through a stored
   reference, to threads that were running mid-call, parked in a timed wait, waiting for a
   waitthread callee, paused or already ended - the timer elements name pairwise distinct pooled
   threads whose destructor has not begun and which are in state Timing. *)
Theorem C13_every_timer_element_is_a_distinct_live_timing_thread :
  forall sc cl s,
    Good sc cl s ->
    NoDup (map fst (elems s)) /\
    forall e, In e (elems s) -> In (fst e) (tpool s) /\ t_vm (th s (fst e)) = true /\ t_state (th s (fst e)) = TTiming.
Proof. exact timer_elements_ok. Qed.
Print Assumptions C13_every_timer_element_is_a_distinct_live_timing_thread.

Theorem C13_timer_elements_of_every_error_free_history :
  forall ops sc cl s,
    Good sc cl s -> stack s = [] -> unflagged (fold_left host_step ops s) ->
    let s' := fold_left host_step ops s in
    NoDup (map fst (elems s')) /\
    forall e, In e (elems s') -> In (fst e) (tpool s') /\ t_vm (th s' (fst e)) = true /\ t_state (th s' (fst e)) = TTiming.
Proof. exact timer_elements_reachable. Qed.
Print Assumptions C13_timer_elements_of_every_error_free_history.

(* ScriptThread::Stop / Wait / Pause applied to ANY whole thread of a good state (by itself or by
   another thread) raise no error flag and leave a good state; after Stop the thread is in no
   timer and waits for nobody (the thread it waited for has been deleted with its cascade). *)
Theorem C13_a_timing_command_on_any_thread_keeps_the_invariant :
  forall sc cl s b d,
    Good sc cl s -> healthy s b -> Good sc cl (wait_on b d s) /\ Good sc cl (pause_on b s).
Proof. exact timing_commands_ok. Qed.
Print Assumptions C13_a_timing_command_on_any_thread_keeps_the_invariant.

(* A thread start that creates a new script instance and then fails (the label does not exist:
   ScriptMaster::CreateScriptThread(script, self, label) deletes the thread-less instance in its
   handler) leaves a good state with exactly the instances, chain links, threads and VMs there
   were before - from a script (waitthread) and from the host (ExecuteThread). *)
Theorem C13_a_failed_thread_start_leaves_no_instance_behind :
  forall sc cl k s,
    Good sc cl s ->
    let s' := (let '(c, s1) := new_class k s in destroy_class (dfuel s1) c s1) in
    Good sc cl s' /\ cpool s' = cpool s /\ chain s' = chain s /\ tpool s' = tpool s /\ vpool s' = vpool s.
Proof. exact failed_start_pools. Qed.
Print Assumptions C13_a_failed_thread_start_leaves_no_instance_behind.

(* Reset means as new also for the variables of game, level and parm: whatever scripts stored
   there, after a Reset (between two frames or from inside a host command, in any state) every
   such variable reads as not set and every stored thread reference is gone; the end of threads
   and a recompilation do not touch them (they are compared with the engine on every case). *)
Theorem C13_reset_forgets_the_global_variables :
  forall s v k, Base.Arr.get (gvars (reset s)) v = 0 /\ Base.Arr.get (refs (reset s)) k = None.
Proof. exact reset_forgets_globals. Qed.
Print Assumptions C13_reset_forgets_the_global_variables.

(* Not proved (full statement): forall ops, run ops = spec_run ops - the model (pools, VM state
   machine, chains, weak references, destructor cascades) observes what the abstract resource
   semantics of C13/Spec.v observes.  The two are compared on every generated case by the check
   (lines `m` against `s`); the abstraction function and its lemmas for the elementary updates
   are in C13/ProofsLib.v and C13/ProofsAbs.v. *)

(* Non-vacuity.  Script 0 waits 5 ms; script 1 calls waitthread twice nested and the innermost
   callee resets the engine from a host command (its two callers are suspended inside their own
   Execute): nothing is left, the rest of no program runs; script 2 then compiles and runs as on
   a new engine.  Shown per host op: prints, idle, instances, threads, VMs, programs, timer, error. *)
Example C13_history_example :
  map (fun o => (prints o, idle o, ncls o, nthr o, nvm o, nscr o, ntmr o, err o))
      (run [ OStart [IPrint 1; IWait 5; IPrint 2];
             OStart [IPrint 3; IWaitThread [IPrint 4; IWaitThread [IPrint 5; IReset; IPrint 6]; IPrint 7]; IPrint 8];
             OStart [IPrint 9; IWait 1; IPrint 10];
             OAdvance 1; OExecute ]) =
  [ ([1], false, 1%nat, 1%nat, 1%nat, 1%nat, 1%nat, 0%nat);
    ([3; 4; 5], true, 0%nat, 0%nat, 0%nat, 0%nat, 0%nat, 0%nat);
    ([9], false, 1%nat, 1%nat, 1%nat, 1%nat, 1%nat, 0%nat);
    ([], false, 1%nat, 1%nat, 1%nat, 1%nat, 1%nat, 0%nat);
    ([10], true, 0%nat, 0%nat, 0%nat, 1%nat, 0%nat, 0%nat) ].
Proof. vm_compute. reflexivity. Qed.

(* a parent waits for its callee, the callee's instance is recompiled between two frames: both
   instances of the script die (newest first: the parent is first made due, then destroyed), the
   bystander script is untouched *)
Example C13_recompile_example :
  map (fun o => (prints o, ncls o, nthr o, nvm o, nscr o, ntmr o, err o))
      (run [ OStart [IPrint 1; IWait 5; IPrint 2];
             OStart [IPrint 3; IWaitThread [IPrint 4; IWait 3; IPrint 5]; IPrint 6];
             ORecompile 1;
             OAdvance 5; OExecute ]) =
  [ ([1], 1%nat, 1%nat, 1%nat, 1%nat, 1%nat, 0%nat);
    ([3; 4], 3%nat, 3%nat, 3%nat, 2%nat, 2%nat, 0%nat);
    ([], 1%nat, 1%nat, 1%nat, 2%nat, 1%nat, 0%nat);
    ([], 1%nat, 1%nat, 1%nat, 2%nat, 1%nat, 0%nat);
    ([2], 0%nat, 0%nat, 0%nat, 2%nat, 0%nat, 0%nat) ].
Proof. vm_compute. reflexivity. Qed.

(* thread 0 stores a reference to itself and waits 5 ms; script 1 applies `wait 1` and then `wait 2`
   to it: always ONE timer element; it resumes at 2 ms (after the second command), not at 5 *)
Example C13_retime_example :
  map (fun o => (prints o, nthr o, ntmr o, err o))
      (run [ OStart [IStore 0; IPrint 1; IWait 5; IPrint 2];
             OStart [IPrint 3; IXWait 0 1; IPrint 4; IXWait 0 2; IPrint 5];
             OAdvance 1; OExecute; OAdvance 1; OExecute ]) =
  [ ([1], 1%nat, 1%nat, 0%nat); ([3; 4; 5], 1%nat, 1%nat, 0%nat);
    ([], 1%nat, 1%nat, 0%nat); ([], 1%nat, 1%nat, 0%nat);
    ([], 1%nat, 1%nat, 0%nat); ([2], 0%nat, 0%nat, 0%nat) ].
Proof. vm_compute. reflexivity. Qed.
