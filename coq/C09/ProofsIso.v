(* C09/ProofsIso.v — isomorphic states behave alike: every operation of the engine model
   maps related states to related states with the same observation. *)
From Coq Require Import NArith ZArith List Bool Permutation Lia.
From Morfuse Require Import C09.Model C09.Spec.
Import ListNotations.
Local Open Scope N_scope.

(* ---------------------------------------------------------------- variables, holders *)
Lemma vrel_mono m m' v1 v2 : incl m m' -> vrel m v1 v2 -> vrel m' v1 v2.
Proof. intros Hi. destruct v1, v2; cbn; auto. Qed.

Lemma env_rel_mono m m' e1 e2 : incl m m' -> env_rel m e1 e2 -> env_rel m' e1 e2.
Proof.
  intros Hi H. induction H as [|a b l1 l2 [Hf Hv] _ IH]; constructor; auto.
  split; [exact Hf | eapply vrel_mono; eauto].
Qed.

Lemma env_get_rel m x e1 e2 : env_rel m e1 e2 -> vrel m (env_get x e1) (env_get x e2).
Proof.
  intro H. induction H as [|[y1 v1] [y2 v2] l1 l2 [Hf Hv] _ IH]; cbn; [reflexivity|].
  cbn in Hf. subst y2. destruct (N.eqb x y1); auto.
Qed.

Lemma env_set_rel m x v1 v2 e1 e2 :
  env_rel m e1 e2 -> vrel m v1 v2 -> env_rel m (env_set x v1 e1) (env_set x v2 e2).
Proof.
  intros H Hv. induction H as [|[y1 w1] [y2 w2] l1 l2 [Hf Hw] Hr IH]; cbn.
  - constructor; [split; auto|constructor].
  - cbn in Hf. subst y2. destruct (N.eqb x y1).
    + constructor; [split; auto|exact Hr].
    + constructor; [split; auto|exact IH].
Qed.

Lemma heap_get_set_same r o h : heap_get r (heap_set r o h) = o.
Proof.
  induction h as [|[q o'] h IH]; cbn.
  - now rewrite N.eqb_refl.
  - destruct (N.eqb r q) eqn:E; cbn; rewrite E; auto.
Qed.

Lemma heap_get_set_other r q o h : q <> r -> heap_get q (heap_set r o h) = heap_get q h.
Proof.
  intro Hne. induction h as [|[p o'] h IH]; cbn.
  - destruct (N.eqb_spec q r); [contradiction|reflexivity].
  - destruct (N.eqb_spec r p) as [->|Hrp]; cbn.
    + destruct (N.eqb_spec q p); [contradiction|reflexivity].
    + destruct (N.eqb q p); auto.
Qed.

Lemma heap_rel_set m r1 r2 o h1 h2 :
  pbij m -> In (r1, r2) m -> heap_rel m h1 h2 ->
  heap_rel m (heap_set r1 o h1) (heap_set r2 o h2).
Proof.
  intros Hb Hin Hh q1 q2 Hq.
  destruct (N.eq_dec q1 r1) as [->|Hne].
  - assert (q2 = r2) by (apply (Hb r1 q2 r1 r2 Hq Hin); reflexivity). subst q2.
    now rewrite !heap_get_set_same.
  - assert (q2 <> r2).
    { intro E. apply Hne. apply (Hb q1 q2 r1 r2 Hq Hin). exact E. }
    rewrite !heap_get_set_other by assumption. now apply Hh.
Qed.

Lemma pbij_cons m a b :
  pbij m -> (forall x y, In (x, y) m -> x <> a /\ y <> b) -> pbij ((a, b) :: m).
Proof.
  intros Hb Hf x y x' y' [E|H] [E'|H'].
  - inversion E; inversion E'; subst. tauto.
  - inversion E; subst. destruct (Hf _ _ H'). split; intro; subst; tauto.
  - inversion E'; subst. destruct (Hf _ _ H). split; intro; subst; tauto.
  - now apply Hb.
Qed.

Lemma bounded_fresh m n1 n2 : bounded m n1 n2 -> forall x y, In (x, y) m -> x <> n1 /\ y <> n2.
Proof. intros Hb x y H. destruct (Hb _ _ H). split; intro; subst; lia. Qed.

Lemma bounded_cons m n1 n2 : bounded m n1 n2 -> bounded ((n1, n2) :: m) (n1 + 1) (n2 + 1).
Proof.
  intros Hb x y [E|H].
  - inversion E; subst. lia.
  - destruct (Hb _ _ H). lia.
Qed.

(* ---------------------------------------------------------------- chains *)
Lemma mem_rel hm h1 h2 c1 c2 :
  pbij hm -> In (h1, h2) hm -> chain_rel hm c1 c2 -> mem h1 c1 = mem h2 c2.
Proof.
  intros Hb Hh H. induction H as [|a b l1 l2 Hab _ IH]; cbn; [reflexivity|].
  rewrite IH. f_equal.
  destruct (N.eqb_spec h1 a) as [->|Hn]; destruct (N.eqb_spec h2 b) as [->|Hn2]; auto.
  - exfalso. apply Hn2. apply (Hb a h2 a b Hh Hab). reflexivity.
  - exfalso. apply Hn. apply (Hb h1 b a b Hh Hab). reflexivity.
Qed.

Lemma remove_rel hm h1 h2 c1 c2 :
  pbij hm -> In (h1, h2) hm -> chain_rel hm c1 c2 ->
  chain_rel hm (remove_h h1 c1) (remove_h h2 c2).
Proof.
  intros Hb Hh H. induction H as [|a b l1 l2 Hab _ IH]; cbn; [constructor|].
  destruct (N.eqb_spec h1 a) as [->|Hn]; destruct (N.eqb_spec h2 b) as [->|Hn2]; auto.
  - exfalso. apply Hn2. apply (Hb a h2 a b Hh Hab). reflexivity.
  - exfalso. apply Hn. apply (Hb h1 b a b Hh Hab). reflexivity.
  - constructor; auto.
Qed.

Lemma chain_rel_mono hm hm' c1 c2 : incl hm hm' -> chain_rel hm c1 c2 -> chain_rel hm' c1 c2.
Proof. intros Hi H. induction H; constructor; auto. Qed.

Lemma chains_mono hm hm' i1 i2 :
  incl hm hm' -> Forall2 (chain_rel hm) i1 i2 -> Forall2 (chain_rel hm') i1 i2.
Proof. intros Hi H. induction H; constructor; eauto using chain_rel_mono. Qed.

Lemma insts_rel_mono hm hm' i1 i2 : incl hm hm' -> insts_rel hm i1 i2 -> insts_rel hm' i1 i2.
Proof. intros Hi [i [Hp Hf]]. exists i. split; eauto using chains_mono. Qed.

Lemma nonempty_rel hm c1 c2 : chain_rel hm c1 c2 -> nonempty c1 = nonempty c2.
Proof. intro H. destruct H; reflexivity. Qed.

Lemma Permutation_filter {A} (f : A -> bool) l l' :
  Permutation l l' -> Permutation (filter f l) (filter f l').
Proof.
  intro H. induction H; cbn.
  - constructor.
  - destruct (f x); auto.
  - destruct (f x), (f y); auto. apply perm_swap.
  - eapply perm_trans; eauto.
Qed.

Lemma end_in_rel hm h1 h2 i1 i2 :
  pbij hm -> In (h1, h2) hm -> insts_rel hm i1 i2 -> insts_rel hm (end_in h1 i1) (end_in h2 i2).
Proof.
  intros Hb Hh [i [Hp Hf]]. exists (end_in h1 i). split.
  - unfold end_in. apply Permutation_filter. now apply Permutation_map.
  - unfold end_in. clear Hp. induction Hf as [|c1 c2 l1 l2 Hc _ IH]; cbn; [constructor|].
    pose proof (remove_rel hm h1 h2 c1 c2 Hb Hh Hc) as Hr.
    rewrite (nonempty_rel _ _ _ Hr). destruct (nonempty (remove_h h2 c2)); auto.
Qed.

Lemma spawn_in_rel hm h1 h2 a b i1 i2 :
  pbij hm -> In (h1, h2) hm -> In (a, b) hm -> insts_rel hm i1 i2 ->
  insts_rel hm (spawn_in h1 a i1) (spawn_in h2 b i2).
Proof.
  intros Hb Hh Hab [i [Hp Hf]]. exists (spawn_in h1 a i). split.
  - unfold spawn_in. now apply Permutation_map.
  - unfold spawn_in. clear Hp. induction Hf as [|c1 c2 l1 l2 Hc _ IH]; cbn; [constructor|].
    rewrite (mem_rel hm h1 h2 c1 c2 Hb Hh Hc). constructor; [|exact IH].
    destruct (mem h2 c2); [constructor; auto | exact Hc].
Qed.

(* ---------------------------------------------------------------- elements *)
Lemma thr_rel_mono hm hm' t1 t2 : incl hm hm' -> thr_rel hm t1 t2 -> thr_rel hm' t1 t2.
Proof. intros Hi [H1 H2]. split; auto. Qed.

Lemma elems_mono hm hm' l1 l2 :
  incl hm hm' -> Forall2 (elem_rel hm) l1 l2 -> Forall2 (elem_rel hm') l1 l2.
Proof.
  intros Hi H. induction H as [|a b l1 l2 [Ht Hr] _ IH]; constructor; auto.
  split; eauto using thr_rel_mono.
Qed.

(* ---------------------------------------------------------------- running a thread *)
Lemma st_rel_fields hm s1 s2 :
  st_rel hm s1 s2 ->
  mtime s1 = mtime s2 /\ dirty s1 = dirty s2 /\ scaled s1 = scaled s2 /\
  lastclk s1 = lastclk s2 /\ startclk s1 = startclk s2 /\ clock s1 = clock s2.
Proof. intros (_ & _ & H). tauto. Qed.

Lemma data_rel_intro m e1 h1 n1 e2 h2 n2 :
  env_rel m e1 e2 -> heap_rel m h1 h2 -> pbij m -> bounded m n1 n2 -> data_rel e1 h1 n1 e2 h2 n2.
Proof. intros. exists m. tauto. Qed.

Lemma data_rel_empty : data_rel [] [] 1 [] [] 1.
Proof.
  apply (data_rel_intro []).
  - apply Forall2_nil.
  - intros ? ? [].
  - intros ? ? ? ? [].
  - intros ? ? [].
Qed.

Ltac srel :=
  unfold st_rel; cbn;
  (split; [|split; [|split; [|split; [|split; [|split; [|split; [|split; [|split]]]]]]]]); cbn; auto.

Definition code_goal (n : nat) : Prop :=
  forall p, (psize p <= n)%nat ->
  forall s1 s2 hm h1 h2 e1 hp1 n1 e2 hp2 n2 log,
    st_rel hm s1 s2 -> In (h1, h2) hm -> data_rel e1 hp1 n1 e2 hp2 n2 ->
    exists hm', incl hm hm' /\
      st_rel hm' (fst (run_code p s1 h1 e1 hp1 n1 log)) (fst (run_code p s2 h2 e2 hp2 n2 log)) /\
      snd (run_code p s1 h1 e1 hp1 n1 log) = snd (run_code p s2 h2 e2 hp2 n2 log).

Lemma psize_pos p : (1 <= psize p)%nat.
Proof. destruct p as [|[] p]; cbn; lia. Qed.

Lemma run_code_rel_n : forall n, code_goal n.
Proof.
  induction n as [|n IHn]; intros p Hsz.
  { pose proof (psize_pos p). lia. }
  intros s1 s2 hm h1 h2 e1 hp1 n1 e2 hp2 n2 log Hst Hh Hd.
  destruct p as [|i p'].
  { (* the thread ends *)
    cbn. exists hm. split; [apply incl_refl|]. split; [|reflexivity].
    destruct Hst as (He & Hi & Hm & Hdi & Hsc & Hl & Hs & Hc & Hb & Hbd).
    srel. now apply end_in_rel. }
  destruct i as [m|d|x v|x k v|x y|x|x k|q].
  - (* print *) cbn. apply IHn; auto. cbn in Hsz. lia.
  - (* wait *)
    cbn. exists hm. split; [apply incl_refl|]. split; [|reflexivity].
    destruct Hst as (He & Hi & Hm & Hdi & Hsc & Hl & Hs & Hc & Hb & Hbd).
    srel.
    + apply Forall2_app; [exact He|]. constructor; [|constructor].
      split; cbn; [now rewrite Hsc|]. split; cbn; auto.
    + now rewrite Hsc, Hm, Hdi.
  - (* local.x = literal *)
    cbn. apply IHn; auto. { cbn in Hsz. lia. }
    destruct Hd as (m & Hev & Hhp & Hb & Hbd). apply (data_rel_intro m); auto.
    apply env_set_rel; cbn; auto.
  - (* local.x[k] = literal *)
    cbn. destruct Hd as (m & Hev & Hhp & Hb & Hbd).
    pose proof (env_get_rel m x e1 e2 Hev) as Hg.
    destruct (env_get x e1) as [sc1|r1], (env_get x e2) as [sc2|r2]; cbn in Hg; try contradiction.
    + subst sc2. destruct sc1.
      * (* nil: a new holder *)
        apply IHn; auto. { cbn in Hsz. lia. }
        apply (data_rel_intro ((n1, n2) :: m)).
        -- apply env_set_rel; [|cbn; now left].
           eapply env_rel_mono; [|exact Hev]. now apply incl_tl.
        -- intros q1 q2 [E|Hq].
           ++ inversion E; subst. now rewrite !heap_get_set_same.
           ++ destruct (Hbd _ _ Hq). rewrite !heap_get_set_other by lia. now apply Hhp.
        -- apply pbij_cons; auto. now apply bounded_fresh.
        -- apply (bounded_cons m n1 n2 Hbd).
      * apply IHn; auto. { cbn in Hsz. lia. } apply (data_rel_intro m); auto.
      * apply IHn; auto. { cbn in Hsz. lia. } apply (data_rel_intro m); auto.
      * apply IHn; auto. { cbn in Hsz. lia. } apply (data_rel_intro m); auto.
      * apply IHn; auto. { cbn in Hsz. lia. } apply (data_rel_intro m); auto.
    + apply IHn; auto. { cbn in Hsz. lia. }
      apply (data_rel_intro m); auto.
      rewrite (Hhp _ _ Hg). now apply heap_rel_set.
  - (* local.x = local.y *)
    cbn. apply IHn; auto. { cbn in Hsz. lia. }
    destruct Hd as (m & Hev & Hhp & Hb & Hbd). apply (data_rel_intro m); auto.
    apply env_set_rel; auto. now apply env_get_rel.
  - (* println local.x *)
    cbn. destruct Hd as (m & Hev & Hhp & Hb & Hbd).
    pose proof (env_get_rel m x e1 e2 Hev) as Hg.
    assert (print_of (env_get x e1) = print_of (env_get x e2)) as ->.
    { destruct (env_get x e1), (env_get x e2); cbn in Hg; try contradiction; cbn; congruence. }
    apply IHn; auto. { cbn in Hsz. lia. } apply (data_rel_intro m); auto.
  - (* println local.x[k] *)
    cbn. destruct Hd as (m & Hev & Hhp & Hb & Hbd).
    pose proof (env_get_rel m x e1 e2 Hev) as Hg.
    destruct (env_get x e1) as [sc1|r1], (env_get x e2) as [sc2|r2]; cbn in Hg; try contradiction.
    + apply IHn; auto. { cbn in Hsz. lia. } apply (data_rel_intro m); auto.
    + rewrite (Hhp _ _ Hg). apply IHn; auto. { cbn in Hsz. lia. } apply (data_rel_intro m); auto.
  - (* thread q *)
    cbn in Hsz. cbn.
    destruct Hst as (He & Hi & Hm & Hdi & Hsc & Hl & Hs & Hc & Hb & Hbd).
    set (hm1 := (nexth s1, nexth s2) :: hm).
    assert (Hincl : incl hm hm1) by (apply incl_tl, incl_refl).
    assert (Hb1 : pbij hm1) by (apply pbij_cons; auto; now apply bounded_fresh).
    set (s1' := mkSt (elems s1) (spawn_in h1 (nexth s1) (insts s1)) (mtime s1) (dirty s1) (scaled s1)
                     (lastclk s1) (startclk s1) (clock s1) (nexth s1 + 1)).
    set (s2' := mkSt (elems s2) (spawn_in h2 (nexth s2) (insts s2)) (mtime s2) (dirty s2) (scaled s2)
                     (lastclk s2) (startclk s2) (clock s2) (nexth s2 + 1)).
    assert (Hst' : st_rel hm1 s1' s2').
    { srel.
      - eapply elems_mono; eauto.
      - apply (spawn_in_rel hm1 h1 h2 (nexth s1) (nexth s2));
          [exact Hb1 | unfold hm1; right; exact Hh | unfold hm1; left; reflexivity | eapply insts_rel_mono; eauto].
      - apply (bounded_cons hm _ _ Hbd). }
    assert (Hq : (psize q <= n)%nat) by lia.
    assert (Hin1 : In (nexth s1, nexth s2) hm1) by (unfold hm1; now left).
    destruct (IHn q Hq s1' s2' hm1 (nexth s1) (nexth s2) [] [] 1 [] [] 1 log Hst' Hin1 data_rel_empty)
      as (hm2 & Hi2 & Hst2 & Hlog2).
    destruct (run_code q s1' (nexth s1) [] [] 1 log) as [s1'' log1] eqn:E1.
    destruct (run_code q s2' (nexth s2) [] [] 1 log) as [s2'' log2] eqn:E2.
    cbn in Hst2, Hlog2. subst log2.
    assert (Hp : (psize p' <= n)%nat) by lia.
    assert (Hin2 : In (h1, h2) hm2) by (apply Hi2; unfold hm1; now right).
    destruct (IHn p' Hp s1'' s2'' hm2 h1 h2 e1 hp1 n1 e2 hp2 n2 log1 Hst2 Hin2 Hd) as (hm3 & Hi3 & Hst3 & Hlog3).
    exists hm3. split; [|split; auto].
    eapply incl_tran; [exact Hincl|]. eapply incl_tran; eauto.
Qed.

Lemma run_code_rel p s1 s2 hm h1 h2 e1 hp1 n1 e2 hp2 n2 log :
  st_rel hm s1 s2 -> In (h1, h2) hm -> data_rel e1 hp1 n1 e2 hp2 n2 ->
  exists hm', incl hm hm' /\
    st_rel hm' (fst (run_code p s1 h1 e1 hp1 n1 log)) (fst (run_code p s2 h2 e2 hp2 n2 log)) /\
    snd (run_code p s1 h1 e1 hp1 n1 log) = snd (run_code p s2 h2 e2 hp2 n2 log).
Proof. apply (run_code_rel_n (psize p)). lia. Qed.

Lemma run_thread_rel hm s1 s2 t1 t2 log :
  st_rel hm s1 s2 -> thr_rel hm t1 t2 ->
  exists hm', st_rel hm' (fst (run_thread s1 t1 log)) (fst (run_thread s2 t2 log)) /\
              snd (run_thread s1 t1 log) = snd (run_thread s2 t2 log).
Proof.
  intros Hst (Hh & Hc & Hd). unfold run_thread. rewrite <- Hc.
  destruct (run_code_rel (tcode t1) s1 s2 hm (th t1) (th t2) _ _ _ _ _ _ log Hst Hh Hd) as (hm' & _ & H1 & H2).
  exists hm'. split; auto.
Qed.

(* ---------------------------------------------------------------- the timer *)
Lemma elems_times hm l1 l2 : Forall2 (elem_rel hm) l1 l2 -> map etime l1 = map etime l2.
Proof. intro H. induction H as [|a b l1 l2 [Ht _] _ IH]; cbn; congruence. Qed.

Lemma Forall2_length' {A B} (R : A -> B -> Prop) l1 l2 : Forall2 R l1 l2 -> length l1 = length l2.
Proof. intro H. induction H; cbn; auto. Qed.

Lemma Forall2_nth {A B} (R : A -> B -> Prop) l1 l2 k :
  Forall2 R l1 l2 ->
  match nth_error l1 k, nth_error l2 k with
  | Some a, Some b => R a b
  | None, None => True
  | _, _ => False
  end.
Proof.
  intro H. revert k. induction H; intros [|k]; cbn; auto. apply IHForall2.
Qed.

Lemma Forall2_remove_at {A B} (R : A -> B -> Prop) l1 l2 i :
  Forall2 R l1 l2 -> Forall2 R (remove_at l1 i) (remove_at l2 i).
Proof.
  intro H. revert i. induction H; intros [|[|i]]; cbn; auto; try constructor; auto.
Qed.

Lemma st_rel_set_elems hm s1 s2 l1 l2 :
  st_rel hm s1 s2 -> Forall2 (elem_rel hm) l1 l2 -> st_rel hm (set_elems s1 l1) (set_elems s2 l2).
Proof.
  intros (He & Hi & Hm & Hdi & Hsc & Hl & Hs & Hc & Hb & Hbd) H. srel.
Qed.

Lemma get_next_rel hm s1 s2 :
  st_rel hm s1 s2 ->
  match get_next s1, get_next s2 with
  | Some (e1, s1'), Some (e2, s2') => elem_rel hm e1 e2 /\ st_rel hm s1' s2'
  | None, None => True
  | _, _ => False
  end.
Proof.
  intro Hst. pose proof Hst as (He & _ & Hm & _). unfold get_next.
  rewrite (elems_times hm _ _ He), (Forall2_length' _ _ _ He), Hm.
  destruct (scan _ _ _ _) as [i|]; [|exact I].
  pose proof (Forall2_nth _ _ _ (pred i) He) as Hn.
  destruct (nth_error (elems s1) (pred i)) as [a|], (nth_error (elems s2) (pred i)) as [b|]; try contradiction; auto.
  split; auto. apply st_rel_set_elems; auto. now apply Forall2_remove_at.
Qed.

Lemma exec_loop_rel fuel : forall hm s1 s2 log,
  st_rel hm s1 s2 ->
  match exec_loop fuel s1 log, exec_loop fuel s2 log with
  | Some (s1', l1), Some (s2', l2) => (exists hm', st_rel hm' s1' s2') /\ l1 = l2
  | None, None => True
  | _, _ => False
  end.
Proof.
  induction fuel as [|f IH]; intros hm s1 s2 log Hst.
  - cbn. pose proof (get_next_rel hm s1 s2 Hst) as Hg.
    destruct (get_next s1) as [[a s1']|], (get_next s2) as [[b s2']|]; try contradiction; auto.
    split; auto. exists hm.
    destruct Hst as (He & Hi & Hm & Hdi & Hsc & Hl & Hs & Hc & Hb & Hbd). srel.
  - cbn. pose proof (get_next_rel hm s1 s2 Hst) as Hg.
    destruct (get_next s1) as [[a s1']|], (get_next s2) as [[b s2']|]; try contradiction.
    + destruct Hg as [[_ Ht] Hst'].
      destruct (run_thread_rel hm s1' s2' (ethr a) (ethr b) log Hst' Ht) as (hm' & H1 & H2).
      destruct (run_thread s1' (ethr a) log) as [x1 y1], (run_thread s2' (ethr b) log) as [x2 y2].
      cbn in H1, H2. subst y2. now apply (IH hm').
    + split; auto. exists hm.
      destruct Hst as (He & Hi & Hm & Hdi & Hsc & Hl & Hs & Hc & Hb & Hbd). srel.
Qed.

Lemma weight_rel hm s1 s2 : st_rel hm s1 s2 -> weight s1 = weight s2.
Proof.
  intros (He & _). unfold weight.
  induction He as [|a b l1 l2 [_ (_ & Hc & _)] _ IH]; cbn; [reflexivity|]. now rewrite Hc, IH.
Qed.

Lemma execute_running_rel hm s1 s2 log :
  st_rel hm s1 s2 ->
  match execute_running (weight s1) s1 log, execute_running (weight s2) s2 log with
  | Some (s1', l1), Some (s2', l2) => (exists hm', st_rel hm' s1' s2') /\ l1 = l2
  | None, None => True
  | _, _ => False
  end.
Proof.
  intro Hst. unfold execute_running. rewrite <- (weight_rel hm s1 s2 Hst).
  pose proof Hst as (_ & _ & _ & Hdi & _). rewrite <- Hdi.
  destruct (dirty s1).
  - now apply (exec_loop_rel _ hm).
  - split; eauto.
Qed.

Lemma observe_rel hm s1 s2 log : st_rel hm s1 s2 -> observe s1 log = observe s2 log.
Proof.
  intros (He & (i & Hp & Hf) & _). unfold observe. f_equal.
  - destruct Hf.
    + apply Permutation_sym, Permutation_nil in Hp. now rewrite Hp.
    + destruct (insts s1); [apply Permutation_nil in Hp; discriminate|reflexivity].
  - destruct He; reflexivity.
Qed.

Theorem step_iso s1 s2 o :
  iso s1 s2 ->
  match step s1 o, step s2 o with
  | Some (s1', o1), Some (s2', o2) => iso s1' s2' /\ o1 = o2
  | None, None => True
  | _, _ => False
  end.
Proof.
  intros [hm Hst]. destruct o as [p|dt|].
  - (* host start *)
    cbn [step].
    pose proof Hst as (He & Hi & Hm & Hdi & Hsc & Hl & Hs & Hc & Hb & Hbd).
    set (hm1 := (nexth s1, nexth s2) :: hm).
    assert (Hincl : incl hm hm1) by (apply incl_tl, incl_refl).
    set (s1' := mkSt (elems s1) ([nexth s1] :: insts s1) (mtime s1) (dirty s1) (scaled s1)
                     (lastclk s1) (startclk s1) (clock s1) (nexth s1 + 1)).
    set (s2' := mkSt (elems s2) ([nexth s2] :: insts s2) (mtime s2) (dirty s2) (scaled s2)
                     (lastclk s2) (startclk s2) (clock s2) (nexth s2 + 1)).
    assert (Hst' : st_rel hm1 s1' s2').
    { srel.
      - eapply elems_mono; eauto.
      - destruct Hi as (i & Hp & Hf). exists ([nexth s1] :: i). split; [now constructor|].
        constructor; [constructor; [unfold hm1; now left|constructor] | eapply chains_mono; eauto].
      - apply pbij_cons; auto. now apply bounded_fresh.
      - apply (bounded_cons hm _ _ Hbd). }
    assert (Hin1 : In (nexth s1, nexth s2) hm1) by (unfold hm1; now left).
    destruct (run_code_rel p s1' s2' hm1 (nexth s1) (nexth s2) [] [] 1 [] [] 1 [] Hst' Hin1 data_rel_empty) as (hm2 & _ & H1 & H2).
    destruct (run_code p s1' (nexth s1) [] [] 1 []) as [x1 l1].
    destruct (run_code p s2' (nexth s2) [] [] 1 []) as [x2 l2].
    cbn in H1, H2. subst l2.
    pose proof (execute_running_rel hm2 x1 x2 l1 H1) as Hx.
    destruct (execute_running (weight x1) x1 l1) as [[y1 k1]|], (execute_running (weight x2) x2 l1) as [[y2 k2]|];
      try contradiction; auto.
    destruct Hx as [[hm3 H3] ->]. split; [now exists hm3|]. now apply (observe_rel hm3).
  - (* the clock moves *)
    cbn. destruct Hst as (He & Hi & Hm & Hdi & Hsc & Hl & Hs & Hc & Hb & Hbd).
    assert (H' : st_rel hm
               (mkSt (elems s1) (insts s1) (mtime s1) (dirty s1) (scaled s1) (lastclk s1) (startclk s1) (clock s1 + dt) (nexth s1))
               (mkSt (elems s2) (insts s2) (mtime s2) (dirty s2) (scaled s2) (lastclk s2) (startclk s2) (clock s2 + dt) (nexth s2))).
    { srel. now rewrite Hc. }
    split; [now exists hm|]. now apply (observe_rel hm).
  - (* a frame *)
    cbn [step]. pose proof Hst as (He & Hi & Hm & Hdi & Hsc & Hl & Hs & Hc & Hb & Hbd).
    set (x1 := mkSt (elems s1) (insts s1) (clock s1 - startclk s1) true (scaled s1 + (clock s1 - lastclk s1))
                    (clock s1) (startclk s1) (clock s1) (nexth s1)).
    set (x2 := mkSt (elems s2) (insts s2) (clock s2 - startclk s2) true (scaled s2 + (clock s2 - lastclk s2))
                    (clock s2) (startclk s2) (clock s2) (nexth s2)).
    assert (H' : st_rel hm x1 x2).
    { srel; congruence. }
    pose proof (execute_running_rel hm x1 x2 [] H') as Hx.
    destruct (execute_running (weight x1) x1 []) as [[y1 k1]|], (execute_running (weight x2) x2 []) as [[y2 k2]|];
      try contradiction; auto.
    destruct Hx as [[hm3 H3] ->]. split; [now exists hm3|]. now apply (observe_rel hm3).
Qed.

Theorem iso_behaviour s1 s2 : iso s1 s2 -> forall ops, run_from s1 ops = run_from s2 ops.
Proof.
  intros H ops. revert s1 s2 H. induction ops as [|o ops IH]; intros s1 s2 H; cbn; [reflexivity|].
  pose proof (step_iso s1 s2 o H) as Hs.
  destruct (step s1 o) as [[s1' o1]|], (step s2 o) as [[s2' o2]|]; try contradiction; auto.
  destruct Hs as [Hi ->]. f_equal. now apply IH.
Qed.

(* the states stay isomorphic along a common history *)
Theorem iso_state_after s1 s2 ops :
  iso s1 s2 ->
  match state_after s1 ops, state_after s2 ops with
  | Some a, Some b => iso a b
  | None, None => True
  | _, _ => False
  end.
Proof.
  revert s1 s2. induction ops as [|o ops IH]; intros s1 s2 H; cbn; [exact H|].
  pose proof (step_iso s1 s2 o H) as Hs.
  destruct (step s1 o) as [[s1' o1]|], (step s2 o) as [[s2' o2]|]; try contradiction; auto.
  destruct Hs as [Hi _]. now apply IH.
Qed.

