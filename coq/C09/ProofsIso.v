(* C09/ProofsIso.v — isomorphic states behave alike: every operation of the engine model
   maps related states to related states with the same observation. *)
From Coq Require Import NArith ZArith List Bool Permutation Lia.
From Morfuse Require Import C09.Model C09.Spec.
Import ListNotations.
Local Open Scope N_scope.

(* ---------------------------------------------------------------- values, variables *)
Lemma vrel_mono m m' v1 v2 : incl m m' -> vrel m v1 v2 -> vrel m' v1 v2.
Proof. intros Hi. destruct v1, v2; cbn; auto. Qed.

Lemma env_rel_mono m m' e1 e2 : incl m m' -> env_rel m e1 e2 -> env_rel m' e1 e2.
Proof.
  intros Hi H. induction H as [|a b l1 l2 [Hf Hv] _ IH]; constructor; auto.
  split; [exact Hf | eapply vrel_mono; eauto].
Qed.

Lemma holder_rel_mono m m' o1 o2 : incl m m' -> holder_rel m o1 o2 -> holder_rel m' o1 o2.
Proof.
  intros Hi H. induction H as [|a b l1 l2 [Hf Hv] _ IH]; constructor; auto.
  split; [exact Hf | eapply vrel_mono; eauto].
Qed.

Lemma env_get_rel m x e1 e2 : env_rel m e1 e2 -> vrel m (env_get x e1) (env_get x e2).
Proof.
  intro H. induction H as [|[y1 v1] [y2 v2] l1 l2 [Hf Hv] _ IH]; cbn; [reflexivity|].
  cbn in Hf. subst y2. destruct (N.eqb x y1); auto.
Qed.

Lemma env_set_rel m x v1 v2 e1 e2 :
  env_rel m e1 e2 -> vrel m v1 v2 -> env_rel m (env_set x v1 e1) (env_set x v2 e2).
Proof.
  intros H Hv. induction H as [|[y1 w1] [y2 w2] l1 l2 [Hf Hw] Hr IH]; cbn.
  - constructor; [split; auto|constructor].
  - cbn in Hf. subst y2. destruct (N.eqb x y1).
    + constructor; [split; auto|exact Hr].
    + constructor; [split; auto|exact IH].
Qed.

Lemma print_of_rel m v1 v2 : vrel m v1 v2 -> print_of v1 = print_of v2.
Proof. destruct v1, v2; cbn; intro H; try contradiction; congruence. Qed.

Lemma is_nil_rel m v1 v2 : vrel m v1 v2 -> is_nil v1 = is_nil v2.
Proof. destruct v1, v2; cbn; intro H; try contradiction; subst; reflexivity. Qed.

(* ---------------------------------------------------------------- holders *)
Lemma hold_get_rel m k o1 o2 : holder_rel m o1 o2 -> vrel m (hold_get k o1) (hold_get k o2).
Proof.
  intro H. induction H as [|[j1 v1] [j2 v2] l1 l2 [Hf Hv] _ IH]; cbn; [reflexivity|].
  cbn in Hf. subst j2. destruct (key_eqb k j1); auto.
Qed.

Lemma hold_mem_rel m k o1 o2 : holder_rel m o1 o2 -> hold_mem k o1 = hold_mem k o2.
Proof.
  intro H. induction H as [|[j1 v1] [j2 v2] l1 l2 [Hf Hv] _ IH]; cbn; [reflexivity|].
  cbn in Hf. subst j2. destruct (key_eqb k j1); auto.
Qed.

Lemma hold_put_rel m k v1 v2 o1 o2 :
  holder_rel m o1 o2 -> vrel m v1 v2 -> holder_rel m (hold_put k v1 o1) (hold_put k v2 o2).
Proof.
  intros H Hv. induction H as [|[j1 w1] [j2 w2] l1 l2 [Hf Hw] Hr IH]; cbn.
  - constructor; [split; auto|constructor].
  - cbn in Hf. subst j2. destruct (key_eqb k j1).
    + constructor; [split; auto|exact Hr].
    + constructor; [split; auto|exact IH].
Qed.

Lemma hold_remove_rel m k o1 o2 :
  holder_rel m o1 o2 -> holder_rel m (hold_remove k o1) (hold_remove k o2).
Proof.
  intros H. induction H as [|[j1 w1] [j2 w2] l1 l2 [Hf Hw] Hr IH]; cbn; [constructor|].
  cbn in Hf. subst j2. destruct (key_eqb k j1); [exact Hr|]. constructor; [split; auto|exact IH].
Qed.

Lemma hold_set_rel m k v1 v2 o1 o2 :
  holder_rel m o1 o2 -> vrel m v1 v2 -> holder_rel m (hold_set k v1 o1) (hold_set k v2 o2).
Proof.
  intros H Hv. unfold hold_set. rewrite (is_nil_rel m v1 v2 Hv).
  destruct (is_nil v2); [now apply hold_remove_rel | now apply hold_put_rel].
Qed.

Lemma heap_get_set_same r o h : heap_get r (heap_set r o h) = o.
Proof.
  induction h as [|[q o'] h IH]; cbn.
  - now rewrite N.eqb_refl.
  - destruct (N.eqb r q) eqn:E; cbn; rewrite E; auto.
Qed.

Lemma heap_get_set_other r q o h : q <> r -> heap_get q (heap_set r o h) = heap_get q h.
Proof.
  intro Hne. induction h as [|[p o'] h IH]; cbn.
  - destruct (N.eqb_spec q r); [contradiction|reflexivity].
  - destruct (N.eqb_spec r p) as [->|Hrp]; cbn.
    + destruct (N.eqb_spec q p); [contradiction|reflexivity].
    + destruct (N.eqb q p); auto.
Qed.

Lemma heap_rel_set m r1 r2 o1 o2 h1 h2 :
  pbij m -> In (r1, r2) m -> heap_rel m h1 h2 -> holder_rel m o1 o2 ->
  heap_rel m (heap_set r1 o1 h1) (heap_set r2 o2 h2).
Proof.
  intros Hb Hin Hh Ho q1 q2 Hq.
  destruct (N.eq_dec q1 r1) as [->|Hne].
  - assert (q2 = r2) by (apply (Hb r1 q2 r1 r2 Hq Hin); reflexivity). subst q2.
    now rewrite !heap_get_set_same.
  - assert (q2 <> r2).
    { intro E. apply Hne. apply (Hb q1 q2 r1 r2 Hq Hin). exact E. }
    rewrite !heap_get_set_other by assumption. now apply Hh.
Qed.

Lemma pbij_cons m a b :
  pbij m -> (forall x y, In (x, y) m -> x <> a /\ y <> b) -> pbij ((a, b) :: m).
Proof.
  intros Hb Hf x y x' y' [E|H] [E'|H'].
  - inversion E; inversion E'; subst. tauto.
  - inversion E; subst. destruct (Hf _ _ H'). split; intro; subst; tauto.
  - inversion E'; subst. destruct (Hf _ _ H). split; intro; subst; tauto.
  - now apply Hb.
Qed.

Lemma bounded_fresh m n1 n2 : bounded m n1 n2 -> forall x y, In (x, y) m -> x <> n1 /\ y <> n2.
Proof. intros Hb x y H. destruct (Hb _ _ H). split; intro; subst; lia. Qed.

Lemma bounded_cons m n1 n2 : bounded m n1 n2 -> bounded ((n1, n2) :: m) (n1 + 1) (n2 + 1).
Proof.
  intros Hb x y [E|H].
  - inversion E; subst. lia.
  - destruct (Hb _ _ H). lia.
Qed.

Lemma heap_rel_alloc m n1 n2 o1 o2 h1 h2 :
  heap_rel m h1 h2 -> bounded m n1 n2 -> holder_rel ((n1, n2) :: m) o1 o2 ->
  heap_rel ((n1, n2) :: m) ((n1, o1) :: h1) ((n2, o2) :: h2).
Proof.
  intros Hh Hb Ho q1 q2 [E|Hq].
  - inversion E; subst. cbn. now rewrite !N.eqb_refl.
  - destruct (Hb _ _ Hq). cbn.
    destruct (N.eqb_spec q1 n1); [lia|]. destruct (N.eqb_spec q2 n2); [lia|].
    eapply holder_rel_mono; [|now apply Hh]. now apply incl_tl.
Qed.

(* ---------------------------------------------------------------- chains *)
Lemma mem_rel hm h1 h2 c1 c2 :
  pbij hm -> In (h1, h2) hm -> chain_rel hm c1 c2 -> mem h1 c1 = mem h2 c2.
Proof.
  intros Hb Hh H. induction H as [|a b l1 l2 Hab _ IH]; cbn; [reflexivity|].
  rewrite IH. f_equal.
  destruct (N.eqb_spec h1 a) as [->|Hn]; destruct (N.eqb_spec h2 b) as [->|Hn2]; auto.
  - exfalso. apply Hn2. apply (Hb a h2 a b Hh Hab). reflexivity.
  - exfalso. apply Hn. apply (Hb h1 b a b Hh Hab). reflexivity.
Qed.

Lemma remove_rel hm h1 h2 c1 c2 :
  pbij hm -> In (h1, h2) hm -> chain_rel hm c1 c2 ->
  chain_rel hm (remove_h h1 c1) (remove_h h2 c2).
Proof.
  intros Hb Hh H. induction H as [|a b l1 l2 Hab _ IH]; cbn; [constructor|].
  destruct (N.eqb_spec h1 a) as [->|Hn]; destruct (N.eqb_spec h2 b) as [->|Hn2]; auto.
  - exfalso. apply Hn2. apply (Hb a h2 a b Hh Hab). reflexivity.
  - exfalso. apply Hn. apply (Hb h1 b a b Hh Hab). reflexivity.
  - constructor; auto.
Qed.

Lemma chain_rel_mono hm hm' c1 c2 : incl hm hm' -> chain_rel hm c1 c2 -> chain_rel hm' c1 c2.
Proof. intros Hi H. induction H; constructor; auto. Qed.

Lemma chains_mono hm hm' i1 i2 :
  incl hm hm' -> Forall2 (chain_rel hm) i1 i2 -> Forall2 (chain_rel hm') i1 i2.
Proof. intros Hi H. induction H; constructor; eauto using chain_rel_mono. Qed.

Lemma insts_rel_mono hm hm' i1 i2 : incl hm hm' -> insts_rel hm i1 i2 -> insts_rel hm' i1 i2.
Proof. intros Hi [i [Hp Hf]]. exists i. split; eauto using chains_mono. Qed.

Lemma nonempty_rel hm c1 c2 : chain_rel hm c1 c2 -> nonempty c1 = nonempty c2.
Proof. intro H. destruct H; reflexivity. Qed.

Lemma Permutation_filter {A} (f : A -> bool) l l' :
  Permutation l l' -> Permutation (filter f l) (filter f l').
Proof.
  intro H. induction H; cbn.
  - constructor.
  - destruct (f x); auto.
  - destruct (f x), (f y); auto. apply perm_swap.
  - eapply perm_trans; eauto.
Qed.

Lemma end_in_rel hm h1 h2 i1 i2 :
  pbij hm -> In (h1, h2) hm -> insts_rel hm i1 i2 -> insts_rel hm (end_in h1 i1) (end_in h2 i2).
Proof.
  intros Hb Hh [i [Hp Hf]]. exists (end_in h1 i). split.
  - unfold end_in. apply Permutation_filter. now apply Permutation_map.
  - unfold end_in. clear Hp. induction Hf as [|c1 c2 l1 l2 Hc _ IH]; cbn; [constructor|].
    pose proof (remove_rel hm h1 h2 c1 c2 Hb Hh Hc) as Hr.
    rewrite (nonempty_rel _ _ _ Hr). destruct (nonempty (remove_h h2 c2)); auto.
Qed.

Lemma spawn_in_rel hm h1 h2 a b i1 i2 :
  pbij hm -> In (h1, h2) hm -> In (a, b) hm -> insts_rel hm i1 i2 ->
  insts_rel hm (spawn_in h1 a i1) (spawn_in h2 b i2).
Proof.
  intros Hb Hh Hab [i [Hp Hf]]. exists (spawn_in h1 a i). split.
  - unfold spawn_in. now apply Permutation_map.
  - unfold spawn_in. clear Hp. induction Hf as [|c1 c2 l1 l2 Hc _ IH]; cbn; [constructor|].
    rewrite (mem_rel hm h1 h2 c1 c2 Hb Hh Hc). constructor; [|exact IH].
    destruct (mem h2 c2); [constructor; auto | exact Hc].
Qed.

(* ---------------------------------------------------------------- elements *)
Lemma thr_rel_mono hm hm' m m' t1 t2 :
  incl hm hm' -> incl m m' -> thr_rel hm m t1 t2 -> thr_rel hm' m' t1 t2.
Proof. intros Hi Hj (H1 & H2 & H3). split; [auto|split; [auto|eapply env_rel_mono; eauto]]. Qed.

Lemma elems_mono hm hm' m m' l1 l2 :
  incl hm hm' -> incl m m' -> Forall2 (elem_rel hm m) l1 l2 -> Forall2 (elem_rel hm' m') l1 l2.
Proof.
  intros Hi Hj H. induction H as [|a b l1 l2 [Ht Hr] _ IH]; constructor; auto.
  split; eauto using thr_rel_mono.
Qed.

(* ---------------------------------------------------------------- state-level steps *)
Ltac srel :=
  unfold st_rel; cbn;
  (split; [|split; [|split; [|split; [|split; [|split; [|split; [|split; [|split; [|split; [|split; [|split]]]]]]]]]]]);
  cbn; auto.

Lemma st_rel_set_heap hm m s1 s2 h1 h2 :
  st_rel hm m s1 s2 -> heap_rel m h1 h2 -> st_rel hm m (set_heap s1 h1) (set_heap s2 h2).
Proof. intros (He & Hi & Hhp & Hm & Hdi & Hsc & Hl & Hs & Hc & Hb & Hbd & Hbm & Hbdm) H. srel. Qed.

Lemma st_rel_alloc hm m s1 s2 o1 o2 :
  st_rel hm m s1 s2 -> holder_rel ((nextr s1, nextr s2) :: m) o1 o2 ->
  st_rel hm ((nextr s1, nextr s2) :: m) (alloc s1 o1) (alloc s2 o2).
Proof.
  intros (He & Hi & Hhp & Hm & Hdi & Hsc & Hl & Hs & Hc & Hb & Hbd & Hbm & Hbdm) H. srel.
  - eapply elems_mono; [apply incl_refl|apply incl_tl, incl_refl|exact He].
  - now apply heap_rel_alloc.
  - apply pbij_cons; auto. now apply bounded_fresh.
  - now apply bounded_cons.
Qed.

Lemma load_elem_rel hm m s1 s2 e1 e2 x k :
  st_rel hm m s1 s2 -> env_rel m e1 e2 -> vrel m (load_elem s1 e1 x k) (load_elem s2 e2 x k).
Proof.
  intros (_ & _ & Hhp & _) He. unfold load_elem.
  pose proof (env_get_rel m x e1 e2 He) as Hg.
  destruct (env_get x e1) as [a|r1|r1], (env_get x e2) as [b|r2|r2]; cbn in Hg; try contradiction;
    try reflexivity; apply hold_get_rel; now apply Hhp.
Qed.

Lemma size_of_rel hm m s1 s2 v1 v2 :
  st_rel hm m s1 s2 -> vrel m v1 v2 -> size_of s1 v1 = size_of s2 v2.
Proof.
  intros (_ & _ & Hhp & _) Hv. destruct v1 as [a|r1|r1], v2 as [b|r2|r2]; cbn in Hv; try contradiction.
  - now subst.
  - cbn. f_equal. pose proof (Hhp _ _ Hv) as H. clear -H. induction H; cbn; auto.
  - cbn. f_equal. pose proof (Hhp _ _ Hv) as H. clear -H. induction H; cbn; auto.
Qed.

Lemma store_elem_rel hm m s1 s2 e1 e2 x k v1 v2 :
  st_rel hm m s1 s2 -> env_rel m e1 e2 -> vrel m v1 v2 ->
  exists m', incl m m' /\
    st_rel hm m' (fst (store_elem s1 e1 x k v1)) (fst (store_elem s2 e2 x k v2)) /\
    env_rel m' (snd (store_elem s1 e1 x k v1)) (snd (store_elem s2 e2 x k v2)).
Proof.
  intros Hst He Hv. unfold store_elem.
  pose proof Hst as (_ & _ & Hhp & _ & _ & _ & _ & _ & _ & _ & _ & Hbm & Hbdm).
  pose proof (env_get_rel m x e1 e2 He) as Hg.
  destruct (env_get x e1) as [a|r1|r1], (env_get x e2) as [b|r2|r2]; cbn in Hg; try contradiction.
  - subst b. destruct a; try (exists m; cbn; split; [apply incl_refl|split; assumption]).
    (* nil: a new holder *)
    exists ((nextr s1, nextr s2) :: m). cbn. split; [apply incl_tl, incl_refl|]. split.
    + apply st_rel_alloc; auto. apply hold_set_rel; [constructor|].
      eapply vrel_mono; [|exact Hv]. apply incl_tl, incl_refl.
    + apply env_set_rel; [|cbn; now left]. eapply env_rel_mono; [|exact He]. apply incl_tl, incl_refl.
  - exists m. cbn. split; [apply incl_refl|]. split; [|exact He].
    apply st_rel_set_heap; auto. apply heap_rel_set; auto. apply hold_set_rel; auto.
  - exists m. cbn [fst snd]. split; [apply incl_refl|].
    rewrite (hold_mem_rel m k _ _ (Hhp _ _ Hg)).
    destruct (hold_mem k (heap_get r2 (heap s2))); cbn [fst snd]; split; auto.
    apply st_rel_set_heap; auto. apply heap_rel_set; auto. apply hold_put_rel; auto.
Qed.

Lemma number_from_rel m k l1 l2 :
  Forall2 (vrel m) l1 l2 -> holder_rel m (number_from k l1) (number_from k l2).
Proof.
  intro H. revert k. unfold holder_rel. induction H as [|a b l1 l2 Hab _ IH]; intro k; cbn.
  - apply Forall2_nil.
  - apply Forall2_cons; [split; [reflexivity|exact Hab]|apply IH].
Qed.

Lemma params_from_rel m k l1 l2 :
  Forall2 (vrel m) l1 l2 -> env_rel m (params_from k l1) (params_from k l2).
Proof.
  intro H. revert k. unfold env_rel. induction H as [|a b l1 l2 Hab _ IH]; intro k; cbn.
  - apply Forall2_nil.
  - apply Forall2_cons; [split; [reflexivity|exact Hab]|apply IH].
Qed.

Lemma cvals_rel m e1 e2 l : env_rel m e1 e2 -> Forall2 (vrel m) (map (cval_get e1) l) (map (cval_get e2) l).
Proof.
  intro He. induction l as [|[sc|y] l IH]; cbn; constructor; auto.
  - reflexivity.
  - now apply env_get_rel.
Qed.

Lemma args_rel m e1 e2 (l : list N) :
  env_rel m e1 e2 -> Forall2 (vrel m) (map (fun y => env_get y e1) l) (map (fun y => env_get y e2) l).
Proof. intro He. induction l; cbn; constructor; auto. now apply env_get_rel. Qed.

(* ---------------------------------------------------------------- running a thread *)
Definition code_goal (n : nat) : Prop :=
  forall p, (psize p <= n)%nat ->
  forall s1 s2 hm m h1 h2 e1 e2 log,
    st_rel hm m s1 s2 -> In (h1, h2) hm -> env_rel m e1 e2 ->
    exists hm' m', incl hm hm' /\ incl m m' /\
      st_rel hm' m' (fst (run_code p s1 h1 e1 log)) (fst (run_code p s2 h2 e2 log)) /\
      snd (run_code p s1 h1 e1 log) = snd (run_code p s2 h2 e2 log).

Lemma psize_pos p : (1 <= psize p)%nat.
Proof. destruct p as [|[] p]; cbn; lia. Qed.

Lemma run_code_rel_n : forall n, code_goal n.
Proof.
  induction n as [|n IHn]; intros p Hsz.
  { pose proof (psize_pos p). lia. }
  intros s1 s2 hm m h1 h2 e1 e2 log Hst Hh He.
  destruct p as [|i p'].
  { (* the thread ends *)
    cbn. exists hm, m. split; [apply incl_refl|]. split; [apply incl_refl|]. split; [|reflexivity].
    destruct Hst as (Hel & Hi & Hhp & Hm & Hdi & Hsc & Hl & Hs & Hc & Hb & Hbd & Hbm & Hbdm).
    srel. now apply end_in_rel. }
  destruct i as [mk|d|x v|x k v|x k y|y x k|x y|x l|x|x k|x|args q]; cbn in Hsz.
  - (* print *) cbn. apply IHn; auto. lia.
  - (* wait *)
    cbn. exists hm, m. split; [apply incl_refl|]. split; [apply incl_refl|]. split; [|reflexivity].
    destruct Hst as (Hel & Hi & Hhp & Hm & Hdi & Hsc & Hl & Hs & Hc & Hb & Hbd & Hbm & Hbdm).
    srel.
    + apply Forall2_app; [exact Hel|]. constructor; [|constructor].
      split; cbn; [now rewrite Hsc|]. split; cbn; auto.
    + now rewrite Hsc, Hm, Hdi.
  - (* local.x = literal *)
    cbn. apply IHn; auto; [lia|]. apply env_set_rel; cbn; auto.
  - (* local.x[k] = literal *)
    cbn. destruct (store_elem_rel hm m s1 s2 e1 e2 x k (VScal v) (VScal v) Hst He eq_refl) as (m1 & Hi1 & Hst1 & He1).
    destruct (store_elem s1 e1 x k (VScal v)) as [s1' e1'], (store_elem s2 e2 x k (VScal v)) as [s2' e2'].
    cbn in Hst1, He1.
    destruct (IHn p' ltac:(lia) s1' s2' hm m1 h1 h2 e1' e2' log Hst1 Hh He1) as (hm' & m' & A & B & C & D).
    exists hm', m'. split; [exact A|]. split; [eapply incl_tran; eauto|]. split; assumption.
  - (* local.x[k] = local.y *)
    cbn. destruct (store_elem_rel hm m s1 s2 e1 e2 x k _ _ Hst He (env_get_rel m y e1 e2 He)) as (m1 & Hi1 & Hst1 & He1).
    destruct (store_elem s1 e1 x k (env_get y e1)) as [s1' e1'], (store_elem s2 e2 x k (env_get y e2)) as [s2' e2'].
    cbn in Hst1, He1.
    destruct (IHn p' ltac:(lia) s1' s2' hm m1 h1 h2 e1' e2' log Hst1 Hh He1) as (hm' & m' & A & B & C & D).
    exists hm', m'. split; [exact A|]. split; [eapply incl_tran; eauto|]. split; assumption.
  - (* local.y = local.x[k] *)
    cbn. apply IHn; auto; [lia|]. apply env_set_rel; auto. eapply load_elem_rel; eauto.
  - (* local.x = local.y *)
    cbn. apply IHn; auto; [lia|]. apply env_set_rel; auto. now apply env_get_rel.
  - (* local.x = c1::c2::.. *)
    cbn.
    assert (Hst1 : st_rel hm ((nextr s1, nextr s2) :: m)
                     (alloc s1 (number_from 1 (map (cval_get e1) l))) (alloc s2 (number_from 1 (map (cval_get e2) l)))).
    { apply st_rel_alloc; auto. apply number_from_rel.
      apply cvals_rel. eapply env_rel_mono; [|exact He]. apply incl_tl, incl_refl. }
    assert (He1 : env_rel ((nextr s1, nextr s2) :: m) (env_set x (VCon (nextr s1)) e1) (env_set x (VCon (nextr s2)) e2)).
    { apply env_set_rel; [|cbn; now left]. eapply env_rel_mono; [|exact He]. apply incl_tl, incl_refl. }
    destruct (IHn p' ltac:(lia) _ _ hm _ h1 h2 _ _ log Hst1 Hh He1) as (hm' & m' & A & B & C & D).
    exists hm', m'. split; [exact A|]. split; [|split; assumption].
    eapply incl_tran; [|exact B]. apply incl_tl, incl_refl.
  - (* println local.x *)
    cbn. rewrite (print_of_rel m _ _ (env_get_rel m x e1 e2 He)). apply IHn; auto. lia.
  - (* println local.x[k] *)
    cbn. rewrite (print_of_rel m _ _ (load_elem_rel hm m s1 s2 e1 e2 x k Hst He)). apply IHn; auto. lia.
  - (* println local.x.size *)
    cbn. rewrite (size_of_rel hm m s1 s2 _ _ Hst (env_get_rel m x e1 e2 He)). apply IHn; auto. lia.
  - (* thread q args *)
    cbn.
    pose proof Hst as (Hel & Hi & Hhp & Hm & Hdi & Hsc & Hl & Hs & Hc & Hb & Hbd & Hbm & Hbdm).
    set (hm1 := (nexth s1, nexth s2) :: hm).
    assert (Hincl : incl hm hm1) by (apply incl_tl, incl_refl).
    assert (Hb1 : pbij hm1) by (apply pbij_cons; auto; now apply bounded_fresh).
    set (s1' := mkSt (elems s1) (spawn_in h1 (nexth s1) (insts s1)) (heap s1) (mtime s1) (dirty s1) (scaled s1)
                     (lastclk s1) (startclk s1) (clock s1) (nexth s1 + 1) (nextr s1)).
    set (s2' := mkSt (elems s2) (spawn_in h2 (nexth s2) (insts s2)) (heap s2) (mtime s2) (dirty s2) (scaled s2)
                     (lastclk s2) (startclk s2) (clock s2) (nexth s2 + 1) (nextr s2)).
    assert (Hst' : st_rel hm1 m s1' s2').
    { srel.
      - eapply elems_mono; [exact Hincl|apply incl_refl|exact Hel].
      - apply (spawn_in_rel hm1 h1 h2 (nexth s1) (nexth s2));
          [exact Hb1 | unfold hm1; right; exact Hh | unfold hm1; left; reflexivity | eapply insts_rel_mono; eauto].
      - apply (bounded_cons hm _ _ Hbd). }
    assert (Hq : (psize q <= n)%nat) by lia.
    assert (Hin1 : In (nexth s1, nexth s2) hm1) by (unfold hm1; now left).
    destruct (IHn q Hq s1' s2' hm1 m (nexth s1) (nexth s2) _ _ log Hst' Hin1
                  (params_from_rel m 101 _ _ (args_rel m e1 e2 args He)))
      as (hm2 & m2 & Hi2 & Hj2 & Hst2 & Hlog2).
    destruct (run_code q s1' (nexth s1) _ log) as [s1'' log1] eqn:E1.
    destruct (run_code q s2' (nexth s2) _ log) as [s2'' log2] eqn:E2.
    cbn in Hst2, Hlog2. subst log2.
    assert (Hp : (psize p' <= n)%nat) by lia.
    assert (Hin2 : In (h1, h2) hm2) by (apply Hi2; unfold hm1; now right).
    assert (He2 : env_rel m2 e1 e2) by (eapply env_rel_mono; eauto).
    destruct (IHn p' Hp s1'' s2'' hm2 m2 h1 h2 e1 e2 log1 Hst2 Hin2 He2) as (hm3 & m3 & Hi3 & Hj3 & Hst3 & Hlog3).
    exists hm3, m3. split; [|split; [|split; auto]].
    + eapply incl_tran; [exact Hincl|]. eapply incl_tran; eauto.
    + eapply incl_tran; eauto.
Qed.

Lemma run_code_rel p s1 s2 hm m h1 h2 e1 e2 log :
  st_rel hm m s1 s2 -> In (h1, h2) hm -> env_rel m e1 e2 ->
  exists hm' m', incl hm hm' /\ incl m m' /\
    st_rel hm' m' (fst (run_code p s1 h1 e1 log)) (fst (run_code p s2 h2 e2 log)) /\
    snd (run_code p s1 h1 e1 log) = snd (run_code p s2 h2 e2 log).
Proof. apply (run_code_rel_n (psize p)). lia. Qed.

Lemma run_thread_rel hm m s1 s2 t1 t2 log :
  st_rel hm m s1 s2 -> thr_rel hm m t1 t2 ->
  exists hm' m', st_rel hm' m' (fst (run_thread s1 t1 log)) (fst (run_thread s2 t2 log)) /\
              snd (run_thread s1 t1 log) = snd (run_thread s2 t2 log).
Proof.
  intros Hst (Hh & Hc & Hd). unfold run_thread. rewrite <- Hc.
  destruct (run_code_rel (tcode t1) s1 s2 hm m (th t1) (th t2) _ _ log Hst Hh Hd) as (hm' & m' & _ & _ & H1 & H2).
  exists hm', m'. split; auto.
Qed.

(* ---------------------------------------------------------------- the timer *)
Lemma elems_times hm m l1 l2 : Forall2 (elem_rel hm m) l1 l2 -> map etime l1 = map etime l2.
Proof. intro H. induction H as [|a b l1 l2 [Ht _] _ IH]; cbn; congruence. Qed.

Lemma Forall2_length' {A B} (R : A -> B -> Prop) l1 l2 : Forall2 R l1 l2 -> length l1 = length l2.
Proof. intro H. induction H; cbn; auto. Qed.

Lemma Forall2_nth {A B} (R : A -> B -> Prop) l1 l2 k :
  Forall2 R l1 l2 ->
  match nth_error l1 k, nth_error l2 k with
  | Some a, Some b => R a b
  | None, None => True
  | _, _ => False
  end.
Proof.
  intro H. revert k. induction H; intros [|k]; cbn; auto. apply IHForall2.
Qed.

Lemma Forall2_remove_at {A B} (R : A -> B -> Prop) l1 l2 i :
  Forall2 R l1 l2 -> Forall2 R (remove_at l1 i) (remove_at l2 i).
Proof.
  intro H. revert i. induction H; intros [|[|i]]; cbn; auto; try constructor; auto.
Qed.

Lemma st_rel_set_elems hm m s1 s2 l1 l2 :
  st_rel hm m s1 s2 -> Forall2 (elem_rel hm m) l1 l2 -> st_rel hm m (set_elems s1 l1) (set_elems s2 l2).
Proof.
  intros (He & Hi & Hhp & Hm & Hdi & Hsc & Hl & Hs & Hc & Hb & Hbd & Hbm & Hbdm) H. srel.
Qed.

Lemma st_rel_set_dirty hm m s1 s2 d :
  st_rel hm m s1 s2 -> st_rel hm m (set_dirty s1 d) (set_dirty s2 d).
Proof.
  intros (He & Hi & Hhp & Hm & Hdi & Hsc & Hl & Hs & Hc & Hb & Hbd & Hbm & Hbdm). srel.
Qed.

Lemma get_next_rel hm m s1 s2 :
  st_rel hm m s1 s2 ->
  match get_next s1, get_next s2 with
  | Some (e1, s1'), Some (e2, s2') => elem_rel hm m e1 e2 /\ st_rel hm m s1' s2'
  | None, None => True
  | _, _ => False
  end.
Proof.
  intro Hst. pose proof Hst as (He & _ & _ & Hm & _). unfold get_next.
  rewrite (elems_times hm m _ _ He), (Forall2_length' _ _ _ He), Hm.
  destruct (scan _ _ _ _) as [i|]; [|exact I].
  pose proof (Forall2_nth _ _ _ (pred i) He) as Hn.
  destruct (nth_error (elems s1) (pred i)) as [a|], (nth_error (elems s2) (pred i)) as [b|]; try contradiction; auto.
  split; auto. apply st_rel_set_elems; auto. now apply Forall2_remove_at.
Qed.

Lemma exec_loop_rel fuel : forall hm m s1 s2 log,
  st_rel hm m s1 s2 ->
  match exec_loop fuel s1 log, exec_loop fuel s2 log with
  | Some (s1', l1), Some (s2', l2) => (exists hm' m', st_rel hm' m' s1' s2') /\ l1 = l2
  | None, None => True
  | _, _ => False
  end.
Proof.
  induction fuel as [|f IH]; intros hm m s1 s2 log Hst.
  - cbn. pose proof (get_next_rel hm m s1 s2 Hst) as Hg.
    destruct (get_next s1) as [[a s1']|], (get_next s2) as [[b s2']|]; try contradiction; auto.
    split; auto. exists hm, m. now apply st_rel_set_dirty.
  - cbn. pose proof (get_next_rel hm m s1 s2 Hst) as Hg.
    destruct (get_next s1) as [[a s1']|], (get_next s2) as [[b s2']|]; try contradiction.
    + destruct Hg as [[_ Ht] Hst'].
      destruct (run_thread_rel hm m s1' s2' (ethr a) (ethr b) log Hst' Ht) as (hm' & m' & H1 & H2).
      destruct (run_thread s1' (ethr a) log) as [x1 y1], (run_thread s2' (ethr b) log) as [x2 y2].
      cbn in H1, H2. subst y2. now apply (IH hm' m').
    + split; auto. exists hm, m. now apply st_rel_set_dirty.
Qed.

Lemma weight_rel hm m s1 s2 : st_rel hm m s1 s2 -> weight s1 = weight s2.
Proof.
  intros (He & _). unfold weight.
  induction He as [|a b l1 l2 [_ (_ & Hc & _)] _ IH]; cbn; [reflexivity|]. now rewrite Hc, IH.
Qed.

Lemma execute_running_rel hm m s1 s2 log :
  st_rel hm m s1 s2 ->
  match execute_running (weight s1) s1 log, execute_running (weight s2) s2 log with
  | Some (s1', l1), Some (s2', l2) => (exists hm' m', st_rel hm' m' s1' s2') /\ l1 = l2
  | None, None => True
  | _, _ => False
  end.
Proof.
  intro Hst. unfold execute_running. rewrite <- (weight_rel hm m s1 s2 Hst).
  pose proof Hst as (_ & _ & _ & _ & Hdi & _). rewrite <- Hdi.
  destruct (dirty s1).
  - now apply (exec_loop_rel _ hm m).
  - split; eauto.
Qed.

Lemma observe_rel hm m s1 s2 log : st_rel hm m s1 s2 -> observe s1 log = observe s2 log.
Proof.
  intros (He & (i & Hp & Hf) & _). unfold observe. f_equal.
  - destruct Hf.
    + apply Permutation_sym, Permutation_nil in Hp. now rewrite Hp.
    + destruct (insts s1); [apply Permutation_nil in Hp; discriminate|reflexivity].
  - destruct He; reflexivity.
Qed.

Theorem step_iso s1 s2 o :
  iso s1 s2 ->
  match step s1 o, step s2 o with
  | Some (s1', o1), Some (s2', o2) => iso s1' s2' /\ o1 = o2
  | None, None => True
  | _, _ => False
  end.
Proof.
  intros (hm & m & Hst). destruct o as [p|dt|].
  - (* host start *)
    cbn [step].
    pose proof Hst as (He & Hi & Hhp & Hm & Hdi & Hsc & Hl & Hs & Hc & Hb & Hbd & Hbm & Hbdm).
    set (hm1 := (nexth s1, nexth s2) :: hm).
    assert (Hincl : incl hm hm1) by (apply incl_tl, incl_refl).
    set (s1' := mkSt (elems s1) ([nexth s1] :: insts s1) (heap s1) (mtime s1) (dirty s1) (scaled s1)
                     (lastclk s1) (startclk s1) (clock s1) (nexth s1 + 1) (nextr s1)).
    set (s2' := mkSt (elems s2) ([nexth s2] :: insts s2) (heap s2) (mtime s2) (dirty s2) (scaled s2)
                     (lastclk s2) (startclk s2) (clock s2) (nexth s2 + 1) (nextr s2)).
    assert (Hst' : st_rel hm1 m s1' s2').
    { srel.
      - eapply elems_mono; [exact Hincl|apply incl_refl|exact He].
      - destruct Hi as (i & Hp & Hf). exists ([nexth s1] :: i). split; [now constructor|].
        constructor; [constructor; [unfold hm1; now left|constructor] | eapply chains_mono; eauto].
      - apply pbij_cons; auto. now apply bounded_fresh.
      - apply (bounded_cons hm _ _ Hbd). }
    assert (Hin1 : In (nexth s1, nexth s2) hm1) by (unfold hm1; now left).
    destruct (run_code_rel p s1' s2' hm1 m (nexth s1) (nexth s2) [] [] [] Hst' Hin1 (Forall2_nil _))
      as (hm2 & m2 & _ & _ & H1 & H2).
    destruct (run_code p s1' (nexth s1) [] []) as [x1 l1].
    destruct (run_code p s2' (nexth s2) [] []) as [x2 l2].
    cbn in H1, H2. subst l2.
    pose proof (execute_running_rel hm2 m2 x1 x2 l1 H1) as Hx.
    destruct (execute_running (weight x1) x1 l1) as [[y1 k1]|], (execute_running (weight x2) x2 l1) as [[y2 k2]|];
      try contradiction; auto.
    destruct Hx as [(hm3 & m3 & H3) ->]. split; [now exists hm3, m3|]. now apply (observe_rel hm3 m3).
  - (* the clock moves *)
    cbn. destruct Hst as (He & Hi & Hhp & Hm & Hdi & Hsc & Hl & Hs & Hc & Hb & Hbd & Hbm & Hbdm).
    assert (H' : st_rel hm m
               (mkSt (elems s1) (insts s1) (heap s1) (mtime s1) (dirty s1) (scaled s1) (lastclk s1) (startclk s1) (clock s1 + dt) (nexth s1) (nextr s1))
               (mkSt (elems s2) (insts s2) (heap s2) (mtime s2) (dirty s2) (scaled s2) (lastclk s2) (startclk s2) (clock s2 + dt) (nexth s2) (nextr s2))).
    { srel. now rewrite Hc. }
    split; [now exists hm, m|]. now apply (observe_rel hm m).
  - (* a frame *)
    cbn [step]. pose proof Hst as (He & Hi & Hhp & Hm & Hdi & Hsc & Hl & Hs & Hc & Hb & Hbd & Hbm & Hbdm).
    set (x1 := mkSt (elems s1) (insts s1) (heap s1) (clock s1 - startclk s1) true (scaled s1 + (clock s1 - lastclk s1))
                    (clock s1) (startclk s1) (clock s1) (nexth s1) (nextr s1)).
    set (x2 := mkSt (elems s2) (insts s2) (heap s2) (clock s2 - startclk s2) true (scaled s2 + (clock s2 - lastclk s2))
                    (clock s2) (startclk s2) (clock s2) (nexth s2) (nextr s2)).
    assert (H' : st_rel hm m x1 x2).
    { srel; congruence. }
    pose proof (execute_running_rel hm m x1 x2 [] H') as Hx.
    destruct (execute_running (weight x1) x1 []) as [[y1 k1]|], (execute_running (weight x2) x2 []) as [[y2 k2]|];
      try contradiction; auto.
    destruct Hx as [(hm3 & m3 & H3) ->]. split; [now exists hm3, m3|]. now apply (observe_rel hm3 m3).
Qed.

Theorem iso_behaviour s1 s2 : iso s1 s2 -> forall ops, run_from s1 ops = run_from s2 ops.
Proof.
  intros H ops. revert s1 s2 H. induction ops as [|o ops IH]; intros s1 s2 H; cbn; [reflexivity|].
  pose proof (step_iso s1 s2 o H) as Hs.
  destruct (step s1 o) as [[s1' o1]|], (step s2 o) as [[s2' o2]|]; try contradiction; auto.
  destruct Hs as [Hi ->]. f_equal. now apply IH.
Qed.

(* the states stay isomorphic along a common history *)
Theorem iso_state_after s1 s2 ops :
  iso s1 s2 ->
  match state_after s1 ops, state_after s2 ops with
  | Some a, Some b => iso a b
  | None, None => True
  | _, _ => False
  end.
Proof.
  revert s1 s2. induction ops as [|o ops IH]; intros s1 s2 H; cbn; [exact H|].
  pose proof (step_iso s1 s2 o H) as Hs.
  destruct (step s1 o) as [[s1' o1]|], (step s2 o) as [[s2' o2]|]; try contradiction; auto.
  destruct Hs as [Hi _]. now apply IH.
Qed.
