(* C09/Spec.v — what "the same state" means for the save/load property, and which states
   can be saved.

   [iso s1 s2]: the two engine states are equal up to
     - a renaming of thread identities (a partial bijection hm given as a list of pairs),
     - per thread a renaming of array-holder identities (a partial bijection m); holders
       that no variable of the thread reaches are ignored,
     - the ORDER of the instance list (any permutation; the loader reverses it).
   Everything else is kept exactly: the timer list in order with its due times, the threads
   of every instance in chain order, per thread the code position, the variable list in
   order with equal scalars, which variables share a holder, the holders' contents, the
   timer's time and dirty flag, the clocks.  The fresh-identity counters may differ; they
   only have to lie above every identity in use (bounded).

   [wf s]: a state between two host operations: every live thread (the members of the
   instance chains, no thread in two chains or twice in one) waits in the timer exactly
   once, identities in use are below the counters. *)
From Coq Require Import NArith ZArith List Bool Permutation.
From Morfuse Require Import C09.Model.
Import ListNotations.
Local Open Scope N_scope.

Definition vrel (m : list (N * N)) (v1 v2 : value) : Prop :=
  match v1, v2 with
  | VScal a, VScal b => a = b
  | VArr r1, VArr r2 => In (r1, r2) m
  | _, _ => False
  end.

Definition env_rel (m : list (N * N)) (e1 e2 : list (N * value)) : Prop :=
  Forall2 (fun a b => fst a = fst b /\ vrel m (snd a) (snd b)) e1 e2.

Definition heap_rel (m : list (N * N)) (h1 h2 : list (N * holder)) : Prop :=
  forall r1 r2, In (r1, r2) m -> heap_get r1 h1 = heap_get r2 h2.

(* a partial bijection *)
Definition pbij (m : list (N * N)) : Prop :=
  forall a b a' b', In (a, b) m -> In (a', b') m -> (a = a' <-> b = b').

Definition bounded (m : list (N * N)) (n1 n2 : N) : Prop :=
  forall a b, In (a, b) m -> a < n1 /\ b < n2.

Definition data_rel (e1 : list (N * value)) (h1 : list (N * holder)) (n1 : N)
           (e2 : list (N * value)) (h2 : list (N * holder)) (n2 : N) : Prop :=
  exists m, env_rel m e1 e2 /\ heap_rel m h1 h2 /\ pbij m /\ bounded m n1 n2.

Definition thr_rel (hm : list (N * N)) (t1 t2 : thread) : Prop :=
  In (th t1, th t2) hm /\ tcode t1 = tcode t2 /\
  data_rel (tenv t1) (theap t1) (tnext t1) (tenv t2) (theap t2) (tnext t2).

Definition elem_rel (hm : list (N * N)) (e1 e2 : elem) : Prop :=
  etime e1 = etime e2 /\ thr_rel hm (ethr e1) (ethr e2).

Definition chain_rel (hm : list (N * N)) (c1 c2 : list N) : Prop :=
  Forall2 (fun a b => In (a, b) hm) c1 c2.

Definition insts_rel (hm : list (N * N)) (i1 i2 : list (list N)) : Prop :=
  exists i1', Permutation i1 i1' /\ Forall2 (chain_rel hm) i1' i2.

Definition st_rel (hm : list (N * N)) (s1 s2 : st) : Prop :=
  Forall2 (elem_rel hm) (elems s1) (elems s2) /\
  insts_rel hm (insts s1) (insts s2) /\
  mtime s1 = mtime s2 /\ dirty s1 = dirty s2 /\ scaled s1 = scaled s2 /\
  lastclk s1 = lastclk s2 /\ startclk s1 = startclk s2 /\ clock s1 = clock s2 /\
  pbij hm /\ bounded hm (nexth s1) (nexth s2).

Definition iso (s1 s2 : st) : Prop := exists hm, st_rel hm s1 s2.

(* ---------------------------------------------------------------- saveable states *)
Definition eh (e : elem) : N := th (ethr e).

Definition thr_ok (t : thread) : Prop := forall x r, In (x, VArr r) (tenv t) -> r < tnext t.

Definition wf (s : st) : Prop :=
  NoDup (concat (insts s)) /\
  Permutation (concat (insts s)) (map eh (elems s)) /\
  (forall h, In h (concat (insts s)) -> h < nexth s) /\
  Forall (fun e => thr_ok (ethr e)) (elems s).
