(* C09/Spec.v — what "the same state" means for the save/load property, and which states
   can be saved.

   [iso s1 s2]: the two engine states are equal up to
     - a renaming of thread identities (a partial bijection hm given as a list of pairs),
     - a renaming of holder identities, ONE for the whole engine (a partial bijection m):
       related variables / holder slots hold equal scalars or references of the same kind
       (dynamic / constant) to related holders, and related holders have the same keys in
       the same order with related values - so every sharing class of holders, of either
       kind, across variables, holders and threads is the same on both sides; holders that
       nothing reaches are ignored,
     - the ORDER of the instance list (any permutation; the loader reverses it).
   Everything else is kept exactly: the timer list in order with its due times, the threads
   of every instance in chain order, per thread the code position and the variable list in
   order, the timer's time and dirty flag, the clocks.  The fresh-identity counters may
   differ; they only have to lie above every identity in use (bounded).

   [wf s]: a state between two host operations: every live thread (the members of the
   instance chains, no thread in two chains or twice in one) waits in the timer exactly
   once, identities in use (in variables and inside holders) are below the counters. *)
From Coq Require Import NArith ZArith List Bool Permutation.
From Morfuse Require Import C09.Model.
Import ListNotations.
Local Open Scope N_scope.

Definition vrel (m : list (N * N)) (v1 v2 : value) : Prop :=
  match v1, v2 with
  | VScal a, VScal b => a = b
  | VArr r1, VArr r2 => In (r1, r2) m
  | VCon r1, VCon r2 => In (r1, r2) m
  | _, _ => False
  end.

Definition env_rel (m : list (N * N)) (e1 e2 : list (N * value)) : Prop :=
  Forall2 (fun a b => fst a = fst b /\ vrel m (snd a) (snd b)) e1 e2.

Definition holder_rel (m : list (N * N)) (o1 o2 : holder) : Prop :=
  Forall2 (fun a b => fst a = fst b /\ vrel m (snd a) (snd b)) o1 o2.

Definition heap_rel (m : list (N * N)) (h1 h2 : list (N * holder)) : Prop :=
  forall r1 r2, In (r1, r2) m -> holder_rel m (heap_get r1 h1) (heap_get r2 h2).

(* a partial bijection *)
Definition pbij (m : list (N * N)) : Prop :=
  forall a b a' b', In (a, b) m -> In (a', b') m -> (a = a' <-> b = b').

Definition bounded (m : list (N * N)) (n1 n2 : N) : Prop :=
  forall a b, In (a, b) m -> a < n1 /\ b < n2.

Definition thr_rel (hm m : list (N * N)) (t1 t2 : thread) : Prop :=
  In (th t1, th t2) hm /\ tcode t1 = tcode t2 /\ env_rel m (tenv t1) (tenv t2).

Definition elem_rel (hm m : list (N * N)) (e1 e2 : elem) : Prop :=
  etime e1 = etime e2 /\ thr_rel hm m (ethr e1) (ethr e2).

Definition chain_rel (hm : list (N * N)) (c1 c2 : list N) : Prop :=
  Forall2 (fun a b => In (a, b) hm) c1 c2.

Definition insts_rel (hm : list (N * N)) (i1 i2 : list (list N)) : Prop :=
  exists i1', Permutation i1 i1' /\ Forall2 (chain_rel hm) i1' i2.

Definition st_rel (hm m : list (N * N)) (s1 s2 : st) : Prop :=
  Forall2 (elem_rel hm m) (elems s1) (elems s2) /\
  insts_rel hm (insts s1) (insts s2) /\
  heap_rel m (heap s1) (heap s2) /\
  mtime s1 = mtime s2 /\ dirty s1 = dirty s2 /\ scaled s1 = scaled s2 /\
  lastclk s1 = lastclk s2 /\ startclk s1 = startclk s2 /\ clock s1 = clock s2 /\
  pbij hm /\ bounded hm (nexth s1) (nexth s2) /\
  pbij m /\ bounded m (nextr s1) (nextr s2).

Definition iso (s1 s2 : st) : Prop := exists hm m, st_rel hm m s1 s2.

(* ---------------------------------------------------------------- saveable states *)
Definition eh (e : elem) : N := th (ethr e).

Definition ref_lt (v : value) (n : N) : Prop :=
  match v with VScal _ => True | VArr r | VCon r => r < n end.

Definition env_ok (env : list (N * value)) (n : N) : Prop := forall x v, In (x, v) env -> ref_lt v n.

Definition heap_ok (hp : list (N * holder)) (n : N) : Prop :=
  forall r k v, In (k, v) (heap_get r hp) -> ref_lt v n.

Definition wf (s : st) : Prop :=
  NoDup (concat (insts s)) /\
  Permutation (concat (insts s)) (map eh (elems s)) /\
  (forall h, In h (concat (insts s)) -> h < nexth s) /\
  Forall (fun e => env_ok (tenv (ethr e)) (nextr s)) (elems s) /\
  heap_ok (heap s) (nextr s).
