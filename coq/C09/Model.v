(* C09/Model.v — executable model of save / reset / load of the script engine:
   ScriptMaster::Archive -> ScriptClass::ArchiveScript -> ScriptThread::ArchiveInternal ->
   Listener::Archive (the thread's local variables) -> ScriptVariable::ArchiveInternal ->
   ScriptArrayHolder::Archive / ScriptConstArrayHolder::Archive (static, the newRef protocol)
   -> ScriptVM::Archive (code position) -> con::timer::Archive, ScriptMaster::Reset, and the
   engine they act on: the C06 engine model (timer elements in insertion order, backward scan
   of GetNextElement, dirty flag, m_time, scaled time; see C06/Model.v) extended with
     - script instances (ScriptMaster::headScript, newest first: LL::SafeAddFront) and per
       instance the chain of its threads (ScriptClass::m_Threads, newest first: AddThread),
       `thread label arg..` (a new thread in the instance of the running thread, run at once,
       its parameters local.101, local.102 .. bound to the argument VALUES: an array argument
       is the same holder in both threads),
     - per thread the local variables (Listener::vars) over abstract values: nil, integer,
       string (bytes), float (bit pattern), object reference (id), reference to a dynamic
       array holder (ScriptArrayHolder), reference to a constant array holder
       (ScriptConstArrayHolder, built by `a::b::c`),
     - ONE heap of holders for the whole engine; a holder maps keys to VALUES (so arrays of
       arrays, a constant array inside a dynamic one and vice versa, a holder that contains
       itself); holders are shared by reference: `local.b = local.a`, `local.x[k] = local.a`,
       `local.y = local.x[k]`, `u::local.a` and thread arguments all copy the reference
       (ScriptVariable::setDataInternal).  A store `local.a[k] = v` creates a dynamic holder
       when the variable is nil, writes THROUGH the reference otherwise - also for a
       constant array (ScriptVariable::setArrayAtRef: in place, no copy; only existing slots
       1..size; NIL clears the slot) - and removes the key of a dynamic holder for NIL.
   What the archive is here: the tree of tagged items in the order the code writes them
   (one constructor per Archive* call, nesting = call nesting): number of instances; per
   instance (list order) its position index and its threads in chain order; per thread its
   variables (name, value), then the thread's own position index, then the code position; a
   value that is an array writes its kind (the variable's type tag) and newRef = "holder not
   yet positioned in this archive": true -> position index + the holder's entries (values
   again, recursively), false -> the pointer index; then the timer: dirty, m_time, the
   elements in list order as (object pointer index, time).  Indices come from one counter
   in the order of first positioning, as Archiver::classpointerList.AddUniqueObject hands
   them out (here only instances, threads and holders consume indices; the code also
   positions every ScriptVariable, which only shifts the numbers).  The table "holder ->
   index" is ONE table for the whole archive: a holder reached again from another variable,
   another holder or another thread is written as a pointer.  Bytes, tags and the fix-up
   mechanism are unit C10's subject.  The recursion of the writer is bounded by a fuel
   (None = out of fuel; Proofs: never for saveable states).
   Loading mirrors the reading branches: every instance is created with SafeAddFront (so
   the instance list comes back REVERSED), the threads of an instance are linked in the
   order read (chain order kept), holders are created at newRef = true and re-shared by
   index, the timer elements come back in list order and find their thread by index; the
   new identity of a loaded object is its archive index.
   Abstracted: group/level/game variables, waittill/notify, events are not modelled (only
   sampled on the real engine); thread state / VM state are constant between frames
   (Timing/Suspended) and not represented; the operand stack is empty between statements;
   ScriptMaster::m_PreviousThread (archived since caf06d7) is not represented (no statement
   of the alphabet reads it); the order of the entries of a variable list or dynamic holder
   (hash order in the code) is the list order here.  Ill-typed statements (index applied to
   an integer, a constant-array index out of range ..) raise script errors in the engine and
   are no-ops here: the generator avoids them and the warning count of the harness checks
   that.  NO proofs in this file. *)
From Coq Require Import NArith ZArith List Bool.
Import ListNotations.
Local Open Scope N_scope.

Definition bytes := list N.

Inductive scalar := SNil | SInt (z : Z) | SStr (b : bytes) | SFloat (bits : N) | SObj (id : N).
Inductive value := VScal (s : scalar) | VArr (r : N) | VCon (r : N).

(* an array key: ScriptVariable as map key (integer or string; other kinds have no hash) *)
Inductive key := KInt (z : Z) | KStr (b : bytes).

Fixpoint bytes_eqb (a b : bytes) : bool :=
  match a, b with
  | [], [] => true
  | x :: a', y :: b' => N.eqb x y && bytes_eqb a' b'
  | _, _ => false
  end.

Definition key_eqb (a b : key) : bool :=
  match a, b with
  | KInt x, KInt y => Z.eqb x y
  | KStr x, KStr y => bytes_eqb x y
  | _, _ => false
  end.

Definition holder := list (key * value).

(* an operand of `::` *)
Inductive cval := CLit (s : scalar) | CVar (y : N).

Inductive instr :=
| IPrint (m : N)                          (* println "<m>" *)
| IWait (d : N)                           (* wait d ms *)
| ISet (x : N) (s : scalar)               (* local.x = literal / NIL *)
| ISetElem (x : N) (k : key) (s : scalar)   (* local.x[k] = literal / NIL *)
| ISetElemVar (x : N) (k : key) (y : N)     (* local.x[k] = local.y *)
| IGetElem (y : N) (x : N) (k : key)       (* local.y = local.x[k] *)
| ICopy (x y : N)                         (* local.x = local.y *)
| IConst (x : N) (l : list cval)          (* local.x = c1::c2::.. *)
| IPrintVar (x : N)                       (* println local.x *)
| IPrintElem (x : N) (k : key)            (* println local.x[k] *)
| IPrintSize (x : N)                      (* println local.x.size *)
| IThread (args : list N) (p : prog)      (* thread <label of p> local.a1 local.a2 .. *)
with prog := PEnd | PSeq (i : instr) (p : prog).

Inductive op :=
| OStart (p : prog)
| OAdvance (dt : N)
| OExecute.

Record thread := mkThr {
  th : N;                              (* identity of the ScriptThread object *)
  tenv : list (N * value);             (* Listener::vars *)
  tcode : prog }.                      (* ScriptVM::m_CodePos: what is left to run *)

Record elem := mkElem { ethr : thread; etime : N }.

Record st := mkSt {
  elems : list elem;        (* timer::m_Elements, first = index 1; the waiting thread itself *)
  insts : list (list N);    (* headScript list, per instance the thread chain (identities) *)
  heap : list (N * holder); (* every ScriptArrayHolder / ScriptConstArrayHolder *)
  mtime : N;
  dirty : bool;
  scaled : N;
  lastclk : N;
  startclk : N;
  clock : N;
  nexth : N;                (* next fresh thread identity *)
  nextr : N }.              (* next fresh holder identity *)

Definition init (c : N) : st := mkSt [] [] [] 0 false 0 c c c 1 1.

Definition set_elems (s : st) (l : list elem) : st :=
  mkSt l (insts s) (heap s) (mtime s) (dirty s) (scaled s) (lastclk s) (startclk s) (clock s) (nexth s) (nextr s).
Definition set_insts (s : st) (i : list (list N)) : st :=
  mkSt (elems s) i (heap s) (mtime s) (dirty s) (scaled s) (lastclk s) (startclk s) (clock s) (nexth s) (nextr s).
Definition set_dirty (s : st) (d : bool) : st :=
  mkSt (elems s) (insts s) (heap s) (mtime s) d (scaled s) (lastclk s) (startclk s) (clock s) (nexth s) (nextr s).
Definition set_heap (s : st) (h : list (N * holder)) : st :=
  mkSt (elems s) (insts s) h (mtime s) (dirty s) (scaled s) (lastclk s) (startclk s) (clock s) (nexth s) (nextr s).
(* a new holder *)
Definition alloc (s : st) (o : holder) : st :=
  mkSt (elems s) (insts s) ((nextr s, o) :: heap s) (mtime s) (dirty s) (scaled s) (lastclk s) (startclk s)
       (clock s) (nexth s) (nextr s + 1).

(* ---------------------------------------------------------------- variables and holders *)
Fixpoint env_get (x : N) (e : list (N * value)) : value :=
  match e with
  | [] => VScal SNil
  | (y, v) :: e' => if N.eqb x y then v else env_get x e'
  end.

Fixpoint env_set (x : N) (v : value) (e : list (N * value)) : list (N * value) :=
  match e with
  | [] => [(x, v)]
  | (y, w) :: e' => if N.eqb x y then (y, v) :: e' else (y, w) :: env_set x v e'
  end.

Fixpoint heap_get (r : N) (h : list (N * holder)) : holder :=
  match h with
  | [] => []
  | (q, o) :: h' => if N.eqb r q then o else heap_get r h'
  end.

Fixpoint heap_set (r : N) (o : holder) (h : list (N * holder)) : list (N * holder) :=
  match h with
  | [] => [(r, o)]
  | (q, o') :: h' => if N.eqb r q then (q, o) :: h' else (q, o') :: heap_set r o h'
  end.

Fixpoint hold_get (k : key) (o : holder) : value :=
  match o with
  | [] => VScal SNil
  | (j, s) :: o' => if key_eqb k j then s else hold_get k o'
  end.

Fixpoint hold_mem (k : key) (o : holder) : bool :=
  match o with
  | [] => false
  | (j, _) :: o' => if key_eqb k j then true else hold_mem k o'
  end.

Fixpoint hold_remove (k : key) (o : holder) : holder :=
  match o with
  | [] => []
  | (j, s) :: o' => if key_eqb k j then o' else (j, s) :: hold_remove k o'
  end.

Fixpoint hold_put (k : key) (s : value) (o : holder) : holder :=
  match o with
  | [] => [(k, s)]
  | (j, s') :: o' => if key_eqb k j then (j, s) :: o' else (j, s') :: hold_put k s o'
  end.

Definition is_nil (v : value) : bool := match v with VScal SNil => true | _ => false end.

(* map<..>::operator[] = value, or remove(index) for NIL *)
Definition hold_set (k : key) (v : value) (o : holder) : holder :=
  if is_nil v then hold_remove k o else hold_put k v o.

(* ScriptVariable::setArrayAtRef on the variable local.x *)
Definition store_elem (s : st) (env : list (N * value)) (x : N) (k : key) (v : value)
  : st * list (N * value) :=
  match env_get x env with
  | VArr r => (set_heap s (heap_set r (hold_set k v (heap_get r (heap s))) (heap s)), env)
  | VCon r =>
      let o := heap_get r (heap s) in
      (if hold_mem k o then set_heap s (heap_set r (hold_put k v o) (heap s)) else s, env)
  | VScal SNil => (alloc s (hold_set k v []), env_set x (VArr (nextr s)) env)
  | VScal _ => (s, env)
  end.

(* ScriptVariable::operator[] *)
Definition load_elem (s : st) (env : list (N * value)) (x : N) (k : key) : value :=
  match env_get x env with
  | VArr r => hold_get k (heap_get r (heap s))
  | VCon r => hold_get k (heap_get r (heap s))
  | VScal _ => VScal SNil
  end.

Definition cval_get (env : list (N * value)) (c : cval) : value :=
  match c with CLit sc => VScal sc | CVar y => env_get y env end.

Fixpoint number_from (k : Z) (l : list value) : holder :=
  match l with [] => [] | v :: l' => (KInt k, v) :: number_from (k + 1) l' end.

(* ScriptVariable::size *)
Definition size_of (s : st) (v : value) : Z :=
  match v with
  | VScal SNil => (-1)%Z
  | VScal _ => 1%Z
  | VArr r | VCon r => Z.of_nat (length (heap_get r (heap s)))
  end.

Fixpoint params_from (k : N) (l : list value) : list (N * value) :=
  match l with [] => [] | v :: l' => (k, v) :: params_from (k + 1) l' end.

(* ---------------------------------------------------------------- instances *)
Fixpoint mem (h : N) (c : list N) : bool :=
  match c with [] => false | x :: c' => N.eqb h x || mem h c' end.

Fixpoint remove_h (h : N) (c : list N) : list N :=
  match c with [] => [] | x :: c' => if N.eqb h x then remove_h h c' else x :: remove_h h c' end.

Definition nonempty (c : list N) : bool := match c with [] => false | _ => true end.

(* ScriptClass::AddThread of a new thread hc created by the running thread h *)
Definition spawn_in (h hc : N) (i : list (list N)) : list (list N) :=
  map (fun c => if mem h c then hc :: c else c) i.

(* ScriptClass::RemoveThread; an instance without threads deletes itself *)
Definition end_in (h : N) (i : list (list N)) : list (list N) :=
  filter nonempty (map (remove_h h) i).

(* ---------------------------------------------------------------- running a thread *)
Inductive pr := PMark (m : N) | PVal (s : scalar) | PArr | PCon.

Definition print_of (v : value) : pr :=
  match v with VScal s => PVal s | VArr _ => PArr | VCon _ => PCon end.

(* ScriptVM::Execute until the thread waits or ends.  h = the running thread; its
   variables are threaded through, the heap lives in the state. *)
Fixpoint run_code (p : prog) (s : st) (h : N) (env : list (N * value)) (log : list pr)
  : st * list pr :=
  match p with
  | PEnd => (set_insts s (end_in h (insts s)), log)
  | PSeq (IPrint m) p' => run_code p' s h env (PMark m :: log)
  | PSeq (IWait d) p' =>
      (* AddTiming(this, d): AddElement(thread, scaled + d) *)
      let t := scaled s + d in
      (mkSt (elems s ++ [mkElem (mkThr h env p') t]) (insts s) (heap s) (mtime s)
            (if t <=? mtime s then true else dirty s)
            (scaled s) (lastclk s) (startclk s) (clock s) (nexth s) (nextr s), log)
  | PSeq (ISet x v) p' => run_code p' s h (env_set x (VScal v) env) log
  | PSeq (ISetElem x k v) p' =>
      let '(s1, env1) := store_elem s env x k (VScal v) in run_code p' s1 h env1 log
  | PSeq (ISetElemVar x k y) p' =>
      let '(s1, env1) := store_elem s env x k (env_get y env) in run_code p' s1 h env1 log
  | PSeq (IGetElem y x k) p' => run_code p' s h (env_set y (load_elem s env x k) env) log
  | PSeq (ICopy x y) p' => run_code p' s h (env_set x (env_get y env) env) log
  | PSeq (IConst x l) p' =>
      run_code p' (alloc s (number_from 1 (map (cval_get env) l))) h
               (env_set x (VCon (nextr s)) env) log
  | PSeq (IPrintVar x) p' => run_code p' s h env (print_of (env_get x env) :: log)
  | PSeq (IPrintElem x k) p' => run_code p' s h env (print_of (load_elem s env x k) :: log)
  | PSeq (IPrintSize x) p' => run_code p' s h env (PVal (SInt (size_of s (env_get x env))) :: log)
  | PSeq (IThread args q) p' =>
      let hc := nexth s in
      let s1 := mkSt (elems s) (spawn_in h hc (insts s)) (heap s) (mtime s) (dirty s) (scaled s)
                     (lastclk s) (startclk s) (clock s) (hc + 1) (nextr s) in
      let '(s2, log2) := run_code q s1 hc (params_from 101 (map (fun y => env_get y env) args)) log in
      run_code p' s2 h env log2
  end.

Definition run_thread (s : st) (t : thread) (log : list pr) : st * list pr :=
  run_code (tcode t) s (th t) (tenv t) log.

(* ---------------------------------------------------------------- the timer (as C06) *)
Fixpoint scan (rl : list N) (i : nat) (best : N) (found : option nat) : option nat :=
  match rl with
  | [] => found
  | t :: rl' =>
      if t <=? best then scan rl' (pred i) t (Some i)
      else scan rl' (pred i) best found
  end.

Fixpoint remove_at {A} (l : list A) (i : nat) : list A :=     (* i is 1-based *)
  match l, i with
  | [], _ => []
  | _ :: l', 1%nat => l'
  | x :: l', S j => x :: remove_at l' j
  | l, O => l
  end.

Definition get_next (s : st) : option (elem * st) :=
  match scan (rev (map etime (elems s))) (length (elems s)) (mtime s) None with
  | Some i =>
      match nth_error (elems s) (pred i) with
      | Some e => Some (e, set_elems s (remove_at (elems s) i))
      | None => None
      end
  | None => None
  end.

Fixpoint exec_loop (fuel : nat) (s : st) (log : list pr) : option (st * list pr) :=
  match get_next s with
  | None => Some (set_dirty s false, log)
  | Some (e, s1) =>
      match fuel with
      | O => None
      | S f => let '(s2, log2) := run_thread s1 (ethr e) log in exec_loop f s2 log2
      end
  end.

Definition execute_running (fuel : nat) (s : st) (log : list pr) : option (st * list pr) :=
  if dirty s then exec_loop fuel s log else Some (s, log).

Fixpoint psize (p : prog) : nat :=
  match p with
  | PEnd => 1
  | PSeq (IThread _ q) p' => S (psize q + psize p')
  | PSeq _ p' => S (psize p')
  end.

Definition weight (s : st) : nat :=
  fold_right (fun e acc => psize (tcode (ethr e)) + acc)%nat O (elems s).

Record obs := mkObs { prints : list pr; idle : bool; waiting : bool }.

Definition observe (s : st) (log : list pr) : obs :=
  mkObs (rev log) (match insts s with [] => true | _ => false end)
        (negb (match elems s with [] => true | _ => false end)).

Definition step (s : st) (o : op) : option (st * obs) :=
  match o with
  | OStart p =>
      let h := nexth s in
      (* new ScriptClass: SafeAddFront; its first thread *)
      let s0 := mkSt (elems s) ([h] :: insts s) (heap s) (mtime s) (dirty s) (scaled s) (lastclk s)
                     (startclk s) (clock s) (h + 1) (nextr s) in
      let '(s1, log) := run_code p s0 h [] [] in
      match execute_running (weight s1) s1 log with
      | Some (s2, log2) => Some (s2, observe s2 log2)
      | None => None
      end
  | OAdvance dt =>
      let s' := mkSt (elems s) (insts s) (heap s) (mtime s) (dirty s) (scaled s) (lastclk s) (startclk s)
                     (clock s + dt) (nexth s) (nextr s) in
      Some (s', observe s' [])
  | OExecute =>
      let s1 := mkSt (elems s) (insts s) (heap s) (clock s - startclk s) true
                     (scaled s + (clock s - lastclk s)) (clock s) (startclk s) (clock s)
                     (nexth s) (nextr s) in
      match execute_running (weight s1) s1 [] with
      | Some (s2, log2) => Some (s2, observe s2 log2)
      | None => None
      end
  end.

Fixpoint run_from (s : st) (ops : list op) : list (option obs) :=
  match ops with
  | [] => []
  | o :: ops' =>
      match step s o with
      | Some (s', ob) => Some ob :: run_from s' ops'
      | None => [None]
      end
  end.

(* the state after a history (None: a resume loop ran out of fuel) *)
Fixpoint state_after (s : st) (ops : list op) : option st :=
  match ops with
  | [] => Some s
  | o :: ops' =>
      match step s o with
      | Some (s', _) => state_after s' ops'
      | None => None
      end
  end.

Definition run (ops : list op) : list (option obs) := run_from (init 1000) ops.

(* ---------------------------------------------------------------- the archive *)
Inductive aval :=
| AScal (s : scalar)
| ANew (con : bool) (idx : N) (o : alist)   (* newRef = true: ArchiveObjectPosition + entries *)
| APtr (con : bool) (idx : N)               (* newRef = false: ArchiveObjectPointer *)
with alist := ANil | ACons (k : key) (v : aval) (o : alist).

Record athread := mkAThr {
  a_vars : alist;               (* Listener::Archive: the variable list (name, value) *)
  a_pos : N;                    (* ArchiveObjectPosition(thread) *)
  a_code : prog }.              (* ArchiveCodePos: offset into the script = what is left *)

Record ainst := mkAInst { ai_pos : N; ai_threads : list athread }.

Record archive := mkArc {
  a_nclasses : N;               (* the header's object count, patched on close *)
  a_insts : list ainst;
  a_dirty : bool;
  a_mtime : N;
  a_elems : list (N * N) }.     (* (ArchiveObjectPointer index, time) *)

Fixpoint assoc (r : N) (l : list (N * N)) : option N :=
  match l with
  | [] => None
  | (a, b) :: l' => if N.eqb r a then Some b else assoc r l'
  end.

Definition sres (A : Type) : Type := option (A * N * list (N * N)).

(* the entries of a holder / the variables of a thread, in order; sv writes one value;
   cnt = indices handed out so far; seen = holder -> index *)
Fixpoint save_hold (sv : value -> N -> list (N * N) -> sres aval) (o : holder) (cnt : N)
         (seen : list (N * N)) : sres alist :=
  match o with
  | [] => Some (ANil, cnt, seen)
  | (k, v) :: o' =>
      match sv v cnt seen with
      | None => None
      | Some (av, c1, s1) =>
          match save_hold sv o' c1 s1 with
          | None => None
          | Some (al, c2, s2) => Some (ACons k av al, c2, s2)
          end
      end
  end.

(* ScriptVariable::ArchiveInternal; the fuel bounds the depth of the recursion *)
Fixpoint save_val (f : nat) (hp : list (N * holder)) (v : value) (cnt : N) (seen : list (N * N))
  : sres aval :=
  let ref := fun (con : bool) (r : N) =>
    match assoc r seen with
    | Some i => Some (APtr con i, cnt, seen)
    | None =>
        match f with
        | O => None
        | S f' =>
            let i := cnt + 1 in
            match save_hold (save_val f' hp) (heap_get r hp) i ((r, i) :: seen) with
            | Some (al, c, sn) => Some (ANew con i al, c, sn)
            | None => None
            end
        end
    end in
  match v with
  | VScal s => Some (AScal s, cnt, seen)
  | VArr r => ref false r
  | VCon r => ref true r
  end.

(* a variable list as a holder: the name is the key *)
Definition env_holder (e : list (N * value)) : holder := map (fun xv => (KInt (Z.of_N (fst xv)), snd xv)) e.
Definition key_name (k : key) : N := match k with KInt z => Z.to_N z | KStr _ => 0 end.
Definition holder_env (o : holder) : list (N * value) := map (fun kv => (key_name (fst kv), snd kv)) o.

Definition save_thread (f : nat) (hp : list (N * holder)) (t : thread) (cnt : N) (seen : list (N * N))
  : sres athread :=
  match save_hold (save_val f hp) (env_holder (tenv t)) cnt seen with
  | Some (al, c, sn) => Some (mkAThr al (c + 1) (tcode t), c + 1, sn)
  | None => None
  end.

Fixpoint find_thread (h : N) (l : list elem) : option thread :=
  match l with
  | [] => None
  | e :: l' => if N.eqb h (th (ethr e)) then Some (ethr e) else find_thread h l'
  end.

(* the threads of one instance in chain order; hm = thread identity -> index *)
Fixpoint save_chain (f : nat) (hp : list (N * holder)) (c : list N) (es : list elem) (cnt : N)
         (seen hm : list (N * N)) : option (list athread * N * list (N * N) * list (N * N)) :=
  match c with
  | [] => Some ([], cnt, seen, hm)
  | h :: c' =>
      match find_thread h es with
      | None => None                    (* a live thread that is not waiting in the timer *)
      | Some t =>
          match save_thread f hp t cnt seen with
          | None => None
          | Some (at_, c1, s1) =>
              match save_chain f hp c' es c1 s1 ((h, c1) :: hm) with
              | Some (l, c2, s2, hm2) => Some (at_ :: l, c2, s2, hm2)
              | None => None
              end
          end
      end
  end.

Fixpoint save_insts (f : nat) (hp : list (N * holder)) (i : list (list N)) (es : list elem) (cnt : N)
         (seen hm : list (N * N)) : option (list ainst * N * list (N * N) * list (N * N)) :=
  match i with
  | [] => Some ([], cnt, seen, hm)
  | c :: i' =>
      match save_chain f hp c es (cnt + 1) seen hm with
      | None => None
      | Some (ts, c1, s1, hm1) =>
          match save_insts f hp i' es c1 s1 hm1 with
          | Some (l, c2, s2, hm2) => Some (mkAInst (cnt + 1) ts :: l, c2, s2, hm2)
          | None => None
          end
      end
  end.

Fixpoint save_elems (es : list elem) (hm : list (N * N)) : option (list (N * N)) :=
  match es with
  | [] => Some []
  | e :: es' =>
      match assoc (th (ethr e)) hm, save_elems es' hm with
      | Some i, Some l => Some ((i, etime e) :: l)
      | _, _ => None                    (* a timer element whose thread was not positioned *)
      end
  end.

Definition save (s : st) : option archive :=
  match save_insts (S (N.to_nat (nextr s))) (heap s) (insts s) (elems s) 0 [] [] with
  | None => None
  | Some (ai, cnt, _, hm) =>
      match save_elems (elems s) hm with
      | None => None
      | Some ae => Some (mkArc cnt ai (dirty s) (mtime s) ae)
      end
  end.

(* ScriptMaster::Reset: every instance and thread is destroyed (the threads leave the
   timer, the holders die with their last variable); the timer's time and flag, the clocks
   stay *)
Definition reset (s : st) : st :=
  mkSt [] [] [] (mtime s) (dirty s) (scaled s) (lastclk s) (startclk s) (clock s) (nexth s) (nextr s).

Definition load_val (v : aval) : value :=
  match v with
  | AScal s => VScal s
  | ANew false i _ | APtr false i => VArr i
  | ANew true i _ | APtr true i => VCon i
  end.

Fixpoint load_hold (o : alist) : holder :=
  match o with ANil => [] | ACons k v o' => (k, load_val v) :: load_hold o' end.

(* the holders created while reading a value / a list of values, in the order read *)
Fixpoint collect (v : aval) : list (N * holder) :=
  match v with
  | ANew _ i o => (i, load_hold o) :: collect_l o
  | _ => []
  end
with collect_l (o : alist) : list (N * holder) :=
  match o with ANil => [] | ACons _ v o' => collect v ++ collect_l o' end.

Definition load_thread (a : athread) : thread :=
  mkThr (a_pos a) (holder_env (load_hold (a_vars a))) (a_code a).

Fixpoint find_loaded (i : N) (l : list thread) : option thread :=
  match l with
  | [] => None
  | t :: l' => if N.eqb i (th t) then Some t else find_loaded i l'
  end.

Fixpoint load_elems (ae : list (N * N)) (ts : list thread) : option (list elem) :=
  match ae with
  | [] => Some []
  | (i, t) :: ae' =>
      match find_loaded i ts, load_elems ae' ts with
      | Some x, Some l => Some (mkElem x t :: l)
      | _, _ => None                    (* the fix-up finds no object at this index *)
      end
  end.

Definition all_athreads (a : archive) : list athread := concat (map ai_threads (a_insts a)).

(* reading into the engine s0 (after Reset) *)
Definition load (a : archive) (s0 : st) : option st :=
  let nc := a_nclasses a in
  let ts := map load_thread (all_athreads a) in
  match load_elems (a_elems a) ts with
  | None => None
  | Some es =>
      Some (mkSt es
                 (* every loaded instance is linked at the front: the list is reversed *)
                 (rev (map (fun ai => map a_pos (ai_threads ai)) (a_insts a)))
                 (concat (map (fun x => collect_l (a_vars x)) (all_athreads a)))
                 (a_mtime a) (a_dirty a) (scaled s0) (lastclk s0) (startclk s0) (clock s0)
                 (nc + 1) (nc + 1))
  end.

Definition save_reset_load (s : st) : option st :=
  match save s with
  | Some a => load a (reset s)
  | None => None
  end.
