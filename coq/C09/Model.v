(* C09/Model.v — executable model of save / reset / load of the script engine:
   ScriptMaster::Archive -> ScriptClass::ArchiveScript -> ScriptThread::ArchiveInternal ->
   Listener::Archive (the thread's local variables) -> ScriptVariable::ArchiveInternal ->
   ScriptArrayHolder::Archive (static, the newRef protocol) -> ScriptVM::Archive (code
   position) -> con::timer::Archive, ScriptMaster::Reset, and the engine they act on: the
   C06 engine model (timer elements in insertion order, backward scan of GetNextElement,
   dirty flag, m_time, scaled time; see C06/Model.v) extended with
     - script instances (ScriptMaster::headScript, newest first: LL::SafeAddFront) and per
       instance the chain of its threads (ScriptClass::m_Threads, newest first: AddThread),
       `thread label` (a new thread in the instance of the running thread, run at once),
     - per thread the local variables (Listener::vars) over abstract values: nil, integer,
       string (bytes), float (bit pattern), object reference (id), array (reference to a
       holder); holders are shared by reference (`local.b = local.a` makes both name one
       holder: ScriptVariable::setDataInternal), `local.a[k] = v` creates the holder when
       the variable is nil, writes through the reference otherwise, removes the key for NIL.
   What the archive is here: the tree of tagged items in the order the code writes them
   (one constructor per Archive* call, nesting = call nesting): number of instances;
   per instance (list order) its position index and its threads in chain order; per thread
   its variables (name, value), then the thread's own position index, then the code
   position; a value that is an array writes newRef = "holder not yet positioned in this
   archive": true -> position index + the holder's entries, false -> the pointer index;
   then the timer: dirty, m_time, the elements in list order as (object pointer index,
   time).  Indices come from one counter in the order of first positioning, as
   Archiver::classpointerList.AddUniqueObject hands them out (here only instances, threads
   and holders consume indices; the code also positions every ScriptVariable, which only
   shifts the numbers).  Bytes, tags and the fix-up mechanism are unit C10's subject.
   Loading mirrors the reading branches: every instance is created with SafeAddFront (so
   the instance list comes back REVERSED), the threads of an instance are linked in the
   order read (chain order kept), holders are created at newRef = true and re-shared by
   index, the timer elements come back in list order and find their thread by index; the
   new identity of a loaded object is its archive index.
   Abstracted: holders live in a per-thread heap (only locals are modelled, so no holder
   is reachable from two threads); arrays hold scalars (nested arrays: only sampled on the
   real engine); thread state / VM state are constant between frames (Timing/Suspended)
   and not represented; the operand stack is empty between statements; the order of the
   entries of a variable list or holder (hash order in the code) is the list order here.
   No waittill/notify, no events.  Ill-typed statements (index applied to an integer ..)
   raise script errors in the engine and are no-ops here: the generator avoids them and the
   warning count of the harness checks that.  NO proofs in this file. *)
From Coq Require Import NArith ZArith List Bool.
Import ListNotations.
Local Open Scope N_scope.

Definition bytes := list N.

Inductive scalar := SNil | SInt (z : Z) | SStr (b : bytes) | SFloat (bits : N) | SObj (id : N).
Inductive value := VScal (s : scalar) | VArr (r : N).

Definition holder := list (Z * scalar).

Inductive instr :=
| IPrint (m : N)                          (* println "<m>" *)
| IWait (d : N)                           (* wait d ms *)
| ISet (x : N) (s : scalar)               (* local.x = literal / NIL *)
| ISetElem (x : N) (k : Z) (s : scalar)   (* local.x[k] = literal / NIL *)
| ICopy (x y : N)                         (* local.x = local.y *)
| IPrintVar (x : N)                       (* println local.x *)
| IPrintElem (x : N) (k : Z)              (* println local.x[k] *)
| IThread (p : prog)                      (* thread <label of p> *)
with prog := PEnd | PSeq (i : instr) (p : prog).

Inductive op :=
| OStart (p : prog)
| OAdvance (dt : N)
| OExecute.

Record thread := mkThr {
  th : N;                              (* identity of the ScriptThread object *)
  tenv : list (N * value);             (* Listener::vars *)
  theap : list (N * holder);           (* the ScriptArrayHolders its variables reach *)
  tnext : N;                           (* next fresh holder identity *)
  tcode : prog }.                (* ScriptVM::m_CodePos: what is left to run *)

Record elem := mkElem { ethr : thread; etime : N }.

Record st := mkSt {
  elems : list elem;        (* timer::m_Elements, first = index 1; the waiting thread itself *)
  insts : list (list N);    (* headScript list, per instance the thread chain (identities) *)
  mtime : N;
  dirty : bool;
  scaled : N;
  lastclk : N;
  startclk : N;
  clock : N;
  nexth : N }.              (* next fresh thread identity *)

Definition init (c : N) : st := mkSt [] [] 0 false 0 c c c 1.

Definition set_elems (s : st) (l : list elem) : st :=
  mkSt l (insts s) (mtime s) (dirty s) (scaled s) (lastclk s) (startclk s) (clock s) (nexth s).
Definition set_insts (s : st) (i : list (list N)) : st :=
  mkSt (elems s) i (mtime s) (dirty s) (scaled s) (lastclk s) (startclk s) (clock s) (nexth s).
Definition set_dirty (s : st) (d : bool) : st :=
  mkSt (elems s) (insts s) (mtime s) d (scaled s) (lastclk s) (startclk s) (clock s) (nexth s).

(* ---------------------------------------------------------------- variables and holders *)
Fixpoint env_get (x : N) (e : list (N * value)) : value :=
  match e with
  | [] => VScal SNil
  | (y, v) :: e' => if N.eqb x y then v else env_get x e'
  end.

Fixpoint env_set (x : N) (v : value) (e : list (N * value)) : list (N * value) :=
  match e with
  | [] => [(x, v)]
  | (y, w) :: e' => if N.eqb x y then (y, v) :: e' else (y, w) :: env_set x v e'
  end.

Fixpoint heap_get (r : N) (h : list (N * holder)) : holder :=
  match h with
  | [] => []
  | (q, o) :: h' => if N.eqb r q then o else heap_get r h'
  end.

Fixpoint heap_set (r : N) (o : holder) (h : list (N * holder)) : list (N * holder) :=
  match h with
  | [] => [(r, o)]
  | (q, o') :: h' => if N.eqb r q then (q, o) :: h' else (q, o') :: heap_set r o h'
  end.

Fixpoint hold_get (k : Z) (o : holder) : scalar :=
  match o with
  | [] => SNil
  | (j, s) :: o' => if Z.eqb k j then s else hold_get k o'
  end.

Fixpoint hold_remove (k : Z) (o : holder) : holder :=
  match o with
  | [] => []
  | (j, s) :: o' => if Z.eqb k j then o' else (j, s) :: hold_remove k o'
  end.

Fixpoint hold_put (k : Z) (s : scalar) (o : holder) : holder :=
  match o with
  | [] => [(k, s)]
  | (j, s') :: o' => if Z.eqb k j then (j, s) :: o' else (j, s') :: hold_put k s o'
  end.

Definition is_nil (s : scalar) : bool := match s with SNil => true | _ => false end.

(* map<..>::operator[] = value, or remove(index) for NIL *)
Definition hold_set (k : Z) (s : scalar) (o : holder) : holder :=
  if is_nil s then hold_remove k o else hold_put k s o.

(* ---------------------------------------------------------------- instances *)
Fixpoint mem (h : N) (c : list N) : bool :=
  match c with [] => false | x :: c' => N.eqb h x || mem h c' end.

Fixpoint remove_h (h : N) (c : list N) : list N :=
  match c with [] => [] | x :: c' => if N.eqb h x then remove_h h c' else x :: remove_h h c' end.

Definition nonempty (c : list N) : bool := match c with [] => false | _ => true end.

(* ScriptClass::AddThread of a new thread hc created by the running thread h *)
Definition spawn_in (h hc : N) (i : list (list N)) : list (list N) :=
  map (fun c => if mem h c then hc :: c else c) i.

(* ScriptClass::RemoveThread; an instance without threads deletes itself *)
Definition end_in (h : N) (i : list (list N)) : list (list N) :=
  filter nonempty (map (remove_h h) i).

(* ---------------------------------------------------------------- running a thread *)
Inductive pr := PMark (m : N) | PVal (s : scalar) | PArr.

Definition print_of (v : value) : pr :=
  match v with VScal s => PVal s | VArr _ => PArr end.

(* ScriptVM::Execute until the thread waits or ends.  h = the running thread; its
   variables, heap, fresh counter are threaded through. *)
Fixpoint run_code (p : prog) (s : st) (h : N) (env : list (N * value))
         (heap : list (N * holder)) (next : N) (log : list pr) : st * list pr :=
  match p with
  | PEnd => (set_insts s (end_in h (insts s)), log)
  | PSeq (IPrint m) p' => run_code p' s h env heap next (PMark m :: log)
  | PSeq (IWait d) p' =>
      (* AddTiming(this, d): AddElement(thread, scaled + d) *)
      let t := scaled s + d in
      (mkSt (elems s ++ [mkElem (mkThr h env heap next p') t]) (insts s) (mtime s)
            (if t <=? mtime s then true else dirty s)
            (scaled s) (lastclk s) (startclk s) (clock s) (nexth s), log)
  | PSeq (ISet x v) p' => run_code p' s h (env_set x (VScal v) env) heap next log
  | PSeq (ISetElem x k v) p' =>
      match env_get x env with
      | VArr r => run_code p' s h env (heap_set r (hold_set k v (heap_get r heap)) heap) next log
      | VScal SNil =>
          run_code p' s h (env_set x (VArr next) env)
                   (heap_set next (hold_set k v []) heap) (next + 1) log
      | VScal _ => run_code p' s h env heap next log
      end
  | PSeq (ICopy x y) p' => run_code p' s h (env_set x (env_get y env) env) heap next log
  | PSeq (IPrintVar x) p' => run_code p' s h env heap next (print_of (env_get x env) :: log)
  | PSeq (IPrintElem x k) p' =>
      match env_get x env with
      | VArr r => run_code p' s h env heap next (PVal (hold_get k (heap_get r heap)) :: log)
      | VScal _ => run_code p' s h env heap next (PVal SNil :: log)
      end
  | PSeq (IThread q) p' =>
      let hc := nexth s in
      let s1 := mkSt (elems s) (spawn_in h hc (insts s)) (mtime s) (dirty s) (scaled s)
                     (lastclk s) (startclk s) (clock s) (hc + 1) in
      let '(s2, log2) := run_code q s1 hc [] [] 1 log in
      run_code p' s2 h env heap next log2
  end.

Definition run_thread (s : st) (t : thread) (log : list pr) : st * list pr :=
  run_code (tcode t) s (th t) (tenv t) (theap t) (tnext t) log.

(* ---------------------------------------------------------------- the timer (as C06) *)
Fixpoint scan (rl : list N) (i : nat) (best : N) (found : option nat) : option nat :=
  match rl with
  | [] => found
  | t :: rl' =>
      if t <=? best then scan rl' (pred i) t (Some i)
      else scan rl' (pred i) best found
  end.

Fixpoint remove_at {A} (l : list A) (i : nat) : list A :=     (* i is 1-based *)
  match l, i with
  | [], _ => []
  | _ :: l', 1%nat => l'
  | x :: l', S j => x :: remove_at l' j
  | l, O => l
  end.

Definition get_next (s : st) : option (elem * st) :=
  match scan (rev (map etime (elems s))) (length (elems s)) (mtime s) None with
  | Some i =>
      match nth_error (elems s) (pred i) with
      | Some e => Some (e, set_elems s (remove_at (elems s) i))
      | None => None
      end
  | None => None
  end.

Fixpoint exec_loop (fuel : nat) (s : st) (log : list pr) : option (st * list pr) :=
  match get_next s with
  | None => Some (set_dirty s false, log)
  | Some (e, s1) =>
      match fuel with
      | O => None
      | S f => let '(s2, log2) := run_thread s1 (ethr e) log in exec_loop f s2 log2
      end
  end.

Definition execute_running (fuel : nat) (s : st) (log : list pr) : option (st * list pr) :=
  if dirty s then exec_loop fuel s log else Some (s, log).

Fixpoint psize (p : prog) : nat :=
  match p with
  | PEnd => 1
  | PSeq (IThread q) p' => S (psize q + psize p')
  | PSeq _ p' => S (psize p')
  end.

Definition weight (s : st) : nat :=
  fold_right (fun e acc => psize (tcode (ethr e)) + acc)%nat O (elems s).

Record obs := mkObs { prints : list pr; idle : bool; waiting : bool }.

Definition observe (s : st) (log : list pr) : obs :=
  mkObs (rev log) (match insts s with [] => true | _ => false end)
        (negb (match elems s with [] => true | _ => false end)).

Definition step (s : st) (o : op) : option (st * obs) :=
  match o with
  | OStart p =>
      let h := nexth s in
      (* new ScriptClass: SafeAddFront; its first thread *)
      let s0 := mkSt (elems s) ([h] :: insts s) (mtime s) (dirty s) (scaled s) (lastclk s)
                     (startclk s) (clock s) (h + 1) in
      let '(s1, log) := run_code p s0 h [] [] 1 [] in
      match execute_running (weight s1) s1 log with
      | Some (s2, log2) => Some (s2, observe s2 log2)
      | None => None
      end
  | OAdvance dt =>
      let s' := mkSt (elems s) (insts s) (mtime s) (dirty s) (scaled s) (lastclk s) (startclk s)
                     (clock s + dt) (nexth s) in
      Some (s', observe s' [])
  | OExecute =>
      let s1 := mkSt (elems s) (insts s) (clock s - startclk s) true
                     (scaled s + (clock s - lastclk s)) (clock s) (startclk s) (clock s)
                     (nexth s) in
      match execute_running (weight s1) s1 [] with
      | Some (s2, log2) => Some (s2, observe s2 log2)
      | None => None
      end
  end.

Fixpoint run_from (s : st) (ops : list op) : list (option obs) :=
  match ops with
  | [] => []
  | o :: ops' =>
      match step s o with
      | Some (s', ob) => Some ob :: run_from s' ops'
      | None => [None]
      end
  end.

(* the state after a history (None: a resume loop ran out of fuel) *)
Fixpoint state_after (s : st) (ops : list op) : option st :=
  match ops with
  | [] => Some s
  | o :: ops' =>
      match step s o with
      | Some (s', _) => state_after s' ops'
      | None => None
      end
  end.

Definition run (ops : list op) : list (option obs) := run_from (init 1000) ops.

(* ---------------------------------------------------------------- the archive *)
Inductive aval :=
| AScal (s : scalar)
| ANewArr (idx : N) (o : holder)       (* newRef = true: ArchiveObjectPosition + entries *)
| APtrArr (idx : N).                   (* newRef = false: ArchiveObjectPointer *)

Record athread := mkAThr {
  a_vars : list (N * aval);     (* Listener::Archive: the variable list *)
  a_pos : N;                    (* ArchiveObjectPosition(thread) *)
  a_code : prog }.        (* ArchiveCodePos: offset into the script = what is left *)

Record ainst := mkAInst { ai_pos : N; ai_threads : list athread }.

Record archive := mkArc {
  a_nclasses : N;               (* the header's object count, patched on close *)
  a_insts : list ainst;
  a_dirty : bool;
  a_mtime : N;
  a_elems : list (N * N) }.     (* (ArchiveObjectPointer index, time) *)

Fixpoint assoc (r : N) (l : list (N * N)) : option N :=
  match l with
  | [] => None
  | (a, b) :: l' => if N.eqb r a then Some b else assoc r l'
  end.

(* the variables of one thread; cnt = indices handed out so far; seen = holder -> index *)
Fixpoint save_vars (vars : list (N * value)) (heap : list (N * holder)) (cnt : N)
         (seen : list (N * N)) : list (N * aval) * N * list (N * N) :=
  match vars with
  | [] => ([], cnt, seen)
  | (x, VScal s) :: vars' =>
      let '(l, c, sn) := save_vars vars' heap cnt seen in ((x, AScal s) :: l, c, sn)
  | (x, VArr r) :: vars' =>
      match assoc r seen with
      | Some i => let '(l, c, sn) := save_vars vars' heap cnt seen in ((x, APtrArr i) :: l, c, sn)
      | None =>
          let i := cnt + 1 in
          let '(l, c, sn) := save_vars vars' heap i ((r, i) :: seen) in
          ((x, ANewArr i (heap_get r heap)) :: l, c, sn)
      end
  end.

Definition save_thread (t : thread) (cnt : N) : athread * N :=
  let '(l, c, _) := save_vars (tenv t) (theap t) cnt [] in
  (mkAThr l (c + 1) (tcode t), c + 1).

Fixpoint find_thread (h : N) (l : list elem) : option thread :=
  match l with
  | [] => None
  | e :: l' => if N.eqb h (th (ethr e)) then Some (ethr e) else find_thread h l'
  end.

(* the threads of one instance in chain order; hm = thread identity -> index *)
Fixpoint save_chain (c : list N) (es : list elem) (cnt : N) (hm : list (N * N))
  : option (list athread * N * list (N * N)) :=
  match c with
  | [] => Some ([], cnt, hm)
  | h :: c' =>
      match find_thread h es with
      | None => None                    (* a live thread that is not waiting in the timer *)
      | Some t =>
          let '(at_, c1) := save_thread t cnt in
          match save_chain c' es c1 ((h, c1) :: hm) with
          | Some (l, c2, hm2) => Some (at_ :: l, c2, hm2)
          | None => None
          end
      end
  end.

Fixpoint save_insts (i : list (list N)) (es : list elem) (cnt : N) (hm : list (N * N))
  : option (list ainst * N * list (N * N)) :=
  match i with
  | [] => Some ([], cnt, hm)
  | c :: i' =>
      match save_chain c es (cnt + 1) hm with
      | None => None
      | Some (ts, c1, hm1) =>
          match save_insts i' es c1 hm1 with
          | Some (l, c2, hm2) => Some (mkAInst (cnt + 1) ts :: l, c2, hm2)
          | None => None
          end
      end
  end.

Fixpoint save_elems (es : list elem) (hm : list (N * N)) : option (list (N * N)) :=
  match es with
  | [] => Some []
  | e :: es' =>
      match assoc (th (ethr e)) hm, save_elems es' hm with
      | Some i, Some l => Some ((i, etime e) :: l)
      | _, _ => None                    (* a timer element whose thread was not positioned *)
      end
  end.

Definition save (s : st) : option archive :=
  match save_insts (insts s) (elems s) 0 [] with
  | None => None
  | Some (ai, cnt, hm) =>
      match save_elems (elems s) hm with
      | None => None
      | Some ae => Some (mkArc cnt ai (dirty s) (mtime s) ae)
      end
  end.

(* ScriptMaster::Reset: every instance and thread is destroyed (the threads leave the
   timer); the timer's time and flag, the clocks stay *)
Definition reset (s : st) : st :=
  mkSt [] [] (mtime s) (dirty s) (scaled s) (lastclk s) (startclk s) (clock s) (nexth s).

Definition load_val (v : aval) : value :=
  match v with AScal s => VScal s | ANewArr i _ => VArr i | APtrArr i => VArr i end.

Fixpoint load_heap (l : list (N * aval)) : list (N * holder) :=
  match l with
  | [] => []
  | (_, ANewArr i o) :: l' => (i, o) :: load_heap l'
  | _ :: l' => load_heap l'
  end.

Definition load_thread (nc : N) (a : athread) : thread :=
  mkThr (a_pos a) (map (fun xv => (fst xv, load_val (snd xv))) (a_vars a))
        (load_heap (a_vars a)) (nc + 1) (a_code a).

Fixpoint find_loaded (i : N) (l : list thread) : option thread :=
  match l with
  | [] => None
  | t :: l' => if N.eqb i (th t) then Some t else find_loaded i l'
  end.

Fixpoint load_elems (ae : list (N * N)) (ts : list thread) : option (list elem) :=
  match ae with
  | [] => Some []
  | (i, t) :: ae' =>
      match find_loaded i ts, load_elems ae' ts with
      | Some x, Some l => Some (mkElem x t :: l)
      | _, _ => None                    (* the fix-up finds no object at this index *)
      end
  end.

(* reading into the engine s0 (after Reset) *)
Definition load (a : archive) (s0 : st) : option st :=
  let nc := a_nclasses a in
  let ts := concat (map (fun ai => map (load_thread nc) (ai_threads ai)) (a_insts a)) in
  match load_elems (a_elems a) ts with
  | None => None
  | Some es =>
      Some (mkSt es
                 (* every loaded instance is linked at the front: the list is reversed *)
                 (rev (map (fun ai => map a_pos (ai_threads ai)) (a_insts a)))
                 (a_mtime a) (a_dirty a) (scaled s0) (lastclk s0) (startclk s0) (clock s0)
                 (nc + 1))
  end.

Definition save_reset_load (s : st) : option st :=
  match save s with
  | Some a => load a (reset s)
  | None => None
  end.
