(* C09/ProofsWf.v — every state between two host operations is saveable: the members of
   the instance chains are exactly the threads waiting in the timer, each once. *)
From Coq Require Import NArith ZArith List Bool Permutation Lia.
From Morfuse Require Import Base.ListX C09.Model C09.Spec.
Import ListNotations.
Local Open Scope N_scope.

(* the invariant while the threads [run] (innermost first) are executing *)
Definition inv (run : list N) (s : st) : Prop :=
  NoDup (concat (insts s)) /\
  Permutation (concat (insts s)) (map eh (elems s) ++ run) /\
  (forall h, In h (concat (insts s)) -> h < nexth s) /\
  Forall (fun e => env_ok (tenv (ethr e)) (nextr s)) (elems s) /\
  heap_ok (heap s) (nextr s).

Lemma wf_inv s : wf s <-> inv [] s.
Proof. unfold wf, inv. now rewrite app_nil_r. Qed.

(* ---------------------------------------------------------------- chains *)
Lemma mem_in h c : mem h c = true <-> In h c.
Proof.
  induction c as [|x c IH]; cbn; [split; [discriminate|tauto]|].
  rewrite orb_true_iff, IH. destruct (N.eqb_spec h x); split; intros [H|H]; auto; try discriminate; subst; tauto.
Qed.

Lemma remove_h_app h l1 l2 : remove_h h (l1 ++ l2) = remove_h h l1 ++ remove_h h l2.
Proof. induction l1 as [|x l1 IH]; cbn; [reflexivity|]. destruct (N.eqb h x); cbn; now rewrite IH. Qed.

Lemma remove_h_notin h l : ~ In h l -> remove_h h l = l.
Proof.
  induction l as [|x l IH]; cbn; [reflexivity|]. intro Hn.
  destruct (N.eqb_spec h x) as [->|Hne]; [tauto|]. rewrite IH; tauto.
Qed.

Lemma remove_h_in h l x : In x (remove_h h l) -> In x l /\ x <> h.
Proof.
  induction l as [|y l IH]; cbn; [tauto|]. destruct (N.eqb_spec h y) as [->|Hne].
  - intro H. apply IH in H. tauto.
  - intros [->|H]; [split; auto|]. apply IH in H. tauto.
Qed.

Lemma remove_h_nodup h l : NoDup l -> NoDup (remove_h h l).
Proof.
  induction 1 as [|x l Hn Hnd IH]; cbn; [constructor|].
  destruct (N.eqb h x); auto. constructor; auto. intro H. apply remove_h_in in H. tauto.
Qed.

Lemma remove_h_perm h l l' : Permutation l l' -> Permutation (remove_h h l) (remove_h h l').
Proof.
  induction 1; cbn.
  - constructor.
  - destruct (N.eqb h x); auto.
  - destruct (N.eqb h x), (N.eqb h y); auto. apply perm_swap.
  - eapply perm_trans; eauto.
Qed.

Lemma concat_filter_nonempty (l : list (list N)) : concat (filter nonempty l) = concat l.
Proof. induction l as [|[|x c] l IH]; cbn; auto. now rewrite IH. Qed.

Lemma concat_end_in h i : concat (end_in h i) = remove_h h (concat i).
Proof.
  unfold end_in. rewrite concat_filter_nonempty.
  induction i as [|c i IH]; cbn; [reflexivity|]. now rewrite remove_h_app, IH.
Qed.

Lemma spawn_in_notin h hc i : ~ In h (concat i) -> spawn_in h hc i = i.
Proof.
  unfold spawn_in. induction i as [|c i IH]; cbn; [reflexivity|]. intro Hn.
  destruct (mem h c) eqn:E.
  - apply mem_in in E. exfalso. apply Hn. apply in_or_app. now left.
  - rewrite IH; [reflexivity|]. intro H. apply Hn. apply in_or_app. now right.
Qed.

Lemma spawn_in_cons h hc c i :
  spawn_in h hc (c :: i) = (if mem h c then hc :: c else c) :: spawn_in h hc i.
Proof. reflexivity. Qed.

Lemma spawn_concat h hc i :
  NoDup (concat i) -> In h (concat i) -> Permutation (concat (spawn_in h hc i)) (hc :: concat i).
Proof.
  induction i as [|c i IH]; [cbn; tauto|]. rewrite spawn_in_cons. cbn [concat]. intros Hnd Hin.
  destruct (mem h c) eqn:E.
  - apply mem_in in E. rewrite spawn_in_notin; [reflexivity|].
    eapply notin_app_l; eauto.
  - assert (Hin' : In h (concat i)).
    { apply in_app_or in Hin. destruct Hin as [H|H]; auto. apply mem_in in H. congruence. }
    eapply perm_trans; [apply Permutation_app_head, IH; auto|].
    + eapply nodup_app_r; eauto.
    + apply Permutation_sym, Permutation_middle.
Qed.

(* ---------------------------------------------------------------- variables, holders *)
Lemma ref_lt_mono v n n' : n <= n' -> ref_lt v n -> ref_lt v n'.
Proof. destruct v; cbn; intros; auto; lia. Qed.

Lemma env_ok_mono env n n' : n <= n' -> env_ok env n -> env_ok env n'.
Proof. intros Hle Hok x v Hin. eapply ref_lt_mono; eauto. Qed.

Lemma heap_ok_mono hp n n' : n <= n' -> heap_ok hp n -> heap_ok hp n'.
Proof. intros Hle Hok r k v Hin. eapply ref_lt_mono; eauto. Qed.

Lemma in_env_set x v env y w : In (y, w) (env_set x v env) -> (y, w) = (x, v) \/ In (y, w) env.
Proof.
  induction env as [|[z u] env IH]; cbn.
  - intros [H|[]]. left. congruence.
  - destruct (N.eqb_spec x z) as [->|Hne]; cbn.
    + intros [H|H]; [left; congruence | right; now right].
    + intros [H|H]; [right; now left|]. apply IH in H. tauto.
Qed.

Lemma env_set_ok x v env n : env_ok env n -> ref_lt v n -> env_ok (env_set x v env) n.
Proof.
  intros Hok Hv y w Hin. apply in_env_set in Hin. destruct Hin as [E|Hin].
  - inversion E; subst. exact Hv.
  - eapply Hok; eauto.
Qed.

Lemma env_get_ok y env n : env_ok env n -> ref_lt (env_get y env) n.
Proof.
  intro Hok. induction env as [|[z u] env IH]; cbn; [exact I|].
  destruct (N.eqb y z).
  - apply (Hok z u). now left.
  - apply IH. intros x v Hin. apply (Hok x v). now right.
Qed.

Definition hold_ok (o : holder) (n : N) : Prop := forall k v, In (k, v) o -> ref_lt v n.

Lemma hold_get_ok k o n : hold_ok o n -> ref_lt (hold_get k o) n.
Proof.
  intro Hok. induction o as [|[j u] o IH]; cbn; [exact I|].
  destruct (key_eqb k j).
  - apply (Hok j u). now left.
  - apply IH. intros x v Hin. apply (Hok x v). now right.
Qed.

Lemma hold_put_ok k v o n : hold_ok o n -> ref_lt v n -> hold_ok (hold_put k v o) n.
Proof.
  intros Hok Hv. induction o as [|[j u] o IH]; cbn.
  - intros x w [E|[]]. inversion E; subst. exact Hv.
  - destruct (key_eqb k j).
    + intros x w [E|Hin]; [inversion E; subst; exact Hv|]. apply (Hok x w). now right.
    + intros x w [E|Hin]; [apply (Hok x w); now left|].
      apply (IH (fun a b H => Hok a b (or_intror H)) x w Hin).
Qed.

Lemma hold_remove_ok k o n : hold_ok o n -> hold_ok (hold_remove k o) n.
Proof.
  intros Hok. induction o as [|[j u] o IH]; cbn; [exact Hok|].
  destruct (key_eqb k j).
  - intros x w Hin. apply (Hok x w). now right.
  - intros x w [E|Hin]; [apply (Hok x w); now left|].
    apply (IH (fun a b H => Hok a b (or_intror H)) x w Hin).
Qed.

Lemma hold_set_ok k v o n : hold_ok o n -> ref_lt v n -> hold_ok (hold_set k v o) n.
Proof.
  intros Hok Hv. unfold hold_set. destruct (is_nil v); [now apply hold_remove_ok | now apply hold_put_ok].
Qed.

Lemma heap_get_set r q o hp : heap_get q (heap_set r o hp) = if N.eqb q r then o else heap_get q hp.
Proof.
  induction hp as [|[p o'] hp IH]; cbn.
  - destruct (N.eqb q r); reflexivity.
  - destruct (N.eqb_spec r p) as [->|Hrp]; cbn.
    + destruct (N.eqb q p); reflexivity.
    + rewrite IH. destruct (N.eqb_spec q p) as [->|Hqp]; [|reflexivity].
      destruct (N.eqb_spec p r); [congruence|reflexivity].
Qed.

Lemma heap_ok_set r o hp n : heap_ok hp n -> hold_ok o n -> heap_ok (heap_set r o hp) n.
Proof.
  intros Hh Ho q k v. rewrite heap_get_set. destruct (N.eqb q r); [apply Ho | apply Hh].
Qed.

Lemma heap_ok_alloc o hp n : heap_ok hp n -> hold_ok o (n + 1) -> heap_ok ((n, o) :: hp) (n + 1).
Proof.
  intros Hh Ho q k v. cbn. destruct (N.eqb q n); [apply Ho|].
  intro Hin. eapply ref_lt_mono; [|eapply Hh; eauto]. lia.
Qed.

Lemma number_from_ok k l n : (forall v, In v l -> ref_lt v n) -> hold_ok (number_from k l) n.
Proof.
  revert k. induction l as [|v l IH]; intros k Hl; cbn; [intros ? ? []|].
  intros j w [E|Hin]; [inversion E; subst; apply Hl; now left|].
  eapply IH; [|exact Hin]. intros u Hu. apply Hl. now right.
Qed.

Lemma params_from_ok k l n : (forall v, In v l -> ref_lt v n) -> env_ok (params_from k l) n.
Proof.
  revert k. induction l as [|v l IH]; intros k Hl; cbn; [intros ? ? []|].
  intros j w [E|Hin]; [inversion E; subst; apply Hl; now left|].
  eapply IH; [|exact Hin]. intros u Hu. apply Hl. now right.
Qed.

(* the data part of the invariant *)
Definition dinv (s : st) : Prop :=
  Forall (fun e => env_ok (tenv (ethr e)) (nextr s)) (elems s) /\ heap_ok (heap s) (nextr s).

Lemma dinv_alloc s o : dinv s -> hold_ok o (nextr s + 1) -> dinv (alloc s o).
Proof.
  intros [He Hh] Ho. split; cbn.
  - eapply Forall_impl; [|exact He]. cbn. intros e H. eapply env_ok_mono; [|exact H]. lia.
  - now apply heap_ok_alloc.
Qed.

Lemma store_elem_wf s env x k v :
  dinv s -> env_ok env (nextr s) -> ref_lt v (nextr s) ->
  let s' := fst (store_elem s env x k v) in
  dinv s' /\ env_ok (snd (store_elem s env x k v)) (nextr s') /\ nextr s <= nextr s' /\
  elems s' = elems s /\ insts s' = insts s /\ nexth s' = nexth s.
Proof.
  intros [He Hh] Henv Hv. unfold store_elem.
  pose proof (env_get_ok x env _ Henv) as Hx.
  destruct (env_get x env) as [[]|r|r]; cbn [fst snd].
  - (* nil *) split; [|split; [|split; [cbn; lia|cbn; auto]]].
    + apply dinv_alloc; [split; auto|]. apply hold_set_ok; [intros ? ? []|].
      eapply ref_lt_mono; [|exact Hv]. lia.
    + cbn. apply env_set_ok; [eapply env_ok_mono; [|exact Henv]; lia | cbn; lia].
  - repeat split; auto; lia.
  - repeat split; auto; lia.
  - repeat split; auto; lia.
  - repeat split; auto; lia.
  - split; [|split; [|split; [cbn; lia|cbn; auto]]]; [|exact Henv].
    split; cbn; [exact He|]. apply heap_ok_set; auto. apply hold_set_ok; auto. intros j w. apply Hh.
  - destruct (hold_mem k (heap_get r (heap s))); [|repeat split; auto; lia].
    split; [|split; [|split; [cbn; lia|cbn; auto]]]; [|exact Henv].
    split; cbn; [exact He|]. apply heap_ok_set; auto. apply hold_put_ok; auto. intros j w. apply Hh.
Qed.

Lemma load_elem_ok s env x k : dinv s -> env_ok env (nextr s) -> ref_lt (load_elem s env x k) (nextr s).
Proof.
  intros [_ Hh] Henv. unfold load_elem. destruct (env_get x env); [exact I| |]; apply hold_get_ok; intros j w; apply Hh.
Qed.

(* ---------------------------------------------------------------- running a thread *)
Lemma psize_pos p : (1 <= psize p)%nat.
Proof. destruct p as [|[] p]; cbn; lia. Qed.

Definition code_wf (n : nat) : Prop :=
  forall p, (psize p <= n)%nat ->
  forall s h env log run,
    inv (h :: run) s -> env_ok env (nextr s) ->
    inv run (fst (run_code p s h env log)) /\ nextr s <= nextr (fst (run_code p s h env log)).

Lemma inv_data run s s' :
  inv run s -> dinv s' -> elems s' = elems s -> insts s' = insts s -> nexth s' = nexth s -> inv run s'.
Proof.
  intros (Hnd & Hp & Hb & _ & _) [He Hh] E1 E2 E3. unfold inv. rewrite E1, E2, E3.
  rewrite E1 in He. repeat split; auto.
Qed.

Lemma run_code_wf_n : forall n, code_wf n.
Proof.
  induction n as [|n IHn]; intros p Hsz.
  { pose proof (psize_pos p). lia. }
  intros s h env log run Hinv Henv.
  pose proof Hinv as (Hnd & Hp & Hb & Hok & Hhp).
  assert (Hd : dinv s) by (split; auto).
  assert (HndE : NoDup (map eh (elems s) ++ h :: run)) by (eapply Permutation_NoDup; eauto).
  destruct p as [|i p'].
  { (* the thread ends *)
    cbn. split; [|lia]. unfold inv. cbn. rewrite concat_end_in. split; [|split; [|split; [|split]]].
    - now apply remove_h_nodup.
    - eapply perm_trans; [apply remove_h_perm; exact Hp|].
      rewrite remove_h_app. cbn. rewrite N.eqb_refl.
      rewrite !remove_h_notin; [reflexivity| |].
      + apply NoDup_remove_2 in HndE. intro H. apply HndE. apply in_or_app. now right.
      + apply NoDup_remove_2 in HndE. intro H. apply HndE. apply in_or_app. now left.
    - intros x Hx. apply remove_h_in in Hx. now apply Hb.
    - exact Hok.
    - exact Hhp. }
  destruct i as [m|d|x v|x k v|x k y|y x k|x y|x l|x|x k|x|args q]; cbn in Hsz.
  - cbn. apply IHn; [lia|exact Hinv|exact Henv].
  - (* wait *)
    cbn. split; [|lia]. unfold inv. cbn. split; [exact Hnd|]. split; [|split; [|split]].
    + rewrite map_app. cbn. rewrite <- app_assoc. exact Hp.
    + exact Hb.
    + apply Forall_app. split; [exact Hok|]. constructor; [|constructor]. exact Henv.
    + exact Hhp.
  - cbn. apply IHn; [lia|exact Hinv|]. apply env_set_ok; auto. exact I.
  - cbn. pose proof (store_elem_wf s env x k (VScal v) Hd Henv I) as (Hd' & He' & Hle & E1 & E2 & E3).
    destruct (store_elem s env x k (VScal v)) as [s1 env1]. cbn in *.
    destruct (IHn p' ltac:(lia) s1 h env1 log run) as [H1 H2]; [eapply inv_data; eauto|exact He'|].
    split; [exact H1|lia].
  - cbn. pose proof (store_elem_wf s env x k (env_get y env) Hd Henv (env_get_ok y env _ Henv)) as (Hd' & He' & Hle & E1 & E2 & E3).
    destruct (store_elem s env x k (env_get y env)) as [s1 env1]. cbn in *.
    destruct (IHn p' ltac:(lia) s1 h env1 log run) as [H1 H2]; [eapply inv_data; eauto|exact He'|].
    split; [exact H1|lia].
  - cbn. apply IHn; [lia|exact Hinv|]. apply env_set_ok; auto. now apply load_elem_ok.
  - cbn. apply IHn; [lia|exact Hinv|]. apply env_set_ok; auto. now apply env_get_ok.
  - (* local.x = c1::c2 *)
    cbn.
    assert (Hd' : dinv (alloc s (number_from 1 (map (cval_get env) l)))).
    { apply dinv_alloc; auto. apply number_from_ok. intros v Hin. apply in_map_iff in Hin.
      destruct Hin as ([sc|y] & <- & _); cbn; [exact I|].
      eapply ref_lt_mono; [|apply env_get_ok; exact Henv]. lia. }
    destruct (IHn p' ltac:(lia) (alloc s (number_from 1 (map (cval_get env) l))) h
                  (env_set x (VCon (nextr s)) env) log run) as [H1 H2].
    + eapply inv_data; eauto.
    + cbn. apply env_set_ok; [eapply env_ok_mono; [|exact Henv]; lia | cbn; lia].
    + split; [exact H1|]. cbn in H2. lia.
  - cbn. apply IHn; [lia|exact Hinv|exact Henv].
  - cbn. apply IHn; [lia|exact Hinv|exact Henv].
  - cbn. apply IHn; [lia|exact Hinv|exact Henv].
  - (* thread q *)
    cbn.
    set (s1 := mkSt (elems s) (spawn_in h (nexth s) (insts s)) (heap s) (mtime s) (dirty s) (scaled s)
                    (lastclk s) (startclk s) (clock s) (nexth s + 1) (nextr s)).
    assert (Hh : In h (concat (insts s))).
    { eapply Permutation_in; [apply Permutation_sym; exact Hp|]. apply in_or_app. right. now left. }
    pose proof (spawn_concat h (nexth s) (insts s) Hnd Hh) as Hsp.
    assert (Hfresh : ~ In (nexth s) (concat (insts s))).
    { intro H. apply Hb in H. lia. }
    assert (Hinv1 : inv (nexth s :: h :: run) s1).
    { unfold inv, s1. cbn. split; [|split; [|split; [|split]]].
      - eapply Permutation_NoDup; [apply Permutation_sym; exact Hsp|]. constructor; auto.
      - eapply perm_trans; [exact Hsp|]. eapply perm_trans; [apply perm_skip; exact Hp|].
        apply Permutation_middle.
      - intros x Hx. eapply Permutation_in in Hx; [|exact Hsp]. destruct Hx as [<-|Hx]; [lia|].
        apply Hb in Hx. lia.
      - exact Hok.
      - exact Hhp. }
    assert (Hq : (psize q <= n)%nat) by lia.
    destruct (IHn q Hq s1 (nexth s) (params_from 101 (map (fun y => env_get y env) args)) log (h :: run) Hinv1) as [H2 H2'].
    { apply params_from_ok. intros v Hin. apply in_map_iff in Hin. destruct Hin as (y & <- & _).
      now apply env_get_ok. }
    destruct (run_code q s1 (nexth s) _ log) as [s2 log2]. cbn in H2, H2'.
    destruct (IHn p' ltac:(lia) s2 h env log2 run H2) as [H3 H3'].
    { eapply env_ok_mono; [|exact Henv]. exact H2'. }
    split; [exact H3|]. unfold s1 in H2'. cbn in H2'. lia.
Qed.

Lemma run_thread_wf s t log run :
  inv (th t :: run) s -> env_ok (tenv t) (nextr s) -> inv run (fst (run_thread s t log)).
Proof. intros Hi Hok. unfold run_thread. apply (run_code_wf_n (psize (tcode t))); auto. Qed.

(* ---------------------------------------------------------------- the timer *)
Lemma scan_pos : forall rl i best f j,
  length rl = i -> scan rl i best f = Some j -> f = Some j \/ (1 <= j <= i)%nat.
Proof.
  induction rl as [|t rl IH]; cbn; intros i best f j Hl Hs; [now left|].
  destruct i as [|i]; [discriminate|]. cbn in Hs. injection Hl as Hl.
  destruct (t <=? best).
  - destruct (IH i t (Some (S i)) j Hl Hs) as [E|H]; [inversion E; right; lia | right; lia].
  - destruct (IH i best f j Hl Hs) as [E|H]; [now left | right; lia].
Qed.

Lemma remove_at_perm {A} (l : list A) i e :
  (1 <= i)%nat -> nth_error l (pred i) = Some e -> Permutation l (remove_at l i ++ [e]).
Proof.
  revert i. induction l as [|x l IH]; intros [|[|i]] Hi Hn; cbn in *; try lia; try discriminate.
  - inversion Hn; subst. apply Permutation_cons_append.
  - constructor. apply (IH (S i)); [lia|exact Hn].
Qed.

Lemma remove_at_incl {A} (l : list A) i x : In x (remove_at l i) -> In x l.
Proof.
  revert i. induction l as [|y l IH]; intros [|[|i]]; cbn; auto.
  intros [H|H]; [now left|right]. eapply IH; eauto.
Qed.

Lemma get_next_wf s e s1 :
  inv [] s -> get_next s = Some (e, s1) -> inv [eh e] s1 /\ env_ok (tenv (ethr e)) (nextr s1).
Proof.
  intros (Hnd & Hp & Hb & Hok & Hhp) Hg. unfold get_next in Hg.
  destruct (scan _ _ _ _) as [i|] eqn:Es; [|discriminate].
  destruct (nth_error (elems s) (pred i)) as [e'|] eqn:En; [|discriminate].
  inversion Hg; subst e' s1. clear Hg.
  apply scan_pos in Es; [|now rewrite rev_length, map_length].
  destruct Es as [E|[Hi _]]; [discriminate|].
  pose proof (remove_at_perm _ _ _ Hi En) as Hperm.
  split.
  - unfold inv. cbn. split; [exact Hnd|]. split; [|split; [|split]].
    + rewrite app_nil_r in Hp. eapply perm_trans; [exact Hp|].
      change ([eh e]) with (map eh [e]). rewrite <- map_app. now apply Permutation_map.
    + exact Hb.
    + rewrite Forall_forall in *. intros x Hx. apply Hok. eapply remove_at_incl; eauto.
    + exact Hhp.
  - cbn. rewrite Forall_forall in Hok. apply Hok. eapply nth_error_In; eauto.
Qed.

Lemma exec_loop_wf fuel : forall s log s' log',
  inv [] s -> exec_loop fuel s log = Some (s', log') -> inv [] s'.
Proof.
  induction fuel as [|f IH]; intros s log s' log' Hi He; cbn in He.
  - destruct (get_next s) as [[e s1]|]; [discriminate|]. inversion He; subst. exact Hi.
  - destruct (get_next s) as [[e s1]|] eqn:Eg.
    + destruct (get_next_wf s e s1 Hi Eg) as [Hi1 Hok].
      pose proof (run_thread_wf s1 (ethr e) log [] Hi1 Hok) as Hi2.
      destruct (run_thread s1 (ethr e) log) as [s2 log2]. eapply IH; eauto.
    + inversion He; subst. exact Hi.
Qed.

Lemma execute_running_wf fuel s log s' log' :
  inv [] s -> execute_running fuel s log = Some (s', log') -> inv [] s'.
Proof.
  unfold execute_running. destruct (dirty s); intros Hi He.
  - eapply exec_loop_wf; eauto.
  - inversion He; subst. exact Hi.
Qed.

Theorem step_wf s o s' ob : wf s -> step s o = Some (s', ob) -> wf s'.
Proof.
  rewrite !wf_inv. intros Hi Hs. destruct o as [p|dt|]; cbn [step] in Hs.
  - set (s0 := mkSt (elems s) ([nexth s] :: insts s) (heap s) (mtime s) (dirty s) (scaled s) (lastclk s)
                    (startclk s) (clock s) (nexth s + 1) (nextr s)) in *.
    assert (Hi0 : inv [nexth s] s0).
    { destruct Hi as (Hnd & Hp & Hb & Hok & Hhp). unfold inv, s0. cbn. split; [|split; [|split; [|split]]].
      - constructor; auto. intro H. apply Hb in H. lia.
      - rewrite app_nil_r in Hp. eapply perm_trans; [apply perm_skip; exact Hp|].
        apply Permutation_cons_append.
      - intros h [<-|H]; [lia|]. apply Hb in H. lia.
      - exact Hok.
      - exact Hhp. }
    destruct (run_code_wf_n (psize p) p (le_n _) s0 (nexth s) [] [] [] Hi0) as [H1 _].
    { intros ? ? []. }
    destruct (run_code p s0 (nexth s) [] []) as [s1 log]. cbn in H1.
    destruct (execute_running (weight s1) s1 log) as [[s2 log2]|] eqn:Ee; [|discriminate].
    inversion Hs; subst. eapply execute_running_wf; [|exact Ee]. exact H1.
  - inversion Hs; subst. destruct Hi as (Hnd & Hp & Hb & Hok & Hhp). unfold inv. cbn. tauto.
  - match type of Hs with context [execute_running ?f ?x []] => destruct (execute_running f x []) as [[s2 log2]|] eqn:Ee end;
      [|discriminate].
    inversion Hs; subst. eapply execute_running_wf; [|exact Ee].
    destruct Hi as (Hnd & Hp & Hb & Hok & Hhp). unfold inv. cbn. tauto.
Qed.

Lemma wf_init c : wf (init c).
Proof.
  unfold wf, init. cbn. split; [constructor|]. split; [constructor|]. split; [intros h []|].
  split; [constructor|]. intros r k v [].
Qed.

Theorem reach_wf s ops s' : wf s -> state_after s ops = Some s' -> wf s'.
Proof.
  revert s. induction ops as [|o ops IH]; intros s Hw Hs; cbn in Hs.
  - inversion Hs; subst. exact Hw.
  - destruct (step s o) as [[s1 ob]|] eqn:E; [|discriminate].
    eapply IH; [|exact Hs]. eapply step_wf; eauto.
Qed.
