(* C09/Properties.v — the property theorems of C09, and nothing else.
   Every theorem is closed by [exact <lemma>] and followed by Print Assumptions.
   Scope of the model (C09/Model.v): threads with timed waits, `thread label`, locals that
   are nil / integer / string / float bits / object reference / array of scalars shared by
   reference.  waittill/notify, events, group and level variables, nested arrays are NOT in
   the model; for them the property is only sampled on the real engine (props/C09.py). *)
From Coq Require Import NArith ZArith List Bool.
From Morfuse Require Import C09.Model C09.Spec C09.ProofsIso C09.ProofsSave C09.ProofsWf C09.Proofs.
Import ListNotations.
Local Open Scope N_scope.

(* load_save_iso.  For EVERY saveable state (wf: the members of the instance chains are
   exactly the threads waiting in the timer, each once; identities below the counters)
   saving succeeds, loading the archive into the reset engine succeeds, and the loaded
   state is isomorphic to the saved one: equal up to (1) the renaming of thread identities
   to their archive indices, (2) per thread the renaming of array-holder identities to
   their archive indices (holders no variable reaches are dropped), (3) the order of the
   instance list, which the loader REVERSES (every loaded instance is linked at the front);
   kept exactly: timer list order and due times, chain order, code positions, variable
   lists, scalars, which variables share a holder, holder contents, timer time, dirty flag,
   clocks (C09/Spec.v: iso). *)
Theorem C09_save_reset_load_gives_an_isomorphic_state :
  forall s : st, wf s ->
    exists (a : archive) (s' : st), save s = Some a /\ load a (reset s) = Some s' /\ iso s s'.
Proof. exact load_save_iso. Qed.
Print Assumptions C09_save_reset_load_gives_an_isomorphic_state.

(* iso_behaviour.  Isomorphic states cannot be told apart by any continuation: the same
   prints in the same order, the same idle and waiting flags, the same out-of-fuel
   verdicts, for every list of host operations. *)
Theorem C09_isomorphic_states_behave_alike :
  forall s1 s2 : st, iso s1 s2 -> forall ops : list op, run_from s1 ops = run_from s2 ops.
Proof. exact iso_behaviour. Qed.
Print Assumptions C09_isomorphic_states_behave_alike.

Theorem C09_every_operation_keeps_states_isomorphic :
  forall (s1 s2 : st) (o : op), iso s1 s2 ->
    match step s1 o, step s2 o with
    | Some (s1', o1), Some (s2', o2) => iso s1' s2' /\ o1 = o2
    | None, None => True
    | _, _ => False
    end.
Proof. exact step_iso. Qed.
Print Assumptions C09_every_operation_keeps_states_isomorphic.

(* Every state the engine model reaches between two host operations is saveable. *)
Theorem C09_states_between_operations_are_saveable :
  forall (c : N) (ops : list op) (s : st), state_after (init c) ops = Some s -> wf s.
Proof. exact reachable_wf. Qed.
Print Assumptions C09_states_between_operations_are_saveable.

Theorem C09_every_operation_keeps_states_saveable :
  forall (s : st) (o : op) (s' : st) (ob : obs), wf s -> step s o = Some (s', ob) -> wf s'.
Proof. exact step_wf. Qed.
Print Assumptions C09_every_operation_keeps_states_saveable.

(* save_load_transparent.  For every history ops1, every save point (= the state after
   ops1) and every continuation ops2: save / reset / load succeeds and the observations of
   the uninterrupted run ops1 ++ ops2 are those of ops1 followed by those of ops2 run from
   the LOADED state. *)
Theorem C09_save_reset_load_is_transparent :
  forall (c : N) (ops1 ops2 : list op) (s : st),
    state_after (init c) ops1 = Some s ->
    exists s' : st, save_reset_load s = Some s' /\
      run_from (init c) (ops1 ++ ops2) = run_from (init c) ops1 ++ run_from s' ops2.
Proof. exact save_load_transparent. Qed.
Print Assumptions C09_save_reset_load_is_transparent.

(* ... and the final states (all variables, pending timers) are isomorphic too. *)
Theorem C09_final_states_are_isomorphic :
  forall (c : N) (ops1 ops2 : list op) (s : st),
    state_after (init c) ops1 = Some s ->
    exists s' : st, save_reset_load s = Some s' /\
      match state_after (init c) (ops1 ++ ops2), state_after s' ops2 with
      | Some a, Some b => iso a b
      | None, None => True
      | _, _ => False
      end.
Proof. exact save_load_final_states. Qed.
Print Assumptions C09_final_states_are_isomorphic.

(* A loaded state (any state isomorphic to a saveable one) is saveable again: the theorems
   apply to every later save point as well. *)
Theorem C09_an_isomorphic_state_is_saveable_again :
  forall s1 s2 : st, iso s1 s2 -> wf s1 -> wf s2.
Proof. exact iso_wf. Qed.
Print Assumptions C09_an_isomorphic_state_is_saveable_again.

(* Non-vacuity.  Script A prints 1, makes local.4 an array {1: 7}, local.5 = local.4 (the
   same holder), starts a thread in its own instance (prints 2, waits 1, prints 3), waits 2,
   then writes local.5[2] = 9 and prints local.4[2]; script B holds an EMPTY string, waits 3
   and prints it.  Saved right after both were started: three threads wait (identities 2, 1
   in A's chain, 3), the holder has identity 1. *)
Definition exA : prog :=
  PSeq (IPrint 1) (PSeq (ISetElem 4 1 (SInt 7)) (PSeq (ICopy 5 4)
  (PSeq (IThread (PSeq (IPrint 2) (PSeq (IWait 1) (PSeq (IPrint 3) PEnd))))
  (PSeq (IWait 2) (PSeq (ISetElem 5 2 (SInt 9)) (PSeq (IPrintElem 4 2) PEnd)))))).
Definition exB : prog := PSeq (ISet 1 (SStr [])) (PSeq (IWait 3) (PSeq (IPrintVar 1) PEnd)).
Definition ex1 : list op := [OStart exA; OStart exB].
Definition ex2 : list op := [OAdvance 1; OExecute; OAdvance 1; OExecute; OAdvance 1; OExecute].
Definition show (o : option obs) := option_map (fun o => (prints o, idle o, waiting o)) o.

(* the archive: instances in list order (B first), A's threads in chain order, the second
   variable of A's main thread is a pointer to the holder positioned by the first *)
Example C09_archive_example :
  match state_after (init 1000) ex1 with Some s => save s | None => None end =
  Some (mkArc 6
          [ mkAInst 1 [ mkAThr [(1, AScal (SStr []))] 2 (PSeq (IPrintVar 1) PEnd) ];
            mkAInst 3 [ mkAThr [] 4 (PSeq (IPrint 3) PEnd);
                        mkAThr [(4, ANewArr 5 [(1%Z, SInt 7)]); (5, APtrArr 5)] 6
                               (PSeq (ISetElem 5 2 (SInt 9)) (PSeq (IPrintElem 4 2) PEnd)) ] ]
          false 0 [(4, 1); (6, 2); (2, 3)]).
Proof. vm_compute. reflexivity. Qed.

(* the loaded state: instance list reversed, chain order and timer order kept, the two
   variables share the loaded holder; and the continuation behaves as the uninterrupted run
   (local.4[2] = 9 through the shared holder, the empty string is printed as such) *)
Example C09_loaded_state_example :
  match state_after (init 1000) ex1 with
  | Some s =>
      option_map (fun s' => (insts s, insts s',
                             map (fun e => (th (ethr e), etime e, tenv (ethr e), theap (ethr e))) (elems s'),
                             map show (run_from s' ex2))) (save_reset_load s)
  | None => None
  end =
  Some ([[3]; [2; 1]], [[4; 6]; [2]],
        [ (4, 1, [], []);
          (6, 2, [(4, VArr 5); (5, VArr 5)], [(5, [(1%Z, SInt 7)])]);
          (2, 3, [(1, VScal (SStr []))], []) ],
        [ Some ([], false, true); Some ([PMark 3], false, true);
          Some ([], false, true); Some ([PVal (SInt 9)], false, true);
          Some ([], false, true); Some ([PVal (SStr [])], true, false) ]).
Proof. vm_compute. reflexivity. Qed.

Example C09_uninterrupted_run_example :
  map show (run_from (init 1000) (ex1 ++ ex2)) =
  [ Some ([PMark 1; PMark 2], false, true); Some ([], false, true);
    Some ([], false, true); Some ([PMark 3], false, true);
    Some ([], false, true); Some ([PVal (SInt 9)], false, true);
    Some ([], false, true); Some ([PVal (SStr [])], true, false) ].
Proof. vm_compute. reflexivity. Qed.
