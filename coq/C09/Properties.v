(* C09/Properties.v — the property theorems of C09 (under construction). *)
From Coq Require Import NArith ZArith List Bool.
From Morfuse Require Import C09.Model.
Import ListNotations.
Local Open Scope N_scope.

Example C09_smoke : run [OStart (PSeq (IPrint 1) PEnd)] = [Some (mkObs [PMark 1] true false)].
Proof. vm_compute. reflexivity. Qed.
