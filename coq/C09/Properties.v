(* C09/Properties.v — the property theorems of C09, and nothing else.
   Every theorem is closed by [exact <lemma>] and followed by Print Assumptions.
   Scope of the model (C09/Model.v): threads with timed waits, `thread label args`, locals
   that are nil / integer / string / float bits / object reference / reference to a dynamic
   or a constant array; one heap of holders whose slots hold values again (arrays of arrays,
   constant inside dynamic and vice versa, self-containing holders), shared by reference
   between variables, holders and threads (thread arguments).  waittill/notify, events,
   group / level / game variables are NOT in the model; for them the property is only
   sampled on the real engine (props/C09.py). *)
From Coq Require Import NArith ZArith List Bool.
From Morfuse Require Import C09.Model C09.Spec C09.ProofsIso C09.ProofsSave C09.ProofsWf C09.Proofs.
Import ListNotations.
Local Open Scope N_scope.

(* load_save_iso.  For EVERY saveable state (wf: the members of the instance chains are
   exactly the threads waiting in the timer, each once; identities in variables and inside
   holders below the counters) saving succeeds (the writer's recursion never runs out of
   fuel, also on holders that contain themselves), loading the archive into the reset
   engine succeeds, and the loaded state is isomorphic to the saved one: equal up to (1)
   the renaming of thread identities to their archive indices, (2) ONE renaming of holder
   identities - dynamic and constant arrays alike - to their archive indices (holders that
   nothing reaches are dropped), (3) the order of the instance list, which the loader
   REVERSES (every loaded instance is linked at the front); kept exactly: timer list order
   and due times, chain order, code positions, variable lists, scalars, the kind of every
   array reference, WHICH variables / holder slots of WHICH threads share a holder (every
   sharing class of either kind), holder contents, timer time, dirty flag, clocks
   (C09/Spec.v: iso).  Every reference inside a loaded holder is below the new counter. *)
Theorem C09_save_reset_load_gives_an_isomorphic_state :
  forall s : st, wf s ->
    exists (a : archive) (s' : st), save s = Some a /\ load a (reset s) = Some s' /\ iso s s' /\
                                    heap_ok (heap s') (nextr s').
Proof. exact load_save_iso. Qed.
Print Assumptions C09_save_reset_load_gives_an_isomorphic_state.

(* iso_behaviour.  Isomorphic states cannot be told apart by any continuation: the same
   prints in the same order (also of elements reached through any alias of a holder, after
   stores through any other alias), the same idle and waiting flags, the same out-of-fuel
   verdicts, for every list of host operations. *)
Theorem C09_isomorphic_states_behave_alike :
  forall s1 s2 : st, iso s1 s2 -> forall ops : list op, run_from s1 ops = run_from s2 ops.
Proof. exact iso_behaviour. Qed.
Print Assumptions C09_isomorphic_states_behave_alike.

Theorem C09_every_operation_keeps_states_isomorphic :
  forall (s1 s2 : st) (o : op), iso s1 s2 ->
    match step s1 o, step s2 o with
    | Some (s1', o1), Some (s2', o2) => iso s1' s2' /\ o1 = o2
    | None, None => True
    | _, _ => False
    end.
Proof. exact step_iso. Qed.
Print Assumptions C09_every_operation_keeps_states_isomorphic.

(* Every state the engine model reaches between two host operations is saveable. *)
Theorem C09_states_between_operations_are_saveable :
  forall (c : N) (ops : list op) (s : st), state_after (init c) ops = Some s -> wf s.
Proof. exact reachable_wf. Qed.
Print Assumptions C09_states_between_operations_are_saveable.

Theorem C09_every_operation_keeps_states_saveable :
  forall (s : st) (o : op) (s' : st) (ob : obs), wf s -> step s o = Some (s', ob) -> wf s'.
Proof. exact step_wf. Qed.
Print Assumptions C09_every_operation_keeps_states_saveable.

(* save_load_transparent.  For every history ops1, every save point (= the state after
   ops1) and every continuation ops2: save / reset / load succeeds and the observations of
   the uninterrupted run ops1 ++ ops2 are those of ops1 followed by those of ops2 run from
   the LOADED state. *)
Theorem C09_save_reset_load_is_transparent :
  forall (c : N) (ops1 ops2 : list op) (s : st),
    state_after (init c) ops1 = Some s ->
    exists s' : st, save_reset_load s = Some s' /\
      run_from (init c) (ops1 ++ ops2) = run_from (init c) ops1 ++ run_from s' ops2.
Proof. exact save_load_transparent. Qed.
Print Assumptions C09_save_reset_load_is_transparent.

(* ... and the final states (all variables, holders, pending timers) are isomorphic too. *)
Theorem C09_final_states_are_isomorphic :
  forall (c : N) (ops1 ops2 : list op) (s : st),
    state_after (init c) ops1 = Some s ->
    exists s' : st, save_reset_load s = Some s' /\
      match state_after (init c) (ops1 ++ ops2), state_after s' ops2 with
      | Some a, Some b => iso a b
      | None, None => True
      | _, _ => False
      end.
Proof. exact save_load_final_states. Qed.
Print Assumptions C09_final_states_are_isomorphic.

(* The loaded state is saveable again: the theorems apply to every later save point too. *)
Theorem C09_the_loaded_state_is_saveable_again :
  forall s : st, wf s -> exists s' : st, save_reset_load s = Some s' /\ iso s s' /\ wf s'.
Proof. exact loaded_state_wf. Qed.
Print Assumptions C09_the_loaded_state_is_saveable_again.

(* iso transports saveability except for the bound on holders that nothing reaches (iso
   ignores them). *)
Theorem C09_an_isomorphic_state_is_saveable :
  forall s1 s2 : st, iso s1 s2 -> wf s1 -> heap_ok (heap s2) (nextr s2) -> wf s2.
Proof. exact iso_wf. Qed.
Print Assumptions C09_an_isomorphic_state_is_saveable.

(* Non-vacuity.  Script A: local.7 = 10::20::30 (a constant array), local.8 = local.7 (the
   same holder), local.4[-7] = 1 (a NEGATIVE key), local.4[40] = local.4 (the dynamic array contains itself),
   local.4["waypoint_alpha_3"] = local.7 (a constant array inside a dynamic one, under a long STRING key); it starts a thread of its
   own instance with the ARGUMENTS local.4 local.7 (parameters local.101 local.102: the same
   two holders) that waits 1, stores local.102[1] = 111, prints local.102[2], waits 2 and
   prints local.101[5]; A itself waits 2, stores local.7[2] = 99 and local.4[5] = 55 and
   prints local.8[2], local.8[1] and local.4.size.  Script B holds an EMPTY string, waits 3, prints it.
   Saved right after both were started: three threads wait; holder 1 (constant) is reached
   from 5 places in 2 threads and 1 holder, holder 2 (dynamic) from 3 places incl. itself. *)
Definition exKey : key := KStr [119; 97; 121; 112; 111; 105; 110; 116; 95; 97; 108; 112; 104; 97; 95; 51].   (* "waypoint_alpha_3" *)
Definition exChild : prog :=
  PSeq (IWait 1) (PSeq (ISetElem 102 (KInt 1) (SInt 111)) (PSeq (IPrintElem 102 (KInt 2))
  (PSeq (IWait 2) (PSeq (IPrintElem 101 (KInt 5)) PEnd)))).
Definition exA : prog :=
  PSeq (IConst 7 [CLit (SInt 10); CLit (SInt 20); CLit (SInt 30)]) (PSeq (ICopy 8 7)
  (PSeq (ISetElem 4 (KInt (-7)) (SInt 1)) (PSeq (ISetElemVar 4 (KInt 40) 4) (PSeq (ISetElemVar 4 exKey 7)
  (PSeq (IThread [4; 7] exChild) (PSeq (IWait 2) (PSeq (ISetElem 7 (KInt 2) (SInt 99))
  (PSeq (ISetElem 4 (KInt 5) (SInt 55)) (PSeq (IPrintElem 8 (KInt 2)) (PSeq (IPrintElem 8 (KInt 1))
  (PSeq (IPrintSize 4) PEnd))))))))))).
Definition exB : prog := PSeq (ISet 1 (SStr [])) (PSeq (IWait 3) (PSeq (IPrintVar 1) PEnd)).
Definition ex1 : list op := [OStart exA; OStart exB].
Definition ex2 : list op := [OAdvance 1; OExecute; OAdvance 1; OExecute; OAdvance 1; OExecute].
Definition show (o : option obs) := option_map (fun o => (prints o, idle o, waiting o)) o.

(* the archive: instances in list order (B first), A's threads in chain order (the child
   first); the dynamic holder is written at its first occurrence (index 4) and contains a
   POINTER to itself and, nested, the constant holder (index 5); every other occurrence in
   either thread is a pointer *)
Example C09_archive_example :
  match state_after (init 1000) ex1 with Some s => save s | None => None end =
  Some (mkArc 7
          [ mkAInst 1 [ mkAThr (ACons (KInt 1) (AScal (SStr [])) ANil) 2 (PSeq (IPrintVar 1) PEnd) ];
            mkAInst 3 [ mkAThr (ACons (KInt 101) (ANew false 4 (ACons (KInt (-7)) (AScal (SInt 1)) (ACons (KInt 40) (APtr false 4)
                                   (ACons exKey (ANew true 5 (ACons (KInt 1) (AScal (SInt 10)) (ACons (KInt 2) (AScal (SInt 20))
                                                           (ACons (KInt 3) (AScal (SInt 30)) ANil)))) ANil))))
                                (ACons (KInt 102) (APtr true 5) ANil)) 6
                               (PSeq (ISetElem 102 (KInt 1) (SInt 111)) (PSeq (IPrintElem 102 (KInt 2))
                                (PSeq (IWait 2) (PSeq (IPrintElem 101 (KInt 5)) PEnd))));
                        mkAThr (ACons (KInt 7) (APtr true 5) (ACons (KInt 8) (APtr true 5) (ACons (KInt 4) (APtr false 4) ANil))) 7
                               (PSeq (ISetElem 7 (KInt 2) (SInt 99)) (PSeq (ISetElem 4 (KInt 5) (SInt 55))
                                (PSeq (IPrintElem 8 (KInt 2)) (PSeq (IPrintElem 8 (KInt 1)) (PSeq (IPrintSize 4) PEnd))))) ] ]
          false 0 [(6, 1); (7, 2); (2, 3)]).
Proof. vm_compute. reflexivity. Qed.

(* the loaded state: instance list reversed, chain order and timer order kept, both sharing
   classes rebuilt (holders 4 and 5); the continuation behaves as the uninterrupted run: the
   child's store through local.102 is read by A through local.8, A's store through local.7 by
   the child through local.102, A's store through local.4 by the child through local.101 *)
Example C09_loaded_state_example :
  match state_after (init 1000) ex1 with
  | Some s =>
      option_map (fun s' => (insts s, insts s', heap s',
                             map (fun e => (th (ethr e), etime e, tenv (ethr e))) (elems s'),
                             map show (run_from s' ex2))) (save_reset_load s)
  | None => None
  end =
  Some ([[3]; [2; 1]], [[6; 7]; [2]],
        [ (4, [(KInt (-7), VScal (SInt 1)); (KInt 40, VArr 4); (exKey, VCon 5)]);
          (5, [(KInt 1, VScal (SInt 10)); (KInt 2, VScal (SInt 20)); (KInt 3, VScal (SInt 30))]) ],
        [ (6, 1, [(101, VArr 4); (102, VCon 5)]);
          (7, 2, [(7, VCon 5); (8, VCon 5); (4, VArr 4)]);
          (2, 3, [(1, VScal (SStr []))]) ],
        [ Some ([], false, true); Some ([PVal (SInt 20)], false, true);
          Some ([], false, true); Some ([PVal (SInt 99); PVal (SInt 111); PVal (SInt 4)], false, true);
          Some ([], false, true); Some ([PVal (SStr []); PVal (SInt 55)], true, false) ]).
Proof. vm_compute. reflexivity. Qed.

Example C09_uninterrupted_run_example :
  map show (run_from (init 1000) (ex1 ++ ex2)) =
  [ Some ([], false, true); Some ([], false, true);
    Some ([], false, true); Some ([PVal (SInt 20)], false, true);
    Some ([], false, true); Some ([PVal (SInt 99); PVal (SInt 111); PVal (SInt 4)], false, true);
    Some ([], false, true); Some ([PVal (SStr []); PVal (SInt 55)], true, false) ].
Proof. vm_compute. reflexivity. Qed.
