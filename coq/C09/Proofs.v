(* C09/Proofs.v — save / reset / load is transparent: the corollaries of
   ProofsSave (load (save s) is isomorphic to s), ProofsIso (isomorphic states behave
   alike) and ProofsWf (every state between two host operations is saveable). *)
From Coq Require Import NArith ZArith List Bool Permutation Lia.
From Morfuse Require Import C09.Model C09.Spec C09.ProofsIso C09.ProofsSave C09.ProofsWf.
Import ListNotations.
Local Open Scope N_scope.

Lemma run_from_app s ops1 ops2 s1 :
  state_after s ops1 = Some s1 -> run_from s (ops1 ++ ops2) = run_from s ops1 ++ run_from s1 ops2.
Proof.
  revert s. induction ops1 as [|o ops1 IH]; intros s H; cbn in *.
  - inversion H; subst. reflexivity.
  - destruct (step s o) as [[s' ob]|]; [|discriminate]. cbn. f_equal. now apply IH.
Qed.

Lemma state_after_app s ops1 ops2 s1 :
  state_after s ops1 = Some s1 -> state_after s (ops1 ++ ops2) = state_after s1 ops2.
Proof.
  revert s. induction ops1 as [|o ops1 IH]; intros s H; cbn in *.
  - inversion H; subst. reflexivity.
  - destruct (step s o) as [[s' ob]|]; [|discriminate]. now apply IH.
Qed.

Theorem save_reset_load_iso s :
  wf s -> exists s', save_reset_load s = Some s' /\ iso s s'.
Proof.
  intro Hw. destruct (load_save_iso s Hw) as (a & s' & Hs & Hl & Hi & _).
  exists s'. unfold save_reset_load. rewrite Hs. auto.
Qed.

Theorem save_load_transparent c ops1 ops2 s :
  state_after (init c) ops1 = Some s ->
  exists s', save_reset_load s = Some s' /\
    run_from (init c) (ops1 ++ ops2) = run_from (init c) ops1 ++ run_from s' ops2.
Proof.
  intro Hs. assert (Hw : wf s) by (eapply reach_wf; [apply wf_init|exact Hs]).
  destruct (save_reset_load_iso s Hw) as (s' & Hl & Hi). exists s'. split; [exact Hl|].
  rewrite (run_from_app _ _ _ _ Hs). f_equal. now apply iso_behaviour.
Qed.

(* the final states of the interrupted and the uninterrupted run are isomorphic *)
Theorem save_load_final_states c ops1 ops2 s :
  state_after (init c) ops1 = Some s ->
  exists s', save_reset_load s = Some s' /\
    match state_after (init c) (ops1 ++ ops2), state_after s' ops2 with
    | Some a, Some b => iso a b
    | None, None => True
    | _, _ => False
    end.
Proof.
  intro Hs. assert (Hw : wf s) by (eapply reach_wf; [apply wf_init|exact Hs]).
  destruct (save_reset_load_iso s Hw) as (s' & Hl & Hi). exists s'. split; [exact Hl|].
  rewrite (state_after_app _ _ _ _ Hs). now apply iso_state_after.
Qed.

(* ---------------------------------------------------------------- a loaded state is saveable again *)
Lemma rel_nodup (hm : list (N * N)) (l1 l2 : list N) :
  pbij hm -> Forall2 (fun a b => In (a, b) hm) l1 l2 -> NoDup l1 -> NoDup l2.
Proof.
  intros Hb H. induction H as [|a b l1 l2 Hab Hr IH]; intro Hnd; [constructor|].
  inversion Hnd as [|? ? Hn Hnd']; subst. constructor; auto.
  intro Hin. apply Hn. clear -Hb Hab Hr Hin.
  induction Hr as [|x y l1 l2 Hxy _ IH]; cbn in *; [contradiction|].
  destruct Hin as [<-|Hin]; [left|right; auto].
  symmetry. apply (Hb a y x y Hab Hxy). reflexivity.
Qed.

Lemma rel_in_r (hm : list (N * N)) (l1 l2 : list N) y : Forall2 (fun a b => In (a, b) hm) l1 l2 -> In y l2 -> exists x, In x l1 /\ In (x, y) hm.
Proof.
  intro H. induction H as [|a b l1 l2 Hab _ IH]; cbn; [tauto|].
  intros [<-|Hin]; [exists a; auto|]. destruct (IH Hin) as (x & Hx & Hxy). exists x. auto.
Qed.

Lemma rel_in_l (hm : list (N * N)) (l1 l2 : list N) x : Forall2 (fun a b => In (a, b) hm) l1 l2 -> In x l1 -> exists y, In y l2 /\ In (x, y) hm.
Proof.
  intro H. induction H as [|a b l1 l2 Hab _ IH]; cbn; [tauto|].
  intros [<-|Hin]; [exists b; auto|]. destruct (IH Hin) as (y & Hy & Hxy). exists y. auto.
Qed.

Lemma env_rel_ok m e1 e2 n1 n2 : env_rel m e1 e2 -> bounded m n1 n2 -> env_ok e2 n2.
Proof.
  intros H Hb. induction H as [|[x1 v1] [x2 v2] l1 l2 [Hx Hv] _ IH]; [intros ? ? []|].
  intros x v [E|Hin]; [|eapply IH; eauto]. inversion E; subst. cbn in Hv.
  destruct v1, v; cbn in *; try contradiction; auto; apply Hb in Hv; tauto.
Qed.

(* everything of wf except the bound on unreachable holders follows from iso *)
Theorem iso_wf s1 s2 : iso s1 s2 -> wf s1 -> heap_ok (heap s2) (nextr s2) -> wf s2.
Proof.
  intros (hm & m & He & (i & Hpi & Hfi) & _ & _ & _ & _ & _ & _ & _ & Hb & Hbd & Hbm & Hbdm)
         (Hnd & Hp & Hbn & Hok & _) Hheap.
  assert (HL : Forall2 (fun a b => In (a, b) hm) (concat i) (concat (insts s2))).
  { apply Forall2_concat. exact Hfi. }
  assert (HE : Forall2 (fun a b => In (a, b) hm) (map eh (elems s1)) (map eh (elems s2))).
  { clear -He. induction He as [|a b l1 l2 [_ [Hin _]] _ IH]; cbn; constructor; auto. }
  assert (Hpc : Permutation (concat (insts s1)) (concat i)).
  { clear -Hpi. induction Hpi; cbn; auto.
    - now apply Permutation_app_head.
    - rewrite !app_assoc. apply Permutation_app_tail, Permutation_app_comm.
    - eapply perm_trans; eauto. }
  assert (Hnd1 : NoDup (concat i)) by (eapply Permutation_NoDup; eauto).
  assert (Hnd2 : NoDup (concat (insts s2))) by (apply (rel_nodup hm _ _ Hb HL Hnd1)).
  assert (HndE1 : NoDup (map eh (elems s1))) by (eapply Permutation_NoDup; eauto).
  assert (HndE2 : NoDup (map eh (elems s2))) by (apply (rel_nodup hm _ _ Hb HE HndE1)).
  split; [exact Hnd2|]. split; [|split; [|split]].
  - apply NoDup_Permutation; auto. intro y. split; intro Hy.
    + destruct (rel_in_r _ _ _ _ HL Hy) as (x & Hx & Hxy).
      assert (Hx' : In x (map eh (elems s1))).
      { eapply Permutation_in; [exact Hp|]. eapply Permutation_in; [apply Permutation_sym; exact Hpc|exact Hx]. }
      destruct (rel_in_l _ _ _ _ HE Hx') as (y' & Hy' & Hxy').
      assert (y = y') by (apply (Hb x y x y' Hxy Hxy'); reflexivity). now subst.
    + destruct (rel_in_r _ _ _ _ HE Hy) as (x & Hx & Hxy).
      assert (Hx' : In x (concat i)).
      { eapply Permutation_in; [exact Hpc|]. eapply Permutation_in; [apply Permutation_sym; exact Hp|exact Hx]. }
      destruct (rel_in_l _ _ _ _ HL Hx') as (y' & Hy' & Hxy').
      assert (y = y') by (apply (Hb x y x y' Hxy Hxy'); reflexivity). now subst.
  - intros h Hh. destruct (rel_in_r _ _ _ _ HL Hh) as (x & _ & Hxy). apply Hbd in Hxy. tauto.
  - clear -He Hbdm. induction He as [|a b l1 l2 [_ (_ & _ & Hev)] _ IH]; constructor; auto.
    eapply env_rel_ok; eauto.
  - exact Hheap.
Qed.

(* the loaded state is saveable again *)
Theorem loaded_state_wf s :
  wf s -> exists s', save_reset_load s = Some s' /\ iso s s' /\ wf s'.
Proof.
  intro Hw. destruct (load_save_iso s Hw) as (a & s' & Hs & Hl & Hi & Hh).
  exists s'. unfold save_reset_load. rewrite Hs. split; [exact Hl|]. split; [exact Hi|].
  eapply iso_wf; eauto.
Qed.

Theorem reachable_wf c ops s : state_after (init c) ops = Some s -> wf s.
Proof. intro H. eapply reach_wf; [apply wf_init|exact H]. Qed.
