(* C09/ProofsSave.v — save, reset, load yields an isomorphic state (for every saveable
   state): the index counter hands out strictly increasing indices, the index tables built
   while saving are partial bijections, the loader finds every object by its index. *)
From Coq Require Import NArith ZArith List Bool Permutation Lia.
From Morfuse Require Import C09.Model C09.Spec C09.ProofsIso.
Import ListNotations.
Local Open Scope N_scope.

(* ---------------------------------------------------------------- lists *)
Lemma Forall2_rev {A B} (R : A -> B -> Prop) l1 l2 : Forall2 R l1 l2 -> Forall2 R (rev l1) (rev l2).
Proof.
  intro H. induction H; cbn; [constructor|]. apply Forall2_app; auto.
Qed.

Lemma Forall2_impl {A B} (R R' : A -> B -> Prop) l1 l2 :
  (forall a b, R a b -> R' a b) -> Forall2 R l1 l2 -> Forall2 R' l1 l2.
Proof. intros Hi H. induction H; constructor; auto. Qed.

Lemma Forall2_impl_in {A B} (R R' : A -> B -> Prop) l1 l2 :
  (forall a b, In a l1 -> R a b -> R' a b) -> Forall2 R l1 l2 -> Forall2 R' l1 l2.
Proof.
  intros Hi H. induction H; constructor.
  - apply Hi; [now left|assumption].
  - apply IHForall2. intros a b Hin. apply Hi. now right.
Qed.

Lemma Forall2_len {A B} (R : A -> B -> Prop) l1 l2 : Forall2 R l1 l2 -> length l1 = length l2.
Proof. intro H. induction H; cbn; auto. Qed.

Lemma combine_app {A B} (l1 l1' : list A) (l2 l2' : list B) :
  length l1 = length l2 -> combine (l1 ++ l1') (l2 ++ l2') = combine l1 l2 ++ combine l1' l2'.
Proof.
  revert l2. induction l1 as [|a l1 IH]; intros [|b l2] H; cbn in *; try discriminate; auto.
  f_equal. apply IH. lia.
Qed.

Lemma map_fst_combine {A B} (l1 : list A) (l2 : list B) :
  length l1 = length l2 -> map fst (combine l1 l2) = l1.
Proof.
  revert l2. induction l1 as [|a l1 IH]; intros [|b l2] H; cbn in *; try discriminate; auto.
  f_equal. apply IH. lia.
Qed.

Lemma in_combine_exists {A B} (l1 : list A) (l2 : list B) a :
  length l1 = length l2 -> In a l1 -> exists b, In (a, b) (combine l1 l2).
Proof.
  revert l2. induction l1 as [|x l1 IH]; intros [|y l2] H Hin; cbn in *; try discriminate; try contradiction.
  destruct Hin as [->|Hin].
  - exists y. now left.
  - destruct (IH l2) as [b Hb]; [lia|exact Hin|]. exists b. now right.
Qed.

Lemma in_combine_map {A B C} (f : B -> C) (l1 : list A) (l2 : list B) a c :
  In (a, c) (combine l1 (map f l2)) -> exists b, In (a, b) (combine l1 l2) /\ f b = c.
Proof.
  revert l2. induction l1 as [|x l1 IH]; intros [|y l2] H; cbn in *; try contradiction.
  destruct H as [E|H].
  - inversion E; subst. exists y. split; auto.
  - destruct (IH l2 H) as [b [Hb Hf]]. exists b. split; auto.
Qed.

Lemma in_combine_map' {A B C} (f : B -> C) (l1 : list A) (l2 : list B) a b :
  In (a, b) (combine l1 l2) -> In (a, f b) (combine l1 (map f l2)).
Proof.
  revert l2. induction l1 as [|x l1 IH]; intros [|y l2] H; cbn in *; try contradiction.
  destruct H as [E|H]; [inversion E; subst; now left | right; auto].
Qed.

Lemma Forall2_in_combine {A B} (R : A -> B -> Prop) l1 l2 a b :
  Forall2 R l1 l2 -> In (a, b) (combine l1 l2) -> R a b.
Proof.
  intro H. induction H; cbn; [tauto|]. intros [E|Hin]; [inversion E; subst; auto | auto].
Qed.

Lemma Forall2_combine {A B} (R : A -> B -> Prop) l1 l2 :
  Forall2 R l1 l2 -> Forall2 (fun a b => R a b /\ In (a, b) (combine l1 l2)) l1 l2.
Proof.
  intro H. induction H as [|a b l1 l2 Hab _ IH]; cbn; constructor.
  - split; auto.
  - eapply Forall2_impl; [|exact IH]. cbn. intros x y [Hr Hin]. split; auto.
Qed.

Lemma Forall2_concat {A B} (R : A -> B -> Prop) (ll1 : list (list A)) (ll2 : list (list B)) :
  Forall2 (Forall2 R) ll1 ll2 -> Forall2 R (concat ll1) (concat ll2).
Proof. intro H. induction H; cbn; [constructor|]. apply Forall2_app; auto. Qed.

Lemma pbij_combine (l1 l2 : list N) : NoDup l1 -> NoDup l2 -> pbij (combine l1 l2).
Proof.
  revert l2. induction l1 as [|x l1 IH]; intros [|y l2] H1 H2; cbn;
    [intros ? ? ? ? [] | intros ? ? ? ? [] | intros ? ? ? ? [] |].
  inversion H1 as [|? ? Hx1 Hn1]; inversion H2 as [|? ? Hy2 Hn2]; subst.
  intros p q p' q' [E|Hi] [E'|Hi'].
  - inversion E; inversion E'; subst. tauto.
  - inversion E; subst. split; intro; subst.
    + exfalso. apply in_combine_l in Hi'. tauto.
    + exfalso. apply in_combine_r in Hi'. tauto.
  - inversion E'; subst. split; intro; subst.
    + exfalso. apply in_combine_l in Hi. tauto.
    + exfalso. apply in_combine_r in Hi. tauto.
  - now apply (IH l2).
Qed.

Lemma pbij_incl m m' : incl m m' -> pbij m' -> pbij m.
Proof. intros Hi Hb a b a' b' H H'. apply Hb; auto. Qed.

(* ---------------------------------------------------------------- association lists *)
Lemma assoc_some r l i : assoc r l = Some i -> In (r, i) l.
Proof.
  induction l as [|[a b] l IH]; cbn; [discriminate|].
  destruct (N.eqb_spec r a) as [->|Hn]; intro H.
  - inversion H; subst. now left.
  - right. auto.
Qed.

Lemma assoc_none r l : assoc r l = None -> forall i, ~ In (r, i) l.
Proof.
  induction l as [|[a b] l IH]; cbn; [tauto|].
  destruct (N.eqb_spec r a) as [->|Hn]; intros H i [E|Hin]; try discriminate.
  - inversion E; subst. contradiction.
  - now apply (IH H i).
Qed.

Lemma assoc_nodup r i l : NoDup (map fst l) -> In (r, i) l -> assoc r l = Some i.
Proof.
  induction l as [|[a b] l IH]; cbn; [tauto|]. intros Hnd [E|Hin].
  - inversion E; subst. now rewrite N.eqb_refl.
  - inversion Hnd; subst. destruct (N.eqb_spec r a) as [->|Hn].
    + exfalso. apply H1. change a with (fst (a, i)). now apply in_map.
    + auto.
Qed.

(* ---------------------------------------------------------------- strictly increasing indices *)
Fixpoint incr (lo : N) (l : list N) (hi : N) : Prop :=
  match l with
  | [] => lo <= hi
  | x :: l' => lo < x /\ incr x l' hi
  end.

Lemma incr_le lo l hi : incr lo l hi -> lo <= hi.
Proof. revert lo. induction l as [|x l IH]; cbn; intros lo H; [exact H|]. destruct H as [H1 H2]. apply IH in H2. lia. Qed.

Lemma incr_lo lo lo' l hi : lo' <= lo -> incr lo l hi -> incr lo' l hi.
Proof. destruct l; cbn; intros; [lia|]. destruct H0. split; [lia|auto]. Qed.

Lemma incr_app lo l1 mid l2 hi : incr lo l1 mid -> incr mid l2 hi -> incr lo (l1 ++ l2) hi.
Proof.
  revert lo. induction l1 as [|x l1 IH]; cbn; intros lo H1 H2.
  - eapply incr_lo; eauto.
  - destruct H1. split; auto.
Qed.

Lemma incr_range lo l hi x : incr lo l hi -> In x l -> lo < x <= hi.
Proof.
  revert lo. induction l as [|y l IH]; cbn; intros lo H Hin; [contradiction|].
  destruct H as [H1 H2]. destruct Hin as [->|Hin].
  - apply incr_le in H2. lia.
  - apply (IH y H2) in Hin. lia.
Qed.

Lemma incr_nodup lo l hi : incr lo l hi -> NoDup l.
Proof.
  revert lo. induction l as [|y l IH]; cbn; intros lo H; constructor.
  - destruct H as [_ H]. intro Hin. pose proof (incr_range _ _ _ _ H Hin). lia.
  - destruct H as [_ H]. eauto.
Qed.

(* ---------------------------------------------------------------- the variables of a thread *)
Definition lenv (l : list (N * aval)) : list (N * value) :=
  map (fun xv => (fst xv, load_val (snd xv))) l.

Lemma save_vars_spec : forall vars heap cnt seen l c sn,
  save_vars vars heap cnt seen = (l, c, sn) ->
  (forall r i, In (r, i) seen -> i <= cnt) -> pbij seen ->
  cnt <= c /\ incl seen sn /\ (forall r i, In (r, i) sn -> i <= c) /\ pbij sn /\
  env_rel sn vars (lenv l) /\
  (forall r i, In (r, i) sn -> In (r, i) seen \/
     (cnt < i /\ heap_get i (load_heap l) = heap_get r heap /\ exists x, In (x, VArr r) vars)) /\
  (forall i o, In (i, o) (load_heap l) -> cnt < i).
Proof.
  induction vars as [|[x v] vars IH]; intros heap cnt seen l c sn Hs Hle Hb.
  - cbn in Hs. inversion Hs; subst.
    split; [lia|]. split; [apply incl_refl|]. split; [exact Hle|]. split; [exact Hb|].
    split; [constructor|]. split; [intros r i Hin; now left | intros i o []].
  - cbn in Hs. destruct v as [sc|r].
    + destruct (save_vars vars heap cnt seen) as [[l' c'] sn'] eqn:E. inversion Hs; subst.
      destruct (IH heap cnt seen l' c sn E Hle Hb) as (H1 & H2 & H3 & H4 & H5 & H6 & H7).
      split; [exact H1|]. split; [exact H2|]. split; [exact H3|]. split; [exact H4|].
      split; [|split].
      * constructor; [split; reflexivity|exact H5].
      * intros r i Hin. destruct (H6 r i Hin) as [Hl|(Ha & Hc & y & Hy)]; [now left|right].
        split; [exact Ha|]. split; [exact Hc|]. exists y. now right.
      * exact H7.
    + destruct (assoc r seen) as [i0|] eqn:Ea.
      * destruct (save_vars vars heap cnt seen) as [[l' c'] sn'] eqn:E. inversion Hs; subst.
        destruct (IH heap cnt seen l' c sn E Hle Hb) as (H1 & H2 & H3 & H4 & H5 & H6 & H7).
        split; [exact H1|]. split; [exact H2|]. split; [exact H3|]. split; [exact H4|].
        split; [|split].
        -- constructor; [split; [reflexivity|]|exact H5]. cbn. apply H2. now apply assoc_some.
        -- intros q i Hin. destruct (H6 q i Hin) as [Hl|(Ha & Hc & y & Hy)]; [now left|right].
           split; [exact Ha|]. split; [exact Hc|]. exists y. now right.
        -- exact H7.
      * destruct (save_vars vars heap (cnt + 1) ((r, cnt + 1) :: seen)) as [[l' c'] sn'] eqn:E.
        inversion Hs; subst.
        assert (Hle' : forall q i, In (q, i) ((r, cnt + 1) :: seen) -> i <= cnt + 1).
        { intros q i [Eq|Hin]; [inversion Eq; lia|]. apply Hle in Hin. lia. }
        assert (Hb' : pbij ((r, cnt + 1) :: seen)).
        { apply pbij_cons; auto. intros a b Hin. split.
          - intro; subst. now apply (assoc_none _ _ Ea b).
          - apply Hle in Hin. lia. }
        destruct (IH heap (cnt + 1) _ l' c sn E Hle' Hb') as (H1 & H2 & H3 & H4 & H5 & H6 & H7).
        split; [lia|]. split; [intros p Hp; apply H2; now right|]. split; [exact H3|]. split; [exact H4|].
        split; [|split].
        -- constructor; [split; [reflexivity|]|exact H5]. cbn. apply H2. now left.
        -- intros q i Hin. destruct (H6 q i Hin) as [[Eq|Hl]|(Ha & Hc & y & Hy)].
           ++ inversion Eq; subst. right. split; [lia|]. split.
              ** cbn. now rewrite N.eqb_refl.
              ** exists x. now left.
           ++ now left.
           ++ right. split; [lia|]. split.
              ** cbn. destruct (N.eqb_spec i (cnt + 1)); [lia|exact Hc].
              ** exists y. now right.
        -- intros i o [Eq|Hin]; [inversion Eq; lia|]. apply H7 in Hin. lia.
Qed.

Lemma save_thread_spec t cnt a c1 :
  thr_ok t -> save_thread t cnt = (a, c1) ->
  cnt < c1 /\ a_pos a = c1 /\ a_code a = tcode t /\
  forall nc, c1 <= nc ->
    data_rel (tenv t) (theap t) (tnext t)
             (tenv (load_thread nc a)) (theap (load_thread nc a)) (tnext (load_thread nc a)).
Proof.
  intros Hok Hs. unfold save_thread in Hs.
  destruct (save_vars (tenv t) (theap t) cnt []) as [[l c] sn] eqn:E. inversion Hs; subst. clear Hs.
  destruct (save_vars_spec _ _ _ _ _ _ _ E) as (H1 & H2 & H3 & H4 & H5 & H6 & H7).
  { intros ? ? []. } { intros ? ? ? ? []. }
  cbn. split; [lia|]. split; [reflexivity|]. split; [reflexivity|].
  intros nc Hnc. apply (data_rel_intro sn); auto.
  - intros r i Hin. destruct (H6 r i Hin) as [[]|(Ha & Hc & _)]. now rewrite Hc.
  - intros r i Hin. split.
    + destruct (H6 r i Hin) as [[]|(_ & _ & y & Hy)]. eapply Hok; eauto.
    + apply H3 in Hin. lia.
Qed.

(* ---------------------------------------------------------------- chains and instances *)
Definition Q (es : list elem) (h : N) (a : athread) : Prop :=
  exists t k, find_thread h es = Some t /\ save_thread t k = (a, a_pos a) /\ k < a_pos a.

Lemma save_chain_ok : forall c es cnt hm,
  (forall h, In h c -> exists t, find_thread h es = Some t /\ thr_ok t) ->
  exists l c2, save_chain c es cnt hm = Some (l, c2, rev (combine c (map a_pos l)) ++ hm) /\
    Forall2 (Q es) c l /\ incr cnt (map a_pos l) c2.
Proof.
  induction c as [|h c IH]; intros es cnt hm Hf.
  - exists [], cnt. cbn. repeat split; [constructor|lia].
  - destruct (Hf h (or_introl eq_refl)) as (t & Ht & Hok). cbn. rewrite Ht.
    destruct (save_thread t cnt) as [a c1] eqn:Es.
    destruct (save_thread_spec t cnt a c1 Hok Es) as (Hlt & Hpos & _).
    destruct (IH es c1 ((h, c1) :: hm)) as (l & c2 & Hsc & Hq & Hi).
    { intros h' Hin. apply Hf. now right. }
    rewrite Hsc. exists (a :: l), c2. split; [|split].
    + cbn. rewrite Hpos. rewrite <- app_assoc. reflexivity.
    + constructor; [|exact Hq]. exists t, cnt. rewrite Hpos. auto.
    + cbn. rewrite Hpos. split; auto.
Qed.

Definition allpos (l : list ainst) : list N := concat (map (fun ai => map a_pos (ai_threads ai)) l).

Lemma save_insts_ok : forall i es cnt hm,
  (forall h, In h (concat i) -> exists t, find_thread h es = Some t /\ thr_ok t) ->
  exists l c2, save_insts i es cnt hm = Some (l, c2, rev (combine (concat i) (allpos l)) ++ hm) /\
    Forall2 (fun c ai => Forall2 (Q es) c (ai_threads ai)) i l /\ incr cnt (allpos l) c2.
Proof.
  induction i as [|c i IH]; intros es cnt hm Hf.
  - exists [], cnt. cbn. repeat split; [constructor|lia].
  - cbn.
    destruct (save_chain_ok c es (cnt + 1) hm) as (ts & c1 & Hsc & Hq & Hi).
    { intros h Hin. apply Hf. cbn. apply in_or_app. now left. }
    rewrite Hsc.
    destruct (IH es c1 (rev (combine c (map a_pos ts)) ++ hm)) as (l & c2 & Hsi & Hq2 & Hi2).
    { intros h Hin. apply Hf. cbn. apply in_or_app. now right. }
    rewrite Hsi. exists (mkAInst (cnt + 1) ts :: l), c2. split; [|split].
    + unfold allpos. cbn. fold (allpos l).
      rewrite combine_app by (rewrite map_length; eapply Forall2_len; eauto).
      rewrite rev_app_distr, <- app_assoc. reflexivity.
    + constructor; auto.
    + unfold allpos. cbn. fold (allpos l). eapply incr_app; [|exact Hi2].
      eapply incr_lo; [|exact Hi]. lia.
Qed.

Lemma nested_in_combine es i l :
  Forall2 (fun c ai => Forall2 (Q es) c (ai_threads ai)) i l ->
  Forall2 (fun c ai => Forall2 (fun h a => In (h, a_pos a) (combine (concat i) (allpos l))) c (ai_threads ai)) i l.
Proof.
  intro H. induction H as [|c ai i l Hc _ IH]; [constructor|].
  assert (Hlen : length c = length (map a_pos (ai_threads ai))) by (rewrite map_length; eapply Forall2_len; eauto).
  unfold allpos. cbn. fold (allpos l). rewrite combine_app by exact Hlen. constructor.
  - eapply Forall2_impl; [|apply (Forall2_combine _ _ _ Hc)]. cbn. intros h a [_ Hin].
    apply in_or_app. left. now apply in_combine_map'.
  - eapply Forall2_impl; [|exact IH]. cbn. intros c' ai' Hf.
    eapply Forall2_impl; [|exact Hf]. cbn. intros h a Hin. apply in_or_app. now right.
Qed.

(* ---------------------------------------------------------------- timer elements *)
Lemma find_thread_in h es : In h (map eh es) -> exists e, In e es /\ find_thread h es = Some (ethr e).
Proof.
  induction es as [|e es IH]; cbn; [tauto|]. intros [E|Hin].
  - exists e. split; [now left|]. unfold eh in E. rewrite E. now rewrite N.eqb_refl.
  - destruct (N.eqb_spec h (th (ethr e))) as [->|Hn].
    + exists e. split; [now left|reflexivity].
    + destruct (IH Hin) as (e' & He' & Hf). exists e'. split; [now right|exact Hf].
Qed.

Lemma find_thread_nodup e es : NoDup (map eh es) -> In e es -> find_thread (eh e) es = Some (ethr e).
Proof.
  induction es as [|x es IH]; cbn; [tauto|]. intros Hnd [->|Hin].
  - unfold eh. now rewrite N.eqb_refl.
  - inversion Hnd; subst. destruct (N.eqb_spec (eh e) (th (ethr x))) as [E|Hn].
    + exfalso. apply H1. change (th (ethr x)) with (eh x) in E. rewrite <- E. now apply in_map.
    + auto.
Qed.

Lemma find_loaded_ok x ts : NoDup (map th ts) -> In x ts -> find_loaded (th x) ts = Some x.
Proof.
  induction ts as [|y ts IH]; cbn; [tauto|]. intros Hnd [->|Hin].
  - now rewrite N.eqb_refl.
  - inversion Hnd; subst. destruct (N.eqb_spec (th x) (th y)) as [E|Hn].
    + exfalso. apply H1. rewrite <- E. now apply in_map.
    + auto.
Qed.

Lemma save_elems_ok hm : forall es,
  (forall e, In e es -> exists p, assoc (eh e) hm = Some p) ->
  exists ae, save_elems es hm = Some ae /\
    Forall2 (fun e ip => assoc (eh e) hm = Some (fst ip) /\ snd ip = etime e) es ae.
Proof.
  induction es as [|e es IH]; intro Hf.
  - exists []. split; [reflexivity|constructor].
  - destruct (Hf e (or_introl eq_refl)) as [p Hp].
    destruct IH as (ae & Hs & Hall). { intros e' Hin. apply Hf. now right. }
    exists ((p, etime e) :: ae). split.
    + cbn. unfold eh in Hp. rewrite Hp, Hs. reflexivity.
    + constructor; auto.
Qed.

Lemma load_elems_ok ts : forall (es : list elem) ae (P : elem -> thread -> Prop),
  Forall2 (fun e ip => (exists x, find_loaded (fst ip) ts = Some x /\ P e x) /\ snd ip = etime e) es ae ->
  exists es2, load_elems ae ts = Some es2 /\
    Forall2 (fun e e2 => etime e2 = etime e /\ P e (ethr e2)) es es2.
Proof.
  intros es ae P H. induction H as [|e [i t] es ae [(x & Hx & Hp) Ht] _ IH].
  - exists []. split; [reflexivity|constructor].
  - destruct IH as (es2 & Hl & Hall). cbn in Hx, Ht. subst t.
    exists (mkElem x (etime e) :: es2). split.
    + cbn. rewrite Hx, Hl. reflexivity.
    + constructor; auto.
Qed.

Lemma chains_of hm i (l : list ainst) :
  Forall2 (fun c a => Forall2 (fun h x => In (h, a_pos x) hm) c (ai_threads a)) i l ->
  Forall2 (chain_rel hm) i (map (fun a => map a_pos (ai_threads a)) l).
Proof.
  intro H. induction H as [|c a i l Hc _ IH]; cbn; constructor; auto.
  unfold chain_rel. clear -Hc. induction Hc; cbn; constructor; auto.
Qed.

(* ---------------------------------------------------------------- the theorem *)
Theorem load_save_iso s :
  wf s -> exists a s', save s = Some a /\ load a (reset s) = Some s' /\ iso s s'.
Proof.
  intros (Hnd & Hperm & Hbnd & Hok).
  set (H := concat (insts s)). set (es := elems s).
  assert (Hnde : NoDup (map eh es)) by (eapply Permutation_NoDup; eauto).
  assert (Hfind : forall h, In h H -> exists t, find_thread h es = Some t /\ thr_ok t).
  { intros h Hin. assert (Hin' : In h (map eh es)) by (eapply Permutation_in; eauto).
    destruct (find_thread_in h es Hin') as (e & He & Hf). exists (ethr e). split; auto.
    rewrite Forall_forall in Hok. now apply Hok. }
  destruct (save_insts_ok (insts s) es 0 [] Hfind) as (ai & nc & Hsi & Hq & Hinc).
  rewrite app_nil_r in Hsi. fold H in Hsi.
  set (P := allpos ai) in *. set (hm := rev (combine H P)) in *.
  set (AT := concat (map ai_threads ai)).
  assert (HP : P = map a_pos AT).
  { unfold P, allpos, AT. rewrite concat_map, map_map. reflexivity. }
  assert (HQ : Forall2 (Q es) H AT).
  { unfold H, AT. apply Forall2_concat.
    clear -Hq. induction Hq; cbn; constructor; auto. }
  assert (Hlen : length H = length P) by (rewrite HP, map_length; eapply Forall2_len; eauto).
  assert (HndP : NoDup P) by (eapply incr_nodup; eauto).
  assert (Hassoc : forall h p, In (h, p) (combine H P) -> assoc h hm = Some p).
  { intros h p Hin. apply assoc_nodup.
    - unfold hm. rewrite map_rev, map_fst_combine by exact Hlen. now apply NoDup_rev.
    - unfold hm. now apply -> in_rev. }
  (* the timer elements are written *)
  destruct (save_elems_ok hm es) as (ae & Hse & Hae).
  { intros e Hin. assert (Hh : In (eh e) H).
    { eapply Permutation_in; [apply Permutation_sym; exact Hperm|]. now apply in_map. }
    destruct (in_combine_exists H P (eh e) Hlen Hh) as [p Hp]. exists p. now apply Hassoc. }
  (* loading *)
  set (ts := concat (map (fun a => map (load_thread nc) (ai_threads a)) ai)).
  assert (Hts : ts = map (load_thread nc) AT).
  { unfold ts, AT. rewrite concat_map, map_map. reflexivity. }
  assert (Hth : map th ts = P).
  { rewrite Hts, HP, map_map. apply map_ext. intros a. reflexivity. }
  set (Pr := fun (e : elem) (x : thread) => thr_rel hm (ethr e) x).
  destruct (load_elems_ok ts es ae Pr) as (es2 & Hle & Hes2).
  { eapply Forall2_impl_in; [|exact Hae]. cbn. intros e [p t] Hine [Ha Ht].
    cbn in Ha, Ht. split; [|exact Ht]. cbn.
    apply assoc_some in Ha. unfold hm in Ha. apply in_rev in Ha.
    rewrite HP in Ha. destruct (in_combine_map a_pos H AT (eh e) p Ha) as (a & Hina & Hpa).
    pose proof (Forall2_in_combine _ _ _ _ _ HQ Hina) as (t0 & k & Hf & Hst & Hk).
    rewrite (find_thread_nodup e es Hnde Hine) in Hf. inversion Hf; subst t0. clear Hf.
    exists (load_thread nc a). split.
    + assert (Hin_ts : In (load_thread nc a) ts).
      { rewrite Hts. apply in_map. eapply in_combine_r; eauto. }
      pose proof (find_loaded_ok (load_thread nc a) ts) as Hfl. cbn in Hfl. rewrite Hpa in Hfl.
      apply Hfl; auto. rewrite Hth. exact HndP.
    + unfold Pr. assert (Hoke : thr_ok (ethr e)).
      { rewrite Forall_forall in Hok. now apply Hok. }
      destruct (save_thread_spec (ethr e) k a (a_pos a) Hoke Hst) as (_ & _ & Hcode & Hdata).
      split; [|split].
      * cbn. unfold hm. apply -> in_rev. rewrite HP. rewrite Hpa.
        rewrite <- Hpa. apply (in_combine_map' a_pos H AT (eh e) a Hina).
      * cbn. now rewrite Hcode.
      * apply Hdata. assert (Hinp : In (a_pos a) P).
        { rewrite HP. apply in_map. eapply in_combine_r; eauto. }
        pose proof (incr_range _ _ _ _ Hinc Hinp). lia. }
  exists (mkArc nc ai (dirty s) (mtime s) ae).
  exists (mkSt es2 (rev (map (fun a => map a_pos (ai_threads a)) ai)) (mtime s) (dirty s)
               (scaled s) (lastclk s) (startclk s) (clock s) (nc + 1)).
  split; [|split].
  - unfold save. fold es. rewrite Hsi. fold hm. rewrite Hse. reflexivity.
  - unfold load. cbn. fold ts. rewrite Hle. reflexivity.
  - exists hm. srel.
    + eapply Forall2_impl; [|exact Hes2]. cbn. intros e e2 [Ht Hr]. split; auto.
    + exists (rev (insts s)). split; [apply Permutation_rev|].
      apply Forall2_rev.
      apply chains_of. pose proof (nested_in_combine es (insts s) ai Hq) as Hn.
      fold H in Hn. fold P in Hn.
      eapply Forall2_impl; [|exact Hn]. cbn. intros c a Hc.
      eapply Forall2_impl; [|exact Hc]. cbn. intros h x Hin. unfold hm. now apply -> in_rev.
    + eapply pbij_incl; [|apply (pbij_combine H P Hnd HndP)].
      intros x Hx. unfold hm in Hx. now apply in_rev in Hx.
    + intros a b Hin. unfold hm in Hin. apply in_rev in Hin. split.
      * apply Hbnd. eapply in_combine_l; eauto.
      * apply in_combine_r in Hin. pose proof (incr_range _ _ _ _ Hinc Hin). lia.
Qed.
