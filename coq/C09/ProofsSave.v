(* C09/ProofsSave.v — save, reset, load yields an isomorphic state (for every saveable
   state): the index counter hands out strictly increasing indices, the index tables built
   while saving are partial bijections, the loader finds every object by its index. *)
From Coq Require Import NArith ZArith List Bool Permutation Lia.
From Morfuse Require Import C09.Model C09.Spec C09.ProofsIso.
Import ListNotations.
Local Open Scope N_scope.

(* ---------------------------------------------------------------- lists *)
Lemma Forall2_rev {A B} (R : A -> B -> Prop) l1 l2 : Forall2 R l1 l2 -> Forall2 R (rev l1) (rev l2).
Proof.
  intro H. induction H; cbn; [constructor|]. apply Forall2_app; auto.
Qed.

Lemma Forall2_impl {A B} (R R' : A -> B -> Prop) l1 l2 :
  (forall a b, R a b -> R' a b) -> Forall2 R l1 l2 -> Forall2 R' l1 l2.
Proof. intros Hi H. induction H; constructor; auto. Qed.

Lemma Forall2_impl_in {A B} (R R' : A -> B -> Prop) l1 l2 :
  (forall a b, In a l1 -> R a b -> R' a b) -> Forall2 R l1 l2 -> Forall2 R' l1 l2.
Proof.
  intros Hi H. induction H; constructor.
  - apply Hi; [now left|assumption].
  - apply IHForall2. intros a b Hin. apply Hi. now right.
Qed.

Lemma Forall2_len {A B} (R : A -> B -> Prop) l1 l2 : Forall2 R l1 l2 -> length l1 = length l2.
Proof. intro H. induction H; cbn; auto. Qed.

Lemma combine_app {A B} (l1 l1' : list A) (l2 l2' : list B) :
  length l1 = length l2 -> combine (l1 ++ l1') (l2 ++ l2') = combine l1 l2 ++ combine l1' l2'.
Proof.
  revert l2. induction l1 as [|a l1 IH]; intros [|b l2] H; cbn in *; try discriminate; auto.
  f_equal. apply IH. lia.
Qed.

Lemma map_fst_combine {A B} (l1 : list A) (l2 : list B) :
  length l1 = length l2 -> map fst (combine l1 l2) = l1.
Proof.
  revert l2. induction l1 as [|a l1 IH]; intros [|b l2] H; cbn in *; try discriminate; auto.
  f_equal. apply IH. lia.
Qed.

Lemma in_combine_exists {A B} (l1 : list A) (l2 : list B) a :
  length l1 = length l2 -> In a l1 -> exists b, In (a, b) (combine l1 l2).
Proof.
  revert l2. induction l1 as [|x l1 IH]; intros [|y l2] H Hin; cbn in *; try discriminate; try contradiction.
  destruct Hin as [->|Hin].
  - exists y. now left.
  - destruct (IH l2) as [b Hb]; [lia|exact Hin|]. exists b. now right.
Qed.

Lemma in_combine_map {A B C} (f : B -> C) (l1 : list A) (l2 : list B) a c :
  In (a, c) (combine l1 (map f l2)) -> exists b, In (a, b) (combine l1 l2) /\ f b = c.
Proof.
  revert l2. induction l1 as [|x l1 IH]; intros [|y l2] H; cbn in *; try contradiction.
  destruct H as [E|H].
  - inversion E; subst. exists y. split; auto.
  - destruct (IH l2 H) as [b [Hb Hf]]. exists b. split; auto.
Qed.

Lemma in_combine_map' {A B C} (f : B -> C) (l1 : list A) (l2 : list B) a b :
  In (a, b) (combine l1 l2) -> In (a, f b) (combine l1 (map f l2)).
Proof.
  revert l2. induction l1 as [|x l1 IH]; intros [|y l2] H; cbn in *; try contradiction.
  destruct H as [E|H]; [inversion E; subst; now left | right; auto].
Qed.

Lemma Forall2_in_combine {A B} (R : A -> B -> Prop) l1 l2 a b :
  Forall2 R l1 l2 -> In (a, b) (combine l1 l2) -> R a b.
Proof.
  intro H. induction H; cbn; [tauto|]. intros [E|Hin]; [inversion E; subst; auto | auto].
Qed.

Lemma Forall2_combine {A B} (R : A -> B -> Prop) l1 l2 :
  Forall2 R l1 l2 -> Forall2 (fun a b => R a b /\ In (a, b) (combine l1 l2)) l1 l2.
Proof.
  intro H. induction H as [|a b l1 l2 Hab _ IH]; cbn; constructor.
  - split; auto.
  - eapply Forall2_impl; [|exact IH]. cbn. intros x y [Hr Hin]. split; auto.
Qed.

Lemma Forall2_concat {A B} (R : A -> B -> Prop) (ll1 : list (list A)) (ll2 : list (list B)) :
  Forall2 (Forall2 R) ll1 ll2 -> Forall2 R (concat ll1) (concat ll2).
Proof. intro H. induction H; cbn; [constructor|]. apply Forall2_app; auto. Qed.

Lemma pbij_combine (l1 l2 : list N) : NoDup l1 -> NoDup l2 -> pbij (combine l1 l2).
Proof.
  revert l2. induction l1 as [|x l1 IH]; intros [|y l2] H1 H2; cbn;
    [intros ? ? ? ? [] | intros ? ? ? ? [] | intros ? ? ? ? [] |].
  inversion H1 as [|? ? Hx1 Hn1]; inversion H2 as [|? ? Hy2 Hn2]; subst.
  intros p q p' q' [E|Hi] [E'|Hi'].
  - inversion E; inversion E'; subst. tauto.
  - inversion E; subst. split; intro; subst.
    + exfalso. apply in_combine_l in Hi'. tauto.
    + exfalso. apply in_combine_r in Hi'. tauto.
  - inversion E'; subst. split; intro; subst.
    + exfalso. apply in_combine_l in Hi. tauto.
    + exfalso. apply in_combine_r in Hi. tauto.
  - now apply (IH l2).
Qed.

Lemma pbij_incl m m' : incl m m' -> pbij m' -> pbij m.
Proof. intros Hi Hb a b a' b' H H'. apply Hb; auto. Qed.

(* ---------------------------------------------------------------- association lists *)
Lemma assoc_some r l i : assoc r l = Some i -> In (r, i) l.
Proof.
  induction l as [|[a b] l IH]; cbn; [discriminate|].
  destruct (N.eqb_spec r a) as [->|Hn]; intro H.
  - inversion H; subst. now left.
  - right. auto.
Qed.

Lemma assoc_none r l : assoc r l = None -> forall i, ~ In (r, i) l.
Proof.
  induction l as [|[a b] l IH]; cbn; [tauto|].
  destruct (N.eqb_spec r a) as [->|Hn]; intros H i [E|Hin]; try discriminate.
  - inversion E; subst. contradiction.
  - now apply (IH H i).
Qed.

Lemma assoc_nodup r i l : NoDup (map fst l) -> In (r, i) l -> assoc r l = Some i.
Proof.
  induction l as [|[a b] l IH]; cbn; [tauto|]. intros Hnd [E|Hin].
  - inversion E; subst. now rewrite N.eqb_refl.
  - inversion Hnd; subst. destruct (N.eqb_spec r a) as [->|Hn].
    + exfalso. apply H1. change a with (fst (a, i)). now apply in_map.
    + auto.
Qed.

(* ---------------------------------------------------------------- strictly increasing indices *)
Fixpoint incr (lo : N) (l : list N) (hi : N) : Prop :=
  match l with
  | [] => lo <= hi
  | x :: l' => lo < x /\ incr x l' hi
  end.

Lemma incr_le lo l hi : incr lo l hi -> lo <= hi.
Proof. revert lo. induction l as [|x l IH]; cbn; intros lo H; [exact H|]. destruct H as [H1 H2]. apply IH in H2. lia. Qed.

Lemma incr_lo lo lo' l hi : lo' <= lo -> incr lo l hi -> incr lo' l hi.
Proof. destruct l; cbn; intros; [lia|]. destruct H0. split; [lia|auto]. Qed.

Lemma incr_app lo l1 mid l2 hi : incr lo l1 mid -> incr mid l2 hi -> incr lo (l1 ++ l2) hi.
Proof.
  revert lo. induction l1 as [|x l1 IH]; cbn; intros lo H1 H2.
  - eapply incr_lo; eauto.
  - destruct H1. split; auto.
Qed.

Lemma incr_range lo l hi x : incr lo l hi -> In x l -> lo < x <= hi.
Proof.
  revert lo. induction l as [|y l IH]; cbn; intros lo H Hin; [contradiction|].
  destruct H as [H1 H2]. destruct Hin as [->|Hin].
  - apply incr_le in H2. lia.
  - apply (IH y H2) in Hin. lia.
Qed.

Lemma incr_nodup lo l hi : incr lo l hi -> NoDup l.
Proof.
  revert lo. induction l as [|y l IH]; cbn; intros lo H; constructor.
  - destruct H as [_ H]. intro Hin. pose proof (incr_range _ _ _ _ H Hin). lia.
  - destruct H as [_ H]. eauto.
Qed.

(* ---------------------------------------------------------------- writing values *)
Lemma save_val_scal f hp sc cnt seen : save_val f hp (VScal sc) cnt seen = Some (AScal sc, cnt, seen).
Proof. destruct f; reflexivity. Qed.

Definition save_ref (f : nat) (hp : list (N * holder)) (con : bool) (r : N) (cnt : N) (seen : list (N * N)) : sres aval :=
  match assoc r seen with
  | Some i => Some (APtr con i, cnt, seen)
  | None =>
      match f with
      | O => None
      | S f' =>
          match save_hold (save_val f' hp) (heap_get r hp) (cnt + 1) ((r, cnt + 1) :: seen) with
          | Some (al, c, sn) => Some (ANew con (cnt + 1) al, c, sn)
          | None => None
          end
      end
  end.

Lemma save_val_arr f hp r cnt seen : save_val f hp (VArr r) cnt seen = save_ref f hp false r cnt seen.
Proof. destruct f; reflexivity. Qed.

Lemma save_val_con f hp r cnt seen : save_val f hp (VCon r) cnt seen = save_ref f hp true r cnt seen.
Proof. destruct f; reflexivity. Qed.

Lemma assoc_none_fst r l : assoc r l = None -> ~ In r (map fst l).
Proof.
  induction l as [|[a b] l IH]; cbn; [tauto|].
  destruct (N.eqb_spec r a) as [->|Hn]; [discriminate|]. intros H [E|Hin]; [congruence|]. now apply IH.
Qed.

Lemma pigeon (l : list N) (B : N) :
  NoDup l -> (forall x, In x l -> x < B) -> (length l <= N.to_nat B)%nat.
Proof.
  intros Hnd Hlt.
  assert (Hincl : incl l (map N.of_nat (seq 0 (N.to_nat B)))).
  { intros x Hx. apply in_map_iff. exists (N.to_nat x). split; [apply N2Nat.id|].
    apply in_seq. apply Hlt in Hx. lia. }
  pose proof (NoDup_incl_length Hnd Hincl) as H. now rewrite map_length, seq_length in H.
Qed.

Lemma incr_hi lo l hi hi' : hi <= hi' -> incr lo l hi -> incr lo l hi'.
Proof.
  revert lo. induction l as [|x l IH]; cbn; intros lo Hle H; [lia|]. destruct H. split; auto.
Qed.

Lemma heap_get_in i ol (H : list (N * holder)) : NoDup (map fst H) -> In (i, ol) H -> heap_get i H = ol.
Proof.
  induction H as [|[q o] H IH]; cbn; [tauto|]. intros Hnd [E|Hin].
  - inversion E; subst. now rewrite N.eqb_refl.
  - inversion Hnd; subst. destruct (N.eqb_spec i q) as [->|Hn]; [|auto].
    exfalso. apply H2. change q with (fst (q, ol)). now apply in_map.
Qed.

Section Writer.
Variable hp : list (N * holder).
Variable B : N.
Hypothesis Hhp : heap_ok hp B.

Definition Pre (cnt : N) (seen : list (N * N)) : Prop :=
  (forall r i, In (r, i) seen -> i <= cnt) /\ pbij seen /\ NoDup (map fst seen) /\
  (forall r i, In (r, i) seen -> r < B).

(* what one call of the writer guarantees: HP = the holders the reader will create for it *)
Definition G (cnt : N) (seen : list (N * N)) (c : N) (sn : list (N * N)) (HP : list (N * holder)) : Prop :=
  cnt <= c /\ (exists new, sn = new ++ seen) /\ Pre c sn /\ incr cnt (map fst HP) c /\
  (forall r i, In (r, i) sn ->
     In (r, i) seen \/ exists ol, In (i, ol) HP /\ holder_rel sn (heap_get r hp) ol) /\
  (forall i ol, In (i, ol) HP -> exists r, In (r, i) sn).

Definition fc (f : nat) (seen : list (N * N)) : Prop := (N.to_nat B + 1 <= f + length seen)%nat.

Lemma Pre_le cnt c seen : cnt <= c -> Pre cnt seen -> Pre c seen.
Proof.
  intros Hle (H1 & H2 & H3 & H4). split; [|split; [|split]]; auto.
  intros r i Hin. apply H1 in Hin. lia.
Qed.

Lemma G_refl cnt seen : Pre cnt seen -> G cnt seen cnt seen [].
Proof.
  intro Hp. split; [lia|]. split; [now exists []|]. split; [exact Hp|]. split; [cbn; lia|].
  split; [intros r i Hin; now left | intros i ol []].
Qed.

Lemma G_pre cnt seen c sn HP : G cnt seen c sn HP -> Pre c sn.
Proof. intros (_ & _ & H & _). exact H. Qed.

Lemma G_incl cnt seen c sn HP : G cnt seen c sn HP -> incl seen sn.
Proof. intros (_ & (new & ->) & _). intros x Hx. apply in_or_app. now right. Qed.

Lemma G_bump cnt seen c sn HP c' : c <= c' -> G cnt seen c sn HP -> G cnt seen c' sn HP.
Proof.
  intros Hle (H1 & H2 & H3 & H4 & H5). split; [lia|]. split; [exact H2|].
  split; [eapply Pre_le; eauto|]. split; [eapply incr_hi; eauto|exact H5].
Qed.

Lemma G_trans cnt seen c1 s1 HP1 c2 s2 HP2 :
  G cnt seen c1 s1 HP1 -> G c1 s1 c2 s2 HP2 -> G cnt seen c2 s2 (HP1 ++ HP2).
Proof.
  intros (A1 & (n1 & ->) & A3 & A4 & A5 & A6) (B1 & (n2 & ->) & B3 & B4 & B5 & B6).
  split; [lia|]. split; [exists (n2 ++ n1); now rewrite app_assoc|]. split; [exact B3|].
  split; [|split].
  - rewrite map_app. eapply incr_app; eauto.
  - intros r i Hin. destruct (B5 r i Hin) as [Hs1|(ol & Hol & Hr)].
    + destruct (A5 r i Hs1) as [Hs|(ol & Hol & Hr)]; [now left|right].
      exists ol. split; [apply in_or_app; now left|].
      eapply holder_rel_mono; [|exact Hr]. intros x Hx. apply in_or_app. now right.
    + right. exists ol. split; [apply in_or_app; now right|exact Hr].
  - intros i ol Hin. apply in_app_or in Hin. destruct Hin as [Hin|Hin].
    + destruct (A6 i ol Hin) as [r Hr]. exists r. apply in_or_app. now right.
    + eapply B6; eauto.
Qed.

Lemma fc_app f seen new : fc f seen -> fc f (new ++ seen).
Proof. unfold fc. rewrite app_length. lia. Qed.

Definition hold_ok (o : holder) : Prop := forall k v, In (k, v) o -> ref_lt v B.

(* the entries of a holder, given a correct writer for single values *)
Lemma save_hold_ok (sv : value -> N -> list (N * N) -> sres aval) (fcond : list (N * N) -> Prop) :
  (forall seen new, fcond seen -> fcond (new ++ seen)) ->
  (forall v cnt seen, Pre cnt seen -> ref_lt v B -> fcond seen ->
     exists av c sn, sv v cnt seen = Some (av, c, sn) /\ G cnt seen c sn (collect av) /\ vrel sn v (load_val av)) ->
  forall o cnt seen, Pre cnt seen -> hold_ok o -> fcond seen ->
    exists al c sn, save_hold sv o cnt seen = Some (al, c, sn) /\ G cnt seen c sn (collect_l al) /\
                    holder_rel sn o (load_hold al).
Proof.
  intros Hmono Hsv. induction o as [|[k v] o IH]; intros cnt seen Hp Ho Hf.
  - exists ANil, cnt, seen. split; [reflexivity|]. split; [now apply G_refl|constructor].
  - destruct (Hsv v cnt seen Hp) as (av & c1 & s1 & E1 & G1 & V1); [apply (Ho k v); now left|exact Hf|].
    destruct (IH c1 s1) as (al & c2 & s2 & E2 & G2 & R2).
    + eapply G_pre; eauto.
    + intros j w Hin. apply (Ho j w). now right.
    + destruct G1 as (_ & (new & ->) & _). now apply Hmono.
    + exists (ACons k av al), c2, s2. cbn. rewrite E1, E2. split; [reflexivity|]. split.
      * eapply G_trans; eauto.
      * constructor; [|exact R2]. split; [reflexivity|]. cbn.
        eapply vrel_mono; [|exact V1]. eapply G_incl; eauto.
Qed.

Lemma save_ref_ok f :
  (forall v cnt seen, Pre cnt seen -> ref_lt v B -> fc f seen ->
     exists av c sn, save_val f hp v cnt seen = Some (av, c, sn) /\ G cnt seen c sn (collect av) /\ vrel sn v (load_val av)) ->
  forall con r cnt seen, Pre cnt seen -> r < B -> fc (S f) seen ->
    exists av c sn, save_ref (S f) hp con r cnt seen = Some (av, c, sn) /\ G cnt seen c sn (collect av) /\
      In (r, match av with ANew _ i _ | APtr _ i => i | AScal _ => 0 end) sn /\
      (match av with ANew b _ _ | APtr b _ => b = con | AScal _ => False end).
Proof.
  intros IH con r cnt seen Hp Hr Hf. unfold save_ref.
  destruct (assoc r seen) as [i|] eqn:Ea.
  - exists (APtr con i), cnt, seen. split; [reflexivity|]. split; [now apply G_refl|].
    split; [now apply assoc_some|reflexivity].
  - pose proof Hp as (P1 & P2 & P3 & P4).
    set (i := cnt + 1). set (seen1 := (r, i) :: seen).
    assert (Hp1 : Pre i seen1).
    { split; [|split; [|split]].
      - intros q j [E|Hin]; [inversion E; lia|]. apply P1 in Hin. unfold i. lia.
      - apply pbij_cons; auto. intros a b Hin. split.
        + intro; subst. now apply (assoc_none _ _ Ea b).
        + apply P1 in Hin. unfold i. lia.
      - cbn. constructor; [now apply assoc_none_fst|exact P3].
      - intros q j [E|Hin]; [inversion E; subst; exact Hr|]. eapply P4; eauto. }
    assert (Hf1 : fc f seen1) by (unfold fc in *; cbn; lia).
    destruct (save_hold_ok (save_val f hp) (fc f) (fun s n H => fc_app f s n H) IH (heap_get r hp) i seen1 Hp1)
      as (al & c & sn & E & Gh & Rh); [intros k v; apply Hhp|exact Hf1|].
    fold i. fold seen1. rewrite E.
    exists (ANew con i al), c, sn. split; [reflexivity|].
    pose proof Gh as (A1 & (new & Hnew) & A3 & A4 & A5 & A6).
    assert (Hri : In (r, i) sn) by (rewrite Hnew; apply in_or_app; right; now left).
    split; [|split; [|reflexivity]].
    + split; [unfold i in *; lia|]. split; [exists (new ++ [(r, i)]); rewrite Hnew; unfold seen1; now rewrite <- app_assoc|].
      split; [exact A3|]. split; [|split].
      * cbn. split; [unfold i; lia|exact A4].
      * intros q j Hin. destruct (A5 q j Hin) as [[E1|Hs]|(ol & Hol & Hr')].
        -- inversion E1; subst. right. exists (load_hold al). split; [now left|exact Rh].
        -- now left.
        -- right. exists ol. split; [now right|exact Hr'].
      * intros j ol [E1|Hin]; [inversion E1; subst; now exists r | eapply A6; eauto].
    + exact Hri.
Qed.

Lemma save_val_ok : forall f v cnt seen, Pre cnt seen -> ref_lt v B -> fc f seen ->
  exists av c sn, save_val f hp v cnt seen = Some (av, c, sn) /\ G cnt seen c sn (collect av) /\
                  vrel sn v (load_val av).
Proof.
  induction f as [|f IH]; intros v cnt seen Hp Hv Hf.
  - (* no fuel: only possible when every holder identity is already written *)
    destruct v as [sc|r|r].
    + exists (AScal sc), cnt, seen. split; [apply save_val_scal|]. split; [now apply G_refl|reflexivity].
    + rewrite save_val_arr. unfold save_ref. destruct (assoc r seen) as [i|] eqn:Ea.
      * exists (APtr false i), cnt, seen. split; [reflexivity|]. split; [now apply G_refl|]. cbn. now apply assoc_some.
      * exfalso. destruct Hp as (_ & _ & P3 & P4).
        assert (Hnd : NoDup (r :: map fst seen)) by (constructor; [now apply assoc_none_fst|exact P3]).
        pose proof (pigeon _ B Hnd) as Hpg. cbn in Hpg. rewrite map_length in Hpg. unfold fc in Hf.
        assert (length seen + 1 <= N.to_nat B)%nat; [|lia].
        rewrite Nat.add_1_r. apply Hpg. intros x [<-|Hx]; [exact Hv|].
        apply in_map_iff in Hx. destruct Hx as ([a b] & <- & Hin). eapply P4; eauto.
    + rewrite save_val_con. unfold save_ref. destruct (assoc r seen) as [i|] eqn:Ea.
      * exists (APtr true i), cnt, seen. split; [reflexivity|]. split; [now apply G_refl|]. cbn. now apply assoc_some.
      * exfalso. destruct Hp as (_ & _ & P3 & P4).
        assert (Hnd : NoDup (r :: map fst seen)) by (constructor; [now apply assoc_none_fst|exact P3]).
        pose proof (pigeon _ B Hnd) as Hpg. cbn in Hpg. rewrite map_length in Hpg. unfold fc in Hf.
        assert (length seen + 1 <= N.to_nat B)%nat; [|lia].
        rewrite Nat.add_1_r. apply Hpg. intros x [<-|Hx]; [exact Hv|].
        apply in_map_iff in Hx. destruct Hx as ([a b] & <- & Hin). eapply P4; eauto.
  - destruct v as [sc|r|r].
    + exists (AScal sc), cnt, seen. split; [apply save_val_scal|]. split; [now apply G_refl|reflexivity].
    + rewrite save_val_arr.
      destruct (save_ref_ok f IH false r cnt seen Hp Hv Hf) as (av & c & sn & E & Gv & Hin & Hk).
      exists av, c, sn. split; [exact E|]. split; [exact Gv|].
      destruct av as [|b i al|b i]; cbn in *; try contradiction; subst b; exact Hin.
    + rewrite save_val_con.
      destruct (save_ref_ok f IH true r cnt seen Hp Hv Hf) as (av & c & sn & E & Gv & Hin & Hk).
      exists av, c, sn. split; [exact E|]. split; [exact Gv|].
      destruct av as [|b i al|b i]; cbn in *; try contradiction; subst b; exact Hin.
Qed.

(* ---------------------------------------------------------------- threads, chains, instances *)
Lemma env_holder_rel m e o : holder_rel m (env_holder e) o -> env_rel m e (holder_env o).
Proof.
  revert o. induction e as [|[x v] e IH]; intros o H; inversion H as [|a b l1 l2 [Hf Hv] Hr]; subst; cbn.
  - constructor.
  - constructor; [|now apply IH]. cbn in *. split; [|exact Hv]. rewrite <- Hf. cbn. now rewrite N2Z.id.
Qed.

Lemma env_holder_ok e : env_ok e B -> hold_ok (env_holder e).
Proof.
  intros Hok k v Hin. unfold env_holder in Hin. apply in_map_iff in Hin.
  destruct Hin as ([x w] & E & Hin). inversion E; subst. eapply Hok; eauto.
Qed.

Lemma save_thread_ok f t cnt seen :
  Pre cnt seen -> env_ok (tenv t) B -> fc f seen ->
  exists a c sn, save_thread f hp t cnt seen = Some (a, c, sn) /\ G cnt seen c sn (collect_l (a_vars a)) /\
    a_pos a = c /\ cnt < c /\ a_code a = tcode t /\ env_rel sn (tenv t) (tenv (load_thread a)).
Proof.
  intros Hp Hok Hf. unfold save_thread.
  destruct (save_hold_ok (save_val f hp) (fc f) (fun s n H => fc_app f s n H) (save_val_ok f)
                         (env_holder (tenv t)) cnt seen Hp (env_holder_ok _ Hok) Hf) as (al & c & sn & E & Gh & Rh).
  rewrite E. exists (mkAThr al (c + 1) (tcode t)), (c + 1), sn. split; [reflexivity|]. cbn.
  split; [eapply G_bump; [|exact Gh]; lia|]. split; [reflexivity|].
  split; [destruct Gh as (H & _); lia|]. split; [reflexivity|]. now apply env_holder_rel.
Qed.

Definition Qr (es : list elem) (sn : list (N * N)) (h : N) (a : athread) : Prop :=
  exists t, find_thread h es = Some t /\ a_code a = tcode t /\ env_rel sn (tenv t) (tenv (load_thread a)).

Lemma Qr_mono es sn sn' c l : incl sn sn' -> Forall2 (Qr es sn) c l -> Forall2 (Qr es sn') c l.
Proof.
  intros Hi H. eapply Forall2_impl; [|exact H]. intros h a (t & H1 & H2 & H3).
  exists t. split; [exact H1|]. split; [exact H2|]. eapply env_rel_mono; eauto.
Qed.

Definition heap_of (l : list athread) : list (N * holder) := concat (map (fun x => collect_l (a_vars x)) l).

Lemma save_chain_ok f es : forall c cnt seen hm,
  Pre cnt seen -> fc f seen ->
  (forall h, In h c -> exists t, find_thread h es = Some t /\ env_ok (tenv t) B) ->
  exists l c2 s2, save_chain f hp c es cnt seen hm = Some (l, c2, s2, rev (combine c (map a_pos l)) ++ hm) /\
    G cnt seen c2 s2 (heap_of l) /\ Forall2 (Qr es s2) c l /\ incr cnt (map a_pos l) c2.
Proof.
  induction c as [|h c IH]; intros cnt seen hm Hp Hf Hfind.
  - exists [], cnt, seen. cbn. split; [reflexivity|]. split; [now apply G_refl|]. split; [constructor|lia].
  - destruct (Hfind h (or_introl eq_refl)) as (t & Ht & Hok). cbn. rewrite Ht.
    destruct (save_thread_ok f t cnt seen Hp Hok Hf) as (a & c1 & s1 & E1 & G1 & Hpos & Hlt & Hcode & Henv).
    rewrite E1.
    destruct (IH c1 s1 ((h, c1) :: hm)) as (l & c2 & s2 & E2 & G2 & Q2 & I2).
    + eapply G_pre; eauto.
    + destruct G1 as (_ & (new & ->) & _). now apply fc_app.
    + intros h' Hin. apply Hfind. now right.
    + rewrite E2. exists (a :: l), c2, s2. split; [|split; [|split]].
      * cbn. rewrite Hpos. rewrite <- app_assoc. reflexivity.
      * unfold heap_of. cbn. eapply G_trans; eauto.
      * constructor; [|exact Q2]. exists t. split; [exact Ht|]. split; [exact Hcode|].
        eapply env_rel_mono; [|exact Henv]. eapply G_incl; eauto.
      * cbn. rewrite Hpos. split; auto.
Qed.

Definition all_at (l : list ainst) : list athread := concat (map ai_threads l).
Definition allpos (l : list ainst) : list N := concat (map (fun ai => map a_pos (ai_threads ai)) l).

Lemma heap_of_app l1 l2 : heap_of (l1 ++ l2) = heap_of l1 ++ heap_of l2.
Proof. unfold heap_of. now rewrite map_app, concat_app. Qed.

Lemma save_insts_ok f es : forall i cnt seen hm,
  Pre cnt seen -> fc f seen ->
  (forall h, In h (concat i) -> exists t, find_thread h es = Some t /\ env_ok (tenv t) B) ->
  exists l c2 s2, save_insts f hp i es cnt seen hm = Some (l, c2, s2, rev (combine (concat i) (allpos l)) ++ hm) /\
    G cnt seen c2 s2 (heap_of (all_at l)) /\
    Forall2 (fun c ai => Forall2 (Qr es s2) c (ai_threads ai)) i l /\ incr cnt (allpos l) c2.
Proof.
  induction i as [|c i IH]; intros cnt seen hm Hp Hf Hfind.
  - exists [], cnt, seen. cbn. split; [reflexivity|]. split; [now apply G_refl|]. split; [constructor|lia].
  - cbn.
    destruct (save_chain_ok f es c (cnt + 1) seen hm) as (ts & c1 & s1 & E1 & G1 & Q1 & I1).
    { eapply Pre_le; [|exact Hp]. lia. } { exact Hf. }
    { intros h Hin. apply Hfind. cbn. apply in_or_app. now left. }
    rewrite E1.
    destruct (IH c1 s1 (rev (combine c (map a_pos ts)) ++ hm)) as (l & c2 & s2 & E2 & G2 & Q2 & I2).
    { eapply G_pre; eauto. }
    { destruct G1 as (_ & (new & ->) & _). now apply fc_app. }
    { intros h Hin. apply Hfind. cbn. apply in_or_app. now right. }
    rewrite E2. exists (mkAInst (cnt + 1) ts :: l), c2, s2. split; [|split; [|split]].
    + unfold allpos. cbn. fold (allpos l).
      rewrite combine_app by (rewrite map_length; eapply Forall2_len; eauto).
      rewrite rev_app_distr, <- app_assoc. reflexivity.
    + change (all_at (mkAInst (cnt + 1) ts :: l)) with (ts ++ all_at l). rewrite heap_of_app.
      eapply G_trans; [|exact G2].
      destruct G1 as (A1 & A2 & A3 & A4 & A5). split; [lia|]. split; [exact A2|]. split; [exact A3|].
      split; [eapply incr_lo; [|exact A4]; lia|exact A5].
    + constructor; [|exact Q2]. cbn. eapply Qr_mono; [|exact Q1]. eapply G_incl; eauto.
    + unfold allpos. cbn. fold (allpos l). eapply incr_app; [|exact I2].
      eapply incr_lo; [|exact I1]. lia.
Qed.

End Writer.

Lemma nested_in_combine {R : N -> athread -> Prop} i l :
  Forall2 (fun c ai => Forall2 R c (ai_threads ai)) i l ->
  Forall2 (fun c ai => Forall2 (fun h a => In (h, a_pos a) (combine (concat i) (allpos l))) c (ai_threads ai)) i l.
Proof.
  intro H. induction H as [|c ai i l Hc _ IH]; [constructor|].
  assert (Hlen : length c = length (map a_pos (ai_threads ai))) by (rewrite map_length; eapply Forall2_len; eauto).
  unfold allpos. cbn. fold (allpos l). rewrite combine_app by exact Hlen. constructor.
  - eapply Forall2_impl; [|apply (Forall2_combine _ _ _ Hc)]. cbn. intros h a [_ Hin].
    apply in_or_app. left. now apply in_combine_map'.
  - eapply Forall2_impl; [|exact IH]. cbn. intros c' ai' Hf.
    eapply Forall2_impl; [|exact Hf]. cbn. intros h a Hin. apply in_or_app. now right.
Qed.

(* ---------------------------------------------------------------- timer elements *)
Lemma find_thread_in h es : In h (map eh es) -> exists e, In e es /\ find_thread h es = Some (ethr e).
Proof.
  induction es as [|e es IH]; cbn; [tauto|]. intros [E|Hin].
  - exists e. split; [now left|]. unfold eh in E. rewrite E. now rewrite N.eqb_refl.
  - destruct (N.eqb_spec h (th (ethr e))) as [->|Hn].
    + exists e. split; [now left|reflexivity].
    + destruct (IH Hin) as (e' & He' & Hf). exists e'. split; [now right|exact Hf].
Qed.

Lemma find_thread_nodup e es : NoDup (map eh es) -> In e es -> find_thread (eh e) es = Some (ethr e).
Proof.
  induction es as [|x es IH]; cbn; [tauto|]. intros Hnd [->|Hin].
  - unfold eh. now rewrite N.eqb_refl.
  - inversion Hnd; subst. destruct (N.eqb_spec (eh e) (th (ethr x))) as [E|Hn].
    + exfalso. apply H1. change (th (ethr x)) with (eh x) in E. rewrite <- E. now apply in_map.
    + auto.
Qed.

Lemma find_loaded_ok x ts : NoDup (map th ts) -> In x ts -> find_loaded (th x) ts = Some x.
Proof.
  induction ts as [|y ts IH]; cbn; [tauto|]. intros Hnd [->|Hin].
  - now rewrite N.eqb_refl.
  - inversion Hnd; subst. destruct (N.eqb_spec (th x) (th y)) as [E|Hn].
    + exfalso. apply H1. rewrite <- E. now apply in_map.
    + auto.
Qed.

Lemma save_elems_ok hm : forall es,
  (forall e, In e es -> exists p, assoc (eh e) hm = Some p) ->
  exists ae, save_elems es hm = Some ae /\
    Forall2 (fun e ip => assoc (eh e) hm = Some (fst ip) /\ snd ip = etime e) es ae.
Proof.
  induction es as [|e es IH]; intro Hf.
  - exists []. split; [reflexivity|constructor].
  - destruct (Hf e (or_introl eq_refl)) as [p Hp].
    destruct IH as (ae & Hs & Hall). { intros e' Hin. apply Hf. now right. }
    exists ((p, etime e) :: ae). split.
    + cbn. unfold eh in Hp. rewrite Hp, Hs. reflexivity.
    + constructor; auto.
Qed.

Lemma load_elems_ok ts : forall (es : list elem) ae (P : elem -> thread -> Prop),
  Forall2 (fun e ip => (exists x, find_loaded (fst ip) ts = Some x /\ P e x) /\ snd ip = etime e) es ae ->
  exists es2, load_elems ae ts = Some es2 /\
    Forall2 (fun e e2 => etime e2 = etime e /\ P e (ethr e2)) es es2.
Proof.
  intros es ae P H. induction H as [|e [i t] es ae [(x & Hx & Hp) Ht] _ IH].
  - exists []. split; [reflexivity|constructor].
  - destruct IH as (es2 & Hl & Hall). cbn in Hx, Ht. subst t.
    exists (mkElem x (etime e) :: es2). split.
    + cbn. rewrite Hx, Hl. reflexivity.
    + constructor; auto.
Qed.

Lemma chains_of hm i (l : list ainst) :
  Forall2 (fun c a => Forall2 (fun h x => In (h, a_pos x) hm) c (ai_threads a)) i l ->
  Forall2 (chain_rel hm) i (map (fun a => map a_pos (ai_threads a)) l).
Proof.
  intro H. induction H as [|c a i l Hc _ IH]; cbn; constructor; auto.
  unfold chain_rel. clear -Hc. induction Hc; cbn; constructor; auto.
Qed.

(* ---------------------------------------------------------------- the theorem *)
Lemma holder_rel_ok m o ol n : holder_rel m o ol -> (forall r i, In (r, i) m -> i < n) -> forall k v, In (k, v) ol -> ref_lt v n.
Proof.
  intros H Hb. induction H as [|[k1 v1] [k2 v2] l1 l2 [_ Hv] _ IH]; cbn; [tauto|].
  intros k v [E|Hin]; [|eauto]. inversion E; subst. cbn in Hv.
  destruct v1, v; cbn in *; try contradiction; auto; eapply Hb; eauto.
Qed.

Lemma heap_get_cases r (H : list (N * holder)) : heap_get r H = [] \/ In (r, heap_get r H) H.
Proof.
  induction H as [|[q o] H IH]; cbn; [now left|].
  destruct (N.eqb_spec r q) as [->|Hn]; [right; now left|]. destruct IH; [now left|right; now right].
Qed.

Theorem load_save_iso s :
  wf s -> exists a s', save s = Some a /\ load a (reset s) = Some s' /\ iso s s' /\
                       heap_ok (heap s') (nextr s').
Proof.
  intros (Hnd & Hperm & Hbnd & Hok & Hhp).
  set (H := concat (insts s)). set (es := elems s). set (B := nextr s). set (hp := heap s).
  set (f := S (N.to_nat B)).
  assert (Hnde : NoDup (map eh es)) by (eapply Permutation_NoDup; eauto).
  assert (Hfind : forall h, In h H -> exists t, find_thread h es = Some t /\ env_ok (tenv t) B).
  { intros h Hin. assert (Hin' : In h (map eh es)) by (eapply Permutation_in; eauto).
    destruct (find_thread_in h es Hin') as (e & He & Hf). exists (ethr e). split; auto.
    rewrite Forall_forall in Hok. now apply Hok. }
  assert (Hpre0 : Pre B 0 []).
  { split; [intros ? ? []|]. split; [intros ? ? ? ? []|]. split; [constructor|intros ? ? []]. }
  assert (Hfc0 : fc B f []) by (unfold fc, f; cbn; lia).
  destruct (save_insts_ok hp B Hhp f es (insts s) 0 [] [] Hpre0 Hfc0 Hfind) as (ai & nc & m & Hsi & HG & Hq & Hinc).
  rewrite app_nil_r in Hsi. fold H in Hsi.
  set (P := allpos ai) in *. set (hm := rev (combine H P)) in *.
  set (AT := all_at ai) in *.
  assert (HP : P = map a_pos AT).
  { unfold P, allpos, AT, all_at. rewrite concat_map, map_map. reflexivity. }
  assert (HQ : Forall2 (Qr es m) H AT).
  { unfold H, AT, all_at. apply Forall2_concat.
    clear -Hq. induction Hq; cbn; constructor; auto. }
  assert (Hlen : length H = length P) by (rewrite HP, map_length; eapply Forall2_len; eauto).
  assert (HndP : NoDup P) by (eapply incr_nodup; eauto).
  assert (Hassoc : forall h p, In (h, p) (combine H P) -> assoc h hm = Some p).
  { intros h p Hin. apply assoc_nodup.
    - unfold hm. rewrite map_rev, map_fst_combine by exact Hlen. now apply NoDup_rev.
    - unfold hm. now apply -> in_rev. }
  destruct HG as (_ & _ & (Pm1 & Pm2 & Pm3 & Pm4) & HincH & Hm5 & Hm6).
  set (HPL := heap_of AT) in *.
  (* the timer elements are written *)
  destruct (save_elems_ok hm es) as (ae & Hse & Hae).
  { intros e Hin. assert (Hh : In (eh e) H).
    { eapply Permutation_in; [apply Permutation_sym; exact Hperm|]. now apply in_map. }
    destruct (in_combine_exists H P (eh e) Hlen Hh) as [p Hp]. exists p. now apply Hassoc. }
  (* loading *)
  set (ts := map load_thread AT).
  assert (Hth : map th ts = P).
  { unfold ts. rewrite HP, map_map. apply map_ext. intros a. reflexivity. }
  set (Pr := fun (e : elem) (x : thread) => thr_rel hm m (ethr e) x).
  destruct (load_elems_ok ts es ae Pr) as (es2 & Hle & Hes2).
  { eapply Forall2_impl_in; [|exact Hae]. cbn. intros e [p t] Hine [Ha Ht].
    cbn in Ha, Ht. split; [|exact Ht]. cbn.
    apply assoc_some in Ha. unfold hm in Ha. apply in_rev in Ha.
    rewrite HP in Ha. destruct (in_combine_map a_pos H AT (eh e) p Ha) as (a & Hina & Hpa).
    pose proof (Forall2_in_combine _ _ _ _ _ HQ Hina) as (t0 & Hf & Hcode & Henv).
    rewrite (find_thread_nodup e es Hnde Hine) in Hf. inversion Hf; subst t0. clear Hf.
    exists (load_thread a). split.
    + assert (Hin_ts : In (load_thread a) ts).
      { unfold ts. apply in_map. eapply in_combine_r; eauto. }
      pose proof (find_loaded_ok (load_thread a) ts) as Hfl. cbn in Hfl. rewrite Hpa in Hfl.
      apply Hfl; auto. rewrite Hth. exact HndP.
    + unfold Pr. split; [|split].
      * cbn. unfold hm. apply -> in_rev. rewrite HP.
        apply (in_combine_map' a_pos H AT (eh e) a Hina).
      * cbn. now rewrite Hcode.
      * exact Henv. }
  exists (mkArc nc ai (dirty s) (mtime s) ae).
  exists (mkSt es2 (rev (map (fun a => map a_pos (ai_threads a)) ai)) HPL (mtime s) (dirty s)
               (scaled s) (lastclk s) (startclk s) (clock s) (nc + 1) (nc + 1)).
  split; [|split; [|split]].
  - unfold save. fold B f hp es. rewrite Hsi. fold hm. rewrite Hse. reflexivity.
  - unfold load, all_athreads. cbn [a_nclasses a_insts a_dirty a_mtime a_elems reset scaled lastclk startclk clock].
    fold (all_at ai). fold AT. fold ts. rewrite Hle. reflexivity.
  - exists hm, m. srel.
    + eapply Forall2_impl; [|exact Hes2]. cbn. intros e e2 [Ht Hr]. split; auto.
    + exists (rev (insts s)). split; [apply Permutation_rev|].
      apply Forall2_rev.
      apply chains_of. pose proof (nested_in_combine (insts s) ai Hq) as Hn.
      fold H in Hn. fold P in Hn.
      eapply Forall2_impl; [|exact Hn]. cbn. intros c a Hc.
      eapply Forall2_impl; [|exact Hc]. cbn. intros h x Hin. unfold hm. now apply -> in_rev.
    + (* the holders *)
      intros r i Hin. destruct (Hm5 r i Hin) as [[]|(ol & Hol & Hr)].
      rewrite (heap_get_in i ol HPL); [exact Hr| |exact Hol].
      eapply incr_nodup; eauto.
    + eapply pbij_incl; [|apply (pbij_combine H P Hnd HndP)].
      intros x Hx. unfold hm in Hx. now apply in_rev in Hx.
    + intros a b Hin. unfold hm in Hin. apply in_rev in Hin. split.
      * apply Hbnd. eapply in_combine_l; eauto.
      * apply in_combine_r in Hin. pose proof (incr_range _ _ _ _ Hinc Hin). lia.
    + intros a b Hin. split; [eapply Pm4; eauto|]. apply Pm1 in Hin. lia.
  - (* every reference inside a loaded holder is an archive index *)
    cbn. intros q k v Hin.
    destruct (heap_get_cases q HPL) as [E|Hqq]; [rewrite E in Hin; contradiction|].
    destruct (Hm6 _ _ Hqq) as [r Hr].
    destruct (Hm5 r q Hr) as [[]|(ol & Hol & Hrel)].
    assert (ol = heap_get q HPL).
    { symmetry. apply heap_get_in; [eapply incr_nodup; eauto|exact Hol]. }
    subst ol. eapply holder_rel_ok; [exact Hrel| |exact Hin].
    intros a b Hab. apply Pm1 in Hab. lia.
Qed.
