(* C09/Extract.v — extraction of the model (ExtrOcamlBasic only). *)
Require Extraction.
Require Import ExtrOcamlBasic.
From Morfuse Require Import C09.Model.
Extraction "C09_model.ml" init step save load reset save_reset_load run state_after.
