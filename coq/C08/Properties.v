From Morfuse Require Import C08.Model C08.Spec.
