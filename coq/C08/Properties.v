(* C08/Properties.v — the property theorems of C08, and nothing else.
   Every theorem is closed by [exact <lemma>] and followed by Print Assumptions. *)
From Coq Require Import ZArith NArith List Bool.
From Morfuse Require Import C08.Model C08.Spec C08.Proofs.
Import ListNotations.
Local Open Scope Z_scope.

(* For EVERY history of posts (any delay, also negative), cancels, listener destructions,
   clock advances and processing passes - handlers may post further (already due) events,
   cancel and destroy re-entrantly - the queue with PostEvent's three-way insertion and the
   pop-the-root pass observes exactly what the pending-bag specification of C08/Spec.v
   observes: the same deliveries in the same order ((due time, posting order) minimal
   first, only when due), the same number of pending events, the same IsEventPending. *)
Theorem C08_queue_refines_the_pending_bag :
  forall ops : list op, run ops = spec_run ops.
Proof. exact run_refines_spec. Qed.
Print Assumptions C08_queue_refines_the_pending_bag.

(* A pass always ends within its fuel (every delivery strictly decreases the weight: the
   posts a handler can make were counted in the delivered node), for every state. *)
Theorem C08_a_pass_never_hangs :
  forall s : st, process (weight (q s)) s [] <> None.
Proof. exact process_never_hangs. Qed.
Print Assumptions C08_a_pass_never_hangs.

Theorem C08_a_spec_pass_never_hangs :
  forall s : st, spec_process (weight (q s)) s [] <> None.
Proof. exact spec_process_never_hangs. Qed.
Print Assumptions C08_a_spec_pass_never_hangs.

Theorem C08_no_history_reports_a_hung_pass :
  forall ops : list op, ~ In None (run ops).
Proof. exact run_never_hangs. Qed.
Print Assumptions C08_no_history_reports_a_hung_pass.

(* After a pass the clock is unchanged and nothing that is due stays pending: an event is
   delivered in the first pass whose time is >= its due time, unless cancelled. *)
Theorem C08_spec_pass_leaves_nothing_due :
  forall f s log s' log',
    spec_process f s log = Some (s', log') ->
    now s' = now s /\ forall x, In x (q s') -> now s' < ntime x.
Proof. exact spec_process_not_early. Qed.
Print Assumptions C08_spec_pass_leaves_nothing_due.

(* The same for the model, on every state whose queue is sorted by (time, seq) with
   distinct sequence numbers below nextseq; [step] preserves that invariant. *)
Theorem C08_pass_leaves_nothing_due :
  forall f s log s' log',
    qinv (q s) (nextseq s) ->
    process f s log = Some (s', log') ->
    now s' = now s /\ forall x, In x (q s') -> now s' < ntime x.
Proof. exact process_not_early. Qed.
Print Assumptions C08_pass_leaves_nothing_due.

Theorem C08_every_operation_keeps_the_queue_sorted :
  forall s o s' ob,
    qinv (q s) (nextseq s) -> step s o = Some (s', ob) -> qinv (q s') (nextseq s').
Proof. exact step_keeps_qinv. Qed.
Print Assumptions C08_every_operation_keeps_the_queue_sorted.

(* Cancelling removes exactly the events named and nothing else. *)
Theorem C08_cancel_removes_exactly_the_named_events :
  forall p l,
    cancel p l = filter (fun x => negb (p x)) l /\
    forall x, In x (cancel p l) <-> In x l /\ p x = false.
Proof. exact cancel_exact. Qed.
Print Assumptions C08_cancel_removes_exactly_the_named_events.

(* Non-vacuity: ties at time 5 (seq 0, 1, 4), a negative delay (seq 2, to the front), an
   insertion in the middle (seq 3), a cancel by type (seq 4), a handler (of seq 1) that
   posts an already-due event (seq 8, delivered in the same pass) and cancels listener 0's
   events (seq 5, 6), three passes.  Shown: (deliveries (seq, listener, type), pending). *)
Example C08_history_example :
  map (option_map (fun o => (delivered o, npending o)))
      (run [ ODo (APost 0 0 5 0 []);
             ODo (APost 1 1 5 0 [APost 2 2 (-3) 0 []; ACancelAll 0]);
             ODo (APost 0 1 (-2) 0 []);
             ODo (APost 2 0 3 0 []);
             ODo (APost 1 2 5 1 []);
             ODo (APost 0 2 9 0 []);
             ODo (APost 0 0 7 0 []);
             ODo (APost 2 1 12 0 []);
             ODo (ACancelType 1 2);
             OProcess; OAdvance 5; OProcess; OAdvance 10; OProcess ]) =
  [ Some ([], 1%nat); Some ([], 2%nat); Some ([], 3%nat); Some ([], 4%nat);
    Some ([], 5%nat); Some ([], 6%nat); Some ([], 7%nat); Some ([], 8%nat);
    Some ([], 7%nat);
    Some ([(2, 0, 1)], 6%nat); Some ([], 6%nat);
    Some ([(3, 2, 0); (0, 0, 0); (1, 1, 1); (8, 2, 2)], 1%nat); Some ([], 1%nat);
    Some ([(7, 2, 1)], 0%nat) ]%N.
Proof. vm_compute. reflexivity. Qed.

(* the queue itself after the posts and the cancel: sorted by (time, seq) *)
Example C08_queue_example :
  map (fun x => (ntime x, nseq x))
      (q (fold_left do_act
            [ APost 0 0 5 0 []; APost 1 1 5 0 []; APost 0 1 (-2) 0 []; APost 2 0 3 0 [];
              APost 1 2 5 1 []; APost 0 2 9 0 []; APost 0 0 7 0 []; ACancelType 1 2 ] init)) =
  [ (-2, 2%N); (3, 3%N); (5, 0%N); (5, 1%N); (7, 6%N); (9, 5%N) ].
Proof. vm_compute. reflexivity. Qed.
