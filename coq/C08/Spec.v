(* C08/Spec.v — the abstract specification of posted events: an unordered bag of pending
   events (kept in posting order only for definiteness).  A processing pass repeatedly
   delivers the pending event that is minimal in (due time, posting sequence) as long as it
   is due; cancelling removes exactly the events named; a destroyed listener loses its
   events.  Nothing here knows about insertion positions or list ends. *)
From Coq Require Import ZArith NArith List Bool.
From Morfuse Require Import C08.Model.
Import ListNotations.
Local Open Scope Z_scope.

Definition node_ltb (a b : node) : bool :=
  (ntime a <? ntime b) || ((ntime a =? ntime b) && (nseq a <? nseq b)%N).

Fixpoint min_node (n : node) (l : list node) : node :=
  match l with
  | [] => n
  | x :: l' => min_node (if node_ltb x n then x else n) l'
  end.

Definition remove_seq (k : N) (l : list node) : list node :=
  filter (fun x => negb (N.eqb (nseq x) k)) l.

Definition spec_act (s : st) (a : act) : st :=
  match a with
  | APost l ty delay fl h =>
      if memN l (dead s) then s
      else mkSt (q s ++ [mkNode (nextseq s) l ty (now s + delay) fl h])
                (now s) (nextseq s + 1) (dead s)
  | ACancelType l ty =>
      if memN l (dead s) then s else mkSt (cancel (is_type l ty) (q s)) (now s) (nextseq s) (dead s)
  | ACancelAll l =>
      if memN l (dead s) then s else mkSt (cancel (is_lis l) (q s)) (now s) (nextseq s) (dead s)
  | ACancelFlagged l fl =>
      if memN l (dead s) then s else mkSt (cancel (is_flagged l fl) (q s)) (now s) (nextseq s) (dead s)
  | ADestroy l =>
      if memN l (dead s) then s
      else mkSt (cancel (is_lis l) (q s)) (now s) (nextseq s) (l :: dead s)
  end.

Definition spec_acts (s : st) (l : list act) : st := fold_left spec_act l s.

Fixpoint spec_process (fuel : nat) (s : st) (log : list delivery) : option (st * list delivery) :=
  match q s with
  | [] => Some (s, log)
  | x :: r =>
      let m := min_node x r in
      if now s <? ntime m then Some (s, log)
      else match fuel with
           | O => None
           | S f =>
               let s1 := mkSt (remove_seq (nseq m) (q s)) (now s) (nextseq s) (dead s) in
               spec_process f (spec_acts s1 (nhandler m)) ((nseq m, nlis m, nty m) :: log)
           end
  end.

Definition spec_step (s : st) (o : op) : option (st * obs) :=
  match o with
  | ODo a => let s' := spec_act s a in Some (s', observe s' [])
  | OAdvance dt => let s' := mkSt (q s) (now s + dt) (nextseq s) (dead s) in Some (s', observe s' [])
  | OProcess =>
      match spec_process (weight (q s)) s [] with
      | Some (s', log) => Some (s', observe s' (rev log))
      | None => None
      end
  end.

Fixpoint spec_from (s : st) (ops : list op) : list (option obs) :=
  match ops with
  | [] => []
  | o :: ops' =>
      match spec_step s o with
      | Some (s', ob) => Some ob :: spec_from s' ops'
      | None => [None]
      end
  end.

Definition spec_run (ops : list op) : list (option obs) := spec_from init ops.
