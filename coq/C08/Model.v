(* C08/Model.v — executable model of EventQueue (src/Script/EventQueue.cpp) as used through
   Listener::PostEvent / Cancel* / ~Listener and EventContext's processing pass.

   Code level: PostEvent's three-way insertion (Add when the list is empty or the new time
   is not below the tail's; scan-and-Insert before the first node with a larger time when
   the new time is not below the root's; AddFirst otherwise), ProcessPendingEvents (the
   time is read once; pop the root while root.time <= t; remove, deliver, free), the three
   Cancel* loops, listener destruction = CancelPendingEvents.
   Abstracted: LinkedList<EventQueueNode*> is a Coq list (Add = append, AddFirst = cons,
   Insert = insert before, Remove = delete the node, Root = head, Tail = last).
   A handler is data: the list of actions the listener performs when the event is
   delivered (posting further events - possibly already due -, cancelling, destroying
   other listeners), so re-entrancy is structural. *)
From Coq Require Import ZArith NArith List Bool.
Import ListNotations.
Local Open Scope Z_scope.

Inductive act :=
| APost (l ty : N) (delay : Z) (flags : N) (handler : list act)
| ACancelType (l ty : N)
| ACancelAll (l : N)
| ACancelFlagged (l flags : N)
| ADestroy (l : N).

Inductive op :=
| ODo (a : act)
| OProcess
| OAdvance (dt : Z).

Record node := mkNode {
  nseq : N;                 (* identity: the number of the post *)
  nlis : N; nty : N;
  ntime : Z; nflags : N;
  nhandler : list act }.

Record st := mkSt {
  q : list node;            (* the queue, root first *)
  now : Z;                  (* TimeManager::GetTime() *)
  nextseq : N;
  dead : list N }.          (* destroyed listeners *)

Definition init : st := mkSt [] 0 0 [].

Definition memN (x : N) (l : list N) : bool := existsb (N.eqb x) l.

(* the scan of PostEvent: Insert before the first node whose time is larger *)
Fixpoint insert_before_greater (l : list node) (n : node) : list node :=
  match l with
  | [] => [n]                                   (* assert(i): not reachable, see post_insert *)
  | x :: l' => if ntime n <? ntime x then n :: x :: l'
               else x :: insert_before_greater l' n
  end.

Definition post_insert (l : list node) (n : node) : list node :=
  match l with
  | [] => [n]
  | r :: _ =>
      if ntime n <? ntime (last l r) then
        if ntime r <=? ntime n then insert_before_greater l n
        else n :: l
      else l ++ [n]
  end.

Definition cancel (p : node -> bool) (l : list node) : list node :=
  filter (fun x => negb (p x)) l.

Definition is_type (l ty : N) (x : node) : bool := N.eqb (nlis x) l && N.eqb (nty x) ty.
Definition is_lis (l : N) (x : node) : bool := N.eqb (nlis x) l.
Definition is_flagged (l fl : N) (x : node) : bool :=
  N.eqb (nlis x) l && negb (N.eqb (N.land (nflags x) fl) 0).

(* one action of a client or of a handler; actions on destroyed listeners cannot be
   expressed by a client and are skipped *)
Definition do_act (s : st) (a : act) : st :=
  match a with
  | APost l ty delay fl h =>
      if memN l (dead s) then s
      else mkSt (post_insert (q s) (mkNode (nextseq s) l ty (now s + delay) fl h))
                (now s) (nextseq s + 1) (dead s)
  | ACancelType l ty =>
      if memN l (dead s) then s else mkSt (cancel (is_type l ty) (q s)) (now s) (nextseq s) (dead s)
  | ACancelAll l =>
      if memN l (dead s) then s else mkSt (cancel (is_lis l) (q s)) (now s) (nextseq s) (dead s)
  | ACancelFlagged l fl =>
      if memN l (dead s) then s else mkSt (cancel (is_flagged l fl) (q s)) (now s) (nextseq s) (dead s)
  | ADestroy l =>
      if memN l (dead s) then s
      else mkSt (cancel (is_lis l) (q s)) (now s) (nextseq s) (l :: dead s)
  end.

Definition do_acts (s : st) (l : list act) : st := fold_left do_act l s.

(* a delivery: (sequence number of the post, listener, type) *)
Definition delivery := (N * N * N)%type.

(* ProcessPendingEvents; None = the loop did not end within the fuel *)
Fixpoint process (fuel : nat) (s : st) (log : list delivery) : option (st * list delivery) :=
  match q s with
  | [] => Some (s, log)
  | n :: rest =>
      if now s <? ntime n then Some (s, log)
      else match fuel with
           | O => None
           | S f =>
               let s1 := mkSt rest (now s) (nextseq s) (dead s) in
               (* the handler runs; a listener destroyed by an earlier handler of this pass
                  has no events left, so [n]'s listener is alive here *)
               process f (do_acts s1 (nhandler n)) ((nseq n, nlis n, nty n) :: log)
           end
  end.

(* how many posts an action list can still cause (the loop measure) *)
Local Open Scope nat_scope.
Fixpoint posts_in (a : act) : nat :=
  match a with
  | APost _ _ _ _ h => S ((fix go (l : list act) : nat :=
                             match l with [] => 0 | x :: l' => posts_in x + go l' end) h)
  | _ => 0
  end.
Fixpoint posts_in_list (l : list act) : nat :=
  match l with [] => 0 | x :: l' => posts_in x + posts_in_list l' end.
Definition weight (l : list node) : nat :=
  fold_right (fun x acc => S (posts_in_list (nhandler x)) + acc) 0 l.
Local Close Scope nat_scope.

(* observation after every operation *)
Record obs := mkObs {
  delivered : list delivery;       (* this operation's deliveries, in order *)
  npending : nat;                  (* GetNumPendingEvents *)
  pending_of : list bool }.        (* IsEventPending(l, ty) for l, ty < 3, row-major *)

Definition pairs33 : list (N * N) :=
  [(0,0);(0,1);(0,2);(1,0);(1,1);(1,2);(2,0);(2,1);(2,2)]%N.

Definition observe (s : st) (d : list delivery) : obs :=
  mkObs d (length (q s))
        (map (fun p => existsb (is_type (fst p) (snd p)) (q s)) pairs33).

Definition step (s : st) (o : op) : option (st * obs) :=
  match o with
  | ODo a => let s' := do_act s a in Some (s', observe s' [])
  | OAdvance dt => let s' := mkSt (q s) (now s + dt) (nextseq s) (dead s) in Some (s', observe s' [])
  | OProcess =>
      match process (weight (q s)) s [] with
      | Some (s', log) => Some (s', observe s' (rev log))
      | None => None
      end
  end.

Fixpoint run_from (s : st) (ops : list op) : list (option obs) :=
  match ops with
  | [] => []
  | o :: ops' =>
      match step s o with
      | Some (s', ob) => Some ob :: run_from s' ops'
      | None => [None]
      end
  end.

Definition run (ops : list op) : list (option obs) := run_from init ops.
