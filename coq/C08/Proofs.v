(* C08/Proofs.v — the event queue model (three-way insertion, pop-the-root pass) refines the
   pending-bag specification of C08/Spec.v, for every history; the pass terminates within
   its fuel; nothing due stays pending after a pass; cancel removes exactly the named
   events. *)
From Coq Require Import ZArith NArith List Bool Lia Permutation Sorted.
From Morfuse Require Import C08.Model C08.Spec.
Import ListNotations.
Local Open Scope Z_scope.

(* ---- the order on (due time, posting sequence) ---------------------------------------- *)
Definition lt_node (x y : node) : Prop :=
  ntime x < ntime y \/ (ntime x = ntime y /\ (nseq x < nseq y)%N).
Definition le_node (x y : node) : Prop :=
  ntime x < ntime y \/ (ntime x = ntime y /\ (nseq x <= nseq y)%N).

Lemma node_ltb_spec x y : node_ltb x y = true <-> lt_node x y.
Proof.
  unfold node_ltb, lt_node.
  rewrite orb_true_iff, andb_true_iff, Z.ltb_lt, Z.eqb_eq, N.ltb_lt. tauto.
Qed.

Lemma le_node_trans x y z : le_node x y -> le_node y z -> le_node x z.
Proof. unfold le_node. lia. Qed.

(* ---- generic list facts ---------------------------------------------------------------- *)
Lemma perm_filter {A} (f : A -> bool) l l' :
  Permutation l l' -> Permutation (filter f l) (filter f l').
Proof.
  induction 1 as [|x l l' H IH|x y l|l l' l'' H1 IH1 H2 IH2]; cbn [filter].
  - constructor.
  - destruct (f x); [constructor|]; exact IH.
  - destruct (f x), (f y); (apply perm_swap || apply Permutation_refl).
  - eapply Permutation_trans; eauto.
Qed.

Lemma perm_existsb {A} (f : A -> bool) l l' :
  Permutation l l' -> existsb f l = existsb f l'.
Proof.
  induction 1 as [|x l l' H IH|x y l|l l' l'' H1 IH1 H2 IH2]; cbn [existsb].
  - reflexivity.
  - now rewrite IH.
  - destruct (f x), (f y); reflexivity.
  - congruence.
Qed.

Lemma nodup_map_filter {A B} (g : A -> B) (f : A -> bool) l :
  NoDup (map g l) -> NoDup (map g (filter f l)).
Proof.
  induction l as [|x l IH]; cbn [filter map]; intro H; [constructor|].
  inversion H as [|? ? Hn Hd]; subst. destruct (f x); [|now apply IH].
  cbn [map]. constructor; [|now apply IH]. intro Hin. apply Hn.
  apply in_map_iff in Hin. destruct Hin as [y [E Hy]]. apply filter_In in Hy.
  apply in_map_iff. exists y. tauto.
Qed.

Lemma last_in {A} (x d : A) l : In (last (x :: l) d) (x :: l).
Proof.
  revert x. induction l as [|y l IH]; intro x; [now left|].
  right. change (last (x :: y :: l) d) with (last (y :: l) d). apply IH.
Qed.

(* ---- strongly sorted lists of nodes ----------------------------------------------------- *)
Notation ssorted := (StronglySorted lt_node).

Lemma ss_inv x l : ssorted (x :: l) -> ssorted l /\ Forall (lt_node x) l.
Proof. apply StronglySorted_inv. Qed.

Lemma ss_filter f l : ssorted l -> ssorted (filter f l).
Proof.
  induction 1 as [|x l Hs IH Hf]; cbn [filter]; [constructor|].
  destruct (f x); [|exact IH]. constructor; [exact IH|].
  rewrite Forall_forall in *. intros y Hy. apply filter_In in Hy. apply Hf, Hy.
Qed.

Lemma ss_head_min x l y : ssorted (x :: l) -> In y (x :: l) -> ntime x <= ntime y.
Proof.
  intros Hs Hy. apply ss_inv in Hs. destruct Hs as [_ Hf]. rewrite Forall_forall in Hf.
  destruct Hy as [<-|Hy]; [lia|]. specialize (Hf _ Hy). unfold lt_node in Hf. lia.
Qed.

Lemma ss_last_max l : forall d y, ssorted l -> In y l -> ntime y <= ntime (last l d).
Proof.
  induction l as [|a l IH]; intros d y Hs Hy; [destruct Hy|].
  apply ss_inv in Hs. destruct Hs as [Hs Hf]. rewrite Forall_forall in Hf.
  destruct l as [|b l].
  - destruct Hy as [<-|[]]. cbn [last]. lia.
  - change (last (a :: b :: l) d) with (last (b :: l) d).
    destruct Hy as [<-|Hy]; [|now apply IH].
    specialize (Hf _ (last_in b d l)). unfold lt_node in Hf. lia.
Qed.

Lemma ss_snoc l n : ssorted l -> (forall x, In x l -> lt_node x n) -> ssorted (l ++ [n]).
Proof.
  induction 1 as [|x l Hs IH Hf]; intro Hn; cbn [app].
  - constructor; constructor.
  - constructor.
    + apply IH. intros y Hy. apply Hn. now right.
    + rewrite Forall_forall in *. intros y Hy. apply in_app_or in Hy.
      destruct Hy as [Hy|[<-|[]]]; [now apply Hf | apply Hn; now left].
Qed.

(* ---- the minimum of a bag is the head of its sorted arrangement ------------------------- *)
Lemma min_node_spec l : forall n,
  In (min_node n l) (n :: l) /\ forall y, In y (n :: l) -> le_node (min_node n l) y.
Proof.
  induction l as [|x l IH]; intro n; cbn [min_node].
  - split; [now left|]. intros y [<-|[]]. unfold le_node. lia.
  - destruct (IH (if node_ltb x n then x else n)) as [Hin Hle].
    set (n' := if node_ltb x n then x else n) in *.
    assert (Hn' : In n' [n; x] /\ le_node n' n /\ le_node n' x).
    { subst n'. destruct (node_ltb x n) eqn:E.
      - apply node_ltb_spec in E. unfold lt_node, le_node in *. cbn [In]. split; [tauto|lia].
      - assert (Hx : ~ lt_node x n) by (rewrite <- node_ltb_spec; congruence).
        unfold lt_node, le_node in *. cbn [In]. split; [tauto|lia]. }
    destruct Hn' as [Hi [Hl1 Hl2]]. split.
    + destruct Hin as [E|Hin]; [|right; right; exact Hin]. rewrite <- E.
      destruct Hi as [<-|[<-|[]]]; [now left | right; now left].
    + intros y [<-|[<-|Hy]].
      * eapply le_node_trans; [apply Hle; now left | exact Hl1].
      * eapply le_node_trans; [apply Hle; now left | exact Hl2].
      * apply Hle. now right.
Qed.

Lemma head_is_min h t x r :
  ssorted (h :: t) -> Permutation (h :: t) (x :: r) -> min_node x r = h.
Proof.
  intros Hs Hp. apply ss_inv in Hs. destruct Hs as [_ Hf]. rewrite Forall_forall in Hf.
  destruct (min_node_spec r x) as [Hin Hle].
  assert (Hh : In h (x :: r)) by (eapply Permutation_in; [exact Hp | now left]).
  apply (Permutation_in _ (Permutation_sym Hp)) in Hin.
  destruct Hin as [E|Hin]; [now symmetry|].
  exfalso. specialize (Hf _ Hin). specialize (Hle _ Hh). unfold lt_node, le_node in *. lia.
Qed.

Lemma remove_seq_head h t : NoDup (map nseq (h :: t)) -> remove_seq (nseq h) (h :: t) = t.
Proof.
  intro H. cbn [map] in H. inversion H as [|? ? Hn Hd]; subst.
  unfold remove_seq. cbn [filter]. rewrite N.eqb_refl. cbn [negb].
  clear H Hd. induction t as [|y t IH]; cbn [filter]; [reflexivity|].
  cbn [map In] in Hn.
  destruct (N.eqb_spec (nseq y) (nseq h)) as [E|E]; cbn [negb].
  - exfalso. apply Hn. now left.
  - f_equal. apply IH. intro Hin. apply Hn. now right.
Qed.

(* ---- PostEvent's three-way insertion ----------------------------------------------------- *)
Lemma ibg_perm l n : Permutation (insert_before_greater l n) (n :: l).
Proof.
  induction l as [|x l IH]; cbn [insert_before_greater]; [apply Permutation_refl|].
  destruct (ntime n <? ntime x); [apply Permutation_refl|].
  eapply Permutation_trans; [apply perm_skip, IH | apply perm_swap].
Qed.

Lemma ibg_sorted l n :
  ssorted l -> (forall x, In x l -> (nseq x < nseq n)%N) -> ssorted (insert_before_greater l n).
Proof.
  induction 1 as [|x l Hs IH Hf]; intro Hb; cbn [insert_before_greater].
  - constructor; constructor.
  - rewrite Forall_forall in Hf. destruct (Z.ltb_spec (ntime n) (ntime x)) as [Hlt|Hge].
    + constructor; [constructor; [exact Hs | now apply Forall_forall]|].
      apply Forall_forall. intros y [<-|Hy]; [left; exact Hlt|].
      specialize (Hf _ Hy). unfold lt_node in *. lia.
    + constructor; [apply IH; intros y Hy; apply Hb; now right|].
      apply Forall_forall. intros y Hy. apply (Permutation_in _ (ibg_perm l n)) in Hy.
      destruct Hy as [<-|Hy]; [|now apply Hf].
      assert (Hx : (nseq x < nseq n)%N) by (apply Hb; now left). unfold lt_node. lia.
Qed.

Lemma post_insert_perm l n : Permutation (post_insert l n) (n :: l).
Proof.
  unfold post_insert. destruct l as [|r l]; [apply Permutation_refl|].
  destruct (ntime n <? ntime (last (r :: l) r)).
  - destruct (ntime r <=? ntime n); [apply ibg_perm | apply Permutation_refl].
  - apply Permutation_sym, Permutation_cons_append.
Qed.

Lemma post_insert_sorted l n :
  ssorted l -> (forall x, In x l -> (nseq x < nseq n)%N) -> ssorted (post_insert l n).
Proof.
  intros Hs Hb. unfold post_insert. destruct l as [|r l]; [constructor; constructor|].
  destruct (Z.ltb_spec (ntime n) (ntime (last (r :: l) r))) as [Hlt|Hge].
  - destruct (Z.leb_spec (ntime r) (ntime n)) as [Hle|Hgt]; [now apply ibg_sorted|].
    constructor; [exact Hs|]. apply Forall_forall. intros y Hy.
    pose proof (ss_head_min _ _ _ Hs Hy). left. lia.
  - apply ss_snoc; [exact Hs|]. intros y Hy.
    pose proof (ss_last_max _ r _ Hs Hy). specialize (Hb _ Hy). unfold lt_node. lia.
Qed.

(* ---- the queue invariant ----------------------------------------------------------------- *)
Record qinv (l : list node) (k : N) : Prop := {
  qi_sorted : ssorted l;
  qi_nodup : NoDup (map nseq l);
  qi_bound : forall x, In x l -> (nseq x < k)%N }.

Lemma qinv_nil k : qinv [] k.
Proof. split; [constructor | constructor | intros x []]. Qed.

Lemma qinv_cancel p l k : qinv l k -> qinv (cancel p l) k.
Proof.
  intros [Hs Hn Hb]. unfold cancel. split.
  - now apply ss_filter.
  - now apply nodup_map_filter.
  - intros x Hx. apply filter_In in Hx. apply Hb, Hx.
Qed.

Lemma qinv_tail h t k : qinv (h :: t) k -> qinv t k.
Proof.
  intros [Hs Hn Hb]. split.
  - apply ss_inv in Hs. tauto.
  - cbn [map] in Hn. now inversion Hn.
  - intros x Hx. apply Hb. now right.
Qed.

Lemma qinv_post l k n : qinv l k -> nseq n = k -> qinv (post_insert l n) (k + 1)%N.
Proof.
  intros [Hs Hn Hb] Hk. pose proof (post_insert_perm l n) as Hp. split.
  - apply post_insert_sorted; [exact Hs|]. intros x Hx. specialize (Hb _ Hx). lia.
  - eapply Permutation_NoDup; [apply Permutation_sym, Permutation_map, Hp|].
    cbn [map]. constructor; [|exact Hn]. intro Hin. apply in_map_iff in Hin.
    destruct Hin as [y [E Hy]]. specialize (Hb _ Hy). lia.
  - intros x Hx. apply (Permutation_in _ Hp) in Hx. destruct Hx as [<-|Hx]; [lia|].
    specialize (Hb _ Hx). lia.
Qed.

(* ---- the simulation relation -------------------------------------------------------------- *)
Record R (s a : st) : Prop := {
  r_now : now a = now s;
  r_next : nextseq a = nextseq s;
  r_dead : dead a = dead s;
  r_perm : Permutation (q s) (q a);
  r_inv : qinv (q s) (nextseq s) }.

Lemma mkR ql qa n k d :
  qinv ql k -> Permutation ql qa -> R (mkSt ql n k d) (mkSt qa n k d).
Proof. intros Hi Hp. split; cbn [now nextseq dead q]; auto. Qed.

Lemma R_init : R init init.
Proof. apply mkR; [apply qinv_nil | apply Permutation_refl]. Qed.

Lemma R_refl s : qinv (q s) (nextseq s) -> R s s.
Proof. intro H. split; auto. Qed.

Lemma do_act_R s a x : R s a -> R (do_act s x) (spec_act a x).
Proof.
  intros [Hn Hk Hd Hp Hi]. destruct s as [qs ns ks ds], a as [qa na ka da].
  cbn [now nextseq dead q] in *. subst na ka da.
  assert (HR : R (mkSt qs ns ks ds) (mkSt qa ns ks ds)) by now apply mkR.
  destruct x as [l ty d fl h|l ty|l|l fl|l]; cbn [do_act spec_act now nextseq dead q];
    destruct (memN l ds); try exact HR.
  - apply mkR; [now apply qinv_post|].
    eapply Permutation_trans; [apply post_insert_perm|].
    eapply Permutation_trans; [apply perm_skip, Hp | apply Permutation_cons_append].
  - apply mkR; [now apply qinv_cancel | now apply perm_filter].
  - apply mkR; [now apply qinv_cancel | now apply perm_filter].
  - apply mkR; [now apply qinv_cancel | now apply perm_filter].
  - apply mkR; [now apply qinv_cancel | now apply perm_filter].
Qed.

Lemma do_acts_R h : forall s a, R s a -> R (do_acts s h) (spec_acts a h).
Proof.
  unfold do_acts, spec_acts. induction h as [|x h IH]; intros s a HR; cbn [fold_left].
  - exact HR.
  - apply IH. now apply do_act_R.
Qed.

(* ---- the processing pass ------------------------------------------------------------------ *)
Lemma process_eq f s log :
  process f s log =
  match q s with
  | [] => Some (s, log)
  | n :: rest =>
      if now s <? ntime n then Some (s, log)
      else match f with
           | O => None
           | S f' => process f' (do_acts (mkSt rest (now s) (nextseq s) (dead s)) (nhandler n))
                             ((nseq n, nlis n, nty n) :: log)
           end
  end.
Proof. destruct f; reflexivity. Qed.

Lemma spec_process_eq f s log :
  spec_process f s log =
  match q s with
  | [] => Some (s, log)
  | x :: r =>
      if now s <? ntime (min_node x r) then Some (s, log)
      else match f with
           | O => None
           | S f' =>
               spec_process f'
                 (spec_acts (mkSt (remove_seq (nseq (min_node x r)) (q s)) (now s) (nextseq s) (dead s))
                            (nhandler (min_node x r)))
                 ((nseq (min_node x r), nlis (min_node x r), nty (min_node x r)) :: log)
           end
  end.
Proof. destruct f; reflexivity. Qed.

Definition res_rel (r1 r2 : option (st * list delivery)) : Prop :=
  match r1, r2 with
  | Some (s', l1), Some (a', l2) => R s' a' /\ l1 = l2
  | None, None => True
  | _, _ => False
  end.

Lemma R_front s a :
  R s a ->
  (q s = [] /\ q a = []) \/
  (exists h t x r, q s = h :: t /\ q a = x :: r /\ min_node x r = h).
Proof.
  intros [_ _ _ Hp [Hs _ _]]. destruct (q s) as [|h t] eqn:E1.
  - left. split; [reflexivity|]. now apply Permutation_nil.
  - right. destruct (q a) as [|x r] eqn:E2.
    + apply Permutation_sym, Permutation_nil in Hp. discriminate.
    + exists h, t, x, r. repeat split. exact (head_is_min h t x r Hs Hp).
Qed.

Lemma R_pop s a h t x r :
  R s a -> q s = h :: t -> q a = x :: r ->
  R (mkSt t (now s) (nextseq s) (dead s))
    (mkSt (remove_seq (nseq h) (x :: r)) (now a) (nextseq a) (dead a)).
Proof.
  intros [Hn Hk Hd Hp Hi] E1 E2. rewrite Hn, Hk, Hd. rewrite E1 in Hi. rewrite E1, E2 in Hp.
  apply mkR; [eapply qinv_tail; exact Hi|].
  rewrite <- (remove_seq_head h t (qi_nodup _ _ Hi)) at 1.
  unfold remove_seq. now apply perm_filter.
Qed.

Lemma process_R f : forall s a log,
  R s a -> res_rel (process f s log) (spec_process f a log).
Proof.
  induction f as [|f IH]; intros s a log HR; rewrite process_eq, spec_process_eq;
    destruct (R_front s a HR) as [[E1 E2]|(h & t & x & r & E1 & E2 & Em)];
    rewrite E1, E2; try (split; [exact HR | reflexivity]);
    rewrite Em;
    replace (now a <? ntime h) with (now s <? ntime h) by (now rewrite (r_now _ _ HR));
    (destruct (now s <? ntime h); [split; [exact HR | reflexivity]|]).
  - exact I.
  - apply IH. apply do_acts_R. now apply R_pop.
Qed.

(* ---- observations and whole histories ------------------------------------------------------ *)
Lemma weight_cons x l : weight (x :: l) = (S (posts_in_list (nhandler x)) + weight l)%nat.
Proof. reflexivity. Qed.

Lemma weight_perm l l' : Permutation l l' -> weight l = weight l'.
Proof. induction 1; rewrite ?weight_cons; lia. Qed.

Lemma observe_R s a d : R s a -> observe s d = observe a d.
Proof.
  intros [_ _ _ Hp _]. unfold observe. f_equal.
  - now apply Permutation_length.
  - apply map_ext. intro p. now apply perm_existsb.
Qed.

Definition step_rel (r1 r2 : option (st * obs)) : Prop :=
  match r1, r2 with
  | Some (s', o1), Some (a', o2) => R s' a' /\ o1 = o2
  | None, None => True
  | _, _ => False
  end.

Lemma step_R s a o : R s a -> step_rel (step s o) (spec_step a o).
Proof.
  intro HR. destruct o as [x| |dt]; cbn [step spec_step].
  - pose proof (do_act_R s a x HR) as H. split; [exact H | now apply observe_R].
  - rewrite <- (weight_perm _ _ (r_perm _ _ HR)).
    pose proof (process_R (weight (q s)) s a [] HR) as H. unfold res_rel in H.
    destruct (process (weight (q s)) s []) as [[s' l1]|],
             (spec_process (weight (q s)) a []) as [[a' l2]|]; cbn [step_rel]; try exact H.
    destruct H as [H ->]. split; [exact H | now apply observe_R].
  - assert (H : R (mkSt (q s) (now s + dt) (nextseq s) (dead s))
                  (mkSt (q a) (now a + dt) (nextseq a) (dead a))).
    { destruct HR as [Hn Hk Hd Hp Hi]. rewrite Hn, Hk, Hd. now apply mkR. }
    split; [exact H | now apply observe_R].
Qed.

Lemma run_from_R ops : forall s a, R s a -> run_from s ops = spec_from a ops.
Proof.
  induction ops as [|o ops IH]; intros s a HR; cbn [run_from spec_from]; [reflexivity|].
  pose proof (step_R s a o HR) as H. unfold step_rel in H.
  destruct (step s o) as [[s' o1]|], (spec_step a o) as [[a' o2]|]; try contradiction.
  - destruct H as [H ->]. f_equal. now apply IH.
  - reflexivity.
Qed.

(* The main theorem: for every history the model's observations (deliveries in order, the
   number of pending events, IsEventPending) are those of the pending-bag specification. *)
Theorem run_refines_spec : forall ops : list op, run ops = spec_run ops.
Proof. intro ops. apply run_from_R, R_init. Qed.

(* ---- (a) the pass terminates within its fuel ------------------------------------------------ *)
Lemma posts_in_post l ty d fl h : posts_in (APost l ty d fl h) = S (posts_in_list h).
Proof.
reflexivity. Qed.

Lemma weight_filter f l : (weight (filter f l) <= weight l)%nat.
Proof.
  induction l as [|x l IH]; cbn [filter]; [lia|].
  destruct (f x); rewrite ?weight_cons; lia.
Qed.

Lemma weight_do_act s a : (weight (q (do_act s a)) <= posts_in a + weight (q s))%nat.
Proof.
  destruct a as [l ty d fl h|l ty|l|l fl|l]; cbn [do_act];
    destruct (memN l (dead s)); cbn [q]; try lia;
    try (cbn [posts_in Nat.add]; apply weight_filter).
  rewrite (weight_perm _ _ (post_insert_perm _ _)), weight_cons, posts_in_post.
  cbn [nhandler]. lia.
Qed.

Lemma weight_do_acts h : forall s,
  (weight (q (do_acts s h)) <= posts_in_list h + weight (q s))%nat.
Proof.
  unfold do_acts. induction h as [|x h IH]; intro s; cbn [fold_left posts_in_list]; [lia|].
  specialize (IH (do_act s x)). pose proof (weight_do_act s x). lia.
Qed.

Lemma process_enough_fuel f : forall s log,
  (weight (q s) <= f)%nat -> process f s log <> None.
Proof.
  induction f as [|f IH]; intros s log Hw; rewrite process_eq;
    destruct (q s) as [|n rest] eqn:E; try discriminate;
    (destruct (now s <? ntime n); [discriminate|]); rewrite weight_cons in Hw; [lia|].
  apply IH.
  pose proof (weight_do_acts (nhandler n) (mkSt rest (now s) (nextseq s) (dead s))) as H.
  cbn [q] in H. lia.
Qed.

Theorem process_never_hangs : forall s, process (weight (q s)) s [] <> None.
Proof. intro s. now apply process_enough_fuel. Qed.

(* the same for the specification: its pass terminates within the same fuel *)
Lemma weight_spec_act s a : (weight (q (spec_act s a)) <= posts_in a + weight (q s))%nat.
Proof.
  destruct a as [l ty d fl h|l ty|l|l fl|l]; cbn [spec_act];
    destruct (memN l (dead s)); cbn [q]; try lia;
    try (cbn [posts_in Nat.add]; apply weight_filter).
  rewrite <- (weight_perm _ _ (Permutation_cons_append _ _)), weight_cons, posts_in_post.
  cbn [nhandler]. lia.
Qed.

Lemma weight_spec_acts h : forall s,
  (weight (q (spec_acts s h)) <= posts_in_list h + weight (q s))%nat.
Proof.
  unfold spec_acts. induction h as [|x h IH]; intro s; cbn [fold_left posts_in_list]; [lia|].
  specialize (IH (spec_act s x)). pose proof (weight_spec_act s x). lia.
Qed.

Lemma weight_remove_min x r :
  (S (posts_in_list (nhandler (min_node x r))) + weight (remove_seq (nseq (min_node x r)) (x :: r))
   <= weight (x :: r))%nat.
Proof.
  destruct (min_node_spec r x) as [Hin _]. revert Hin.
  generalize (min_node x r) as m. generalize (x :: r) as l. clear x r.
  induction l as [|y l IH]; intros m Hin; [destruct Hin|].
  unfold remove_seq in *. cbn [filter]. destruct Hin as [->|Hin].
  - rewrite N.eqb_refl. cbn [negb]. rewrite weight_cons.
    pose proof (weight_filter (fun x => negb (nseq x =? nseq m)%N) l). lia.
  - specialize (IH m Hin). destruct (negb (nseq y =? nseq m)%N); rewrite ?weight_cons; lia.
Qed.

Lemma spec_process_enough_fuel f : forall s log,
  (weight (q s) <= f)%nat -> spec_process f s log <> None.
Proof.
  induction f as [|f IH]; intros s log Hw; rewrite spec_process_eq;
    destruct (q s) as [|x r] eqn:E; try discriminate;
    (destruct (now s <? ntime (min_node x r)); [discriminate|]);
    pose proof (weight_remove_min x r) as Hm; [lia|].
  apply IH.
  pose proof (weight_spec_acts (nhandler (min_node x r))
                (mkSt (remove_seq (nseq (min_node x r)) (x :: r)) (now s) (nextseq s) (dead s))) as H.
  cbn [q] in H. lia.
Qed.

Theorem spec_process_never_hangs : forall s, spec_process (weight (q s)) s [] <> None.
Proof. intro s. now apply spec_process_enough_fuel. Qed.

(* no history ever reports a pass that did not end *)
Theorem run_never_hangs : forall ops, ~ In None (run ops).
Proof.
  intro ops. unfold run. generalize init as s.
  induction ops as [|o ops IH]; intro s; cbn [run_from]; [intros []|].
  destruct (step s o) as [[s' ob]|] eqn:E.
  - intros [H|H]; [discriminate | exact (IH s' H)].
  - exfalso. destruct o as [x| |dt]; cbn [step] in E; try discriminate.
    pose proof (process_never_hangs s) as H.
    destruct (process (weight (q s)) s []) as [[s' l]|]; [discriminate | now apply H].
Qed.

(* ---- (b) nothing that is due stays pending after a pass -------------------------------------- *)
Lemma spec_act_now s a : now (spec_act s a) = now s.
Proof.
  destruct a as [l ty d fl h|l ty|l|l fl|l]; cbn [spec_act];
    destruct (memN l (dead s)); reflexivity.
Qed.

Lemma spec_acts_now h : forall s, now (spec_acts s h) = now s.
Proof.
  unfold spec_acts. induction h as [|x h IH]; intro s; cbn [fold_left]; [reflexivity|].
  rewrite IH. apply spec_act_now.
Qed.

Theorem spec_process_not_early : forall f s log s' log',
  spec_process f s log = Some (s', log') ->
  now s' = now s /\ forall x, In x (q s') -> now s' < ntime x.
Proof.
  induction f as [|f IH]; intros s log s' log'; rewrite spec_process_eq;
    destruct (q s) as [|x r] eqn:E.
  1,3: intro H; injection H as <- <-; split; [reflexivity|]; rewrite E; intros y [].
  all: destruct (Z.ltb_spec (now s) (ntime (min_node x r))) as [Hlt|Hge].
  1,3: intro H; injection H as <- <-; split; [reflexivity|]; rewrite E; intros y Hy;
       destruct (min_node_spec r x) as [_ Hle]; specialize (Hle _ Hy);
       unfold le_node in Hle; lia.
  - discriminate.
  - intro H. apply IH in H. rewrite spec_acts_now in H. exact H.
Qed.

(* the same for the model, on every state whose queue satisfies the invariant (all
   reachable states do: [step_keeps_qinv]) *)
Theorem process_not_early : forall f s log s' log',
  qinv (q s) (nextseq s) ->
  process f s log = Some (s', log') ->
  now s' = now s /\ forall x, In x (q s') -> now s' < ntime x.
Proof.
  intros f s log s' log' Hi Hp.
  pose proof (process_R f s s log (R_refl s Hi)) as H. rewrite Hp in H. unfold res_rel in H.
  destruct (spec_process f s log) as [[a' l2]|] eqn:E; [|contradiction].
  destruct H as [HR _]. apply spec_process_not_early in E. destruct E as [En Eq].
  rewrite (r_now _ _ HR) in *. split; [exact En|].
  intros x Hx. apply Eq. eapply Permutation_in; [apply (r_perm _ _ HR) | exact Hx].
Qed.

Theorem step_keeps_qinv : forall s o s' ob,
  qinv (q s) (nextseq s) -> step s o = Some (s', ob) -> qinv (q s') (nextseq s').
Proof.
  intros s o s' ob Hi Hs. pose proof (step_R s s o (R_refl s Hi)) as H.
  rewrite Hs in H. unfold step_rel in H.
  destruct (spec_step s o) as [[a' o2]|]; [|contradiction].
  destruct H as [HR _]. exact (r_inv _ _ HR).
Qed.

(* ---- (c) cancel removes exactly the named events ---------------------------------------------- *)
Theorem cancel_exact : forall p l,
  cancel p l = filter (fun x => negb (p x)) l /\
  forall x, In x (cancel p l) <-> In x l /\ p x = false.
Proof.
  intros p l. split; [reflexivity|]. intro x. unfold cancel.
  rewrite filter_In, negb_true_iff. tauto.
Qed.
