(* C08/Extract.v — extraction of the model and the specification (ExtrOcamlBasic only). *)
Require Extraction.
Require Import ExtrOcamlBasic.
From Morfuse Require Import C08.Model C08.Spec.
Extraction "C08_model.ml" run spec_run.
