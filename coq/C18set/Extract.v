(* C18set/Extract.v - extraction of the model and the specification (ExtrOcamlBasic only).
   run_detail = the model's internal detail (allocated, chains), compared with the
   implementation only. *)
Require Extraction.
Require Import ExtrOcamlBasic.
From Morfuse Require Import C18set.Model C18set.Spec.
Extraction "C18set_model.ml" run spec_run run_detail.
