(* C18set/Proofs.v - the representation invariant of the hash table model and the
   refinement of the association-list specification, for every hash function. *)
From Coq Require Import NArith List Bool Lia Permutation Sorted.
From Morfuse Require Import Base.Arr Base.ListX C18set.Model C18set.Spec C18set.ProofsLib.
Import ListNotations.
Local Open Scope N_scope.

Lemma nodup_map_inj {A B} (f : A -> B) (l : list A) x y :
  NoDup (map f l) -> In x l -> In y l -> f x = f y -> x = y.
Proof.
  induction l as [|a l IH]; cbn; [tauto|].
  intros Hnd Hx Hy E. inversion Hnd as [|b bs Hn Hd]; subst.
  destruct Hx as [->|Hx], Hy as [->|Hy]; auto.
  - exfalso. apply Hn. rewrite E. now apply in_map.
  - exfalso. apply Hn. rewrite <- E. now apply in_map.
Qed.

Section WithHash.
Variable hash : N -> N.
Local Notation index_of := (Model.index_of hash).
Local Notation rehash_chain := (Model.rehash_chain hash).
Local Notation rehash_buckets := (Model.rehash_buckets hash).
Local Notation resize := (Model.resize hash).
Local Notation rehash := (Model.rehash hash).
Local Notation shrink := (Model.shrink hash).
Local Notation increment := (Model.increment hash).
Local Notation add_new_key_entry := (Model.add_new_key_entry hash).
Local Notation add_key_entry := (Model.add_key_entry hash).
Local Notation find_key_entry := (Model.find_key_entry hash).
Local Notation find_key_value := (Model.find_key_value hash).
Local Notation remove := (Model.remove hash).
Local Notation exec_sop := (Model.exec_sop hash).
Local Notation step := (Model.step hash).
Local Notation run_from := (Model.run_from hash).

Definition kv (t : tbl) (e : N) : N * N := (get (ekey t) e, get (evl t) e).
Definition nb (t : tbl) : nat := N.to_nat (tlen t).

(* the table t represents the association list l; ch gives the chain of every bucket *)
Record Rep (t : tbl) (l : amap) (ch : N -> list N) : Prop := mkRep {
  r_len : 1 <= tlen t;
  r_chain : forall i, i < tlen t -> chain (elive t) (enext t) (tget t i) (ch i);
  r_nodup : NoDup (alld ch (nb t));
  r_idx : forall i e, i < tlen t -> In e (ch i) -> hash (get (ekey t) e) mod tlen t = i;
  r_perm : Permutation (map (kv t) (alld ch (nb t))) l;
  r_keys : NoDup (map fst l);
  r_cnt : cnt t = N.of_nat (length l);
  r_fresh : forall e, In e (alld ch (nb t)) -> e < nid t;
  r_dflt : 1 < tlen t -> dflt t = None -> l = [] }.

Definition Inv (t : tbl) (l : amap) : Prop := exists ch, Rep t l ch.

Lemma lt_nb t i : i < tlen t <-> (N.to_nat i < nb t)%nat.
Proof. unfold nb. lia. Qed.

Lemma index_lt t k : 1 <= tlen t -> index_of t k < tlen t.
Proof. intro H. unfold index_of. apply N.mod_lt. lia. Qed.

Section RepFacts.
Variables (t : tbl) (l : amap) (ch : N -> list N).
Hypothesis R : Rep t l ch.

Lemma rep_length : length (alld ch (nb t)) = length l.
Proof. rewrite <- (Permutation_length (r_perm _ _ _ R)). now rewrite map_length. Qed.

Lemma rep_fuel i : i < tlen t -> (length (ch i) < fuel_of t)%nat.
Proof.
  intro Hi. unfold fuel_of. rewrite (r_cnt _ _ _ R), Nat2N.id, <- rep_length.
  pose proof (alld_bucket_length ch i (nb t) (proj1 (lt_nb t i) Hi)). lia.
Qed.

Lemma rep_in_all i e : i < tlen t -> In e (ch i) -> In e (alld ch (nb t)).
Proof. intros Hi He. eapply alld_bucket_incl; [apply lt_nb; exact Hi|exact He]. Qed.

Lemma rep_in_l e : In e (alld ch (nb t)) -> In (kv t e) l.
Proof.
  intro He. eapply Permutation_in; [apply (r_perm _ _ _ R)|]. now apply in_map.
Qed.

Lemma rep_keys_all : NoDup (map (fun e => get (ekey t) e) (alld ch (nb t))).
Proof.
  pose proof (perm_keys_nodup _ _ (r_perm _ _ _ R) (r_keys _ _ _ R)) as H.
  rewrite map_map in H. exact H.
Qed.

Lemma rep_key_inj e1 e2 :
  In e1 (alld ch (nb t)) -> In e2 (alld ch (nb t)) -> get (ekey t) e1 = get (ekey t) e2 -> e1 = e2.
Proof. intros H1 H2 E. eapply nodup_map_inj; [apply rep_keys_all| | |exact E]; assumption. Qed.

Lemma rep_lookup_some e : In e (alld ch (nb t)) -> alookup (get (ekey t) e) l = Some (get (evl t) e).
Proof.
  intro He. apply in_alookup; [apply (r_keys _ _ _ R)|]. now apply rep_in_l in He.
Qed.

(* a key of the list sits in the chain of its own bucket *)
Lemma rep_lookup_bucket k v :
  alookup k l = Some v ->
  exists e, In e (ch (index_of t k)) /\ get (ekey t) e = k /\ get (evl t) e = v.
Proof.
  intro H. apply alookup_in in H.
  eapply Permutation_in in H; [|apply Permutation_sym, (r_perm _ _ _ R)].
  apply in_map_iff in H. destruct H as [e [E He]]. unfold kv in E. injection E as Ek Ev.
  apply in_alld in He. destruct He as [j [Hj He]]. apply lt_nb in Hj.
  exists e. split; [|tauto].
  pose proof (r_idx _ _ _ R j e Hj He) as Hi. rewrite Ek in Hi. unfold index_of. now rewrite Hi.
Qed.

Lemma rep_all_nil_l : alld ch (nb t) = [] -> l = [].
Proof.
  intro H. pose proof (r_perm _ _ _ R) as Hp. rewrite H in Hp. cbn in Hp.
  now apply Permutation_nil in Hp.
Qed.

Lemma rep_l_nil_buckets : l = [] -> forall i, i < tlen t -> ch i = [].
Proof.
  intros H i Hi. apply (alld_all_nil ch (nb t)); [|apply lt_nb; exact Hi].
  pose proof rep_length as Hl. rewrite H in Hl. cbn in Hl.
  destruct (alld ch (nb t)); [reflexivity|discriminate].
Qed.
End RepFacts.

(* ---- findKeyEntry -------------------------------------------------------------------- *)
Lemma find_loop_spec t k c : forall h fuel,
  chain (elive t) (enext t) h c -> (length c < fuel)%nat ->
  find_loop fuel t h k = Some (find (fun x => get (ekey t) x =? k) c).
Proof.
  induction c as [|x c IH]; intros h fuel Hc Hf.
  - apply chain_head_nil in Hc. subst h. destruct fuel; reflexivity.
  - pose proof (chain_head_cons _ _ _ _ _ Hc) as ->.
    apply chain_some in Hc. destruct Hc as [c' [E [Hl Hc]]]. injection E as <-.
    destruct fuel as [|f]; [cbn in Hf; lia|]. cbn [find_loop find]. rewrite Hl.
    destruct (get (ekey t) x =? k); [reflexivity|]. apply IH; [exact Hc|cbn in Hf; lia].
Qed.

Lemma rep_find t l ch k :
  Rep t l ch ->
  exists r, find_loop (fuel_of t) t (tget t (index_of t k)) k = Some r /\
    match r with
    | Some x => In x (ch (index_of t k)) /\ get (ekey t) x = k /\ alookup k l = Some (get (evl t) x)
    | None => alookup k l = None
    end.
Proof.
  intro R. pose proof (index_lt t k (r_len _ _ _ R)) as Hi.
  eexists. split.
  - apply find_loop_spec with (c := ch (index_of t k)); [apply (r_chain _ _ _ R); exact Hi|].
    eapply rep_fuel; eauto.
  - destruct (find _ _) as [x|] eqn:F.
    + apply find_some in F. destruct F as [Hin E]. apply N.eqb_eq in E.
      split; [exact Hin|]. split; [exact E|]. rewrite <- E.
      eapply rep_lookup_some; [exact R|]. eapply rep_in_all; eauto.
    + destruct (alookup k l) as [v|] eqn:A; [|reflexivity]. exfalso.
      destruct (rep_lookup_bucket _ _ _ R _ _ A) as [e [He [Ek _]]].
      pose proof (find_none _ _ F e He) as H. cbn in H. rewrite Ek, N.eqb_refl in H. discriminate.
Qed.

(* ---- assigning the value of an existing entry ---------------------------------------- *)
Lemma rep_with_val t l ch x v :
  Rep t l ch -> In x (alld ch (nb t)) ->
  Rep (with_val t x v) (aset (get (ekey t) x) v l) ch.
Proof.
  intros R Hx.
  pose proof (rep_in_l _ _ _ R _ Hx) as Hl. unfold kv in Hl.
  assert (Hperm : Permutation (map (kv (with_val t x v)) (alld ch (nb t)))
                              (aset (get (ekey t) x) v l)).
  { pose proof (r_nodup _ _ _ R) as Hnd. pose proof (r_perm _ _ _ R) as Hp.
    destruct (in_split _ _ Hx) as [a1 [a2 E]]. rewrite E in Hnd, Hp |- *.
    rewrite map_app in Hp |- *. cbn [map] in Hp |- *.
    assert (Ho : forall a, ~ In x a -> map (kv (with_val t x v)) a = map (kv t) a).
    { intros a Ha. apply map_ext_in. intros e He. unfold kv, with_val. cbn.
      rewrite gso; [reflexivity|]. intros ->. contradiction. }
    rewrite (Ho a1), (Ho a2).
    - unfold kv at 2. unfold with_val at 1 2. cbn [ekey evl]. rewrite gss.
      unfold aset. eapply perm_update_mid; [apply (r_keys _ _ _ R)|exact Hp].
    - apply NoDup_remove_2 in Hnd. intro H. apply Hnd. apply in_or_app. tauto.
    - apply NoDup_remove_2 in Hnd. intro H. apply Hnd. apply in_or_app. tauto. }
  destruct R as [Hlen Hch Hnd Hidx Hp Hk Hc Hf Hd].
  constructor.
  - exact Hlen.
  - exact Hch.
  - exact Hnd.
  - exact Hidx.
  - exact Hperm.
  - unfold aset. cbn. constructor; [apply aremove_keys_notin|now apply aremove_keys_nodup].
  - unfold aset. cbn [length with_val cnt]. rewrite Hc. f_equal.
    eapply aremove_length_in; eauto.
  - exact Hf.
  - intros H1 H2. specialize (Hd H1 H2). subst l. destruct Hl.
Qed.

(* ---- set_enum ------------------------------------------------------------------------ *)
Lemma skip_empty_spec t l ch : Rep t l ch -> forall i, (i <= nb t)%nat ->
  match skip_empty t i with
  | (j, Some x) => (j < i)%nat /\ tget t (N.of_nat j) = Some x /\
                   alld ch i = ch (N.of_nat j) ++ alld ch j
  | (_, None) => alld ch i = []
  end.
Proof.
  intro R. induction i as [|j IH]; intro Hi; cbn [skip_empty]; [reflexivity|].
  destruct (tget t (N.of_nat j)) as [x|] eqn:E.
  - split; [lia|]. split; [exact E|reflexivity].
  - assert (Hj : N.of_nat j < tlen t) by (unfold nb in Hi; lia).
    pose proof (r_chain _ _ _ R _ Hj) as Hc. rewrite E in Hc. apply chain_none in Hc.
    specialize (IH ltac:(lia)). destruct (skip_empty t j) as [j' [x|]].
    + destruct IH as [H1 [H2 H3]]. split; [lia|]. split; [exact H2|].
      cbn [alld]. rewrite Hc. exact H3.
    + cbn [alld]. rewrite Hc. exact IH.
Qed.

Lemma enum_loop_spec t l ch : Rep t l ch -> forall fuel c i cur nxt acc,
  (i <= nb t)%nat -> chain (elive t) (enext t) nxt c ->
  (length (c ++ alld ch i) < fuel)%nat ->
  enum_loop fuel t (mkEnum i cur nxt) acc = Some (rev acc ++ map (kv t) (c ++ alld ch i)).
Proof.
  intro R. induction fuel as [|f IH]; intros c i cur nxt acc Hi Hc Hf; [lia|].
  cbn [enum_loop]. unfold next_element. cbn [m_next m_index].
  destruct nxt as [x|].
  - apply chain_some in Hc. destruct Hc as [c' [-> [Hl Hc]]].
    rewrite Hl. cbn [bind]. rewrite (IH c'); [|exact Hi|exact Hc|cbn in Hf; lia].
    cbn [rev app map]. rewrite <- app_assoc. reflexivity.
  - apply chain_none in Hc. subst c. cbn [app] in *.
    pose proof (skip_empty_spec _ _ _ R i Hi) as Hs.
    destruct (skip_empty t i) as [j [x|]].
    + destruct Hs as [Hj [Hg Ha]].
      assert (Hjl : N.of_nat j < tlen t) by (unfold nb in Hi; lia).
      pose proof (r_chain _ _ _ R _ Hjl) as Hc. rewrite Hg in Hc.
      apply chain_some in Hc. destruct Hc as [c' [E [Hl Hc]]].
      rewrite Hl. cbn [bind]. rewrite Ha, E in Hf |- *.
      rewrite (IH c'); [|lia|exact Hc|cbn in Hf; lia].
      cbn [rev app map]. rewrite <- app_assoc. reflexivity.
    + cbn [bind]. rewrite Hs. cbn. now rewrite app_nil_r.
Qed.

Lemma enumerate_spec t l ch :
  Rep t l ch -> enumerate t = Some (map (kv t) (alld ch (nb t))).
Proof.
  intro R. unfold enumerate, enum_init. change (N.to_nat (tlen t)) with (nb t).
  rewrite (enum_loop_spec _ _ _ R _ []); [reflexivity|lia|constructor|].
  cbn [app]. rewrite (rep_length _ _ _ R). unfold fuel_of.
  rewrite (r_cnt _ _ _ R), Nat2N.id. lia.
Qed.

Lemma enumerate_sorted t l :
  Inv t l -> exists el, enumerate t = Some el /\ isort el = isort l.
Proof.
  intros [ch R]. eexists. split; [apply (enumerate_spec _ _ _ R)|].
  apply isort_perm_eq, (r_perm _ _ _ R).
Qed.

(* ---- table[..] with and without the aliasing ----------------------------------------- *)
Lemma tget_big t i : tlen t <> 1 -> tget t i = get (tab t) i.
Proof. intro H. unfold tget. apply N.eqb_neq in H. now rewrite H. Qed.

Lemma tset_big t i v : tlen t <> 1 -> tset t i v = with_tab t (set (tab t) i v).
Proof. intro H. unfold tset. apply N.eqb_neq in H. now rewrite H. Qed.

Lemma tget_one t i : tlen t = 1 -> tget t i = dflt t.
Proof. intro H. unfold tget. now rewrite H. Qed.

Lemma tset_one t i v : tlen t = 1 -> tset t i v = with_dflt t v.
Proof. intro H. unfold tset. now rewrite H. Qed.

(* ---- resize --------------------------------------------------------------------------- *)
Section Resize.
Variables (t : tbl) (l : amap) (ch : N -> list N) (n : N).
Hypothesis R : Rep t l ch.
Hypothesis Hn : 1 < n.

(* the loop invariant: t' is the table under construction, nch its chains, rest the entries
   of the old table that have not been moved yet (their next pointers are untouched) *)
Record RI (t' : tbl) (nch : N -> list N) (rest : list N) : Prop := mkRI {
  ri_tlen : tlen t' = n;
  ri_cnt : cnt t' = cnt t;
  ri_dflt : dflt t' = dflt t;
  ri_ekey : ekey t' = ekey t;
  ri_evl : evl t' = evl t;
  ri_elive : elive t' = elive t;
  ri_nid : nid t' = nid t;
  ri_chain : forall i, i < n -> chain (elive t) (enext t') (get (tab t') i) (nch i);
  ri_rest : forall e, In e rest -> get (enext t') e = get (enext t) e;
  ri_idx : forall i e, i < n -> In e (nch i) -> hash (get (ekey t) e) mod n = i;
  ri_perm : Permutation (alld nch (N.to_nat n) ++ rest) (alld ch (nb t)) }.

Lemma rehash_chain_ok : forall c h t' nch rest fuel,
  RI t' nch (c ++ rest) -> chain (elive t) (enext t) h c -> (length c < fuel)%nat ->
  exists t'' nch', rehash_chain fuel t' h = Some t'' /\ RI t'' nch' rest.
Proof.
  induction c as [|x c IH]; intros h t' nch rest fuel I Hc Hf.
  - apply chain_head_nil in Hc. subst h. exists t', nch. split; [destruct fuel; reflexivity|exact I].
  - pose proof (chain_head_cons _ _ _ _ _ Hc) as ->.
    apply chain_some in Hc. destruct Hc as [c' [E [Hl Hc]]]. injection E as <-.
    destruct fuel as [|f]; [cbn in Hf; lia|]. cbn [rehash_chain].
    destruct I as [Itl Icn Idf Iek Iev Ilv Ini Ich Irs Iix Ipm].
    rewrite Ilv, Hl.
    assert (Hne : tlen t' <> 1) by lia.
    assert (Hne' : tlen (with_next t' x (tget t' (index_of t' (get (ekey t') x)))) <> 1) by (cbn; lia).
    rewrite (tset_big _ _ _ Hne'), (tget_big _ _ Hne).
    set (ix := index_of t' (get (ekey t') x)).
    assert (Hix : ix < n).
    { unfold ix, Model.index_of. rewrite Itl. apply N.mod_lt. lia. }
    assert (Hnd : NoDup (alld nch (N.to_nat n) ++ (x :: c) ++ rest)).
    { eapply Permutation_NoDup; [apply Permutation_sym; exact Ipm|apply (r_nodup _ _ _ R)]. }
    assert (Hxn : forall i, i < n -> ~ In x (nch i)).
    { intros i Hi Hin. eapply notin_app_l; [exact Hnd| |left; reflexivity].
      eapply alld_bucket_incl; [|exact Hin]. lia. }
    rewrite (Irs x) by (left; reflexivity).
    apply (IH _ _ (upd nch ix (x :: nch ix))); [|exact Hc|cbn in Hf; lia].
    constructor; cbn [with_tab with_next tab tlen thr cnt dflt ekey evl enext elive nid]; auto.
    + intros i Hi. unfold upd. rewrite get_set. destruct (N.eqb_spec i ix) as [->|Hd].
      * constructor; [exact Hl|]. rewrite gss. apply chain_set_next; [now apply Hxn|now apply Ich].
      * apply chain_set_next; [now apply Hxn|now apply Ich].
    + intros e He. rewrite gso; [apply Irs; right; exact He|].
      intros ->. apply nodup_app_r in Hnd. cbn in Hnd. inversion Hnd; contradiction.
    + intros i e Hi. unfold upd. destruct (N.eqb_spec i ix) as [->|Hd]; [|now apply Iix].
      intros [<-|He]; [|now apply Iix].
      unfold ix, Model.index_of. now rewrite Itl, Iek.
    + rewrite (alld_upd_cons nch ix x (x :: nch ix)); [|lia|reflexivity].
      rewrite <- Ipm. cbn [app]. apply Permutation_middle.
Qed.

Lemma rehash_buckets_ok : forall m t' nch,
  (m <= nb t)%nat -> RI t' nch (alld ch m) ->
  exists t'' nch', rehash_buckets (fuel_of t) (tget t) m t' = Some t'' /\ RI t'' nch' [].
Proof.
  induction m as [|j IH]; intros t' nch Hm I; cbn [rehash_buckets].
  - exists t', nch. split; [reflexivity|exact I].
  - cbn [alld] in I.
    assert (Hj : N.of_nat j < tlen t) by (unfold nb in Hm; lia).
    destruct (rehash_chain_ok (ch (N.of_nat j)) (tget t (N.of_nat j)) t' nch (alld ch j) (fuel_of t) I)
      as [t1 [nch1 [E I1]]].
    + apply (r_chain _ _ _ R). exact Hj.
    + eapply rep_fuel; eauto.
    + rewrite E. cbn [bind]. apply (IH t1 nch1); [lia|exact I1].
Qed.
End Resize.

Lemma resize_ok t l ch n :
  Rep t l ch -> exists t' ch', resize t n = Some t' /\ Rep t' l ch'.
Proof.
  intro R. unfold Model.resize. destruct (N.leb_spec n 1) as [Hle|Hn].
  - exists t, ch. split; [reflexivity|exact R].
  - change (fun j : N => if tlen t =? 1 then dflt t else get (tab t) j) with (tget t).
    change (N.to_nat (tlen t)) with (nb t).
    destruct (rehash_buckets_ok t l ch n R Hn (nb t)
                (mkT (aempty None) n n (cnt t) (dflt t) (ekey t) (evl t) (enext t) (elive t) (nid t))
                (fun _ => [])) as [t' [ch' [E I]]].
    + lia.
    + constructor; cbn [tab tlen thr cnt dflt ekey evl enext elive nid]; try reflexivity.
      * intros i _. rewrite get_empty. constructor.
      * intros i e _ [].
      * now rewrite alld_nil.
    + exists t', ch'. split; [exact E|].
      destruct I as [Itl Icn Idf Iek Iev Ilv Ini Ich Irs Iix Ipm].
      rewrite app_nil_r in Ipm.
      assert (Hne : tlen t' <> 1) by lia.
      constructor.
      * lia.
      * intros i Hi. rewrite (tget_big _ _ Hne), Ilv. apply Ich. lia.
      * unfold nb at 1. rewrite Itl. eapply Permutation_NoDup; [apply Permutation_sym; exact Ipm|].
        apply (r_nodup _ _ _ R).
      * intros i e Hi He. rewrite Itl, Iek. apply Iix; [lia|exact He].
      * unfold nb at 1. rewrite Itl. unfold kv. rewrite Iek, Iev.
        rewrite (Permutation_map _ Ipm). apply (r_perm _ _ _ R).
      * apply (r_keys _ _ _ R).
      * rewrite Icn. apply (r_cnt _ _ _ R).
      * intros e He. rewrite Ini. apply (r_fresh _ _ _ R).
        eapply Permutation_in; [exact Ipm|]. unfold nb in He. now rewrite Itl in He.
      * intros _ Hd. rewrite Idf in Hd.
        destruct (N.eq_dec (tlen t) 1) as [E1|E1].
        -- apply (rep_all_nil_l _ _ _ R).
           pose proof (r_chain _ _ _ R 0 ltac:(lia)) as Hc.
           rewrite (tget_one _ _ E1), Hd in Hc. apply chain_none in Hc.
           unfold nb. rewrite E1. change (N.to_nat 1) with 1%nat. cbn [alld].
           change (N.of_nat 0) with 0. now rewrite Hc.
        -- apply (r_dflt _ _ _ R); [pose proof (r_len _ _ _ R); lia|exact Hd].
Qed.

(* ---- insertEntry ---------------------------------------------------------------------- *)
Lemma insert_entry_chains t x idx ch :
  idx < tlen t ->
  (forall i, i < tlen t -> chain (elive t) (enext t) (tget t i) (ch i)) ->
  get (elive t) x = true ->
  (forall i, i < tlen t -> ~ In x (ch i)) ->
  (dflt t = None -> forall i, i < tlen t -> ch i = []) ->
  let t' := insert_entry t x idx in
  (forall i, i < tlen t -> chain (elive t') (enext t') (tget t' i) (upd ch idx (x :: ch idx) i)) /\
  tlen t' = tlen t /\ cnt t' = cnt t /\ ekey t' = ekey t /\ evl t' = evl t /\
  elive t' = elive t /\ nid t' = nid t /\ dflt t' <> None.
Proof.
  intros Hidx Hch Hlx Hnx Hnil.
  destruct t as [tb tl th cn df ek ev en el ni]. cbn [tlen elive enext dflt] in *.
  unfold insert_entry. cbn [dflt].
  destruct df as [d|].
  - (* defaultEntry != nullptr *)
    destruct (N.eq_dec tl 1) as [E1|E1].
    + rewrite tset_one by exact E1. cbn. repeat split; try congruence.
      intros i Hi. assert (i = idx) by lia. subst i. rewrite upd_same.
      unfold tget. cbn. apply N.eqb_eq in E1. rewrite E1.
      constructor; [exact Hlx|]. rewrite gss.
      apply chain_set_next; [now apply Hnx|].
      specialize (Hch idx Hidx). unfold tget in Hch. cbn in Hch. now rewrite E1 in Hch.
    + rewrite tset_big by exact E1. cbn. repeat split; try congruence.
      intros i Hi. rewrite !tget_big by exact E1. cbn. unfold upd. rewrite get_set.
      destruct (N.eqb_spec i idx) as [->|Hd].
      * constructor; [exact Hlx|]. rewrite gss. apply chain_set_next; [now apply Hnx|].
        specialize (Hch idx Hidx). now rewrite tget_big in Hch by exact E1.
      * apply chain_set_next; [now apply Hnx|].
        specialize (Hch i Hi). now rewrite tget_big in Hch by exact E1.
  - (* defaultEntry == nullptr: the new entry ends its chain *)
    specialize (Hnil eq_refl).
    destruct (N.eq_dec tl 1) as [E1|E1].
    + rewrite tset_one by exact E1. cbn. repeat split; try congruence.
      intros i Hi. assert (i = idx) by lia. subst i. rewrite upd_same, (Hnil idx Hidx).
      unfold tget. cbn. apply N.eqb_eq in E1. rewrite E1.
      constructor; [exact Hlx|]. rewrite gss. constructor.
    + rewrite tset_big by exact E1. cbn. repeat split; try congruence.
      intros i Hi. rewrite !tget_big by exact E1. cbn. unfold upd. rewrite get_set.
      destruct (N.eqb_spec i idx) as [->|Hd].
      * rewrite (Hnil idx Hidx). constructor; [exact Hlx|]. rewrite gss. constructor.
      * apply chain_set_next; [now apply Hnx|].
        specialize (Hch i Hi). now rewrite tget_big in Hch by exact E1.
Qed.

(* count++, NewEntry, insertEntry for a key that is not in the table *)
Lemma rep_add_new t l ch k ov :
  Rep t l ch -> alookup k l = None ->
  let x := nid t in
  let idx := index_of t k in
  let t3 := insert_entry (fst (new_entry (with_cnt t (cnt t + 1)) k ov)) x idx in
  let ch' := upd ch idx (x :: ch idx) in
  Rep t3 ((k, get (evl t3) x) :: l) ch' /\ In x (alld ch' (nb t3)) /\
  get (ekey t3) x = k /\ get (elive t3) x = true /\
  (forall v, ov = Some v -> get (evl t3) x = v).
Proof.
  intros R Hnone x idx.
  pose proof (index_lt t k (r_len _ _ _ R)) as Hidx. fold idx in Hidx.
  assert (Hxall : ~ In x (alld ch (nb t))).
  { intro H. apply (r_fresh _ _ _ R) in H. unfold x in H. lia. }
  assert (Hxn : forall i, i < tlen t -> ~ In x (ch i)).
  { intros i Hi H. apply Hxall. eapply rep_in_all; eauto. }
  set (t2 := fst (new_entry (with_cnt t (cnt t + 1)) k ov)).
  assert (Hch2 : forall i, i < tlen t2 -> chain (elive t2) (enext t2) (tget t2 i) (ch i)).
  { intros i Hi. unfold t2, new_entry, with_cnt in *. cbn in *.
    apply chain_set_live; [now apply Hxn|]. apply (r_chain _ _ _ R i Hi). }
  assert (Hnil2 : dflt t2 = None -> forall i, i < tlen t2 -> ch i = []).
  { unfold t2, new_entry, with_cnt. cbn. intros Hd i Hi.
    destruct (N.eq_dec (tlen t) 1) as [E1|E1].
    - pose proof (r_chain _ _ _ R i Hi) as Hc. rewrite (tget_one _ _ E1), Hd in Hc.
      now apply chain_none in Hc.
    - eapply rep_l_nil_buckets; [exact R| |exact Hi].
      apply (r_dflt _ _ _ R); [pose proof (r_len _ _ _ R); lia|exact Hd]. }
  assert (Hlx2 : get (elive t2) x = true).
  { unfold t2, new_entry, with_cnt. cbn. apply gss. }
  destruct (insert_entry_chains t2 x idx ch) as [Hch3 [Htl [Hcn [Hek [Hev [Hlv [Hni Hdf]]]]]]];
    try assumption.
  intros t3 ch'. fold t3 in Hch3, Htl, Hcn, Hek, Hev, Hlv, Hni, Hdf. fold ch' in Hch3.
  assert (Htl2 : tlen t2 = tlen t) by reflexivity.
  assert (Hnb : nb t3 = nb t) by (unfold nb; now rewrite Htl, Htl2).
  assert (Hperm : Permutation (alld ch' (nb t3)) (x :: alld ch (nb t))).
  { rewrite Hnb. apply alld_upd_cons; [apply lt_nb; exact Hidx|reflexivity]. }
  assert (Hkx : get (ekey t3) x = k).
  { rewrite Hek. unfold t2, new_entry, with_cnt. cbn. apply gss. }
  assert (Hko : forall e, e <> x -> kv t3 e = kv t e).
  { intros e He. unfold kv. rewrite Hek, Hev. unfold t2, new_entry, with_cnt. cbn.
    rewrite gso by exact He. destruct ov; [rewrite gso by exact He|]; reflexivity. }
  split; [|split; [|split; [|split]]].
  - constructor.
    + rewrite Htl, Htl2. apply (r_len _ _ _ R).
    + intros i Hi. apply Hch3. now rewrite Htl in Hi.
    + eapply Permutation_NoDup; [apply Permutation_sym; exact Hperm|].
      constructor; [exact Hxall|apply (r_nodup _ _ _ R)].
    + intros i e Hi. rewrite Htl, Htl2 in Hi |- *. unfold ch', upd.
      destruct (N.eqb_spec i idx) as [->|Hd].
      * intros [<-|He]; [rewrite Hkx; reflexivity|].
        assert (e <> x) by (intros ->; now apply (Hxn idx Hidx)).
        pose proof (Hko e H) as E. unfold kv in E. injection E as -> _.
        now apply (r_idx _ _ _ R).
      * intro He. assert (e <> x) by (intros ->; now apply (Hxn i Hi)).
        pose proof (Hko e H) as E. unfold kv in E. injection E as -> _.
        now apply (r_idx _ _ _ R).
    + rewrite (Permutation_map _ Hperm). cbn [map]. unfold kv at 1. rewrite Hkx.
      constructor. rewrite (map_ext_in (kv t3) (kv t)); [apply (r_perm _ _ _ R)|].
      intros e He. apply Hko. intros ->. contradiction.
    + cbn. constructor; [now apply alookup_none|apply (r_keys _ _ _ R)].
    + rewrite Hcn. unfold t2, new_entry, with_cnt. cbn [fst cnt length].
      rewrite (r_cnt _ _ _ R). lia.
    + intros e He. rewrite Hni. unfold t2, new_entry, with_cnt. cbn [fst nid].
      eapply Permutation_in in He; [|exact Hperm]. destruct He as [<-|He]; [unfold x; lia|].
      apply (r_fresh _ _ _ R) in He. lia.
    + intros _ Hd. contradiction.
  - eapply Permutation_in; [apply Permutation_sym; exact Hperm|now left].
  - exact Hkx.
  - now rewrite Hlv.
  - intros v ->. rewrite Hev. unfold t2, new_entry, with_cnt. cbn. apply gss.
Qed.

(* ---- addKeyEntry ---------------------------------------------------------------------- *)
Lemma increment_ok t l ch k :
  Rep t l ch ->
  exists tb chb, Rep tb l chb /\
    increment t k (index_of t k) = Some (with_cnt tb (cnt tb + 1), index_of tb k).
Proof.
  intro R. unfold Model.increment. destruct (thr t <=? cnt t).
  - unfold Model.rehash.
    destruct (resize_ok t l ch (next_len primes (tlen t) 0) R) as [tb [chb [E Rb]]].
    exists tb, chb. split; [exact Rb|]. rewrite E. reflexivity.
  - exists t, ch. split; [exact R|reflexivity].
Qed.

Lemma add_key_entry_ok t l ch k ov :
  Rep t l ch ->
  exists t1 x l1 ch1, add_key_entry t k ov = Some (t1, x) /\ Rep t1 l1 ch1 /\
    In x (alld ch1 (nb t1)) /\ get (ekey t1) x = k /\ get (elive t1) x = true /\
    match alookup k l with
    | Some w => l1 = l /\ get (evl t1) x = w
    | None => l1 = (k, get (evl t1) x) :: l /\ (forall v, ov = Some v -> get (evl t1) x = v)
    end.
Proof.
  intro R. unfold Model.add_key_entry.
  destruct (rep_find t l ch k R) as [r [E Hr]]. rewrite E. cbn [bind].
  destruct r as [x|].
  - destruct Hr as [Hin [Hk Ha]].
    pose proof (index_lt t k (r_len _ _ _ R)) as Hi.
    exists t, x, l, ch. split; [reflexivity|]. split; [exact R|].
    split; [eapply rep_in_all; eauto|]. split; [exact Hk|].
    split; [eapply chain_live; [apply (r_chain _ _ _ R _ Hi)|exact Hin]|].
    rewrite Ha. split; reflexivity.
  - unfold Model.add_new_key_entry.
    destruct (increment_ok t l ch k R) as [tb [chb [Rb Ei]]]. rewrite Ei. cbn [bind].
    destruct (rep_add_new tb l chb k ov Rb Hr) as [R3 [Hin [Hk [Hl Hv]]]].
    unfold new_entry in *. cbn [fst] in *.
    eexists _, _, _, _. split; [reflexivity|]. split; [exact R3|].
    split; [exact Hin|]. split; [exact Hk|]. split; [exact Hl|].
    rewrite Hr. split; [reflexivity|exact Hv].
Qed.

(* ---- clear ---------------------------------------------------------------------------- *)
Lemma chain_live_ext lv lv' nx h c :
  (forall e, In e c -> get lv' e = get lv e) -> chain lv nx h c -> chain lv' nx h c.
Proof.
  intros H Hc. induction Hc as [|x c Hl Hc IH]; [constructor|].
  constructor; [rewrite H by (now left); exact Hl|]. apply IH. intros e He. apply H. now right.
Qed.

Lemma clear_chain_ok : forall c h t fuel,
  chain (elive t) (enext t) h c -> NoDup c -> (length c < fuel)%nat ->
  exists t', clear_chain fuel t h = Some t' /\
    tab t' = tab t /\ tlen t' = tlen t /\ dflt t' = dflt t /\ enext t' = enext t /\
    (forall e, ~ In e c -> get (elive t') e = get (elive t) e).
Proof.
  induction c as [|x c IH]; intros h t fuel Hc Hnd Hf.
  - apply chain_head_nil in Hc. subst h. exists t. split; [destruct fuel; reflexivity|]. tauto.
  - pose proof (chain_head_cons _ _ _ _ _ Hc) as ->.
    apply chain_some in Hc. destruct Hc as [c' [E [Hl Hc]]]. injection E as <-.
    destruct fuel as [|f]; [cbn in Hf; lia|]. cbn [clear_chain]. rewrite Hl.
    inversion Hnd as [|y ys Hn Hnd']; subst.
    destruct (IH (get (enext t) x) (kill t x) f) as [t' [E [H1 [H2 [H3 [H4 H5]]]]]].
    + cbn [kill elive enext]. apply chain_set_live; assumption.
    + exact Hnd'.
    + cbn in Hf. lia.
    + exists t'. split; [exact E|]. cbn [kill tab tlen dflt enext elive] in *.
      repeat split; try assumption.
      intros e He. cbn in He. rewrite H5 by tauto. apply gso. intros ->. tauto.
Qed.

Lemma clear_buckets_ok ch fuel : forall m i t,
  N.of_nat m + i = tlen t ->
  NoDup (alld ch (nb t)) ->
  (forall j, i <= j < tlen t -> chain (elive t) (enext t) (tget t j) (ch j)) ->
  (forall j, j < tlen t -> (length (ch j) < fuel)%nat) ->
  exists t', clear_buckets fuel t i m = Some t'.
Proof.
  induction m as [|m IH]; intros i t Hm Hnd Hch Hfu; cbn [clear_buckets].
  - eexists. reflexivity.
  - assert (Hi : i < tlen t) by lia.
    destruct (clear_chain_ok (ch i) (tget t i) t fuel) as [t1 [E [H1 [H2 [H3 [H4 H5]]]]]].
    + apply Hch. lia.
    + eapply alld_bucket_nodup; [apply lt_nb; exact Hi|exact Hnd].
    + now apply Hfu.
    + rewrite E. cbn [bind].
      assert (Hnb : nb t1 = nb t) by (unfold nb; now rewrite H2).
      apply IH.
      * rewrite H2. lia.
      * now rewrite Hnb.
      * intros j Hj. rewrite H2 in Hj.
        assert (Hg : tget t1 j = tget t j) by (unfold tget; now rewrite H1, H2, H3).
        rewrite Hg, H4. eapply chain_live_ext; [|apply Hch; lia].
        intros e He. apply H5.
        eapply (alld_disjoint ch j i (nb t)); try eassumption; try (apply lt_nb; lia). lia.
      * intros j Hj. apply Hfu. now rewrite H2 in Hj.
Qed.

Lemma clear_ok t l ch :
  Rep t l ch -> exists t', clear t = Some t' /\ Rep t' [] (fun _ => []).
Proof.
  intro R. unfold clear.
  destruct (clear_buckets_ok ch (fuel_of t) (N.to_nat (tlen t)) 0 t) as [t1 E].
  - lia.
  - apply (r_nodup _ _ _ R).
  - intros j Hj. apply (r_chain _ _ _ R). lia.
  - intros j Hj. eapply rep_fuel; eauto.
  - rewrite E. cbn [bind]. eexists. split; [reflexivity|].
    constructor; cbn [tlen elive enext cnt nid dflt length map]; try (unfold nb; cbn [tlen]).
    + lia.
    + intros i _. rewrite tget_one by reflexivity. cbn. constructor.
    + rewrite alld_nil. constructor.
    + intros i e _ [].
    + rewrite alld_nil. constructor.
    + constructor.
    + reflexivity.
    + rewrite alld_nil. intros e [].
    + lia.
Qed.

(* ---- remove --------------------------------------------------------------------------- *)
Definition last_opt (l : list N) : option N :=
  match rev l with [] => None | p :: _ => Some p end.

Lemma last_opt_snoc l p : last_opt (l ++ [p]) = Some p.
Proof. unfold last_opt. now rewrite rev_app_distr. Qed.

Lemma last_opt_none l : last_opt l = None -> l = [].
Proof.
  unfold last_opt. destruct (rev l) eqn:E; [|discriminate]. intros _.
  rewrite <- (rev_involutive l), E. reflexivity.
Qed.

Lemma last_opt_some l p : last_opt l = Some p -> exists l', l = l' ++ [p].
Proof.
  unfold last_opt. destruct (rev l) as [|q r] eqn:E; [discriminate|]. intro H. injection H as ->.
  exists (rev r). rewrite <- (rev_involutive l), E. reflexivity.
Qed.

Lemma scan_default_some fuel t x i n : dflt t <> None -> scan_default fuel t x i n = Some t.
Proof. intro H. destruct n; cbn; [reflexivity|]. destruct (dflt t); [reflexivity|contradiction]. Qed.

Lemma with_dflt_eta t : with_dflt t (dflt t) = t.
Proof. destruct t; reflexivity. Qed.

Lemma opt_eqb_eq a c : opt_eqb a c = true -> a = c.
Proof.
  destruct a, c; cbn; try discriminate; [|reflexivity]. intro H. apply N.eqb_eq in H. now subst.
Qed.

(* the defaultEntry re-selection of remove(): only defaultEntry changes, it stays the cell
   table[0] while tableLength == 1, and it stays non-null *)
Lemma reselect_ok t l ch k pre x suf :
  Rep t l ch -> ch (index_of t k) = pre ++ x :: suf ->
  exists d1,
    (if opt_eqb (dflt t) (Some x) then
       let t0 := with_dflt t (match last_opt pre with
                              | Some p => Some p
                              | None => tget t (index_of t k)
                              end) in
       scan_default (fuel_of t) t0 x 0 (N.to_nat (tlen t0))
     else Some t) = Some (with_dflt t d1) /\
    (tlen t = 1 -> d1 = dflt t) /\ (dflt t <> None -> d1 <> None).
Proof.
  intros R Hc.
  pose proof (index_lt t k (r_len _ _ _ R)) as Hi.
  pose proof (r_chain _ _ _ R _ Hi) as Hch. rewrite Hc in Hch.
  destruct (opt_eqb (dflt t) (Some x)) eqn:E.
  - apply opt_eqb_eq in E. cbn zeta.
    destruct (last_opt pre) as [p|] eqn:Hp.
    + exists (Some p). split; [apply scan_default_some; cbn; discriminate|].
      split; [|discriminate]. intro H1. exfalso.
      apply last_opt_some in Hp. destruct Hp as [pre' ->].
      rewrite (tget_one _ _ H1), E in Hch.
      assert (Hnd : NoDup ((pre' ++ [p]) ++ x :: suf)).
      { rewrite <- Hc. eapply alld_bucket_nodup; [apply lt_nb; exact Hi|apply (r_nodup _ _ _ R)]. }
      destruct pre' as [|q pre']; cbn in Hch, Hnd.
      * apply chain_head_cons in Hch. injection Hch as <-.
        inversion Hnd as [|y ys Hn _]; subst. apply Hn. now left.
      * apply chain_head_cons in Hch. injection Hch as <-.
        inversion Hnd as [|y ys Hn _]; subst. apply Hn.
        apply in_or_app. right. now left.
    + apply last_opt_none in Hp. subst pre. cbn [app] in Hch.
      apply chain_head_cons in Hch. rewrite Hch.
      exists (Some x). split; [apply scan_default_some; cbn; discriminate|].
      split; [now rewrite E|discriminate].
  - exists (dflt t). rewrite with_dflt_eta. tauto.
Qed.

Lemma tget_reselect t d1 j : (tlen t = 1 -> d1 = dflt t) -> tget (with_dflt t d1) j = tget t j.
Proof.
  intro H. unfold tget, with_dflt. cbn. destruct (N.eqb_spec (tlen t) 1) as [E|E]; [now apply H|reflexivity].
Qed.

(* the representation after one entry x of bucket idx was unlinked and deleted *)
Lemma rep_removed t l ch t' k x idx c' :
  Rep t l ch -> idx < tlen t -> Permutation (ch idx) (x :: c') -> get (ekey t) x = k ->
  tlen t' = tlen t -> ekey t' = ekey t -> evl t' = evl t -> nid t' = nid t ->
  cnt t' = cnt t - 1 ->
  (forall i, i < tlen t -> chain (elive t') (enext t') (tget t' i) (upd ch idx c' i)) ->
  (1 < tlen t -> dflt t <> None -> dflt t' <> None) ->
  Rep t' (aremove k l) (upd ch idx c').
Proof.
  intros R Hidx Hpc Hk Htl Hek Hev Hni Hcn Hch Hdf.
  assert (Hnb : nb t' = nb t) by (unfold nb; now rewrite Htl).
  assert (Hperm : Permutation (alld ch (nb t)) (x :: alld (upd ch idx c') (nb t))).
  { apply alld_upd_uncons; [apply lt_nb; exact Hidx|exact Hpc]. }
  assert (Hx : In x (alld ch (nb t))).
  { eapply Permutation_in; [apply Permutation_sym; exact Hperm|now left]. }
  pose proof (rep_in_l _ _ _ R _ Hx) as Hxl. unfold kv in Hxl. rewrite Hk in Hxl.
  assert (Hkv : forall a, map (kv t') a = map (kv t) a).
  { intro a. apply map_ext. intro e. unfold kv. now rewrite Hek, Hev. }
  constructor.
  - rewrite Htl. apply (r_len _ _ _ R).
  - intros i Hi. apply Hch. now rewrite Htl in Hi.
  - rewrite Hnb. pose proof (r_nodup _ _ _ R) as Hnd.
    eapply Permutation_NoDup in Hnd; [|exact Hperm]. now inversion Hnd.
  - intros i e Hi He. rewrite Htl in Hi |- *. rewrite Hek.
    apply (r_idx _ _ _ R); [exact Hi|]. unfold upd in He.
    destruct (N.eqb_spec i idx) as [->|Hd]; [|exact He].
    eapply Permutation_in; [apply Permutation_sym; exact Hpc|now right].
  - rewrite Hnb, Hkv. apply (perm_remove_mid [] _ k (get (evl t) x)); [apply (r_keys _ _ _ R)|].
    cbn [app]. rewrite <- (r_perm _ _ _ R), (Permutation_map _ Hperm). cbn [map]. unfold kv at 2.
    now rewrite Hk.
  - apply aremove_keys_nodup, (r_keys _ _ _ R).
  - rewrite Hcn, (r_cnt _ _ _ R).
    rewrite (aremove_length_in k _ l (r_keys _ _ _ R) Hxl). lia.
  - intros e He. rewrite Hni. apply (r_fresh _ _ _ R). rewrite Hnb in He.
    eapply Permutation_in; [apply Permutation_sym; exact Hperm|now right].
  - rewrite Htl. intros H1 Hd. exfalso. apply (Hdf H1); [|exact Hd].
    intro Hn. pose proof (r_dflt _ _ _ R H1 Hn) as Hl. rewrite Hl in Hxl. destruct Hxl.
Qed.

Lemma unlink_ok t l ch k pre x suf d1 :
  Rep t l ch -> ch (index_of t k) = pre ++ x :: suf -> get (ekey t) x = k ->
  (tlen t = 1 -> d1 = dflt t) -> (dflt t <> None -> d1 <> None) ->
  let t1 := with_dflt t d1 in
  exists t2,
    match last_opt pre with
    | Some p => if get (elive t1) p then Some (with_next t1 p (get (enext t1) x)) else None
    | None => Some (tset t1 (index_of t k) (get (enext t1) x))
    end = Some t2 /\
    Rep (kill (with_cnt t2 (cnt t2 - 1)) x) (aremove k l) (upd ch (index_of t k) (pre ++ suf)).
Proof.
  intros R Hc Hk Hd1 Hd2 t1.
  set (idx := index_of t k) in *.
  pose proof (index_lt t k (r_len _ _ _ R)) as Hi. fold idx in Hi.
  pose proof (r_chain _ _ _ R _ Hi) as Hch. rewrite Hc in Hch.
  assert (Hnd : NoDup (pre ++ x :: suf)).
  { rewrite <- Hc. eapply alld_bucket_nodup; [apply lt_nb; exact Hi|apply (r_nodup _ _ _ R)]. }
  assert (Hxo : forall i, i < tlen t -> i <> idx -> ~ In x (ch i)).
  { intros i Hi' Hne. eapply (alld_disjoint ch idx i (nb t)); try (apply lt_nb; assumption).
    - apply (r_nodup _ _ _ R).
    - congruence.
    - rewrite Hc. apply in_or_app. right. now left. }
  assert (Hxs : ~ In x (pre ++ suf)) by (now apply NoDup_remove_2 in Hnd).
  assert (Hpc : Permutation (ch idx) (x :: pre ++ suf)).
  { rewrite Hc. apply Permutation_sym, Permutation_middle. }
  assert (Hg : forall j, tget t1 j = tget t j) by (intro j; now apply tget_reselect).
  destruct (last_opt pre) as [p|] eqn:Hp.
  - (* prev != nullptr *)
    apply last_opt_some in Hp. destruct Hp as [pre' ->].
    rewrite <- app_assoc in Hc, Hch, Hnd, Hxs. cbn [app] in Hc, Hch, Hnd, Hxs.
    assert (Hpin : In p (ch idx)) by (rewrite Hc; apply in_or_app; right; now left).
    assert (Hlp : get (elive t) p = true).
    { eapply chain_live; [exact Hch|]. apply in_or_app. right. now left. }
    change (elive t1) with (elive t). change (enext t1) with (enext t). rewrite Hlp.
    eexists. split; [reflexivity|].
    apply (rep_removed t l ch _ k x idx); try assumption; try reflexivity.
    + intros i Hi'. cbn [kill with_cnt with_next elive enext].
      change (tget _ i) with (tget t1 i). rewrite Hg. unfold upd.
      destruct (N.eqb_spec i idx) as [->|Hne].
      * rewrite <- app_assoc. cbn [app]. apply chain_set_live; [exact Hxs|].
        apply chain_unlink; assumption.
      * apply chain_set_live; [now apply Hxo|]. apply chain_set_next; [|now apply (r_chain _ _ _ R)].
        eapply (alld_disjoint ch idx i (nb t)); try (apply lt_nb; assumption); try congruence.
        apply (r_nodup _ _ _ R).
    + intros _ Hdn. cbn. now apply Hd2.
  - (* prev == nullptr: x is the head of its chain *)
    apply last_opt_none in Hp. subst pre. cbn [app] in *.
    pose proof (chain_head_cons _ _ _ _ _ Hch) as Hh.
    rewrite Hh in Hch. apply chain_some in Hch. destruct Hch as [c' [E [Hlx Hcs]]]. injection E as <-.
    eexists. split; [reflexivity|].
    change (enext t1) with (enext t).
    apply (rep_removed t l ch _ k x idx); try assumption.
    + destruct (N.eq_dec (tlen t) 1) as [E1|E1];
        [rewrite tset_one by exact E1|rewrite tset_big by exact E1]; reflexivity.
    + destruct (N.eq_dec (tlen t) 1) as [E1|E1];
        [rewrite tset_one by exact E1|rewrite tset_big by exact E1]; reflexivity.
    + destruct (N.eq_dec (tlen t) 1) as [E1|E1];
        [rewrite tset_one by exact E1|rewrite tset_big by exact E1]; reflexivity.
    + destruct (N.eq_dec (tlen t) 1) as [E1|E1];
        [rewrite tset_one by exact E1|rewrite tset_big by exact E1]; reflexivity.
    + destruct (N.eq_dec (tlen t) 1) as [E1|E1];
        [rewrite tset_one by exact E1|rewrite tset_big by exact E1]; reflexivity.
    + intros i Hi'. unfold upd.
      destruct (N.eq_dec (tlen t) 1) as [E1|E1].
      * rewrite tset_one by exact E1. assert (i = idx) by lia. subst i. rewrite N.eqb_refl.
        rewrite tget_one by exact E1. cbn. now apply chain_set_live.
      * rewrite tset_big by exact E1. rewrite tget_big by exact E1. cbn. rewrite get_set.
        destruct (N.eqb_spec i idx) as [->|Hne]; [now apply chain_set_live|].
        apply chain_set_live; [now apply Hxo|].
        pose proof (r_chain _ _ _ R i Hi') as Hci. now rewrite tget_big in Hci by exact E1.
    + intros H1 Hdn. rewrite tset_big by (cbn; lia). cbn. now apply Hd2.
Qed.

Lemma remove_loop_ok t l ch k :
  Rep t l ch ->
  forall suf pre e fuel,
    ch (index_of t k) = pre ++ suf ->
    chain (elive t) (enext t) e suf ->
    (forall y, In y pre -> get (ekey t) y <> k) ->
    (length suf < fuel)%nat ->
    exists t' b, remove_loop fuel t (index_of t k) (last_opt pre) e k = Some (t', b) /\
      match alookup k l with
      | Some _ => b = true /\ Inv t' (aremove k l)
      | None => b = false /\ t' = t
      end.
Proof.
  intro R. induction suf as [|x suf IH]; intros pre e fuel Hc Hch Hpre Hf.
  - apply chain_head_nil in Hch. subst e.
    exists t, false. split; [destruct fuel; reflexivity|].
    destruct (alookup k l) as [v|] eqn:A; [|tauto]. exfalso.
    destruct (rep_lookup_bucket _ _ _ R _ _ A) as [y [Hy [Ek _]]].
    rewrite Hc, app_nil_r in Hy. now apply (Hpre y Hy).
  - pose proof (chain_head_cons _ _ _ _ _ Hch) as ->.
    pose proof Hch as Hch0.
    apply chain_some in Hch. destruct Hch as [c' [E [Hl Hcs]]]. injection E as <-.
    destruct fuel as [|f]; [cbn in Hf; lia|]. cbn [remove_loop]. rewrite Hl.
    destruct (N.eqb_spec (get (ekey t) x) k) as [Ek|Ek]; cbn [negb].
    + (* found *)
      destruct (reselect_ok t l ch k pre x suf R Hc) as [d1 [E1 [Hd1 Hd2]]].
      destruct (unlink_ok t l ch k pre x suf d1 R Hc Ek Hd1 Hd2) as [t2 [E2 R2]].
      eexists _, true. split.
      * cbn zeta in E1. rewrite E1. cbn [bind]. cbn zeta in E2. rewrite E2. cbn [bind]. reflexivity.
      * assert (A : alookup k l = Some (get (evl t) x)).
        { rewrite <- Ek at 1. apply (rep_lookup_some t l ch R x).
          apply (rep_in_all t ch (index_of t k)); [apply index_lt, (r_len _ _ _ R)|].
          rewrite Hc. apply in_or_app. right. now left. }
        rewrite A. split; [reflexivity|]. eexists. exact R2.
    + (* prev = entry; continue *)
      rewrite <- (last_opt_snoc pre x).
      apply IH; [now rewrite <- app_assoc|exact Hcs| |cbn in Hf; lia].
      intros y Hy. apply in_app_or in Hy. destruct Hy as [Hy|[<-|[]]]; [now apply Hpre|exact Ek].
Qed.

Lemma remove_ok t l k :
  Inv t l ->
  exists t' b, remove t k = Some (t', b) /\
    match alookup k l with
    | Some _ => b = true /\ Inv t' (aremove k l)
    | None => b = false /\ t' = t
    end.
Proof.
  intros [ch R]. unfold Model.remove.
  change (@None N) with (last_opt []).
  apply (remove_loop_ok t l ch k R (ch (index_of t k)) []).
  - reflexivity.
  - apply (r_chain _ _ _ R). apply index_lt, (r_len _ _ _ R).
  - intros y [].
  - eapply rep_fuel; [exact R|]. apply index_lt, (r_len _ _ _ R).
Qed.

(* ---- every operation of the set refines the association list -------------------------- *)
Lemma init_inv : Inv init_tbl [].
Proof.
  exists (fun _ => []). constructor; cbn [init_tbl tlen elive enext cnt nid dflt length map];
    try (unfold nb; cbn [init_tbl tlen]).
  - lia.
  - intros i _. rewrite tget_one by reflexivity. cbn. constructor.
  - rewrite alld_nil. constructor.
  - intros i e _ [].
  - rewrite alld_nil. constructor.
  - constructor.
  - reflexivity.
  - rewrite alld_nil. intros e [].
  - lia.
Qed.

Lemma exec_sop_ok t l o :
  Inv t l ->
  exists t', exec_sop t o = Some (t', snd (spec_sop l o)) /\ Inv t' (fst (spec_sop l o)).
Proof.
  intros [ch R]. destruct o as [k v|k v|k|k| |n| | |]; cbn [Model.exec_sop spec_sop].
  - (* addKeyValue(k) = v *)
    destruct (add_key_entry_ok t l ch k None R) as [t1 [x [l1 [ch1 [E [R1 [Hin [Hk [Hl Ha]]]]]]]]].
    rewrite E. cbn [bind]. rewrite Hl. eexists. split; [reflexivity|]. cbn [fst].
    exists ch1. pose proof (rep_with_val t1 l1 ch1 x v R1 Hin) as R2. rewrite Hk in R2.
    destruct (alookup k l) as [w|].
    + destruct Ha as [-> _]. exact R2.
    + destruct Ha as [-> _]. unfold aset in R2 |- *. cbn [aremove] in R2.
      now rewrite N.eqb_refl in R2.
  - (* addKeyValue(k, v) *)
    destruct (add_key_entry_ok t l ch k (Some v) R) as [t1 [x [l1 [ch1 [E [R1 [Hin [Hk [Hl Ha]]]]]]]]].
    rewrite E. cbn [bind]. rewrite Hl.
    destruct (alookup k l) as [w|].
    + destruct Ha as [-> ->]. eexists. split; [reflexivity|]. now exists ch1.
    + destruct Ha as [-> Hv]. rewrite (Hv v eq_refl) in *.
      eexists. split; [reflexivity|]. now exists ch1.
  - (* findKeyValue *)
    unfold Model.find_key_value, Model.find_key_entry.
    destruct (rep_find t l ch k R) as [r [E Hr]]. rewrite E. cbn [bind].
    destruct r as [x|].
    + destruct Hr as [Hin [Hk Ha]].
      rewrite (chain_live _ _ _ _ _ (r_chain _ _ _ R _ (index_lt t k (r_len _ _ _ R))) Hin).
      cbn [bind]. rewrite Ha. eexists. split; [reflexivity|]. now exists ch.
    + cbn [bind]. rewrite Hr. eexists. split; [reflexivity|]. now exists ch.
  - (* remove *)
    destruct (remove_ok t l k (ex_intro _ ch R)) as [t' [b [E Hb]]]. rewrite E. cbn [bind].
    destruct (alookup k l) as [w|].
    + destruct Hb as [-> I']. eexists. split; [reflexivity|exact I'].
    + destruct Hb as [-> ->]. eexists. split; [reflexivity|]. now exists ch.
  - (* clear *)
    destruct (clear_ok t l ch R) as [t' [E R']]. rewrite E. cbn [bind].
    eexists. split; [reflexivity|]. eexists. exact R'.
  - (* resize *)
    destruct (resize_ok t l ch n R) as [t' [ch' [E R']]]. rewrite E. cbn [bind].
    eexists. split; [reflexivity|]. now exists ch'.
  - (* shrink *)
    unfold Model.shrink. destruct (N.eqb_spec (cnt t) 0) as [E0|E0].
    + destruct (clear_ok t l ch R) as [t' [E R']]. rewrite E. cbn [bind].
      eexists. split; [reflexivity|]. cbn [fst].
      rewrite (r_cnt _ _ _ R) in E0. destruct l; [|cbn in E0; lia]. eexists. exact R'.
    + destruct (resize_ok t l ch (cnt t) R) as [t' [ch' [E R']]]. rewrite E. cbn [bind].
      eexists. split; [reflexivity|]. now exists ch'.
  - (* size *)
    rewrite (r_cnt _ _ _ R). eexists. split; [reflexivity|]. now exists ch.
  - (* enumerate: the observation does it *)
    eexists. split; [reflexivity|]. now exists ch.
Qed.

Lemma observe_ok full o t l r :
  Inv t l -> observe full o t r = Some (spec_observe full o l r).
Proof.
  intro I. unfold observe, spec_observe.
  assert (Hc : cnt t = N.of_nat (length l)) by (destruct I as [ch R]; apply (r_cnt _ _ _ R)).
  destruct (full || is_enum o).
  - destruct (enumerate_sorted t l I) as [el [E Hs]]. rewrite E. cbn [bind]. now rewrite Hs, Hc.
  - now rewrite Hc.
Qed.

Lemma step_ok full s a o :
  Inv (sset s) (fst a) -> Inv (smap s) (snd a) ->
  exists s', step full s o = Some (s', snd (spec_step full a o)) /\
    Inv (sset s') (fst (fst (spec_step full a o))) /\
    Inv (smap s') (snd (fst (spec_step full a o))).
Proof.
  intros Is Im. unfold Model.step, spec_step. destruct (on_map o).
  - destruct (exec_sop_ok (smap s) (snd a) (map_sop o) Im) as [t' [E I']]. rewrite E. cbn [bind].
    destruct (spec_sop (snd a) (map_sop o)) as [l' r]. cbn [fst snd] in *.
    rewrite (observe_ok full (map_sop o) t' l' r I'). cbn [bind].
    eexists. split; [reflexivity|]. cbn. tauto.
  - destruct (exec_sop_ok (sset s) (fst a) (map_sop o) Is) as [t' [E I']]. rewrite E. cbn [bind].
    destruct (spec_sop (fst a) (map_sop o)) as [l' r]. cbn [fst snd] in *.
    rewrite (observe_ok full (map_sop o) t' l' r I'). cbn [bind].
    eexists. split; [reflexivity|]. cbn. tauto.
Qed.

Lemma run_from_refines full : forall ops s a,
  Inv (sset s) (fst a) -> Inv (smap s) (snd a) ->
  run_from full s ops = map Some (spec_from full a ops).
Proof.
  induction ops as [|o ops IH]; intros s a Is Im; cbn [Model.run_from spec_from map]; [reflexivity|].
  destruct (step_ok full s a o Is Im) as [s' [E [Is' Im']]]. rewrite E.
  destruct (spec_step full a o) as [a' ob]. cbn [fst snd] in *. cbn [map]. f_equal.
  now apply IH.
Qed.

End WithHash.

(* the main theorem: for every hash function, whether the container is enumerated after
   every operation or on demand, and every sequence of operations on the set and the map *)
Theorem run_refines_spec :
  forall (hash : N -> N) (full : bool) (ops : list op),
    run hash full ops = map Some (spec_run full ops).
Proof.
  intros hash full ops. unfold run, spec_run.
  apply run_from_refines; cbn; apply init_inv.
Qed.

Corollary run_never_fails :
  forall (hash : N -> N) (full : bool) (ops : list op), ~ In None (run hash full ops).
Proof.
  intros hash full ops H. rewrite run_refines_spec in H.
  apply in_map_iff in H. destruct H as [x [E _]]. discriminate.
Qed.
