(* C18set/Model.v - executable model of con::set<K,V,HashT,KeyEqT,AllocatorT> and of its thin
   wrapper con::map (include/morfuse/Container/set.h, set_primes of src/Container/set.cpp) at
   the level of the code.

   What is modelled (same branches, same order of updates):
   - the bucket table: [tab] (array of chain heads), [tlen] = tableLength, [thr] = threshold,
     [cnt] = count, [dflt] = defaultEntry.  While tableLength == 1 the C++ has
     table = &defaultEntry: table[0] and defaultEntry are the SAME cell.  [tget]/[tset] read
     and write defaultEntry in that case, every table[..] access of the code goes through them;
   - entries: ids (fresh, never reused) with key [ekey], value [evl], next pointer [enext] and
     a liveness flag [elive] (DeleteEntry clears it).  Every dereference of an entry
     (Key(), Value(), Next(), SetNext()) of a dead id makes the operation fail (None);
   - insertEntry with its defaultEntry == nullptr branch, addKeyEntry (both overloads),
     addNewKeyEntry, increment (count >= threshold -> rehash -> resize(first prime of
     set_primes that is > tableLength, or the LAST array element when there is none: the array
     is declared [24] with 23 initialisers, so that element is 0 and resize(0) returns)),
     findKeyEntry, remove (prev tracking, the defaultEntry re-selection code as written,
     including its scan loop, unlink, count--, DeleteEntry), clear, resize (n <= 1 returns; new
     zeroed table; every old bucket from oldTableLength down to 1, entries pushed at the head
     of their new bucket; oldTable == &defaultEntry when the old length was 1), shrink, size,
     set_enum (operator= and NextElement as a state machine: m_Index, m_CurrentEntry,
     m_NextEntry), con::map's operator[] / find / remove / size / clear / resize (calls of the
     set's functions) and map_enum (NextKey + CurrentValue).
   - loops over chains carry fuel (count + 1 entries); exhausted fuel = None.

   What is abstracted:
   - a removed defaultEntry leaves [dflt] pointing at a dead id (the C++ keeps the dangling
     pointer; it is only compared afterwards, never dereferenced).  The block allocator may
     hand the same address to a later entry, the model's ids are never reused: the comparison
     defaultEntry == entry can then be true in the C++ and false in the model.  The branch
     it guards only assigns another non-null pointer to defaultEntry and defaultEntry is
     otherwise only tested against nullptr, so nothing observable depends on it;
   - tableLengthIndex (written by rehash/clear, read by nothing modelled), the allocator
     (BlockAllocSafe_set pool, MEM::Alloc tables), Archive;
   - keys and values are numbers (the harness uses int keys wrapped in a type that counts
     constructions and destructions, and int values); the value of an entry created by
     addKeyValue(key) is not initialised by the C++: the client operation [SAdd] assigns it
     at once (the model leaves what the array holds);
   - the hash function is the Section variable [hash] (KeyEqT is equality of numbers). *)
From Coq Require Import NArith List Bool.
From Morfuse Require Import Base.Arr.
Import ListNotations.
Local Open Scope N_scope.

Record tbl := mkT {
  tab : arr (option N);        (* the allocated table (meaningful while tlen > 1) *)
  tlen : N;                    (* tableLength *)
  thr : N;                     (* threshold *)
  cnt : N;                     (* count *)
  dflt : option N;             (* defaultEntry; it IS table[0] while tlen = 1 *)
  ekey : arr N;                (* Entry::key, by entry id *)
  evl : arr N;                 (* Entry::value *)
  enext : arr (option N);      (* EntryBase::next *)
  elive : arr bool;            (* constructed and not yet deleted *)
  nid : N }.                   (* next fresh entry id *)

(* set::set() *)
Definition init_tbl : tbl :=
  mkT (aempty None) 1 1 0 None (aempty 0) (aempty 0) (aempty None) (aempty false) 0.

Definition with_tab (t : tbl) (a : arr (option N)) : tbl :=
  mkT a (tlen t) (thr t) (cnt t) (dflt t) (ekey t) (evl t) (enext t) (elive t) (nid t).
Definition with_dflt (t : tbl) (d : option N) : tbl :=
  mkT (tab t) (tlen t) (thr t) (cnt t) d (ekey t) (evl t) (enext t) (elive t) (nid t).
Definition with_cnt (t : tbl) (c : N) : tbl :=
  mkT (tab t) (tlen t) (thr t) c (dflt t) (ekey t) (evl t) (enext t) (elive t) (nid t).
Definition with_next (t : tbl) (e : N) (v : option N) : tbl :=
  mkT (tab t) (tlen t) (thr t) (cnt t) (dflt t) (ekey t) (evl t) (set (enext t) e v) (elive t) (nid t).
Definition with_val (t : tbl) (e : N) (v : N) : tbl :=
  mkT (tab t) (tlen t) (thr t) (cnt t) (dflt t) (ekey t) (set (evl t) e v) (enext t) (elive t) (nid t).
(* DeleteEntry *)
Definition kill (t : tbl) (e : N) : tbl :=
  mkT (tab t) (tlen t) (thr t) (cnt t) (dflt t) (ekey t) (evl t) (enext t) (set (elive t) e false) (nid t).

(* table[i] : the aliasing table = &defaultEntry while tableLength == 1 *)
Definition tget (t : tbl) (i : N) : option N :=
  if tlen t =? 1 then dflt t else get (tab t) i.
Definition tset (t : tbl) (i : N) (v : option N) : tbl :=
  if tlen t =? 1 then with_dflt t v else with_tab t (set (tab t) i v).

Definition bind {A B} (x : option A) (f : A -> option B) : option B :=
  match x with Some a => f a | None => None end.
Notation "x <- e ;; k" := (bind e (fun x => k)) (at level 61, e at next level, right associativity).
Notation "' p <- e ;; k" := (bind e (fun p => k)) (at level 61, p pattern, e at next level, right associativity).

Definition opt_eqb (a c : option N) : bool :=
  match a, c with
  | None, None => true
  | Some x, Some y => N.eqb x y
  | _, _ => false
  end.

(* the bound of every chain loop: count + 1 *)
Definition fuel_of (t : tbl) : nat := S (N.to_nat (cnt t)).

(* set_primes[24]: 23 initialisers, the last element is 0 *)
Definition primes : list N :=
  [7; 17; 37; 79; 163; 331; 673; 1361; 2729; 5471; 10949; 21911; 43853; 87719; 175447;
   701819; 1403641; 2807303; 5614657; 11229331; 22458671; 44917381; 89834777; 0].

(* rehash(): newLen = 0; for each i: newLen = set_primes[i]; if (newLen > tableLength) break; *)
Fixpoint next_len (ps : list N) (len newLen : N) : N :=
  match ps with
  | [] => newLen
  | p :: ps' => if len <? p then p else next_len ps' len p
  end.

Section WithHash.
Variable hash : N -> N.

Definition index_of (t : tbl) (k : N) : N := hash k mod tlen t.

(* the loop of findKeyEntry / addKeyEntry: for (; entry; entry = entry->Next()) *)
Fixpoint find_loop (fuel : nat) (t : tbl) (e : option N) (k : N) : option (option N) :=
  match e with
  | None => Some None
  | Some x =>
      match fuel with
      | O => None
      | S f =>
          if get (elive t) x then
            if get (ekey t) x =? k then Some (Some x)
            else find_loop f t (get (enext t) x) k
          else None
      end
  end.

Definition find_key_entry (t : tbl) (k : N) : option (option N) :=
  find_loop (fuel_of t) t (tget t (index_of t k)) k.

(* findKeyValue: the value of the entry, or nullptr *)
Definition find_key_value (t : tbl) (k : N) : option (option N) :=
  r <- find_key_entry t k ;;
  match r with
  | Some x => if get (elive t) x then Some (Some (get (evl t) x)) else None
  | None => Some None
  end.

(* one entry of the inner loop of resize: old = e->Next(); index = hash % tableLength;
   e->SetNext(table[index]); table[index] = e; e = old *)
Fixpoint rehash_chain (fuel : nat) (t : tbl) (e : option N) : option tbl :=
  match e with
  | None => Some t
  | Some x =>
      match fuel with
      | O => None
      | S f =>
          if get (elive t) x then
            let old := get (enext t) x in
            let index := index_of t (get (ekey t) x) in
            let t1 := with_next t x (tget t index) in
            let t2 := tset t1 index (Some x) in
            rehash_chain f t2 old
          else None
      end
  end.

(* for (i = oldTableLength; i > 0; i--) ... oldTable[i - 1] *)
Fixpoint rehash_buckets (fuel : nat) (oldtab : N -> option N) (i : nat) (t : tbl) : option tbl :=
  match i with
  | O => Some t
  | S j =>
      t' <- rehash_chain fuel t (oldtab (N.of_nat j)) ;;
      rehash_buckets fuel oldtab j t'
  end.

Definition resize (t : tbl) (n : N) : option tbl :=
  if n <=? 1 then Some t
  else
    let oldlen := tlen t in
    (* oldTable = table: &defaultEntry while the old length is 1 (defaultEntry is not
       written by resize), the allocated table otherwise *)
    let oldtab := fun j => if oldlen =? 1 then dflt t else get (tab t) j in
    let t1 := mkT (aempty None) n n (cnt t) (dflt t) (ekey t) (evl t) (enext t) (elive t) (nid t) in
    rehash_buckets (fuel_of t) oldtab (N.to_nat oldlen) t1.

Definition rehash (t : tbl) : option tbl := resize t (next_len primes (tlen t) 0).

(* clear(): delete every entry of every chain (next is read before the entry is deleted) *)
Fixpoint clear_chain (fuel : nat) (t : tbl) (e : option N) : option tbl :=
  match e with
  | None => Some t
  | Some x =>
      match fuel with
      | O => None
      | S f =>
          if get (elive t) x then
            let next := get (enext t) x in
            clear_chain f (kill t x) next
          else None
      end
  end.

Fixpoint clear_buckets (fuel : nat) (t : tbl) (i : N) (n : nat) : option tbl :=
  match n with
  | O => Some t
  | S m =>
      t' <- clear_chain fuel t (tget t i) ;;
      clear_buckets fuel t' (i + 1) m
  end.

Definition clear (t : tbl) : option tbl :=
  t' <- clear_buckets (fuel_of t) t 0 (N.to_nat (tlen t)) ;;
  (* the table is freed when tableLength > 1; table = &defaultEntry again *)
  Some (mkT (aempty None) 1 1 0 None (ekey t') (evl t') (enext t') (elive t') (nid t')).

Definition shrink (t : tbl) : option tbl :=
  if cnt t =? 0 then clear t else resize t (cnt t).

(* increment: returns the (possibly recomputed) index *)
Definition increment (t : tbl) (k : N) (index : N) : option (tbl * N) :=
  if thr t <=? cnt t then
    t' <- rehash t ;;
    Some (with_cnt t' (cnt t' + 1), index_of t' k)
  else Some (with_cnt t (cnt t + 1), index).

(* NewEntry(key) / NewEntry(key, initVal) *)
Definition new_entry (t : tbl) (k : N) (v : option N) : tbl * N :=
  let x := nid t in
  (mkT (tab t) (tlen t) (thr t) (cnt t) (dflt t) (set (ekey t) x k)
       (match v with Some w => set (evl t) x w | None => evl t end)
       (enext t) (set (elive t) x true) (x + 1), x).

Definition insert_entry (t : tbl) (x : N) (index : N) : tbl :=
  match dflt t with
  | None =>
      let t1 := with_dflt t (Some x) in
      let t2 := with_next t1 x None in
      tset t2 index (Some x)
  | Some _ =>
      let t1 := with_next t x (tget t index) in
      tset t1 index (Some x)
  end.

Definition add_new_key_entry (t : tbl) (k : N) (v : option N) (index : N) : option (tbl * N) :=
  '(t1, index') <- increment t k index ;;
  let '(t2, x) := new_entry t1 k v in
  Some (insert_entry t2 x index', x).

(* addKeyEntry(key) and addKeyEntry(key, initVal) *)
Definition add_key_entry (t : tbl) (k : N) (v : option N) : option (tbl * N) :=
  let index := index_of t k in
  r <- find_loop (fuel_of t) t (tget t index) k ;;
  match r with
  | Some x => Some (t, x)
  | None => add_new_key_entry t k v index
  end.

(* the scan of remove():  for (e = table[i]; e; e = e->Next())
                            { if (e == entry) continue; defaultEntry = e; break; } *)
Fixpoint scan_chain (fuel : nat) (t : tbl) (e : option N) (entry : N) : option tbl :=
  match e with
  | None => Some t
  | Some y =>
      if y =? entry then
        match fuel with
        | O => None
        | S f => if get (elive t) y then scan_chain f t (get (enext t) y) entry else None
        end
      else Some (with_dflt t (Some y))
  end.

(* for (i = 0; i < tableLength && !defaultEntry; i++) *)
Fixpoint scan_default (fuel : nat) (t : tbl) (entry : N) (i : N) (n : nat) : option tbl :=
  match n with
  | O => Some t
  | S m =>
      match dflt t with
      | Some _ => Some t
      | None =>
          t' <- scan_chain fuel t (tget t i) entry ;;
          scan_default fuel t' entry (i + 1) m
      end
  end.

Fixpoint remove_loop (fuel : nat) (t : tbl) (index : N) (prev e : option N) (k : N)
  : option (tbl * bool) :=
  match e with
  | None => Some (t, false)
  | Some x =>
      match fuel with
      | O => None
      | S f =>
          if get (elive t) x then
            if negb (get (ekey t) x =? k) then
              remove_loop f t index (Some x) (get (enext t) x) k
            else
              t1 <- (if opt_eqb (dflt t) (Some x) then
                       let t0 := with_dflt t (match prev with
                                              | Some p => Some p
                                              | None => tget t index
                                              end) in
                       scan_default (fuel_of t) t0 x 0 (N.to_nat (tlen t0))
                     else Some t) ;;
              t2 <- match prev with
                    | Some p =>
                        if get (elive t1) p then Some (with_next t1 p (get (enext t1) x))
                        else None
                    | None => Some (tset t1 index (get (enext t1) x))
                    end ;;
              Some (kill (with_cnt t2 (cnt t2 - 1)) x, true)
          else None
      end
  end.

Definition remove (t : tbl) (k : N) : option (tbl * bool) :=
  let index := index_of t k in
  remove_loop (fuel_of t) t index None (tget t index) k.

(* ---- set_enum ------------------------------------------------------------------------ *)
Record enum := mkEnum {
  m_index : nat;               (* m_Index *)
  m_cur : option N;            (* m_CurrentEntry *)
  m_next : option N }.         (* m_NextEntry *)

(* set_enum::operator=(set&) *)
Definition enum_init (t : tbl) : enum := mkEnum (N.to_nat (tlen t)) None None.

(* while (1) { if (!m_Index) break; m_Index--; m_NextEntry = table[m_Index];
               if (m_NextEntry) break; } *)
Fixpoint skip_empty (t : tbl) (i : nat) : nat * option N :=
  match i with
  | O => (O, None)
  | S j =>
      match tget t (N.of_nat j) with
      | Some x => (j, Some x)
      | None => skip_empty t j
      end
  end.

(* NextElement *)
Definition next_element (t : tbl) (en : enum) : option (enum * option N) :=
  let '(i, nx) := match m_next en with
                  | Some _ => (m_index en, m_next en)
                  | None => skip_empty t (m_index en)
                  end in
  match nx with
  | None => Some (mkEnum i None None, None)
  | Some x =>
      if get (elive t) x then Some (mkEnum i (Some x) (get (enext t) x), Some x) else None
  end.

(* the client loop: while ((e = en.NextElement())) visit(e->Key(), e->Value()) *)
Fixpoint enum_loop (fuel : nat) (t : tbl) (en : enum) (acc : list (N * N))
  : option (list (N * N)) :=
  match fuel with
  | O => None
  | S f =>
      r <- next_element t en ;;
      match r with
      | (en', Some x) => enum_loop f t en' ((get (ekey t) x, get (evl t) x) :: acc)
      | (_, None) => Some (rev acc)
      end
  end.

Definition enumerate (t : tbl) : option (list (N * N)) :=
  enum_loop (fuel_of t) t (enum_init t) [].

(* ---- the client level ---------------------------------------------------------------- *)
Inductive sop :=
| SAdd (k v : N)             (* addKeyValue(k) = v *)
| SAddInit (k v : N)         (* addKeyValue(k, v): the value is only set when k is new *)
| SFind (k : N)
| SRemove (k : N)
| SClear
| SResize (n : N)
| SShrink
| SSize
| SEnum.

Inductive ret :=
| RNone
| RVal (v : option N)        (* found value / nullptr *)
| RBool (b : bool)
| RNum (n : N).

Definition exec_sop (t : tbl) (o : sop) : option (tbl * ret) :=
  match o with
  | SAdd k v =>
      '(t1, x) <- add_key_entry t k None ;;
      if get (elive t1) x then Some (with_val t1 x v, RNone) else None
  | SAddInit k v =>
      '(t1, x) <- add_key_entry t k (Some v) ;;
      if get (elive t1) x then Some (t1, RVal (Some (get (evl t1) x))) else None
  | SFind k => r <- find_key_value t k ;; Some (t, RVal r)
  | SRemove k => '(t1, b) <- remove t k ;; Some (t1, RBool b)
  | SClear => t1 <- clear t ;; Some (t1, RNone)
  | SResize n => t1 <- resize t n ;; Some (t1, RNone)
  | SShrink => t1 <- shrink t ;; Some (t1, RNone)
  | SSize => Some (t, RNum (cnt t))
  | SEnum => Some (t, RNone)
  end.

(* con::map: every member function is one call of the set's *)
Inductive op :=
| OSet (o : sop)
| OMIdx (k v : N)            (* map[k] = v *)
| OMFind (k : N)
| OMRemove (k : N)
| OMSize
| OMClear
| OMResize (n : N)
| OMEnum.

Definition map_sop (o : op) : sop :=
  match o with
  | OSet s => s
  | OMIdx k v => SAdd k v         (* operator[] = m_set.addKeyValue(index) *)
  | OMFind k => SFind k           (* m_set.findKeyValue(index) *)
  | OMRemove k => SRemove k       (* m_set.remove(index) *)
  | OMSize => SSize               (* m_set.size() *)
  | OMClear => SClear
  | OMResize n => SResize n
  | OMEnum => SEnum               (* map_enum wraps a set_enum *)
  end.

Definition on_map (o : op) : bool := match o with OSet _ => false | _ => true end.
Definition is_enum (o : sop) : bool := match o with SEnum => true | _ => false end.

(* ---- observation --------------------------------------------------------------------- *)
(* insertion sort of the enumeration by (key, value) *)
Definition kv_leb (a c : N * N) : bool :=
  if fst a <? fst c then true
  else if fst a =? fst c then snd a <=? snd c else false.

Fixpoint insert_kv (x : N * N) (l : list (N * N)) : list (N * N) :=
  match l with
  | [] => [x]
  | y :: l' => if kv_leb x y then x :: l else y :: insert_kv x l'
  end.

Fixpoint isort (l : list (N * N)) : list (N * N) :=
  match l with
  | [] => []
  | x :: l' => insert_kv x (isort l')
  end.

Record obs := mkObs {
  oret : ret;                          (* what the operation returned *)
  osize : N;                           (* size() afterwards *)
  oenum : option (list (N * N)) }.     (* the sorted enumeration afterwards (when taken) *)

(* the state: one con::set and one con::map (= its private m_set) *)
Record state := mkState { sset : tbl; smap : tbl }.
Definition init : state := mkState init_tbl init_tbl.

(* full = true: the container is enumerated after every operation; false: only by SEnum/OMEnum *)
Definition observe (full : bool) (o : sop) (t : tbl) (r : ret) : option obs :=
  if full || is_enum o then
    l <- enumerate t ;; Some (mkObs r (cnt t) (Some (isort l)))
  else Some (mkObs r (cnt t) None).

Definition step (full : bool) (s : state) (o : op) : option (state * obs) :=
  let so := map_sop o in
  if on_map o then
    '(t, r) <- exec_sop (smap s) so ;;
    ob <- observe full so t r ;;
    Some (mkState (sset s) t, ob)
  else
    '(t, r) <- exec_sop (sset s) so ;;
    ob <- observe full so t r ;;
    Some (mkState t (smap s), ob).

(* run: a None entry = an operation of the model failed (fuel exhausted or a dead entry was
   dereferenced); the run stops there *)
Fixpoint run_from (full : bool) (s : state) (ops : list op) : list (option obs) :=
  match ops with
  | [] => []
  | o :: ops' =>
      match step full s o with
      | Some (s', ob) => Some ob :: run_from full s' ops'
      | None => [None]
      end
  end.

(* ---- internal detail, compared with the implementation only (not part of the theorem):
   allocated(), defaultEntry != nullptr and the chains (bucket, keys in chain order) ------- *)
Fixpoint chain_keys (fuel : nat) (t : tbl) (e : option N) : list N :=
  match e, fuel with
  | Some x, S f => get (ekey t) x :: chain_keys f t (get (enext t) x)
  | _, _ => []
  end.

(* buckets i-1 .. 0, each non-empty one put in front of acc: ascending bucket order *)
Fixpoint layout (fuel : nat) (t : tbl) (i : nat) (acc : list (N * list N)) : list (N * list N) :=
  match i with
  | O => acc
  | S j =>
      match tget t (N.of_nat j) with
      | Some x => layout fuel t j ((N.of_nat j, chain_keys fuel t (Some x)) :: acc)
      | None => layout fuel t j acc
      end
  end.

Record detail := mkDetail {
  dalloc : N;
  ddflt : bool;
  dlayout : option (list (N * list N)) }.

Definition detail_of (full : bool) (o : sop) (t : tbl) : detail :=
  mkDetail (tlen t) (match dflt t with Some _ => true | None => false end)
           (if full || is_enum o then Some (layout (fuel_of t) t (N.to_nat (tlen t)) []) else None).

Fixpoint detail_from (full : bool) (s : state) (ops : list op) : list detail :=
  match ops with
  | [] => []
  | o :: ops' =>
      match step full s o with
      | Some (s', _) =>
          detail_of full (map_sop o) (if on_map o then smap s' else sset s') :: detail_from full s' ops'
      | None => []
      end
  end.

End WithHash.

Definition run (hash : N -> N) (full : bool) (ops : list op) : list (option obs) :=
  run_from hash full init ops.

Definition run_detail (hash : N -> N) (full : bool) (ops : list op) : list detail :=
  detail_from hash full init ops.
