(* C18set/Properties.v - the property theorems of unit C18set (con::set / con::map), and
   nothing else.  Every theorem is closed by [exact <lemma>] and followed by Print Assumptions. *)
From Coq Require Import NArith List Bool.
From Morfuse Require Import Base.Arr C18set.Model C18set.Spec C18set.ProofsLib C18set.Proofs.
Import ListNotations.
Local Open Scope N_scope.

(* For EVERY hash function, and EVERY sequence of operations on a con::set (addKeyValue(k) = v,
   addKeyValue(k, v), findKeyValue, remove, clear, resize(n) for every n, shrink, size,
   enumeration with set_enum) and on a con::map (operator[], find, remove, size, clear,
   resize, map_enum), the model of the bucket table as written (chains of entries with next
   pointers, table == &defaultEntry while the length is 1, insertEntry's defaultEntry == nullptr
   branch, growth to the next prime when count >= threshold, rehash of every old bucket,
   remove's prev tracking and defaultEntry re-selection, deletion of entries) observes after
   every operation exactly what the association-list specification of C18set/Spec.v
   observes: the same return value (the value found or nullptr, the stored value of
   addKeyValue(k, v), whether remove removed), the same size(), and - after every operation
   when full = true, after the enumerate operations otherwise - the same sorted enumeration
   of (key, value): lookups find precisely the keys present, the enumeration visits each
   element once, removal removes only the named key, growth, shrinking and resizing preserve
   the contents.  No entry of the model's run is None: no loop runs out of its fuel
   (count + 1 entries per chain) and no deleted entry is ever dereferenced. *)
Theorem C18set_set_and_map_refine_the_finite_map :
  forall (hash : N -> N) (full : bool) (ops : list op),
    run hash full ops = map Some (spec_run full ops).
Proof. exact run_refines_spec. Qed.
Print Assumptions C18set_set_and_map_refine_the_finite_map.

Theorem C18set_no_operation_fails :
  forall (hash : N -> N) (full : bool) (ops : list op), ~ In None (run hash full ops).
Proof. exact run_never_fails. Qed.
Print Assumptions C18set_no_operation_fails.

(* The specification itself is a finite map: a lookup after add finds the new value, other
   keys are untouched; a lookup after remove finds nothing, other keys are untouched. *)
Theorem C18set_the_specification_is_a_finite_map :
  (forall k v l, alookup k (aset k v l) = Some v) /\
  (forall k k' v l, k' <> k -> alookup k' (aset k v l) = alookup k' l) /\
  (forall k l, alookup k (aremove k l) = None) /\
  (forall k k' l, k' <> k -> alookup k' (aremove k l) = alookup k' l) /\
  (forall k, alookup k [] = None).
Proof. exact spec_is_a_finite_map. Qed.
Print Assumptions C18set_the_specification_is_a_finite_map.

(* The statement is not vacuous: a concrete history in the model with the colliding hash
   function of the harness (keys 0 and 1 share bucket 0 of 7, key 4 is in bucket 1; after
   shrink all are in bucket 1 of 2).  The second insertion grows the table 1 -> 7;
   addKeyValue(1, 99) returns the stored 11; key 0 (the defaultEntry) is removed; shrink
   rehashes into 2 buckets; the map is independent of the set. *)
Example C18set_model_history :
  run (fun k => (k mod 4) * 119 + k / 4) true
      [OSet (SAdd 0 10); OSet (SAdd 1 11); OSet (SAddInit 4 14); OSet (SAddInit 1 99);
       OSet (SRemove 0); OSet (SFind 0); OSet (SFind 1); OSet SShrink; OSet (SFind 4);
       OMIdx 5 50; OMIdx 5 51; OMFind 5; OMRemove 5; OMSize; OSet SClear; OSet SSize] =
  [Some (mkObs RNone 1 (Some [(0, 10)]));
   Some (mkObs RNone 2 (Some [(0, 10); (1, 11)]));
   Some (mkObs (RVal (Some 14)) 3 (Some [(0, 10); (1, 11); (4, 14)]));
   Some (mkObs (RVal (Some 11)) 3 (Some [(0, 10); (1, 11); (4, 14)]));
   Some (mkObs (RBool true) 2 (Some [(1, 11); (4, 14)]));
   Some (mkObs (RVal None) 2 (Some [(1, 11); (4, 14)]));
   Some (mkObs (RVal (Some 11)) 2 (Some [(1, 11); (4, 14)]));
   Some (mkObs RNone 2 (Some [(1, 11); (4, 14)]));
   Some (mkObs (RVal (Some 14)) 2 (Some [(1, 11); (4, 14)]));
   Some (mkObs RNone 1 (Some [(5, 50)]));
   Some (mkObs RNone 1 (Some [(5, 51)]));
   Some (mkObs (RVal (Some 51)) 1 (Some [(5, 51)]));
   Some (mkObs (RBool true) 0 (Some []));
   Some (mkObs (RNum 0) 0 (Some []));
   Some (mkObs RNone 0 (Some []));
   Some (mkObs (RNum 0) 0 (Some []))].
Proof. vm_compute. reflexivity. Qed.

(* the internal detail of the same history: allocated(), defaultEntry != nullptr, chains *)
Example C18set_model_history_detail :
  run_detail (fun k => (k mod 4) * 119 + k / 4) true
      [OSet (SAdd 0 10); OSet (SAdd 1 11); OSet (SAddInit 4 14); OSet (SRemove 0); OSet SShrink;
       OSet SClear] =
  [mkDetail 1 true (Some [(0, [0])]);
   mkDetail 7 true (Some [(0, [1; 0])]);
   mkDetail 7 true (Some [(0, [1; 0]); (1, [4])]);
   mkDetail 7 true (Some [(0, [1]); (1, [4])]);      (* defaultEntry dangles: still non-null *)
   mkDetail 2 true (Some [(1, [1; 4])]);             (* pushed at the head: order reversed *)
   mkDetail 1 false (Some [])].
Proof. vm_compute. reflexivity. Qed.

(* the same history in the specification *)
Example C18set_spec_history :
  spec_run true
      [OSet (SAdd 0 10); OSet (SAdd 1 11); OSet (SAddInit 4 14); OSet (SAddInit 1 99);
       OSet (SRemove 0); OSet (SFind 0); OSet (SFind 1); OSet SShrink; OSet (SFind 4);
       OMIdx 5 50; OMIdx 5 51; OMFind 5; OMRemove 5; OMSize; OSet SClear; OSet SSize] =
  [mkObs RNone 1 (Some [(0, 10)]);
   mkObs RNone 2 (Some [(0, 10); (1, 11)]);
   mkObs (RVal (Some 14)) 3 (Some [(0, 10); (1, 11); (4, 14)]);
   mkObs (RVal (Some 11)) 3 (Some [(0, 10); (1, 11); (4, 14)]);
   mkObs (RBool true) 2 (Some [(1, 11); (4, 14)]);
   mkObs (RVal None) 2 (Some [(1, 11); (4, 14)]);
   mkObs (RVal (Some 11)) 2 (Some [(1, 11); (4, 14)]);
   mkObs RNone 2 (Some [(1, 11); (4, 14)]);
   mkObs (RVal (Some 14)) 2 (Some [(1, 11); (4, 14)]);
   mkObs RNone 1 (Some [(5, 50)]);
   mkObs RNone 1 (Some [(5, 51)]);
   mkObs (RVal (Some 51)) 1 (Some [(5, 51)]);
   mkObs (RBool true) 0 (Some []);
   mkObs (RNum 0) 0 (Some []);
   mkObs RNone 0 (Some []);
   mkObs (RNum 0) 0 (Some [])].
Proof. vm_compute. reflexivity. Qed.

(* The shape of the repaired defect (/repo b2b64c5: resize rehashed only min(old, new)
   buckets): 20 insertions (the table grows 1 -> 7 -> 17 -> 37), 14 removals, shrink()
   = resize(6); the model of the CURRENT code finds the six remaining keys, and the table is
   enumerated completely. *)
Example C18set_shrink_keeps_every_entry :
  skipn 35 (run (fun k => (k mod 4) * 119 + k / 4) false
      (map (fun k => OSet (SAdd k (100 + k))) [0;1;2;3;4;5;6;7;8;9;10;11;12;13;14;15;16;17;18;19] ++
       map (fun k => OSet (SRemove k)) [0;1;2;4;5;7;8;9;11;12;14;15;17;18] ++
       [OSet SShrink] ++
       map (fun k => OSet (SFind k)) [3;6;10;13;16;19] ++ [OSet SEnum])) =
  [Some (mkObs (RVal (Some 103)) 6 None);
   Some (mkObs (RVal (Some 106)) 6 None);
   Some (mkObs (RVal (Some 110)) 6 None);
   Some (mkObs (RVal (Some 113)) 6 None);
   Some (mkObs (RVal (Some 116)) 6 None);
   Some (mkObs (RVal (Some 119)) 6 None);
   Some (mkObs RNone 6 (Some [(3, 103); (6, 106); (10, 110); (13, 113); (16, 116); (19, 119)]))].
Proof. vm_compute. reflexivity. Qed.
