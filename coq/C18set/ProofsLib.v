(* C18set/ProofsLib.v - lemmas for the refinement proof of con::set that do not mention the
   table: association lists of C18set/Spec.v, the insertion sort of the observation,
   bucket families (function update, concatenation of all chains) and pointer chains. *)
From Coq Require Import NArith List Bool Lia Permutation Sorted.
From Morfuse Require Import Base.Arr Base.ListX C18set.Model C18set.Spec.
Import ListNotations.
Local Open Scope N_scope.

(* ---- association lists --------------------------------------------------------------- *)
Lemma alookup_in k v (l : amap) : alookup k l = Some v -> In (k, v) l.
Proof.
  induction l as [|[k' w] l IH]; cbn; [discriminate|].
  destruct (N.eqb_spec k' k) as [->|Hne]; intro H.
  - injection H as ->. now left.
  - right. now apply IH.
Qed.

Lemma alookup_none k (l : amap) : alookup k l = None -> ~ In k (map fst l).
Proof.
  induction l as [|[k' w] l IH]; cbn; [tauto|].
  destruct (N.eqb_spec k' k) as [->|Hne]; [discriminate|].
  intros H [E|Hin]; [contradiction|]. now apply IH.
Qed.

Lemma notin_alookup k (l : amap) : ~ In k (map fst l) -> alookup k l = None.
Proof.
  induction l as [|[k' w] l IH]; cbn; [reflexivity|].
  intro H. destruct (N.eqb_spec k' k) as [->|Hne]; [tauto|]. apply IH. tauto.
Qed.

Lemma in_alookup k v (l : amap) : NoDup (map fst l) -> In (k, v) l -> alookup k l = Some v.
Proof.
  induction l as [|[k' w] l IH]; cbn; [tauto|].
  intros Hnd [E|Hin].
  - injection E as -> ->. now rewrite N.eqb_refl.
  - inversion Hnd as [|x xs Hn Hd]; subst.
    destruct (N.eqb_spec k' k) as [->|Hne]; [|now apply IH].
    exfalso. apply Hn. apply in_map_iff. now exists (k, v).
Qed.

Lemma aremove_notin k (l : amap) : ~ In k (map fst l) -> aremove k l = l.
Proof.
  induction l as [|[k' w] l IH]; cbn; [reflexivity|].
  intro H. destruct (N.eqb_spec k' k) as [->|Hne]; [tauto|].
  f_equal. apply IH. tauto.
Qed.

Lemma aremove_app k (l1 l2 : amap) : aremove k (l1 ++ l2) = aremove k l1 ++ aremove k l2.
Proof.
  induction l1 as [|[k' w] l1 IH]; cbn; [reflexivity|].
  destruct (N.eqb_spec k' k); [exact IH|]. cbn. now rewrite IH.
Qed.

Lemma aremove_perm k (l l' : amap) : Permutation l l' -> Permutation (aremove k l) (aremove k l').
Proof.
  induction 1 as [|[k1 v1] l l' Hp IH|[k1 v1] [k2 v2] l|l1 l2 l3 H1 IH1 H2 IH2]; cbn.
  - constructor.
  - destruct (k1 =? k); [exact IH|now constructor].
  - destruct (k2 =? k), (k1 =? k); try reflexivity. apply perm_swap.
  - now transitivity (aremove k l2).
Qed.

Lemma in_aremove k p (l : amap) : In p (aremove k l) -> In p l /\ fst p <> k.
Proof.
  induction l as [|[k' w] l IH]; cbn; [tauto|].
  destruct (N.eqb_spec k' k) as [->|Hne].
  - intro H. apply IH in H. tauto.
  - intros [<-|H]; [cbn; tauto|]. apply IH in H. tauto.
Qed.

Lemma aremove_keys_notin k (l : amap) : ~ In k (map fst (aremove k l)).
Proof.
  intro H. apply in_map_iff in H. destruct H as [p [E Hp]].
  apply in_aremove in Hp. tauto.
Qed.

Lemma aremove_keys_nodup k (l : amap) : NoDup (map fst l) -> NoDup (map fst (aremove k l)).
Proof.
  induction l as [|[k' w] l IH]; cbn; [constructor|].
  intro Hnd. inversion Hnd as [|x xs Hn Hd]; subst.
  destruct (N.eqb_spec k' k) as [->|Hne]; [now apply IH|].
  cbn. constructor; [|now apply IH].
  intro H. apply in_map_iff in H. destruct H as [p [E Hp]].
  apply in_aremove in Hp. apply Hn. apply in_map_iff. exists p. tauto.
Qed.

Lemma aremove_length_in k v (l : amap) :
  NoDup (map fst l) -> In (k, v) l -> length l = S (length (aremove k l)).
Proof.
  induction l as [|[k' w] l IH]; cbn; [tauto|].
  intros Hnd Hin. inversion Hnd as [|x xs Hn Hd]; subst.
  destruct (N.eqb_spec k' k) as [->|Hne].
  - rewrite aremove_notin; [reflexivity|exact Hn].
  - destruct Hin as [E|Hin]; [congruence|]. cbn. f_equal. now apply IH.
Qed.

Lemma perm_keys_nodup (l l' : amap) :
  Permutation l l' -> NoDup (map fst l') -> NoDup (map fst l).
Proof.
  intros Hp Hnd. eapply Permutation_NoDup; [|exact Hnd].
  apply Permutation_map. now apply Permutation_sym.
Qed.

Lemma perm_remove_mid (p1 p2 : amap) k old l :
  NoDup (map fst l) -> Permutation (p1 ++ (k, old) :: p2) l ->
  Permutation (p1 ++ p2) (aremove k l).
Proof.
  intros Hnd Hp.
  pose proof (perm_keys_nodup _ _ Hp Hnd) as Hk. rewrite map_app in Hk. cbn in Hk.
  pose proof (NoDup_remove_2 _ _ _ Hk) as Hn.
  rewrite <- (aremove_perm k _ _ Hp), aremove_app. cbn. rewrite N.eqb_refl.
  rewrite !aremove_notin; [reflexivity| |]; intro H; apply Hn; apply in_or_app; tauto.
Qed.

Lemma perm_update_mid (p1 p2 : amap) k old v l :
  NoDup (map fst l) -> Permutation (p1 ++ (k, old) :: p2) l ->
  Permutation (p1 ++ (k, v) :: p2) ((k, v) :: aremove k l).
Proof.
  intros Hnd Hp. rewrite <- (perm_remove_mid _ _ _ _ _ Hnd Hp).
  apply Permutation_sym, Permutation_middle.
Qed.

(* the association list is a finite map *)
Lemma alookup_aremove_same k (l : amap) : alookup k (aremove k l) = None.
Proof. apply notin_alookup, aremove_keys_notin. Qed.

Lemma alookup_aremove_other k k' (l : amap) : k' <> k -> alookup k' (aremove k l) = alookup k' l.
Proof.
  intro Hne. induction l as [|[k1 w] l IH]; cbn; [reflexivity|].
  destruct (N.eqb_spec k1 k) as [->|H1].
  - destruct (N.eqb_spec k k') as [E|_]; [congruence|exact IH].
  - cbn. destruct (k1 =? k'); [reflexivity|exact IH].
Qed.

Lemma spec_is_a_finite_map :
  (forall k v l, alookup k (aset k v l) = Some v) /\
  (forall k k' v l, k' <> k -> alookup k' (aset k v l) = alookup k' l) /\
  (forall k l, alookup k (aremove k l) = None) /\
  (forall k k' l, k' <> k -> alookup k' (aremove k l) = alookup k' l) /\
  (forall k, alookup k [] = None).
Proof.
  split; [|split; [|split; [|split]]].
  - intros k v l. unfold aset. cbn. now rewrite N.eqb_refl.
  - intros k k' v l Hne. unfold aset. cbn.
    destruct (N.eqb_spec k k') as [E|_]; [congruence|]. now apply alookup_aremove_other.
  - apply alookup_aremove_same.
  - intros k k' l. apply alookup_aremove_other.
  - reflexivity.
Qed.

(* ---- the order of the observation and insertion sort --------------------------------- *)
Lemma kv_leb_total a c : kv_leb a c = false -> kv_leb c a = true.
Proof.
  destruct a as [a1 a2], c as [c1 c2]. unfold kv_leb. cbn.
  destruct (N.ltb_spec a1 c1), (N.eqb_spec a1 c1), (N.ltb_spec c1 a1), (N.eqb_spec c1 a1),
    (N.leb_spec a2 c2), (N.leb_spec c2 a2); try reflexivity; try discriminate; lia.
Qed.

Lemma kv_leb_trans a b c : kv_leb a b = true -> kv_leb b c = true -> kv_leb a c = true.
Proof.
  destruct a as [a1 a2], b as [b1 b2], c as [c1 c2]. unfold kv_leb. cbn.
  destruct (N.ltb_spec a1 b1), (N.eqb_spec a1 b1), (N.ltb_spec b1 c1), (N.eqb_spec b1 c1),
    (N.ltb_spec a1 c1), (N.eqb_spec a1 c1),
    (N.leb_spec a2 b2), (N.leb_spec b2 c2), (N.leb_spec a2 c2);
    try reflexivity; try discriminate; lia.
Qed.

Lemma kv_leb_antisym a c : kv_leb a c = true -> kv_leb c a = true -> a = c.
Proof.
  destruct a as [a1 a2], c as [c1 c2]. unfold kv_leb. cbn.
  destruct (N.ltb_spec a1 c1), (N.eqb_spec a1 c1), (N.ltb_spec c1 a1), (N.eqb_spec c1 a1),
    (N.leb_spec a2 c2), (N.leb_spec c2 a2); try discriminate; intros _ _; f_equal; lia.
Qed.

Definition kv_le (a c : N * N) : Prop := kv_leb a c = true.

Lemma insert_kv_perm x l : Permutation (insert_kv x l) (x :: l).
Proof.
  induction l as [|y l IH]; cbn; [reflexivity|].
  destruct (kv_leb x y); [reflexivity|].
  transitivity (y :: x :: l); [now constructor|apply perm_swap].
Qed.

Lemma isort_perm l : Permutation (isort l) l.
Proof.
  induction l as [|x l IH]; cbn; [constructor|].
  transitivity (x :: isort l); [apply insert_kv_perm|now constructor].
Qed.

Lemma insert_kv_sorted x l : StronglySorted kv_le l -> StronglySorted kv_le (insert_kv x l).
Proof.
  induction l as [|y l IH]; cbn; intro Hs.
  - constructor; constructor.
  - inversion Hs as [|y' l' Hs' Hall]; subst.
    destruct (kv_leb x y) eqn:E.
    + constructor; [exact Hs|]. constructor; [exact E|].
      eapply Forall_impl; [|exact Hall]. intros z Hz. eapply kv_leb_trans; eauto.
    + constructor; [now apply IH|].
      apply Forall_forall. intros z Hz.
      eapply Permutation_in in Hz; [|apply insert_kv_perm].
      destruct Hz as [<-|Hz]; [now apply kv_leb_total|].
      rewrite Forall_forall in Hall. now apply Hall.
Qed.

Lemma isort_sorted l : StronglySorted kv_le (isort l).
Proof.
  induction l as [|x l IH]; cbn; [constructor|]. now apply insert_kv_sorted.
Qed.

Lemma sorted_perm_eq l1 : forall l2,
  StronglySorted kv_le l1 -> StronglySorted kv_le l2 -> Permutation l1 l2 -> l1 = l2.
Proof.
  induction l1 as [|a l1 IH]; intros l2 H1 H2 Hp.
  - apply Permutation_nil in Hp. now subst.
  - destruct l2 as [|c l2].
    + apply Permutation_sym, Permutation_nil in Hp. discriminate.
    + inversion H1 as [|a' l1' Hs1 Ha1]; subst. inversion H2 as [|c' l2' Hs2 Hc2]; subst.
      rewrite Forall_forall in Ha1, Hc2.
      assert (E : a = c).
      { assert (Hc : In c (a :: l1)).
        { eapply Permutation_in; [apply Permutation_sym; exact Hp|now left]. }
        assert (Ha : In a (c :: l2)).
        { eapply Permutation_in; [exact Hp|now left]. }
        destruct Hc as [Hc|Hc]; [exact Hc|]. destruct Ha as [Ha|Ha]; [now symmetry|].
        apply kv_leb_antisym; [now apply Ha1|now apply Hc2]. }
      subst c. f_equal. apply IH; auto. eapply Permutation_cons_inv; exact Hp.
Qed.

Lemma isort_perm_eq l1 l2 : Permutation l1 l2 -> isort l1 = isort l2.
Proof.
  intro Hp. apply sorted_perm_eq; try apply isort_sorted.
  transitivity l1; [apply isort_perm|]. transitivity l2; [exact Hp|].
  apply Permutation_sym, isort_perm.
Qed.

(* ---- bucket families: bucket index -> list of entry ids ------------------------------ *)
Definition upd (ch : N -> list N) (i : N) (c : list N) : N -> list N :=
  fun j => if j =? i then c else ch j.

Lemma upd_same ch i c : upd ch i c i = c.
Proof. unfold upd. now rewrite N.eqb_refl. Qed.

Lemma upd_other ch i c j : j <> i -> upd ch i c j = ch j.
Proof. unfold upd. intro H. destruct (N.eqb_spec j i); [contradiction|reflexivity]. Qed.

(* the chains of buckets n-1, n-2, .., 0 one after the other (the order of set_enum and of
   the rehash loop of resize) *)
Fixpoint alld (ch : N -> list N) (n : nat) : list N :=
  match n with
  | O => []
  | S m => ch (N.of_nat m) ++ alld ch m
  end.

Lemma alld_ext ch1 ch2 n :
  (forall j, (N.to_nat j < n)%nat -> ch1 j = ch2 j) -> alld ch1 n = alld ch2 n.
Proof.
  induction n as [|m IH]; cbn; intro H; [reflexivity|].
  rewrite H by lia. f_equal. apply IH. intros j Hj. apply H. lia.
Qed.

Lemma alld_nil n : alld (fun _ => []) n = [].
Proof. induction n as [|m IH]; cbn; [reflexivity|exact IH]. Qed.

Lemma in_alld ch n e : In e (alld ch n) <-> exists j, (N.to_nat j < n)%nat /\ In e (ch j).
Proof.
  induction n as [|m IH]; cbn.
  - split; [tauto|]. intros [j [H _]]. lia.
  - rewrite in_app_iff, IH. split.
    + intros [H|[j [Hj H]]]; [exists (N.of_nat m); split; [lia|exact H]|exists j; split; [lia|exact H]].
    + intros [j [Hj H]]. destruct (N.eq_dec j (N.of_nat m)) as [->|Hne]; [now left|].
      right. exists j. split; [lia|exact H].
Qed.

Lemma alld_upd_ge ch i c n : (n <= N.to_nat i)%nat -> alld (upd ch i c) n = alld ch n.
Proof.
  intro H. apply alld_ext. intros j Hj. apply upd_other. lia.
Qed.

Lemma alld_upd_perm ch i c n :
  (N.to_nat i < n)%nat -> Permutation (alld (upd ch i c) n) (c ++ alld (upd ch i []) n).
Proof.
  induction n as [|m IH]; cbn; intro H; [lia|].
  destruct (N.eq_dec (N.of_nat m) i) as [E|Hne].
  - rewrite E, !upd_same. cbn. apply Permutation_app_head.
    rewrite (alld_upd_ge ch i c), (alld_upd_ge ch i []) by lia. reflexivity.
  - rewrite !upd_other by exact Hne.
    rewrite IH by lia. rewrite !app_assoc. apply Permutation_app_tail, Permutation_app_comm.
Qed.

Lemma alld_split ch i n :
  (N.to_nat i < n)%nat -> Permutation (alld ch n) (ch i ++ alld (upd ch i []) n).
Proof.
  intro H. rewrite <- (alld_upd_perm ch i (ch i) n H).
  rewrite (alld_ext (upd ch i (ch i)) ch); [reflexivity|].
  intros j _. unfold upd. destruct (N.eqb_spec j i) as [->|]; reflexivity.
Qed.

(* replacing the chain of bucket i by c' *)
Lemma alld_upd_cons ch i x c' n :
  (N.to_nat i < n)%nat -> Permutation c' (x :: ch i) ->
  Permutation (alld (upd ch i c') n) (x :: alld ch n).
Proof.
  intros H Hp. rewrite (alld_upd_perm ch i c' n H), (alld_split ch i n H).
  rewrite Hp. reflexivity.
Qed.

Lemma alld_upd_uncons ch i x c' n :
  (N.to_nat i < n)%nat -> Permutation (ch i) (x :: c') ->
  Permutation (alld ch n) (x :: alld (upd ch i c') n).
Proof.
  intros H Hp. rewrite (alld_upd_perm ch i c' n H), (alld_split ch i n H).
  rewrite Hp. reflexivity.
Qed.

Lemma alld_bucket_incl ch i n e : (N.to_nat i < n)%nat -> In e (ch i) -> In e (alld ch n).
Proof. intros H Hin. apply in_alld. now exists i. Qed.

Lemma alld_bucket_length ch i n : (N.to_nat i < n)%nat -> (length (ch i) <= length (alld ch n))%nat.
Proof.
  intro H. rewrite (Permutation_length (alld_split ch i n H)), app_length. lia.
Qed.

Lemma alld_bucket_nodup ch i n : (N.to_nat i < n)%nat -> NoDup (alld ch n) -> NoDup (ch i).
Proof.
  intros H Hnd. eapply Permutation_NoDup in Hnd; [|apply (alld_split ch i n H)].
  eapply nodup_app_l; exact Hnd.
Qed.

Lemma alld_disjoint ch i j n e :
  NoDup (alld ch n) -> (N.to_nat i < n)%nat -> (N.to_nat j < n)%nat -> i <> j ->
  In e (ch i) -> ~ In e (ch j).
Proof.
  intros Hnd Hi Hj Hne Hin Hin'.
  eapply Permutation_NoDup in Hnd; [|apply (alld_split ch i n Hi)].
  eapply notin_app_l; [exact Hnd|exact Hin|].
  apply in_alld. exists j. split; [exact Hj|]. rewrite upd_other by congruence. exact Hin'.
Qed.

Lemma alld_all_nil ch n : alld ch n = [] -> forall j, (N.to_nat j < n)%nat -> ch j = [].
Proof.
  intros H j Hj. destruct (ch j) as [|e c] eqn:E; [reflexivity|].
  assert (Hin : In e (alld ch n)) by (apply in_alld; exists j; rewrite E; split; [exact Hj|now left]).
  rewrite H in Hin. destruct Hin.
Qed.

(* ---- pointer chains: head pointer, next pointers, liveness --------------------------- *)
Inductive chain (lv : arr bool) (nx : arr (option N)) : option N -> list N -> Prop :=
| chain_nil : chain lv nx None []
| chain_cons x c : get lv x = true -> chain lv nx (get nx x) c -> chain lv nx (Some x) (x :: c).

Lemma chain_none lv nx c : chain lv nx None c -> c = [].
Proof. now inversion 1. Qed.

Lemma chain_some lv nx x c :
  chain lv nx (Some x) c -> exists c', c = x :: c' /\ get lv x = true /\ chain lv nx (get nx x) c'.
Proof. inversion 1; subst. eauto. Qed.

Lemma chain_head_nil lv nx h : chain lv nx h [] -> h = None.
Proof. now inversion 1. Qed.

Lemma chain_head_cons lv nx h x c : chain lv nx h (x :: c) -> h = Some x.
Proof. now inversion 1. Qed.

Lemma chain_live lv nx h c e : chain lv nx h c -> In e c -> get lv e = true.
Proof.
  induction 1 as [|x c Hl Hc IH]; cbn; [tauto|]. intros [<-|H]; auto.
Qed.

(* frame: writes to the next pointer / liveness of an entry outside the chain *)
Lemma chain_set_next lv nx h c e v :
  ~ In e c -> chain lv nx h c -> chain lv (set nx e v) h c.
Proof.
  intros Hn Hc. induction Hc as [|x c Hl Hc IH]; [constructor|].
  constructor; [exact Hl|]. cbn in Hn. rewrite gso by tauto. apply IH. tauto.
Qed.

Lemma chain_set_live lv nx h c e b :
  ~ In e c -> chain lv nx h c -> chain (set lv e b) nx h c.
Proof.
  intros Hn Hc. induction Hc as [|x c Hl Hc IH]; [constructor|].
  cbn in Hn. constructor; [rewrite gso by tauto; exact Hl|]. apply IH. tauto.
Qed.

(* unlinking x, the successor of p *)
Lemma chain_unlink lv nx h pre p x c :
  NoDup (pre ++ p :: x :: c) -> chain lv nx h (pre ++ p :: x :: c) ->
  chain lv (set nx p (get nx x)) h (pre ++ p :: c).
Proof.
  revert h. induction pre as [|a pre IH]; cbn; intros h Hnd Hc.
  - pose proof (chain_head_cons _ _ _ _ _ Hc) as ->.
    apply chain_some in Hc. destruct Hc as [c' [E [Hl Hc]]]. injection E as <-.
    pose proof (chain_head_cons _ _ _ _ _ Hc) as Hx. rewrite Hx in Hc.
    apply chain_some in Hc. destruct Hc as [c'' [E [Hlx Hc]]]. injection E as <-.
    constructor; [exact Hl|]. rewrite gss.
    inversion Hnd as [|y ys Hn1 Hnd1]; subst. apply chain_set_next; [|exact Hc].
    intro Hin. apply Hn1. now right.
  - pose proof (chain_head_cons _ _ _ _ _ Hc) as ->.
    apply chain_some in Hc. destruct Hc as [c' [E [Hl Hc]]]. injection E as <-.
    inversion Hnd as [|y ys Hn1 Hnd1]; subst.
    constructor; [exact Hl|]. rewrite gso.
    + now apply IH.
    + intros ->. apply Hn1. apply in_or_app. right. now left.
Qed.
