(* C18set/Spec.v - the abstract specification of con::set / con::map: a finite map
   key -> value as an association list without duplicate keys.  Lookups find precisely the
   keys present, removal removes only the named key, clear empties, resize and shrink change
   nothing, size is the number of keys, the enumeration (compared sorted) is the list. *)
From Coq Require Import NArith List Bool.
From Morfuse Require Import Base.Arr C18set.Model.
Import ListNotations.
Local Open Scope N_scope.

Definition amap := list (N * N).

Fixpoint alookup (k : N) (l : amap) : option N :=
  match l with
  | [] => None
  | (k', v) :: l' => if k' =? k then Some v else alookup k l'
  end.

Fixpoint aremove (k : N) (l : amap) : amap :=
  match l with
  | [] => []
  | (k', v) :: l' => if k' =? k then aremove k l' else (k', v) :: aremove k l'
  end.

Definition aset (k v : N) (l : amap) : amap := (k, v) :: aremove k l.

Definition spec_sop (l : amap) (o : sop) : amap * ret :=
  match o with
  | SAdd k v => (aset k v l, RNone)
  | SAddInit k v =>
      match alookup k l with
      | Some w => (l, RVal (Some w))
      | None => ((k, v) :: l, RVal (Some v))
      end
  | SFind k => (l, RVal (alookup k l))
  | SRemove k =>
      match alookup k l with
      | Some _ => (aremove k l, RBool true)
      | None => (l, RBool false)
      end
  | SClear => ([], RNone)
  | SResize _ => (l, RNone)
  | SShrink => (l, RNone)
  | SSize => (l, RNum (N.of_nat (length l)))
  | SEnum => (l, RNone)
  end.

Definition spec_observe (full : bool) (o : sop) (l : amap) (r : ret) : obs :=
  mkObs r (N.of_nat (length l)) (if full || is_enum o then Some (isort l) else None).

(* the abstract state: the set's map and the map's map *)
Definition spec_step (full : bool) (a : amap * amap) (o : op) : (amap * amap) * obs :=
  let so := map_sop o in
  if on_map o then
    let '(l, r) := spec_sop (snd a) so in ((fst a, l), spec_observe full so l r)
  else
    let '(l, r) := spec_sop (fst a) so in ((l, snd a), spec_observe full so l r).

Fixpoint spec_from (full : bool) (a : amap * amap) (ops : list op) : list obs :=
  match ops with
  | [] => []
  | o :: ops' => let '(a', ob) := spec_step full a o in ob :: spec_from full a' ops'
  end.

Definition spec_run (full : bool) (ops : list op) : list obs := spec_from full ([], []) ops.
