(* C16/ProofsTable.v - LoadEvents: the name table and the number -> definition map. *)
From Coq Require Import List NArith Arith Bool Lia.
From Morfuse Require Import C16.Model C16.Spec C16.ProofsNames.
Import ListNotations.

(* ---------------------------------------------------------------- name_ieqb is an equivalence *)
Lemma name_ieqb_trans_tt a b c : name_ieqb a b = true -> name_ieqb b c = true -> name_ieqb a c = true.
Proof. rewrite !name_ieqb_eq. congruence. Qed.

Lemma name_ieqb_trans_tf a b c : name_ieqb a b = true -> name_ieqb a c = false -> name_ieqb b c = false.
Proof.
  intros H1 H2. destruct (name_ieqb b c) eqn:E; [|reflexivity].
  rewrite (name_ieqb_trans_tt a b c H1 E) in H2. discriminate.
Qed.

Lemma name_ieqb_trans_ft a b c : name_ieqb a b = false -> name_ieqb a c = true -> name_ieqb b c = false.
Proof.
  intros H1 H2. destruct (name_ieqb b c) eqn:E; [|reflexivity].
  apply name_ieqb_eq in H2. apply name_ieqb_eq in E.
  assert (C : name_ieqb a b = true) by (apply name_ieqb_eq; congruence). congruence.
Qed.

Lemma name_ieqb_fold_r m n n' : fold_name n = fold_name n' -> name_ieqb m n = name_ieqb m n'.
Proof. unfold name_ieqb. now intros ->. Qed.

(* ------------------------------------------------------------ the table as a function *)
Fixpoint lookup_info (t : nametable) (n : name) : info :=
  match t with
  | [] => info0
  | (m, i) :: r => if name_ieqb m n then i else lookup_info r n
  end.

Lemma find_index_shift t n : forall p,
  find_index_from t n (S p) = match find_index_from t n 1 with 0 => 0 | S q => S (p + q) end.
Proof.
  induction t as [|[m i] r IH]; intro p; cbn [find_index_from]; [reflexivity|].
  destruct (name_ieqb m n); [f_equal; lia|].
  rewrite (IH (S p)), (IH 1). destruct (find_index_from r n 1); [reflexivity | f_equal; lia].
Qed.

Lemma info_at_find t n : info_at t (find_key_index t n) = lookup_info t n.
Proof.
  unfold find_key_index. induction t as [|[m i] r IH]; cbn [find_index_from lookup_info]; [reflexivity|].
  destruct (name_ieqb m n); [reflexivity|].
  rewrite find_index_shift. destruct (find_index_from r n 1) as [|q] eqn:E.
  - cbn [info_at] in *. now rewrite <- IH.
  - rewrite <- IH. cbn [info_at nth_error Nat.add]. reflexivity.
Qed.

Lemma lookup_add t e n :
  lookup_info (add_event t e) n =
  if name_ieqb (e_name e) n then set_info (lookup_info t n) (e_kind e) (e_num e) else lookup_info t n.
Proof.
  induction t as [|[m i] r IH]; cbn [add_event lookup_info].
  - destruct (name_ieqb (e_name e) n); reflexivity.
  - destruct (name_ieqb m (e_name e)) eqn:Me; cbn [lookup_info].
    + destruct (name_ieqb m n) eqn:Mn.
      * assert (En : name_ieqb (e_name e) n = true).
        { apply name_ieqb_eq in Me. apply name_ieqb_eq in Mn. apply name_ieqb_eq. congruence. }
        now rewrite En.
      * now rewrite (name_ieqb_trans_tf _ _ _ Me Mn).
    + destruct (name_ieqb m n) eqn:Mn.
      * now rewrite (name_ieqb_trans_ft _ _ _ Me Mn).
      * exact IH.
Qed.

Lemma get_set_info i k' v k :
  get_info (set_info i k' v) k =
  if kind_eqb k' k && negb (kind_eqb k KNone) then v else get_info i k.
Proof. destruct k', k; reflexivity. Qed.

(* the last definition (in list order) with the given name and kind *)
Fixpoint find_last (l : list edef) (n : name) (k : kind) : option edef :=
  match l with
  | [] => None
  | e :: r =>
      match find_last r n k with
      | Some x => Some x
      | None => if same_event n k e then Some e else None
      end
  end.

Lemma load_fold l : forall t n k, k <> KNone ->
  get_info (lookup_info (fold_left add_event l t) n) k =
  match find_last l n k with
  | Some e => e_num e
  | None => get_info (lookup_info t n) k
  end.
Proof.
  induction l as [|e r IH]; intros t n k Hk; cbn [fold_left find_last]; [reflexivity|].
  rewrite IH by exact Hk. destruct (find_last r n k); [reflexivity|].
  rewrite lookup_add. unfold same_event.
  destruct (name_ieqb (e_name e) n); cbn [andb]; [|reflexivity].
  rewrite get_set_info.
  assert (Hn : kind_eqb k KNone = false) by (destruct k; try reflexivity; congruence).
  rewrite Hn. cbn [negb]. rewrite andb_true_r. destruct (kind_eqb (e_kind e) k); reflexivity.
Qed.

Lemma find_last_app a b n k :
  find_last (a ++ b) n k =
  match find_last b n k with Some x => Some x | None => find_last a n k end.
Proof.
  induction a as [|x a IH]; cbn [find_last app].
  - destruct (find_last b n k); reflexivity.
  - rewrite IH. destruct (find_last b n k); reflexivity.
Qed.

Lemma find_last_rev l n k : find_last (rev l) n k = find_def l n k.
Proof.
  induction l as [|x l IH]; cbn [rev find_def]; [reflexivity|].
  rewrite find_last_app. cbn [find_last]. destruct (same_event n k x); [reflexivity | exact IH].
Qed.

(* resolving a name through the table loaded from the registered definitions *)
Lemma find_num_loaded F n k : k <> KNone ->
  find_num (load_names (rev (number_from 1 F))) n k =
  match find_pos F n k 1 with Some (i, _) => i | None => 0%N end.
Proof.
  intro Hk. unfold find_num, load_names. rewrite info_at_find, load_fold by exact Hk.
  rewrite find_last_rev, find_def_numbered.
  destruct (find_pos F n k 1) as [[i d]|]; cbn [option_map of_pos fst snd mk e_num lookup_info get_info info0].
  - reflexivity.
  - destruct k; reflexivity.
Qed.

(* ---------------------------------------------------------------- eventDefList *)
Fixpoint first_num (l : list edef) (num : N) : option edef :=
  match l with
  | [] => None
  | e :: r => if N.eqb (e_num e) num then Some e else first_num r num
  end.

Lemma def_of_num_app a b num :
  def_of_num (a ++ b) num =
  match def_of_num b num with Some x => Some x | None => def_of_num a num end.
Proof.
  induction a as [|x a IH]; cbn [def_of_num app].
  - destruct (def_of_num b num); reflexivity.
  - rewrite IH. destruct (def_of_num b num); reflexivity.
Qed.

Lemma def_of_num_rev l num : def_of_num (rev l) num = first_num l num.
Proof.
  induction l as [|x l IH]; cbn [rev first_num]; [reflexivity|].
  rewrite def_of_num_app. cbn [def_of_num]. destruct (N.eqb (e_num x) num); [reflexivity | exact IH].
Qed.

Lemma first_num_numbered fs n k : forall i j d,
  find_pos fs n k i = Some (j, d) -> first_num (number_from i fs) j = Some (mk d j).
Proof.
  induction fs as [|x r IH]; intros i j d H; cbn [find_pos] in H; [discriminate|].
  cbn [number_from first_num mk e_num].
  destruct (is_key n k x).
  - inversion H; subst. now rewrite N.eqb_refl.
  - pose proof (find_pos_bounds _ _ _ _ _ _ H) as [B _].
    destruct (N.eqb_spec i j) as [->|_]; [lia|]. now apply IH.
Qed.

Lemma def_of_num_loaded F n k j d :
  find_pos F n k 1 = Some (j, d) ->
  def_of_num (rev (number_from 1 F)) j = Some (mk d j).
Proof. intro H. rewrite def_of_num_rev. eapply first_num_numbered; eauto. Qed.
