(* C16/Properties.v - the property theorems of C16, and nothing else.
   General theorems are closed by [exact <lemma>]; the theorem about the registry of the
   built binary (Generated.v, rewritten on every run) by [vm_compute; reflexivity]. *)
From Coq Require Import NArith List Bool.
From Morfuse Require Import C16.Model C16.Spec C16.ProofsClasses C16.Proofs C16.Registry C16.Generated.
Import ListNotations.

(* For EVERY class hierarchy in which each class names its parent by an earlier position,
   every class and every event number: the response table built like
   ClassDef::BuildResponseList (parent's table copied, own responses applied in order, a null
   response clears) holds exactly the entry of the nearest class of the inheritance chain
   that declares the event - its LAST declaration; a declaration without handler hides the
   ancestors and leaves the slot empty. *)
Theorem C16_build_table_is_nearest_declaring_ancestor :
  forall cs, wf_classes cs ->
  forall ci ev, nth ci (build_tables cs) tempty ev = spec_slot cs ci ev.
Proof. exact build_table_is_nearest_declaring_ancestor. Qed.
Print Assumptions C16_build_table_is_nearest_declaring_ancestor.

(* For EVERY sequence of EventDef constructions: two declared objects carry the same number
   iff they have the same case-folded name and the same kind (distinct (name, kind) pairs
   never share a handler slot; spellings that differ only in case always do). *)
Theorem C16_numbers_injective_on_name_kind :
  forall ds i j di dj ni nj,
    nth_error ds i = Some di -> nth_error ds j = Some dj ->
    nth_error (snd (register ds)) i = Some ni -> nth_error (snd (register ds)) j = Some nj ->
    (ni = nj <-> fold_name (d_name di) = fold_name (d_name dj) /\ d_kind di = d_kind dj).
Proof. exact numbers_injective_on_name_kind. Qed.
Print Assumptions C16_numbers_injective_on_name_kind.

(* numbers are 1..n (n = NumEventCommands) ... *)
Theorem C16_numbers_range :
  forall ds i ni, nth_error (snd (register ds)) i = Some ni ->
  (1 <= ni <= r_count (fst (register ds)))%N.
Proof. exact numbers_range. Qed.
Print Assumptions C16_numbers_range.

(* ... without gaps ... *)
Theorem C16_numbers_no_gaps :
  forall ds m, (1 <= m <= r_count (fst (register ds)))%N ->
  exists i, nth_error (snd (register ds)) i = Some m.
Proof. exact numbers_no_gaps. Qed.
Print Assumptions C16_numbers_no_gaps.

(* ... in first-occurrence order: a declaration that introduces a new (name, kind) gets
   1 + the number of commands registered before it. *)
Theorem C16_numbers_first_occurrence_order :
  forall pre d post,
    (forall x, In x pre -> ~ (fold_name (d_name x) = fold_name (d_name d) /\ d_kind x = d_kind d)) ->
    nth_error (snd (register (pre ++ d :: post))) (length pre) =
    Some (N.succ (r_count (fst (register pre)))).
Proof. exact numbers_first_occurrence_order. Qed.
Print Assumptions C16_numbers_first_occurrence_order.

(* Every spelling n of a declared command (same case folding as the declaration, kind not
   None) is resolved by the name table (Find<Kind>EventNum(name)) to exactly the number
   stored in the declared object, and that number is not 0. *)
Theorem C16_case_insensitive_name_match :
  forall ds cs i d num n,
    nth_error ds i = Some d -> d_kind d <> KNone ->
    nth_error (snd (register ds)) i = Some num ->
    fold_name n = fold_name (d_name d) ->
    find_num (g_names (prepare ds cs)) n (d_kind d) = num /\ num <> 0%N.
Proof. exact case_insensitive_name_match. Qed.
Print Assumptions C16_case_insensitive_name_match.

(* A command whose namespace (the namespace of its FIRST declaration) is not allowed by the
   filter is rejected with EventNotFound for every class of every hierarchy. *)
Theorem C16_filtered_namespace_rejects_for_every_class :
  forall m f ds n k num d,
    spec_lookup ds n k = Some (num, d) ->
    ns_allowed m f (d_ns d) = false ->
    forall cs ci, invoke m f (prepare ds cs) ci n k = NotFound.
Proof. exact filtered_namespace_rejects_for_every_class. Qed.
Print Assumptions C16_filtered_namespace_rejects_for_every_class.

(* a name/kind that no declaration introduces is rejected for every class *)
Theorem C16_unknown_command_rejected_for_every_class :
  forall m f ds n k, spec_lookup ds n k = None ->
  forall cs ci, invoke m f (prepare ds cs) ci n k = NotFound.
Proof. exact unknown_command_rejected_for_every_class. Qed.
Print Assumptions C16_unknown_command_rejected_for_every_class.

(* END TO END.  For every list of declarations, every well-formed hierarchy, every filter
   mode and filter list, every class, every spelling and every kind: registering the
   definitions (GetNewAttributes), loading the name table (LoadEvents), building the
   response tables (BuildResponseList), resolving the name and dispatching
   (ProcessScriptEvent) gives exactly the specified answer: NotFound for an unknown or
   filtered command, otherwise the handler of the nearest declaring ancestor, or Unsupported. *)
Theorem C16_invoke_refines_spec :
  forall m f ds cs, wf_classes cs ->
  forall ci n k, invoke m f (prepare ds cs) ci n k = spec_invoke m f ds cs ci n k.
Proof. exact invoke_refines_spec. Qed.
Print Assumptions C16_invoke_refines_spec.

(* the same for Listener::ProcessEventReturn, whose specification does NOT reject: an unknown
   or unsupported command silently yields nothing (only a filtered namespace throws) *)
Theorem C16_invoke_return_refines_spec :
  forall m f ds cs, wf_classes cs ->
  forall ci n k,
    dispatch_return m f (prepare ds cs) ci (find_num (g_names (prepare ds cs)) n k)
    = spec_invoke_return m f ds cs ci n k.
Proof. exact invoke_return_refines_spec. Qed.
Print Assumptions C16_invoke_return_refines_spec.

(* the null EventDef of GetEventDef(num > NumEventCommands) is never dereferenced for a
   number that came out of the name table *)
Theorem C16_invoke_never_undefined :
  forall m f ds cs ci n k, invoke m f (prepare ds cs) ci n k <> Undefined.
Proof. exact invoke_never_undefined. Qed.
Print Assumptions C16_invoke_never_undefined.

(* THE TIE TO THE BUILT BINARY.  Generated.registry is the registry dumped by the harness
   built from /repo's current tree: the numbers of all declared EventDef objects, the EventDef
   list, the name table, and for EVERY registered class (built-in and host) the ACTUAL
   responseLookup table.  All of it equals what the model computes - an exhaustive,
   kernel-checked comparison for every (class, event number). *)
Theorem C16_registry_tables_match_the_model : check_registry Generated.registry = true.
Proof. vm_compute. reflexivity. Qed.
Print Assumptions C16_registry_tables_match_the_model.

(* hence every actual table entry of the built binary is the nearest declaring ancestor's *)
Theorem C16_built_binary_tables_are_nearest_declaring_ancestor :
  forall ci ev, ci < length (x_classes Generated.registry) ->
  (1 <= ev <= x_count Generated.registry)%N ->
  lookup_actual (nth ci (x_actual Generated.registry) []) ev
  = spec_slot (x_classes Generated.registry) ci ev.
Proof. exact (check_registry_sound Generated.registry C16_registry_tables_match_the_model). Qed.
Print Assumptions C16_built_binary_tables_are_nearest_declaring_ancestor.

(* ------------------------------------------------------------------- non-vacuity *)
Local Open Scope N_scope.

(* "move" = [109;111;118;101], "MOVE" = [77;79;86;69], "fire" = [102;105;114;101] *)
Definition ex_decls : list decl :=
  [ mkDecl [109;111;118;101] KNormal 0%nat;     (* 1 *)
    mkDecl [109;111;118;101] KReturn 0%nat;     (* 2: same name, other kind *)
    mkDecl [77;79;86;69] KNormal 0%nat;         (* 1 again: other spelling, not linked *)
    mkDecl [102;105;114;101] KNormal 7%nat ].   (* 3, namespace 7 *)

(* class 0 declares move and fire; class 1 (parent 0) clears move, overrides fire;
   class 2 (parent 1) re-declares move twice (the last one counts) *)
Definition ex_classes : list cls :=
  [ mkCls None [(1, true); (3, true)];
    mkCls (Some 0%nat) [(1, false); (3, true)];
    mkCls (Some 1%nat) [(1, false); (1, true)] ].

Example C16_example_numbers : snd (register ex_decls) = [1; 2; 1; 3].
Proof. vm_compute. reflexivity. Qed.

Example C16_example_dispatch :
  map (fun ci => invoke FNone [] (prepare ex_decls ex_classes) ci [77;111;86;101] KNormal) [0; 1; 2; 3]%nat
  = [Handler 0 0; Unsupported; Handler 2 1; Unsupported]
  /\ map (fun ci => spec_invoke FNone [] ex_decls ex_classes ci [77;111;86;101] KNormal) [0; 1; 2; 3]%nat
  = [Handler 0 0; Unsupported; Handler 2 1; Unsupported]
  /\ invoke FNone [] (prepare ex_decls ex_classes) 2 [102;105;114;101] KNormal = Handler 1 1
  /\ invoke FExclusive [7%nat] (prepare ex_decls ex_classes) 2 [102;105;114;101] KNormal = NotFound
  /\ invoke FInclusive [7%nat] (prepare ex_decls ex_classes) 2 [102;105;114;101] KNormal = Handler 1 1
  /\ invoke FNone [] (prepare ex_decls ex_classes) 2 [102;105;114;101] KReturn = NotFound.
Proof. vm_compute. repeat split; reflexivity. Qed.

(* FindEventInfo(eventName_t) as written (s < eventDefName.size()) does not see the command
   with the HIGHEST name index - here "move", the first one declared - although the by-name
   lookup does.  ProcessScriptEvent is not affected; Listener::CommandDelay, SpawnArgs and
   the compiler's getter/setter resolution use this function. *)
Example C16_find_event_info_off_by_one :
  let t := g_names (prepare ex_decls ex_classes) in
  length t = 2%nat
  /\ find_key_index t [109;111;118;101] = 2%nat
  /\ find_num t [109;111;118;101] KNormal = 1
  /\ find_num_by_index t 2 KNormal = 0
  /\ find_num_by_index t 1 KNormal = 3.
Proof. vm_compute. repeat split; reflexivity. Qed.
