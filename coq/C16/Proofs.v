(* C16/Proofs.v - the general theorems of C16: for EVERY list of declarations and EVERY
   class hierarchy (parents first). *)
From Coq Require Import List NArith Arith Bool Lia.
From Morfuse Require Import C16.Model C16.Spec C16.ProofsNames C16.ProofsTable C16.ProofsClasses.
Import ListNotations.

(* ------------------------------------------------------------ registration = firsts *)
Lemma register_is_firsts ds : register ds = (state_of (firsts ds), spec_numbers ds).
Proof.
  unfold register. change reg0 with (state_of []).
  rewrite register_from_spec by constructor.
  unfold ext. cbn [app]. rewrite (filter_all (notin [])) by (intro; apply notin_nil).
  reflexivity.
Qed.

Lemma register_count ds : r_count (fst (register ds)) = spec_count ds.
Proof. now rewrite register_is_firsts. Qed.

Lemma register_numbers ds : snd (register ds) = spec_numbers ds.
Proof. now rewrite register_is_firsts. Qed.

(* ------------------------------------------------------- facts about the numbering *)
Lemma dkey_eq a b :
  dkey a = dkey b <-> fold_name (d_name a) = fold_name (d_name b) /\ d_kind a = d_kind b.
Proof. unfold dkey, nkey. split; [intro H; inversion H; auto | intros [-> ->]; reflexivity]. Qed.

Lemma firsts_incl ds d : In d (firsts ds) -> In d ds.
Proof.
  induction ds as [|x r IH]; cbn [firsts In]; [tauto|].
  intros [H|H]; [auto|]. apply filter_In in H. right. tauto.
Qed.

Lemma notin_cons a F x : notin (a :: F) x = negb (same_key a x) && notin F x.
Proof. unfold notin. cbn [existsb]. apply negb_orb. Qed.

Lemma firsts_app pre rest :
  firsts (pre ++ rest) = firsts pre ++ filter (notin pre) (firsts rest).
Proof.
  induction pre as [|a pre IH]; cbn [app firsts].
  - now rewrite (filter_all (notin [])) by (intro; apply notin_nil).
  - rewrite IH, filter_app. cbn [app]. f_equal. f_equal.
    rewrite <- filter_andb. apply filter_ext. intro x. symmetry. apply notin_cons.
Qed.

Lemma find_pos_nth_inv fs n k : forall i j d,
  find_pos fs n k i = Some (j, d) -> nth_error fs (N.to_nat (j - i)) = Some d.
Proof.
  induction fs as [|x r IH]; intros i j d H; cbn [find_pos] in H; [discriminate|].
  destruct (is_key n k x).
  - inversion H; subst. now rewrite N.sub_diag.
  - pose proof (find_pos_bounds _ _ _ _ _ _ H) as [B _].
    apply IH in H. replace (N.to_nat (j - i)) with (S (N.to_nat (j - N.succ i))) by lia.
    exact H.
Qed.

Lemma spec_number_declared ds d :
  In d ds ->
  exists d0, find_pos (firsts ds) (d_name d) (d_kind d) 1 =
             Some (spec_number ds (d_name d) (d_kind d), d0)
             /\ In d0 ds /\ dkey d0 = dkey d.
Proof.
  intro I. unfold spec_number.
  destruct (find_pos (firsts ds) (d_name d) (d_kind d) 1) as [[j d0]|] eqn:E.
  - exists d0. split; [reflexivity|]. apply find_pos_bounds in E. destruct E as [_ [I0 K]].
    split; [now apply firsts_incl | exact K].
  - exfalso. apply find_pos_none in E. apply E. apply firsts_keys_sup.
    change (nkey (d_name d) (d_kind d)) with (dkey d). now apply in_map.
Qed.

(* numbers lie in 1..n *)
Lemma spec_number_range ds d :
  In d ds -> (1 <= spec_number ds (d_name d) (d_kind d) <= spec_count ds)%N.
Proof.
  intro I. destruct (spec_number_declared ds d I) as [d0 [E _]].
  apply find_pos_bounds in E. unfold spec_count. lia.
Qed.

(* same number <-> same command *)
Lemma spec_number_inj ds a b :
  In a ds -> In b ds ->
  (spec_number ds (d_name a) (d_kind a) = spec_number ds (d_name b) (d_kind b) <-> dkey a = dkey b).
Proof.
  intros Ia Ib. split.
  - intro H. destruct (spec_number_declared ds a Ia) as [a0 [Ea [_ Ka]]].
    destruct (spec_number_declared ds b Ib) as [b0 [Eb [_ Kb]]].
    rewrite H in Ea. apply find_pos_nth_inv in Ea. apply find_pos_nth_inv in Eb.
    rewrite Ea in Eb. inversion Eb; subst. congruence.
  - intro H. unfold spec_number. now rewrite (find_pos_ext _ _ _ _ _ _ H).
Qed.

(* first-occurrence order without gaps: a declaration that introduces a new command gets
   1 + the number of distinct commands declared before it *)
Lemma spec_number_first_occurrence pre d post :
  ~ In (dkey d) (map dkey pre) ->
  spec_number (pre ++ d :: post) (d_name d) (d_kind d) = N.succ (spec_count pre).
Proof.
  intro H. unfold spec_number, spec_count. rewrite firsts_app. cbn [firsts filter].
  apply notin_iff in H. rewrite H. rewrite find_pos_app.
  destruct (find_pos (firsts pre) (d_name d) (d_kind d) 1) as [[j d0]|] eqn:E.
  - exfalso. apply find_pos_bounds in E. destruct E as [_ [I K]].
    apply notin_iff in H. apply H. apply firsts_keys_sub.
    change (nkey (d_name d) (d_kind d)) with (dkey d) in K. rewrite <- K. now apply in_map.
  - cbn [find_pos]. rewrite is_key_self. lia.
Qed.

(* every number 1..n is used *)
Lemma spec_number_no_gaps ds m :
  (1 <= m <= spec_count ds)%N ->
  exists d, In d ds /\ spec_number ds (d_name d) (d_kind d) = m.
Proof.
  intro B. unfold spec_count in B.
  destruct (nth_error (firsts ds) (N.to_nat (m - 1))) as [d|] eqn:E.
  - exists d. split; [apply firsts_incl; eapply nth_error_In; eauto|].
    unfold spec_number. rewrite (find_pos_nth _ (firsts_nodup ds) _ _ 1%N E). lia.
  - apply nth_error_None in E. lia.
Qed.

(* ------------------------------------------------------------------ name resolution *)
Lemma names_of_prepare ds cs :
  g_names (prepare ds cs) = load_names (rev (number_from 1 (firsts ds))).
Proof. unfold prepare. now rewrite register_is_firsts. Qed.

Lemma find_num_prepare ds cs n k : k <> KNone ->
  find_num (g_names (prepare ds cs)) n k = spec_number ds n k.
Proof. intro Hk. rewrite names_of_prepare. now apply find_num_loaded. Qed.

(* any two spellings with the same case folding resolve identically, in any table *)
Lemma find_index_fold t n n' : fold_name n = fold_name n' ->
  forall i, find_index_from t n i = find_index_from t n' i.
Proof.
  intro H. induction t as [|[m x] r IH]; intro i; cbn [find_index_from]; [reflexivity|].
  rewrite (name_ieqb_fold_r m n n' H). now rewrite IH.
Qed.

Lemma find_num_fold t n n' k : fold_name n = fold_name n' -> find_num t n k = find_num t n' k.
Proof. intro H. unfold find_num, find_key_index. now rewrite (find_index_fold t n n' H). Qed.

(* ---------------------------------------------------------------------- dispatch *)
Lemma spec_lookup_Some ds n k num d :
  spec_lookup ds n k = Some (num, d) ->
  k <> KNone /\ find_pos (firsts ds) n k 1 = Some (num, d).
Proof. unfold spec_lookup, spec_lookup_in. destruct k; intro H; try discriminate; split; congruence. Qed.

Lemma spec_lookup_None ds n k :
  spec_lookup ds n k = None -> k = KNone \/ find_pos (firsts ds) n k 1 = None.
Proof. unfold spec_lookup, spec_lookup_in. destruct k; auto. Qed.

Definition outcome_of (s : slot) : outcome :=
  match s with Some (c, i) => Handler c i | None => Unsupported end.

Definition outcome_ret_of (s : slot) : outcome :=
  match s with Some (c, i) => Handler c i | None => Silent end.

(* the model's invoke, for ANY class list: name resolution and the namespace filter never
   depend on the receiver's class *)
Lemma invoke_unfold m f ds cs ci n k :
  invoke m f (prepare ds cs) ci n k =
  match spec_lookup ds n k with
  | None => NotFound
  | Some (num, d) =>
      if ns_allowed m f (d_ns d) then outcome_of (nth ci (build_tables cs) tempty num) else NotFound
  end.
Proof.
  unfold invoke. destruct (spec_lookup ds n k) as [[num d]|] eqn:E.
  - apply spec_lookup_Some in E. destruct E as [Hk E].
    rewrite (find_num_prepare ds cs n k Hk). unfold spec_number. rewrite E.
    pose proof (find_pos_bounds _ _ _ _ _ _ E) as [B _].
    unfold dispatch, prepare. rewrite register_is_firsts. cbn [fst state_of r_list r_count g_defs g_count g_tabs].
    destruct (N.eqb_spec num 0); [lia|].
    destruct (N.ltb_spec (N.of_nat (length (firsts ds))) num); [lia|].
    rewrite (def_of_num_loaded _ _ _ _ _ E). cbn [mk e_ns].
    destruct (ns_allowed m f (d_ns d)); reflexivity.
  - apply spec_lookup_None in E. destruct E as [->|E].
    + unfold find_num. cbn [get_info]. reflexivity.
    + destruct (kind_eqb k KNone) eqn:Hk.
      * apply kind_eqb_eq in Hk. subst. reflexivity.
      * assert (Hk' : k <> KNone) by (intro C; subst; discriminate).
        rewrite (find_num_prepare ds cs n k Hk'). unfold spec_number. rewrite E. reflexivity.
Qed.

Lemma invoke_return_unfold m f ds cs ci n k :
  dispatch_return m f (prepare ds cs) ci (find_num (g_names (prepare ds cs)) n k) =
  match spec_lookup ds n k with
  | None => Silent
  | Some (num, d) =>
      if ns_allowed m f (d_ns d) then outcome_ret_of (nth ci (build_tables cs) tempty num) else NotFound
  end.
Proof.
  destruct (spec_lookup ds n k) as [[num d]|] eqn:E.
  - apply spec_lookup_Some in E. destruct E as [Hk E].
    rewrite (find_num_prepare ds cs n k Hk). unfold spec_number. rewrite E.
    pose proof (find_pos_bounds _ _ _ _ _ _ E) as [B _].
    unfold dispatch_return, prepare. rewrite register_is_firsts. cbn [fst state_of r_list r_count g_defs g_count g_tabs].
    destruct (N.eqb_spec num 0); [lia|].
    destruct (N.ltb_spec (N.of_nat (length (firsts ds))) num); [lia|].
    rewrite (def_of_num_loaded _ _ _ _ _ E). cbn [mk e_ns].
    destruct (ns_allowed m f (d_ns d)); reflexivity.
  - apply spec_lookup_None in E. destruct E as [->|E].
    + unfold find_num. cbn [get_info]. reflexivity.
    + destruct (kind_eqb k KNone) eqn:Hk.
      * apply kind_eqb_eq in Hk. subst. reflexivity.
      * assert (Hk' : k <> KNone) by (intro C; subst; discriminate).
        rewrite (find_num_prepare ds cs n k Hk'). unfold spec_number. rewrite E. reflexivity.
Qed.

(* MAIN: registration + name table + response tables + ProcessScriptEvent = specification *)
Theorem invoke_refines_spec :
  forall m f ds cs, wf_classes cs ->
  forall ci n k, invoke m f (prepare ds cs) ci n k = spec_invoke m f ds cs ci n k.
Proof.
  intros m f ds cs W ci n k. rewrite invoke_unfold. unfold spec_invoke, spec_invoke_in.
  fold (spec_lookup ds n k). destruct (spec_lookup ds n k) as [[num d]|]; [|reflexivity].
  rewrite (build_table_is_nearest_declaring_ancestor cs W). reflexivity.
Qed.

Theorem invoke_return_refines_spec :
  forall m f ds cs, wf_classes cs ->
  forall ci n k,
    dispatch_return m f (prepare ds cs) ci (find_num (g_names (prepare ds cs)) n k)
    = spec_invoke_return m f ds cs ci n k.
Proof.
  intros m f ds cs W ci n k. rewrite invoke_return_unfold. unfold spec_invoke_return, spec_invoke_return_in.
  fold (spec_lookup ds n k). destruct (spec_lookup ds n k) as [[num d]|]; [|reflexivity].
  rewrite (build_table_is_nearest_declaring_ancestor cs W). reflexivity.
Qed.

(* a command whose namespace is filtered out is rejected for every class of every hierarchy *)
Theorem filtered_namespace_rejects_for_every_class :
  forall m f ds n k num d,
    spec_lookup ds n k = Some (num, d) ->
    ns_allowed m f (d_ns d) = false ->
    forall cs ci, invoke m f (prepare ds cs) ci n k = NotFound.
Proof.
  intros m f ds n k num d E A cs ci. rewrite invoke_unfold, E, A. reflexivity.
Qed.

Theorem unknown_command_rejected_for_every_class :
  forall m f ds n k, spec_lookup ds n k = None ->
  forall cs ci, invoke m f (prepare ds cs) ci n k = NotFound.
Proof. intros m f ds n k E cs ci. now rewrite invoke_unfold, E. Qed.

Theorem invoke_never_undefined :
  forall m f ds cs ci n k, invoke m f (prepare ds cs) ci n k <> Undefined.
Proof.
  intros m f ds cs ci n k. rewrite invoke_unfold.
  destruct (spec_lookup ds n k) as [[num d]|]; [|discriminate].
  destruct (ns_allowed m f (d_ns d)); [|discriminate].
  destruct (nth ci (build_tables cs) tempty num) as [[c i]|]; discriminate.
Qed.

(* ------------------------------------------------- the numbering theorems for [register] *)
Lemma register_nth ds i d :
  nth_error ds i = Some d ->
  nth_error (snd (register ds)) i = Some (spec_number ds (d_name d) (d_kind d)).
Proof.
  intro H. rewrite register_numbers. unfold spec_numbers.
  now apply (map_nth_error (fun d => spec_number ds (d_name d) (d_kind d))).
Qed.

Theorem numbers_injective_on_name_kind :
  forall ds i j di dj ni nj,
    nth_error ds i = Some di -> nth_error ds j = Some dj ->
    nth_error (snd (register ds)) i = Some ni -> nth_error (snd (register ds)) j = Some nj ->
    (ni = nj <-> fold_name (d_name di) = fold_name (d_name dj) /\ d_kind di = d_kind dj).
Proof.
  intros ds i j di dj ni nj Hi Hj Ni Nj.
  rewrite (register_nth ds i di Hi) in Ni. rewrite (register_nth ds j dj Hj) in Nj.
  inversion Ni; inversion Nj; subst. rewrite <- dkey_eq.
  apply spec_number_inj; eapply nth_error_In; eauto.
Qed.

Theorem numbers_range :
  forall ds i ni, nth_error (snd (register ds)) i = Some ni ->
  (1 <= ni <= r_count (fst (register ds)))%N.
Proof.
  intros ds i ni H. rewrite register_count.
  destruct (nth_error ds i) as [d|] eqn:E.
  - rewrite (register_nth ds i d E) in H. inversion H; subst.
    apply spec_number_range. eapply nth_error_In; eauto.
  - exfalso. apply nth_error_None in E. rewrite register_numbers in H. unfold spec_numbers in H.
    assert (C : nth_error (map (fun d => spec_number ds (d_name d) (d_kind d)) ds) i = None)
      by (apply nth_error_None; now rewrite map_length).
    congruence.
Qed.

Theorem numbers_first_occurrence_order :
  forall pre d post,
    (forall x, In x pre -> ~ (fold_name (d_name x) = fold_name (d_name d) /\ d_kind x = d_kind d)) ->
    nth_error (snd (register (pre ++ d :: post))) (length pre) =
    Some (N.succ (r_count (fst (register pre)))).
Proof.
  intros pre d post H.
  rewrite (register_nth (pre ++ d :: post) (length pre) d)
    by (rewrite nth_error_app2 by lia; now rewrite Nat.sub_diag).
  rewrite register_count. f_equal. apply spec_number_first_occurrence.
  intro I. apply in_map_iff in I. destruct I as [x [K I]]. apply (H x I). now apply dkey_eq.
Qed.

Theorem numbers_no_gaps :
  forall ds m, (1 <= m <= r_count (fst (register ds)))%N ->
  exists i, nth_error (snd (register ds)) i = Some m.
Proof.
  intros ds m B. rewrite register_count in B.
  destruct (spec_number_no_gaps ds m B) as [d [I E]].
  apply In_nth_error in I. destruct I as [i Hi]. exists i.
  rewrite (register_nth ds i d Hi). now rewrite E.
Qed.

(* every spelling of a declared command resolves to the number stored in its EventDef *)
Theorem case_insensitive_name_match :
  forall ds cs i d num n,
    nth_error ds i = Some d -> d_kind d <> KNone ->
    nth_error (snd (register ds)) i = Some num ->
    fold_name n = fold_name (d_name d) ->
    find_num (g_names (prepare ds cs)) n (d_kind d) = num /\ num <> 0%N.
Proof.
  intros ds cs i d num n Hd Hk Hn Hf.
  rewrite (register_nth ds i d Hd) in Hn. inversion Hn; subst.
  rewrite (find_num_fold _ n (d_name d) _ Hf).
  rewrite (find_num_prepare ds cs _ _ Hk). split; [reflexivity|].
  pose proof (spec_number_range ds d (nth_error_In _ _ Hd)). lia.
Qed.
