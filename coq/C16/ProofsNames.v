(* C16/ProofsNames.v - GetNewAttributes numbers commands in first-occurrence order, and the
   name table built by LoadEvents resolves every spelling of a command to that number. *)
From Coq Require Import List NArith Arith Bool Lia.
From Morfuse Require Import C16.Model C16.Spec.
Import ListNotations.

(* ------------------------------------------------------------------------- keys *)
Definition key := (name * kind)%type.
Definition nkey (n : name) (k : kind) : key := (fold_name n, k).
Definition dkey (d : decl) : key := nkey (d_name d) (d_kind d).
Definition ekey (e : edef) : key := nkey (e_name e) (e_kind e).

Lemma name_eqb_eq : forall a b, name_eqb a b = true <-> a = b.
Proof.
  induction a as [|x a IH]; destruct b as [|y b]; cbn [name_eqb]; split; intro H;
    try discriminate; try reflexivity.
  - apply andb_true_iff in H. destruct H as [H1 H2].
    apply N.eqb_eq in H1. apply IH in H2. now subst.
  - inversion H; subst. apply andb_true_iff. split; [apply N.eqb_refl | now apply IH].
Qed.

Lemma kind_eqb_eq a b : kind_eqb a b = true <-> a = b.
Proof. destruct a, b; cbn; split; intro H; try discriminate; reflexivity. Qed.

Lemma name_ieqb_eq a b : name_ieqb a b = true <-> fold_name a = fold_name b.
Proof. apply name_eqb_eq. Qed.

Lemma keytest_iff a b k1 k2 :
  name_ieqb a b && kind_eqb k1 k2 = true <-> nkey a k1 = nkey b k2.
Proof.
  unfold nkey. rewrite andb_true_iff, name_ieqb_eq, kind_eqb_eq. split.
  - intros [-> ->]. reflexivity.
  - intro H. inversion H. auto.
Qed.

Lemma same_event_iff n k e : same_event n k e = true <-> ekey e = nkey n k.
Proof. apply keytest_iff. Qed.
Lemma same_key_iff a b : same_key a b = true <-> dkey a = dkey b.
Proof. apply keytest_iff. Qed.
Lemma is_key_iff n k d : is_key n k d = true <-> dkey d = nkey n k.
Proof. apply keytest_iff. Qed.

Lemma false_iff_not (b : bool) (P : Prop) : (b = true <-> P) -> (b = false <-> ~ P).
Proof. intros H. rewrite <- H. symmetry. apply not_true_iff_false. Qed.

Lemma same_event_false n k e : same_event n k e = false <-> ekey e <> nkey n k.
Proof. apply false_iff_not, same_event_iff. Qed.
Lemma same_key_false a b : same_key a b = false <-> dkey a <> dkey b.
Proof. apply false_iff_not, same_key_iff. Qed.
Lemma is_key_false n k d : is_key n k d = false <-> dkey d <> nkey n k.
Proof. apply false_iff_not, is_key_iff. Qed.

Lemma is_key_ext n k n' k' d : nkey n k = nkey n' k' -> is_key n k d = is_key n' k' d.
Proof.
  intro H. destruct (is_key n' k' d) eqn:E.
  - apply is_key_iff. apply is_key_iff in E. congruence.
  - apply is_key_false. apply is_key_false in E. congruence.
Qed.

Lemma is_key_self d : is_key (d_name d) (d_kind d) d = true.
Proof. now apply is_key_iff. Qed.

(* ------------------------------------------------------------------ generic filters *)
Lemma filter_andb {A} (p q : A -> bool) l :
  filter (fun x => p x && q x) l = filter p (filter q l).
Proof.
  induction l as [|x l IH]; cbn [filter]; [reflexivity|].
  destruct (q x); cbn [filter]; destruct (p x); cbn; now rewrite IH.
Qed.

Lemma filter_absorb {A} (p q : A -> bool) l :
  (forall x, p x = true -> q x = true) -> filter p (filter q l) = filter p l.
Proof.
  intro H. induction l as [|x l IH]; cbn [filter]; [reflexivity|].
  destruct (q x) eqn:Q; cbn [filter]; destruct (p x) eqn:P; try now rewrite IH.
  apply H in P. congruence.
Qed.

Lemma filter_all {A} (p : A -> bool) l : (forall x, p x = true) -> filter p l = l.
Proof.
  intro H. induction l as [|x l IH]; cbn [filter]; [reflexivity|]. now rewrite H, IH.
Qed.

Lemma in_map_filter {A B} (f : A -> B) (p : A -> bool) l y :
  In y (map f (filter p l)) -> In y (map f l).
Proof.
  intro H. apply in_map_iff in H. destruct H as [x [E I]]. apply filter_In in I.
  apply in_map_iff. exists x. tauto.
Qed.

Lemma NoDup_map_filter {A B} (f : A -> B) (p : A -> bool) l :
  NoDup (map f l) -> NoDup (map f (filter p l)).
Proof.
  induction l as [|x l IH]; cbn [filter map]; intro H; [constructor|].
  inversion H; subst. destruct (p x); cbn [map]; [|auto].
  constructor; [|auto]. intro I. apply in_map_filter in I. contradiction.
Qed.

(* ---------------------------------------------------------------------- find_pos *)
Lemma find_pos_bounds fs n k : forall i j d,
  find_pos fs n k i = Some (j, d) ->
  (i <= j < i + N.of_nat (length fs))%N /\ In d fs /\ dkey d = nkey n k.
Proof.
  induction fs as [|x r IH]; intros i j d H; cbn [find_pos] in H; [discriminate|].
  destruct (is_key n k x) eqn:E.
  - inversion H; subst. apply is_key_iff in E. cbn [length In]. split; [lia|]. auto.
  - apply IH in H. destruct H as [B [I K]]. cbn [length In]. split; [lia|]. auto.
Qed.

Lemma find_pos_none fs n k : forall i,
  find_pos fs n k i = None <-> ~ In (nkey n k) (map dkey fs).
Proof.
  induction fs as [|x r IH]; intro i; cbn [find_pos map In]; [tauto|].
  destruct (is_key n k x) eqn:E.
  - apply is_key_iff in E. split; [discriminate|]. intro H. exfalso. apply H. auto.
  - apply is_key_false in E. rewrite IH. split; [intros H [C|C]; [congruence|auto] | tauto].
Qed.

Lemma find_pos_app fs gs n k : forall i,
  find_pos (fs ++ gs) n k i =
  match find_pos fs n k i with
  | Some x => Some x
  | None => find_pos gs n k (i + N.of_nat (length fs))
  end.
Proof.
  induction fs as [|x r IH]; intro i; cbn [find_pos app length].
  - f_equal. cbn. lia.
  - destruct (is_key n k x); [reflexivity|]. rewrite IH.
    destruct (find_pos r n k (N.succ i)); [reflexivity|]. f_equal. lia.
Qed.

Lemma find_pos_ext fs n k n' k' i :
  nkey n k = nkey n' k' -> find_pos fs n k i = find_pos fs n' k' i.
Proof.
  intro H. revert i. induction fs as [|x r IH]; intro i; cbn [find_pos]; [reflexivity|].
  rewrite (is_key_ext n k n' k' x H). now rewrite IH.
Qed.

(* with distinct keys the element at position p is found at i + p *)
Lemma find_pos_nth fs : NoDup (map dkey fs) -> forall p d i,
  nth_error fs p = Some d ->
  find_pos fs (d_name d) (d_kind d) i = Some ((i + N.of_nat p)%N, d).
Proof.
  induction fs as [|x r IH]; intros ND p d i H; [destruct p; discriminate|].
  cbn [map] in ND. inversion ND as [|? ? Hx ND']; subst.
  destruct p as [|p]; cbn [nth_error] in H; cbn [find_pos].
  - inversion H; subst. rewrite is_key_self. f_equal. f_equal. lia.
  - destruct (is_key (d_name d) (d_kind d) x) eqn:E.
    + apply is_key_iff in E. exfalso. apply Hx.
      change (nkey (d_name d) (d_kind d)) with (dkey d) in E. rewrite E.
      apply in_map. eapply nth_error_In; eauto.
    + rewrite (IH ND' p d (N.succ i) H). f_equal. f_equal. lia.
Qed.

(* ---------------------------------------------------------------------- find_def *)
Lemma find_def_app a b n k :
  find_def (a ++ b) n k =
  match find_def a n k with Some e => Some e | None => find_def b n k end.
Proof.
  induction a as [|x a IH]; cbn [find_def app]; [reflexivity|].
  destruct (same_event n k x); [reflexivity | exact IH].
Qed.

Lemma find_def_Some l n k e :
  find_def l n k = Some e -> In e l /\ ekey e = nkey n k.
Proof.
  induction l as [|x l IH]; cbn [find_def]; [discriminate|].
  destruct (same_event n k x) eqn:E.
  - intro H. inversion H; subst. apply same_event_iff in E. cbn [In]. auto.
  - intro H. apply IH in H. cbn [In]. tauto.
Qed.

Lemma find_def_none l n k :
  find_def l n k = None <-> ~ In (nkey n k) (map ekey l).
Proof.
  induction l as [|x l IH]; cbn [find_def map In]; [tauto|].
  destruct (same_event n k x) eqn:E.
  - apply same_event_iff in E. split; [discriminate|]. intro H. exfalso. apply H. auto.
  - apply same_event_false in E. rewrite IH. split; [intros H [C|C]; [congruence|auto] | tauto].
Qed.

Lemma find_def_unique l n k e :
  NoDup (map ekey l) -> In e l -> ekey e = nkey n k -> find_def l n k = Some e.
Proof.
  induction l as [|x l IH]; cbn [map In find_def]; intros ND I K; [contradiction|].
  inversion ND as [|? ? Hx ND']; subst.
  destruct (same_event n k x) eqn:E.
  - apply same_event_iff in E. destruct I as [->|I]; [reflexivity|].
    exfalso. apply Hx. rewrite E, <- K. now apply in_map.
  - apply same_event_false in E. destruct I as [->|I]; [contradiction|]. now apply IH.
Qed.

Lemma find_def_rev l n k : NoDup (map ekey l) -> find_def (rev l) n k = find_def l n k.
Proof.
  intro ND. destruct (find_def l n k) as [e|] eqn:E.
  - apply find_def_Some in E. destruct E as [I K].
    apply find_def_unique; [| now apply in_rev in I | exact K].
    rewrite map_rev. now apply NoDup_rev.
  - apply find_def_none. apply find_def_none in E. rewrite map_rev. intro I. apply E.
    now apply in_rev.
Qed.

(* --------------------------------------------------------- numbered definitions *)
Definition mk (d : decl) (i : N) : edef := mkEdef (d_name d) (d_kind d) i (d_ns d).

Fixpoint number_from (i : N) (fs : list decl) : list edef :=
  match fs with
  | [] => []
  | d :: r => mk d i :: number_from (N.succ i) r
  end.

Lemma number_from_app a b : forall i,
  number_from i (a ++ b) = number_from i a ++ number_from (i + N.of_nat (length a)) b.
Proof.
  induction a as [|x a IH]; intro i; cbn [number_from app length].
  - f_equal. cbn. lia.
  - rewrite IH. f_equal. f_equal. f_equal. lia.
Qed.

Lemma number_from_keys fs : forall i, map ekey (number_from i fs) = map dkey fs.
Proof.
  induction fs as [|x r IH]; intro i; cbn [number_from map]; [reflexivity|]. now rewrite IH.
Qed.

Lemma number_from_length fs : forall i, length (number_from i fs) = length fs.
Proof.
  induction fs as [|x r IH]; intro i; cbn [number_from length]; [reflexivity|]. now rewrite IH.
Qed.

Definition of_pos (p : N * decl) : edef := mk (snd p) (fst p).

Lemma find_def_numbered fs n k : forall i,
  find_def (number_from i fs) n k = option_map of_pos (find_pos fs n k i).
Proof.
  induction fs as [|x r IH]; intro i; cbn [number_from find_def find_pos]; [reflexivity|].
  change (same_event n k (mk x i)) with (is_key n k x).
  destruct (is_key n k x); [reflexivity | apply IH].
Qed.

(* -------------------------------------------------------------- firsts and notin *)
Definition notin (F : list decl) (x : decl) : bool := negb (existsb (fun f => same_key f x) F).

Lemma existsb_key F x :
  existsb (fun f => same_key f x) F = true <-> In (dkey x) (map dkey F).
Proof.
  rewrite existsb_exists. split.
  - intros [f [I S]]. apply same_key_iff in S. rewrite <- S. now apply in_map.
  - intro I. apply in_map_iff in I. destruct I as [f [E I]]. exists f. split; [exact I|].
    now apply same_key_iff.
Qed.

Lemma notin_iff F x : notin F x = true <-> ~ In (dkey x) (map dkey F).
Proof.
  unfold notin. rewrite negb_true_iff. rewrite <- not_true_iff_false.
  apply not_iff_compat, existsb_key.
Qed.

Lemma notin_false F x : notin F x = false <-> In (dkey x) (map dkey F).
Proof. unfold notin. rewrite negb_false_iff. apply existsb_key. Qed.

Lemma NoDup_snoc {A} (l : list A) x : NoDup l -> ~ In x l -> NoDup (l ++ [x]).
Proof.
  induction l as [|y l IH]; cbn [app In]; intros ND I.
  - constructor; [tauto | constructor].
  - inversion ND; subst. constructor.
    + rewrite in_app_iff. cbn [In]. intros [C|[C|[]]]; [contradiction | subst; tauto].
    + apply IH; tauto.
Qed.

Lemma notin_nil x : notin [] x = true.
Proof. reflexivity. Qed.

Lemma notin_snoc F d x : notin (F ++ [d]) x = notin F x && negb (same_key d x).
Proof.
  unfold notin. rewrite existsb_app. cbn [existsb]. rewrite orb_false_r. apply negb_orb.
Qed.

Lemma firsts_keys_sub ds x : In x (map dkey (firsts ds)) -> In x (map dkey ds).
Proof.
  revert x. induction ds as [|d r IH]; intros x H; cbn [firsts map In] in *; [exact H|].
  destruct H as [H|H]; [auto|]. right. apply IH. eapply in_map_filter; eauto.
Qed.

Lemma firsts_nodup ds : NoDup (map dkey (firsts ds)).
Proof.
  induction ds as [|d r IH]; cbn [firsts map]; [constructor|].
  constructor; [|now apply NoDup_map_filter].
  intro I. apply in_map_iff in I. destruct I as [x [E I]]. apply filter_In in I.
  destruct I as [_ I]. apply negb_true_iff in I. apply same_key_false in I. congruence.
Qed.

Lemma firsts_keys_sup ds x : In x (map dkey ds) -> In x (map dkey (firsts ds)).
Proof.
  revert x. induction ds as [|d r IH]; intros x H; cbn [firsts map In] in *; [exact H|].
  destruct H as [H|H]; [auto|].
  destruct (same_key d d) eqn:Dummy; [|apply same_key_false in Dummy; congruence].
  apply IH in H. apply in_map_iff in H. destruct H as [y [E I]].
  destruct (same_key d y) eqn:S.
  - left. apply same_key_iff in S. congruence.
  - right. apply in_map_iff. exists y. split; [exact E|]. apply filter_In. split; [exact I|].
    now rewrite S.
Qed.

(* ------------------------------------------------------- the registration fold *)
Definition state_of (F : list decl) : regstate :=
  mkReg (rev (number_from 1 F)) (N.of_nat (length F)).

Definition ext (F : list decl) (ds : list decl) : list decl := F ++ filter (notin F) (firsts ds).

Definition pos_number (F : list decl) (d : decl) : N :=
  match find_pos F (d_name d) (d_kind d) 1 with Some (i, _) => i | None => 0%N end.

Lemma state_of_snoc F d :
  state_of (F ++ [d]) =
  mkReg (mk d (N.succ (N.of_nat (length F))) :: rev (number_from 1 F)) (N.succ (N.of_nat (length F))).
Proof.
  unfold state_of. rewrite number_from_app, rev_app_distr, app_length. cbn [number_from rev app length].
  f_equal; [f_equal; f_equal; lia | lia].
Qed.

Lemma register_one_spec F d :
  NoDup (map dkey F) ->
  register_one (state_of F) d =
  match find_pos F (d_name d) (d_kind d) 1 with
  | Some (j, _) => (state_of F, j)
  | None => (state_of (F ++ [d]), N.succ (N.of_nat (length F)))
  end.
Proof.
  intro ND. unfold register_one. cbn [state_of r_list r_count].
  rewrite find_def_rev by (now rewrite number_from_keys).
  rewrite find_def_numbered.
  destruct (find_pos F (d_name d) (d_kind d) 1) as [[j d0]|]; cbn [option_map of_pos fst snd mk e_num].
  - reflexivity.
  - now rewrite state_of_snoc.
Qed.

Lemma register_from_spec : forall ds F,
  NoDup (map dkey F) ->
  register_from (state_of F) ds = (state_of (ext F ds), map (pos_number (ext F ds)) ds).
Proof.
  induction ds as [|d r IH]; intros F ND.
  - cbn [register_from map]. unfold ext. cbn [firsts filter]. now rewrite app_nil_r.
  - cbn [register_from]. rewrite (register_one_spec F d ND).
    destruct (find_pos F (d_name d) (d_kind d) 1) as [[j d0]|] eqn:E.
    + (* an earlier definition has the same name and kind *)
      rewrite (IH F ND).
      assert (Hin : In (dkey d) (map dkey F)).
      { apply find_pos_bounds in E. destruct E as [_ [I K]]. unfold dkey at 1. rewrite <- K. now apply in_map. }
      assert (Hext : ext F (d :: r) = ext F r).
      { unfold ext. cbn [firsts filter].
        apply notin_false in Hin. rewrite Hin. f_equal. apply filter_absorb.
        intros x Hx. apply negb_true_iff. apply same_key_false. apply notin_iff in Hx.
        apply notin_false in Hin. intro C. apply Hx. now rewrite <- C. }
      rewrite Hext. cbn [map]. f_equal. f_equal.
      unfold pos_number, ext. rewrite find_pos_app, E. reflexivity.
    + (* a new command *)
      assert (Hnot : ~ In (dkey d) (map dkey F)) by (now apply find_pos_none in E).
      assert (ND' : NoDup (map dkey (F ++ [d]))).
      { rewrite map_app. cbn [map]. apply NoDup_snoc; assumption. }
      rewrite (IH (F ++ [d]) ND').
      assert (Hext : ext (F ++ [d]) r = ext F (d :: r)).
      { unfold ext. cbn [firsts filter]. apply notin_iff in Hnot. rewrite Hnot.
        rewrite <- app_assoc. cbn [app]. f_equal. f_equal.
        rewrite <- filter_andb. apply filter_ext. intro x. apply notin_snoc. }
      rewrite Hext. cbn [map]. f_equal. f_equal.
      unfold pos_number. rewrite <- Hext. unfold ext.
      rewrite <- app_assoc, find_pos_app, E. cbn [app find_pos]. rewrite is_key_self.
      f_equal. lia.
Qed.
