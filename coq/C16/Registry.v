(* C16/Registry.v - the registry dumped from the built binary (harness/C16.cpp `dump`,
   translated by props/C16.py into Generated.v) and its exhaustive comparison with the model.

   [check_registry r] decides, for the binary that was just built from /repo:
   1. folding GetNewAttributes over the declarations gives every declared object the number
      it actually has (GetEventNum), the EventDef list (order, spelling, kind, number,
      namespace) and NumEventCommands of the binary;
   2. LoadEvents over that list gives the binary's name table (every index: stored spelling
      and the four numbers);
   3. the classes are well formed (parents first, declared numbers within 1..N);
   4. for EVERY class and EVERY event number 1..N the table computed like
      BuildResponseList equals the binary's actual responseLookup entry (empty, or declaring
      class and index of the ResponseDef). *)
From Coq Require Import List NArith Arith Bool Lia.
From Morfuse Require Import C16.Model C16.Spec C16.ProofsClasses.
Import ListNotations.

Record registry := mkRegistry {
  x_decls : list decl;
  x_numbers : list N;
  x_evlist : list edef;
  x_names : nametable;
  x_count : N;
  x_classes : list cls;
  x_actual : list (list (N * (nat * nat))) }.

Fixpoint list_eqb {A} (eqb : A -> A -> bool) (a b : list A) : bool :=
  match a, b with
  | [], [] => true
  | x :: a', y :: b' => eqb x y && list_eqb eqb a' b'
  | _, _ => false
  end.

Definition edef_eqb (a b : edef) : bool :=
  name_eqb (e_name a) (e_name b) && kind_eqb (e_kind a) (e_kind b)
  && N.eqb (e_num a) (e_num b) && Nat.eqb (e_ns a) (e_ns b).

Definition info_eqb (a b : info) : bool :=
  N.eqb (i_normal a) (i_normal b) && N.eqb (i_return a) (i_return b)
  && N.eqb (i_setter a) (i_setter b) && N.eqb (i_getter a) (i_getter b).

Definition entry_eqb (a b : name * info) : bool :=
  name_eqb (fst a) (fst b) && info_eqb (snd a) (snd b).

Definition slot_eqb (a b : slot) : bool :=
  match a, b with
  | None, None => true
  | Some (c, i), Some (c', i') => Nat.eqb c c' && Nat.eqb i i'
  | _, _ => false
  end.

Fixpoint lookup_actual (l : list (N * (nat * nat))) (ev : N) : slot :=
  match l with
  | [] => None
  | (e, v) :: r => if N.eqb e ev then Some v else lookup_actual r ev
  end.

Definition events_upto (n : N) : list N := map N.of_nat (seq 1 (N.to_nat n)).

Fixpoint forallb_i {A} (f : nat -> A -> bool) (i : nat) (l : list A) : bool :=
  match l with
  | [] => true
  | x :: r => f i x && forallb_i f (S i) r
  end.

Definition class_wf_b (count : N) (i : nat) (c : cls) : bool :=
  (match c_parent c with Some p => p <? i | None => true end)
  && forallb (fun r => N.leb 1 (fst r) && N.leb (fst r) count) (c_resp c).

Definition table_matches (count : N) (t : table) (a : list (N * (nat * nat))) : bool :=
  forallb (fun ev => slot_eqb (t ev) (lookup_actual a ev)) (events_upto count)
  && forallb (fun e => N.leb 1 (fst e) && N.leb (fst e) count) a.

Fixpoint tables_match (count : N) (ts : list table) (as_ : list (list (N * (nat * nat)))) : bool :=
  match ts, as_ with
  | [], [] => true
  | t :: ts', a :: as' => table_matches count t a && tables_match count ts' as'
  | _, _ => false
  end.

Definition check_numbering (r : registry) : bool :=
  let (st, nums) := register (x_decls r) in
  list_eqb N.eqb nums (x_numbers r)
  && list_eqb edef_eqb (r_list st) (x_evlist r)
  && N.eqb (r_count st) (x_count r).

Definition check_names (r : registry) : bool :=
  list_eqb entry_eqb (load_names (x_evlist r)) (x_names r).

Definition check_classes (r : registry) : bool :=
  forallb_i (class_wf_b (x_count r)) 0 (x_classes r).

Definition check_tables (r : registry) : bool :=
  tables_match (x_count r) (build_tables (x_classes r)) (x_actual r).

Definition check_registry (r : registry) : bool :=
  check_numbering r && check_names r && check_classes r && check_tables r.

(* ------------------------------------------------------------------------ soundness *)
Lemma forallb_i_nth {A} (f : nat -> A -> bool) l : forall i,
  forallb_i f i l = true -> forall j x, nth_error l j = Some x -> f (i + j) x = true.
Proof.
  induction l as [|y r IH]; intros i H j x Hj; [destruct j; discriminate|].
  cbn [forallb_i] in H. apply andb_true_iff in H. destruct H as [H1 H2].
  destruct j as [|j]; cbn [nth_error] in Hj.
  - inversion Hj; subst. now rewrite Nat.add_0_r.
  - replace (i + S j) with (S i + j) by lia. eapply IH; eauto.
Qed.

Lemma check_classes_wf r : check_classes r = true -> wf_classes (x_classes r).
Proof.
  intros H i c p Hc Hp. unfold check_classes in H.
  pose proof (forallb_i_nth _ _ _ H i c Hc) as Hi. cbn [Nat.add] in Hi.
  unfold class_wf_b in Hi. apply andb_true_iff in Hi. destruct Hi as [Hi _].
  rewrite Hp in Hi. now apply Nat.ltb_lt in Hi.
Qed.

Lemma slot_eqb_eq a b : slot_eqb a b = true -> a = b.
Proof.
  destruct a as [[c i]|], b as [[c' i']|]; cbn; try discriminate; [|reflexivity].
  intro H. apply andb_true_iff in H. destruct H as [H1 H2].
  apply Nat.eqb_eq in H1. apply Nat.eqb_eq in H2. now subst.
Qed.

Lemma events_upto_In n ev : (1 <= ev <= n)%N -> In ev (events_upto n).
Proof.
  intro B. unfold events_upto. apply in_map_iff. exists (N.to_nat ev). split; [lia|].
  apply in_seq. lia.
Qed.

Lemma tables_match_nth count : forall ts as_,
  tables_match count ts as_ = true ->
  forall ci, ci < length ts -> forall ev, (1 <= ev <= count)%N ->
  nth ci ts tempty ev = lookup_actual (nth ci as_ []) ev.
Proof.
  induction ts as [|t ts IH]; intros as_ H ci Hci ev B; [cbn in Hci; lia|].
  destruct as_ as [|a as']; [discriminate|]. cbn [tables_match] in H.
  apply andb_true_iff in H. destruct H as [H1 H2].
  destruct ci as [|ci]; cbn [nth].
  - unfold table_matches in H1. apply andb_true_iff in H1. destruct H1 as [H1 _].
    rewrite forallb_forall in H1. apply slot_eqb_eq. apply H1. now apply events_upto_In.
  - apply IH; [exact H2 | cbn [length] in Hci; lia | exact B].
Qed.

(* what the check means for the built binary: every actual table entry is the nearest
   declaring ancestor's *)
Theorem check_registry_sound r :
  check_registry r = true ->
  forall ci ev, ci < length (x_classes r) -> (1 <= ev <= x_count r)%N ->
  lookup_actual (nth ci (x_actual r) []) ev = spec_slot (x_classes r) ci ev.
Proof.
  intros H ci ev Hci B. unfold check_registry in H.
  apply andb_true_iff in H. destruct H as [H Ht].
  apply andb_true_iff in H. destruct H as [H Hc].
  pose proof (check_classes_wf r Hc) as W.
  rewrite <- (build_table_is_nearest_declaring_ancestor _ W).
  symmetry. apply (tables_match_nth (x_count r)); try assumption.
  unfold build_tables. rewrite build_from_length. cbn [length]. lia.
Qed.
