(* C16/ProofsClasses.v - BuildResponseList computes the nearest declaring ancestor. *)
From Coq Require Import List NArith Arith Bool Lia Wf_nat.
From Morfuse Require Import C16.Model C16.Spec.
Import ListNotations.

(* every class names its parent by an earlier position *)
Definition wf_classes (cs : list cls) : Prop :=
  forall i c p, nth_error cs i = Some c -> c_parent c = Some p -> p < i.

Lemma tset_get t e v ev : tset t e v ev = if N.eqb e ev then v else t ev.
Proof. unfold tset. now rewrite N.eqb_sym. Qed.

(* applying a response list = the last declaration of the event decides *)
Lemma apply_resp_last ci rs : forall idx t ev,
  apply_resp ci rs idx t ev =
  match last_decl rs ev idx with
  | Some (i, true) => Some (ci, i)
  | Some (_, false) => None
  | None => t ev
  end.
Proof.
  induction rs as [|[e has] r IH]; intros idx t ev; cbn [apply_resp last_decl].
  - reflexivity.
  - rewrite IH. destruct (last_decl r ev (S idx)) as [[i b]|]; [reflexivity|].
    rewrite tset_get. destruct (N.eqb e ev); [destruct has|]; reflexivity.
Qed.

Lemma build_from_length cs : forall tabs, length (build_from tabs cs) = length tabs + length cs.
Proof.
  induction cs as [|c r IH]; intro tabs; cbn [build_from length].
  - lia.
  - rewrite IH, app_length. cbn [length]. lia.
Qed.

Lemma build_from_prefix cs : forall tabs i d,
  i < length tabs -> nth i (build_from tabs cs) d = nth i tabs d.
Proof.
  induction cs as [|c r IH]; intros tabs i d Hi; cbn [build_from].
  - reflexivity.
  - rewrite IH by (rewrite app_length; cbn [length]; lia).
    now rewrite app_nth1.
Qed.

(* more fuel than the position is never needed *)
Lemma nearest_fuel cs (W : wf_classes cs) ev : forall f ci,
  ci < f -> nearest cs f ci ev = nearest cs (S ci) ci ev.
Proof.
  intro f. induction f as [f IH] using lt_wf_ind. intros ci Hci.
  destruct f as [|f']; [lia|].
  cbn [nearest].
  destruct (nth_error cs ci) as [c|] eqn:Hc; [|reflexivity].
  destruct (last_decl (c_resp c) ev 0) as [[idx [|]]|]; try reflexivity.
  destruct (c_parent c) as [p|] eqn:Hp; [|reflexivity].
  assert (Hlt : p < ci) by (eapply W; eauto).
  destruct (Nat.eq_dec f' ci) as [->|Hne]; [reflexivity|].
  rewrite (IH f') by lia.
  rewrite (IH ci) by lia.
  reflexivity.
Qed.

Definition tabs_ok (cs : list cls) (tabs : list table) : Prop :=
  forall j, j < length tabs -> forall ev, nth j tabs tempty ev = nearest cs (S j) j ev.

Lemma build_one_ok cs (W : wf_classes cs) tabs c :
  tabs_ok cs tabs ->
  nth_error cs (length tabs) = Some c ->
  forall ev, build_one tabs (length tabs) c ev = nearest cs (S (length tabs)) (length tabs) ev.
Proof.
  intros Hok Hc ev. unfold build_one. rewrite apply_resp_last.
  cbn [nearest]. rewrite Hc.
  destruct (last_decl (c_resp c) ev 0) as [[idx [|]]|]; try reflexivity.
  destruct (c_parent c) as [p|] eqn:Hp; [|reflexivity].
  assert (Hlt : p < length tabs) by (eapply W; eauto).
  rewrite Hok by exact Hlt.
  symmetry. apply nearest_fuel; assumption.
Qed.

Lemma build_from_ok cs (W : wf_classes cs) : forall rest pre tabs,
  cs = pre ++ rest -> length tabs = length pre ->
  tabs_ok cs tabs -> tabs_ok cs (build_from tabs rest).
Proof.
  induction rest as [|c r IH]; intros pre tabs Hcs Hlen Hok; cbn [build_from].
  - exact Hok.
  - apply (IH (pre ++ [c])).
    + rewrite <- app_assoc. exact Hcs.
    + rewrite !app_length. cbn [length]. lia.
    + intros j Hj ev. rewrite app_length in Hj. cbn [length] in Hj.
      destruct (Nat.eq_dec j (length tabs)) as [->|Hne].
      * rewrite app_nth2 by lia. rewrite Nat.sub_diag. cbn [nth].
        apply build_one_ok; try assumption.
        rewrite Hcs, Hlen, nth_error_app2 by lia. now rewrite Nat.sub_diag.
      * rewrite app_nth1 by lia. apply Hok. lia.
Qed.

(* MAIN (classes): for every hierarchy whose parents come first, every class and every
   event number, the table built like ClassDef::BuildResponseList holds exactly the
   nearest declaring ancestor's entry. *)
Theorem build_table_is_nearest_declaring_ancestor :
  forall cs, wf_classes cs ->
  forall ci ev, nth ci (build_tables cs) tempty ev = spec_slot cs ci ev.
Proof.
  intros cs W ci ev. unfold spec_slot, build_tables.
  destruct (Nat.lt_ge_cases ci (length cs)) as [Hlt|Hge].
  - assert (Hok : tabs_ok cs (build_from [] cs)).
    { apply (build_from_ok cs W cs [] []); [reflexivity|reflexivity|].
      intros j Hj. cbn [length] in Hj. lia. }
    rewrite Hok by (rewrite build_from_length; cbn [length]; lia).
    symmetry. apply nearest_fuel; assumption.
  - rewrite nth_overflow by (rewrite build_from_length; cbn [length]; lia).
    assert (Hn : nth_error cs ci = None) by (apply nth_error_None; lia).
    destruct (length cs) as [|f]; [reflexivity|].
    cbn [nearest]. now rewrite Hn.
Qed.

(* the nearest declaring ancestor is a class of the receiver's chain that declares the
   event with a handler at that index (sanity of the specification itself) *)
Lemma last_decl_In rs ev : forall idx i b,
  last_decl rs ev idx = Some (i, b) ->
  idx <= i /\ nth_error rs (i - idx) = Some (ev, b).
Proof.
  induction rs as [|[e has] r IH]; intros idx i b H; cbn [last_decl] in H.
  - discriminate.
  - destruct (last_decl r ev (S idx)) as [[i' b']|] eqn:E.
    + inversion H; subst. apply IH in E. destruct E as [Hle Hn]. split; [lia|].
      replace (i - idx) with (S (i - S idx)) by lia. exact Hn.
    + destruct (N.eqb_spec e ev) as [->|]; [|discriminate].
      inversion H; subst. split; [lia|]. now rewrite Nat.sub_diag.
Qed.

Lemma nearest_declares cs ev : forall f ci c i,
  nearest cs f ci ev = Some (c, i) ->
  exists k, nth_error cs c = Some k /\ nth_error (c_resp k) i = Some (ev, true).
Proof.
  induction f as [|f IH]; intros ci c i H; cbn [nearest] in H; [discriminate|].
  destruct (nth_error cs ci) as [k|] eqn:Hk; [|discriminate].
  destruct (last_decl (c_resp k) ev 0) as [[idx [|]]|] eqn:E.
  - inversion H; subst. exists k. split; [exact Hk|].
    apply last_decl_In in E. destruct E as [_ E]. now rewrite Nat.sub_0_r in E.
  - discriminate.
  - destruct (c_parent k) as [p|]; [|discriminate]. eapply IH; eauto.
Qed.
