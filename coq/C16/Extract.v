(* C16/Extract.v - extraction of the model and the specification (ExtrOcamlBasic only). *)
Require Extraction.
Require Import ExtrOcamlBasic.
From Morfuse Require Import C16.Model C16.Spec.
Extraction "C16_model.ml" register prepare find_num find_event_info dispatch dispatch_return invoke
  firsts spec_numbers spec_count spec_slot spec_invoke_in spec_invoke_return_in.
