(* C16/Spec.v - the specification of command numbering and dispatch.

   Numbering.  A command is a (case-folded name, kind) pair.  [firsts ds] keeps of every
   command the FIRST declaration, in declaration order; the number of a command is its
   1-based position in that list (so numbers are 1..n without gaps, in first-occurrence
   order, and two declarations have the same number iff they declare the same command).
   The namespace of a command is the namespace of its first declaration.

   Dispatch.  [nearest]: walk the inheritance chain from the receiver's class upwards; in
   each class take the LAST declaration of the command; a declaration with a handler
   answers, a declaration without handler answers "unsupported" (it hides the ancestors),
   no declaration -> continue with the parent; none at all -> unsupported.

   [spec_invoke]: unknown command or filtered namespace -> NotFound (for every class);
   otherwise the nearest declaring ancestor decides. *)
From Coq Require Import List NArith Arith Bool.
From Morfuse Require Import C16.Model.
Import ListNotations.

Definition same_key (a b : decl) : bool :=
  name_ieqb (d_name a) (d_name b) && kind_eqb (d_kind a) (d_kind b).

Definition is_key (n : name) (k : kind) (d : decl) : bool :=
  name_ieqb (d_name d) n && kind_eqb (d_kind d) k.

Fixpoint firsts (ds : list decl) : list decl :=
  match ds with
  | [] => []
  | d :: r => d :: filter (fun x => negb (same_key d x)) (firsts r)
  end.

(* position (counted from i) and declaration of the command (n, k) *)
Fixpoint find_pos (fs : list decl) (n : name) (k : kind) (i : N) : option (N * decl) :=
  match fs with
  | [] => None
  | d :: r => if is_key n k d then Some (i, d) else find_pos r n k (N.succ i)
  end.

(* fs = firsts ds (computed once by the differential driver) *)
Definition spec_lookup_in (fs : list decl) (n : name) (k : kind) : option (N * decl) :=
  match k with
  | KNone => None                 (* "anything": not a kind a command can be invoked with *)
  | _ => find_pos fs n k 1%N
  end.

Definition spec_lookup (ds : list decl) (n : name) (k : kind) : option (N * decl) :=
  spec_lookup_in (firsts ds) n k.

Definition spec_number (ds : list decl) (n : name) (k : kind) : N :=
  match find_pos (firsts ds) n k 1%N with Some (i, _) => i | None => 0%N end.

Definition spec_numbers (ds : list decl) : list N :=
  map (fun d => spec_number ds (d_name d) (d_kind d)) ds.

Definition spec_count (ds : list decl) : N := N.of_nat (length (firsts ds)).

(* the last declaration of event ev in a response list: (index, has handler) *)
Fixpoint last_decl (rs : list (N * bool)) (ev : N) (idx : nat) : option (nat * bool) :=
  match rs with
  | [] => None
  | (e, has) :: r =>
      match last_decl r ev (S idx) with
      | Some x => Some x
      | None => if N.eqb e ev then Some (idx, has) else None
      end
  end.

Fixpoint nearest (cs : list cls) (fuel ci : nat) (ev : N) : slot :=
  match fuel with
  | 0 => None
  | S f =>
      match nth_error cs ci with
      | None => None
      | Some c =>
          match last_decl (c_resp c) ev 0 with
          | Some (idx, true) => Some (ci, idx)
          | Some (_, false) => None
          | None =>
              match c_parent c with
              | Some p => nearest cs f p ev
              | None => None
              end
          end
      end
  end.

(* every chain of a well-formed hierarchy is shorter than the class list *)
Definition spec_slot (cs : list cls) (ci : nat) (ev : N) : slot :=
  nearest cs (length cs) ci ev.

Definition spec_invoke_in (m : fmode) (filtered : list nat) (fs : list decl) (cs : list cls)
           (ci : nat) (n : name) (k : kind) : outcome :=
  match spec_lookup_in fs n k with
  | None => NotFound
  | Some (num, d) =>
      if ns_allowed m filtered (d_ns d)
      then match spec_slot cs ci num with
           | Some (c, i) => Handler c i
           | None => Unsupported
           end
      else NotFound
  end.

Definition spec_invoke (m : fmode) (filtered : list nat) (ds : list decl) (cs : list cls)
           (ci : nat) (n : name) (k : kind) : outcome :=
  spec_invoke_in m filtered (firsts ds) cs ci n k.

(* the value-returning entry point (Listener::ProcessEventReturn) does not reject: an
   unknown or unsupported command silently yields nothing *)
Definition spec_invoke_return_in (m : fmode) (filtered : list nat) (fs : list decl) (cs : list cls)
           (ci : nat) (n : name) (k : kind) : outcome :=
  match spec_lookup_in fs n k with
  | None => Silent
  | Some (num, d) =>
      if ns_allowed m filtered (d_ns d)
      then match spec_slot cs ci num with
           | Some (c, i) => Handler c i
           | None => Silent
           end
      else NotFound
  end.

Definition spec_invoke_return (m : fmode) (filtered : list nat) (ds : list decl) (cs : list cls)
           (ci : nat) (n : name) (k : kind) : outcome :=
  spec_invoke_return_in m filtered (firsts ds) cs ci n k.
