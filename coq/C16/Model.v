(* C16/Model.v - executable model of command registration and dispatch, as written in
   /repo/src/Script/Event.cpp        EventDef::GetNewAttributes
   /repo/src/Script/EventSystem.cpp  LoadEvents, GetEventDef, GetEventConstName,
                                     FindEventInfoChecked, FindEventInfo, Find*EventNum
   /repo/src/Script/ClassDef.cpp     ClassDef::BuildResponseList, GetResponse
   /repo/src/Script/ClassSystem.cpp  BuildEventResponses
   /repo/src/Script/NamespaceManager.cpp  IsNamespaceAllowed
   /repo/src/Script/Listener.cpp     ProcessScriptEvent, ProcessEvent, ProcessEventReturn

   What is modelled
   - a program run first constructs EventDef objects one after the other (static
     initialisation); [register] folds GetNewAttributes over that sequence of declarations:
     the list of definitions is searched from its head for an entry with the same name
     (str::icmp = 0) and the same kind; when one exists the new object copies its number and
     is NOT linked into the list; otherwise the object is linked at the HEAD (AddFirst) and
     gets ++defCount.
   - LoadEvents walks that list from the head: eventDefList[num-1] := e ([def_of_num], the
     last writer wins), eventDefName.addKeyIndex(name) ([add_event]: the arrayset is an
     insertion-ordered table, index = 1-based position, keys compared with str::icmp, the
     key stored is the first spelling added), commandList[index].<kind>Num := num (nothing
     for kind None).
   - BuildResponseList: the parent's table is built first and copied, then the class's own
     responses are applied in declaration order; a response with a handler stores (this
     class, index of the entry), a declared event with a null response clears the slot.
   - ProcessScriptEvent: number 0 -> EventNotFound; namespace of the EVENT definition
     (eventDefList[num-1]) not allowed by the filter -> EventNotFound; empty slot ->
     EventListenerFailed; else the handler stored in the slot runs.  ProcessEvent = the
     same, exceptions turned into [false].  ProcessEventReturn: number 0 and an empty slot
     return silently (no exception).

   What is abstracted
   - characters are their codes (N); str::icmp folds a..z to A..Z (as written); the arrayset's
     hash (::tolower based) is not modelled: it agrees with icmp on ASCII names, and the whole
     name table of the built binary is compared with [load_names] by Properties.v.
   - a response table is a total function event number -> slot; the C++ array has
     NumEventCommands() entries addressed 1-based through a decremented pointer; that every
     declared number lies in 1..NumEventCommands is checked for the built binary
     ([check_registry]) and proved for [register] (numbers_range).
   - classes are given in an order in which every class names its parent by an EARLIER
     position (the C++ recursion super->BuildResponseList with its "already built" test
     computes the same tables in any order of the class list; the generator sorts the dump
     topologically).  ClassDefExt is not modelled (unused in /repo).
   - namespace 0 = no namespace (NamespaceDef ids start at 1).
   - [Undefined]: GetEventDef returns null for a number > NumEventCommands and
     IsObjectInNamespaceAllowed dereferences it; never reached for numbers produced by the
     name table (invoke_never_undefined). *)
From Coq Require Import List NArith Arith Bool.
Import ListNotations.

(* ------------------------------------------------------------------ names and kinds *)
Definition name := list N.

Definition upper (c : N) : N :=
  if (N.leb 97 c && N.leb c 122)%bool then (c - 32)%N else c.

Definition fold_name (n : name) : name := map upper n.

Fixpoint name_eqb (a b : name) : bool :=
  match a, b with
  | [], [] => true
  | x :: a', y :: b' => N.eqb x y && name_eqb a' b'
  | _, _ => false
  end.

(* str::icmp a b = 0 *)
Definition name_ieqb (a b : name) : bool := name_eqb (fold_name a) (fold_name b).

Inductive kind := KNormal | KReturn | KGetter | KSetter | KNone.

Definition kind_eqb (a b : kind) : bool :=
  match a, b with
  | KNormal, KNormal | KReturn, KReturn | KGetter, KGetter | KSetter, KSetter | KNone, KNone => true
  | _, _ => false
  end.

(* ----------------------------------------------------- EventDef::GetNewAttributes *)
Record decl := mkDecl { d_name : name; d_kind : kind; d_ns : nat }.
Record edef := mkEdef { e_name : name; e_kind : kind; e_num : N; e_ns : nat }.

Definition same_event (n : name) (k : kind) (e : edef) : bool :=
  name_ieqb (e_name e) n && kind_eqb (e_kind e) k.

Fixpoint find_def (l : list edef) (n : name) (k : kind) : option edef :=
  match l with
  | [] => None
  | e :: r => if same_event n k e then Some e else find_def r n k
  end.

Record regstate := mkReg { r_list : list edef; r_count : N }.

Definition reg0 : regstate := mkReg [] 0%N.

(* the new state and the number stored in the constructed object *)
Definition register_one (st : regstate) (d : decl) : regstate * N :=
  match find_def (r_list st) (d_name d) (d_kind d) with
  | Some e => (st, e_num e)
  | None =>
      let c := N.succ (r_count st) in
      (mkReg (mkEdef (d_name d) (d_kind d) c (d_ns d) :: r_list st) c, c)
  end.

Fixpoint register_from (st : regstate) (ds : list decl) : regstate * list N :=
  match ds with
  | [] => (st, [])
  | d :: r =>
      let (st1, n) := register_one st d in
      let (st2, ns) := register_from st1 r in
      (st2, n :: ns)
  end.

Definition register (ds : list decl) : regstate * list N := register_from reg0 ds.

(* ------------------------------------------------------------ EventSystem::LoadEvents *)
Record info := mkInfo { i_normal : N; i_return : N; i_setter : N; i_getter : N }.
Definition info0 : info := mkInfo 0 0 0 0.

Definition set_info (i : info) (k : kind) (n : N) : info :=
  match k with
  | KNormal => mkInfo n (i_return i) (i_setter i) (i_getter i)
  | KReturn => mkInfo (i_normal i) n (i_setter i) (i_getter i)
  | KSetter => mkInfo (i_normal i) (i_return i) n (i_getter i)
  | KGetter => mkInfo (i_normal i) (i_return i) (i_setter i) n
  | KNone => i
  end.

Definition get_info (i : info) (k : kind) : N :=
  match k with
  | KNormal => i_normal i
  | KReturn => i_return i
  | KSetter => i_setter i
  | KGetter => i_getter i
  | KNone => 0%N
  end.

(* position p (0-based) = name index p+1 *)
Definition nametable := list (name * info).

Fixpoint add_event (t : nametable) (e : edef) : nametable :=
  match t with
  | [] => [(e_name e, set_info info0 (e_kind e) (e_num e))]
  | (m, i) :: r =>
      if name_ieqb m (e_name e) then (m, set_info i (e_kind e) (e_num e)) :: r
      else (m, i) :: add_event r e
  end.

Definition load_names (l : list edef) : nametable := fold_left add_event l [].

(* eventDefList after LoadEvents *)
Fixpoint def_of_num (l : list edef) (num : N) : option edef :=
  match l with
  | [] => None
  | e :: r =>
      match def_of_num r num with
      | Some x => Some x
      | None => if N.eqb (e_num e) num then Some e else None
      end
  end.

(* arrayset::findKeyIndex: 0 = absent *)
Fixpoint find_index_from (t : nametable) (n : name) (i : nat) : nat :=
  match t with
  | [] => 0
  | (m, _) :: r => if name_ieqb m n then i else find_index_from r n (S i)
  end.

Definition find_key_index (t : nametable) (n : name) : nat := find_index_from t n 1.

(* FindEventInfoChecked: commandList[idx]; entry 0 and the entries past the last name are
   the zero-initialised ones *)
Definition info_at (t : nametable) (idx : nat) : info :=
  match idx with
  | 0 => info0
  | S p => match nth_error t p with Some (_, i) => i | None => info0 end
  end.

(* FindEventInfo(eventName_t), as written: s > 0 && s < eventDefName.size() *)
Definition find_event_info (t : nametable) (idx : nat) : option info :=
  if (0 <? idx) && (idx <? length t) then Some (info_at t idx) else None.

(* Find<Kind>EventNum(const rawchar_t* name) *)
Definition find_num (t : nametable) (n : name) (k : kind) : N :=
  get_info (info_at t (find_key_index t n)) k.

(* Find<Kind>EventNum(eventName_t) *)
Definition find_num_by_index (t : nametable) (idx : nat) (k : kind) : N :=
  match find_event_info t idx with Some i => get_info i k | None => 0%N end.

(* --------------------------------------------------- ClassDef::BuildResponseList *)
Record cls := mkCls { c_parent : option nat; c_resp : list (N * bool) }.

(* (declaring class position, index of the ResponseDef in that class's list) *)
Definition slot := option (nat * nat).
Definition table := N -> slot.
Definition tempty : table := fun _ => None.
Definition tset (t : table) (ev : N) (v : slot) : table :=
  fun e => if N.eqb e ev then v else t e.

Fixpoint apply_resp (ci : nat) (rs : list (N * bool)) (idx : nat) (t : table) : table :=
  match rs with
  | [] => t
  | (ev, has) :: r =>
      apply_resp ci r (S idx) (tset t ev (if has then Some (ci, idx) else None))
  end.

Definition build_one (tabs : list table) (ci : nat) (c : cls) : table :=
  apply_resp ci (c_resp c) 0
    (match c_parent c with Some p => nth p tabs tempty | None => tempty end).

Fixpoint build_from (tabs : list table) (cs : list cls) : list table :=
  match cs with
  | [] => tabs
  | c :: r => build_from (tabs ++ [build_one tabs (length tabs) c]) r
  end.

Definition build_tables (cs : list cls) : list table := build_from [] cs.

(* ------------------------------------------------- NamespaceManager::IsNamespaceAllowed *)
Inductive fmode := FNone | FInclusive | FExclusive.

Definition ns_allowed (m : fmode) (filtered : list nat) (ns : nat) : bool :=
  match m with
  | FNone => true
  | FInclusive => (ns =? 0) || existsb (Nat.eqb ns) filtered
  | FExclusive => (ns =? 0) || negb (existsb (Nat.eqb ns) filtered)
  end.

(* ----------------------------------------------------------------- Listener dispatch *)
Inductive outcome :=
| NotFound                      (* ListenerErrors::EventNotFound *)
| Unsupported                   (* ListenerErrors::EventListenerFailed *)
| Handler (c : nat) (i : nat)   (* the handler of entry i of class c ran *)
| Silent                        (* ProcessEventReturn only: nothing ran, nothing thrown *)
| Undefined.                    (* null EventDef dereferenced *)

Record engine := mkEngine {
  g_defs : list edef;           (* the EventDef list, head first *)
  g_count : N;                  (* EventSystem::NumEventCommands *)
  g_names : nametable;
  g_tabs : list table }.

Definition prepare (ds : list decl) (cs : list cls) : engine :=
  let st := fst (register ds) in
  mkEngine (r_list st) (r_count st) (load_names (r_list st)) (build_tables cs).

(* Listener::ProcessScriptEvent on an instance of class ci *)
Definition dispatch (m : fmode) (filtered : list nat) (g : engine) (ci : nat) (ev : N) : outcome :=
  if N.eqb ev 0 then NotFound
  else if N.ltb (g_count g) ev then Undefined
  else match def_of_num (g_defs g) ev with
       | None => Undefined
       | Some d =>
           if negb (ns_allowed m filtered (e_ns d)) then NotFound
           else match nth ci (g_tabs g) tempty ev with
                | None => Unsupported
                | Some (c, i) => Handler c i
                end
       end.

(* Listener::ProcessEventReturn *)
Definition dispatch_return (m : fmode) (filtered : list nat) (g : engine) (ci : nat) (ev : N) : outcome :=
  if N.eqb ev 0 then Silent
  else if N.ltb (g_count g) ev then Undefined
  else match def_of_num (g_defs g) ev with
       | None => Undefined
       | Some d =>
           if negb (ns_allowed m filtered (e_ns d)) then NotFound
           else match nth ci (g_tabs g) tempty ev with
                | None => Silent
                | Some (c, i) => Handler c i
                end
       end.

(* resolve the command name like the compiler / a host (Find<Kind>EventNum(name)), then
   ProcessScriptEvent *)
Definition invoke (m : fmode) (filtered : list nat) (g : engine) (ci : nat) (n : name) (k : kind) : outcome :=
  dispatch m filtered g ci (find_num (g_names g) n k).
