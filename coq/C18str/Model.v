(* C18str/Model.v — executable model of mfuse::str = base_str<char>
   (src/Common/str.cpp, include/morfuse/Common/str.h) at the level of the code.

   Modelled: a heap of strdata records  id -> {refcount, alloced, len, bytes}  (the bytes
   are the characters that follow the header in the same allocation; their number is the
   size that was really allocated, which is NOT always the [alloced] field) and string
   variables  slot -> m_data (an id or null).
   - strdata(): refcount = alloced = len = 0; AddRef; DelRef (frees when refcount is 0).
   - EnsureAlloced(amount, keepold) with its early returns exactly as written: null m_data
     and amount > 0 -> fresh storage (alloced = amount, data[0] = 0); null and amount = 0
     -> m_data stays null; sole owner with amount <= alloced -> nothing; shared and
     amount < alloced -> amount = alloced; then the reallocation path, which constructs a
     new strdata, sets alloced = amount, with keepold copies len + 1 bytes (memcpy) and
     the old len, otherwise stores a 0 at the start, and DelRef()s the old storage.
   - EnsureDataWritable (m_data = nullptr; EnsureAlloced(len + 1, false); memcpy of
     len + 1 bytes; m_data->len = len; olddata->DelRef()).
   - operator=(const str&), the copy constructor (after the destructor of the slot),
     operator=(const char* ) with its "same pointer" punt, append(const char* ),
     append(char), append(const str&) with its self-append guard (a temporary copy of the
     string is appended) (the three operator+= call them), the non-const and
     const operator[], CapLength, operator-= (operator-- is -= 1), clear, tolower/toupper,
     resize, reserve, assign(text, n), length, c_str, operator==, cmp, icmp.
   - the C helpers copy / copyn / cat / len work on the raw bytes: a write beyond the
     allocation is [Crash Overflow] (the harness runs under AddressSanitizer), a member
     access through a null m_data is [Crash NullDeref].
   Abstracted: bytes are N (the harness uses 1..127, so char signedness and the C locale
   do not matter); sizes are nat (no size_t wrap-around); memory that malloc returns is
   filled with the byte '?' (63) - the harness installs an IMemoryManager that does the
   same, so reads of uninitialised bytes are deterministic and visible; ids are never
   reused, a freed id reads as [Crash Dangling]. *)
From Coq Require Import ZArith NArith List Bool Arith.
From Morfuse Require Import Base.Arr.
Import ListNotations.

Inductive crash := NullDeref | Overflow | Dangling.

Inductive outcome (A : Type) := Ok (a : A) | Crash (c : crash).
Arguments Ok {A} a.
Arguments Crash {A} c.

Definition bind {A B} (x : outcome A) (f : A -> outcome B) : outcome B :=
  match x with Ok a => f a | Crash c => Crash c end.

Notation "'do' x <- e ; f" := (bind e (fun x => f))
  (at level 200, x name, e at level 100, f at level 200, right associativity).

Record sdata := mkD {
  refc : nat;              (* strdata::refcount = number of owners - 1 *)
  alloced : nat;           (* strdata::alloced *)
  dlen : nat;              (* strdata::len *)
  buf : list N }.          (* data(): the bytes that were really allocated *)

Record st := mkSt {
  heap : arr (option sdata);     (* None = never allocated / freed *)
  vars : arr (option N);         (* string variable -> m_data *)
  nxt : N }.                     (* next fresh id *)

Definition init : st := mkSt (aempty None) (aempty None) 0%N.

Definition poison : N := 63%N.

(* ---- raw bytes ---------------------------------------------------------------------- *)

(* the C string that starts at the beginning of a buffer; None = no terminator inside *)
Fixpoint cstr (b : list N) : option (list N) :=
  match b with
  | [] => None
  | c :: r =>
      if N.eqb c 0 then Some []
      else match cstr r with Some l => Some (c :: l) | None => None end
  end.

(* a literal of the client, read as a C string *)
Fixpoint clit (l : list N) : list N :=
  match l with
  | [] => []
  | c :: r => if N.eqb c 0 then [] else c :: clit r
  end.

(* store the bytes l at offset off; None = a store beyond the allocation *)
Fixpoint write_at (b : list N) (off : nat) (l : list N) {struct b} : option (list N) :=
  match l with
  | [] => Some b
  | x :: l' =>
      match b with
      | [] => None
      | c :: r =>
          match off with
          | O => match write_at r O l' with Some r' => Some (x :: r') | None => None end
          | S o => match write_at r o l with Some r' => Some (c :: r') | None => None end
          end
      end
  end.

(* memcpy source: the first n bytes of a buffer; None = a read beyond the allocation *)
Definition read_n (b : list N) (n : nat) : option (list N) :=
  if Nat.leb n (length b) then Some (firstn n b) else None.

(* copy(b + dst, b + src) inside one buffer: the loop stores the byte it reads and
   stops after it has stored a 0 *)
Fixpoint copy_within (fuel : nat) (b : list N) (dst src : nat) : option (list N) :=
  match fuel with
  | O => None
  | S f =>
      match nth_error b src with
      | None => None
      | Some c =>
          match write_at b dst [c] with
          | None => None
          | Some b' => if N.eqb c 0 then Some b' else copy_within f b' (S dst) (S src)
          end
      end
  end.

Definition ov {A} (x : option A) : outcome A :=
  match x with Some a => Ok a | None => Crash Overflow end.

Definition lower (c : N) : N := if (N.leb 65 c && N.leb c 90)%bool then (c + 32)%N else c.
Definition upper (c : N) : N := if (N.leb 97 c && N.leb c 122)%bool then (c - 32)%N else c.

(* str::cmp on two C strings *)
Fixpoint cmp (a b : list N) : Z :=
  match a, b with
  | [], [] => 0%Z
  | [], _ :: _ => (-1)%Z
  | _ :: _, [] => 1%Z
  | x :: a', y :: b' =>
      if N.ltb x y then (-1)%Z else if N.ltb y x then 1%Z else cmp a' b'
  end.

(* str::icmp *)
Fixpoint icmp (a b : list N) : Z :=
  match a, b with
  | [], [] => 0%Z
  | [], _ :: _ => (-1)%Z
  | _ :: _, [] => 1%Z
  | x :: a', y :: b' =>
      if N.eqb x y then icmp a' b'
      else if N.ltb (upper x) (upper y) then (-1)%Z
      else if N.ltb (upper y) (upper x) then 1%Z
      else icmp a' b'
  end.

(* ---- heap primitives ---------------------------------------------------------------- *)

Definition set_var (s : st) (v : N) (p : option N) : st :=
  mkSt (heap s) (set (vars s) v p) (nxt s).

Definition upd (s : st) (id : N) (d : sdata) : st :=
  mkSt (set (heap s) id (Some d)) (vars s) (nxt s).

Definition deref (s : st) (id : N) : outcome sdata :=
  match get (heap s) id with Some d => Ok d | None => Crash Dangling end.

(* allocateMemory + placement new; the new id is [nxt s] *)
Definition new_data (s : st) (d : sdata) : st :=
  mkSt (set (heap s) (nxt s) (Some d)) (vars s) (N.succ (nxt s)).

Definition add_ref (s : st) (id : N) : outcome st :=
  do d <- deref s id;
  Ok (upd s id (mkD (S (refc d)) (alloced d) (dlen d) (buf d))).

Definition del_ref (s : st) (id : N) : outcome st :=
  do d <- deref s id;
  match refc d with
  | O => Ok (mkSt (set (heap s) id None) (vars s) (nxt s))          (* freeMemory(this) *)
  | S r => Ok (upd s id (mkD r (alloced d) (dlen d) (buf d)))
  end.

(* m_data of v must not be null here *)
Definition with_data {A} (s : st) (v : N) (k : N -> sdata -> outcome A) : outcome A :=
  match get (vars s) v with
  | None => Crash NullDeref
  | Some id => do d <- deref s id; k id d
  end.

Definition length_of (s : st) (v : N) : outcome nat :=
  match get (vars s) v with
  | None => Ok O
  | Some id => do d <- deref s id; Ok (dlen d)
  end.

Definition c_str_of (s : st) (v : N) : outcome (list N) :=
  match get (vars s) v with
  | None => Ok []
  | Some id => do d <- deref s id; ov (cstr (buf d))
  end.

(* ---- EnsureAlloced / EnsureDataWritable ---------------------------------------------- *)

Definition realloc (s : st) (v id : N) (d : sdata) (amount : nat) (keepold : bool) : outcome st :=
  do nb <- (if keepold
            then do src <- ov (read_n (buf d) (dlen d + 1));        (* memcpy of len + 1 bytes *)
                 ov (write_at (repeat poison amount) 0 src)
            else ov (write_at (repeat poison amount) 0 [0%N]));     (* newbuffer[0] = 0 *)
  (* newdata->alloced = amount; newdata->len = m_data->len when keepold *)
  let s1 := new_data s (mkD 0 amount (if keepold then dlen d else 0) nb) in
  do s2 <- del_ref s1 id;
  Ok (set_var s2 v (Some (nxt s))).

Definition ensure_alloced (s : st) (v : N) (amount : nat) (keepold : bool) : outcome st :=
  match get (vars s) v with
  | None =>
      if Nat.ltb 0 amount
      then Ok (set_var (new_data s (mkD 0 amount 0 (0%N :: repeat poison (amount - 1)))) v (Some (nxt s)))
      else Ok s
  | Some id =>
      do d <- deref s id;
      match refc d with
      | O => if Nat.leb amount (alloced d) then Ok s else realloc s v id d amount keepold
      | S _ => realloc s v id d (if Nat.ltb amount (alloced d) then alloced d else amount) keepold
      end
  end.

Definition ensure_writable (s : st) (v : N) : outcome st :=
  match get (vars s) v with
  | None => Ok s
  | Some old =>
      do d <- deref s old;
      match refc d with
      | O => Ok s
      | S _ =>
          let len := dlen d in
          do s1 <- ensure_alloced (set_var s v None) v (len + 1) false;
          with_data s1 v (fun nid nd =>
            do od <- deref s1 old;
            (* memcpy(m_data->data(), olddata->data(), len + 1) *)
            do src <- ov (read_n (buf od) (len + 1));
            do nb <- ov (write_at (buf nd) 0 src);
            del_ref (upd s1 nid (mkD (refc nd) (alloced nd) len nb)) old)
      end
  end.

(* ---- the public operations ------------------------------------------------------------ *)

(* append(const char* ) *)
Definition append_lit (s : st) (v : N) (lit : list N) : outcome st :=
  let t := clit lit in
  do len0 <- length_of s v;
  let len := len0 + length t in
  do s1 <- ensure_alloced s v (len + 1) true;
  with_data s1 v (fun id d =>
    do cur <- ov (cstr (buf d));                                   (* cat: dest + len(dest) *)
    do nb <- ov (write_at (buf d) (length cur) (t ++ [0%N]));
    Ok (upd s1 id (mkD (refc d) (alloced d) len nb))).

(* append(char) *)
Definition append_char (s : st) (v : N) (c : N) : outcome st :=
  if N.eqb c 0 then Ok s else
  do len <- length_of s v;
  do s1 <- ensure_alloced s v (len + 1 + 1) true;
  with_data s1 v (fun id d =>
    do nb <- ov (write_at (buf d) len [c; 0%N]);
    Ok (upd s1 id (mkD (refc d) (alloced d) (len + 1) nb))).

(* the body of append(const str& text) for a text other than the string itself: [lw] is
   text.length() (read before EnsureAlloced), [src] gives text.m_data when text.c_str() is
   read (after EnsureAlloced) *)
Definition append_src (s : st) (v : N) (lw : nat) (src : st -> option N) : outcome st :=
  do lv <- length_of s v;
  let len := lv + lw in
  do s1 <- ensure_alloced s v (len + 1) true;
  with_data s1 v (fun id d =>
    do cur <- ov (cstr (buf d));
    do nb <- match src s1 with
             | None => ov (write_at (buf d) (length cur) [0%N])
             | Some idw =>
                 if N.eqb idw id
                 then ov (copy_within (S (length (buf d))) (buf d) (length cur) 0)
                 else do dw <- deref s1 idw;
                      do t <- ov (cstr (buf dw));
                      ov (write_at (buf d) (length cur) (t ++ [0%N]))
             end;
    Ok (upd s1 id (mkD (refc d) (alloced d) len nb))).

(* append(const str&): if (&text == this) { const base_str self(text); append(self); return; } *)
Definition append_str (s : st) (v w : N) : outcome st :=
  if N.eqb v w then
    let p := get (vars s) v in                                      (* self.m_data *)
    do s0 <- match p with Some id => add_ref s id | None => Ok s end;
    do lw <- match p with Some id => do d <- deref s0 id; Ok (dlen d) | None => Ok O end;
    do s1 <- append_src s0 v lw (fun _ => p);
    match p with Some id => del_ref s1 id | None => Ok s1 end       (* ~self *)
  else
    do lw <- length_of s w;
    append_src s v lw (fun s1 => get (vars s1) w).

(* operator=(const str&) : AddRef first, then DelRef, then take the pointer *)
Definition assign_str (s : st) (v w : N) : outcome st :=
  do s1 <- match get (vars s) w with Some idw => add_ref s idw | None => Ok s end;
  do s2 <- match get (vars s1) v with Some idv => del_ref s1 idv | None => Ok s1 end;
  Ok (set_var s2 v (get (vars s2) w)).

(* clear() *)
Definition clear (s : st) (v : N) : outcome st :=
  match get (vars s) v with
  | None => Ok s
  | Some id => do s1 <- del_ref s id; Ok (set_var s1 v None)
  end.

(* ~str() on the slot, then the copy constructor from another slot *)
Definition ctor_copy (s : st) (v w : N) : outcome st :=
  if N.eqb v w then Ok s else
  do s1 <- clear s v;
  let s2 := set_var s1 v (get (vars s1) w) in
  match get (vars s2) v with
  | None => Ok s2
  | Some id => add_ref s2 id
  end.

(* operator=(const char* ) with a text that is not the string's own buffer *)
Definition set_text (s : st) (v : N) (t : list N) : outcome st :=
  do s1 <- clear s v;
  match t with
  | [] => Ok s1
  | _ => Ok (set_var (new_data s1 (mkD 0 (length t + 1) (length t) (t ++ [0%N]))) v (Some (nxt s1)))
  end.

(* v = w.c_str() : "copying same thing, punt" when both share the storage *)
Definition assign_cstr (s : st) (v w : N) : outcome st :=
  match get (vars s) w with
  | None => set_text s v []
  | Some idw =>
      let go := do dw <- deref s idw; do t <- ov (cstr (buf dw)); set_text s v t in
      match get (vars s) v with
      | Some idv => if N.eqb idv idw then Ok s else go
      | None => go
      end
  end.

(* v[i] = c through the non-const operator[] *)
Definition set_char (s : st) (v : N) (i : nat) (c : N) : outcome st :=
  do s1 <- ensure_writable s v;
  with_data s1 v (fun id d =>
    if Nat.leb (dlen d) i then Ok s1                                (* the static dummy *)
    else do nb <- ov (write_at (buf d) i [c]);
         Ok (upd s1 id (mkD (refc d) (alloced d) (dlen d) nb))).

(* the const operator[] *)
Definition get_char (s : st) (v : N) (i : nat) : outcome N :=
  match get (vars s) v with
  | None => Ok 0%N
  | Some id =>
      do d <- deref s id;
      if Nat.leb (dlen d) i then Ok 0%N else ov (nth_error (buf d) i)
  end.

Definition cap_length (s : st) (v : N) (n : nat) : outcome st :=
  do len <- length_of s v;
  if Nat.leb len n then Ok s else
  do s1 <- ensure_writable s v;
  with_data s1 v (fun id d =>
    do nb <- ov (write_at (buf d) n [0%N]);
    Ok (upd s1 id (mkD (refc d) (alloced d) n nb))).

(* operator-=(int c) *)
Definition minus (s : st) (v : N) (c : Z) : outcome st :=
  match get (vars s) v with
  | None => Ok s
  | Some id0 =>
      do d0 <- deref s id0;
      if (Nat.eqb (dlen d0) 0 || Z.leb c 0)%bool then Ok s else
      do s1 <- ensure_writable s v;
      with_data s1 v (fun id d =>
        let cn := Z.to_nat c in
        let nl := if Nat.leb (dlen d) cn then O else dlen d - cn in
        do nb <- ov (write_at (buf d) nl [0%N]);
        Ok (upd s1 id (mkD (refc d) (alloced d) nl nb)))
  end.

(* tolower() / toupper() *)
Definition map_case (f : N -> N) (s : st) (v : N) : outcome st :=
  do s1 <- ensure_writable s v;
  with_data s1 v (fun id d =>
    do cur <- ov (cstr (buf d));
    do nb <- ov (write_at (buf d) 0 (map f cur));
    Ok (upd s1 id (mkD (refc d) (alloced d) (dlen d) nb))).

Definition resize (s : st) (v : N) (n : nat) : outcome st :=
  do s1 <- ensure_alloced s v (n + 1) true;
  with_data s1 v (fun id d =>
    let start := dlen d in
    do nb <- ov (write_at (buf d) start (repeat 0%N (n + 1 - start)));
    do nb' <- ov (write_at nb n [0%N]);                             (* also when shrinking *)
    Ok (upd s1 id (mkD (refc d) (alloced d) n nb'))).

Definition reserve (s : st) (v : N) (n : nat) : outcome st :=
  ensure_alloced s v (n + 1) true.

(* assign(text, sz) with sz = the number of bytes given *)
Definition assign_n (s : st) (v : N) (bytes : list N) : outcome st :=
  let n := length bytes in
  do s1 <- ensure_alloced s v (n + 1) true;
  with_data s1 v (fun id d =>
    do nb <- ov (write_at (buf d) 0 (bytes ++ [0%N]));
    Ok (upd s1 id (mkD (refc d) (alloced d) n nb))).

(* ---- the client level ------------------------------------------------------------------ *)

Inductive op :=
| OSetLit (v : N) (lit : list N)        (* v = "lit" *)
| OCopy (v w : N)                       (* v = w *)
| OCtorCopy (v w : N)                   (* v.~str(); new (&v) str(w)   (v <> w) *)
| OAssignCstr (v w : N)                 (* v = w.c_str() *)
| OAppendLit (v : N) (lit : list N)     (* v.append("lit"), v += "lit", v += 'c' *)
| OAppendChar (v : N) (c : N)           (* v.append('c') *)
| OAppendStr (v w : N)                  (* v.append(w), v += w *)
| OSetChar (v : N) (i : nat) (c : N)    (* v[i] = c *)
| OGetChar (v : N) (i : nat)            (* ((const str&)v)[i] *)
| OCap (v : N) (n : nat)                (* v.CapLength(n) *)
| OMinus (v : N) (c : Z)                (* v -= c ; v-- is v -= 1 *)
| OClear (v : N)
| OLower (v : N)
| OUpper (v : N)
| OCmp (v w : N)                        (* v == w, str::cmp, v.icmp(w) *)
| OResize (v : N) (n : nat)
| OReserve (v : N) (n : nat)
| OAssignN (v : N) (bytes : list N).    (* v.assign(bytes, |bytes|) *)

Inductive ret :=
| RNone
| RChar (c : N)
| RCmp (eq : bool) (c : Z) (ic : Z).

Definition nores (x : outcome st) : outcome (st * ret) :=
  do s <- x; Ok (s, RNone).

Definition step (s : st) (o : op) : outcome (st * ret) :=
  match o with
  | OSetLit v lit => nores (set_text s v (clit lit))
  | OCopy v w => nores (assign_str s v w)
  | OCtorCopy v w => nores (ctor_copy s v w)
  | OAssignCstr v w => nores (assign_cstr s v w)
  | OAppendLit v lit => nores (append_lit s v lit)
  | OAppendChar v c => nores (append_char s v c)
  | OAppendStr v w => nores (append_str s v w)
  | OSetChar v i c => nores (set_char s v i c)
  | OGetChar v i => do c <- get_char s v i; Ok (s, RChar c)
  | OCap v n => nores (cap_length s v n)
  | OMinus v c => nores (minus s v c)
  | OClear v => nores (clear s v)
  | OLower v => nores (map_case lower s v)
  | OUpper v => nores (map_case upper s v)
  | OCmp v w =>
      do a <- c_str_of s v;
      do b <- c_str_of s w;
      Ok (s, RCmp (Z.eqb (cmp a b) 0) (cmp a b) (icmp a b))
  | OResize v n => nores (resize s v n)
  | OReserve v n => nores (reserve s v n)
  | OAssignN v bytes => nores (assign_n s v bytes)
  end.

(* ---- observation: for every variable 0..nv-1 its c_str() and its length() ------------- *)
Definition obs := (ret * list (list N * nat))%type.

Fixpoint observe_vars (s : st) (vs : list nat) : outcome (list (list N * nat)) :=
  match vs with
  | [] => Ok []
  | v :: r =>
      do t <- c_str_of s (N.of_nat v);
      do n <- length_of s (N.of_nat v);
      do rest <- observe_vars s r;
      Ok ((t, n) :: rest)
  end.

Definition observe (nv : nat) (s : st) : outcome (list (list N * nat)) :=
  observe_vars s (seq 0 nv).

(* the run stops at the first crash *)
Fixpoint run_from (nv : nat) (s : st) (ops : list op) : list (outcome obs) :=
  match ops with
  | [] => []
  | o :: ops' =>
      match step s o with
      | Crash c => [Crash c]
      | Ok (s', r) =>
          match observe nv s' with
          | Crash c => [Crash c]
          | Ok l => Ok (r, l) :: run_from nv s' ops'
          end
      end
  end.

Definition run (nv : nat) (ops : list op) : list (outcome obs) := run_from nv init ops.
