(* C18str/ProofsLib.v — facts about the raw-byte functions of the model:
   cstr / clit / write_at on buffers of the shape  text ++ 0 :: rest. *)
From Coq Require Import ZArith NArith List Bool Arith Lia.
From Morfuse Require Import Base.Arr C18str.Model C18str.Spec.
Import ListNotations.

Definition nz (l : list N) : Prop := Forall (fun c => c <> 0%N) l.

Lemma nz_nil : nz [].
Proof. constructor. Qed.

Lemma nz_app l1 l2 : nz l1 -> nz l2 -> nz (l1 ++ l2).
Proof. intros H1 H2. apply Forall_app. now split. Qed.

Lemma nz_firstn n l : nz l -> nz (firstn n l).
Proof.
  revert n. induction l as [|x l IH]; intros [|n] H; cbn; try constructor.
  - inversion H; assumption.
  - inversion H; subst. now apply IH.
Qed.

Lemma nz_map f l : (forall c, c <> 0%N -> f c <> 0%N) -> nz l -> nz (map f l).
Proof.
  intros Hf H. induction H as [|x l Hx Hl IH]; cbn; constructor; auto.
Qed.

Lemma lower_nz c : c <> 0%N -> lower c <> 0%N.
Proof.
  intro H. unfold lower.
  destruct (N.leb_spec 65 c) as [H1|H1]; cbn [andb]; [|exact H].
  destruct (N.leb_spec c 90) as [H2|H2]; [lia|exact H].
Qed.

Lemma upper_nz c : c <> 0%N -> upper c <> 0%N.
Proof.
  intro H. unfold upper.
  destruct (N.leb_spec 97 c) as [H1|H1]; cbn [andb]; [|exact H].
  destruct (N.leb_spec c 122) as [H2|H2]; [lia|exact H].
Qed.

Lemma cstr_app l r : nz l -> cstr (l ++ 0%N :: r) = Some l.
Proof.
  intro H. induction H as [|x l Hx Hl IH]; cbn.
  - reflexivity.
  - destruct (N.eqb_spec x 0) as [E|E]; [contradiction|]. now rewrite IH.
Qed.

Lemma clit_nz l : nz l -> clit l = l.
Proof.
  intro H. induction H as [|x l Hx Hl IH]; cbn; [reflexivity|].
  destruct (N.eqb_spec x 0) as [E|E]; [contradiction|]. now rewrite IH.
Qed.

Lemma nz_clit l : nz (clit l).
Proof.
  induction l as [|x l IH]; cbn; [constructor|].
  destruct (N.eqb_spec x 0) as [E|E]; [constructor|]. constructor; assumption.
Qed.

Lemma write_at_nil b off : write_at b off [] = Some b.
Proof. destruct b; reflexivity. Qed.

Lemma write_at_length b : forall off l b', write_at b off l = Some b' -> length b' = length b.
Proof.
  induction b as [|c r IH]; intros off l b' H.
  - destruct l; cbn in H; [now inversion H|discriminate].
  - destruct l as [|x l']; [cbn in H; now inversion H|].
    cbn in H. destruct off as [|o].
    + destruct (write_at r 0 l') as [r'|] eqn:E; [|discriminate].
      inversion H; subst. cbn. f_equal. eapply IH; eauto.
    + destruct (write_at r o (x :: l')) as [r'|] eqn:E; [|discriminate].
      inversion H; subst. cbn. f_equal. eapply IH; eauto.
Qed.

(* a store that fits: the prefix and what follows the stored run are kept *)
Lemma write_at_0 l : forall q, length l <= length q -> write_at q 0 l = Some (l ++ skipn (length l) q).
Proof.
  induction l as [|x l IH]; intros q H.
  - cbn. apply write_at_nil.
  - destruct q as [|c r]; [cbn in H; lia|]. cbn in H. cbn.
    rewrite IH by lia. reflexivity.
Qed.

Lemma write_at_app p : forall q l, length l <= length q ->
  write_at (p ++ q) (length p) l = Some (p ++ l ++ skipn (length l) q).
Proof.
  induction p as [|c p IH]; intros q l H.
  - cbn [app length]. now apply write_at_0.
  - destruct l as [|x l'].
    + cbn. reflexivity.
    + cbn [app length]. cbn [write_at]. rewrite IH by assumption. reflexivity.
Qed.

Lemma set_nth_length l : forall i c, length (set_nth l i c) = length l.
Proof.
  induction l as [|x l IH]; intros [|i] c; cbn; auto.
Qed.

Lemma set_nth_oob l : forall i c, length l <= i -> set_nth l i c = l.
Proof.
  induction l as [|x l IH]; intros [|i] c H; cbn in *; auto; try lia.
  f_equal. apply IH. lia.
Qed.

Lemma set_nth_split l : forall i c, i < length l -> set_nth l i c = firstn i l ++ c :: skipn (S i) l.
Proof.
  induction l as [|x l IH]; intros [|i] c H; cbn in *; try lia; auto.
  f_equal. apply IH. lia.
Qed.

Lemma nz_set_nth l i c : c <> 0%N -> nz l -> nz (set_nth l i c).
Proof.
  intros Hc H. revert i. induction H as [|x l Hx Hl IH]; intros [|i]; cbn; constructor; auto; apply IH.
Qed.

Lemma write_at_set_nth l : forall q i c, i < length l ->
  write_at (l ++ q) i [c] = Some (set_nth l i c ++ q).
Proof.
  induction l as [|x l IH]; intros q [|i] c H; cbn in H; try lia.
  - cbn. rewrite write_at_nil. reflexivity.
  - cbn [app set_nth]. cbn [write_at]. rewrite IH by lia. reflexivity.
Qed.

Lemma nth_error_text l r i : i < length l -> nth_error (l ++ 0%N :: r) i = Some (nth i l 0%N).
Proof.
  intro H. rewrite nth_error_app1 by assumption. now apply nth_error_nth'.
Qed.

Lemma firstn_snoc_all (l : list N) n : length l < n -> firstn n (l ++ [0%N]) = l ++ [0%N].
Proof. intro H. apply firstn_all2. rewrite app_length. cbn. lia. Qed.

Lemma repeat_split (x : N) n k : k <= n -> repeat x n = repeat x k ++ repeat x (n - k).
Proof. intro H. rewrite <- repeat_app. f_equal. lia. Qed.

(* ---- buffers whose text may hold 0 bytes ------------------------------------------------- *)

Lemma cstr_clit l r : cstr (l ++ 0%N :: r) = Some (clit l).
Proof.
  induction l as [|x l IH]; cbn; [reflexivity|].
  destruct (N.eqb_spec x 0) as [E|E]; [reflexivity|]. now rewrite IH.
Qed.

Lemma clit_length l : length (clit l) <= length l.
Proof.
  induction l as [|x l IH]; cbn; [lia|].
  destruct (N.eqb x 0); cbn; lia.
Qed.

Lemma nonul_nz l : nonul l = true -> nz l.
Proof.
  unfold nonul. intro H. rewrite forallb_forall in H. apply Forall_forall.
  intros x Hx. specialize (H x Hx). apply negb_true_iff in H. now apply N.eqb_neq.
Qed.

Lemma nz_repeat_free (l : list N) : nz l -> clit l = l.
Proof. apply clit_nz. Qed.

Lemma app_inv_len (l1 l2 r1 r2 : list N) :
  l1 ++ r1 = l2 ++ r2 -> length l1 = length l2 -> l1 = l2.
Proof.
  revert l2. induction l1 as [|x l1 IH]; intros [|y l2] H Hl; cbn in *; try lia; [reflexivity|].
  inversion H; subst. f_equal. apply IH; [assumption|lia].
Qed.

Lemma read_n_text l r : read_n (l ++ 0%N :: r) (length l + 1) = Some (l ++ [0%N]).
Proof.
  unfold read_n. rewrite app_length. cbn [length].
  destruct (Nat.leb_spec (length l + 1) (length l + S (length r))) as [_|H]; [|lia].
  f_equal. replace (length l + 1) with (length l + 1 + 0) by lia.
  replace (l ++ 0%N :: r) with ((l ++ [0%N]) ++ r) by (rewrite <- app_assoc; reflexivity).
  replace (length l + 1 + 0) with (length (l ++ [0%N]) + 0) by (rewrite app_length; cbn; lia).
  rewrite firstn_app_2. cbn. now rewrite app_nil_r.
Qed.
