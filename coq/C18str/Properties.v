(* C18str/Properties.v — the property theorems of unit C18str (mfuse::str), and nothing else.
   Every theorem is closed by [exact <lemma>] and followed by Print Assumptions. *)
From Coq Require Import ZArith NArith List Bool.
From Morfuse Require Import Base.Arr C18str.Model C18str.Spec C18str.Proofs.
Import ListNotations.

(* The full statement
     forall nv ops, run nv ops = map Ok (spec_run nv ops)
   ("after every operation every variable shows exactly the text and the length of an
   independent byte string") needs preconditions: see the ..._refuted theorems below.  It
   holds for EVERY history in the alphabet Spec.pre - the whole alphabet (assignment of a
   literal, copy assignment, copy construction, v = w.c_str(), the three appends including
   a.append(a) and the append of nothing to an empty string, operator[] read and write,
   CapLength, -=, clear, tolower/toupper, resize, reserve, assign(text, n), ==/cmp/icmp) under
   the genuine preconditions only: variables among the nv slots; the non-const operator[]
   (with a non-zero byte), tolower and toupper on strings that have storage (the code
   asserts m_data); the operations with C-string semantics (append of a text, v = w.c_str(),
   tolower/toupper) on strings without 0 bytes (a string holds 0 bytes only after a growing
   resize() until they are overwritten or the string is given a new value).  For such histories the model
   of the reference-counted storage (EnsureAlloced with all its early returns and its
   reallocation path, EnsureDataWritable, AddRef/DelRef, the raw copy/cat/copyn loops, the
   temporary of a self-append) never crashes (no null m_data dereference, no store beyond
   an allocation, no read of a byte it did not write) and after every operation shows, for
   every variable, the c_str() and the length() of the specification's byte string, and
   returns its operator[] / == / cmp / icmp results.  Since the specification changes only
   the variable an operation names, strings that share storage never observe each other's
   modifications. *)
Theorem C18str_refines_bytes_on_safe_alphabet :
  forall (nv : nat) (ops : list op),
    safe nv ops = true -> run nv ops = map Ok (spec_run nv ops).
Proof. exact run_refines_spec. Qed.
Print Assumptions C18str_refines_bytes_on_safe_alphabet.

(* the specification: an operation changes at most the variable it names *)
Theorem C18str_spec_changes_only_the_target :
  forall (a : abs) (o : op) (u : N),
    target o <> Some u -> get (fst (spec_step a o)) u = get a u.
Proof. exact spec_frame. Qed.
Print Assumptions C18str_spec_changes_only_the_target.

(* ---- why the preconditions are needed (each history behaves on the real code as in the
   model: props/C18str.py re-runs them on every check) --------------------------------- *)
Theorem C18str_full_alphabet_refuted :
  exists nv ops, run nv ops <> map Ok (spec_run nv ops).
Proof. exact full_alphabet_refuted. Qed.
Print Assumptions C18str_full_alphabet_refuted.

(* the code's asserted precondition m_data != null *)
Theorem C18str_tolower_without_storage_refuted :
  run 1 [OLower 0] <> map Ok (spec_run 1 [OLower 0]).
Proof. exact tolower_null_differs. Qed.
Print Assumptions C18str_tolower_without_storage_refuted.

Theorem C18str_index_without_storage_refuted :
  run 1 [OSetChar 0 0 65] <> map Ok (spec_run 1 [OSetChar 0 0 65]).
Proof. exact index_null_differs. Qed.
Print Assumptions C18str_index_without_storage_refuted.

(* strings that hold 0 bytes after a growing resize: append of a text and v = v.c_str() have
   C-string semantics *)
Theorem C18str_append_after_resize_refuted :
  run 1 [OResize 0 8; OAppendLit 0 [88; 89]%N] <> map Ok (spec_run 1 [OResize 0 8; OAppendLit 0 [88; 89]%N]).
Proof. exact append_after_resize_differs. Qed.
Print Assumptions C18str_append_after_resize_refuted.

Theorem C18str_assign_own_cstr_after_resize_refuted :
  run 1 [OSetLit 0 hello; OResize 0 8; OAssignCstr 0 0] <>
  map Ok (spec_run 1 [OSetLit 0 hello; OResize 0 8; OAssignCstr 0 0]).
Proof. exact assign_own_cstr_after_resize_differs. Qed.
Print Assumptions C18str_assign_own_cstr_after_resize_refuted.

(* ---- regressions: the fourteen histories that were refuted before the fixes 913439b, b034b9f,
   d63a379, c0a3b58, ba5c363 are now inside the alphabet of the theorem ---------------------- *)
Example C18str_regression_histories_are_safe :
  forallb (fun c => safe (fst c) (snd c))
    [(1, [OSetLit 0 hello; OResize 0 8]);
     (1, [OSetLit 0 hello; OResize 0 3]);
     (1, [OResize 0 0]);
     (1, [OSetLit 0 hello; OReserve 0 20]);
     (1, [OSetLit 0 hello; OReserve 0 20; OAppendLit 0 [88%N]]);
     (1, [OAssignN 0 []]);
     (1, [OSetLit 0 [104; 105]%N; OAppendLit 0 hello_world; OAssignN 0 [120%N]]);
     (1, [OAppendLit 0 []]);
     (2, [OAppendStr 0 1]);
     (1, [OSetLit 0 [97; 98]%N; OAppendStr 0 0]);
     (2, [OSetLit 0 abc; OMinus 0 3; OCopy 1 0; OSetChar 0 0 65]);
     (2, [OSetLit 0 abc; OCap 0 0; OCopy 1 0; OLower 0]);
     (1, [OResize 0 3; OReserve 0 20; OSetChar 0 0 65]);
     (2, [OResize 0 3; OCopy 1 0; OSetChar 0 1 66; OSetChar 0 0 65])] = true.
Proof. vm_compute. reflexivity. Qed.

Example C18str_resize_grow_now :
  run 1 [OSetLit 0 hello; OResize 0 8; OSetChar 0 6 33; OSetChar 0 5 32] =
  [Ok (RNone, [(hello, 5)]); Ok (RNone, [(hello, 8)]); Ok (RNone, [(hello, 8)]);
   Ok (RNone, [([104; 101; 108; 108; 111; 32; 33]%N, 8)])].
Proof. vm_compute. reflexivity. Qed.

Example C18str_resize_shrink_now :
  run 1 [OSetLit 0 hello; OResize 0 3] = [Ok (RNone, [(hello, 5)]); Ok (RNone, [([104; 101; 108]%N, 3)])].
Proof. vm_compute. reflexivity. Qed.

Example C18str_reserve_then_append_now :
  run 1 [OSetLit 0 hello; OReserve 0 20; OAppendLit 0 [88%N]] =
  [Ok (RNone, [(hello, 5)]); Ok (RNone, [(hello, 5)]); Ok (RNone, [([104; 101; 108; 108; 111; 88]%N, 6)])].
Proof. vm_compute. reflexivity. Qed.

Example C18str_self_append_now :
  run 1 [OSetLit 0 [97; 98]%N; OAppendStr 0 0] =
  [Ok (RNone, [([97; 98]%N, 2)]); Ok (RNone, [([97; 98; 97; 98]%N, 4)])].
Proof. vm_compute. reflexivity. Qed.

Example C18str_empty_cases_now :
  run 2 [OAppendLit 0 []; OAppendStr 1 1; OResize 1 0; OAssignN 0 []; OLower 0; OSetChar 1 0 65] =
  [Ok (RNone, [([], 0); ([], 0)]); Ok (RNone, [([], 0); ([], 0)]); Ok (RNone, [([], 0); ([], 0)]);
   Ok (RNone, [([], 0); ([], 0)]); Ok (RNone, [([], 0); ([], 0)]); Ok (RNone, [([], 0); ([], 0)])].
Proof. vm_compute. reflexivity. Qed.

(* ---- non-vacuity: concrete histories ------------------------------------------------------ *)

(* a history of the alphabet in which three variables share storage and then diverge:
   v0 = "abc"; v1 = v0; copy-construct v2 from v1; v1[0] = 'X' (copy on write); v2.append('!');
   v0.tolower() on "abc" (v0 is the last owner of the original storage); v1.append(v2);
   v0.CapLength(1); v2 -= 2; compare v0 with v1; read v1[3] *)
Example C18str_history_is_safe :
  safe 3 [OSetLit 0 abc; OCopy 1 0; OCtorCopy 2 1; OSetChar 1 0 88; OAppendChar 2 33; OLower 0;
          OAppendStr 1 2; OCap 0 1; OMinus 2 2; OCmp 0 1; OGetChar 1 3] = true.
Proof. vm_compute. reflexivity. Qed.

Example C18str_model_history :
  run 3 [OSetLit 0 abc; OCopy 1 0; OCtorCopy 2 1; OSetChar 1 0 88; OAppendChar 2 33; OLower 0;
         OAppendStr 1 2; OCap 0 1; OMinus 2 2; OCmp 0 1; OGetChar 1 3] =
  [Ok (RNone, [(abc, 3); ([], 0); ([], 0)]);
   Ok (RNone, [(abc, 3); (abc, 3); ([], 0)]);
   Ok (RNone, [(abc, 3); (abc, 3); (abc, 3)]);
   Ok (RNone, [(abc, 3); ([88; 98; 99]%N, 3); (abc, 3)]);
   Ok (RNone, [(abc, 3); ([88; 98; 99]%N, 3); ([97; 98; 99; 33]%N, 4)]);
   Ok (RNone, [(abc, 3); ([88; 98; 99]%N, 3); ([97; 98; 99; 33]%N, 4)]);
   Ok (RNone, [(abc, 3); ([88; 98; 99; 97; 98; 99; 33]%N, 7); ([97; 98; 99; 33]%N, 4)]);
   Ok (RNone, [([97]%N, 1); ([88; 98; 99; 97; 98; 99; 33]%N, 7); ([97; 98; 99; 33]%N, 4)]);
   Ok (RNone, [([97]%N, 1); ([88; 98; 99; 97; 98; 99; 33]%N, 7); ([97; 98]%N, 2)]);
   Ok (RCmp false 1%Z (-1)%Z, [([97]%N, 1); ([88; 98; 99; 97; 98; 99; 33]%N, 7); ([97; 98]%N, 2)]);
   Ok (RChar 97, [([97]%N, 1); ([88; 98; 99; 97; 98; 99; 33]%N, 7); ([97; 98]%N, 2)])].
Proof. vm_compute. reflexivity. Qed.

(* resize, then a reallocation / an unshare, then fill through operator[]: the bytes behind
   the first 0 are kept (ba5c363) *)
Example C18str_realloc_after_resize_now :
  run 1 [OResize 0 3; OReserve 0 20; OSetChar 0 1 66; OSetChar 0 0 65] =
  [Ok (RNone, [([], 3)]); Ok (RNone, [([], 3)]); Ok (RNone, [([], 3)]); Ok (RNone, [([65; 66]%N, 3)])].
Proof. vm_compute. reflexivity. Qed.

Example C18str_unshare_after_resize_now :
  run 2 [OResize 0 3; OCopy 1 0; OSetChar 0 1 66; OSetChar 0 0 65] =
  [Ok (RNone, [([], 3); ([], 0)]); Ok (RNone, [([], 3); ([], 3)]);
   Ok (RNone, [([], 3); ([], 3)]); Ok (RNone, [([65; 66]%N, 3); ([], 3)])].
Proof. vm_compute. reflexivity. Qed.

(* what remains a precondition: append continues at the first 0 byte *)
Example C18str_append_after_resize_in_the_model :
  run 1 [OResize 0 8; OAppendLit 0 [88; 89]%N] = [Ok (RNone, [([], 8)]); Ok (RNone, [([88; 89]%N, 10)])].
Proof. vm_compute. reflexivity. Qed.

Example C18str_append_after_resize_in_the_spec :
  spec_run 1 [OResize 0 8; OAppendLit 0 [88; 89]%N] = [(RNone, [([], 8)]); (RNone, [([], 10)])].
Proof. vm_compute. reflexivity. Qed.
