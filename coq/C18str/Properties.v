(* C18str/Properties.v — the property theorems of unit C18str (mfuse::str), and nothing else.
   Every theorem is closed by [exact <lemma>] and followed by Print Assumptions. *)
From Coq Require Import ZArith NArith List Bool.
From Morfuse Require Import Base.Arr C18str.Model C18str.Spec C18str.Proofs.
Import ListNotations.

(* The full statement
     forall nv ops, run nv ops = map Ok (spec_run nv ops)
   ("after every operation every variable shows exactly the text and the length of an
   independent byte string") is FALSE of the faithful model, because the code is wrong for
   part of the alphabet: see the ..._refuted theorems below.  It holds for EVERY history in
   the alphabet Spec.pre (a condition on the abstract values only): all variables among the
   nv slots; no resize / reserve / assign(text, n); no a.append(a); no append of nothing to
   an empty string; the non-const operator[] (with a non-zero byte), tolower and toupper on
   non-empty strings only.  For such histories the model of the reference-counted storage
   (EnsureAlloced with all its early returns and its reallocation path that leaves alloced
   and len at 0, EnsureDataWritable, AddRef/DelRef, the raw copy/cat/copyn loops) never
   crashes (no null m_data dereference, no store beyond an allocation) and after every
   operation shows, for every variable, the c_str() and the length() of the specification's
   byte string, and returns its operator[] / == / cmp / icmp results.  Since the
   specification changes only the variable an operation names, strings that share storage
   never observe each other's modifications. *)
Theorem C18str_refines_bytes_on_safe_alphabet :
  forall (nv : nat) (ops : list op),
    safe nv ops = true -> run nv ops = map Ok (spec_run nv ops).
Proof. exact run_refines_spec. Qed.
Print Assumptions C18str_refines_bytes_on_safe_alphabet.

(* the specification: an operation changes at most the variable it names *)
Theorem C18str_spec_changes_only_the_target :
  forall (a : abs) (o : op) (u : N),
    target o <> Some u -> get (fst (spec_step a o)) u = get a u.
Proof. exact spec_frame. Qed.
Print Assumptions C18str_spec_changes_only_the_target.

(* ---- the refuted part of the alphabet (each history behaves on the real code as in the
   model: props/C18str.py re-runs them on every check) --------------------------------- *)
Theorem C18str_full_alphabet_refuted :
  exists nv ops, run nv ops <> map Ok (spec_run nv ops).
Proof. exact full_alphabet_refuted. Qed.
Print Assumptions C18str_full_alphabet_refuted.

Theorem C18str_resize_grow_refuted :
  run 1 [OSetLit 0 hello; OResize 0 8] <> map Ok (spec_run 1 [OSetLit 0 hello; OResize 0 8]).
Proof. exact resize_grow_differs. Qed.
Print Assumptions C18str_resize_grow_refuted.

Theorem C18str_resize_shrink_refuted :
  run 1 [OSetLit 0 hello; OResize 0 3] <> map Ok (spec_run 1 [OSetLit 0 hello; OResize 0 3]).
Proof. exact resize_shrink_differs. Qed.
Print Assumptions C18str_resize_shrink_refuted.

Theorem C18str_resize_null_refuted :
  run 1 [OResize 0 0] <> map Ok (spec_run 1 [OResize 0 0]).
Proof. exact resize_null_differs. Qed.
Print Assumptions C18str_resize_null_refuted.

Theorem C18str_reserve_refuted :
  run 1 [OSetLit 0 hello; OReserve 0 20] <> map Ok (spec_run 1 [OSetLit 0 hello; OReserve 0 20]).
Proof. exact reserve_differs. Qed.
Print Assumptions C18str_reserve_refuted.

Theorem C18str_reserve_then_append_refuted :
  run 1 [OSetLit 0 hello; OReserve 0 20; OAppendLit 0 [88%N]] <>
  map Ok (spec_run 1 [OSetLit 0 hello; OReserve 0 20; OAppendLit 0 [88%N]]).
Proof. exact reserve_append_differs. Qed.
Print Assumptions C18str_reserve_then_append_refuted.

Theorem C18str_assign_null_refuted :
  run 1 [OAssignN 0 []] <> map Ok (spec_run 1 [OAssignN 0 []]).
Proof. exact assign_null_differs. Qed.
Print Assumptions C18str_assign_null_refuted.

Theorem C18str_assign_after_growth_refuted :
  run 1 [OSetLit 0 [104; 105]%N; OAppendLit 0 hello_world; OAssignN 0 [120%N]] <>
  map Ok (spec_run 1 [OSetLit 0 [104; 105]%N; OAppendLit 0 hello_world; OAssignN 0 [120%N]]).
Proof. exact assign_after_growth_differs. Qed.
Print Assumptions C18str_assign_after_growth_refuted.

Theorem C18str_append_empty_to_empty_refuted :
  run 1 [OAppendLit 0 []] <> map Ok (spec_run 1 [OAppendLit 0 []]).
Proof. exact append_empty_differs. Qed.
Print Assumptions C18str_append_empty_to_empty_refuted.

Theorem C18str_append_str_empty_to_empty_refuted :
  run 2 [OAppendStr 0 1] <> map Ok (spec_run 2 [OAppendStr 0 1]).
Proof. exact append_str_empty_differs. Qed.
Print Assumptions C18str_append_str_empty_to_empty_refuted.

Theorem C18str_self_append_refuted :
  run 1 [OSetLit 0 [97; 98]%N; OAppendStr 0 0] <>
  map Ok (spec_run 1 [OSetLit 0 [97; 98]%N; OAppendStr 0 0]).
Proof. exact self_append_differs. Qed.
Print Assumptions C18str_self_append_refuted.

Theorem C18str_index_on_shared_empty_refuted :
  run 2 [OSetLit 0 abc; OMinus 0 3; OCopy 1 0; OSetChar 0 0 65] <>
  map Ok (spec_run 2 [OSetLit 0 abc; OMinus 0 3; OCopy 1 0; OSetChar 0 0 65]).
Proof. exact index_shared_empty_differs. Qed.
Print Assumptions C18str_index_on_shared_empty_refuted.

Theorem C18str_tolower_on_shared_empty_refuted :
  run 2 [OSetLit 0 abc; OCap 0 0; OCopy 1 0; OLower 0] <>
  map Ok (spec_run 2 [OSetLit 0 abc; OCap 0 0; OCopy 1 0; OLower 0]).
Proof. exact tolower_shared_empty_differs. Qed.
Print Assumptions C18str_tolower_on_shared_empty_refuted.

(* ---- non-vacuity: concrete histories ------------------------------------------------------ *)

(* a history of the alphabet in which three variables share storage and then diverge:
   v0 = "abc"; v1 = v0; copy-construct v2 from v1; v1[0] = 'X' (copy on write); v2.append('!');
   v0.tolower() on "abc" (v0 is the last owner of the original storage); v1.append(v2);
   v0.CapLength(1); v2 -= 2; compare v0 with v1; read v1[3] *)
Example C18str_history_is_safe :
  safe 3 [OSetLit 0 abc; OCopy 1 0; OCtorCopy 2 1; OSetChar 1 0 88; OAppendChar 2 33; OLower 0;
          OAppendStr 1 2; OCap 0 1; OMinus 2 2; OCmp 0 1; OGetChar 1 3] = true.
Proof. vm_compute. reflexivity. Qed.

Example C18str_model_history :
  run 3 [OSetLit 0 abc; OCopy 1 0; OCtorCopy 2 1; OSetChar 1 0 88; OAppendChar 2 33; OLower 0;
         OAppendStr 1 2; OCap 0 1; OMinus 2 2; OCmp 0 1; OGetChar 1 3] =
  [Ok (RNone, [(abc, 3); ([], 0); ([], 0)]);
   Ok (RNone, [(abc, 3); (abc, 3); ([], 0)]);
   Ok (RNone, [(abc, 3); (abc, 3); (abc, 3)]);
   Ok (RNone, [(abc, 3); ([88; 98; 99]%N, 3); (abc, 3)]);
   Ok (RNone, [(abc, 3); ([88; 98; 99]%N, 3); ([97; 98; 99; 33]%N, 4)]);
   Ok (RNone, [(abc, 3); ([88; 98; 99]%N, 3); ([97; 98; 99; 33]%N, 4)]);
   Ok (RNone, [(abc, 3); ([88; 98; 99; 97; 98; 99; 33]%N, 7); ([97; 98; 99; 33]%N, 4)]);
   Ok (RNone, [([97]%N, 1); ([88; 98; 99; 97; 98; 99; 33]%N, 7); ([97; 98; 99; 33]%N, 4)]);
   Ok (RNone, [([97]%N, 1); ([88; 98; 99; 97; 98; 99; 33]%N, 7); ([97; 98]%N, 2)]);
   Ok (RCmp false 1%Z (-1)%Z, [([97]%N, 1); ([88; 98; 99; 97; 98; 99; 33]%N, 7); ([97; 98]%N, 2)]);
   Ok (RChar 97, [([97]%N, 1); ([88; 98; 99; 97; 98; 99; 33]%N, 7); ([97; 98]%N, 2)])].
Proof. vm_compute. reflexivity. Qed.

(* what the model (and the real code) does on the first refuted history: after resize(8) the
   text is empty while the length is 8; the specification keeps "hello" *)
Example C18str_resize_in_the_model :
  run 1 [OSetLit 0 hello; OResize 0 8] =
  [Ok (RNone, [(hello, 5)]); Ok (RNone, [([], 8)])].
Proof. vm_compute. reflexivity. Qed.

Example C18str_resize_in_the_spec :
  spec_run 1 [OSetLit 0 hello; OResize 0 8] =
  [(RNone, [(hello, 5)]); (RNone, [(hello, 8)])].
Proof. vm_compute. reflexivity. Qed.

(* a.append(a) writes beyond its storage; appending nothing to a null string dereferences null *)
Example C18str_self_append_in_the_model :
  run 1 [OSetLit 0 [97; 98]%N; OAppendStr 0 0] = [Ok (RNone, [([97; 98]%N, 2)]); Crash Overflow].
Proof. vm_compute. reflexivity. Qed.

Example C18str_append_nothing_in_the_model : run 1 [OAppendLit 0 []] = [Crash NullDeref].
Proof. vm_compute. reflexivity. Qed.
