(* placeholder while the model is validated *)
From Coq Require Import NArith List.
From Morfuse Require Import Base.Arr C18str.Model C18str.Spec.
